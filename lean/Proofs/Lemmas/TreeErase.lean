/-
What an element looks like with identities and stored parent pointers erased, and the fact that
`set` / construction do not look at them: two runs of `element.set(raw)` on elements that agree
up to ids / parents (with any id counters) give elements that agree up to ids / parents, and the
same result flag or exception.  `sig` (what `Element.__eq__` compares) and `.value` factor
through the erasure.  This is what makes "the adapted value of a plain argument" well defined
for container member schemas (C09).
-/
import Flatland.Tree
import Proofs.Lemmas.TreeHdr
namespace Flatland.Tree
open Flatland.PyList

mutual
/-- forget ids, stored parents and the constructor keyword overrides -/
def erase : Node → Node
  | .mk i s kids => .mk { id := 0, parent := none, key := i.key, val := i.val, u := i.u } s (eraseL kids)
def eraseL : List Node → List Node
  | [] => []
  | k :: ks => erase k :: eraseL ks
end

theorem eraseL_eq_map (ks : List Node) : eraseL ks = ks.map erase := by
  induction ks with
  | nil => rfl
  | cons k ks ih => simp [eraseL, ih]

@[simp] theorem eraseL_nil : eraseL [] = [] := rfl
@[simp] theorem eraseL_cons (k : Node) (ks : List Node) : eraseL (k :: ks) = erase k :: eraseL ks := rfl

@[simp] theorem eraseL_append (a b : List Node) : eraseL (a ++ b) = eraseL a ++ eraseL b := by
  simp [eraseL_eq_map]

theorem eraseL_length {a b : List Node} (h : eraseL a = eraseL b) : a.length = b.length := by
  have := congrArg List.length h
  simpa [eraseL_eq_map] using this

theorem erase_mk (i : NInfo) (s : Schema) (kids : List Node) :
    erase (.mk i s kids) = .mk { id := 0, parent := none, key := i.key, val := i.val, u := i.u } s (eraseL kids) := by
  rw [erase]

/-- two nodes agree up to ids / parents -/
theorem erase_eq_iff (i i' : NInfo) (s s' : Schema) (kids kids' : List Node) :
    erase (.mk i s kids) = erase (.mk i' s' kids') ↔
      i.key = i'.key ∧ i.val = i'.val ∧ i.u = i'.u ∧ s = s' ∧ eraseL kids = eraseL kids' := by
  rw [erase_mk, erase_mk]
  constructor
  · intro h
    injection h with h1 h2 h3
    injection h1 with _ _ hk hv hu
    exact ⟨hk, hv, hu, h2, h3⟩
  · rintro ⟨hk, hv, hu, hs, hl⟩
    rw [hk, hv, hu, hs, hl]

theorem erase_sch {a b : Node} (h : erase a = erase b) : a.sch = b.sch := by
  cases a; cases b; exact ((erase_eq_iff _ _ _ _ _ _).mp h).2.2.2.1

theorem erase_key {a b : Node} (h : erase a = erase b) : a.key = b.key := by
  cases a; cases b; exact ((erase_eq_iff _ _ _ _ _ _).mp h).1

theorem erase_kids {a b : Node} (h : erase a = erase b) : eraseL a.kids = eraseL b.kids := by
  cases a; cases b; exact ((erase_eq_iff _ _ _ _ _ _).mp h).2.2.2.2

@[simp] theorem erase_withParent (n : Node) (p : Option Nat) : erase (n.withParent p) = erase n := by
  cases n; simp [Node.withParent, erase_mk, Node.ni, Node.sch, Node.kids]

theorem erase_withKids {a b : Node} (h : erase a = erase b) {ks ks' : List Node} (hk : eraseL ks = eraseL ks') :
    erase (a.withKids ks) = erase (b.withKids ks') := by
  cases a; cases b
  obtain ⟨h1, h2, h3, h4, _⟩ := (erase_eq_iff _ _ _ _ _ _).mp h
  simp only [Node.withKids, Node.ni, Node.sch]
  exact (erase_eq_iff _ _ _ _ _ _).mpr ⟨h1, h2, h3, h4, hk⟩

theorem erase_mkSlot (id id' lst lst' nm : Nat) {el el' : Node} (h : erase el = erase el') :
    erase (mkSlot id lst nm el) = erase (mkSlot id' lst' nm el') := by
  simp only [mkSlot, erase_mk, eraseL_cons, eraseL_nil, erase_withParent, h]

/-! ### `sig` and `.value` do not see ids / parents -/

mutual
theorem sig_erase : (n : Node) → sig (erase n) = sig n
  | .mk i s kids => by
    rw [erase_mk, sig, sig]
    rw [sigFirst_erase kids, sigL_erase kids, sigKV_erase kids]
theorem sigFirst_erase : (ks : List Node) → sigFirst (eraseL ks) = sigFirst ks
  | [] => rfl
  | k :: ks => by rw [eraseL_cons, sigFirst, sigFirst, sig_erase k]
theorem sigL_erase : (ks : List Node) → sigL (eraseL ks) = sigL ks
  | [] => rfl
  | k :: ks => by rw [eraseL_cons, sigL, sigL, sig_erase k, sigL_erase ks]
theorem sigKV_erase : (ks : List Node) → sigKV (eraseL ks) = sigKV ks
  | [] => rfl
  | k :: ks => by
    rw [eraseL_cons, sigKV, sigKV, sig_erase k, sigKV_erase ks]
    cases k; rfl
end

theorem sig_of_erase {a b : Node} (h : erase a = erase b) : sig a = sig b := by
  rw [← sig_erase a, ← sig_erase b, h]

/-! ### construction does not look at ids / parents -/

mutual
theorem blank_erase : (s : Schema) → ∀ (p p' : Option Nat) (k : Str) (n n' : Nat),
    erase (blank s p k n).1 = erase (blank s p' k n').1
  | .mk info dflt subs => by
    intro p p' k n n'
    rw [blank, blank]
    cases hk : info.kind <;> simp only [erase_mk, eraseL_nil]
    · rw [blankFields_erase subs n n' false (n + 1) (n' + 1)]
    · split
      · simp only [erase_mk]
        rw [blankFields_erase subs n n' true (n + 1) (n' + 1)]
      · simp only [erase_mk, eraseL_nil]
theorem blankFields_erase : (subs : List Schema) → ∀ (pid pid' : Nat) (b : Bool) (n n' : Nat),
    eraseL (blankFields subs pid b n).1 = eraseL (blankFields subs pid' b n').1
  | [] => by intro _ _ _ _ _; rfl
  | f :: fs => by
    intro pid pid' b n n'
    rw [blankFields, blankFields]
    split
    · exact blankFields_erase fs pid pid' b n n'
    · simp only [eraseL_cons]
      rw [blank_erase f (some pid) (some pid') f.key n n', blankFields_erase fs pid pid' b _ _]
end

theorem attachAll_ni (es : List Node) : ∀ (lst : Node) (n : Nat),
    (attachAll lst es n).1.ni = lst.ni ∧ (attachAll lst es n).1.sch = lst.sch := by
  induction es with
  | nil => intro lst n; exact ⟨rfl, rfl⟩
  | cons e es ih =>
    intro lst n
    rw [attachAll]
    split
    · have := ih (lst.withKids (lst.kids ++ [mkSlot n lst.id lst.kids.length e])) (n + 1)
      exact this
    · have := ih (lst.withKids (lst.kids ++ [e.withParent (some lst.id)])) n
      exact this

theorem attachAll_kids (es : List Node) : ∀ (es' : List Node) (lst lst' : Node) (n n' : Nat),
    lst.sch = lst'.sch → eraseL lst.kids = eraseL lst'.kids → eraseL es = eraseL es' →
    eraseL (attachAll lst es n).1.kids = eraseL (attachAll lst' es' n').1.kids := by
  induction es with
  | nil =>
    intro es' lst lst' n n' _ hl he
    cases es' with
    | nil => exact hl
    | cons _ _ => simp at he
  | cons e es ih =>
    intro es' lst lst' n n' hs hl he
    cases es' with
    | nil => simp at he
    | cons e' es' =>
      simp only [eraseL_cons, List.cons.injEq] at he
      have hkind : lst.kind = lst'.kind := by unfold Node.kind; rw [hs]
      have hlen : lst.kids.length = lst'.kids.length := eraseL_length hl
      rw [attachAll, attachAll]
      by_cases hk : lst.kind = .list
      · have hk' : lst'.kind = .list := hkind ▸ hk
        simp only [hk, hk', if_true]
        apply ih _ _ _ _ _ (by cases lst; cases lst'; exact hs) _ he.2
        cases lst; cases lst'
        simp only [Node.withKids, Node.kids] at hl hlen ⊢
        rw [eraseL_append, eraseL_append, hl, hlen]
        simp only [eraseL_cons, eraseL_nil]
        rw [erase_mkSlot n n' _ _ _ he.1]
      · have hk' : ¬ lst'.kind = .list := hkind ▸ hk
        simp only [hk, hk', if_false]
        apply ih _ _ _ _ _ (by cases lst; cases lst'; exact hs) _ he.2
        cases lst; cases lst'
        simp only [Node.withKids, Node.kids] at hl ⊢
        rw [eraseL_append, eraseL_append, hl]
        simp only [eraseL_cons, eraseL_nil, erase_withParent, he.1]

theorem node_eta (n : Node) : n = .mk n.ni n.sch n.kids := by cases n; rfl

theorem attachAll_erase (es es' : List Node) (lst lst' : Node) (n n' : Nat)
    (hl : erase lst = erase lst') (he : eraseL es = eraseL es') :
    erase (attachAll lst es n).1 = erase (attachAll lst' es' n').1 := by
  have hk := attachAll_kids es es' lst lst' n n' (erase_sch hl) (erase_kids hl) he
  have h1 := attachAll_ni es lst n
  have h2 := attachAll_ni es' lst' n'
  rw [node_eta (attachAll lst es n).1, node_eta (attachAll lst' es' n').1, h1.1, h1.2, h2.1, h2.2]
  cases lst; cases lst'
  obtain ⟨a, b, c, d, _⟩ := (erase_eq_iff _ _ _ _ _ _).mp hl
  exact (erase_eq_iff _ _ _ _ _ _).mpr ⟨a, b, c, d, hk⟩

theorem erase_key_eq (c : Node) : (erase c).key = c.key := by cases c; rfl

theorem findKid_eraseL (kids : List Node) (k : Str) : findKid (eraseL kids) k = (findKid kids k).map erase := by
  induction kids with
  | nil => rfl
  | cons c cs ih =>
    simp only [eraseL_cons, findKid, List.find?_cons, erase_key_eq] at ih ⊢
    split
    · rfl
    · exact ih

theorem replaceKid_eraseL (kids : List Node) (k : Str) (new : Node) :
    eraseL (replaceKid kids k new) = replaceKid (eraseL kids) k (erase new) := by
  induction kids with
  | nil => rfl
  | cons c cs ih =>
    simp only [replaceKid, List.map_cons, eraseL_cons, erase_key_eq] at ih ⊢
    rw [ih]
    split <;> rfl

/-! ### `set` on a sequence / a mapping, written as one function each -/

/-- the `Sequence.set` branch of `setNode` -/
def seqSet (i : NInfo) (s : Schema) (raw : Raw) (next : Nat) : SetR :=
  match s.member with
  | none => ⟨.mk i s [], next, .error .unsupported⟩
  | some m =>
    match raw with
    | .list xs =>
      (match (buildItems m xs next).2.2 with
       | .ok conv =>
         ⟨(attachAll (.mk i s []) (buildItems m xs next).1 (buildItems m xs next).2.1).1,
          (attachAll (.mk i s []) (buildItems m xs next).1 (buildItems m xs next).2.1).2, .ok conv⟩
       | .error .typeError => ⟨.mk i s [], (buildItems m xs next).2.1, .ok false⟩
       | .error e => ⟨.mk i s [], (buildItems m xs next).2.1, .error e⟩)
    | .none => ⟨.mk i s [], next, .ok false⟩
    | .int _ => ⟨.mk i s [], next, .ok false⟩
    | _ => ⟨.mk i s [], next, .error .unsupported⟩

theorem setNode_seq (i : NInfo) (s : Schema) (kids : List Node) (raw : Raw) (pol : Option Policy) (next : Nat)
    (hk : s.kind = .list ∨ s.kind = .array ∨ s.kind = .multi) :
    setNode (.mk i s kids) raw pol next = seqSet i s raw next := by
  unfold setNode seqSet
  rcases hk with hk | hk | hk <;> simp only [hk] <;> rfl

/-- the `Dict.set` branch of `setNode` for a dict-like value with pairs `kvs` -/
def mapSetKvs (i : NInfo) (s : Schema) (kvs : List (Str × Raw)) (pol : Option Policy) (next : Nat) : SetR :=
  match dictPrep i s kvs pol next with
  | .error r => r
  | .ok (fresh, next1) =>
    ⟨.mk i s (setPairs i.id s.subs fresh kvs next1).1, (setPairs i.id s.subs fresh kvs next1).2.1,
      (setPairs i.id s.subs fresh kvs next1).2.2⟩

theorem setNode_map (i : NInfo) (s : Schema) (kids : List Node) (raw : Raw) (pol : Option Policy) (next : Nat)
    (hk : s.kind = .dict ∨ s.kind = .sparse) :
    setNode (.mk i s kids) raw pol next =
      (match toPairs raw with
       | some (some kvs) => mapSetKvs i s kvs pol next
       | some none => ⟨.mk i s kids, next, .ok false⟩
       | none => ⟨.mk i s kids, next, .error .unsupported⟩) := by
  unfold setNode mapSetKvs
  rcases hk with hk | hk <;> simp only [hk] <;>
  · cases raw with
    | none => rfl
    | int _ => rfl
    | str t =>
      cases t <;> simp only [toPairs, setPairs]
      generalize dictPrep i s [] pol next = d
      rcases d with _ | ⟨_, _⟩ <;> rfl
    | list xs =>
      cases xs <;> simp only [toPairs, setPairs]
      generalize dictPrep i s [] pol next = d
      rcases d with _ | ⟨_, _⟩ <;> rfl
    | dict kvs =>
      simp only [toPairs]
      generalize dictPrep i s kvs pol next = d
      rcases d with _ | ⟨_, _⟩ <;> rfl
    | pairs kvs =>
      simp only [toPairs]
      generalize dictPrep i s kvs pol next = d
      rcases d with _ | ⟨_, _⟩ <;> rfl

/-! ### `set` does not look at ids / parents -/

/-- `element.set(raw)` on two elements that agree up to ids / parents, with any id counters:
    the results agree up to ids / parents and the returned flag / raised exception is the same -/
def SetIndep (raw : Raw) : Prop :=
  ∀ (a b : Node) (pol : Option Policy) (n n' : Nat), erase a = erase b →
    erase (setNode a raw pol n).node = erase (setNode b raw pol n').node ∧
    (setNode a raw pol n).res = (setNode b raw pol n').res

theorem buildItems_indep (m : Schema) (xs : List Raw) (h : ∀ x ∈ xs, SetIndep x) : ∀ (n n' : Nat),
    eraseL (buildItems m xs n).1 = eraseL (buildItems m xs n').1 ∧
    (buildItems m xs n).2.2 = (buildItems m xs n').2.2 := by
  induction xs with
  | nil => intro n n'; exact ⟨rfl, rfl⟩
  | cons x xs ih =>
    intro n n'
    have hb := blank_erase m none none [] n n'
    have hs := h x (by simp) (blank m none [] n).1 (blank m none [] n').1 none (blank m none [] n).2
      (blank m none [] n').2 hb
    have ih' := ih (fun y hy => h y (by simp [hy]))
      (setNode (blank m none [] n).1 x none (blank m none [] n).2).next
      (setNode (blank m none [] n').1 x none (blank m none [] n').2).next
    rw [buildItems, buildItems]
    dsimp only
    rw [← hs.2]
    cases (setNode (blank m none [] n).1 x none (blank m none [] n).2).res with
    | error e => exact ⟨rfl, rfl⟩
    | ok c =>
      dsimp only
      rw [← ih'.2]
      cases (buildItems m xs (setNode (blank m none [] n).1 x none (blank m none [] n).2).next).2.2 with
      | error e => exact ⟨rfl, rfl⟩
      | ok c' =>
        dsimp only
        rw [eraseL_cons, eraseL_cons, hs.1, ih'.1]
        exact ⟨rfl, rfl⟩

theorem setPairs_indep (subs : List Schema) (kvs : List (Str × Raw)) (h : ∀ p ∈ kvs, SetIndep p.2) :
    ∀ (pid pid' : Nat) (kids kids' : List Node) (n n' : Nat), eraseL kids = eraseL kids' →
      eraseL (setPairs pid subs kids kvs n).1 = eraseL (setPairs pid' subs kids' kvs n').1 ∧
      (setPairs pid subs kids kvs n).2.2 = (setPairs pid' subs kids' kvs n').2.2 := by
  induction kvs with
  | nil => intro pid pid' kids kids' n n' hE; exact ⟨hE, rfl⟩
  | cons kv rest ih =>
    intro pid pid' kids kids' n n' hE
    obtain ⟨k, v⟩ := kv
    have hv : SetIndep v := h (k, v) (by simp)
    have ih' := ih (fun p hp => h p (by simp [hp]))
    rw [setPairs, setPairs]
    cases hf : fieldFor subs k with
    | none => exact ih' pid pid' kids kids' n n' hE
    | some f =>
      dsimp only
      have hfk : (findKid kids k).map erase = (findKid kids' k).map erase := by
        rw [← findKid_eraseL, ← findKid_eraseL, hE]
      cases hc : findKid kids k with
      | some c =>
        cases hc' : findKid kids' k with
        | none => rw [hc, hc'] at hfk; cases hfk
        | some c' =>
          rw [hc, hc'] at hfk
          simp only [Option.map_some, Option.some.injEq] at hfk
          have hs := hv c c' none n n' hfk
          have hrep : eraseL (replaceKid kids k (setNode c v none n).node) =
              eraseL (replaceKid kids' k (setNode c' v none n').node) := by
            rw [replaceKid_eraseL, replaceKid_eraseL, hE, hs.1]
          dsimp only
          rw [← hs.2]
          cases (setNode c v none n).res with
          | error e => exact ⟨hrep, rfl⟩
          | ok b =>
            dsimp only
            have := ih' pid pid' _ _ (setNode c v none n).next (setNode c' v none n').next hrep
            exact ⟨this.1, by rw [this.2]⟩
      | none =>
        cases hc' : findKid kids' k with
        | some c' => rw [hc, hc'] at hfk; cases hfk
        | none =>
          have hb : erase ((blank f none k n).1.withParent (some pid)) =
              erase ((blank f none k n').1.withParent (some pid')) := by
            rw [erase_withParent, erase_withParent]; exact blank_erase f none none k n n'
          have hs := hv _ _ none (blank f none k n).2 (blank f none k n').2 hb
          have happ : eraseL (kids ++ [(setNode ((blank f none k n).1.withParent (some pid)) v none (blank f none k n).2).node]) =
              eraseL (kids' ++ [(setNode ((blank f none k n').1.withParent (some pid')) v none (blank f none k n').2).node]) := by
            rw [eraseL_append, eraseL_append, hE]
            simp only [eraseL_cons, eraseL_nil, hs.1]
          dsimp only
          rw [← hs.2]
          cases (setNode ((blank f none k n).1.withParent (some pid)) v none (blank f none k n).2).res with
          | error e => exact ⟨happ, rfl⟩
          | ok b =>
            dsimp only
            have := ih' pid pid' _ _
              (setNode ((blank f none k n).1.withParent (some pid)) v none (blank f none k n).2).next
              (setNode ((blank f none k n').1.withParent (some pid')) v none (blank f none k n').2).next happ
            exact ⟨this.1, by rw [this.2]⟩

theorem resetL_erase (s : Schema) (id id' n n' : Nat) :
    eraseL (if s.kind = .dict then blankFields s.subs id false n
      else if s.info.minreq then blankFields s.subs id true n else ([], n)).1 =
    eraseL (if s.kind = .dict then blankFields s.subs id' false n'
      else if s.info.minreq then blankFields s.subs id' true n' else ([], n')).1 := by
  split
  · exact blankFields_erase _ _ _ _ _ _
  · split
    · exact blankFields_erase _ _ _ _ _ _
    · rfl

theorem mapSetKvs_ni (i : NInfo) (s : Schema) (kvs : List (Str × Raw)) (pol : Option Policy) (n : Nat) :
    (mapSetKvs i s kvs pol n).node.ni = i ∧ (mapSetKvs i s kvs pol n).node.sch = s := by
  unfold mapSetKvs dictPrep
  dsimp only
  cases policyCheck (pol.getD s.info.policy) s.subs kvs <;> exact ⟨rfl, rfl⟩

/-- the children `Dict.set` leaves depend on nothing but the class, the pairs and the policy -/
theorem mapSetKvs_kids (i i' : NInfo) (s : Schema) (kvs : List (Str × Raw)) (h : ∀ p ∈ kvs, SetIndep p.2)
    (pol : Option Policy) (n n' : Nat) :
    eraseL (mapSetKvs i s kvs pol n).node.kids = eraseL (mapSetKvs i' s kvs pol n').node.kids ∧
    (mapSetKvs i s kvs pol n).res = (mapSetKvs i' s kvs pol n').res := by
  unfold mapSetKvs dictPrep
  dsimp only
  have hr := resetL_erase s i.id i'.id n n'
  cases policyCheck (pol.getD s.info.policy) s.subs kvs with
  | error e => exact ⟨hr, rfl⟩
  | ok u =>
    dsimp only
    exact setPairs_indep s.subs kvs h i.id i'.id _ _
      (if s.kind = .dict then blankFields s.subs i.id false n
        else if s.info.minreq then blankFields s.subs i.id true n else ([], n)).2
      (if s.kind = .dict then blankFields s.subs i'.id false n'
        else if s.info.minreq then blankFields s.subs i'.id true n' else ([], n')).2 hr

theorem mapSetKvs_indep (i i' : NInfo) (s : Schema) (kvs : List (Str × Raw)) (h : ∀ p ∈ kvs, SetIndep p.2)
    (pol : Option Policy) (n n' : Nat) (hk : i.key = i'.key) (hv : i.val = i'.val) (hu : i.u = i'.u) :
    erase (mapSetKvs i s kvs pol n).node = erase (mapSetKvs i' s kvs pol n').node ∧
    (mapSetKvs i s kvs pol n).res = (mapSetKvs i' s kvs pol n').res := by
  have hkk := mapSetKvs_kids i i' s kvs h pol n n'
  have h1 := mapSetKvs_ni i s kvs pol n
  have h2 := mapSetKvs_ni i' s kvs pol n'
  refine ⟨?_, hkk.2⟩
  rw [node_eta (mapSetKvs i s kvs pol n).node, node_eta (mapSetKvs i' s kvs pol n').node, h1.1, h1.2, h2.1, h2.2]
  exact (erase_eq_iff _ _ _ _ _ _).mpr ⟨hk, hv, hu, rfl, hkk.1⟩

theorem seqSet_ni (i : NInfo) (s : Schema) (raw : Raw) (n : Nat) :
    (seqSet i s raw n).node.ni = i ∧ (seqSet i s raw n).node.sch = s := by
  unfold seqSet
  cases s.member with
  | none => exact ⟨rfl, rfl⟩
  | some m =>
    dsimp only
    cases raw with
    | list xs =>
      dsimp only
      cases (buildItems m xs n).2.2 with
      | ok conv => exact attachAll_ni _ _ _
      | error e => cases e <;> exact ⟨rfl, rfl⟩
    | none => exact ⟨rfl, rfl⟩
    | int _ => exact ⟨rfl, rfl⟩
    | str _ => exact ⟨rfl, rfl⟩
    | dict _ => exact ⟨rfl, rfl⟩
    | pairs _ => exact ⟨rfl, rfl⟩

/-- the items `Sequence.set` leaves depend on nothing but the class and the value -/
theorem seqSet_kids (i i' : NInfo) (s : Schema) (raw : Raw) (h : ∀ xs, raw = .list xs → ∀ x ∈ xs, SetIndep x)
    (n n' : Nat) :
    eraseL (seqSet i s raw n).node.kids = eraseL (seqSet i' s raw n').node.kids ∧
    (seqSet i s raw n).res = (seqSet i' s raw n').res := by
  unfold seqSet
  cases s.member with
  | none => exact ⟨rfl, rfl⟩
  | some m =>
    dsimp only
    cases raw with
    | list xs =>
      have hb := buildItems_indep m xs (h xs rfl) n n'
      dsimp only
      rw [← hb.2]
      cases (buildItems m xs n).2.2 with
      | ok conv => exact ⟨attachAll_kids _ _ _ _ _ _ rfl rfl hb.1, rfl⟩
      | error e => cases e <;> exact ⟨rfl, rfl⟩
    | none => exact ⟨rfl, rfl⟩
    | int _ => exact ⟨rfl, rfl⟩
    | str _ => exact ⟨rfl, rfl⟩
    | dict _ => exact ⟨rfl, rfl⟩
    | pairs _ => exact ⟨rfl, rfl⟩

theorem seqSet_indep (i i' : NInfo) (s : Schema) (raw : Raw) (h : ∀ xs, raw = .list xs → ∀ x ∈ xs, SetIndep x)
    (n n' : Nat) (hk : i.key = i'.key) (hv : i.val = i'.val) (hu : i.u = i'.u) :
    erase (seqSet i s raw n).node = erase (seqSet i' s raw n').node ∧
    (seqSet i s raw n).res = (seqSet i' s raw n').res := by
  have hkk := seqSet_kids i i' s raw h n n'
  have h1 := seqSet_ni i s raw n
  have h2 := seqSet_ni i' s raw n'
  refine ⟨?_, hkk.2⟩
  rw [node_eta (seqSet i s raw n).node, node_eta (seqSet i' s raw n').node, h1.1, h1.2, h2.1, h2.2]
  exact (erase_eq_iff _ _ _ _ _ _).mpr ⟨hk, hv, hu, rfl, hkk.1⟩

theorem setIndep_core (raw : Raw) (hl : ∀ xs, raw = .list xs → ∀ x ∈ xs, SetIndep x)
    (hd : ∀ kvs, toPairs raw = some (some kvs) → ∀ p ∈ kvs, SetIndep p.2) : SetIndep raw := by
  intro a b pol n n' hE
  cases a with
  | mk i s kids =>
  cases b with
  | mk i' s' kids' =>
  obtain ⟨hk, hv, hu, hs, hkids⟩ := (erase_eq_iff _ _ _ _ _ _).mp hE
  subst hs
  cases hkind : s.kind with
  | integer =>
    unfold setNode
    simp only [hkind]
    cases adaptScalar .integer raw with
    | none => exact ⟨hE, rfl⟩
    | some t =>
      obtain ⟨v, u, ok⟩ := t
      exact ⟨(erase_eq_iff _ _ _ _ _ _).mpr ⟨hk, rfl, rfl, rfl, hkids⟩, rfl⟩
  | string =>
    unfold setNode
    simp only [hkind]
    cases adaptScalar .string raw with
    | none => exact ⟨hE, rfl⟩
    | some t =>
      obtain ⟨v, u, ok⟩ := t
      exact ⟨(erase_eq_iff _ _ _ _ _ _).mpr ⟨hk, rfl, rfl, rfl, hkids⟩, rfl⟩
  | slot =>
    unfold setNode
    simp only [hkind]
    exact ⟨hE, trivial⟩
  | list =>
    rw [setNode_seq _ _ _ _ _ _ (Or.inl hkind), setNode_seq _ _ _ _ _ _ (Or.inl hkind)]
    exact seqSet_indep i i' s raw hl n n' hk hv hu
  | array =>
    rw [setNode_seq _ _ _ _ _ _ (Or.inr (Or.inl hkind)), setNode_seq _ _ _ _ _ _ (Or.inr (Or.inl hkind))]
    exact seqSet_indep i i' s raw hl n n' hk hv hu
  | multi =>
    rw [setNode_seq _ _ _ _ _ _ (Or.inr (Or.inr hkind)), setNode_seq _ _ _ _ _ _ (Or.inr (Or.inr hkind))]
    exact seqSet_indep i i' s raw hl n n' hk hv hu
  | dict =>
    rw [setNode_map _ _ _ _ _ _ (Or.inl hkind), setNode_map _ _ _ _ _ _ (Or.inl hkind)]
    cases htp : toPairs raw with
    | none => exact ⟨hE, rfl⟩
    | some o =>
      cases o with
      | none => exact ⟨hE, rfl⟩
      | some kvs => exact mapSetKvs_indep i i' s kvs (hd kvs htp) pol n n' hk hv hu
  | sparse =>
    rw [setNode_map _ _ _ _ _ _ (Or.inr hkind), setNode_map _ _ _ _ _ _ (Or.inr hkind)]
    cases htp : toPairs raw with
    | none => exact ⟨hE, rfl⟩
    | some o =>
      cases o with
      | none => exact ⟨hE, rfl⟩
      | some kvs => exact mapSetKvs_indep i i' s kvs (hd kvs htp) pol n n' hk hv hu

theorem sizeOf_snd_lt_of_mem {kvs : List (Str × Raw)} {p : Str × Raw} (h : p ∈ kvs) : sizeOf p.2 < sizeOf kvs := by
  have := List.sizeOf_lt_of_mem h
  obtain ⟨k, v⟩ := p
  simp only [Prod.mk.sizeOf_spec] at this
  simp only
  omega

/-- **`set` is blind to ids and stored parents.** -/
theorem setNode_indep : (raw : Raw) → SetIndep raw
  | .none => setIndep_core _ (by intro xs h; cases h) (by intro kvs h; simp [toPairs] at h)
  | .int _ => setIndep_core _ (by intro xs h; cases h) (by intro kvs h; simp [toPairs] at h)
  | .str t => setIndep_core _ (by intro xs h; cases h)
      (by
        intro kvs h p hp
        cases t with
        | nil => simp [toPairs] at h; subst h; cases hp
        | cons _ _ => simp [toPairs] at h)
  | .list xs => setIndep_core _
      (by
        intro xs' h x hx
        cases h
        have := List.sizeOf_lt_of_mem hx
        exact setNode_indep x)
      (by
        intro kvs h p hp
        cases xs with
        | nil => simp [toPairs] at h; subst h; cases hp
        | cons _ _ => simp [toPairs] at h)
  | .dict kvs => setIndep_core _ (by intro xs h; cases h)
      (by
        intro kvs' h p hp
        simp only [toPairs, Option.some.injEq] at h
        subst h
        have := sizeOf_snd_lt_of_mem hp
        exact setNode_indep p.2)
  | .pairs kvs => setIndep_core _ (by intro xs h; cases h)
      (by
        intro kvs' h p hp
        simp only [toPairs, Option.some.injEq] at h
        subst h
        have := sizeOf_snd_lt_of_mem hp
        exact setNode_indep p.2)
termination_by raw => sizeOf raw
decreasing_by
  all_goals simp_wf
  all_goals omega

/-! ### `from_defaults()` does not look at ids / parents either -/

def FDIndep (s : Schema) : Prop :=
  ∀ (p p' : Option Nat) (k : Str) (n n' : Nat),
    erase (fromDefaults s p k n).node = erase (fromDefaults s p' k n').node ∧
    (fromDefaults s p k n).res = (fromDefaults s p' k n').res

theorem defaultSlotsWith_indep (mk mk' : Nat → SetR)
    (h : ∀ nx nx', erase (mk nx).node = erase (mk' nx').node ∧ (mk nx).res = (mk' nx').res)
    (lst lst' : Nat) (k : Nat) : ∀ (idx n n' : Nat),
    eraseL (defaultSlotsWith mk lst k idx n).1 = eraseL (defaultSlotsWith mk' lst' k idx n').1 ∧
    (defaultSlotsWith mk lst k idx n).2.2 = (defaultSlotsWith mk' lst' k idx n').2.2 := by
  induction k with
  | zero => intro idx n n'; exact ⟨rfl, rfl⟩
  | succ k ih =>
    intro idx n n'
    have hm := h (n + 1) (n' + 1)
    rw [defaultSlotsWith, defaultSlotsWith]
    dsimp only
    rw [← hm.2]
    cases (mk (n + 1)).res with
    | error e =>
      dsimp only
      rw [eraseL_cons, eraseL_cons, erase_mkSlot n n' lst lst' idx hm.1]
      exact ⟨rfl, rfl⟩
    | ok b =>
      dsimp only
      have := ih (idx + 1) (mk (n + 1)).next (mk' (n' + 1)).next
      rw [eraseL_cons, eraseL_cons, erase_mkSlot n n' lst lst' idx hm.1, this.1]
      exact ⟨rfl, this.2⟩

theorem defaultFields_indep (fs : List Schema) (h : ∀ f ∈ fs, FDIndep f) : ∀ (pid pid' : Nat) (b : Bool) (n n' : Nat),
    eraseL (defaultFields fs pid b n).1 = eraseL (defaultFields fs pid' b n').1 ∧
    (defaultFields fs pid b n).2.2 = (defaultFields fs pid' b n').2.2 := by
  induction fs with
  | nil => intro _ _ _ _ _; exact ⟨rfl, rfl⟩
  | cons f fs ih =>
    intro pid pid' b n n'
    have ih' := ih (fun g hg => h g (by simp [hg]))
    have hf := h f (by simp) (some pid) (some pid') f.key n n'
    rw [defaultFields, defaultFields]
    split
    · exact ih' pid pid' b n n'
    · dsimp only
      rw [← hf.2]
      cases (fromDefaults f (some pid) f.key n).res with
      | error e =>
        dsimp only
        cases b with
        | true =>
          simp only [if_true, eraseL_cons]
          rw [blank_erase f (some pid) (some pid') f.key _ (fromDefaults f (some pid') f.key n').next,
            blankFields_erase fs pid pid' true _
              (blank f (some pid') f.key (fromDefaults f (some pid') f.key n').next).2]
          exact ⟨rfl, trivial⟩
        | false =>
          simp only [Bool.false_eq_true, if_false, eraseL_cons]
          rw [hf.1, blankFields_erase fs pid pid' false _ (fromDefaults f (some pid') f.key n').next]
          exact ⟨rfl, trivial⟩
      | ok c =>
        dsimp only
        have := ih' pid pid' b (fromDefaults f (some pid) f.key n).next (fromDefaults f (some pid') f.key n').next
        rw [eraseL_cons, eraseL_cons, hf.1, this.1]
        exact ⟨rfl, this.2⟩

theorem blank_ni (s : Schema) (p : Option Nat) (k : Str) (n : Nat) :
    (blank s p k n).1.ni = { id := n, parent := p, key := k } ∧ (blank s p k n).1.sch = s := by
  cases s with
  | mk info dflt subs =>
    rw [blank]
    cases info.kind <;> dsimp only <;> first | exact ⟨rfl, rfl⟩ | (split <;> exact ⟨rfl, rfl⟩)

theorem fd_core (info : SInfo) (dflt : Raw) (subs : List Schema) (hsubs : ∀ f ∈ subs, FDIndep f) :
    FDIndep (.mk info dflt subs) := by
  intro p p' k n n'
  have hb := blank_erase (.mk info dflt subs) p p' k n n'
  have hset : ∀ d, erase (setNode (blank (.mk info dflt subs) p k n).1 d none (blank (.mk info dflt subs) p k n).2).node =
      erase (setNode (blank (.mk info dflt subs) p' k n').1 d none (blank (.mk info dflt subs) p' k n').2).node ∧
      (setNode (blank (.mk info dflt subs) p k n).1 d none (blank (.mk info dflt subs) p k n).2).res =
      (setNode (blank (.mk info dflt subs) p' k n').1 d none (blank (.mk info dflt subs) p' k n').2).res :=
    fun d => setNode_indep d _ _ none _ _ hb
  have hwk : ∀ ks ks' : List Node, eraseL ks = eraseL ks' →
      erase ((blank (.mk info dflt subs) p k n).1.withKids ks) = erase ((blank (.mk info dflt subs) p' k n').1.withKids ks') :=
    fun ks ks' h => erase_withKids hb h
  unfold fromDefaults
  dsimp only
  cases hkind : info.kind with
  | integer => exact hset dflt
  | string => exact hset dflt
  | slot => exact ⟨hb, rfl⟩
  | list =>
    dsimp only
    cases dflt with
    | none => exact ⟨hb, rfl⟩
    | int c =>
      dsimp only
      cases subs with
      | nil => exact ⟨hb, rfl⟩
      | cons m rest =>
        dsimp only
        have := defaultSlotsWith_indep (fun nx => fromDefaults m none [] nx) (fun nx => fromDefaults m none [] nx)
          (fun nx nx' => hsubs m (by simp) none none [] nx nx')
          (blank (.mk info (.int c) (m :: rest)) p k n).1.id (blank (.mk info (.int c) (m :: rest)) p' k n').1.id
          c.toNat 0 (blank (.mk info (.int c) (m :: rest)) p k n).2 (blank (.mk info (.int c) (m :: rest)) p' k n').2
        exact ⟨hwk _ _ this.1, this.2⟩
    | str _ => exact hset _
    | list _ => exact hset _
    | dict _ => exact hset _
    | pairs _ => exact hset _
  | array =>
    dsimp only
    cases dflt with
    | none => exact ⟨hb, rfl⟩
    | list xs =>
      dsimp only
      cases subs with
      | nil => exact ⟨hb, rfl⟩
      | cons m rest =>
        dsimp only
        have hbi := buildItems_indep m xs (fun x _ => setNode_indep x)
          (blank (.mk info (.list xs) (m :: rest)) p k n).2 (blank (.mk info (.list xs) (m :: rest)) p' k n').2
        rw [← hbi.2]
        cases (buildItems m xs (blank (.mk info (.list xs) (m :: rest)) p k n).2).2.2 with
        | ok _ => exact ⟨attachAll_erase _ _ _ _ _ _ hb hbi.1, rfl⟩
        | error _ => exact ⟨hb, rfl⟩
    | int _ => exact ⟨hb, rfl⟩
    | str _ => exact ⟨hb, rfl⟩
    | dict _ => exact ⟨hb, rfl⟩
    | pairs _ => exact ⟨hb, rfl⟩
  | multi =>
    dsimp only
    cases dflt with
    | none => exact ⟨hb, rfl⟩
    | list xs =>
      dsimp only
      cases subs with
      | nil => exact ⟨hb, rfl⟩
      | cons m rest =>
        dsimp only
        have hbi := buildItems_indep m xs (fun x _ => setNode_indep x)
          (blank (.mk info (.list xs) (m :: rest)) p k n).2 (blank (.mk info (.list xs) (m :: rest)) p' k n').2
        rw [← hbi.2]
        cases (buildItems m xs (blank (.mk info (.list xs) (m :: rest)) p k n).2).2.2 with
        | ok _ => exact ⟨attachAll_erase _ _ _ _ _ _ hb hbi.1, rfl⟩
        | error _ => exact ⟨hb, rfl⟩
    | int _ => exact ⟨hb, rfl⟩
    | str _ => exact ⟨hb, rfl⟩
    | dict _ => exact ⟨hb, rfl⟩
    | pairs _ => exact ⟨hb, rfl⟩
  | dict =>
    dsimp only
    cases dflt with
    | none =>
      dsimp only
      have := defaultFields_indep subs hsubs (blank (.mk info .none subs) p k n).1.id (blank (.mk info .none subs) p' k n').1.id
        false (blank (.mk info .none subs) p k n).2 (blank (.mk info .none subs) p' k n').2
      exact ⟨hwk _ _ this.1, this.2⟩
    | int _ => exact hset _
    | str _ => exact hset _
    | list _ => exact hset _
    | dict _ => exact hset _
    | pairs _ => exact hset _
  | sparse =>
    dsimp only
    cases dflt with
    | none =>
      dsimp only
      split
      · have := defaultFields_indep subs hsubs (blank (.mk info .none subs) p k n).1.id (blank (.mk info .none subs) p' k n').1.id
          true (blank (.mk info .none subs) p k n).2 (blank (.mk info .none subs) p' k n').2
        exact ⟨hwk _ _ this.1, this.2⟩
      · exact ⟨hwk [] [] rfl, rfl⟩
    | int _ => exact hset _
    | str _ => exact hset _
    | list _ => exact hset _
    | dict _ => exact hset _
    | pairs _ => exact hset _

/-- **`from_defaults()` is blind to ids and stored parents.** -/
theorem fromDefaults_indep : (s : Schema) → FDIndep s
  | .mk info dflt subs => fd_core info dflt subs (fun f hf => by
      have := List.sizeOf_lt_of_mem hf
      exact fromDefaults_indep f)
termination_by s => sizeOf s
decreasing_by
  all_goals simp_wf
  all_goals omega

end Flatland.Tree
