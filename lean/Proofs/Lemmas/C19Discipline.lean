/-
Stack discipline theorems of C19: unknown options are rejected without disturbing anything,
unbalanced end() raises, end() restores exactly the settings before the matching begin().
-/
import Proofs.Lemmas.C19Stack
namespace Flatland.C19.Proofs
open Flatland.Markup Flatland.C19 Flatland.C19.Spec

/-- some option name of the call is not a known setting -/
def hasUnknown (g : Gen) (settings : List (Str × CVal)) : Prop := ∃ kv ∈ settings, g.ctx.has kv.1 = false

/-- `begin(**settings)` with an unknown option raises KeyError and leaves every frame as it was -/
theorem begin_unknown_rejected (g : Gen) (s : List (Str × CVal)) (h : hasUnknown g s) :
    g.begin s = ⟨g, some .keyError⟩ := by
  rcases begin_cases g s with ⟨c', hu, _⟩ | ⟨_, hb⟩
  · have : Ctx.update ⟨g.ctx.top, g.ctx.top :: g.ctx.below⟩ s = .error .keyError :=
      update_unknown (c := ⟨g.ctx.top, g.ctx.top :: g.ctx.below⟩) h
    rw [this] at hu; simp at hu
  · exact hb

/-- `update(**settings)` likewise (this is the repaired D-C19-1: nothing is applied first) -/
theorem update_unknown_rejected (g : Gen) (s : List (Str × CVal)) (h : hasUnknown g s) :
    g.update s = ⟨g, some .keyError⟩ := by
  have : g.ctx.update s = .error .keyError := update_unknown h
  simp [Gen.update, this]

/-- `generator[key] = value` with an unknown key -/
theorem setItem_unknown_rejected (g : Gen) (k : Str) (v : CVal) (h : g.ctx.has k = false) :
    g.setItem k v = ⟨g, some .keyError⟩ := by
  simp [Gen.setItem, Ctx.setItem, h, throw, throwThe, MonadExceptOf.throw]

theorem setUpdates_unknown (T : Tables) (c : Ctx) : ∀ (s : List (Str × CVal)),
    (∃ kv ∈ s, c.has kv.1 = false) → ∃ e, setUpdates T c s = .error e
  | [], h => by obtain ⟨kv, hkv, _⟩ := h; simp at hkv
  | (k, v) :: rest, h => by
    by_cases hk : c.has k = true
    · have hrest : ∃ kv ∈ rest, c.has kv.1 = false := by
        obtain ⟨kv, hkv, hf⟩ := h
        simp only [List.mem_cons] at hkv
        rcases hkv with rfl | hkv
        · rw [hk] at hf; simp at hf
        · exact ⟨kv, hkv, hf⟩
      obtain ⟨e, he⟩ := setUpdates_unknown T c rest hrest
      simp only [setUpdates, hk, Bool.not_true, Bool.false_eq_true, if_false, bind, Except.bind, he]
      split
      · cases T.parseTroolC v with
        | error e1 => exact ⟨e1, rfl⟩
        | ok w => exact ⟨e, rfl⟩
      · exact ⟨e, rfl⟩
    · simp only [Bool.not_eq_true] at hk
      exact ⟨.typeError, by simp [setUpdates, hk, bind, Except.bind, throw, throwThe, MonadExceptOf.throw]⟩

/-- `set(**settings)` with an unknown option raises and applies NONE of the settings -/
theorem set_unknown_rejected (T : Tables) (g : Gen) (s : List (Str × CVal)) (h : hasUnknown g s) :
    ∃ e, g.set T s = ⟨g, some e⟩ := by
  obtain ⟨e, he⟩ := setUpdates_unknown T g.ctx s h
  exact ⟨e, by simp [Gen.set, he]⟩

/-- the error of `set()` for an unknown option is a TypeError when every value is an option value -/
theorem set_unknown_typeError (T : Tables) (g : Gen) (k : Str) (v : CVal) (h : g.ctx.has k = false) :
    g.set T [(k, v)] = ⟨g, some .typeError⟩ := by
  simp [Gen.set, setUpdates, h, bind, Except.bind, throw, throwThe, MonadExceptOf.throw]

/-- `end()` without an open block raises RuntimeError and changes nothing -/
theorem unbalanced_end_raises (g : Gen) (h : g.ctx.depth = 2) : g.end_ = ⟨g, some .runtimeError⟩ := by
  simp [Gen.end_, h]

/-- every intermediate generator of the run stays at depth ≥ `d` -/
def staysAbove (T : Tables) (R : RenderCfg) (d : Nat) : Gen → List Op → Bool
  | _, [] => true
  | g, op :: rest =>
    decide (d ≤ (step T R g op).1.ctx.depth) && staysAbove T R d (step T R g op).1 rest

theorem runGen_cons (T : Tables) (R : RenderCfg) (g : Gen) (op : Op) (rest : List Op) :
    runGen T R g (op :: rest) = runGen T R (step T R g op).1 rest := by
  simp [runGen, run]

/-- while the run stays at or above the depth it started from, the frames below never change -/
theorem below_suffix (T : Tables) (R : RenderCfg) (B : List Frame) :
    ∀ (ops : List Op) (g : Gen) (pre : List Frame), g.ctx.below = pre ++ B →
      staysAbove T R (B.length + 1) g ops = true →
      ∃ pre', (runGen T R g ops).ctx.below = pre' ++ B ∧ (runGen T R g ops).xml = g.xml
  | [], g, pre, hb, _ => ⟨pre, hb, rfl⟩
  | op :: rest, g, pre, hb, hs => by
    simp only [staysAbove, Bool.and_eq_true, decide_eq_true_eq] at hs
    obtain ⟨hmove, hx⟩ := step_move T R g op
    rw [runGen_cons]
    have next : ∀ pre1, (step T R g op).1.ctx.below = pre1 ++ B →
        ∃ pre', (runGen T R (step T R g op).1 rest).ctx.below = pre' ++ B ∧
          (runGen T R (step T R g op).1 rest).xml = g.xml := by
      intro pre1 h1
      obtain ⟨p, hp, hxx⟩ := below_suffix T R B rest _ pre1 h1 hs.2
      exact ⟨p, hp, by rw [hxx, hx]⟩
    rcases hmove with hk | hp | ⟨f, rs, hbl, _, hc⟩
    · exact next pre (by rw [hk, hb])
    · exact next (g.ctx.top :: pre) (by rw [hp, hb]; rfl)
    · cases pre with
      | nil =>
        -- popping here would go below the starting depth
        exfalso
        have h1 := hs.1
        rw [hc] at h1
        simp only [List.nil_append] at hb
        have : B = f :: rs := by rw [← hb, hbl]
        simp [Ctx.depth, this] at h1
        omega
      | cons p ps =>
        have : rs = ps ++ B := by
          rw [hbl] at hb; simp only [List.cons_append, List.cons.injEq] at hb; exact hb.2
        exact next ps (by rw [hc]; exact this)

/-- END RESTORES: if `begin(**s)` is accepted, the body never closes more blocks than it opened
    and ends at the depth it started from (i.e. the next `end()` is the matching one), then that
    `end()` is accepted and the generator is EXACTLY the one before the `begin()` — every
    setting of every frame, including the tabindex counter. -/
theorem end_restores (T : Tables) (R : RenderCfg) (g g1 : Gen) (s : List (Str × CVal)) (body : List Op)
    (hdepth : 2 ≤ g.ctx.depth)
    (hbegin : g.begin s = ⟨g1, none⟩)
    (hstay : staysAbove T R g1.ctx.depth g1 body = true)
    (hfin : (runGen T R g1 body).ctx.depth = g1.ctx.depth) :
    (runGen T R g1 body).end_ = ⟨g, none⟩ := by
  rcases begin_cases g s with ⟨c', hu, hb⟩ | ⟨_, hb⟩
  · rw [hb] at hbegin
    simp only [Step.mk.injEq, and_true] at hbegin
    subst hbegin
    obtain ⟨hbl, _, _⟩ := update_ok hu
    simp only at hbl hstay hfin
    have hd1 : c'.depth = (g.ctx.top :: g.ctx.below).length + 1 := by simp [Ctx.depth, hbl]
    rw [hd1] at hstay
    obtain ⟨pre, hpre, hxml⟩ := below_suffix T R (g.ctx.top :: g.ctx.below) body
      { xml := g.xml, ctx := c' } [] (by simpa using hbl) hstay
    have hlen : pre = [] := by
      have : (runGen T R { xml := g.xml, ctx := c' } body).ctx.depth = c'.depth := hfin
      rw [hd1] at this
      simp only [Ctx.depth, hpre, List.length_append, List.length_cons] at this
      cases pre with
      | nil => rfl
      | cons a as => simp at this
    subst hlen
    simp only [List.nil_append] at hpre
    rcases end_cases (runGen T R { xml := g.xml, ctx := c' } body) with ⟨f, rest, hbb, _, he⟩ | ⟨e, _, hbad⟩
    · rw [he]
      rw [hpre] at hbb
      simp only [List.cons.injEq] at hbb
      obtain ⟨rfl, rfl⟩ := hbb
      simp only [hxml]
    · exfalso
      rcases hbad with h2 | hnil
      · simp only [Ctx.depth, hpre, List.length_cons] at h2
        simp only [Ctx.depth] at hdepth
        omega
      · rw [hpre] at hnil; simp at hnil
  · rw [hb] at hbegin; simp at hbegin

end Flatland.C19.Proofs
