/-
Helper lemmas about the queue loop of `flatten` (model `bfsFlat`): level decomposition,
permutation with the per-child outputs, and membership.
-/
import Flatland.Flat
namespace Flatland.Flat

/-- the pair an item emits itself -/
def ownPair (sep : Str) (it : QItem) : List (Str × Str) :=
  if it.2.fl then [(joinSep sep (namePath it.1 it.2), it.2.u)] else []

/-- the items an item pushes on the queue -/
def pushed (it : QItem) : List QItem :=
  if it.2.cfl then childItems it.1 it.2 else []

/-- `element.flatten(sep)` for an element whose ancestors contribute the names `p` -/
def flattenAt (sep : Str) (p : List Str) (n : FNode) : List (Str × Str) :=
  ownPair sep (p, n) ++ bfsFlat sep (pushed (p, n))

theorem flattenNode_eq (sep : Str) (n : FNode) : flattenNode sep n = flattenAt sep [] n := by
  unfold flattenNode flattenAt ownPair pushed
  simp only
  congr 1
  split <;> simp [bfsFlat]

theorem bfsFlat_nil (sep : Str) : bfsFlat sep [] = [] := by rw [bfsFlat]

theorem bfsFlat_cons (sep : Str) (it : QItem) (q : List QItem) :
    bfsFlat sep (it :: q) = ownPair sep it ++ bfsFlat sep (q ++ pushed it) := by
  obtain ⟨p, n⟩ := it
  rw [bfsFlat]; rfl

theorem qsize_pushed_lt (it : QItem) : qsize (pushed it) < qsize [it] := by
  obtain ⟨p, n⟩ := it
  obtain ⟨name, fl, cfl, u, slots, kids⟩ := n
  simp only [pushed, qsize, FNode.size]
  split
  · simp [childItems, qsize_kidsFrom, FNode.kids]
  · simp [qsize]; omega

theorem qsize_cons (it : QItem) (q : List QItem) : qsize (it :: q) = qsize [it] + qsize q := by
  obtain ⟨p, n⟩ := it; simp [qsize]

theorem qsize_flatMap_pushed (q : List QItem) :
    qsize (q.flatMap pushed) + q.length ≤ qsize q := by
  induction q with
  | nil => simp [qsize]
  | cons it q ih =>
    have h := qsize_pushed_lt it
    simp only [List.flatMap_cons, qsize_append, List.length_cons]
    rw [qsize_cons it q]
    omega

/-- queue BFS processes the front segment, then continues with what it pushed -/
theorem bfsFlat_append (sep : Str) (q r : List QItem) :
    bfsFlat sep (q ++ r) = q.flatMap (ownPair sep) ++ bfsFlat sep (r ++ q.flatMap pushed) := by
  induction q generalizing r with
  | nil => simp
  | cons it q ih =>
    simp only [List.cons_append, bfsFlat_cons, List.flatMap_cons]
    rw [List.append_assoc, ih]
    simp [List.append_assoc]

/-- **level order**: one whole level first, then everything those elements pushed -/
theorem bfsFlat_level (sep : Str) (q : List QItem) :
    bfsFlat sep q = q.flatMap (ownPair sep) ++ bfsFlat sep (q.flatMap pushed) := by
  have := bfsFlat_append sep q []
  simpa using this

/-- the output for a concatenated queue is a permutation of the two outputs -/
theorem bfsFlat_append_perm (sep : Str) (a b : List QItem) :
    (bfsFlat sep (a ++ b)).Perm (bfsFlat sep a ++ bfsFlat sep b) := by
  induction h : qsize (a ++ b) using Nat.strongRecOn generalizing a b with
  | _ n ih =>
    by_cases hab : a ++ b = []
    · have ha : a = [] := (List.append_eq_nil_iff.mp hab).1
      have hb : b = [] := (List.append_eq_nil_iff.mp hab).2
      subst ha; subst hb; simp [bfsFlat_nil]
    · rw [bfsFlat_level sep (a ++ b), bfsFlat_level sep a, bfsFlat_level sep b]
      simp only [List.flatMap_append]
      have hs := qsize_flatMap_pushed (a ++ b)
      have hlen : 0 < (a ++ b).length := List.length_pos_iff.mpr hab
      have hlt : qsize (a.flatMap pushed ++ b.flatMap pushed) < n := by
        rw [← List.flatMap_append]; omega
      have := ih _ hlt (a.flatMap pushed) (b.flatMap pushed) rfl
      -- rearrange:  A ++ B ++ X   with  X ~ XA ++ XB   into  (A ++ XA) ++ (B ++ XB)
      refine List.Perm.trans (List.Perm.append_left _ this) ?_
      simp only [List.append_assoc]
      apply List.Perm.append_left
      rw [← List.append_assoc, ← List.append_assoc]
      apply List.Perm.append_right
      exact List.perm_append_comm

theorem bfsFlat_single (sep : Str) (it : QItem) :
    bfsFlat sep [it] = flattenAt sep it.1 it.2 := by
  rw [bfsFlat_cons]; rfl

/-- the queue's output is a permutation of the outputs of its items' own `flatten()` -/
theorem bfsFlat_perm_flatMap (sep : Str) (q : List QItem) :
    (bfsFlat sep q).Perm (q.flatMap (fun it => flattenAt sep it.1 it.2)) := by
  induction q with
  | nil => simp [bfsFlat_nil]
  | cons it q ih =>
    have h := bfsFlat_append_perm sep [it] q
    simp only [List.singleton_append] at h
    refine h.trans ?_
    rw [bfsFlat_single, List.flatMap_cons]
    exact List.Perm.append_left _ ih

end Flatland.Flat
