/-
Stable element states: states on which the documented pruning `pr` changes nothing that `flatten`
can see.  (a) on a stable state `pr` is invisible level by level; (b) `pr` produces stable states;
(c) without pruning sequences every state is stable.
-/
import Flatland.Spec.C01Second
import Proofs.Lemmas.C01LevelPr
namespace Flatland.Flat.Proofs
open Flatland.Flat Flatland.Flat.Spec

variable {env : Env}

mutual
/-- `pr env u` has nothing visible left to do on the element: every member of a pruning sequence
    survives; in a non-pruning List the members that do not survive already look like fresh ones, and
    below a pruning List (`u`) the last member survives. -/
def Stable (env : Env) : Bool → Schema → Elem → Prop
  | u, .dict _ _ _ fields, .dict ms => StableFields env u fields ms
  | u, .compound _ _ _ fields, .dict ms => StableFields env u fields ms
  | u, .list _ _ prune _ member, .list ms =>
    (prune = true → ∀ m ∈ ms, emitsB env true member m = true ∧ Stable env true member m) ∧
    (prune = false →
      (∀ m ∈ ms, (emitsB env u member m = true → Stable env u member m) ∧
        (emitsB env u member m = false →
          LvlEq (resolve env member m) (resolve env member (blank member)))) ∧
      (u = true → dropTrailing (emitsB env u member) ms = ms))
  | u, .array nm _ prune member, .array ms =>
    ∀ m ∈ ms, emitsB env (u || arrayPrunes nm prune member) member m = true
  | _, _, _ => True
def StableFields (env : Env) (u : Bool) : List Schema → List (Str × Elem) → Prop
  | f :: fs, (_, e) :: ms => Stable env u f e ∧ StableFields env u fs ms
  | _, _ => True
end

theorem lvlEmpty_of_emitsB_false {s : Schema} {e : Elem} (h : emitsB env false s e = false) :
    LvlEmpty (resolve env s e) := by
  apply lvlEmpty_of_relFlat_nil
  have := (emitsB_false_iff env false s e).mp h
  rwa [filter_keepP_false] at this

/-! ### (a) on a stable state the pruning is invisible -/

theorem lvlEqL_resKids (env : Env) (u : Bool) : ∀ (fs : List Schema) (ms : List (Str × Elem)),
    (∀ f ∈ fs, ∀ u e, OkP env f e → Stable env u f e →
      LvlEq (resolve env f (pr env u f e)) (resolve env f e)) →
    OkPFields env fs ms → StableFields env u fs ms →
    LvlEqL (resKids env fs (prFields env u fs ms)) (resKids env fs ms)
  | [], [], _, _, _ => by simp [prFields, resKids, LvlEqL]
  | [], _ :: _, _, h, _ => by simp [OkPFields] at h
  | _ :: _, [], _, h, _ => by simp [OkPFields] at h
  | f :: fs, (k, e) :: ms, hP, hok, hst => by
    simp only [OkPFields] at hok
    simp only [StableFields] at hst
    simp only [prFields, resKids, LvlEqL]
    exact ⟨hP f (by simp) u e hok.2.1 hst.1,
      lvlEqL_resKids env u fs ms (fun g hg => hP g (List.mem_cons_of_mem _ hg)) hok.2.2 hst.2⟩

theorem lvl_pr : ∀ s : Schema, wf s = true → dense s = true →
    ∀ (u : Bool) (e : Elem), OkP env s e → Stable env u s e →
      LvlEq (resolve env s (pr env u s e)) (resolve env s e) := by
  apply schema_ind_wf
  · intro nm o k u e hok _
    rw [pr]
    exact LvlEq.refl _
  · intro nm o k mem u e hok _
    cases e with
    | joined t ms =>
      simp only [pr]
      split
      · rename_i h
        simp only [Bool.and_eq_true, List.isEmpty_iff] at h
        rw [resolve_joined, resolve_joined, h.2]
        exact lvlEq_nocfl _ _ _ _ _ _ _
      · rw [resolve_joined, resolve_joined]
        exact lvlEq_nocfl _ _ _ _ _ _ _
    | _ => simp [OkP] at hok
  · intro nm o fields hnd hsome ih u e hok hst
    cases e with
    | dict ms =>
      simp only [OkP, true_and] at hok
      simp only [Stable] at hst
      have hok' := okP_prFields env u fields ms
        (fun f hf => okP_pr f (ih f hf).1 (ih f hf).2.1) hok
      simp only [pr]
      rw [resolve_dict env nm o fields hnd hsome _ hok', resolve_dict env nm o fields hnd hsome _ hok]
      exact lvlEq_mk_kids _ _ _ _ _ _ _
        (lvlEqL_resKids env u fields ms (fun f hf => (ih f hf).2.2) hok hst)
    | _ => simp [OkP] at hok
  · intro nm o k fields hnd hsome ih u e hok hst
    cases e with
    | dict ms =>
      have hu := uOf_pr (env := env) (.compound nm o k fields)
        (wf_compound_of nm o k fields hnd hsome (fun f hf => (ih f hf).1))
        (dense_compound_of nm o k fields (fun f hf => (ih f hf).2.1)) u (.dict ms) hok
      simp only [OkP] at hok
      simp only [Stable] at hst
      have hok' := okP_prFields env u fields ms
        (fun f hf => okP_pr f (ih f hf).1 (ih f hf).2.1) hok
      simp only [pr] at hu ⊢
      rw [resolve_compound env nm o k fields hnd hsome _ hok',
        resolve_compound env nm o k fields hnd hsome _ hok, hu]
      exact lvlEq_mk_kids _ _ _ _ _ _ _
        (lvlEqL_resKids env u fields ms (fun f hf => (ih f hf).2.2) hok hst)
    | _ => simp [OkP] at hok
  · intro nm o p mx member hw hd ih u e hok hst
    cases e with
    | list ms =>
      simp only [OkP] at hok
      obtain ⟨_, _, hmem⟩ := hok
      simp only [Stable] at hst
      simp only [pr]
      split
      · rename_i hp
        have hall := hst.1 hp
        have hf : ms.filter (emitsB env true member) = ms :=
          List.filter_eq_self.mpr (fun m hm => (hall m hm).1)
        rw [hf, resolve_list, resolve_list, List.map_map]
        apply lvlEq_mk_kids
        apply lvlEqL_map
        intro m hm
        exact ih true m (hmem m hm) (hall m hm).2
      · rename_i hp
        have hp' : p = false := by simpa using hp
        obtain ⟨hmems, hlast⟩ := hst.2 hp'
        obtain ⟨tl, hsplit, htl⟩ := dropTrailing_split (emitsB env u member) ms
        have htlE : ∀ k ∈ tl.map (resolve env member), LvlEmpty k := by
          intro k hk
          obtain ⟨m, hm, rfl⟩ := List.mem_map.mp hk
          cases u with
          | false => exact lvlEmpty_of_emitsB_false (htl m hm)
          | true =>
            have := dropTrailing_eq_self_split _ _ _ (hlast rfl) hsplit
            subst this; simp at hm
        rw [resolve_list, resolve_list, List.map_map]
        generalize dropTrailing (emitsB env u member) ms = D at hsplit ⊢
        subst hsplit
        rw [List.map_append]
        apply lvlEq_mk_drop _ _ _ _ _ _ _ _ _ htlE
        apply lvlEqL_map
        intro m hm
        have hm' : m ∈ D ++ tl := List.mem_append_left _ hm
        show LvlEq (resolve env member (if emitsB env u member m = true then pr env u member m
          else blank member)) (resolve env member m)
        cases hem : emitsB env u member m with
        | true =>
          simp only [if_true]
          exact ih u m (hmem m hm') ((hmems m hm').1 hem)
        | false =>
          simp only [Bool.false_eq_true, if_false]
          exact ((hmems m hm').2 hem).symm
    | _ => simp [OkP] at hok
  · intro nm o p member hw hd ih u e hok hst
    cases e with
    | array ms =>
      simp only [Stable] at hst
      simp only [pr]
      rw [List.filter_eq_self.mpr hst]
      exact LvlEq.refl _
    | _ => simp [OkP] at hok

/-! ### (b) the pruning produces stable states -/

theorem stableFields_pr (env : Env) (u : Bool) : ∀ (fs : List Schema) (ms : List (Str × Elem)),
    (∀ f ∈ fs, ∀ u e, OkP env f e → Stable env u f (pr env u f e)) → OkPFields env fs ms →
    StableFields env u fs (prFields env u fs ms)
  | [], [], _, _ => by simp [prFields, StableFields]
  | [], _ :: _, _, h => by simp [OkPFields] at h
  | _ :: _, [], _, h => by simp [OkPFields] at h
  | f :: fs, (k, e) :: ms, hP, hok => by
    simp only [OkPFields] at hok
    simp only [prFields, StableFields]
    exact ⟨hP f (by simp) u e hok.2.1,
      stableFields_pr env u fs ms (fun g hg => hP g (List.mem_cons_of_mem _ hg)) hok.2.2⟩

theorem stable_pr : ∀ s : Schema, wf s = true → dense s = true →
    ∀ (u : Bool) (e : Elem), OkP env s e → Stable env u s (pr env u s e) := by
  apply schema_ind_wf
  · intro nm o k u e hok
    cases e <;> simp [pr, Stable]
  · intro nm o k mem u e hok
    cases e with
    | joined t ms => simp only [pr]; split <;> simp [Stable]
    | _ => simp [OkP] at hok
  · intro nm o fields hnd hsome ih u e hok
    cases e with
    | dict ms =>
      simp only [OkP, true_and] at hok
      simp only [pr, Stable]
      exact stableFields_pr env u fields ms (fun f hf => (ih f hf).2.2) hok
    | _ => simp [OkP] at hok
  · intro nm o k fields hnd hsome ih u e hok
    cases e with
    | dict ms =>
      simp only [OkP] at hok
      simp only [pr, Stable]
      exact stableFields_pr env u fields ms (fun f hf => (ih f hf).2.2) hok
    | _ => simp [OkP] at hok
  · intro nm o p mx member hw hd ih u e hok
    cases e with
    | list ms =>
      simp only [OkP] at hok
      obtain ⟨_, _, hmem⟩ := hok
      simp only [pr]
      split
      · rename_i hp
        simp only [Stable]
        refine ⟨fun _ x hx => ?_, fun h => by rw [hp] at h; cases h⟩
        obtain ⟨m, hm, rfl⟩ := List.mem_map.mp hx
        have hm' := List.mem_filter.mp hm
        exact ⟨by rw [emitsB_pr_true member hw hd m (hmem m hm'.1)]; exact hm'.2,
          ih true m (hmem m hm'.1)⟩
      · rename_i hp
        simp only [Stable]
        refine ⟨fun h => absurd h hp, fun _ => ⟨?_, ?_⟩⟩
        · intro x hx
          obtain ⟨m, hm, rfl⟩ := List.mem_map.mp hx
          have hm' := mem_of_mem_dropTrailing _ _ _ hm
          have hokm := hmem m hm'
          cases hem : emitsB env u member m with
          | true =>
            simp only [if_true]
            refine ⟨fun _ => ih u m hokm, fun hne => ?_⟩
            -- `pr u m` is silent though `m` is not: only without a pruning List above
            cases u with
            | true => rw [emitsB_pr_true member hw hd m hokm, hem] at hne; cases hne
            | false =>
              have hokp := okP_pr member hw hd false m hokm
              have hb := bl_all member hw hd false _ hokp hne
              exact lvlEq_of_empty (lvlEmpty_of_emitsB_false hne) (lvlEmpty_of_emitsB_false hb.2.1)
          | false =>
            simp only [Bool.false_eq_true, if_false]
            have hb := bl_all member hw hd u m hokm hem
            exact ⟨fun h => (by rw [hb.2.1] at h; cases h), fun _ => LvlEq.refl _⟩
        · intro hu
          subst hu
          exact dropTrailing_map_idem _ _ _ ms (fun x hx =>
            emitsB_keepOrBlank_true member hw hd (emitsB_pr_true member hw hd) x (hmem x hx))
    | _ => simp [OkP] at hok
  · intro nm o p member hw hd ih u e hok
    cases e with
    | array ms =>
      simp only [pr, Stable]
      intro m hm
      exact (List.mem_filter.mp hm).2
    | _ => simp [OkP] at hok

/-! ### (c) without pruning sequences every state is stable -/

theorem noPrune_of_mem : ∀ {fs : List Schema}, noPruneL fs = true → ∀ f ∈ fs, noPrune f = true
  | [], _, f, hf => by simp at hf
  | g :: gs, h, f, hf => by
    simp only [noPruneL, Bool.and_eq_true] at h
    rcases List.mem_cons.mp hf with rfl | hf
    · exact h.1
    · exact noPrune_of_mem h.2 f hf

theorem stableFields_noPrune (env : Env) : ∀ (fs : List Schema) (ms : List (Str × Elem)),
    (∀ f ∈ fs, ∀ e, OkP env f e → Stable env false f e) → OkPFields env fs ms →
    StableFields env false fs ms
  | [], [], _, _ => by simp [StableFields]
  | [], _ :: _, _, h => by simp [OkPFields] at h
  | _ :: _, [], _, h => by simp [OkPFields] at h
  | f :: fs, (k, e) :: ms, hP, hok => by
    simp only [OkPFields] at hok
    simp only [StableFields]
    exact ⟨hP f (by simp) e hok.2.1,
      stableFields_noPrune env fs ms (fun g hg => hP g (List.mem_cons_of_mem _ hg)) hok.2.2⟩

theorem stable_noPrune : ∀ s : Schema, wf s = true → dense s = true → noPrune s = true →
    ∀ e : Elem, OkP env s e → Stable env false s e := by
  apply schema_ind_wf
  · intro nm o k _ e hok
    cases e <;> simp [Stable]
  · intro nm o k mem _ e hok
    cases e <;> simp [Stable]
  · intro nm o fields hnd hsome ih hnp e hok
    cases e with
    | dict ms =>
      simp only [OkP, true_and] at hok
      simp only [noPrune] at hnp
      simp only [Stable]
      exact stableFields_noPrune env fields ms
        (fun f hf => (ih f hf).2.2 (noPrune_of_mem hnp f hf)) hok
    | _ => simp [OkP] at hok
  · intro nm o k fields hnd hsome ih hnp e hok
    cases e with
    | dict ms =>
      simp only [OkP] at hok
      simp only [noPrune] at hnp
      simp only [Stable]
      exact stableFields_noPrune env fields ms
        (fun f hf => (ih f hf).2.2 (noPrune_of_mem hnp f hf)) hok
    | _ => simp [OkP] at hok
  · intro nm o p mx member hw hd ih hnp e hok
    cases e with
    | list ms =>
      simp only [OkP] at hok
      obtain ⟨_, _, hmem⟩ := hok
      simp only [noPrune, Bool.and_eq_true, Bool.not_eq_true'] at hnp
      simp only [Stable]
      refine ⟨fun h => (by rw [hnp.1] at h; cases h), fun _ => ⟨?_, fun h => (by cases h)⟩⟩
      intro m hm
      refine ⟨fun _ => ih hnp.2 m (hmem m hm), fun hem => ?_⟩
      have hb := bl_all member hw hd false m (hmem m hm) hem
      exact lvlEq_of_empty (lvlEmpty_of_emitsB_false hem) (lvlEmpty_of_emitsB_false hb.2.1)
    | _ => simp [OkP] at hok
  · intro nm o p member hw hd ih hnp e hok
    cases e with
    | array ms =>
      simp only [OkP] at hok
      obtain ⟨⟨n, o', k, rfl⟩, hmem⟩ := hok
      simp only [noPrune, Bool.and_eq_true, Bool.not_eq_true'] at hnp
      simp only [Stable, hnp.1, Bool.or_false]
      intro m hm
      have := hmem m hm
      cases m with
      | leaf t => rw [emitsB_leaf]; rfl
      | _ => simp [OkP] at this
    | _ => simp [OkP] at hok

end Flatland.Flat.Proofs
