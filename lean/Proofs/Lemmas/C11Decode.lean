/-
The concrete reference decoder `decodeRefs` inverts every chain whose replacement texts are
`&name;` references it knows (decidable check `entOK`), provided `&` itself is a pattern.
-/
import Proofs.Lemmas.C11Chain
namespace Flatland.C11.Proofs
open Flatland.C11 Flatland.Markup

theorem splitAtChar_some {c : Char} {s a b : Str} (h : splitAtChar c s = some (a, b)) :
    s = a ++ c :: b ∧ c ∉ a := by
  induction s generalizing a b with
  | nil => simp [splitAtChar] at h
  | cons x xs ih =>
    simp only [splitAtChar] at h
    split at h
    · rename_i hx; simp at h; obtain ⟨rfl, rfl⟩ := h; simp [hx]
    · rename_i hx
      split at h
      · rename_i a' b' heq
        simp at h; obtain ⟨rfl, rfl⟩ := h
        obtain ⟨h1, h2⟩ := ih heq
        constructor
        · simp [h1]
        · simp only [List.mem_cons, not_or]; exact ⟨fun e => hx e.symm, h2⟩
      · simp at h

theorem splitAtChar_append {c : Char} (a b : Str) (h : c ∉ a) :
    splitAtChar c (a ++ c :: b) = some (a, b) := by
  induction a with
  | nil => simp [splitAtChar]
  | cons x xs ih =>
    simp only [List.mem_cons, not_or] at h
    have hx : ¬ x = c := fun e => h.1 e.symm
    simp [splitAtChar, hx, ih h.2]

theorem takeEntity_append (n : Nat) (name rest : Str) (h : ';' ∉ name) (hn : name.length < n) :
    takeEntity n (name ++ ';' :: rest) = some (name, rest) := by
  induction name generalizing n with
  | nil =>
    cases n with
    | zero => simp at hn
    | succ n => simp [takeEntity]
  | cons x xs ih =>
    cases n with
    | zero => simp at hn
    | succ n =>
      simp only [List.mem_cons, not_or] at h
      have hx : ¬ x = ';' := fun e => h.1 e.symm
      simp only [List.length_cons, Nat.add_lt_add_iff_right] at hn
      simp [takeEntity, hx, ih n h.2 hn]

/-- the replacement text of a chain entry is `&name;` for a name `decodeRefs` maps back to the pattern -/
def entOK (p : Char × Str) : Bool :=
  match p.2 with
  | '&' :: t =>
    match splitAtChar ';' t with
    | some (name, []) => decide (name.length < 8) && (entityChar name == some p.1)
    | _ => false
  | _ => false

theorem decodeRefs_entity (name rest : Str) (ch : Char) (h : ';' ∉ name) (hn : name.length < 8)
    (he : entityChar name = some ch) :
    decodeRefs ('&' :: (name ++ ';' :: rest)) = ch :: decodeRefs rest := by
  have hte := takeEntity_append 8 name rest h hn
  rw [decodeRefs]
  simp only [↓reduceIte]
  split
  · rename_i name' rest' heq
    rw [hte] at heq
    simp only [Option.some.injEq, Prod.mk.injEq] at heq
    obtain ⟨rfl, rfl⟩ := heq
    simp [he]
  · rename_i heq
    rw [hte] at heq
    simp at heq

theorem decoderOK_of (ch : Chain) (h : ch.all entOK = true) (hamp : (keys ch).contains '&' = true) :
    DecoderOK ch decodeRefs where
  nil := decodeRefs_nil
  ent := by
    intro p hp rest
    have hp' := List.all_eq_true.mp h p hp
    obtain ⟨c, r⟩ := p
    simp only [entOK] at hp'
    split at hp'
    · rename_i t ht
      split at hp'
      · rename_i name hs
        simp only [Bool.and_eq_true, decide_eq_true_eq, beq_iff_eq] at hp'
        obtain ⟨h1, h2⟩ := splitAtChar_some hs
        subst h1
        have := decodeRefs_entity name rest c h2 hp'.1 hp'.2
        simpa using this
      · simp at hp'
    · simp at hp'
  plain := by
    intro x rest hx
    apply decodeRefs_plain
    intro e
    subst e
    simp only [List.contains_iff_mem] at hamp
    exact hx hamp

end Flatland.C11.Proofs
