/- number formatting / parsing and the Temporal recognisers on their own output -/
import Proofs.Lemmas.C04Str
namespace Flatland.Scalar
open Flatland.Scalar

/-- digit values of `'%0<w>i' % n` for a natural number -/
def padVals (w n : Nat) : List Nat :=
  List.replicate (w - (natDigitVals n).length) 0 ++ natDigitVals n

theorem padVals_lt (w n : Nat) : ∀ d ∈ padVals w n, d < 10 := by
  intro d hd
  rcases List.mem_append.mp hd with h | h
  · rw [List.mem_replicate] at h; omega
  · exact natDigitVals_lt n d h

theorem padVals_ne_nil (w n : Nat) : padVals w n ≠ [] := by
  unfold padVals
  intro h
  exact natDigitVals_ne_nil n (List.append_eq_nil_iff.mp h).2

theorem digitsVal_padVals (w n : Nat) : digitsVal (padVals w n) = n := by
  unfold padVals
  rw [digitsVal_append, digitsVal_replicate_zero, digitsVal_natDigitVals]; simp

theorem padVals_length (w n : Nat) (hw : 1 ≤ w) (h : n < 10 ^ w) : (padVals w n).length = w := by
  unfold padVals
  have := natDigitVals_length_le n w hw h
  simp; omega

theorem padVals_length_le (w n m : Nat) (hm : 1 ≤ m) (hw : w ≤ m) (h : n < 10 ^ m) :
    (padVals w n).length ≤ m := by
  unfold padVals
  have := natDigitVals_length_le n m hm h
  simp; omega

theorem digitChar_zero : digitChar 0 = '0' := rfl

theorem fmtInt_nonneg (w : Nat) (i : Int) (hi : 0 ≤ i) :
    fmtInt w i = (padVals w i.natAbs).map digitChar := by
  unfold fmtInt padVals
  have : ¬ i < 0 := by omega
  simp only [this, if_false, List.length_nil, Nat.sub_zero, List.nil_append, natDigits_eq_map,
    List.length_map, List.map_append, List.map_replicate, digitChar_zero]

theorem fmtInt_neg (w : Nat) (i : Int) (hi : i < 0) :
    fmtInt w i = '-' :: (padVals (w - 1) i.natAbs).map digitChar := by
  unfold fmtInt padVals
  simp only [hi, if_true, List.length_cons, List.length_nil, natDigits_eq_map,
    List.length_map, List.map_append, List.map_replicate, digitChar_zero]
  simp

theorem fmtInt_nat (w n : Nat) : fmtInt w (n : Int) = (padVals w n).map digitChar := by
  rw [fmtInt_nonneg w n (by omega)]; simp

/-- all characters of a formatted int are `-` or ASCII digits -/
theorem fmtInt_chars (w : Nat) (i : Int) : ∀ c ∈ fmtInt w i, c = '-' ∨ ∃ d, d < 10 ∧ c = digitChar d := by
  intro c hc
  by_cases hi : i < 0
  · rw [fmtInt_neg w i hi] at hc
    rcases List.mem_cons.mp hc with h | h
    · exact Or.inl h
    · obtain ⟨d, hd, rfl⟩ := List.mem_map.mp h
      exact Or.inr ⟨d, padVals_lt _ _ d hd, rfl⟩
  · rw [fmtInt_nonneg w i (by omega)] at hc
    obtain ⟨d, hd, rfl⟩ := List.mem_map.mp hc
    exact Or.inr ⟨d, padVals_lt _ _ d hd, rfl⟩

theorem strip_fmtInt (T : Tables) (hT : T.OK) (w : Nat) (i : Int) : strip T (fmtInt w i) = fmtInt w i := by
  apply strip_of_all
  intro c hc
  rcases fmtInt_chars w i c hc with h | ⟨d, hd, h⟩
  · rw [h]; exact hT.2.2.1
  · rw [h]; exact hT.2.1 d hd

theorem splitSign_digit (d : Nat) (hd : d < 10) (r : Str) :
    splitSign (digitChar d :: r) = (false, digitChar d :: r) := by
  have hne := digitChar_ne d hd
  unfold splitSign
  split
  · rename_i h2; simp only [List.cons.injEq] at h2; exact absurd h2.1 hne.2.1
  · rename_i h2; simp only [List.cons.injEq] at h2; exact absurd h2.1 hne.2.2
  · rfl

/-- `int('%0<w>i' % i) == i` -/
theorem pyIntOfStr_fmtInt (T : Tables) (hT : T.OK) (w : Nat) (i : Int) (hfit : intFits T i = true)
    (hw : w ≤ T.maxDigits) : pyIntOfStr T (fmtInt w i) = some i := by
  have hfit' : i.natAbs < 10 ^ T.maxDigits := by simpa [intFits] using hfit
  have hm : 1 ≤ T.maxDigits := by have := hT.2.2.2.2.1; omega
  by_cases hi : i < 0
  · rw [fmtInt_neg w i hi]
    unfold pyIntOfStr
    simp only [splitSign]
    rw [parseDigitBody_digits T hT _ (padVals_ne_nil _ _) (padVals_lt _ _)]
    have hl := padVals_length_le (w - 1) i.natAbs T.maxDigits hm (by omega) hfit'
    simp only [digitsVal_padVals]
    rw [if_neg (by omega)]
    simp; omega
  · have hpv := padVals_ne_nil w i.natAbs
    rw [fmtInt_nonneg w i (by omega)]
    unfold pyIntOfStr
    cases hp : padVals w i.natAbs with
    | nil => exact absurd hp hpv
    | cons d rest =>
      have hd : d < 10 := padVals_lt w i.natAbs d (by rw [hp]; simp)
      simp only [List.map_cons, splitSign_digit d hd]
      rw [← List.map_cons, ← hp, parseDigitBody_digits T hT _ hpv (padVals_lt _ _)]
      have hl := padVals_length_le w i.natAbs T.maxDigits hm hw hfit'
      simp only [digitsVal_padVals]
      rw [if_neg (by omega)]
      simp; omega

/-! ### the Temporal recognisers accept what the Temporal formats print -/

theorem takeDigits_digits (T : Tables) (hT : T.OK) (ds : List Nat) (h : ∀ d ∈ ds, d < 10) (rest : Str) :
    takeDigits T ds.length (ds.map digitChar ++ rest) = some (ds, rest) := by
  induction ds with
  | nil => rfl
  | cons d t ih =>
    have hd : d < 10 := h d (by simp)
    simp only [List.length_cons, List.map_cons, List.cons_append, takeDigits]
    rw [hT.1 d hd, ih (fun x hx => h x (List.mem_cons_of_mem _ hx))]

theorem takeDigits_pad (T : Tables) (hT : T.OK) (w n : Nat) (hw : 1 ≤ w) (hn : n < 10 ^ w) (rest : Str) :
    takeDigits T w (fmtInt w (n : Int) ++ rest) = some (padVals w n, rest) := by
  rw [fmtInt_nat]
  have := takeDigits_digits T hT (padVals w n) (padVals_lt w n) rest
  rwa [padVals_length w n hw hn] at this

theorem match3_text (T : Tables) (hT : T.OK) (n1 n2 n3 : Nat) (sep : Char) (a b c : Nat)
    (h1 : 1 ≤ n1) (h2 : 1 ≤ n2) (h3 : 1 ≤ n3) (ha : a < 10 ^ n1) (hb : b < 10 ^ n2) (hc : c < 10 ^ n3)
    (rest : Str) :
    match3 T n1 n2 n3 sep (fmtInt n1 (a : Int) ++ [sep] ++ fmtInt n2 (b : Int) ++ [sep] ++ fmtInt n3 (c : Int) ++ rest)
      = some ((a, b, c), rest) := by
  unfold match3
  simp only [List.append_assoc, List.cons_append, List.nil_append]
  rw [takeDigits_pad T hT n1 a h1 ha]
  simp only [Option.bind_eq_bind, Option.bind_some, takeChar, if_true]
  rw [takeDigits_pad T hT n2 b h2 hb]
  simp only [Option.bind_some, takeChar, if_true]
  rw [takeDigits_pad T hT n3 c h3 hc]
  simp [digitsVal_padVals]

theorem validDate_bounds (y m d : Nat) (h : validDate y m d = true) : y < 10 ^ 4 ∧ m < 10 ^ 2 ∧ d < 10 ^ 2 := by
  simp only [validDate, Bool.and_eq_true, decide_eq_true_eq] at h
  obtain ⟨⟨⟨⟨⟨_, hy⟩, _⟩, hm⟩, _⟩, hd⟩ := h
  have : daysInMonth y m ≤ 31 := by
    unfold daysInMonth
    split <;> try omega
    split <;> omega
  omega

theorem validTime_bounds (h mi s : Nat) (hv : validTime h mi s = true) : h < 10 ^ 2 ∧ mi < 10 ^ 2 ∧ s < 10 ^ 2 := by
  simp only [validTime, Bool.and_eq_true, decide_eq_true_eq] at hv
  omega

theorem matchDate_dateText (T : Tables) (hT : T.OK) (y m d : Nat) (h : validDate y m d = true) :
    matchDate T (dateText y m d) = some (y, m, d) := by
  obtain ⟨hy, hm, hd⟩ := validDate_bounds y m d h
  unfold matchDate dateText pad4 pad2
  have := match3_text T hT 4 2 2 '-' y m d (by omega) (by omega) (by omega) hy hm hd []
  simp only [List.append_nil] at this
  rw [this]; rfl

theorem matchTime_timeText (T : Tables) (hT : T.OK) (h mi s : Nat) (hv : validTime h mi s = true) :
    matchTime T (timeText h mi s) = some (h, mi, s) := by
  obtain ⟨hh, hm, hs⟩ := validTime_bounds h mi s hv
  unfold matchTime timeText pad2
  have := match3_text T hT 2 2 2 ':' h mi s (by omega) (by omega) (by omega) hh hm hs []
  simp only [List.append_nil] at this
  rw [this]; rfl

theorem matchDateTime_text (T : Tables) (hT : T.OK) (y m d h mi s : Nat)
    (hd : validDate y m d = true) (hv : validTime h mi s = true) :
    matchDateTime T (dateText y m d ++ [' '] ++ timeText h mi s) = some ((y, m, d), (h, mi, s)) := by
  obtain ⟨hy, hm, hdd⟩ := validDate_bounds y m d hd
  obtain ⟨hh, hmi, hs⟩ := validTime_bounds h mi s hv
  unfold matchDateTime dateText timeText pad4 pad2
  have h1 := match3_text T hT 4 2 2 '-' y m d (by omega) (by omega) (by omega) hy hm hdd
    ([' '] ++ (fmtInt 2 (h : Int) ++ [':'] ++ fmtInt 2 (mi : Int) ++ [':'] ++ fmtInt 2 (s : Int)))
  have h2 := match3_text T hT 2 2 2 ':' h mi s (by omega) (by omega) (by omega) hh hmi hs []
  simp only [List.append_nil] at h2
  simp only [List.append_assoc, List.cons_append, List.nil_append] at h1 h2 ⊢
  rw [h1]
  simp only [takeChar, if_true]
  rw [h2]; rfl

/-- texts made of digits, `-` and `:` are not touched by strip -/
theorem dateText_chars (y m d : Nat) : ∀ c ∈ dateText y m d, c = '-' ∨ ∃ k, k < 10 ∧ c = digitChar k := by
  intro c hc
  unfold dateText pad4 pad2 at hc
  simp only [List.mem_append, List.mem_singleton] at hc
  rcases hc with (((h | h) | h) | h) | h
  · exact fmtInt_chars _ _ c h
  · exact Or.inl h
  · exact fmtInt_chars _ _ c h
  · exact Or.inl h
  · exact fmtInt_chars _ _ c h

theorem timeText_chars (h mi s : Nat) :
    ∀ c ∈ timeText h mi s, c = '-' ∨ c = ':' ∨ ∃ k, k < 10 ∧ c = digitChar k := by
  intro c hc
  unfold timeText pad2 at hc
  simp only [List.mem_append, List.mem_singleton] at hc
  rcases hc with (((h | h) | h) | h) | h
  · rcases fmtInt_chars _ _ c h with h | h
    · exact Or.inl h
    · exact Or.inr (Or.inr h)
  · exact Or.inr (Or.inl h)
  · rcases fmtInt_chars _ _ c h with h | h
    · exact Or.inl h
    · exact Or.inr (Or.inr h)
  · exact Or.inr (Or.inl h)
  · rcases fmtInt_chars _ _ c h with h | h
    · exact Or.inl h
    · exact Or.inr (Or.inr h)

theorem strip_dateText (T : Tables) (hT : T.OK) (y m d : Nat) : strip T (dateText y m d) = dateText y m d := by
  apply strip_of_all
  intro c hc
  rcases dateText_chars y m d c hc with h | ⟨k, hk, h⟩
  · rw [h]; exact hT.2.2.1
  · rw [h]; exact hT.2.1 k hk

theorem strip_timeText (T : Tables) (hT : T.OK) (h mi s : Nat) : strip T (timeText h mi s) = timeText h mi s := by
  apply strip_of_all
  intro c hc
  rcases timeText_chars h mi s c hc with h | h | ⟨k, hk, h⟩
  · rw [h]; exact hT.2.2.1
  · rw [h]; exact hT.2.2.2.1
  · rw [h]; exact hT.2.1 k hk

end Flatland.Scalar
