import Flatland.C15
import Flatland.Spec.C15
import Proofs.C16
/-
Every `note_error` call of the C15 model is one of finitely many shapes (class, message attribute,
keyword names); on the regenerated template table each shape's message exists and uses only keys the
model's lookup environment supplies — so a failing validator always gets its message recorded.
-/
namespace Flatland.C15.Proofs
open Flatland.C16 Flatland.C15

/-- every `note_error` call site of the model: (class, message attribute, keyword names) -/
def shapes : List (String × String × List Str) :=
  [("Present", "missing", []), ("IsTrue", "false", []), ("IsFalse", "true", []),
   ("Converted", "incorrect", []), ("ValueIn", "fail", []),
   ("ShorterThan", "exceeded", []), ("LongerThan", "short", []), ("LengthBetween", "breached", []),
   ("ValueLessThan", "failure", []), ("ValueAtMost", "failure", []),
   ("ValueGreaterThan", "failure", []), ("ValueAtLeast", "failure", []),
   ("ValueBetween", "failure_inclusive", []), ("ValueBetween", "failure_exclusive", []),
   ("MapEqual", "unequal", ["labels".toList, "last_label".toList]),
   ("ValuesEqual", "unequal", ["labels".toList, "last_label".toList]),
   ("UnisEqual", "unequal", ["labels".toList, "last_label".toList]),
   ("NotDuplicated", "failure", ["position".toList, "container_label".toList]),
   ("HasAtLeast", "failure", ["child_label".toList]), ("HasAtMost", "failure", ["child_label".toList]),
   ("HasBetween", "exact", ["child_label".toList]), ("HasBetween", "range", ["child_label".toList]),
   ("SetWithKnownFields", "unexpected", ["unexpected".toList, "n_unexpected".toList]),
   ("SetWithAllFields", "both", ["n_missing".toList, "missing".toList, "n_unexpected".toList, "unexpected".toList]),
   ("SetWithAllFields", "missing", ["n_missing".toList, "missing".toList, "n_unexpected".toList, "unexpected".toList]),
   ("SetWithAllFields", "unexpected", ["n_missing".toList, "missing".toList, "n_unexpected".toList, "unexpected".toList]),
   ("Luhn10", "invalid", []), ("IsEmail", "invalid", []),
   ("URLValidator", "bad_format", []), ("URLValidator", "blocked_scheme", []), ("URLValidator", "blocked_part", []),
   ("HTTPURLValidator", "bad_format", []), ("HTTPURLValidator", "required_part", []), ("HTTPURLValidator", "forbidden_part", []),
   ("URLCanonicalizer", "bad_format", [])]

def shapeOf (v : V) (n : Note) : String × String × List Str := (v.className, n.key, n.info.map (·.1))

theorem fail_shape {k i b n} (h : fail k i = .ok (b, some n)) : n = ⟨k, i⟩ := by
  simp [fail] at h; exact h.2.symm

theorem pass_shape {b n} (h : pass = .ok (b, some n)) : False := by
  simp [pass] at h


macro "shape_tac" h:ident : tactic => `(tactic| (
  repeat' (first
    | (exact (pass_shape $h).elim)
    | (cases $h:ident; done)
    | (have hh := fail_shape $h; subst hh; simp only [shapeOf, V.className, List.map_cons, List.map_nil]; decide)
    | split at $h:ident)))

theorem urlPartsLoop_shape (allowed u parts) (b n)
    (h : urlPartsLoop allowed u parts = .ok (b, some n)) : n = ⟨"blocked_part", []⟩ := by
  induction parts with
  | nil => simp [urlPartsLoop, pass] at h
  | cons part rest ih =>
    simp only [urlPartsLoop] at h
    split at h
    · exact fail_shape h
    · exact ih h

theorem urlValidate_shape (s a lib value) (b n)
    (h : urlValidate s a lib value = .ok (b, some n)) :
    n = ⟨"bad_format", []⟩ ∨ n = ⟨"blocked_scheme", []⟩ ∨ n = ⟨"blocked_part", []⟩ := by
  unfold urlValidate at h
  repeat' (first
    | (cases h; done)
    | (exact Or.inl (fail_shape h))
    | (exact Or.inr (Or.inl (fail_shape h)))
    | (exact Or.inr (Or.inr (urlPartsLoop_shape _ _ _ _ _ h)))
    | split at h)

theorem httpPartsLoop_shape (req forb p parts) (b n)
    (h : httpPartsLoop req forb p parts = .ok (b, some n)) :
    n = ⟨"bad_format", []⟩ ∨ n = ⟨"required_part", []⟩ ∨ n = ⟨"forbidden_part", []⟩ := by
  induction parts with
  | nil => simp [httpPartsLoop, pass] at h
  | cons part rest ih =>
    simp only [httpPartsLoop] at h
    repeat' (first
      | (cases h; done)
      | (exact Or.inl (fail_shape h))
      | (exact Or.inr (Or.inl (fail_shape h)))
      | (exact Or.inr (Or.inr (fail_shape h)))
      | (exact ih h)
      | split at h)

theorem httpValidate_shape (ap req forb lib url) (b n)
    (h : httpValidate ap req forb lib url = .ok (b, some n)) :
    n = ⟨"bad_format", []⟩ ∨ n = ⟨"required_part", []⟩ ∨ n = ⟨"forbidden_part", []⟩ := by
  unfold httpValidate at h
  repeat' (first
    | (cases h; done)
    | (exact Or.inl (fail_shape h))
    | (exact httpPartsLoop_shape _ _ _ _ _ _ h)
    | split at h)

theorem verdict_shape (v : V) (e : View) (b : Bool) (n : Note)
    (h : verdict v e = .ok (b, some n)) : shapeOf v n ∈ shapes := by
  cases v with
  | present => simp only [verdict] at h; shape_tac h
  | isTrue => simp only [verdict] at h; shape_tac h
  | isFalse => simp only [verdict] at h; shape_tac h
  | converted => simp only [verdict] at h; shape_tac h
  | valueIn o => simp only [verdict] at h; shape_tac h
  | valueInText c => simp only [verdict] at h; shape_tac h
  | shorterThan m => simp only [verdict] at h; shape_tac h
  | longerThan m => simp only [verdict] at h; shape_tac h
  | lengthBetween a c => simp only [verdict] at h; shape_tac h
  | valueLessThan x => simp only [verdict, bind, Except.bind] at h; shape_tac h
  | valueAtMost x => simp only [verdict, bind, Except.bind] at h; shape_tac h
  | valueGreaterThan x => simp only [verdict, bind, Except.bind] at h; shape_tac h
  | valueAtLeast x => simp only [verdict, bind, Except.bind] at h; shape_tac h
  | valueBetween lo hi inc => simp only [verdict] at h; shape_tac h
  | mapEqual k =>
    cases k <;> simp only [verdict, bind, Except.bind] at h <;> shape_tac h
  | notDuplicated => simp only [verdict] at h; shape_tac h
  | hasAtLeast m => simp only [verdict] at h; shape_tac h
  | hasAtMost m => simp only [verdict] at h; shape_tac h
  | hasBetween lo hi => simp only [verdict] at h; shape_tac h
  | setWithKnownFields => simp only [verdict] at h; shape_tac h
  | setWithAllFields => simp only [verdict] at h; shape_tac h
  | luhn10 => simp only [verdict] at h; shape_tac h
  | isEmail nl => simp only [verdict] at h; shape_tac h
  | urlValidator s p =>
    simp only [verdict] at h
    repeat' (first
      | (exact (pass_shape h).elim)
      | (cases h; done)
      | (have hh := fail_shape h; subst hh; simp only [shapeOf, V.className, List.map_cons, List.map_nil]; decide)
      | (rcases urlValidate_shape _ _ _ _ _ _ h with hh | hh | hh <;> subst hh <;> simp only [shapeOf, V.className, List.map_cons, List.map_nil] <;> decide)
      | split at h)
  | httpURL ap r f =>
    simp only [verdict] at h
    repeat' (first
      | (exact (pass_shape h).elim)
      | (cases h; done)
      | (have hh := fail_shape h; subst hh; simp only [shapeOf, V.className, List.map_cons, List.map_nil]; decide)
      | (rcases httpValidate_shape _ _ _ _ _ _ _ h with hh | hh | hh <;> subst hh <;> simp only [shapeOf, V.className, List.map_cons, List.map_nil] <;> decide)
      | split at h)
  | urlCanonicalizer d => simp only [verdict] at h; shape_tac h


/-! ### every noted message expands -/

def elemKeys : List Str := ["label".toList, "name".toList, "value".toList, "u".toList]

/-- names of the validator attributes the model supplies, by class -/
def attrKeysOf : String → List Str
  | "ShorterThan" => ["maxlength".toList]
  | "LongerThan" => ["minlength".toList]
  | "LengthBetween" => ["minlength".toList, "maxlength".toList]
  | "ValueLessThan" => ["boundary".toList]
  | "ValueGreaterThan" => ["boundary".toList]
  | "ValueAtMost" => ["maximum".toList]
  | "ValueAtLeast" => ["minimum".toList]
  | "ValueBetween" => ["minimum".toList, "maximum".toList, "inclusive".toList]
  | "HasAtLeast" => ["minimum".toList]
  | "HasAtMost" => ["maximum".toList]
  | "HasBetween" => ["minimum".toList, "maximum".toList]
  | "IsEmail" => ["non_local".toList]
  | _ => []

/-- attributes that hold an int (the count keys of the plural triples) -/
def intAttrKeysOf : String → List Str
  | "HasAtLeast" => ["minimum".toList]
  | "HasAtMost" => ["maximum".toList]
  | "HasBetween" => ["minimum".toList, "maximum".toList]
  | _ => []

def shapeOK (sh : String × String × List Str) : Bool :=
  let avail := sh.2.2 ++ attrKeysOf sh.1 ++ elemKeys
  match messageOf Flatland.Generated.C16.builtinMessages sh.1 sh.2.1 with
  | some (.plain t) => formKeysIn avail t && !t.isEmpty
  | some (.plural s p k) =>
    formKeysIn avail s && formKeysIn avail p && (intAttrKeysOf sh.1).contains k &&
      !sh.2.2.contains k
  | none => false

/-- instantiated on the regenerated template table: every message the model can note exists
    and uses only keys the model's lookup environment supplies -/
theorem shapes_ok : shapes.all shapeOK = true := by decide +kernel

theorem attrs_keys (v : V) : v.attrs.map (·.1) = attrKeysOf v.className := by
  cases v <;> first | rfl | (rename_i k; cases k <;> rfl)

theorem int_attr (v : V) (k : Str) (h : k ∈ intAttrKeysOf v.className) :
    ∃ i, v.attrs.lookup k = some (.int i) := by
  cases v <;> simp [intAttrKeysOf, V.className] at h
  all_goals first
    | (rename_i kk; cases kk <;> simp [intAttrKeysOf, V.className] at h)
    | (subst h; exact ⟨_, rfl⟩)
    | (rcases h with rfl | rfl <;> exact ⟨_, by simp [V.attrs, List.lookup] <;> rfl⟩)


theorem lookup_isSome_of_mem (l : List (Str × Val)) (k : Str) (h : k ∈ l.map (·.1)) :
    (l.lookup k).isSome = true := by
  induction l with
  | nil => simp at h
  | cons p rest ih =>
    obtain ⟨a, b⟩ := p
    simp only [List.lookup]
    by_cases hk : k = a
    · subst hk; simp
    · have : (k == a) = false := by simpa using hk
      simp only [this]
      exact ih (by
        simp only [List.map_cons, List.mem_cons] at h
        rcases h with h | h
        · exact absurd h hk
        · exact h)

theorem lookup_none_of_not_mem (l : List (Str × Val)) (k : Str) (h : k ∉ l.map (·.1)) :
    l.lookup k = none := by
  induction l with
  | nil => rfl
  | cons p rest ih =>
    obtain ⟨a, b⟩ := p
    simp only [List.map_cons, List.mem_cons, not_or] at h
    have : (k == a) = false := by simpa using h.1
    simp only [List.lookup, this]
    exact ih h.2

theorem envOf_targets (v : V) (e : View) (info : List (Str × Val)) :
    (envOf v e info).targets =
      Flatland.C16.Proofs.targetsOf info none
        { subscriptable := false, items := [], attrs := v.attrs }
        { subscriptable := false, items := [], attrs := e.attrs } := rfl

/-- the model's lookup environment supplies the keywords, the validator's attributes and the
    element attributes label / name / value / u -/
theorem envOf_supplies (v : V) (e : View) (info : List (Str × Val)) (k : Str)
    (h : k ∈ info.map (·.1) ++ attrKeysOf v.className ++ elemKeys) :
    (rawLookup (envOf v e info).targets k).isSome = true := by
  by_cases hk : (kwTarget info).attr k = none
  case neg =>
    -- the keyword dict itself answers (one of its method names): still defined
    have hget : ((kwTarget info).get k).isSome = true := by
      simp only [Target.get]
      cases (kwTarget info).item k with
      | some x => rfl
      | none =>
        cases hh : (kwTarget info).attr k with
        | none => exact absurd hh hk
        | some x => rfl
    simp only [envOf, rawLookup, List.findSome?]
    cases hg : (kwTarget info).get k with
    | none => rw [hg] at hget; cases hget
    | some x => rfl
  rw [envOf_targets, Flatland.C16.Proofs.priority_partial _ _ _ _ k hk rfl rfl]
  simp only [Spec.lookup, Spec.Sources.ordered, Flatland.C16.Proofs.sourcesOf, List.findSome?]
  simp only [List.mem_append] at h
  rcases h with (h | h) | h
  · have := lookup_isSome_of_mem info k h
    cases hl : info.lookup k with
    | none => rw [hl] at this; cases this
    | some x => rfl
  · rw [← attrs_keys] at h
    have := lookup_isSome_of_mem v.attrs k h
    cases info.lookup k with
    | some x => rfl
    | none =>
      simp only [Target.attr]
      cases hl : v.attrs.lookup k with
      | none => rw [hl] at this; cases this
      | some x => rfl
  · have : (e.attrs.lookup k).isSome = true :=
      lookup_isSome_of_mem e.attrs k (by simpa [View.attrs, elemKeys] using h)
    cases info.lookup k with
    | some x => rfl
    | none =>
      simp only [Target.attr]
      cases v.attrs.lookup k with
      | some x => rfl
      | none =>
        simp only []
        cases hl : e.attrs.lookup k with
        | none => rw [hl] at this; cases this
        | some x => rfl


theorem int_keys_not_methods (cls : String) (k : Str) (h : k ∈ intAttrKeysOf cls) :
    k ∉ dictMethodNames := by
  unfold intAttrKeysOf at h
  split at h <;> simp at h
  all_goals (first | (subst h; decide) | (rcases h with rfl | rfl <;> decide))

theorem count_lookup (v : V) (e : View) (info : List (Str × Val)) (k : Str)
    (hint : k ∈ intAttrKeysOf v.className) (hinfo : k ∉ info.map (·.1)) :
    ∃ i, rawLookup (envOf v e info).targets k = some (.int i) := by
  obtain ⟨i, hi⟩ := int_attr v k hint
  refine ⟨i, ?_⟩
  rw [envOf_targets, Flatland.C16.Proofs.priority_partial _ _ _ _ k
    (Flatland.C16.Proofs.kwTarget_attr_none info k (int_keys_not_methods _ k hint)) rfl rfl]
  simp only [Spec.lookup, Spec.Sources.ordered, Flatland.C16.Proofs.sourcesOf, List.findSome?,
    lookup_none_of_not_mem info k hinfo, Target.attr, hi]

theorem noteError_truthy (env : Env) (errors : List Str) (msg : Msg) (s : Str)
    (ht : msg.truthy = true) (hx : expandMessage env msg = .ok s) :
    noteError env errors msg = .ok (addError errors s) := by
  unfold noteError
  simp only [ht, Bool.or_true, if_true, hx, bind, Except.bind, pure, Except.pure]

/-- **messages_total**: whenever a validator of the model returns a false verdict, the run
    completes: the message attribute exists in the regenerated template table, is not empty,
    and expands without error in the model's lookup environment; the error list afterwards is
    the old one with that one expanded text added (`add_error`: unless it is already there). -/
theorem messages_total (v : V) (e : View) (errors : List Str) (b : Bool) (n : Note)
    (hv : verdict v e = .ok (b, some n)) :
    ∃ o msg s, messageOf Flatland.Generated.C16.builtinMessages v.className n.key = some msg ∧
      expandMessage (envOf v e n.info) msg = .ok s ∧
      run v e errors = .ok o ∧ o.verdict = b ∧ o.value = valueAfter v e ∧
      o.errors = addError errors s := by
  have hshape := verdict_shape v e b n hv
  have hok := shapes_ok
  rw [List.all_eq_true] at hok
  have hsh := hok _ hshape
  unfold shapeOK shapeOf at hsh
  simp only at hsh
  unfold run runWith
  simp only [hv, bind, Except.bind]
  have hsup := fun k hk => envOf_supplies v e n.info k hk
  cases hm : messageOf Flatland.Generated.C16.builtinMessages v.className n.key with
  | none => rw [hm] at hsh; cases hsh
  | some msg =>
    rw [hm] at hsh
    cases msg with
    | plain t =>
      simp only [Bool.and_eq_true, Bool.not_eq_true'] at hsh
      obtain ⟨s, hs⟩ := Flatland.C16.Proofs.formKeysIn_expands _ t hsh.1
        (envOf v e n.info).targets none hsup
      have hx : expandMessage (envOf v e n.info) (.plain t) = .ok s := by
        unfold expandMessage
        have : findTransformer (envOf v e n.info).uState (envOf v e n.info).uAnc
            (envOf v e n.info).uBuiltin = .ok none := rfl
        simp only [this, bind, Except.bind, chooseMessage]
        exact hs
      have ht : (Msg.plain t).truthy = true := by simp [Msg.truthy, hsh.2]
      have he := noteError_truthy (envOf v e n.info) errors _ s ht hx
      simp only [he]
      exact ⟨_, _, s, rfl, hx, rfl, rfl, rfl, rfl⟩
    | plural sg pl k =>
      simp only [Bool.and_eq_true, Bool.not_eq_true', List.contains_eq_mem,
        decide_eq_true_eq, decide_eq_false_iff_not] at hsh
      obtain ⟨⟨⟨h1, h2⟩, h3⟩, h4⟩ := hsh
      obtain ⟨i, hi⟩ := count_lookup v e n.info k h3 h4
      obtain ⟨s1, hs1⟩ := Flatland.C16.Proofs.formKeysIn_expands _ sg h1
        (envOf v e n.info).targets none hsup
      obtain ⟨s2, hs2⟩ := Flatland.C16.Proofs.formKeysIn_expands _ pl h2
        (envOf v e n.info).targets none hsup
      have hx : ∃ s, expandMessage (envOf v e n.info) (.plural sg pl k) = .ok s := by
        unfold expandMessage
        have hu : findTransformer (envOf v e n.info).uState (envOf v e n.info).uAnc
            (envOf v e n.info).uBuiltin = .ok none := rfl
        have hn : findTransformer (envOf v e n.info).nState (envOf v e n.info).nAnc
            (envOf v e n.info).nBuiltin = .ok none := rfl
        simp only [hu, bind, Except.bind, chooseMessage, hn, resolveCount,
          Flatland.C16.Proofs.fmLookup_eq, hi, Flatland.C16.Proofs.trVal, coerceCount, pure,
          Except.pure]
        split
        · exact ⟨s1, hs1⟩
        · exact ⟨s2, hs2⟩
      obtain ⟨s, hx⟩ := hx
      have he := noteError_truthy (envOf v e n.info) errors (.plural sg pl k) s rfl hx
      simp only [he]
      exact ⟨_, _, s, rfl, hx, rfl, rfl, rfl, rfl⟩

end Flatland.C15.Proofs
