/-
C07, uniqueness of name paths — schema level.

Definitions: `noArray` (no Array / MultiValue among the flattened parts of a schema), `arrLe1` (every
Array / MultiValue of an element state holds at most one member), `firstOnly` (truncate every
Array / MultiValue to its first member).

Lemmas, all by induction over well-formed schemas without SparseDicts, for conforming states
(`OkP`): an `arrLe1` state emits pairwise distinct token paths; `firstOnly` yields a conforming
`arrLe1` state emitting the same *set* of paths; every token of an emitted path is a declared name or
a decimal index.
-/
import Proofs.Lemmas.C07Paths
import Proofs.C01
namespace Flatland.Flat.Proofs
open Flatland.Flat Flatland.Flat.Spec

/-! ### definitions -/

mutual
/-- no Array / MultiValue where `flatten()` looks (the members of a JoinedString are never
    flattened, so they are not inspected) -/
def noArray : Schema → Bool
  | .leaf .. => true
  | .joined .. => true
  | .dict _ _ _ fields => noArrayL fields
  | .compound _ _ _ fields => noArrayL fields
  | .list _ _ _ _ member => noArray member
  | .array .. => false
def noArrayL : List Schema → Bool
  | [] => true
  | f :: fs => noArray f && noArrayL fs
end

mutual
/-- every Array / MultiValue of the state holds at most one member -/
def arrLe1 : Schema → Elem → Prop
  | .dict _ _ _ fields, .dict ms => arrLe1Fields fields ms
  | .compound _ _ _ fields, .dict ms => arrLe1Fields fields ms
  | .list _ _ _ _ member, .list ms => ∀ e ∈ ms, arrLe1 member e
  | .array .., .array ms => ms.length ≤ 1
  | _, _ => True
def arrLe1Fields : List Schema → List (Str × Elem) → Prop
  | f :: fs, (_, e) :: ms => arrLe1 f e ∧ arrLe1Fields fs ms
  | _, _ => True
end

mutual
/-- the state with every Array / MultiValue cut down to its first member -/
def firstOnly : Schema → Elem → Elem
  | .dict _ _ _ fields, .dict ms => .dict (firstOnlyFields fields ms)
  | .compound _ _ _ fields, .dict ms => .dict (firstOnlyFields fields ms)
  | .list _ _ _ _ member, .list ms => .list (ms.map (firstOnly member))
  | .array .., .array ms => .array (ms.take 1)
  | _, e => e
def firstOnlyFields : List Schema → List (Str × Elem) → List (Str × Elem)
  | f :: fs, (k, e) :: ms => (k, firstOnly f e) :: firstOnlyFields fs ms
  | _, ms => ms
end

/-! ### the members of a mapping, field by field -/

theorem resKids_mem (env : Env) : ∀ (fs : List Schema) (ms : List (Str × Elem)) (k : FNode),
    k ∈ resKids env fs ms → ∃ f key e, (f, (key, e)) ∈ fs.zip ms ∧ k = resolve env f e
  | [], _, k, h => by simp [resKids] at h
  | _ :: _, [], k, h => by simp [resKids] at h
  | f :: fs, (key, e) :: ms, k, h => by
    simp only [resKids, List.mem_cons] at h
    rcases h with rfl | h
    · exact ⟨f, key, e, by simp, rfl⟩
    · obtain ⟨f', key', e', hz, hk⟩ := resKids_mem env fs ms k h
      exact ⟨f', key', e', by simp [hz], hk⟩

theorem okP_zip (env : Env) : ∀ (fs : List Schema) (ms : List (Str × Elem)), OkPFields env fs ms →
    ∀ f key e, (f, (key, e)) ∈ fs.zip ms → f.name = some key ∧ OkP env f e
  | [], _, _, f, key, e, h => by simp at h
  | _ :: _, [], _, f, key, e, h => by simp at h
  | g :: fs, (k0, e0) :: ms, hok, f, key, e, h => by
    simp only [OkPFields] at hok
    simp only [List.zip_cons_cons, List.mem_cons, Prod.mk.injEq] at h
    rcases h with ⟨rfl, rfl, rfl⟩ | h
    · exact ⟨hok.1, hok.2.1⟩
    · exact okP_zip env fs ms hok.2.2 f key e h

theorem arrLe1_zip : ∀ (fs : List Schema) (ms : List (Str × Elem)), arrLe1Fields fs ms →
    ∀ f key e, (f, (key, e)) ∈ fs.zip ms → arrLe1 f e
  | [], _, _, f, key, e, h => by simp at h
  | _ :: _, [], _, f, key, e, h => by simp at h
  | g :: fs, (k0, e0) :: ms, hok, f, key, e, h => by
    simp only [arrLe1Fields] at hok
    simp only [List.zip_cons_cons, List.mem_cons, Prod.mk.injEq] at h
    rcases h with ⟨rfl, rfl, rfl⟩ | h
    · exact hok.1
    · exact arrLe1_zip fs ms hok.2 f key e h

theorem resKids_map_name (env : Env) : ∀ (fs : List Schema) (ms : List (Str × Elem)),
    OkPFields env fs ms → (resKids env fs ms).map FNode.name = namesOf fs
  | [], [], _ => by simp [resKids, namesOf]
  | [], _ :: _, h => by simp [OkPFields] at h
  | _ :: _, [], h => by simp [OkPFields] at h
  | f :: fs, (key, e) :: ms, h => by
    simp only [OkPFields] at h
    simp only [resKids, List.map_cons, namesOf, resolve_name, resKids_map_name env fs ms h.2.2]

/-- the facts about a mapping's resolved members that uniqueness needs -/
theorem resKids_facts (env : Env) (fields : List Schema) (hnd : (namesOf fields).Nodup)
    (hsome : ∀ g ∈ fields, g.name.isSome) (ms : List (Str × Elem)) (hok : OkPFields env fields ms) :
    (∀ k ∈ resKids env fields ms, k.name.isSome) ∧ ((resKids env fields ms).map FNode.name).Nodup := by
  refine ⟨?_, by rw [resKids_map_name env fields ms hok]; exact hnd⟩
  intro k hk
  have h1 := resKids_namesP env fields ms hok k hk
  obtain ⟨g, hg, hgn⟩ := exists_of_mem_namesOf h1
  rw [← hgn]
  exact hsome g hg

/-! ### `arrLe1` states emit pairwise distinct paths -/

theorem paths_nodup_of_arrLe1 (env : Env) : ∀ s : Schema, wf s = true → dense s = true →
    ∀ e, OkP env s e → arrLe1 s e → (paths (resolve env s e)).Nodup := by
  apply schema_ind_wf
  · intro nm o k e hok _
    cases e with
    | leaf u => rw [resolve_leaf]; exact nodup_paths_own _ _ _ _ _ _ (Or.inr rfl)
    | _ => simp [OkP] at hok
  · intro nm o k m e hok _
    cases e with
    | joined u ms => rw [resolve_joined]; exact nodup_paths_own _ _ _ _ _ _ (Or.inl rfl)
    | _ => simp [OkP] at hok
  · intro nm o fields hnd hsome ih e hok hle
    cases e with
    | dict ms =>
      simp only [OkP] at hok
      simp only [arrLe1] at hle
      rw [resolve_dict env nm o fields hnd hsome ms hok.2]
      obtain ⟨h1, h2⟩ := resKids_facts env fields hnd hsome ms hok.2
      apply nodup_paths_mapping _ _ _ _ _ h1 h2
      intro k hk
      obtain ⟨f, key, e, hz, rfl⟩ := resKids_mem env fields ms k hk
      exact (ih f (List.of_mem_zip hz).1).2.2 e (okP_zip env fields ms hok.2 f key e hz).2
        (arrLe1_zip fields ms hle f key e hz)
    | _ => simp [OkP] at hok
  · intro nm o k fields hnd hsome ih e hok hle
    cases e with
    | dict ms =>
      simp only [OkP] at hok
      simp only [arrLe1] at hle
      rw [resolve_compound env nm o k fields hnd hsome ms hok]
      obtain ⟨h1, h2⟩ := resKids_facts env fields hnd hsome ms hok
      apply nodup_paths_mapping _ _ _ _ _ h1 h2
      intro k hk
      obtain ⟨f, key, e, hz, rfl⟩ := resKids_mem env fields ms k hk
      exact (ih f (List.of_mem_zip hz).1).2.2 e (okP_zip env fields ms hok f key e hz).2
        (arrLe1_zip fields ms hle f key e hz)
    | _ => simp [OkP] at hok
  · intro nm o p mx member _ _ ih e hok hle
    cases e with
    | list ms =>
      simp only [OkP] at hok
      simp only [arrLe1] at hle
      rw [resolve_list]
      apply nodup_paths_slots
      intro k hk
      obtain ⟨m, hm, rfl⟩ := List.mem_map.mp hk
      exact ih m (hok.2.2 m hm) (hle m hm)
    | _ => simp [OkP] at hok
  · intro nm o p member _ _ ih e hok hle
    cases e with
    | array ms =>
      simp only [OkP] at hok
      simp only [arrLe1] at hle
      rw [resolve_array]
      apply nodup_paths_le1 _ _ _ _ (by simpa using hle)
      intro k hk
      obtain ⟨m, hm, rfl⟩ := List.mem_map.mp hk
      obtain ⟨n, o', k', rfl⟩ := hok.1
      exact ih m (hok.2 m hm) (by simp [arrLe1])
    | _ => simp [OkP] at hok

/-! ### without Arrays every state is `arrLe1` -/

theorem noArray_of_mem : ∀ (fs : List Schema), noArrayL fs = true → ∀ f ∈ fs, noArray f = true
  | [], _, f, hf => by simp at hf
  | g :: gs, h, f, hf => by
    simp only [noArrayL, Bool.and_eq_true] at h
    rcases List.mem_cons.mp hf with rfl | hf
    · exact h.1
    · exact noArray_of_mem gs h.2 f hf

theorem arrLe1Fields_of_all : ∀ (fs : List Schema) (ms : List (Str × Elem)),
    (∀ f ∈ fs, ∀ e, arrLe1 f e) → arrLe1Fields fs ms
  | [], _, _ => by simp [arrLe1Fields]
  | _ :: _, [], _ => by simp [arrLe1Fields]
  | f :: fs, (k, e) :: ms, h => by
    simp only [arrLe1Fields]
    exact ⟨h f (by simp) e, arrLe1Fields_of_all fs ms (fun g hg => h g (List.mem_cons_of_mem _ hg))⟩

theorem arrLe1_of_noArray : ∀ s : Schema, noArray s = true → ∀ e, arrLe1 s e := by
  intro s
  induction s using schema_ind with
  | hleaf nm o k => intro _ e; simp [arrLe1]
  | hjoined nm o k m => intro _ e; simp [arrLe1]
  | hdict nm o mode fields ih =>
    intro h e
    simp only [noArray] at h
    cases e with
    | dict ms =>
      simp only [arrLe1]
      exact arrLe1Fields_of_all fields ms (fun f hf => ih f hf (noArray_of_mem fields h f hf))
    | _ => simp [arrLe1]
  | hcompound nm o k fields ih =>
    intro h e
    simp only [noArray] at h
    cases e with
    | dict ms =>
      simp only [arrLe1]
      exact arrLe1Fields_of_all fields ms (fun f hf => ih f hf (noArray_of_mem fields h f hf))
    | _ => simp [arrLe1]
  | hlist nm o p mx member ih =>
    intro h e
    simp only [noArray] at h
    cases e with
    | list ms =>
      simp only [arrLe1]
      exact fun m _ => ih h m
    | _ => simp [arrLe1]
  | harray nm o p member ih => intro h; simp [noArray] at h

/-! ### `firstOnly`: conforming, `arrLe1`, same set of paths -/

/-- what the induction carries for one schema -/
def FirstOnlyOK (env : Env) (s : Schema) : Prop :=
  ∀ e, OkP env s e →
    OkP env s (firstOnly s e) ∧ arrLe1 s (firstOnly s e) ∧
      samePaths (resolve env s e) (resolve env s (firstOnly s e))

theorem firstOnlyFields_ok (env : Env) : ∀ (fs : List Schema) (ms : List (Str × Elem)),
    (∀ f ∈ fs, FirstOnlyOK env f) → OkPFields env fs ms →
      OkPFields env fs (firstOnlyFields fs ms) ∧ arrLe1Fields fs (firstOnlyFields fs ms) ∧
        samePathsL (resKids env fs ms) (resKids env fs (firstOnlyFields fs ms))
  | [], [], _, _ => by simp [firstOnlyFields, OkPFields, arrLe1Fields, resKids, samePathsL]
  | [], _ :: _, _, h => by simp [OkPFields] at h
  | _ :: _, [], _, h => by simp [OkPFields] at h
  | f :: fs, (key, e) :: ms, hall, hok => by
    simp only [OkPFields] at hok
    have ih := firstOnlyFields_ok env fs ms (fun g hg => hall g (List.mem_cons_of_mem _ hg)) hok.2.2
    have hf := hall f (by simp) e hok.2.1
    simp only [firstOnlyFields, OkPFields, arrLe1Fields, resKids, samePathsL]
    exact ⟨⟨hok.1, hf.1, ih.1⟩, ⟨hf.2.1, ih.2.1⟩, ⟨hf.2.2, ih.2.2⟩⟩

theorem samePathsL_map (env : Env) (member : Schema) : ∀ (ms : List Elem),
    (∀ m ∈ ms, samePaths (resolve env member m) (resolve env member (firstOnly member m))) →
      samePathsL (ms.map (resolve env member)) ((ms.map (firstOnly member)).map (resolve env member))
  | [], _ => by simp [samePathsL]
  | m :: ms, h => by
    simp only [List.map_cons, samePathsL]
    exact ⟨h m (by simp), samePathsL_map env member ms (fun x hx => h x (List.mem_cons_of_mem _ hx))⟩

theorem paths_resolve_leaf (env : Env) (n : Option Str) (o : Bool) (k : Nat) (e : Elem) :
    paths (resolve env (.leaf n o k) e) = [n.toList] := by
  unfold resolve
  rw [paths_mk]
  simp [kidsFrom, qpaths_nil]

theorem firstOnly_ok (env : Env) : ∀ s : Schema, wf s = true → dense s = true → FirstOnlyOK env s := by
  apply schema_ind_wf
  · intro nm o k e hok
    simp only [firstOnly]
    exact ⟨hok, by simp [arrLe1], samePaths_refl _⟩
  · intro nm o k m e hok
    simp only [firstOnly]
    exact ⟨hok, by simp [arrLe1], samePaths_refl _⟩
  · intro nm o fields hnd hsome ih e hok
    cases e with
    | dict ms =>
      simp only [OkP] at hok
      obtain ⟨h1, h2, h3⟩ := firstOnlyFields_ok env fields ms (fun f hf => (ih f hf).2.2) hok.2
      simp only [firstOnly, OkP, arrLe1]
      refine ⟨⟨hok.1, h1⟩, h2, ?_⟩
      rw [resolve_dict env nm o fields hnd hsome ms hok.2, resolve_dict env nm o fields hnd hsome _ h1]
      exact samePaths_mk _ _ _ _ _ _ _ _ h3
    | _ => simp [OkP] at hok
  · intro nm o k fields hnd hsome ih e hok
    cases e with
    | dict ms =>
      simp only [OkP] at hok
      obtain ⟨h1, h2, h3⟩ := firstOnlyFields_ok env fields ms (fun f hf => (ih f hf).2.2) hok
      simp only [firstOnly, OkP, arrLe1]
      refine ⟨h1, h2, ?_⟩
      rw [resolve_compound env nm o k fields hnd hsome ms hok,
        resolve_compound env nm o k fields hnd hsome _ h1]
      exact samePaths_mk _ _ _ _ _ _ _ _ h3
    | _ => simp [OkP] at hok
  · intro nm o p mx member _ _ ih e hok
    cases e with
    | list ms =>
      simp only [OkP] at hok
      simp only [firstOnly, OkP, arrLe1, List.length_map]
      refine ⟨⟨hok.1, hok.2.1, ?_⟩, ?_, ?_⟩
      · intro x hx
        obtain ⟨m, hm, rfl⟩ := List.mem_map.mp hx
        exact (ih m (hok.2.2 m hm)).1
      · intro x hx
        obtain ⟨m, hm, rfl⟩ := List.mem_map.mp hx
        exact (ih m (hok.2.2 m hm)).2.1
      · rw [resolve_list, resolve_list]
        exact samePaths_mk _ _ _ _ _ _ _ _
          (samePathsL_map env member ms (fun m hm => (ih m (hok.2.2 m hm)).2.2))
    | _ => simp [OkP] at hok
  · intro nm o p member _ _ _ e hok
    cases e with
    | array ms =>
      simp only [OkP] at hok
      simp only [firstOnly, OkP, arrLe1]
      refine ⟨⟨hok.1, fun x hx => hok.2 x (List.mem_of_mem_take hx)⟩, ?_, ?_⟩
      · rw [List.length_take]; omega
      · rw [resolve_array, resolve_array, List.map_take]
        obtain ⟨n, o', k', rfl⟩ := hok.1
        apply samePaths_take1 _ _ _ _ _ _ n.toList
        intro k hk
        obtain ⟨m, _, rfl⟩ := List.mem_map.mp hk
        exact paths_resolve_leaf env n o' k' m
    | _ => simp [OkP] at hok

/-! ### the tokens of an emitted path -/

theorem mem_qpaths_kids (slots : Bool) : ∀ (i : Nat) (ks : List FNode) (ρ : List Str),
    ρ ∈ qpaths (kidsFrom [] slots i ks) →
      ∃ k ∈ ks, ∃ σ ∈ paths k, ρ = σ ∨ ∃ j, ρ = natStr j :: σ
  | _, [], ρ, h => by simp [kidsFrom, qpaths_nil] at h
  | i, k :: ks, ρ, h => by
    simp only [kidsFrom] at h
    rcases (mem_qpaths_cons _ _ ρ).mp h with h | h
    · rw [qpaths_single] at h
      obtain ⟨σ, hσ, rfl⟩ := List.mem_map.mp h
      refine ⟨k, by simp, σ, hσ, ?_⟩
      cases slots with
      | false => left; simp
      | true => right; exact ⟨i, by simp⟩
    · obtain ⟨k', hk', σ, hσ, hρ⟩ := mem_qpaths_kids slots (i + 1) ks ρ h
      exact ⟨k', List.mem_cons_of_mem _ hk', σ, hσ, hρ⟩

theorem tokens_mk (P : Str → Prop) (hidx : ∀ i, P (natStr i)) (nm : Option Str) (fl cfl : Bool) (u : Str)
    (slots : Bool) (kids : List FNode) (hnm : ∀ x, nm = some x → P x)
    (hk : ∀ k ∈ kids, ∀ σ ∈ paths k, ∀ t ∈ σ, P t) :
    ∀ π ∈ paths (.mk nm fl cfl u slots kids), ∀ t ∈ π, P t := by
  intro π hπ t ht
  have hown : ∀ t ∈ nm.toList, P t := by
    intro t ht
    cases nm with
    | none => simp at ht
    | some x => simp at ht; rw [ht]; exact hnm x rfl
  rcases (mem_paths_mk _ _ _ _ _ _ π).mp hπ with ⟨_, rfl⟩ | ⟨_, ρ, hρ, rfl⟩
  · exact hown t ht
  · rcases List.mem_append.mp ht with ht | ht
    · exact hown t ht
    · obtain ⟨k, hkk, σ, hσ, hρ'⟩ := mem_qpaths_kids slots 0 kids ρ hρ
      rcases hρ' with hρ' | ⟨j, hρ'⟩
      · rw [hρ'] at ht; exact hk k hkk σ hσ t ht
      · rw [hρ'] at ht
        rcases List.mem_cons.mp ht with ht | ht
        · rw [ht]; exact hidx j
        · exact hk k hkk σ hσ t ht

theorem path_tokens (env : Env) : ∀ s : Schema, wf s = true → dense s = true →
    ∀ e, OkP env s e → ∀ π ∈ paths (resolve env s e), ∀ t ∈ π, Tok s t := by
  apply schema_ind_wf
  · intro nm o k e hok
    cases e with
    | leaf u =>
      rw [resolve_leaf]
      apply tokens_mk (Tok _) (fun i => Or.inr ⟨i, rfl⟩)
      · intro x hx; subst hx; exact Or.inl (by simp [names])
      · intro k hk; simp at hk
    | _ => simp [OkP] at hok
  · intro nm o k m e hok
    cases e with
    | joined u ms =>
      rw [resolve_joined]
      intro π hπ t ht
      rcases (mem_paths_mk _ _ _ _ _ _ π).mp hπ with ⟨_, rfl⟩ | ⟨h, _⟩
      · cases nm with
        | none => simp at ht
        | some x => simp at ht; subst ht; exact Or.inl (by simp [names])
      · cases h
    | _ => simp [OkP] at hok
  · intro nm o fields hnd hsome ih e hok
    cases e with
    | dict ms =>
      simp only [OkP] at hok
      rw [resolve_dict env nm o fields hnd hsome ms hok.2]
      apply tokens_mk (Tok _) (fun i => Or.inr ⟨i, rfl⟩)
      · intro x hx; subst hx; exact Or.inl (by simp [names])
      · intro k hk σ hσ t ht
        obtain ⟨f, key, e, hz, rfl⟩ := resKids_mem env fields ms k hk
        have hf := (List.of_mem_zip hz).1
        rcases (ih f hf).2.2 e (okP_zip env fields ms hok.2 f key e hz).2 σ hσ t ht with h | h
        · exact Or.inl (by simp [names, names_sub_namesL hf t h])
        · exact Or.inr h
    | _ => simp [OkP] at hok
  · intro nm o k fields hnd hsome ih e hok
    cases e with
    | dict ms =>
      simp only [OkP] at hok
      rw [resolve_compound env nm o k fields hnd hsome ms hok]
      apply tokens_mk (Tok _) (fun i => Or.inr ⟨i, rfl⟩)
      · intro x hx; subst hx; exact Or.inl (by simp [names])
      · intro k hk σ hσ t ht
        obtain ⟨f, key, e, hz, rfl⟩ := resKids_mem env fields ms k hk
        have hf := (List.of_mem_zip hz).1
        rcases (ih f hf).2.2 e (okP_zip env fields ms hok f key e hz).2 σ hσ t ht with h | h
        · exact Or.inl (by simp [names, names_sub_namesL hf t h])
        · exact Or.inr h
    | _ => simp [OkP] at hok
  · intro nm o p mx member _ _ ih e hok
    cases e with
    | list ms =>
      simp only [OkP] at hok
      rw [resolve_list]
      apply tokens_mk (Tok _) (fun i => Or.inr ⟨i, rfl⟩)
      · intro x hx; subst hx; exact Or.inl (by simp [names])
      · intro k hk σ hσ t ht
        obtain ⟨m, hm, rfl⟩ := List.mem_map.mp hk
        rcases ih m (hok.2.2 m hm) σ hσ t ht with h | h
        · exact Or.inl (by simp [names, h])
        · exact Or.inr h
    | _ => simp [OkP] at hok
  · intro nm o p member _ _ ih e hok
    cases e with
    | array ms =>
      simp only [OkP] at hok
      rw [resolve_array]
      apply tokens_mk (Tok _) (fun i => Or.inr ⟨i, rfl⟩)
      · intro x hx; subst hx; exact Or.inl (by simp [names])
      · intro k hk σ hσ t ht
        obtain ⟨m, hm, rfl⟩ := List.mem_map.mp hk
        rcases ih m (hok.2 m hm) σ hσ t ht with h | h
        · exact Or.inl (by simp [names, h])
        · exact Or.inr h
    | _ => simp [OkP] at hok

end Flatland.Flat.Proofs
