/-
Groundwork for the flatten-level clauses of C01: an induction principle for well-formed dense
schemas, the positional reading of a compound's member texts, and facts about `dropTrailing`.
-/
import Proofs.Lemmas.C01Level
namespace Flatland.Flat.Proofs
open Flatland.Flat Flatland.Flat.Spec

/-! ### induction over schemas -/

section ind
variable {P : Schema → Prop}
  (hleaf : ∀ nm o k, P (.leaf nm o k))
  (hjoined : ∀ nm o k m, P (.joined nm o k m))
  (hdict : ∀ nm o mode fields, (∀ f ∈ fields, P f) → P (.dict nm o mode fields))
  (hcompound : ∀ nm o k fields, (∀ f ∈ fields, P f) → P (.compound nm o k fields))
  (hlist : ∀ nm o p mx member, P member → P (.list nm o p mx member))
  (harray : ∀ nm o p member, P member → P (.array nm o p member))
include hleaf hjoined hdict hcompound hlist harray

mutual
theorem schema_ind : ∀ s : Schema, P s
  | .leaf nm o k => hleaf nm o k
  | .joined nm o k m => hjoined nm o k m
  | .dict nm o mode fields => hdict nm o mode fields (schema_ind_list fields)
  | .compound nm o k fields => hcompound nm o k fields (schema_ind_list fields)
  | .list nm o p mx member => hlist nm o p mx member (schema_ind member)
  | .array nm o p member => harray nm o p member (schema_ind member)
theorem schema_ind_list : ∀ fs : List Schema, ∀ f ∈ fs, P f
  | [] => fun f hf => by simp at hf
  | g :: gs => by
    have h1 := schema_ind g
    have h2 := schema_ind_list gs
    intro f hf
    rcases List.mem_cons.mp hf with rfl | h
    · exact h1
    · exact h2 f h
end

end ind

/-- induction over well-formed schemas without SparseDicts, with the facts every case needs -/
theorem schema_ind_wf {Q : Schema → Prop}
    (hleaf : ∀ nm o k, Q (.leaf nm o k))
    (hjoined : ∀ nm o k m, Q (.joined nm o k m))
    (hdict : ∀ nm o fields, (namesOf fields).Nodup → (∀ g ∈ fields, g.name.isSome) →
      (∀ f ∈ fields, wf f = true ∧ dense f = true ∧ Q f) → Q (.dict nm o .dense fields))
    (hcompound : ∀ nm o k fields, (namesOf fields).Nodup → (∀ g ∈ fields, g.name.isSome) →
      (∀ f ∈ fields, wf f = true ∧ dense f = true ∧ Q f) → Q (.compound nm o k fields))
    (hlist : ∀ nm o p mx member, wf member = true → dense member = true → Q member →
      Q (.list nm o p mx member))
    (harray : ∀ nm o p member, wf member = true → dense member = true → Q member →
      Q (.array nm o p member)) :
    ∀ s : Schema, wf s = true → dense s = true → Q s := by
  intro s
  induction s using schema_ind with
  | hleaf nm o k => intro _ _; exact hleaf nm o k
  | hjoined nm o k m => intro _ _; exact hjoined nm o k m
  | hdict nm o mode fields ih =>
    intro hw hd
    simp only [wf, Bool.and_eq_true] at hw
    simp only [dense, Bool.and_eq_true, decide_eq_true_eq] at hd
    obtain ⟨hmode, hdl⟩ := hd
    subst hmode
    exact hdict nm o fields (by simpa using hw.2) (allSome_of fields hw.1.2)
      (fun f hf => ⟨wf_of_mem hw.1.1 f hf, dense_of_mem hdl f hf,
        ih f hf (wf_of_mem hw.1.1 f hf) (dense_of_mem hdl f hf)⟩)
  | hcompound nm o k fields ih =>
    intro hw hd
    simp only [wf, Bool.and_eq_true] at hw
    simp only [dense] at hd
    exact hcompound nm o k fields (by simpa using hw.2) (allSome_of fields hw.1.2)
      (fun f hf => ⟨wf_of_mem hw.1.1 f hf, dense_of_mem hd f hf,
        ih f hf (wf_of_mem hw.1.1 f hf) (dense_of_mem hd f hf)⟩)
  | hlist nm o p mx member ih =>
    intro hw hd
    simp only [wf] at hw
    simp only [dense] at hd
    exact hlist nm o p mx member hw hd (ih hw hd)
  | harray nm o p member ih =>
    intro hw hd
    simp only [wf] at hw
    simp only [dense] at hd
    exact harray nm o p member hw hd (ih hw hd)

/-! ### how containers resolve -/

theorem resolve_leaf (env : Env) (nm : Option Str) (o : Bool) (k : Nat) (t : Str) :
    resolve env (.leaf nm o k) (.leaf t) = .mk nm true true t false [] := by
  unfold resolve; rfl

theorem resolve_joined (env : Env) (nm : Option Str) (o : Bool) (k : Nat) (member : Schema) (t : Str)
    (ms : List Elem) :
    resolve env (.joined nm o k member) (.joined t ms)
      = .mk nm true false t false (resolveList env member ms) := by
  unfold resolve; rfl

theorem resolve_list (env : Env) (nm : Option Str) (o p : Bool) (mx : Nat) (member : Schema)
    (ms : List Elem) :
    resolve env (.list nm o p mx member) (.list ms)
      = .mk nm false true [] true (ms.map (resolve env member)) := by
  rw [← resolveList_eq_map]; unfold resolve; rfl

theorem resolve_array (env : Env) (nm : Option Str) (o p : Bool) (member : Schema) (ms : List Elem) :
    resolve env (.array nm o p member) (.array ms)
      = .mk nm false true [] false (ms.map (resolve env member)) := by
  rw [← resolveList_eq_map]; unfold resolve; rfl

theorem resolve_dict (env : Env) (nm : Option Str) (o : Bool) (fields : List Schema)
    (hnd : (namesOf fields).Nodup) (hsome : ∀ g ∈ fields, g.name.isSome) (ms : List (Str × Elem))
    (hok : OkPFields env fields ms) :
    resolve env (.dict nm o .dense fields) (.dict ms)
      = .mk nm false true [] false (resKids env fields ms) := by
  unfold resolve
  simp only [membersOf]
  rw [resolveMembers_eqP env fields hnd hsome ms fields ms (fun f hf => hf) hok]

theorem resolve_compound (env : Env) (nm : Option Str) (o : Bool) (k : Nat) (fields : List Schema)
    (hnd : (namesOf fields).Nodup) (hsome : ∀ g ∈ fields, g.name.isSome) (ms : List (Str × Elem))
    (hok : OkPFields env fields ms) :
    resolve env (.compound nm o k fields) (.dict ms)
      = .mk nm true true (uOf env (.compound nm o k fields) (.dict ms)) false (resKids env fields ms) := by
  unfold resolve
  simp only [membersOf]
  rw [resolveMembers_eqP env fields hnd hsome ms fields ms (fun f hf => hf) hok]

/-! ### a compound's member texts, positionally -/

/-- the texts of a mapping's members, read position by position -/
def usZip (env : Env) : List Schema → List (Str × Elem) → List (Str × Str)
  | f :: fs, (_, e) :: ms => (f.name.getD [], uOf env f e) :: usZip env fs ms
  | _, _ => []

theorem lookup_of_zip : ∀ (all : List Schema) (allMs : List (Str × Elem)),
    allMs.map (fun p => some p.1) = namesOf all → (namesOf all).Nodup →
    ∀ (f : Schema) (k : Str) (e : Elem), (f, (k, e)) ∈ all.zip allMs →
      f.name = some k ∧ lookup k allMs = some e
  | [], _, _, _, f, k, e, h => by simp at h
  | _ :: _, [], _, _, f, k, e, h => by simp at h
  | g :: gs, (k0, e0) :: ms, hk, hn, f, k, e, h => by
    simp only [List.map_cons, namesOf, List.cons.injEq] at hk
    simp only [namesOf, List.nodup_cons] at hn
    simp only [List.zip_cons_cons, List.mem_cons, Prod.mk.injEq] at h
    rcases h with ⟨rfl, rfl, rfl⟩ | h
    · exact ⟨hk.1.symm, by simp [lookup]⟩
    · have ih := lookup_of_zip gs ms hk.2 hn.2 f k e h
      refine ⟨ih.1, ?_⟩
      have hf : f ∈ gs := (List.of_mem_zip h).1
      have hne : k0 ≠ k := by
        intro hkk
        apply hn.1
        rw [← hk.1, hkk, ← ih.1]
        exact mem_namesOf hf
      simp [lookup, hne, ih.2]

theorem usOf_eq_zip_aux (env : Env) (all : List Schema) (allMs : List (Str × Elem))
    (hk : allMs.map (fun p => some p.1) = namesOf all) (hn : (namesOf all).Nodup) :
    ∀ (fs : List Schema) (ms : List (Str × Elem)), fs.length = ms.length →
      (∀ x ∈ fs.zip ms, x ∈ all.zip allMs) → usOf env fs allMs = usZip env fs ms
  | [], ms, _, _ => by cases ms <;> simp [usOf, usZip]
  | _ :: _, [], hl, _ => by simp at hl
  | f :: fs, (k, e) :: ms, hl, hsub => by
    have ih := usOf_eq_zip_aux env all allMs hk hn fs ms (by simpa using hl)
      (fun x hx => hsub x (by simp [hx]))
    have := lookup_of_zip all allMs hk hn f k e (hsub _ (by simp))
    simp only [usOf, usZip, this.1, Option.getD_some, this.2, ih]

/-- under distinct field names, looking members up by name reads them in declaration order -/
theorem usOf_eq_zip (env : Env) (fs : List Schema) (ms : List (Str × Elem))
    (hk : ms.map (fun p => some p.1) = namesOf fs) (hn : (namesOf fs).Nodup) :
    usOf env fs ms = usZip env fs ms := by
  have hl : fs.length = ms.length := by
    have h1 := congrArg List.length hk
    have h2 : (namesOf fs).length = fs.length := by
      clear hk hn h1
      induction fs with
      | nil => rfl
      | cons g gs ih => simp [namesOf, ih]
    simp only [List.length_map] at h1
    omega
  exact usOf_eq_zip_aux env fs ms hk hn fs ms hl (fun x hx => hx)

theorem uOf_compound (env : Env) (nm : Option Str) (o : Bool) (k : Nat) (fields : List Schema)
    (ms : List (Str × Elem)) :
    uOf env (.compound nm o k fields) (.dict ms) = env.compose k (usOf env fields ms) := by
  rw [uOf]

/-! ### `dropTrailing` -/

theorem dropWhile_head {α} (f : α → Bool) : ∀ r : List α,
    r.dropWhile f = [] ∨ ∃ a t, r.dropWhile f = a :: t ∧ f a = false ∧ a ∈ r
  | [] => Or.inl rfl
  | a :: r => by
    cases h : f a with
    | true =>
      rw [List.dropWhile_cons_of_pos h]
      rcases dropWhile_head f r with h0 | ⟨b, t, hb, hfb, hm⟩
      · exact Or.inl h0
      · exact Or.inr ⟨b, t, hb, hfb, List.mem_cons_of_mem _ hm⟩
    | false =>
      rw [List.dropWhile_cons_of_neg (by simp [h])]
      exact Or.inr ⟨a, r, rfl, h, by simp⟩

theorem any_dropWhile_not {α} (p : α → Bool) : ∀ r : List α,
    (r.dropWhile (fun x => !p x)).any p = r.any p
  | [] => rfl
  | a :: r => by
    cases h : p a with
    | true => rw [List.dropWhile_cons_of_neg (by simp [h])]
    | false =>
      rw [List.dropWhile_cons_of_pos (by simp [h]), any_dropWhile_not p r]
      simp [h]

theorem any_dropTrailing {α} (p : α → Bool) (l : List α) : (dropTrailing p l).any p = l.any p := by
  unfold dropTrailing
  rw [List.any_reverse, any_dropWhile_not, List.any_reverse]

/-- the list is what `dropTrailing` keeps, followed by elements that fail `p` -/
theorem dropTrailing_split {α} (p : α → Bool) (l : List α) :
    ∃ tl, l = dropTrailing p l ++ tl ∧ ∀ x ∈ tl, p x = false := by
  refine ⟨(l.reverse.takeWhile (fun x => !p x)).reverse, ?_, ?_⟩
  · unfold dropTrailing
    rw [← List.reverse_append, List.takeWhile_append_dropWhile, List.reverse_reverse]
  · intro x hx
    have hall := List.all_takeWhile (p := fun x => !p x) (l := l.reverse)
    have := List.all_eq_true.mp hall x (List.mem_reverse.mp hx)
    simpa using this

theorem mem_of_mem_dropTrailing {α} (p : α → Bool) (l : List α) (x : α) (h : x ∈ dropTrailing p l) :
    x ∈ l := by
  obtain ⟨tl, hl, _⟩ := dropTrailing_split p l
  rw [hl]; exact List.mem_append_left _ h

/-- mapping what `dropTrailing` keeps by a function that preserves the test leaves nothing more to
    drop -/
theorem dropTrailing_map_idem {α β} (p : α → Bool) (q : β → Bool) (g : α → β) (l : List α)
    (h : ∀ x ∈ l, q (g x) = p x) :
    dropTrailing q ((dropTrailing p l).map g) = (dropTrailing p l).map g := by
  unfold dropTrailing
  rw [← List.map_reverse, List.reverse_reverse]
  rcases dropWhile_head (fun x => !p x) l.reverse with h0 | ⟨a, t, ha, hpa, hm⟩
  · rw [h0]; rfl
  · have := h a (List.mem_reverse.mp hm)
    simp only [Bool.not_eq_false'] at hpa
    rw [ha, List.map_cons, List.dropWhile_cons_of_neg (by simp [this, hpa])]
    simp

theorem dropTrailing_eq_self_split {α} (p : α → Bool) (l tl : List α)
    (h1 : dropTrailing p l = l) (h2 : l = dropTrailing p l ++ tl) : tl = [] := by
  rw [h1] at h2
  exact List.self_eq_append_right.mp h2

end Flatland.Flat.Proofs
