import Proofs.Lemmas.C17Basic
namespace Flatland.C17.Proofs
open Flatland.C17 Flatland.C17.Spec

/-! ### side conditions as propositions -/

/-- no `Properties` object sits in the `__dict__` of two classes -/
def NoShared (σ : State) : Prop :=
  ∀ c c' d, σ.ownOf c = some d → σ.ownOf c' = some d → c = c'

/-- ids are in range; every MRO starts with the class itself and lists no class twice -/
structure WF (σ : State) : Prop where
  mro_lt : ∀ c x, x ∈ σ.mroOf c → x < σ.classes.length
  mro_head : ∀ c, c < σ.classes.length → ∃ tail, σ.mroOf c = c :: tail
  mro_nodup : ∀ c, (σ.mroOf c).Nodup
  own_lt : ∀ c d, σ.ownOf c = some d → d < σ.ndesc
  key_lt : ∀ key f, (key, f) ∈ σ.frames →
    match key with
    | .init d => d < σ.ndesc
    | .cls d c => d < σ.ndesc ∧ c < σ.classes.length
  inst_lt : ∀ (i : Nat) (x : Inst), σ.insts[i]? = some x → x.cls < σ.classes.length

/-! ### `setFrame` touches one dict object only -/

@[simp] theorem mroOf_setFrame (σ : State) (key : FrameKey) (f : Frame) (c : ClassId) :
    (σ.setFrame key f).mroOf c = σ.mroOf c := rfl
@[simp] theorem ownOf_setFrame (σ : State) (key : FrameKey) (f : Frame) (c : ClassId) :
    (σ.setFrame key f).ownOf c = σ.ownOf c := rfl
@[simp] theorem owns_setFrame (σ : State) (key : FrameKey) (f : Frame) (c : ClassId) (d : DescId) :
    (σ.setFrame key f).owns c d = σ.owns c d := rfl
@[simp] theorem descOf_setFrame (σ : State) (key : FrameKey) (f : Frame) (c : ClassId) :
    (σ.setFrame key f).descOf c = σ.descOf c := rfl
@[simp] theorem insts_setFrame (σ : State) (key : FrameKey) (f : Frame) :
    (σ.setFrame key f).insts = σ.insts := rfl
@[simp] theorem classes_setFrame (σ : State) (key : FrameKey) (f : Frame) :
    (σ.setFrame key f).classes = σ.classes := rfl

theorem frames_setFrame (σ : State) (key key' : FrameKey) (f : Frame) :
    AList.get? (σ.setFrame key f).frames key' = if key = key' then some f else AList.get? σ.frames key' := by
  simp [State.setFrame, get?_set]

theorem frameD_setFrame (σ : State) (key key' : FrameKey) (f : Frame) :
    (σ.setFrame key f).frameD key' = if key = key' then f else σ.frameD key' := by
  simp only [State.frameD, frames_setFrame]; split <;> simp

theorem ownOf_congr {σ σ' : State} (hc : σ'.classes = σ.classes) (c : ClassId) :
    σ'.ownOf c = σ.ownOf c := by simp [State.ownOf, hc]
theorem owns_congr {σ σ' : State} (hc : σ'.classes = σ.classes) (c : ClassId) (d : DescId) :
    σ'.owns c d = σ.owns c d := by simp [State.owns, ownOf_congr hc]
theorem mroOf_congr {σ σ' : State} (hc : σ'.classes = σ.classes) (c : ClassId) :
    σ'.mroOf c = σ.mroOf c := by simp [State.mroOf, hc]
theorem descOf_congr {σ σ' : State} (hc : σ'.classes = σ.classes) (c : ClassId) :
    σ'.descOf c = σ.descOf c := by
  have : σ'.ownOf = σ.ownOf := funext (ownOf_congr hc)
  simp [State.descOf, mroOf_congr hc, this]
theorem baseKey_congr {σ σ' : State} (hc : σ'.classes = σ.classes) (c : ClassId) (d : DescId) :
    σ'.baseKey c d = σ.baseKey c d := by simp [State.baseKey, owns_congr hc]

/-- a walk only depends on the class table and on the dict objects it visits -/
theorem walk_congr (σ σ' : State) (hc : σ'.classes = σ.classes) (d : DescId) (l : List ClassId)
    (h : ∀ c ∈ l, AList.get? σ'.frames (σ.baseKey c d) = AList.get? σ.frames (σ.baseKey c d)) :
    σ'.walk d l = σ.walk d l := by
  induction l with
  | nil => rfl
  | cons c rest ih =>
    have h1 := h c (List.mem_cons_self ..)
    have ih' := ih (fun x hx => h x (List.mem_cons_of_mem _ hx))
    unfold State.walk
    rw [owns_congr hc]
    unfold State.baseKey at h1
    split
    · rename_i ho
      simp only [ho, if_true] at h1
      simp [State.frameD, h1]
    · rename_i ho
      simp only [ho] at h1
      simp only [Bool.false_eq_true, if_false] at h1
      rw [h1, ih']

theorem tFrames_congr {σ σ' : State} (hc : σ'.classes = σ.classes) (hf : σ'.frames = σ.frames)
    (c : ClassId) (d : DescId) : tFrames σ' c d = tFrames σ c d := by
  unfold tFrames
  rw [mroOf_congr hc]
  exact walk_congr σ σ' hc d _ (fun _ _ => by rw [hf])

theorem tGet_congr {σ σ' : State} (hc : σ'.classes = σ.classes) (hf : σ'.frames = σ.frames)
    (c : ClassId) (d : DescId) (k : Key) : tGet σ' c d k = tGet σ c d k := by
  simp only [tGet, tFrames_congr hc hf]

theorem tItems_congr {σ σ' : State} (hc : σ'.classes = σ.classes) (hf : σ'.frames = σ.frames)
    (c : ClassId) (d : DescId) : tItems σ' c d = tItems σ c d := by
  simp only [tItems, tFrames_congr hc hf]

theorem iGet_congr {σ σ' : State} (hc : σ'.classes = σ.classes) (hf : σ'.frames = σ.frames)
    (f : Frame) (c : ClassId) (d : DescId) (k : Key) : iGet σ' f c d k = iGet σ f c d k := by
  simp only [iGet, tGet_congr hc hf]

/-- a walk that never visits the dict object `key` does not notice a write to it -/
theorem walk_setFrame (σ : State) (d : DescId) (key : FrameKey) (f : Frame) (l : List ClassId)
    (h : ∀ c ∈ l, σ.baseKey c d ≠ key) : (σ.setFrame key f).walk d l = σ.walk d l := by
  apply walk_congr σ (σ.setFrame key f) rfl
  intro c hc
  rw [frames_setFrame, if_neg (Ne.symm (h c hc))]

theorem baseKey_ne (σ : State) (hs : NoShared σ) (c v : ClassId) (d d' : DescId) (hne : c ≠ v) :
    σ.baseKey c d' ≠ σ.baseKey v d := by
  unfold State.baseKey State.owns
  intro h
  split at h <;> split at h
  · rename_i h1 h2
    simp only [FrameKey.init.injEq] at h
    subst h
    simp only [beq_iff_eq] at h1 h2
    exact hne (hs c v _ h1 h2)
  · simp at h
  · simp at h
  · simp only [FrameKey.cls.injEq] at h; exact hne h.2

end Flatland.C17.Proofs
