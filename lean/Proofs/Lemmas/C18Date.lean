/- the Date recogniser on formatted member values (C18) -/
import Proofs.Lemmas.C04Reset
import Flatland.C18
open Flatland.Scalar Flatland.Scalar.Spec

namespace Flatland.Scalar

theorem natDigitVals_length_gt (n w : Nat) (h : 10 ^ w ≤ n) : w < (natDigitVals n).length := by
  induction w generalizing n with
  | zero =>
    have := natDigitVals_ne_nil n
    cases hn : natDigitVals n with
    | nil => exact absurd hn this
    | cons a t => simp
  | succ w ih =>
    rw [natDigitVals]
    have h10 : 10 ≤ n := by
      have : 10 ^ 1 ≤ 10 ^ (w + 1) := Nat.pow_le_pow_right (by omega) (by omega)
      omega
    rw [if_neg (by omega)]
    have : 10 ^ w ≤ n / 10 := by
      rw [Nat.pow_succ] at h
      exact (Nat.le_div_iff_mul_le (by omega)).mpr h
    have := ih (n / 10) this
    simp; omega

theorem padVals_of_big (w n : Nat) (h : 10 ^ w ≤ n) : padVals w n = natDigitVals n := by
  unfold padVals
  have := natDigitVals_length_gt n w h
  rw [Nat.sub_eq_zero_of_le (by omega)]
  simp

/-- taking `n` digits from a longer run of digits leaves digits behind -/
theorem takeDigits_prefix (T : Tables) (hT : T.OK) (n : Nat) (ds : List Nat) (h : ∀ d ∈ ds, d < 10)
    (hn : n ≤ ds.length) (rest : Str) :
    takeDigits T n (ds.map digitChar ++ rest) = some (ds.take n, (ds.drop n).map digitChar ++ rest) := by
  induction n generalizing ds with
  | zero => simp [takeDigits]
  | succ n ih =>
    cases ds with
    | nil => simp at hn
    | cons d t =>
      have hd : d < 10 := h d (by simp)
      simp only [List.map_cons, List.cons_append, takeDigits, hT.1 d hd]
      rw [ih t (fun x hx => h x (List.mem_cons_of_mem _ hx)) (by simpa using hn)]
      simp

theorem takeDigits_minus (T : Tables) (hT : T.OK) (n : Nat) (rest : Str) :
    takeDigits T (n + 1) ('-' :: rest) = none := by
  simp [takeDigits, hT.2.2.2.2.2]

theorem takeChar_same (c : Char) (rest : Str) : takeChar c (c :: rest) = some rest := by
  simp [takeChar]

theorem takeChar_digit (d : Nat) (hd : d < 10) (rest : Str) : takeChar '-' (digitChar d :: rest) = none := by
  have := (digitChar_ne d hd).2.1
  simp [takeChar, this]

/-- a field printed with `%0<w>i` is recognised by `\d{w}` followed by something that is not a digit
    exactly when the number is in `[0, 10^w)` -/
theorem takeDigits_fmtInt_neg (T : Tables) (hT : T.OK) (w : Nat) (i : Int) (hi : i < 0) (rest : Str) :
    takeDigits T (w + 1) (fmtInt (w + 1) i ++ rest) = none := by
  rw [fmtInt_neg _ i hi]
  exact takeDigits_minus T hT w _

theorem takeDigits_fmtInt_big (T : Tables) (hT : T.OK) (w n : Nat) (hw : 1 ≤ w) (h : 10 ^ w ≤ n) (rest : Str) :
    ∃ d, d < 10 ∧ ∃ ds more, takeDigits T w (fmtInt w (n : Int) ++ rest) = some (ds, digitChar d :: more) := by
  rw [fmtInt_nat, padVals_of_big w n h]
  have hlen := natDigitVals_length_gt n w h
  rw [takeDigits_prefix T hT w _ (natDigitVals_lt n) (by omega)]
  cases hdrop : (natDigitVals n).drop w with
  | nil =>
    have : ((natDigitVals n).drop w).length = 0 := by rw [hdrop]; rfl
    rw [List.length_drop] at this; omega
  | cons d t =>
    have hd : d < 10 := natDigitVals_lt n d (List.mem_of_mem_drop (by rw [hdrop]; simp))
    exact ⟨d, hd, (natDigitVals n).take w, t.map digitChar ++ rest, by simp⟩


/-- what the Date recogniser says about `'%04i-%02i-%02i' % (y, m, d)` -/
theorem matchDate_fmt (T : Tables) (hT : T.OK) (y m d : Int) :
    matchDate T (fmtInt 4 y ++ ['-'] ++ fmtInt 2 m ++ ['-'] ++ fmtInt 2 d) =
      if 0 ≤ y ∧ y < 10000 ∧ 0 ≤ m ∧ m < 100 ∧ 0 ≤ d ∧ d < 100 then some (y.toNat, m.toNat, d.toNat) else none := by
  unfold matchDate match3
  simp only [List.append_assoc, List.cons_append, List.nil_append]
  by_cases hy0 : y < 0
  · rw [takeDigits_fmtInt_neg T hT 3 y hy0]
    simp only [Option.bind_eq_bind, Option.bind_none]
    rw [if_neg (by omega)]
  · obtain ⟨yn, rfl⟩ := Int.eq_ofNat_of_zero_le (by omega : 0 ≤ y)
    by_cases hyb : 10 ^ 4 ≤ yn
    · obtain ⟨k, hk, ds, more, hrun⟩ := takeDigits_fmtInt_big T hT 4 yn (by omega) hyb
        ('-' :: (fmtInt 2 m ++ '-' :: fmtInt 2 d))
      rw [hrun]
      simp only [Option.bind_eq_bind, Option.bind_some, takeChar_digit k hk, Option.bind_none]
      rw [if_neg (by omega)]
    · rw [takeDigits_pad T hT 4 yn (by omega) (by omega)]
      simp only [Option.bind_eq_bind, Option.bind_some, takeChar_same]
      by_cases hm0 : m < 0
      · rw [takeDigits_fmtInt_neg T hT 1 m hm0]
        simp only [Option.bind_none]
        rw [if_neg (by omega)]
      · obtain ⟨mn, rfl⟩ := Int.eq_ofNat_of_zero_le (by omega : 0 ≤ m)
        by_cases hmb : 10 ^ 2 ≤ mn
        · obtain ⟨k, hk, ds, more, hrun⟩ := takeDigits_fmtInt_big T hT 2 mn (by omega) hmb ('-' :: fmtInt 2 d)
          rw [hrun]
          simp only [Option.bind_some, takeChar_digit k hk, Option.bind_none]
          rw [if_neg (by omega)]
        · rw [takeDigits_pad T hT 2 mn (by omega) (by omega)]
          simp only [Option.bind_some, takeChar_same]
          by_cases hd0 : d < 0
          · have := takeDigits_fmtInt_neg T hT 1 d hd0 []
            simp only [List.append_nil] at this
            rw [this]
            simp only [Option.bind_none]
            rw [if_neg (by omega)]
          · obtain ⟨dn, rfl⟩ := Int.eq_ofNat_of_zero_le (by omega : 0 ≤ d)
            by_cases hdb : 10 ^ 2 ≤ dn
            · obtain ⟨k, hk, ds, more, hrun⟩ := takeDigits_fmtInt_big T hT 2 dn (by omega) hdb []
              simp only [List.append_nil] at hrun
              rw [hrun]
              simp only [Option.bind_some, Option.pure_def]
              have hne : atEnd (digitChar k :: more) = false := by
                have h1 : digitChar k ≠ '\n' := by
                  have : k = 0 ∨ k = 1 ∨ k = 2 ∨ k = 3 ∨ k = 4 ∨ k = 5 ∨ k = 6 ∨ k = 7 ∨ k = 8 ∨ k = 9 := by omega
                  rcases this with h | h | h | h | h | h | h | h | h | h <;> subst h <;> decide
                simp [atEnd, h1]
              simp only [hne, Bool.false_eq_true, if_false]
              rw [if_neg (by omega)]
            · have := takeDigits_pad T hT 2 dn (by omega) (by omega) []
              simp only [List.append_nil] at this
              rw [this]
              simp only [Option.bind_some, Option.pure_def, digitsVal_padVals, atEnd, beq_self_eq_true,
                Bool.true_or, if_true]
              rw [if_pos (by omega)]
              simp

end Flatland.Scalar
