/-
End-to-end (C12 ∘ C02 ∘ C01), lemma 2: the executable tests of `Flatland/Spec/EndToEnd.lean` imply the
propositions the composed theorems use: `hnodupB → HNodup` (C02), `fnodeBeq → =`, `namesSafe → SepSafe`.
-/
import Proofs.C02Order
import Proofs.C01Examples
import Flatland.Spec.EndToEnd
namespace Flatland.EndToEnd.Proofs
open Flatland.Flat Flatland.Flat.Spec Flatland.Flat.Proofs Flatland.EndToEnd

/-- a slot no pair addresses has an empty group -/
theorem groupOf_eq_nil (env : Env) (sep : Str) (name : Option Str) (prune : Bool) (i : Nat) (ps : Pairs)
    (h : i ∉ indexesOf env sep name prune ps) : groupOf env sep name prune i ps = [] := by
  unfold groupOf
  rw [List.filterMap_eq_nil_iff]
  intro p hp
  by_cases hc : (prune && p.2.isEmpty) = true
  · simp [hc]
  · simp only [hc, if_false, Bool.false_eq_true]
    cases hl : listAddr env sep name p.1 with
    | none => rfl
    | some jc =>
      obtain ⟨j, ck⟩ := jc
      have : j ≠ i := by
        intro hji
        apply h
        unfold indexesOf
        rw [List.mem_filterMap]
        exact ⟨p, hp, by simp [hc, hl, hji]⟩
      simp [this]

mutual
theorem hnodupB_sound (env : Env) (sep : Str) : ∀ (s : Schema) (ps : Pairs),
    hnodupB env sep s ps = true → HNodup env sep s ps
  | .leaf .., ps, h => by simpa [hnodupB, HNodup] using h
  | .joined .., ps, h => by simpa [hnodupB, HNodup] using h
  | .dict name o m fields, ps, h => by
    simp only [hnodupB] at h
    simp only [HNodup]
    exact hnodupFieldsB_sound env sep fields _ h
  | .compound name o k fields, ps, h => by
    simp only [hnodupB] at h
    simp only [HNodup]
    exact hnodupFieldsB_sound env sep fields _ h
  | .list name o prune mx member, ps, h => by
    simp only [hnodupB, Bool.and_eq_true, List.all_eq_true] at h
    simp only [HNodup]
    intro i
    by_cases hi : i ∈ indexesOf env sep name prune ps
    · exact hnodupB_sound env sep member _ (h.1 i hi)
    · rw [groupOf_eq_nil env sep name prune i ps hi]
      exact hnodupB_sound env sep member [] h.2
  | .array name o prune member, ps, h => by
    simp only [hnodupB] at h
    simp only [HNodup]
    split
    · rename_i hn; simpa [hn] using h
    · rename_i hn; simpa [hn] using h
theorem hnodupFieldsB_sound (env : Env) (sep : Str) : ∀ (fs : List Schema) (poss : List (Str × Str)),
    hnodupFieldsB env sep fs poss = true → HNodupFields env sep fs poss
  | [], _, _ => by simp [HNodupFields]
  | f :: fs, poss, h => by
    simp only [hnodupFieldsB, Bool.and_eq_true] at h
    simp only [HNodupFields]
    exact ⟨hnodupB_sound env sep f _ h.1, hnodupFieldsB_sound env sep fs poss h.2⟩
end

mutual
theorem fnodeBeq_sound : ∀ a b : FNode, fnodeBeq a b = true → a = b
  | .mk n f c u s k, .mk n' f' c' u' s' k', h => by
    simp only [fnodeBeq, Bool.and_eq_true, beq_iff_eq] at h
    obtain ⟨⟨⟨⟨⟨h1, h2⟩, h3⟩, h4⟩, h5⟩, h6⟩ := h
    rw [h1, h2, h3, h4, h5, fnodesBeq_sound k k' h6]
theorem fnodesBeq_sound : ∀ a b : List FNode, fnodesBeq a b = true → a = b
  | [], [], _ => rfl
  | a :: as, b :: bs, h => by
    simp only [fnodesBeq, Bool.and_eq_true] at h
    rw [fnodeBeq_sound a b h.1, fnodesBeq_sound as bs h.2]
  | [], _ :: _, h => by simp [fnodesBeq] at h
  | _ :: _, [], h => by simp [fnodesBeq] at h
end

theorem envOKB_sound (env : Env) (h : envOKB env = true) : EnvOK env := by
  unfold envOKB at h
  unfold EnvOK
  cases hz : env.ndZeros with
  | nil => simp [hz] at h
  | cons z zs =>
    simp [hz] at h
    exact ⟨zs, by rw [h]⟩

theorem namesSafe_sound (env : Env) (s : Schema) (henv : EnvOK env) (h : namesSafe env s = true) :
    SepSafe env usep (Tok s) := by
  simp only [namesSafe, Bool.and_eq_true, List.all_eq_true, Bool.not_eq_true'] at h
  apply sepSafe_single_char env henv s '_' h.1
  intro t ht
  have := h.2 t ht
  constructor
  · intro he; subst he; simp at this
  · intro hc
    have h2 : t.contains '_' = true := by simpa using hc
    rw [h2] at this
    simp at this

end Flatland.EndToEnd.Proofs
