/-
C07, uniqueness of name paths — node level.

`paths n` is the list of token paths `flatten()` emits for the resolved element `n` (one per emitted
pair, in order).  This file: what the paths of a node are in terms of the paths of its members, when
they are pairwise distinct (siblings told apart by the first token of their paths), and when two
nodes emit the same *set* of paths.
-/
import Proofs.Lemmas.C01LevelBase
namespace Flatland.Flat.Proofs
open Flatland.Flat Flatland.Flat.Spec

/-! ### list facts -/

theorem nodup_map_of_inj_on {α β} (f : α → β) : ∀ l : List α,
    (∀ a ∈ l, ∀ b ∈ l, f a = f b → a = b) → l.Nodup → (l.map f).Nodup
  | [], _, _ => by simp
  | a :: l, hinj, hnd => by
    rw [List.nodup_cons] at hnd
    rw [List.map_cons, List.nodup_cons]
    refine ⟨?_, nodup_map_of_inj_on f l
      (fun x hx y hy => hinj x (List.mem_cons_of_mem _ hx) y (List.mem_cons_of_mem _ hy)) hnd.2⟩
    intro hm
    obtain ⟨b, hb, hfb⟩ := List.mem_map.mp hm
    have := hinj b (List.mem_cons_of_mem _ hb) a List.mem_cons_self hfb
    subst this
    exact hnd.1 hb

theorem nodup_map_prefix (p : List Str) (l : List (List Str)) (h : l.Nodup) :
    (l.map (fun x => p ++ x)).Nodup :=
  nodup_map_of_inj_on _ l (fun _ _ _ _ hab => List.append_cancel_left hab) h

/-- decimal forms of different indexes differ (no interpreter table needed: any table that starts
    with the ASCII decade reads them back) -/
theorem natStr_inj' {i j : Nat} (h : natStr i = natStr j) : i = j := by
  let env0 : Env := Env.mk (fun _ s => s) (fun _ _ => []) (fun _ _ => []) [48] 0
  have h0 : EnvOK env0 := ⟨[], rfl⟩
  exact natStr_inj h0 h

/-! ### the token paths of a queue and of a node -/

/-- the token paths the queue loop emits, in order -/
def qpaths (q : List QItem) : List (List Str) := (bfsPath q).map Prod.fst

/-- the token paths `flatten()` emits for a node, relative to the node's own position -/
def paths (n : FNode) : List (List Str) := (relFlat n).map Prod.fst

theorem paths_eq_qpaths (n : FNode) : paths n = qpaths [([], n)] := rfl

theorem qpaths_nil : qpaths [] = [] := by simp [qpaths, bfsPath_nil]

theorem qpaths_shift (p : List Str) (q : List QItem) :
    qpaths (q.map (shift p)) = (qpaths q).map (fun x => p ++ x) := by
  unfold qpaths
  rw [bfsPath_shift', List.map_map, List.map_map]
  rfl

theorem qpaths_single (p : List Str) (k : FNode) :
    qpaths [(p, k)] = (paths k).map (fun x => p ++ x) := by
  unfold qpaths paths
  rw [bfsPath_single, List.map_map, List.map_map]
  rfl

theorem qpaths_cons_perm (it : QItem) (q : List QItem) :
    (qpaths (it :: q)).Perm (qpaths [it] ++ qpaths q) := by
  unfold qpaths
  rw [← List.map_append]
  exact (bfsPath_append_perm [it] q).map _

theorem mem_qpaths_cons (it : QItem) (q : List QItem) (π : List Str) :
    π ∈ qpaths (it :: q) ↔ π ∈ qpaths [it] ∨ π ∈ qpaths q := by
  rw [(qpaths_cons_perm it q).mem_iff, List.mem_append]

/-- every path an item emits extends the item's own name path -/
theorem qpaths_prefix (it : QItem) (π : List Str) (h : π ∈ qpaths [it]) :
    ∃ ext, π = namePath it.1 it.2 ++ ext := by
  obtain ⟨x, hx, rfl⟩ := List.mem_map.mp h
  obtain ⟨it', hit, ext, he⟩ := bfsPath_mem _ x hx
  simp only [List.mem_singleton] at hit
  subst hit
  exact ⟨ext, he⟩

/-- the paths of a node: its own (if it is flattenable), then — below its name — what its members
    emit (if they may be flattened) -/
theorem paths_mk (nm : Option Str) (fl cfl : Bool) (u : Str) (slots : Bool) (kids : List FNode) :
    paths (.mk nm fl cfl u slots kids) =
      (if fl then [nm.toList] else []) ++
        (if cfl then (qpaths (kidsFrom [] slots 0 kids)).map (fun x => nm.toList ++ x) else []) := by
  unfold paths
  rw [relFlat_eq, List.map_append]
  congr 1
  · cases fl <;> simp [ownPath, FNode.fl, namePath, FNode.name]
  · cases cfl with
    | false => simp [pushed, FNode.cfl, bfsPath_nil]
    | true =>
      simp only [pushed, FNode.cfl, if_true, childItems, namePath, FNode.name, FNode.slots,
        FNode.kids, List.nil_append]
      have h := kidsFrom_shift nm.toList [] slots 0 kids
      rw [List.append_nil] at h
      rw [h]
      exact qpaths_shift _ _

theorem mem_paths_mk (nm : Option Str) (fl cfl : Bool) (u : Str) (slots : Bool) (kids : List FNode)
    (π : List Str) :
    π ∈ paths (.mk nm fl cfl u slots kids) ↔
      (fl = true ∧ π = nm.toList) ∨
        (cfl = true ∧ ∃ ρ ∈ qpaths (kidsFrom [] slots 0 kids), π = nm.toList ++ ρ) := by
  rw [paths_mk, List.mem_append]
  constructor
  · rintro (h | h)
    · left
      cases fl with
      | true => simpa using h
      | false => simp at h
    · right
      cases cfl with
      | false => simp at h
      | true =>
        simp only [if_true, List.mem_map] at h
        obtain ⟨ρ, hρ, rfl⟩ := h
        exact ⟨rfl, ρ, hρ, rfl⟩
  · rintro (⟨hfl, rfl⟩ | ⟨hcfl, ρ, hρ, rfl⟩)
    · left; simp [hfl]
    · right
      simp only [hcfl, if_true, List.mem_map]
      exact ⟨ρ, hρ, rfl⟩

/-! ### when the paths of a queue are pairwise distinct -/

/-- Items told apart by the first token of their name paths emit disjoint sets of paths; so if each
    item's paths are pairwise distinct, so are the paths of the whole queue — and none is empty. -/
theorem nodup_queue (h : QItem → Str) : ∀ (q : List QItem),
    (∀ it ∈ q, (namePath it.1 it.2).head? = some (h it)) → (q.map h).Nodup →
    (∀ it ∈ q, (qpaths [it]).Nodup) →
      (qpaths q).Nodup ∧ ∀ π ∈ qpaths q, ∃ it ∈ q, π.head? = some (h it)
  | [], _, _, _ => by simp [qpaths_nil]
  | it :: q, hh, hnd, hk => by
    rw [List.map_cons, List.nodup_cons] at hnd
    have ih := nodup_queue h q (fun x hx => hh x (List.mem_cons_of_mem _ hx)) hnd.2
      (fun x hx => hk x (List.mem_cons_of_mem _ hx))
    have hhead : ∀ π ∈ qpaths [it], π.head? = some (h it) := by
      intro π hπ
      obtain ⟨ext, rfl⟩ := qpaths_prefix it π hπ
      have := hh it List.mem_cons_self
      cases hnp : namePath it.1 it.2 with
      | nil => rw [hnp] at this; simp at this
      | cons a r => rw [hnp] at this; simpa using this
    constructor
    · rw [(qpaths_cons_perm it q).nodup_iff, List.nodup_append]
      refine ⟨hk it List.mem_cons_self, ih.1, ?_⟩
      intro a ha b hb hab
      subst hab
      obtain ⟨it', hit', hb'⟩ := ih.2 a hb
      rw [hhead a ha] at hb'
      apply hnd.1
      rw [Option.some.inj hb']
      exact List.mem_map_of_mem hit'
    · intro π hπ
      rcases (mem_qpaths_cons it q π).mp hπ with h1 | h1
      · exact ⟨it, List.mem_cons_self, hhead π h1⟩
      · obtain ⟨it', hit', hb'⟩ := ih.2 π h1
        exact ⟨it', List.mem_cons_of_mem _ hit', hb'⟩

/-! #### members of a mapping: told apart by their names -/

theorem kidsFrom_nil_noslots (i : Nat) (ks : List FNode) :
    kidsFrom [] false i ks = ks.map (fun k => (([], k) : QItem)) := kidsFrom_noslots [] i ks

theorem nodup_named_kids (ks : List FNode) (hsome : ∀ k ∈ ks, k.name.isSome)
    (hnd : (ks.map FNode.name).Nodup) (hk : ∀ k ∈ ks, (paths k).Nodup) :
    (qpaths (kidsFrom [] false 0 ks)).Nodup ∧ ∀ π ∈ qpaths (kidsFrom [] false 0 ks), π ≠ [] := by
  rw [kidsFrom_nil_noslots]
  have h := nodup_queue (fun it => it.2.name.getD []) (ks.map (fun k => (([], k) : QItem)))
    (by
      intro it hit
      obtain ⟨k, hk', rfl⟩ := List.mem_map.mp hit
      have := hsome k hk'
      cases hn : k.name with
      | none => rw [hn] at this; simp at this
      | some x => simp [namePath, hn])
    (by
      rw [List.map_map]
      have : ((fun it : QItem => it.2.name.getD []) ∘ fun k => (([], k) : QItem))
          = (fun o : Option Str => o.getD []) ∘ FNode.name := rfl
      rw [this, ← List.map_map]
      apply nodup_map_of_inj_on _ _ _ hnd
      intro a ha b hb hab
      obtain ⟨k, hk', rfl⟩ := List.mem_map.mp ha
      obtain ⟨k', hk'', rfl⟩ := List.mem_map.mp hb
      have h1 := hsome k hk'
      have h2 := hsome k' hk''
      cases hn : k.name with
      | none => rw [hn] at h1; simp at h1
      | some x =>
        cases hn' : k'.name with
        | none => rw [hn'] at h2; simp at h2
        | some y => rw [hn, hn'] at hab; simp at hab; rw [hab])
    (by
      intro it hit
      obtain ⟨k, hk', rfl⟩ := List.mem_map.mp hit
      exact hk k hk')
  refine ⟨h.1, ?_⟩
  intro π hπ
  obtain ⟨_, _, hh⟩ := h.2 π hπ
  intro hnil
  rw [hnil] at hh
  simp at hh

/-! #### members of a List: told apart by their index -/

theorem slotItems_heads_nodup : ∀ (i : Nat) (ks : List FNode),
    ((slotItems i ks).map (fun it : QItem => it.1.headD [])).Nodup
  | _, [] => by simp [slotItems]
  | i, k :: ks => by
    simp only [slotItems, List.map_cons, List.nodup_cons]
    refine ⟨?_, slotItems_heads_nodup (i + 1) ks⟩
    intro hm
    obtain ⟨it, hit, he⟩ := List.mem_map.mp hm
    obtain ⟨j, _, hj⟩ := mem_slotItems (i + 1) ks it hit
    rw [hj] at he
    simp only [List.headD_cons] at he
    have := natStr_inj' he
    omega

theorem nodup_slot_kids (ks : List FNode) (hk : ∀ k ∈ ks, (paths k).Nodup) :
    (qpaths (kidsFrom [] true 0 ks)).Nodup := by
  have hs := kidsFrom_slots [] 0 ks
  have hid : (slotItems 0 ks).map (shift []) = slotItems 0 ks := by
    have : shift [] = id := by funext it; simp [shift]
    rw [this, List.map_id]
  rw [hs, hid]
  have hmem : ∀ (i : Nat) (l : List FNode) (it : QItem), it ∈ slotItems i l → it.2 ∈ l := by
    intro i l
    induction l generalizing i with
    | nil => intro it h; simp [slotItems] at h
    | cons a l ih =>
      intro it h
      simp only [slotItems, List.mem_cons] at h
      rcases h with rfl | h
      · simp
      · exact List.mem_cons_of_mem _ (ih (i + 1) it h)
  exact (nodup_queue (fun it => it.1.headD []) (slotItems 0 ks)
    (by
      intro it hit
      obtain ⟨j, _, hj⟩ := mem_slotItems 0 ks it hit
      simp [namePath, hj])
    (slotItems_heads_nodup 0 ks)
    (by
      intro it hit
      obtain ⟨p, k⟩ := it
      rw [qpaths_single]
      exact nodup_map_prefix p _ (hk k (hmem 0 ks _ hit)))).1

/-! ### nodes -/

/-- a node without flattened members emits at most its own path -/
theorem nodup_paths_own (nm : Option Str) (fl cfl : Bool) (u : Str) (slots : Bool) (kids : List FNode)
    (h : cfl = false ∨ kids = []) : (paths (.mk nm fl cfl u slots kids)).Nodup := by
  rw [paths_mk]
  have : (if cfl then (qpaths (kidsFrom [] slots 0 kids)).map (fun x => nm.toList ++ x) else []) = [] := by
    rcases h with h | h
    · simp [h]
    · subst h; simp [kidsFrom, qpaths_nil]
  rw [this]
  cases fl <;> simp

/-- a mapping (Dict, Compound): members have distinct names; a Compound's own path is shorter than
    any path of a member -/
theorem nodup_paths_mapping (nm : Option Str) (fl cfl : Bool) (u : Str) (kids : List FNode)
    (hsome : ∀ k ∈ kids, k.name.isSome) (hnd : (kids.map FNode.name).Nodup)
    (hk : ∀ k ∈ kids, (paths k).Nodup) : (paths (.mk nm fl cfl u false kids)).Nodup := by
  rw [paths_mk]
  obtain ⟨h1, h2⟩ := nodup_named_kids kids hsome hnd hk
  cases cfl with
  | false => cases fl <;> simp
  | true =>
    simp only [if_true]
    have h3 := nodup_map_prefix nm.toList _ h1
    cases fl with
    | false => simpa using h3
    | true =>
      simp only [if_true, List.singleton_append, List.nodup_cons]
      refine ⟨?_, h3⟩
      intro hm
      obtain ⟨ρ, hρ, he⟩ := List.mem_map.mp hm
      have : ρ = [] := by
        have := congrArg List.length he
        simp only [List.length_append] at this
        exact List.eq_nil_of_length_eq_zero (by omega)
      exact h2 ρ hρ this

/-- a List: members sit below their index -/
theorem nodup_paths_slots (nm : Option Str) (cfl : Bool) (u : Str) (kids : List FNode)
    (hk : ∀ k ∈ kids, (paths k).Nodup) : (paths (.mk nm false cfl u true kids)).Nodup := by
  rw [paths_mk]
  cases cfl with
  | false => simp
  | true =>
    simp only [Bool.false_eq_true, if_false, if_true, List.nil_append]
    exact nodup_map_prefix nm.toList _ (nodup_slot_kids kids hk)

/-- an Array / MultiValue with at most one member -/
theorem nodup_paths_le1 (nm : Option Str) (cfl : Bool) (u : Str) (kids : List FNode)
    (hlen : kids.length ≤ 1) (hk : ∀ k ∈ kids, (paths k).Nodup) :
    (paths (.mk nm false cfl u false kids)).Nodup := by
  rw [paths_mk]
  cases cfl with
  | false => simp
  | true =>
    simp only [Bool.false_eq_true, if_false, if_true, List.nil_append]
    apply nodup_map_prefix
    match kids, hlen, hk with
    | [], _, _ => simp [kidsFrom, qpaths_nil]
    | [k], _, hk =>
      simp only [kidsFrom, Bool.false_eq_true, if_false]
      rw [qpaths_single]
      exact nodup_map_prefix [] _ (hk k (by simp))
    | _ :: _ :: _, hlen, _ => simp at hlen

/-! ### nodes that emit the same set of paths -/

def samePaths (n n' : FNode) : Prop := ∀ π, π ∈ paths n ↔ π ∈ paths n'

/-- position by position -/
def samePathsL : List FNode → List FNode → Prop
  | [], [] => True
  | a :: as, b :: bs => samePaths a b ∧ samePathsL as bs
  | _, _ => False

theorem samePaths_refl (n : FNode) : samePaths n n := fun _ => Iff.rfl

theorem samePathsL_kids (p : List Str) (slots : Bool) : ∀ (i : Nat) (ks ks' : List FNode),
    samePathsL ks ks' → ∀ π, π ∈ qpaths (kidsFrom p slots i ks) ↔ π ∈ qpaths (kidsFrom p slots i ks')
  | _, [], [], _, _ => Iff.rfl
  | _, [], _ :: _, h, _ => by simp [samePathsL] at h
  | _, _ :: _, [], h, _ => by simp [samePathsL] at h
  | i, a :: as, b :: bs, h, π => by
    simp only [samePathsL] at h
    have ih := samePathsL_kids p slots (i + 1) as bs h.2 π
    simp only [kidsFrom]
    rw [mem_qpaths_cons _ (kidsFrom p slots (i + 1) as), mem_qpaths_cons _ (kidsFrom p slots (i + 1) bs),
      ih, qpaths_single, qpaths_single]
    simp only [List.mem_map]
    constructor
    · rintro (⟨ρ, hρ, rfl⟩ | h')
      · exact Or.inl ⟨ρ, (h.1 ρ).mp hρ, rfl⟩
      · exact Or.inr h'
    · rintro (⟨ρ, hρ, rfl⟩ | h')
      · exact Or.inl ⟨ρ, (h.1 ρ).mpr hρ, rfl⟩
      · exact Or.inr h'

/-- nodes that differ only in their text and in members emitting the same paths emit the same
    paths -/
theorem samePaths_mk (nm : Option Str) (fl cfl : Bool) (u u' : Str) (slots : Bool) (ks ks' : List FNode)
    (h : samePathsL ks ks') :
    samePaths (.mk nm fl cfl u slots ks) (.mk nm fl cfl u' slots ks') := by
  intro π
  rw [mem_paths_mk, mem_paths_mk]
  have := samePathsL_kids [] slots 0 ks ks' h
  simp only [this]

/-- members that are scalars all emit the one path made of their name: the set of paths of the
    container depends only on whether there is a member at all -/
theorem samePaths_take1 (nm : Option Str) (fl cfl : Bool) (u u' : Str) (ks : List FNode) (c : List Str)
    (hk : ∀ k ∈ ks, paths k = [c]) :
    samePaths (.mk nm fl cfl u false ks) (.mk nm fl cfl u' false (ks.take 1)) := by
  intro π
  rw [mem_paths_mk, mem_paths_mk]
  have hq : ∀ (l : List FNode), (∀ k ∈ l, paths k = [c]) →
      ∀ ρ, ρ ∈ qpaths (kidsFrom [] false 0 l) ↔ (l ≠ [] ∧ ρ = c) := by
    intro l hl ρ
    rw [kidsFrom_nil_noslots]
    induction l with
    | nil => simp [qpaths_nil]
    | cons a l ih =>
      rw [List.map_cons, mem_qpaths_cons, qpaths_single, hl a (by simp),
        ih (fun k hk' => hl k (List.mem_cons_of_mem _ hk'))]
      simp only [List.map_cons, List.map_nil, List.nil_append, List.mem_singleton, ne_eq,
        reduceCtorEq, not_false_eq_true, true_and]
      constructor
      · rintro (h | h)
        · exact h
        · exact h.2
      · intro h; exact Or.inl h
  have h1 := hq ks hk
  have h2 := hq (ks.take 1) (fun k hk' => hk k (List.mem_of_mem_take hk'))
  simp only [h1, h2]
  have : ks.take 1 ≠ [] ↔ ks ≠ [] := by
    cases ks <;> simp
  simp only [this]

end Flatland.Flat.Proofs
