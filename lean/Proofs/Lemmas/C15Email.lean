/-
IsEmail: the model's chain of early returns decides the documented predicate, all length
conditions being applied to the *converted* (IDN) domain.
-/
import Flatland.C15
import Flatland.Spec.C15
namespace Flatland.C15.Proofs
open Flatland.C16 Flatland.C15 Flatland.C15.Spec

theorem splitOnChar_ne_nil (c : Char) (s : Str) : splitOnChar c s ≠ [] := by
  induction s with
  | nil => simp [splitOnChar]
  | cons x xs ih =>
    simp only [splitOnChar]
    cases h : splitOnChar c xs with
    | nil => simp
    | cons w ws => simp only []; split <;> simp

theorem splitOnChar_length (c : Char) (s : Str) : (splitOnChar c s).length = s.count c + 1 := by
  induction s with
  | nil => simp [splitOnChar]
  | cons x xs ih =>
    simp only [splitOnChar]
    cases h : splitOnChar c xs with
    | nil => exact absurd h (splitOnChar_ne_nil c xs)
    | cons w ws =>
      rw [h] at ih
      simp only []
      by_cases hx : x = c
      · subst hx
        simp only [if_true, List.length_cons, List.count_cons_self] at ih ⊢
        omega
      · have : (x == c) = false := by simpa using hx
        simp only [hx, if_false, List.length_cons, List.count_cons, this] at ih ⊢
        simpa using ih

theorem split_two (c : Char) (s : Str) (h : s.count c = 1) :
    ∃ a b, splitOnChar c s = [a, b] := by
  have hl := splitOnChar_length c s
  rw [h] at hl
  match hs : splitOnChar c s with
  | [] => rw [hs] at hl; simp at hl
  | [_] => rw [hs] at hl; simp at hl
  | [a, b] => exact ⟨a, b, rfl⟩
  | _ :: _ :: _ :: _ => rw [hs] at hl; simp at hl

/-- "present and at least one non-whitespace character" = not (empty or all whitespace) -/
theorem blank_iff (l : Str) :
    (l.isEmpty || l.all isSpaceChar) = !(l.any (fun c => !isSpaceChar c)) := by
  induction l with
  | nil => rfl
  | cons x xs ih =>
    simp only [List.isEmpty_cons, Bool.false_or, List.all_cons, List.any_cons] at ih ⊢
    cases hx : isSpaceChar x with
    | false => simp
    | true =>
      simp only [Bool.true_and, Bool.not_true, Bool.false_or]
      cases xs with
      | nil => rfl
      | cons y ys => simpa using ih

end Flatland.C15.Proofs

namespace Flatland.C15.Proofs
open Flatland.C16 Flatland.C15 Flatland.C15.Spec

/-- the tail of `IsEmail.validate` after the conversion: everything is decided on the
    converted text `d` -/
def afterIdna (nonLocal : Bool) (d : Str) : Except Raise Verdict :=
  if d.length > 253 then fail "invalid"
  else if !domainMatches d then fail "invalid"
  else if (splitOnChar '.' d).length == 1 && nonLocal then fail "invalid"
  else if !((splitOnChar '.' d).all (fun l => l.length < 64)) then fail "invalid"
  else pass

def idnaOK (nonLocal : Bool) (d : Str) : Bool :=
  decide (d.length ≤ 253) && domainMatches d &&
  (!nonLocal || decide (2 ≤ (splitOnChar '.' d).length)) &&
  (splitOnChar '.' d).all (fun l => decide (l.length ≤ 63))

theorem afterIdna_eq (nonLocal : Bool) (d : Str) :
    afterIdna nonLocal d = if idnaOK nonLocal d then pass else fail "invalid" := by
  unfold afterIdna idnaOK
  have hlen : 1 ≤ (splitOnChar '.' d).length := by
    rw [splitOnChar_length]; omega
  have hall : (splitOnChar '.' d).all (fun l => decide (l.length < 64)) =
      (splitOnChar '.' d).all (fun l => decide (l.length ≤ 63)) := by
    congr; funext l; simp; omega
  by_cases h1 : d.length > 253
  · have : ¬ d.length ≤ 253 := by omega
    simp [h1, this]
  · have h1' : d.length ≤ 253 := by omega
    simp only [h1, if_false, h1', decide_true, Bool.true_and]
    cases h2 : domainMatches d with
    | false => simp
    | true =>
      simp only [Bool.not_true, Bool.false_eq_true, if_false, Bool.true_and]
      rw [hall]
      cases nonLocal with
      | false =>
        simp only [Bool.and_false, Bool.false_eq_true, if_false, Bool.not_false, Bool.true_or,
          Bool.true_and]
        cases (splitOnChar '.' d).all (fun l => decide (l.length ≤ 63)) <;> simp
      | true =>
        simp only [Bool.and_true, Bool.not_true, Bool.false_or]
        by_cases h3 : (splitOnChar '.' d).length = 1
        · have : ¬ 2 ≤ (splitOnChar '.' d).length := by omega
          simp [h3, this]
        · have h3' : 2 ≤ (splitOnChar '.' d).length := by omega
          have : ((splitOnChar '.' d).length == 1) = false := by simpa using h3
          simp only [this, Bool.false_eq_true, if_false, h3', decide_true, Bool.true_and]
          cases (splitOnChar '.' d).all (fun l => decide (l.length ≤ 63)) <;> simp

theorem verdict_isEmail_str (nonLocal : Bool) (e : View) (addr : Str) (hv : e.value = .str addr) :
    verdict (.isEmail nonLocal) e =
      if emailDocumented nonLocal addr e.localOk e.idna then pass else fail "invalid" := by
  unfold emailDocumented
  simp only [verdict, hv]
  by_cases hc : addr.count '@' = 1
  · obtain ⟨l, dm, hs⟩ := split_two '@' addr hc
    have hne : (addr.count '@' != 1) = false := by simp [hc]
    simp only [hne, Bool.false_eq_true, if_false, hs, hc, beq_self_eq_true, Bool.true_and]
    rw [blank_iff]
    cases hb : l.any (fun c => !isSpaceChar c) with
    | false => simp
    | true =>
      simp only [Bool.not_true, Bool.false_eq_true, if_false, Bool.true_and]
      cases hl : (e.localOk == some false) with
      | true =>
        have : (e.localOk != some false) = false := by simp [bne, hl]
        simp [this]
      | false =>
        have : (e.localOk != some false) = true := by simp [bne, hl]
        simp only [Bool.false_eq_true, if_false, this, Bool.true_and]
        cases hi : e.idna with
        | none => simp
        | some d =>
          have := afterIdna_eq nonLocal d
          unfold afterIdna idnaOK at this
          simpa using this
  · have hne : (addr.count '@' != 1) = true := by simp [hc]
    have : (addr.count '@' == 1) = false := by simp [hc]
    simp [hne, this]

end Flatland.C15.Proofs
