/-
C14, part 2: facts about `pySlice` used by the compilation of bracket steps:
`[-n]` (compiled to `slice(-n, -n+1)` / `slice(-1, None)`) selects exactly the child Python's
`children[-n]` would, or nothing; the start `0` that `_parse_slice` substitutes for an omitted
start of `[:b]`, and the stride `1` it substitutes for an omitted stride, do not change the
selection.
-/
import Flatland.Path
import Flatland.Spec.C14
namespace Flatland.C14.Proofs
open Flatland.Path Flatland.C14.Spec

theorem filter_range_nil (n : Nat) (P : Nat → Bool) (h : ∀ i, i < n → P i = false) :
    (List.range n).filter P = [] := by
  rw [List.filter_eq_nil_iff]
  intro i hi
  rw [List.mem_range] at hi
  simp [h i hi]

theorem filter_range_singleton (P : Nat → Bool) (j : Nat) :
    ∀ n, j < n → (∀ i, i < n → (P i = true ↔ i = j)) → (List.range n).filter P = [j]
  | 0, hj, _ => by omega
  | n + 1, hj, hP => by
    rw [List.range_succ, List.filter_append]
    by_cases hjn : j = n
    · subst hjn
      rw [filter_range_nil j P]
      · have : P j = true := (hP j (by omega)).2 rfl
        simp [this]
      · intro i hi
        have := hP i (by omega)
        cases hpi : P i with
        | false => rfl
        | true => have := this.1 hpi; omega
    · have hlt : j < n := by omega
      rw [filter_range_singleton P j n hlt (fun i hi => hP i (by omega))]
      have : P n = false := by
        cases hpn : P n with
        | false => rfl
        | true => have := (hP n (by omega)).1 hpn; omega
      simp [this]

/-- ascending slice with stride 1 that holds at most one index -/
theorem pySlice_one (n : Nat) (a : Int) (b : Option Int) (j : Nat) (hj : j < n)
    (h : ∀ i : Nat, i < n →
      ((let len : Int := n
        let clamp (x : Int) (lo hi : Int) : Int := if x < 0 then max (x + len) lo else min x hi
        let start := clamp a 0 len
        let stop := match b with | none => len | some x => clamp x 0 len
        start ≤ (i : Int) ∧ (i : Int) < stop) ↔ i = j)) :
    pySlice n (some a) b none = [j] := by
  unfold pySlice
  simp only [Option.getD_none, show ((1 : Int) > 0) = True from by simp, if_true]
  apply filter_range_singleton _ j n hj
  intro i hi
  have := h i hi
  simp only [decide_eq_true_eq]
  simp only [Int.emod_one, and_true] at *
  exact this

theorem pySlice_none' (n : Nat) (a : Int) (b : Option Int)
    (h : ∀ i : Nat, i < n →
      ¬ (let len : Int := n
        let clamp (x : Int) (lo hi : Int) : Int := if x < 0 then max (x + len) lo else min x hi
        let start := clamp a 0 len
        let stop := match b with | none => len | some x => clamp x 0 len
        start ≤ (i : Int) ∧ (i : Int) < stop)) :
    pySlice n (some a) b none = [] := by
  unfold pySlice
  simp only [Option.getD_none, show ((1 : Int) > 0) = True from by simp, if_true]
  apply filter_range_nil
  intro i hi
  have := h i hi
  simp only [Int.emod_one, and_true, decide_eq_false_iff_not] at *
  exact this

/-- the two arguments `_parse_slice` gives `slice()` for `[-k]` -/
def negA (k : Nat) : Option Int := some (-(k : Int))
def negB (k : Nat) : Option Int := if k = 1 then none else some (-(k : Int) + 1)

/-- `[-k]` selects what `children[-k]` is, or nothing (`[-0]` is `children[0]`) -/
theorem pySlice_negidx (n k : Nat) :
    pySlice n (negA k) (negB k) none = (pyListIndex n (-(k : Int))).toList := by
  unfold negA negB pyListIndex
  by_cases hk1 : k = 1
  · subst hk1
    simp only [if_true]
    by_cases hn : n = 0
    · subst hn
      simp [pySlice]
    · have e : (if 0 ≤ (if (-(1:Nat) : Int) < 0 then -((1:Nat) : Int) + (n : Int) else -((1:Nat):Int))
            ∧ (if (-(1:Nat) : Int) < 0 then -((1:Nat) : Int) + (n : Int) else -((1:Nat):Int)) < (n : Int)
          then some (if (-(1:Nat) : Int) < 0 then -((1:Nat) : Int) + (n : Int) else -((1:Nat):Int)).toNat else none)
          = some (n - 1) := by
        have h1 : (-((1:Nat) : Int) < 0) := by omega
        simp only [h1, if_true]
        have h2 : (0 ≤ -((1:Nat) : Int) + (n : Int) ∧ -((1:Nat) : Int) + (n : Int) < (n : Int)) := by omega
        simp only [h2, and_self, if_true]
        congr 1; omega
      rw [e]
      simp only [Option.toList]
      apply pySlice_one n _ none (n - 1) (by omega)
      intro i hi
      simp only []
      constructor
      · intro h
        have h1 : (-((1:Nat) : Int) < 0) := by omega
        simp only [h1, if_true] at h
        omega
      · intro h
        have h1 : (-((1:Nat) : Int) < 0) := by omega
        simp only [h1, if_true]
        omega
  · simp only [hk1, if_false]
    by_cases hk0 : k = 0
    · subst hk0
      by_cases hn : n = 0
      · subst hn; simp [pySlice]
      · have e : (if 0 ≤ (if (-((0:Nat) : Int)) < 0 then -((0:Nat) : Int) + (n : Int) else -((0:Nat):Int))
            ∧ (if (-((0:Nat) : Int)) < 0 then -((0:Nat) : Int) + (n : Int) else -((0:Nat):Int)) < (n : Int)
          then some (if (-((0:Nat) : Int)) < 0 then -((0:Nat) : Int) + (n : Int) else -((0:Nat):Int)).toNat else none)
          = some 0 := by
          have h1 : ¬ (-((0:Nat) : Int) < 0) := by omega
          simp only [h1, if_false]
          have h2 : (0 ≤ -((0:Nat) : Int) ∧ -((0:Nat) : Int) < (n : Int)) := by omega
          simp only [h2, and_self, if_true]
          rfl
        rw [e]
        simp only [Option.toList]
        apply pySlice_one n _ _ 0 (by omega)
        intro i hi
        simp only []
        have h1 : ¬ (-((0:Nat) : Int) < 0) := by omega
        have h2 : ¬ (-((0:Nat) : Int) + 1 < 0) := by omega
        simp only [h1, h2, if_false]
        omega
    · -- k ≥ 2
      have hk2 : 2 ≤ k := by omega
      have h1 : (-(k : Int) < 0) := by omega
      have h2 : (-(k : Int) + 1 < 0) := by omega
      by_cases hkn : k ≤ n
      · have e : (if 0 ≤ (if -(k : Int) < 0 then -(k : Int) + (n : Int) else -(k : Int))
            ∧ (if -(k : Int) < 0 then -(k : Int) + (n : Int) else -(k : Int)) < (n : Int)
          then some (if -(k : Int) < 0 then -(k : Int) + (n : Int) else -(k : Int)).toNat else none)
          = some (n - k) := by
          simp only [h1, if_true]
          have h3 : (0 ≤ -(k : Int) + (n : Int) ∧ -(k : Int) + (n : Int) < (n : Int)) := by omega
          simp only [h3, and_self, if_true]
          congr 1; omega
        rw [e]
        simp only [Option.toList]
        apply pySlice_one n _ _ (n - k) (by omega)
        intro i hi
        simp only [h1, h2, if_true]
        omega
      · have e : (if 0 ≤ (if -(k : Int) < 0 then -(k : Int) + (n : Int) else -(k : Int))
            ∧ (if -(k : Int) < 0 then -(k : Int) + (n : Int) else -(k : Int)) < (n : Int)
          then some (if -(k : Int) < 0 then -(k : Int) + (n : Int) else -(k : Int)).toNat else none)
          = none := by
          simp only [h1, if_true]
          have h3 : ¬ (0 ≤ -(k : Int) + (n : Int) ∧ -(k : Int) + (n : Int) < (n : Int)) := by omega
          simp only [h3, if_false]
        rw [e]
        simp only [Option.toList]
        apply pySlice_none'
        intro i hi
        simp only [h1, h2, if_true]
        omega

/-- `[:b]` is compiled with start `0`: same selection as the omitted start -/
theorem pySlice_start_zero (n : Nat) (b : Option Int) :
    pySlice n (some 0) b none = pySlice n none b none := by
  unfold pySlice
  have h : ¬ ((0 : Int) < 0) := by omega
  have h2 : min (0 : Int) (n : Int) = 0 := by omega
  have h3 : ((1 : Int) > 0) := by omega
  simp only [Option.getD_none, h, if_false, h2, h3, if_true]

/-- an omitted stride is compiled as `1`: same selection -/
theorem pySlice_stride_one (n : Nat) (a b : Option Int) :
    pySlice n a b (some 1) = pySlice n a b none := by
  unfold pySlice
  simp only [Option.getD_some, Option.getD_none]

end Flatland.C14.Proofs
