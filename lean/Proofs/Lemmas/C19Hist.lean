/-
The frame stack of the model (flat copies) always equals the levels of the specification
replayed on top of each other: `Matches`.  Preserved by every Generator call.
-/
import Proofs.Lemmas.C19Ctx
namespace Flatland.C19.Proofs
open Flatland.Markup Flatland.C19 Flatland.C19.Spec

/-- leaves of an unfolded transform: every `ok` result has the wanted shape -/
macro "close_leaves" h:ident : tactic =>
  `(tactic| (repeat' split at $h:ident) <;> first
      | (simp at $h:ident; done)
      | (simp only [pure, Except.pure, Except.ok.injEq] at $h:ident; subst $h:ident; rfl)
      | (simp only [pure, Except.pure, Except.ok.injEq] at $h:ident; subst $h:ident; simp; done))

theorem transformName_ctx {T : Tables} {tag : Str} {bnd : Option Bind} {st st' : TState}
    (h : transformName T tag bnd st = .ok st') : st'.ctx = st.ctx := by
  unfold transformName at h
  simp only [bind, Except.bind, pure, Except.pure] at h
  close_leaves h

theorem transformValue_ctx {T : Tables} {tag : Str} {bnd : Option Bind} {st st' : TState}
    (h : transformValue T tag bnd st = .ok st') : st'.ctx = st.ctx := by
  unfold transformValue at h
  simp only [bind, Except.bind, pure, Except.pure] at h
  close_leaves h

theorem transformDomid_ctx {T : Tables} {tag : Str} {bnd : Option Bind} {st st' : TState}
    (h : transformDomid T tag bnd st = .ok st') : st'.ctx = st.ctx := by
  unfold transformDomid at h
  simp only [bind, Except.bind, pure, Except.pure] at h
  close_leaves h

theorem transformFor_ctx {T : Tables} {tag : Str} {bnd : Option Bind} {st st' : TState}
    (h : transformFor T tag bnd st = .ok st') : st'.ctx = st.ctx := by
  unfold transformFor at h
  simp only [bind, Except.bind, pure, Except.pure] at h
  close_leaves h

theorem transformFilters_ctx {T : Tables} {tag : Str} {bnd : Option Bind} {st st' : TState}
    (h : transformFilters T tag bnd st = .ok st') : st'.ctx = st.ctx := by
  unfold transformFilters at h
  simp only [bind, Except.bind, pure, Except.pure] at h
  close_leaves h

/-- the tabindex transform either leaves the context alone or hands out the positive counter
    value `n` (as the `tabindex` attribute) and stores `n + 1` -/
def TabStep (c c' : Ctx) (attrs' : Attrs) : Prop :=
  c' = c ∨ ∃ n : Int, n > 0 ∧ c.getItem sTabindex = .ok (.int n) ∧
    c.setItem sTabindex (.int (n + 1)) = .ok c' ∧ Dict.get? attrs' sTabindex = some (.text (intRepr n))

theorem transformTabindex_ctx {T : Tables} {tag : Str} {bnd : Option Bind} {st st' : TState}
    (h : transformTabindex T tag bnd st = .ok st') : TabStep st.ctx st'.ctx st'.attrs := by
  unfold transformTabindex at h
  simp only [bind, Except.bind, pure, Except.pure] at h
  cases hp : popToggle T "auto_tabindex".toList st.attrs st.ctx with
  | error e => rw [hp] at h; simp at h
  | ok r =>
    rw [hp] at h
    simp only at h
    split at h
    · simp only [Except.ok.injEq] at h; subst h; left; rfl
    · cases hg : st.ctx.getItem sTabindex with
      | error e => rw [hg] at h; simp at h
      | ok tv =>
        rw [hg] at h
        simp only at h
        split at h
        · rename_i n
          split at h
          · simp only [Except.ok.injEq] at h; subst h; left; rfl
          · split at h
            · split at h
              · rename_i hpos
                cases hs : st.ctx.setItem sTabindex (.int (n + 1)) with
                | error e => rw [hs] at h; simp at h
                | ok c' =>
                  rw [hs] at h
                  simp only [Except.ok.injEq] at h
                  subst h
                  right
                  exact ⟨n, hpos, hg, hs, by simp [Dict.get?_set_self]⟩
              · simp only [Except.ok.injEq] at h; subst h; left; rfl
            · simp only [Except.ok.injEq] at h; subst h; left; rfl
        · simp [throw, throwThe, MonadExceptOf.throw] at h

theorem transform_ctx {T : Tables} {tag : Str} {bnd : Option Bind} {st st' : TState}
    (h : transform T tag bnd st = .ok st') :
    st'.ctx = st.ctx ∨ ∃ n : Int, n > 0 ∧ st.ctx.getItem sTabindex = .ok (.int n) ∧
      st.ctx.setItem sTabindex (.int (n + 1)) = .ok st'.ctx := by
  unfold transform at h
  simp only [bind, Except.bind] at h
  cases h1 : transformName T tag bnd st with
  | error e => rw [h1] at h; simp at h
  | ok s1 =>
    rw [h1] at h; simp only at h
    cases h2 : transformValue T tag bnd s1 with
    | error e => rw [h2] at h; simp at h
    | ok s2 =>
      rw [h2] at h; simp only at h
      cases h3 : transformDomid T tag bnd s2 with
      | error e => rw [h3] at h; simp at h
      | ok s3 =>
        rw [h3] at h; simp only at h
        cases h4 : transformFor T tag bnd s3 with
        | error e => rw [h4] at h; simp at h
        | ok s4 =>
          rw [h4] at h; simp only at h
          cases h5 : transformTabindex T tag bnd s4 with
          | error e => rw [h5] at h; simp at h
          | ok s5 =>
            rw [h5] at h; simp only at h
            have e1 := transformName_ctx h1
            have e2 := transformValue_ctx h2
            have e3 := transformDomid_ctx h3
            have e4 := transformFor_ctx h4
            have e6 := transformFilters_ctx h
            have e5 := transformTabindex_ctx h5
            have e04 : s4.ctx = st.ctx := by rw [e4, e3, e2, e1]
            rw [e6]
            rcases e5 with e5 | ⟨n, hn, hg, hs, _⟩
            · left; rw [e5, e04]
            · right; rw [e04] at hg hs; exact ⟨n, hn, hg, hs⟩

theorem callTag_ctx {T : Tables} {R : RenderCfg} {g g' : Gen} {tag : Str} {bnd : Option Bind}
    {kwargs : List (Str × Val)} {s : Str}
    (h : g.callTag T R.attrChain R.voids R.order tag bnd kwargs = .ok (s, g')) :
    g'.xml = g.xml ∧ (g'.ctx = g.ctx ∨ ∃ n : Int, n > 0 ∧ g.ctx.getItem sTabindex = .ok (.int n) ∧
      g.ctx.setItem sTabindex (.int (n + 1)) = .ok g'.ctx) := by
  unfold Gen.callTag at h
  simp only [bind, Except.bind] at h
  cases hp : prepareTag T R.order g tag bnd kwargs with
  | error e => rw [hp] at h; simp at h
  | ok r =>
    rw [hp] at h; simp only at h
    cases hr : Flatland.C11.renderTag R.attrChain R.voids g.xml tag r.pairs r.contents with
    | error e => rw [hr] at h; simp at h
    | ok s' =>
      rw [hr] at h
      simp only [pure, Except.pure, Except.ok.injEq, Prod.mk.injEq] at h
      obtain ⟨_, rfl⟩ := h
      refine ⟨rfl, ?_⟩
      unfold prepareTag at hp
      simp only [bind, Except.bind] at hp
      cases ht : transform T tag bnd ⟨Flatland.C11.transformKeys (Dict.erase kwargs "contents".toList),
          Dict.get? kwargs "contents".toList, g.ctx⟩ with
      | error e => rw [ht] at hp; simp at hp
      | ok st =>
        rw [ht] at hp
        have hc := transform_ctx ht
        simp only at hc
        have : r.ctx = st.ctx := by
          simp only at hp
          close_leaves hp
        simp only
        rw [this]
        exact hc

theorem begin_cases (g : Gen) (s : List (Str × CVal)) :
    (∃ c', Ctx.update ⟨g.ctx.top, g.ctx.top :: g.ctx.below⟩ s = .ok c' ∧ g.begin s = ⟨{ g with ctx := c' }, none⟩) ∨
    (Ctx.update ⟨g.ctx.top, g.ctx.top :: g.ctx.below⟩ s = .error .keyError ∧ g.begin s = ⟨g, some .keyError⟩) := by
  cases hu : Ctx.update ⟨g.ctx.top, g.ctx.top :: g.ctx.below⟩ s with
  | ok c' => left; exact ⟨c', rfl, by simp [Gen.begin, Ctx.push, hu]⟩
  | error e =>
    have := update_err hu
    subst this
    right; exact ⟨rfl, by simp [Gen.begin, Ctx.push, hu]⟩

theorem setItem_cases (g : Gen) (k : Str) (v : CVal) :
    (∃ c', g.ctx.setItem k v = .ok c' ∧ g.setItem k v = ⟨{ g with ctx := c' }, none⟩) ∨
    (∃ e, g.ctx.setItem k v = .error e ∧ g.setItem k v = ⟨g, some e⟩) := by
  cases hs : g.ctx.setItem k v with
  | ok c' => left; exact ⟨c', rfl, by simp [Gen.setItem, hs]⟩
  | error e => right; exact ⟨e, rfl, by simp [Gen.setItem, hs]⟩

theorem update_cases (g : Gen) (s : List (Str × CVal)) :
    (∃ c', g.ctx.update s = .ok c' ∧ g.update s = ⟨{ g with ctx := c' }, none⟩) ∨
    (∃ e, g.ctx.update s = .error e ∧ g.update s = ⟨g, some e⟩) := by
  cases hs : g.ctx.update s with
  | ok c' => left; exact ⟨c', rfl, by simp [Gen.update, hs]⟩
  | error e => right; exact ⟨e, rfl, by simp [Gen.update, hs]⟩

theorem set_cases (T : Tables) (g : Gen) (s : List (Str × CVal)) :
    (∃ ups c', setUpdates T g.ctx s = .ok ups ∧ g.ctx.setAll ups = .ok c' ∧
        g.set T s = ⟨{ g with ctx := c' }, none⟩) ∨
    (∃ e, g.set T s = ⟨g, some e⟩) := by
  cases hs : setUpdates T g.ctx s with
  | error e => right; exact ⟨e, by simp [Gen.set, hs]⟩
  | ok ups =>
    cases ha : g.ctx.setAll ups with
    | error e => right; exact ⟨e, by simp [Gen.set, hs, ha]⟩
    | ok c' => left; exact ⟨ups, c', rfl, ha, by simp [Gen.set, hs, ha]⟩

theorem end_cases (g : Gen) :
    (∃ f rest, g.ctx.below = f :: rest ∧ g.ctx.depth ≠ 2 ∧ g.end_ = ⟨{ g with ctx := ⟨f, rest⟩ }, none⟩) ∨
    (∃ e, g.end_ = ⟨g, some e⟩ ∧ (g.ctx.depth = 2 ∨ g.ctx.below = [])) := by
  by_cases hd : g.ctx.depth = 2
  · right; exact ⟨.runtimeError, by simp [Gen.end_, hd], Or.inl hd⟩
  · cases hb : g.ctx.below with
    | nil =>
      right
      exact ⟨.runtimeError, by simp [Gen.end_, hd, Ctx.pop, hb, throw, throwThe, MonadExceptOf.throw], Or.inr rfl⟩
    | cons f rest =>
      left
      exact ⟨f, rest, rfl, hd, by simp [Gen.end_, hd, Ctx.pop, hb, pure, Except.pure]⟩

theorem transformPrefix_ctx {T : Tables} {tag : Str} {bnd : Option Bind} {st st5 : TState}
    (h : transformPrefix T tag bnd st = .ok st5) :
    st5.ctx = st.ctx ∨ ∃ n : Int, n > 0 ∧ st.ctx.getItem sTabindex = .ok (.int n) ∧
      st.ctx.setItem sTabindex (.int (n + 1)) = .ok st5.ctx := by
  unfold transformPrefix at h
  simp only [bind, Except.bind] at h
  cases h1 : transformName T tag bnd st with
  | error e => rw [h1] at h; simp at h
  | ok s1 =>
    rw [h1] at h; simp only at h
    cases h2 : transformValue T tag bnd s1 with
    | error e => rw [h2] at h; simp at h
    | ok s2 =>
      rw [h2] at h; simp only at h
      cases h3 : transformDomid T tag bnd s2 with
      | error e => rw [h3] at h; simp at h
      | ok s3 =>
        rw [h3] at h; simp only at h
        cases h4 : transformFor T tag bnd s3 with
        | error e => rw [h4] at h; simp at h
        | ok s4 =>
          rw [h4] at h; simp only at h
          have e04 : s4.ctx = st.ctx := by
            rw [transformFor_ctx h4, transformDomid_ctx h3, transformValue_ctx h2, transformName_ctx h1]
          rcases transformTabindex_ctx h with e5 | ⟨n, hn, hg, hs, _⟩
          · left; rw [e5, e04]
          · right; rw [e04] at hg hs; exact ⟨n, hn, hg, hs⟩

theorem afterFailedTag_ctx (T : Tables) (g : Gen) (tag : Str) (bnd : Option Bind) (kwargs : List (Str × Val)) :
    (g.afterFailedTag T tag bnd kwargs).xml = g.xml ∧
    ((g.afterFailedTag T tag bnd kwargs).ctx = g.ctx ∨ ∃ n : Int, n > 0 ∧ g.ctx.getItem sTabindex = .ok (.int n) ∧
      g.ctx.setItem sTabindex (.int (n + 1)) = .ok (g.afterFailedTag T tag bnd kwargs).ctx) := by
  unfold Gen.afterFailedTag
  cases hp : transformPrefix T tag bnd ⟨Flatland.C11.transformKeys (Dict.erase kwargs "contents".toList),
      Dict.get? kwargs "contents".toList, g.ctx⟩ with
  | error e => exact ⟨rfl, Or.inl rfl⟩
  | ok st5 => exact ⟨rfl, transformPrefix_ctx hp⟩

theorem step_tag_cases (T : Tables) (R : RenderCfg) (g : Gen) (name : Str) (bnd : Option Bind)
    (kwargs : List (Str × Val)) :
    (∃ s g', g.callTag T R.attrChain R.voids R.order name bnd kwargs = .ok (s, g') ∧
        step T R g (.tag name bnd kwargs) = (g', ⟨none, some s⟩)) ∨
    (∃ e, step T R g (.tag name bnd kwargs) = (g.afterFailedTag T name bnd kwargs, ⟨some e, none⟩)) := by
  cases hc : g.callTag T R.attrChain R.voids R.order name bnd kwargs with
  | error e => right; exact ⟨e, by simp [step, hc]⟩
  | ok r => obtain ⟨s, g'⟩ := r; left; exact ⟨s, g', rfl, by simp [step, hc]⟩

/-- whatever a tag call does (return markup or raise), the only thing it can change is the
    tabindex counter of the top frame -/
theorem step_tag_effect (T : Tables) (R : RenderCfg) (g : Gen) (name : Str) (bnd : Option Bind)
    (kwargs : List (Str × Val)) :
    ∃ g' o, step T R g (.tag name bnd kwargs) = (g', o) ∧ g'.xml = g.xml ∧
      (g'.ctx = g.ctx ∨ ∃ n : Int, n > 0 ∧ g.ctx.getItem sTabindex = .ok (.int n) ∧
        g.ctx.setItem sTabindex (.int (n + 1)) = .ok g'.ctx) := by
  rcases step_tag_cases T R g name bnd kwargs with ⟨s, g', hc, hst⟩ | ⟨e, hst⟩
  · obtain ⟨hx, hctx⟩ := callTag_ctx hc
    exact ⟨g', _, hst, hx, hctx⟩
  · obtain ⟨hx, hctx⟩ := afterFailedTag_ctx T g name bnd kwargs
    exact ⟨_, _, hst, hx, hctx⟩

/-! ### frames vs levels -/

def frames (c : Ctx) : List Frame := c.top :: c.below

/-- every frame is the one below it with the level's writes replayed on top -/
def Matches : List Frame → Hist → Prop
  | [_], [] => True
  | f :: g :: rest, lv :: lvs => f = applyLog g lv.log ∧ Matches (g :: rest) lvs
  | _, _ => False

theorem matches_addLog {top : Frame} {below : List Frame} {h : Hist} (xs : List (Str × CVal))
    (hm : Matches (top :: below) h) : Matches (applyLog top xs :: below) (addLog h xs) := by
  cases below with
  | nil =>
    cases h with
    | nil => simp [addLog, Matches]
    | cons lv lvs => simp [Matches] at hm
  | cons g rest =>
    cases h with
    | nil => simp [Matches] at hm
    | cons lv lvs =>
      simp only [Matches] at hm
      simp only [addLog, Matches]
      exact ⟨by rw [applyLog_append, ← hm.1], hm.2⟩

theorem matches_step (T : Tables) (R : RenderCfg) (g : Gen) (h : Hist) (op : Op)
    (hm : Matches (frames g.ctx) h) :
    Matches (frames (step T R g op).1.ctx) (histStep T R g h op) := by
  cases op with
  | begin s =>
    rcases begin_cases g s with ⟨c', hu, hb⟩ | ⟨_, hb⟩
    · obtain ⟨hbl, ht, _⟩ := update_ok hu
      simp only [step, histStep, hb, Option.isNone_none, if_true, frames]
      rw [hbl, ht]
      exact ⟨rfl, hm⟩
    · simp only [step, histStep, hb]
      simpa using hm
  | end_ =>
    rcases end_cases g with ⟨f, rest, hb, _, he⟩ | ⟨e, he, _⟩
    · simp only [step, histStep, he, Option.isNone_none, if_true, frames]
      simp only [frames, hb] at hm
      cases h with
      | nil => simp [Matches] at hm
      | cons lv lvs => simp only [Matches] at hm; exact hm.2
    · simp only [step, histStep, he]
      simpa using hm
  | set s =>
    rcases set_cases T g s with ⟨ups, c', hs, ha, he⟩ | ⟨e, he⟩
    · obtain ⟨hb, ht, _⟩ := setAll_ok ups g.ctx c' ha
      simp only [step, histStep, he, hs, frames]
      rw [hb, ht]
      exact matches_addLog ups hm
    · simp only [step, histStep, he]
      simpa using hm
  | setItem k v =>
    rcases setItem_cases g k v with ⟨c', hs, he⟩ | ⟨e, _, he⟩
    · obtain ⟨rfl, _⟩ := setItem_ok hs
      simp only [step, histStep, he, Option.isNone_none, if_true, frames]
      exact matches_addLog [(k, v)] hm
    · simp only [step, histStep, he]
      simpa using hm
  | update s =>
    rcases update_cases g s with ⟨c', hu, he⟩ | ⟨e, _, he⟩
    · obtain ⟨hb, ht, _⟩ := update_ok hu
      simp only [step, histStep, he, Option.isNone_none, if_true, frames]
      rw [hb, ht]
      exact matches_addLog s hm
    · simp only [step, histStep, he]
      simpa using hm
  | tag name bnd kwargs =>
    obtain ⟨g', o, hst, _, hctx⟩ := step_tag_effect T R g name bnd kwargs
    simp only [histStep, hst]
    rcases hctx with heq | ⟨n, _, _, hs⟩
    · simp only [heq, if_true]; exact hm
    · obtain ⟨e, _⟩ := setItem_ok hs
      by_cases hsame : g'.ctx = g.ctx
      · simp only [hsame, if_true]; exact hm
      · simp only [hsame, if_false]
        have hget : g'.ctx.getItem sTabindex = .ok (.int (n + 1)) := by
          rw [e]; simp [Ctx.getItem, Dict.get?_set_self, pure, Except.pure]
        rw [hget]
        simp only [frames]
        rw [e]
        exact matches_addLog [(sTabindex, CVal.int (n + 1))] hm

theorem matches_run (T : Tables) (R : RenderCfg) (ops : List Op) (g : Gen) (h : Hist)
    (hm : Matches (frames g.ctx) h) :
    Matches (frames (runS T R g h ops).1.ctx) (runS T R g h ops).2 := by
  induction ops generalizing g h with
  | nil => exact hm
  | cons op rest ih => exact ih _ _ (matches_step T R g h op hm)

theorem runS_fst (T : Tables) (R : RenderCfg) (ops : List Op) (g : Gen) (h : Hist) :
    (runS T R g h ops).1 = runGen T R g ops := by
  induction ops generalizing g h with
  | nil => rfl
  | cons op rest ih =>
    simp only [runS, runGen, run]
    rw [ih]; rfl

end Flatland.C19.Proofs
