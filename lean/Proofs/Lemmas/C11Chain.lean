/-
Lemmas for C11: a sequential `.replace` chain is a simultaneous character substitution when no
replacement text contains a later pattern; consequences for forbidden characters and decoding.
Generic in the chain; instantiated on the generated tables in `Proofs/C11.lean`.
-/
import Flatland.C11
namespace Flatland.C11.Proofs
open Flatland.C11 Flatland.Markup

/-- simultaneous substitution: the first chain entry whose pattern is `x` -/
def substOf : Chain → Char → Str
  | [], x => [x]
  | (c, r) :: rest, x => if x = c then r else substOf rest x

def keys (ch : Chain) : List Char := ch.map (·.1)

/-- decidable side condition: no replacement text contains a pattern that is applied later -/
def Good : Chain → Bool
  | [] => true
  | (_, r) :: rest => r.all (fun y => !(keys rest).contains y) && Good rest

theorem replaceAll_eq_flatMap (c : Char) (r s : Str) :
    replaceAll c r s = s.flatMap (fun x => if x = c then r else [x]) := by
  induction s with
  | nil => rfl
  | cons x xs ih => simp [replaceAll, ih]

theorem substOf_not_key (ch : Chain) (x : Char) (h : x ∉ keys ch) : substOf ch x = [x] := by
  induction ch with
  | nil => rfl
  | cons p rest ih =>
    obtain ⟨c, r⟩ := p
    simp [keys] at h
    simp [substOf, h.1]
    exact ih (by simpa [keys] using h.2)

theorem flatMap_subst_id (ch : Chain) (r : Str) (h : ∀ y ∈ r, y ∉ keys ch) :
    r.flatMap (substOf ch) = r := by
  induction r with
  | nil => rfl
  | cons y ys ih =>
    simp only [List.flatMap_cons]
    rw [substOf_not_key ch y (h y (by simp)), ih (fun z hz => h z (by simp [hz]))]
    rfl

/-- sequential replacement = simultaneous substitution -/
theorem chain_simultaneous (ch : Chain) (h : Good ch = true) (s : Str) :
    escapeChain ch s = s.flatMap (substOf ch) := by
  induction ch generalizing s with
  | nil => simp [escapeChain, substOf]
  | cons p rest ih =>
    obtain ⟨c, r⟩ := p
    simp only [Good, Bool.and_eq_true, List.all_eq_true] at h
    rw [escapeChain, ih h.2, replaceAll_eq_flatMap, List.flatMap_assoc]
    congr 1
    funext x
    by_cases hx : x = c
    · simp only [hx, if_true, substOf]
      apply flatMap_subst_id
      intro y hy
      have := h.1 y hy
      simpa using this
    · simp [hx, substOf]

theorem substOf_cases (ch : Chain) (x : Char) :
    (x ∉ keys ch ∧ substOf ch x = [x]) ∨ (∃ p ∈ ch, p.1 = x ∧ substOf ch x = p.2) := by
  induction ch with
  | nil => left; simp [keys, substOf]
  | cons p rest ih =>
    obtain ⟨c, r⟩ := p
    by_cases hx : x = c
    · right; exact ⟨(c, r), by simp, hx.symm, by simp [substOf, hx]⟩
    · rcases ih with ⟨h1, h2⟩ | ⟨p, hp, h1, h2⟩
      · left; constructor
        · simp only [keys, List.map_cons, List.mem_cons, not_or]; exact ⟨hx, h1⟩
        · simp [substOf, hx, h2]
      · right; exact ⟨p, by simp [hp], h1, by simp [substOf, hx, h2]⟩

/-- `c` is a pattern of the chain and no replacement text contains it -/
def Forbidden (ch : Chain) (c : Char) : Bool :=
  (keys ch).contains c && ch.all (fun p => !p.2.contains c)

theorem forbidden_not_in_subst (ch : Chain) (c : Char) (h : Forbidden ch c = true) (x : Char) :
    c ∉ substOf ch x := by
  simp only [Forbidden, Bool.and_eq_true, List.contains_iff_mem, List.all_eq_true] at h
  rcases substOf_cases ch x with ⟨h1, h2⟩ | ⟨p, hp, _, h2⟩
  · rw [h2]; simp; intro hc; exact h1 (hc ▸ h.1)
  · rw [h2]; have := h.2 p hp; simpa using this

/-- a forbidden character never occurs in the escaped string -/
theorem forbidden_not_in_escape (ch : Chain) (c : Char) (hg : Good ch = true)
    (h : Forbidden ch c = true) (s : Str) : c ∉ escapeChain ch s := by
  rw [chain_simultaneous ch hg]
  simp only [List.mem_flatMap, not_exists, not_and]
  intro x _
  exact forbidden_not_in_subst ch c h x

/-- what a character-reference decoder must satisfy to invert the chain -/
structure DecoderOK (ch : Chain) (dec : Str → Str) : Prop where
  nil : dec [] = []
  ent : ∀ p ∈ ch, ∀ rest, dec (p.2 ++ rest) = p.1 :: dec rest
  plain : ∀ x rest, x ∉ keys ch → dec (x :: rest) = x :: dec rest

theorem decode_subst (ch : Chain) (dec : Str → Str) (ok : DecoderOK ch dec) (s : Str) :
    dec (s.flatMap (substOf ch)) = s := by
  induction s with
  | nil => simpa using ok.nil
  | cons x xs ih =>
    simp only [List.flatMap_cons]
    rcases substOf_cases ch x with ⟨h1, h2⟩ | ⟨p, hp, h1, h2⟩
    · rw [h2]; simp only [List.cons_append, List.nil_append]; rw [ok.plain x _ h1, ih]
    · rw [h2, ok.ent p hp, ih, h1]

/-- decoding the escaped string gives the original back -/
theorem decode_escape (ch : Chain) (dec : Str → Str) (hg : Good ch = true) (ok : DecoderOK ch dec)
    (s : Str) : dec (escapeChain ch s) = s := by
  rw [chain_simultaneous ch hg]; exact decode_subst ch dec ok s

theorem escapeChain_nil (ch : Chain) : escapeChain ch [] = [] := by
  induction ch with
  | nil => rfl
  | cons p rest ih => obtain ⟨c, r⟩ := p; simp [escapeChain, replaceAll, ih]

/-! ### the concrete decoder -/

theorem decodeRefs_plain (x : Char) (rest : Str) (hx : x ≠ '&') :
    decodeRefs (x :: rest) = x :: decodeRefs rest := by
  rw [decodeRefs]; simp [hx]

theorem decodeRefs_nil : decodeRefs [] = [] := by rw [decodeRefs]

theorem decodeRefs_amp (rest : Str) : decodeRefs ("&amp;".toList ++ rest) = '&' :: decodeRefs rest := by
  show decodeRefs ('&' :: 'a' :: 'm' :: 'p' :: ';' :: rest) = _
  rw [decodeRefs]; simp [takeEntity, entityChar]

end Flatland.C11.Proofs
