/-
C14, "in sequence order": on the Canon domain with ascending slices, the elements `denote`
selects are strictly increasing in document order (lexicographic order of positions) — in
particular there are no duplicates.
-/
import Flatland.Path
import Flatland.Spec.C14
import Proofs.Lemmas.C14Work
namespace Flatland.C14.Proofs
open Flatland.Path Flatland.C14.Spec

/-- document order: lexicographic on positions (an ancestor precedes its descendants) -/
def posLt : Pos → Pos → Bool
  | [], [] => false
  | [], _ :: _ => true
  | _ :: _, [] => false
  | a :: as, b :: bs => decide (a < b) || (a == b && posLt as bs)

/-- all positions at the same depth `n`, strictly increasing in document order -/
def Level (n : Nat) (l : List Pos) : Prop :=
  (∀ p ∈ l, p.length = n) ∧ l.Pairwise (fun a b => posLt a b = true)

theorem posLt_snoc_same (el : Pos) (i j : Nat) (h : i < j) : posLt (el ++ [i]) (el ++ [j]) = true := by
  induction el with
  | nil => simp [posLt, h]
  | cons a r ih => simp [posLt, ih]

theorem posLt_snoc : ∀ (a b : Pos) (i j : Nat), a.length = b.length → posLt a b = true →
    posLt (a ++ [i]) (b ++ [j]) = true
  | [], [], _, _, _, h => by simp [posLt] at h
  | [], _ :: _, _, _, hl, _ => by simp at hl
  | _ :: _, [], _, _, hl, _ => by simp at hl
  | x :: xs, y :: ys, i, j, hl, h => by
    simp only [posLt, Bool.or_eq_true, decide_eq_true_eq, Bool.and_eq_true, beq_iff_eq] at h
    simp only [List.cons_append, posLt, Bool.or_eq_true, decide_eq_true_eq, Bool.and_eq_true, beq_iff_eq]
    rcases h with h | ⟨h1, h2⟩
    · exact Or.inl h
    · exact Or.inr ⟨h1, posLt_snoc xs ys i j (by simpa using hl) h2⟩

/-- one step over a level: if every element contributes its children at strictly increasing
    indexes, the result is the next level -/
theorem level_step (f : Pos → Except Err (List Pos)) (n : Nat)
    (hf : ∀ el ys, f el = .ok ys → ∃ is : List Nat, is.Pairwise (· < ·) ∧ ys = is.map (fun i => el ++ [i])) :
    ∀ (cur r : List Pos), Level n cur → flatMapM f cur = .ok r →
      Level (n + 1) r ∧ ∀ z ∈ r, ∃ x ∈ cur, ∃ j, z = x ++ [j]
  | [], r, _, h => by
    simp only [flatMapM_nil, Except.ok.injEq] at h
    subst h
    exact ⟨⟨by simp, List.Pairwise.nil⟩, by simp⟩
  | x :: xs, r, hlev, h => by
    rw [flatMapM_cons] at h
    cases hx : f x with
    | error e => rw [hx] at h; simp at h
    | ok ys =>
      rw [hx] at h
      simp only [andThen_ok] at h
      cases hxs : flatMapM f xs with
      | error e => rw [hxs] at h; simp at h
      | ok zs =>
        rw [hxs] at h
        simp only [andThen_ok, Except.ok.injEq] at h
        subst h
        obtain ⟨hlen, hpw⟩ := hlev
        rw [List.pairwise_cons] at hpw
        have hlev' : Level n xs := ⟨fun p hp => hlen p (by simp [hp]), hpw.2⟩
        obtain ⟨⟨hl2, hp2⟩, hform⟩ := level_step f n hf xs zs hlev' hxs
        obtain ⟨is, his, hys⟩ := hf x ys hx
        subst hys
        refine ⟨⟨?_, ?_⟩, ?_⟩
        · intro p hp
          rw [List.mem_append] at hp
          rcases hp with hp | hp
          · simp only [List.mem_map] at hp
            obtain ⟨i, _, rfl⟩ := hp
            simp [hlen x (by simp)]
          · exact hl2 p hp
        · rw [List.pairwise_append]
          refine ⟨?_, hp2, ?_⟩
          · rw [List.pairwise_map]
            exact his.imp (fun h => posLt_snoc_same x _ _ h)
          · intro a ha b hb
            simp only [List.mem_map] at ha
            obtain ⟨i, _, rfl⟩ := ha
            obtain ⟨x', hx', j, rfl⟩ := hform b hb
            exact posLt_snoc x x' i j (by rw [hlen x (by simp), hlen x' (by simp [hx'])]) (hpw.1 x' hx')
        · intro z hz
          rw [List.mem_append] at hz
          rcases hz with hz | hz
          · simp only [List.mem_map] at hz
            obtain ⟨i, _, rfl⟩ := hz
            exact ⟨x, by simp, i, rfl⟩
          · obtain ⟨x', hx', j, rfl⟩ := hform z hz
            exact ⟨x', by simp [hx'], j, rfl⟩

/-- the stride of a slice step is ascending -/
def _root_.Flatland.C14.Spec.Step.ascending : Step → Bool
  | .slice _ _ (some (some c)) => decide (c > 0)
  | _ => true

/-- a downward step: not `..`, not `.` -/
def _root_.Flatland.C14.Spec.Step.down : Step → Bool
  | .up => false
  | .here => false
  | _ => true

theorem pySlice_ascending (n : Nat) (a b c : Option Int) (h : c.getD 1 > 0) :
    (pySlice n a b c).Pairwise (· < ·) := by
  unfold pySlice
  simp only [h, if_true]
  exact List.Pairwise.filter _ List.pairwise_lt_range

theorem option_toList_pairwise (o : Option Nat) : o.toList.Pairwise (· < ·) := by
  cases o <;> simp

/-- every downward, ascending step contributes children at strictly increasing indexes -/
theorem stepDen_children (root : Node) (strict : Bool) (s : Step) (hd : s.down = true)
    (ha : s.ascending = true) (el : Pos) (ys : List Pos) (h : stepDen root strict s el = .ok ys) :
    ∃ is : List Nat, is.Pairwise (· < ·) ∧ ys = is.map (fun i => el ++ [i]) := by
  cases s with
  | up => simp [Step.down] at hd
  | here => simp [Step.down] at hd
  | name nm =>
    simp only [stepDen] at h
    split at h
    · next i _ =>
      simp only [Except.ok.injEq] at h
      exact ⟨[i], by simp, by simp [← h]⟩
    · split at h
      · simp at h
      · simp only [Except.ok.injEq] at h
        exact ⟨[], by simp, by simp [← h]⟩
  | negidx k =>
    simp only [stepDen, Except.ok.injEq] at h
    exact ⟨_, option_toList_pairwise _, h.symm⟩
  | slice a b c =>
    simp only [stepDen] at h
    split at h
    · simp at h
    simp only [Except.ok.injEq] at h
    refine ⟨_, pySlice_ascending _ a b (Step.stride c) ?_, h.symm⟩
    match c, ha with
    | none, _ => simp [Step.stride]
    | some none, _ => simp [Step.stride]
    | some (some v), ha =>
      simp only [Step.ascending, decide_eq_true_eq] at ha
      simpa [Step.stride] using ha

/-- downward ascending steps keep a level a level -/
theorem denoteSteps_level (root : Node) (strict : Bool) : ∀ (steps : List Step) (n : Nat) (cur res : List Pos),
    steps.all (fun s => s.down && s.ascending) = true → Level n cur →
    denoteSteps root strict steps cur = .ok res → Level (n + steps.length) res
  | [], n, cur, res, _, hlev, h => by
    simp only [denoteSteps, Except.ok.injEq] at h
    subst h
    simpa using hlev
  | s :: r, n, cur, res, hall, hlev, h => by
    simp only [List.all_cons, Bool.and_eq_true] at hall
    simp only [denoteSteps] at h
    cases hx : flatMapM (stepDen root strict s) cur with
    | error e => rw [hx] at h; simp at h
    | ok next =>
      rw [hx] at h
      simp only at h
      have hnext := (level_step (stepDen root strict s) n
        (fun el ys hy => stepDen_children root strict s hall.1.1 hall.1.2 el ys hy) cur next hlev hx).1
      have := denoteSteps_level root strict r (n + 1) next res hall.2 hnext h
      simpa [Nat.add_assoc, Nat.add_comm 1] using this

/-- leading `..`/`.` steps keep a single element single -/
theorem denoteSteps_zone (root : Node) (strict : Bool) : ∀ (Z : List Step) (el : Pos),
    Z.all (fun s => s.isUp || s.isHere) = true →
    ∃ el', ∀ (R : List Step), denoteSteps root strict (Z ++ R) [el] = denoteSteps root strict R [el']
  | [], el, _ => ⟨el, fun _ => rfl⟩
  | s :: Z, el, h => by
    simp only [List.all_cons, Bool.and_eq_true] at h
    cases s with
    | up =>
      obtain ⟨el', h'⟩ := denoteSteps_zone root strict Z el.dropLast h.2
      exact ⟨el', fun R => by simp [denoteSteps, flatMapM, stepDen, h' R]⟩
    | here =>
      obtain ⟨el', h'⟩ := denoteSteps_zone root strict Z el h.2
      exact ⟨el', fun R => by simp [denoteSteps, flatMapM, stepDen, h' R]⟩
    | name n => simp [Step.isUp, Step.isHere] at h
    | negidx n => simp [Step.isUp, Step.isHere] at h
    | slice a b c => simp [Step.isUp, Step.isHere] at h

end Flatland.C14.Proofs
