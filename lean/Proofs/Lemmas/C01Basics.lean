/-
C01, groundwork: the flatten output of an `Ok` element, kind by kind, as a path-level queue
output; `confined` for many stray pairs at once; emptiness of the output.
-/
import Flatland.Flat
import Flatland.Spec.C01
import Flatland.Spec.C02
import Proofs.Lemmas.FlatPath
import Proofs.Lemmas.SepSafe
import Proofs.C02Confined
namespace Flatland.Flat.Proofs
open Flatland.Flat Flatland.Flat.Spec

/-- what an element emits, as token paths relative to its own position -/
def relFlat (n : FNode) : List PPair := bfsPath [([], n)]

theorem flatten_eq_relFlat (env : Env) (sep : Str) (s : Schema) (e : Elem) :
    flatten env sep s e = (relFlat (resolve env s e)).map (joinPair sep) := by
  unfold flatten relFlat
  rw [flattenNode_eq, ← bfsFlat_single sep ([], resolve env s e), bfsFlat_eq_map]

theorem relFlat_eq (n : FNode) : relFlat n = ownPath ([], n) ++ bfsPath (pushed ([], n)) := by
  unfold relFlat; rw [bfsPath_cons]; simp

/-! ### many stray pairs at once -/

theorem confined_filter_aux (env : Env) (sep : Str) (s : Schema) (hw : wf s = true)
    (hd : dense s = true) (b : Pairs) : ∀ a : Pairs,
    setFlat env sep s (blank s) (a ++ b)
      = setFlat env sep s (blank s) (a ++ b.filter (fun p => addr env sep s p.1)) := by
  induction b with
  | nil => intro a; simp
  | cons x b ih =>
    intro a
    obtain ⟨k, v⟩ := x
    by_cases hx : addr env sep s k = true
    · simp only [List.filter_cons, hx, if_true]
      have := ih (a ++ [(k, v)])
      simpa [List.append_assoc] using this
    · have hx' : addr env sep s k = false := by simpa using hx
      simp only [List.filter_cons, hx', Bool.false_eq_true, if_false]
      rw [confined_setFlat env sep s hw hd a b k v hx']
      exact ih a

/-- only the pairs that address something in the schema matter -/
theorem confined_filter (env : Env) (sep : Str) (s : Schema) (hw : wf s = true)
    (hd : dense s = true) (ps : Pairs) :
    setFlat env sep s (blank s) ps
      = setFlat env sep s (blank s) (ps.filter (fun p => addr env sep s p.1)) := by
  have := confined_filter_aux env sep s hw hd ps []
  simpa using this

/-! ### resolving the members of a mapping -/

theorem resolveOne_eq (env : Env) (fields : List Schema) (key : Str) (e : Elem) :
    resolveOne env fields key e = (findField key fields).map (fun f => resolve env f e) := by
  induction fields with
  | nil => simp [resolveOne, findField]
  | cons f fs ih =>
    simp only [resolveOne, findField]
    split <;> simp [ih]

/-- members resolved in order against their own field schemas -/
def resKids (env : Env) : List Schema → List (Str × Elem) → List FNode
  | f :: fs, (_, e) :: ms => resolve env f e :: resKids env fs ms
  | _, _ => []

theorem resolveMembers_eq (env : Env) (all : List Schema) (hn : (namesOf all).Nodup)
    (hs : ∀ g ∈ all, g.name.isSome) (any : List (Str × Elem)) :
    ∀ (fs : List Schema) (ms : List (Str × Elem)), (∀ f ∈ fs, f ∈ all) → OkFields env fs ms →
      resolveMembers env all any ms = resKids env fs ms := by
  intro fs
  induction fs with
  | nil =>
    intro ms _ hok
    cases ms with
    | nil => simp [resolveMembers, resKids]
    | cons m ms => simp [OkFields] at hok
  | cons f fs ih =>
    intro ms hsub hok
    cases ms with
    | nil => simp [OkFields] at hok
    | cons m ms =>
      obtain ⟨k, e⟩ := m
      simp only [OkFields] at hok
      obtain ⟨hname, _, hrest⟩ := hok
      simp only [resolveMembers, resKids, resolveOne_eq]
      have hf := findField_of_mem f all hn hs (hsub f (by simp))
      simp only [hname, Option.getD_some] at hf
      rw [hf]
      simp only [Option.map_some, List.singleton_append]
      rw [ih ms (fun g hg => hsub g (List.mem_cons_of_mem _ hg)) hrest]

/-! ### the queue a node starts with -/

theorem kidsFrom_noslots (p : List Str) (i : Nat) (ks : List FNode) :
    kidsFrom p false i ks = ks.map (fun k => (p, k)) := by
  induction ks generalizing i with
  | nil => simp [kidsFrom]
  | cons k ks ih => simp [kidsFrom, ih]

/-- members of a List with their slot index as path -/
def slotItems : Nat → List FNode → List QItem
  | _, [] => []
  | i, k :: ks => ([natStr i], k) :: slotItems (i + 1) ks

theorem kidsFrom_slots (p : List Str) (i : Nat) (ks : List FNode) :
    kidsFrom p true i ks = (slotItems i ks).map (shift p) := by
  induction ks generalizing i with
  | nil => simp [kidsFrom, slotItems]
  | cons k ks ih => simp [kidsFrom, slotItems, ih, shift]

def pre (π : List Str) (x : PPair) : PPair := (π ++ x.1, x.2)

theorem bfsPath_shift' (π : List Str) (q : List QItem) :
    bfsPath (q.map (shift π)) = (bfsPath q).map (pre π) := bfsPath_shift π q

theorem map_pair_shift (p : List Str) (ks : List FNode) :
    ks.map (fun k => ((p, k) : QItem)) = (ks.map (fun k => (([], k) : QItem))).map (shift p) := by
  simp [shift]

end Flatland.Flat.Proofs
