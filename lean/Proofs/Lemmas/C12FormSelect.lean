/-
The binds of a rendered form are the binds the runner's `select` computes from the case tree
(`Flatland/C12.lean`): flat name, text and kind of the element a selector leads to.
-/
import Flatland.C12.Form
import Proofs.C12
namespace Flatland.C12.Proofs
open Flatland.Markup Flatland.C12

/-! ### `str(index)`: the flat model's digits are `toString` -/

theorem digitChar_eq : ∀ n, n < 10 → Flatland.Flat.digitChar n = Nat.digitChar n := by decide

theorem natStr_eq_toDigits (n : Nat) : Flatland.Flat.natStr n = Nat.toDigits 10 n := by
  induction n using Nat.strongRecOn with
  | _ n ih =>
    rw [Flatland.Flat.natStr]
    split
    · rename_i h
      rw [Nat.toDigits_of_lt_base h, digitChar_eq n h]
    · rename_i h
      have h10 : n / 10 < n := Nat.div_lt_self (by omega) (by decide)
      have hm : n % 10 < 10 := Nat.mod_lt _ (by decide)
      rw [ih _ h10]
      have e1 : [Flatland.Flat.digitChar (n % 10)] = Nat.toDigits 10 (n % 10) := by
        rw [Nat.toDigits_of_lt_base hm, digitChar_eq _ hm]
      rw [e1, Nat.toDigits_append_toDigits (by decide) (by omega) hm]
      congr 1
      omega

/-- the slot names of the form model are the slot names of the runner's `select` -/
theorem natRepr_eq_slotName (i : Nat) : natRepr i = slotName i := by
  unfold natRepr slotName
  rw [natStr_eq_toDigits, Nat.toString_eq_repr, Nat.repr]
  simp

end Flatland.C12.Proofs

namespace Flatland.C12.Proofs
open Flatland.Markup Flatland.C12

/-! ### every control is bound to what `select` finds -/

theorem checkGroup_bind (b : Bind) (ty : Str) : ∀ (lits : List Str) (es : List Attrs),
    ∀ c ∈ checkGroup b ty lits es, c.bind = b
  | [], _, c, hc => by simp [checkGroup] at hc
  | l :: ls, es, c, hc => by
    simp only [checkGroup, List.mem_cons] at hc
    rcases hc with rfl | hc
    · rfl
    · exact checkGroup_bind b ty ls es.tail c hc

theorem scalarControls_bind (b : Bind) (w : ScalarWidget) (ex : List Attrs) :
    ∀ c ∈ scalarControls b w ex, c.bind = b := by
  intro c hc
  cases w with
  | input ty => simp only [scalarControls, List.mem_singleton] at hc; subst hc; rfl
  | textarea => simp only [scalarControls, List.mem_singleton] at hc; subst hc; rfl
  | button => simp only [scalarControls, List.mem_singleton] at hc; subst hc; rfl
  | radios ty lits => exact checkGroup_bind b ty lits ex c hc
  | select lits => simp only [scalarControls, List.mem_singleton] at hc; subst hc; rfl

theorem arrayControls_bind (b : Bind) (ms : List Str) (w : ArrayWidget) (ex : List Attrs) :
    ∀ c ∈ arrayControls b ms w ex, c.bind = b := by
  intro c hc
  cases w with
  | checkboxes => exact checkGroup_bind b sCheckbox ms ex c hc
  | selectMultiple => simp only [arrayControls, List.mem_singleton] at hc; subst hc; rfl

mutual
/-- BINDS ARE `select`'s: every control of the rendered form is bound to the element some selector
    leads to in the case tree — flat name, text and kind as the runner computes them (and as the
    correspondence check compares them with `flattened_name()` / `.u` of the real element) -/
theorem renderForm_binds : ∀ (t : FormTree) (pre : List (Option Str)) (c : Control), c ∈ renderForm pre t →
    ∃ sel shown, select shown t.tree pre sel = some c.bind
  | .text n u w ex, pre, c, hc => by
    simp only [renderForm] at hc
    rw [scalarControls_bind _ w ex c hc]
    exact ⟨[], [], rfl⟩
  | .bool n tru u ex, pre, c, hc => by
    simp only [renderForm, List.mem_singleton] at hc
    subst hc
    exact ⟨[], [], rfl⟩
  | .array n strip ms w ex, pre, c, hc => by
    simp only [renderForm] at hc
    rw [arrayControls_bind _ ms w ex c hc]
    exact ⟨[], [], rfl⟩
  | .joined n u ms ty ex, pre, c, hc => by
    simp only [renderForm, List.mem_singleton] at hc
    subst hc
    exact ⟨[], u, rfl⟩
  | .dict n fields, pre, c, hc => by
    simp only [renderForm] at hc
    obtain ⟨i, rest, shown, h⟩ := renderFields_binds fields (pre ++ [n]) c hc
    exact ⟨i :: rest, shown, by simp only [FormTree.tree, select]; exact h⟩
  | .list n members, pre, c, hc => by
    simp only [renderForm] at hc
    obtain ⟨j, rest, shown, h⟩ := renderSlots_binds members (pre ++ [n]) 0 c hc
    refine ⟨j :: rest, shown, ?_⟩
    simp only [FormTree.tree, select]
    have := h (pre ++ [n, some (natRepr j)]) (by simp [natRepr_eq_slotName, List.append_assoc])
    exact this
theorem renderFields_binds : ∀ (ts : List FormTree) (pre : List (Option Str)) (c : Control), c ∈ renderFields pre ts →
    ∃ i rest shown, selectL shown (treesOf ts) pre i rest = some c.bind
  | [], _, c, hc => by simp [renderFields] at hc
  | t :: ts, pre, c, hc => by
    simp only [renderFields, List.mem_append] at hc
    rcases hc with h | h
    · obtain ⟨sel, shown, hs⟩ := renderForm_binds t pre c h
      exact ⟨0, sel, shown, by simp only [treesOf, selectL]; exact hs⟩
    · obtain ⟨i, rest, shown, hs⟩ := renderFields_binds ts pre c h
      exact ⟨i + 1, rest, shown, by simp only [treesOf, selectL]; exact hs⟩
/-- member `k` of the slots rendered from index `i` on sits in slot `i + k`: `select` is handed the
    path with that slot's name -/
theorem renderSlots_binds : ∀ (ts : List FormTree) (pre : List (Option Str)) (i : Nat) (c : Control),
    c ∈ renderSlots pre i ts →
    ∃ k rest shown, ∀ p, p = pre ++ [some (slotName (i + k))] → selectL shown (treesOf ts) p k rest = some c.bind
  | [], _, _, c, hc => by simp [renderSlots] at hc
  | t :: ts, pre, i, c, hc => by
    simp only [renderSlots, List.mem_append] at hc
    rcases hc with h | h
    · obtain ⟨sel, shown, hs⟩ := renderForm_binds t (pre ++ [some (slotName i)]) c h
      refine ⟨0, sel, shown, ?_⟩
      intro p hp
      subst hp
      simp only [treesOf, selectL, Nat.add_zero]
      exact hs
    · obtain ⟨k, rest, shown, hs⟩ := renderSlots_binds ts pre (i + 1) c h
      refine ⟨k + 1, rest, shown, ?_⟩
      intro p hp
      simp only [treesOf, selectL]
      exact hs p (by rw [hp]; congr 4; omega)
end

end Flatland.C12.Proofs
