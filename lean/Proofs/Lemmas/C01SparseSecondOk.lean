/-
C01 with SparseDicts, second clause groundwork: what `from_flat(flatten(e))` rebuilds (`prS`) is again a
conforming state (`OkS`), and so is a fresh element — provided a blank scalar is settled
(`blankSettled`) and every Array / MultiValue has scalar members (`arraysScalar`, which `OkS`
demands of any Array state anyway).
-/
import Proofs.Lemmas.C01SparseMap
import Proofs.Lemmas.C01LevelPr
namespace Flatland.Flat.Proofs
open Flatland.Flat Flatland.Flat.Spec

variable {env : Env} {sep : Str}

mutual
/-- every Array / MultiValue of the schema has scalar members (what `OkS` demands of an Array state;
    flatland's Array is a sequence of scalars) -/
def arraysScalar : Schema → Bool
  | .leaf .. => true
  | .joined .. => true
  | .array _ _ _ (.leaf ..) => true
  | .array .. => false
  | .list _ _ _ _ member => arraysScalar member
  | .dict _ _ _ fields => arraysScalarL fields
  | .compound _ _ _ fields => arraysScalarL fields
def arraysScalarL : List Schema → Bool
  | [] => true
  | f :: fs => arraysScalar f && arraysScalarL fs
end

theorem arraysScalar_of_mem {fs : List Schema} (h : arraysScalarL fs = true) :
    ∀ f ∈ fs, arraysScalar f = true := by
  induction fs with
  | nil => intro f hf; simp at hf
  | cons g gs ih =>
    simp only [arraysScalarL, Bool.and_eq_true] at h
    intro f hf
    rcases List.mem_cons.mp hf with rfl | hf
    · exact h.1
    · exact ih h.2 f hf

theorem blankSettled_of_mem {fs : List Schema} (h : blankSettledL env fs = true) :
    ∀ f ∈ fs, blankSettled env f = true := by
  induction fs with
  | nil => intro f hf; simp at hf
  | cons g gs ih =>
    simp only [blankSettledL, Bool.and_eq_true] at h
    intro f hf
    rcases List.mem_cons.mp hf with rfl | hf
    · exact h.1
    · exact ih h.2 f hf

theorem arraysScalar_array {nm : Option Str} {o p : Bool} {member : Schema}
    (h : arraysScalar (.array nm o p member) = true) : ∃ n o k, member = .leaf n o k := by
  cases member with
  | leaf n o k => exact ⟨n, o, k, rfl⟩
  | _ => simp [arraysScalar] at h

/-! ### the keys and values of `pickV` -/

/-- the key a declared field is held under -/
def nmOf (f : Schema) : Str := f.name.getD []

/-- which fields `pickV` picks in its first / second pass -/
def pickSel (req : Schema → Bool) (keys : List (Str × Str)) (first : Bool) (f : Schema) : Bool :=
  if first then req f else (!req f && touched keys f)

theorem pickV_keys_filter (req : Schema → Bool) (keys : List (Str × Str)) (V : Schema → Elem) (first : Bool)
    (fs : List Schema) :
    (pickV req keys V first fs).map (·.1) = (fs.filter (pickSel req keys first)).map nmOf := by
  induction fs with
  | nil => rfl
  | cons f fs ih =>
    cases first with
    | true =>
      simp only [pickV, if_true, List.filter_cons, pickSel] at ih ⊢
      cases hr : req f with
      | true => simp only [if_true, List.map_cons, ih]; rfl
      | false => simp only [Bool.false_eq_true, if_false, ih]
    | false =>
      simp only [pickV, Bool.false_eq_true, if_false, List.filter_cons, pickSel] at ih ⊢
      cases hr : (!req f && touched keys f) with
      | true => simp only [if_true, List.map_cons, ih]; rfl
      | false => simp only [Bool.false_eq_true, if_false, ih]

theorem pickV_mem (req : Schema → Bool) (keys : List (Str × Str)) (V : Schema → Elem) (first : Bool)
    (fs : List Schema) : ∀ p ∈ pickV req keys V first fs,
      ∃ f ∈ fs, pickSel req keys first f = true ∧ p.1 = nmOf f ∧ (p.2 = V f ∨ p.2 = blank f) := by
  induction fs with
  | nil => intro p hp; simp [pickV] at hp
  | cons f fs ih =>
    intro p hp
    have lift : (∃ g ∈ fs, pickSel req keys first g = true ∧ p.1 = nmOf g ∧ (p.2 = V g ∨ p.2 = blank g)) →
        ∃ g ∈ f :: fs, pickSel req keys first g = true ∧ p.1 = nmOf g ∧ (p.2 = V g ∨ p.2 = blank g) := by
      rintro ⟨g, hg, h⟩
      exact ⟨g, List.mem_cons_of_mem _ hg, h⟩
    cases first with
    | true =>
      simp only [pickV, if_true] at hp
      cases hr : req f with
      | true =>
        simp only [hr, if_true] at hp
        rcases List.mem_cons.mp hp with rfl | hp
        · refine ⟨f, by simp, by simp [pickSel, hr], rfl, ?_⟩
          cases touched keys f <;> simp
        · exact lift (ih p hp)
      | false =>
        simp only [hr, Bool.false_eq_true, if_false] at hp
        exact lift (ih p hp)
    | false =>
      simp only [pickV, Bool.false_eq_true, if_false] at hp
      cases hr : (!req f && touched keys f) with
      | true =>
        simp only [hr, if_true] at hp
        rcases List.mem_cons.mp hp with rfl | hp
        · exact ⟨f, by simp, by simp only [pickSel, Bool.false_eq_true, if_false]; exact hr, rfl, Or.inl rfl⟩
        · exact lift (ih p hp)
      | false =>
        simp only [hr, Bool.false_eq_true, if_false] at hp
        exact lift (ih p hp)

/-- with no pairs at all the field loop leaves the fresh mapping -/
theorem pickV_nil_true (req : Schema → Bool) (V : Schema → Elem) (fs : List Schema) :
    pickV req [] V true fs = blankSel req fs := by
  induction fs with
  | nil => rfl
  | cons f fs ih => simp [pickV, blankSel, touched, ih]

theorem pickV_nil_false (req : Schema → Bool) (V : Schema → Elem) (fs : List Schema) :
    pickV req [] V false fs = [] := by
  induction fs with
  | nil => rfl
  | cons f fs ih => simp [pickV, touched, ih]

theorem blankSel_eq_pick (req : Schema → Bool) (V : Schema → Elem) (fs : List Schema) :
    blankSel req fs = pickV req [] V true fs ++ pickV req [] V false fs := by
  rw [pickV_nil_true, pickV_nil_false, List.append_nil]

/-! ### distinct names -/

theorem nodup_of_map_some' {α} : ∀ (l : List α), (l.map some).Nodup → l.Nodup
  | [], _ => List.nodup_nil
  | a :: as, h => by
    simp only [List.map_cons, List.nodup_cons, List.mem_map, Option.some.injEq, exists_eq_right] at h
    exact List.nodup_cons.mpr ⟨h.1, nodup_of_map_some' as h.2⟩

theorem name_eq_nmOf {fs : List Schema} (hsome : ∀ g ∈ fs, g.name.isSome) {f : Schema} (hf : f ∈ fs) :
    f.name = some (nmOf f) := by
  have := hsome f hf
  unfold nmOf
  cases hn : f.name with
  | none => simp [hn] at this
  | some x => simp

theorem namesOf_eq_map (fs : List Schema) (hsome : ∀ g ∈ fs, g.name.isSome) :
    namesOf fs = (fs.map nmOf).map some := by
  induction fs with
  | nil => rfl
  | cons f fs ih =>
    simp only [namesOf, List.map_cons]
    rw [ih (fun g hg => hsome g (List.mem_cons_of_mem _ hg)),
      name_eq_nmOf hsome (List.mem_cons_self ..)]

theorem nmOf_nodup (fs : List Schema) (hnd : (namesOf fs).Nodup) (hsome : ∀ g ∈ fs, g.name.isSome) :
    (fs.map nmOf).Nodup := by
  apply nodup_of_map_some'
  rw [← namesOf_eq_map fs hsome]; exact hnd

/-- two declared fields held under the same key are the same field -/
theorem field_eq_of_nmOf {fs : List Schema} (hnd : (namesOf fs).Nodup) (hsome : ∀ g ∈ fs, g.name.isSome)
    {f g : Schema} (hf : f ∈ fs) (hg : g ∈ fs) (h : nmOf f = nmOf g) : f = g := by
  have h1 := findField_unique hnd hf (name_eq_nmOf hsome hf)
  have h2 := findField_unique hnd hg (name_eq_nmOf hsome hg)
  rw [h, h2] at h1
  injection h1 with h1
  exact h1.symm

/-- the rebuilt mapping has distinct keys -/
theorem pick_keys_nodup (fields : List Schema) (hnd : (namesOf fields).Nodup)
    (hsome : ∀ g ∈ fields, g.name.isSome) (req : Schema → Bool) (keys : List (Str × Str))
    (V : Schema → Elem) :
    ((pickV req keys V true fields ++ pickV req keys V false fields).map (·.1)).Nodup := by
  rw [List.map_append, pickV_keys_filter, pickV_keys_filter]
  have hn := nmOf_nodup fields hnd hsome
  apply List.nodup_append.mpr
  refine ⟨hn.sublist (List.Sublist.map _ List.filter_sublist),
    hn.sublist (List.Sublist.map _ List.filter_sublist), ?_⟩
  intro a ha b hb hab
  subst hab
  obtain ⟨f, hf, rfl⟩ := List.mem_map.mp ha
  obtain ⟨g, hg, hgf⟩ := List.mem_map.mp hb
  obtain ⟨hf1, hf2⟩ := List.mem_filter.mp hf
  obtain ⟨hg1, hg2⟩ := List.mem_filter.mp hg
  have := field_eq_of_nmOf hnd hsome hg1 hf1 hgf
  subst this
  simp only [pickSel, if_true, Bool.false_eq_true, if_false, Bool.and_eq_true,
    Bool.not_eq_true'] at hf2 hg2
  rw [hf2] at hg2
  exact absurd hg2.1 (by simp)

/-! ### the rebuilt mapping conforms -/

/-- **mappings.**  What the field loop leaves conforms when every rebuilt member and every fresh member
    conforms to its own field. -/
theorem okS_pick (fields : List Schema) (hnd : (namesOf fields).Nodup)
    (hsome : ∀ g ∈ fields, g.name.isSome) (req : Schema → Bool) (keys : List (Str × Str))
    (V : Schema → Elem) (hV : ∀ f ∈ fields, OkS env f (V f)) (hB : ∀ f ∈ fields, OkS env f (blank f)) :
    ((pickV req keys V true fields ++ pickV req keys V false fields).map (·.1)).Nodup ∧
      ∀ p ∈ pickV req keys V true fields ++ pickV req keys V false fields,
        OkSAny env fields p.1 p.2 := by
  refine ⟨pick_keys_nodup fields hnd hsome req keys V, ?_⟩
  intro p hp
  have : ∃ f ∈ fields, p.1 = nmOf f ∧ (p.2 = V f ∨ p.2 = blank f) := by
    rcases List.mem_append.mp hp with hp | hp
    · obtain ⟨f, hf, _, h⟩ := pickV_mem req keys V true fields p hp
      exact ⟨f, hf, h⟩
    · obtain ⟨f, hf, _, h⟩ := pickV_mem req keys V false fields p hp
      exact ⟨f, hf, h⟩
  obtain ⟨f, hf, hk, hv⟩ := this
  apply (OkSAny_iff env fields p.1 p.2).mpr
  refine ⟨f, hf, by rw [hk]; exact name_eq_nmOf hsome hf, ?_⟩
  rcases hv with hv | hv
  · rw [hv]; exact hV f hf
  · rw [hv]; exact hB f hf

/-- a member of a conforming mapping conforms to the declared field of its key -/
theorem okS_of_lookup {fields : List Schema} (hnd : (namesOf fields).Nodup)
    (hsome : ∀ g ∈ fields, g.name.isSome) {ms : List (Str × Elem)}
    (hmem : ∀ p ∈ ms, OkSAny env fields p.1 p.2) {f : Schema} (hf : f ∈ fields) {e : Elem}
    (hl : lookup (nmOf f) ms = some e) : OkS env f e := by
  obtain ⟨a, b, hab, _⟩ := lookup_some_split hl
  have h1 := hmem (nmOf f, e) (by rw [hab]; simp)
  obtain ⟨g, hg, hgn, hgo⟩ := (OkSAny_iff env fields (nmOf f) e).mp h1
  have h2 := findField_unique hnd hg hgn
  rw [findField_unique hnd hf (name_eq_nmOf hsome hf)] at h2
  injection h2 with h2
  subst h2
  exact hgo

/-! ### a fresh element conforms -/

theorem okS_blank : ∀ s : Schema, wf s = true → blankSettled env s = true → arraysScalar s = true →
    OkS env s (blank s) := by
  intro s
  induction s using schema_ind with
  | hleaf nm o k =>
    intro _ hb _
    simp only [blankSettled, beq_iff_eq] at hb
    simp only [blank, OkS, OkP]; exact hb
  | hjoined nm o k m =>
    intro _ hb _
    simp only [blankSettled, beq_iff_eq] at hb
    simp only [blank, OkS, OkP]; exact ⟨hb, Or.inr ⟨trivial, trivial⟩⟩
  | hdict nm o mode fields ih =>
    intro hw hb ha
    simp only [wf, Bool.and_eq_true] at hw
    simp only [blankSettled] at hb
    simp only [arraysScalar] at ha
    have hnd : (namesOf fields).Nodup := by simpa using hw.2
    have hsome := allSome_of fields hw.1.2
    have hB : ∀ f ∈ fields, OkS env f (blank f) := fun f hf =>
      ih f hf (wf_of_mem hw.1.1 f hf) (blankSettled_of_mem hb f hf) (arraysScalar_of_mem ha f hf)
    rw [blank_dict_members, blankSel_eq_pick (isReq mode) blank fields]
    simp only [OkS]
    exact okS_pick fields hnd hsome (isReq mode) [] blank hB hB
  | hcompound nm o k fields ih =>
    intro hw hb ha
    simp only [wf, Bool.and_eq_true] at hw
    simp only [blankSettled] at hb
    simp only [arraysScalar] at ha
    have hnd : (namesOf fields).Nodup := by simpa using hw.2
    have hsome := allSome_of fields hw.1.2
    have hB : ∀ f ∈ fields, OkS env f (blank f) := fun f hf =>
      ih f hf (wf_of_mem hw.1.1 f hf) (blankSettled_of_mem hb f hf) (arraysScalar_of_mem ha f hf)
    simp only [blank]
    rw [blankFields_sel, blankSel_eq_pick (fun _ => true) blank fields]
    simp only [OkS]
    exact okS_pick fields hnd hsome (fun _ => true) [] blank hB hB
  | hlist nm o p mx member ih =>
    intro _ _ _
    simp [blank, OkS]
  | harray nm o p member ih =>
    intro _ _ ha
    simp only [blank, OkS, OkP]
    exact ⟨arraysScalar_array ha, by simp⟩

/-! ### `prS` keeps elements conforming -/

theorem dropTrailing_length_le' {α} (p : α → Bool) (l : List α) : (dropTrailing p l).length ≤ l.length := by
  obtain ⟨tl, hl, _⟩ := dropTrailing_split p l
  have := congrArg List.length hl
  simp only [List.length_append] at this
  omega

/-- **the rebuilt state conforms**: `prS` maps conforming states to conforming states. -/
theorem prS_okS : ∀ s : Schema, wf s = true → blankSettled env s = true → arraysScalar s = true →
    ∀ (u : Bool) (e : Elem), OkS env s e → OkS env s (prS env sep u s e) := by
  intro s
  induction s using schema_ind with
  | hleaf nm o k =>
    intro _ _ _ u e hok
    cases e <;> simp_all [prS, pr, OkS, OkP]
  | hjoined nm o k m =>
    intro _ _ _ u e hok
    cases e with
    | joined t ms =>
      simp only [OkS, OkP] at hok
      simp only [prS, pr]
      split
      · rename_i h
        simp only [Bool.and_eq_true, List.isEmpty_iff] at h
        have h0 := hok.1
        rw [h.2] at h0
        simp [OkS, OkP, h0]
      · simp only [OkS, OkP]; exact ⟨hok.1, Or.inl trivial⟩
    | _ => simp [OkS, OkP] at hok
  | hdict nm o mode fields ih =>
    intro hw hb ha u e hok
    cases e with
    | dict ms =>
      simp only [wf, Bool.and_eq_true] at hw
      simp only [blankSettled] at hb
      simp only [arraysScalar] at ha
      have hnd : (namesOf fields).Nodup := by simpa using hw.2
      have hsome := allSome_of fields hw.1.2
      have hB : ∀ f ∈ fields, OkS env f (blank f) := fun f hf =>
        okS_blank f (wf_of_mem hw.1.1 f hf) (blankSettled_of_mem hb f hf) (arraysScalar_of_mem ha f hf)
      simp only [OkS] at hok
      have hV : ∀ f ∈ fields, OkS env f (valS env sep u ms f) := by
        intro f hf
        unfold valS
        cases hl : lookup (f.name.getD []) ms with
        | none => exact hB f hf
        | some e' =>
          exact ih f hf (wf_of_mem hw.1.1 f hf) (blankSettled_of_mem hb f hf)
            (arraysScalar_of_mem ha f hf) u e' (okS_of_lookup hnd hsome hok.2 hf hl)
      simp only [prS, OkS]
      rw [prSPick_eq, prSPick_eq]
      exact okS_pick fields hnd hsome _ _ _ hV hB
    | _ => simp [OkS] at hok
  | hcompound nm o k fields ih =>
    intro hw hb ha u e hok
    cases e with
    | dict ms =>
      simp only [wf, Bool.and_eq_true] at hw
      simp only [blankSettled] at hb
      simp only [arraysScalar] at ha
      have hnd : (namesOf fields).Nodup := by simpa using hw.2
      have hsome := allSome_of fields hw.1.2
      have hB : ∀ f ∈ fields, OkS env f (blank f) := fun f hf =>
        okS_blank f (wf_of_mem hw.1.1 f hf) (blankSettled_of_mem hb f hf) (arraysScalar_of_mem ha f hf)
      simp only [OkS] at hok
      have hV : ∀ f ∈ fields, OkS env f (valS env sep u ms f) := by
        intro f hf
        unfold valS
        cases hl : lookup (f.name.getD []) ms with
        | none => exact hB f hf
        | some e' =>
          exact ih f hf (wf_of_mem hw.1.1 f hf) (blankSettled_of_mem hb f hf)
            (arraysScalar_of_mem ha f hf) u e' (okS_of_lookup hnd hsome hok.2 hf hl)
      simp only [prS, OkS]
      rw [prSPick_eq, prSPick_eq]
      exact okS_pick fields hnd hsome _ _ _ hV hB
    | _ => simp [OkS] at hok
  | hlist nm o p mx member ih =>
    intro hw hb ha u e hok
    cases e with
    | list ms =>
      simp only [wf] at hw
      simp only [blankSettled] at hb
      simp only [arraysScalar] at ha
      simp only [OkS] at hok
      obtain ⟨hlen, hdig, hmem⟩ := hok
      simp only [prS]
      split
      · simp only [OkS, List.length_map]
        have hle := List.length_filter_le (emitsB env true member) ms
        refine ⟨by omega, fun i hi => hdig i (by omega), ?_⟩
        intro x hx
        obtain ⟨m, hm, rfl⟩ := List.mem_map.mp hx
        exact ih hw hb ha true m (hmem m (List.mem_filter.mp hm).1)
      · simp only [OkS, List.length_map]
        have hle := dropTrailing_length_le' (emitsB env u member) ms
        refine ⟨by omega, fun i hi => hdig i (by omega), ?_⟩
        intro x hx
        obtain ⟨m, hm, rfl⟩ := List.mem_map.mp hx
        have hm' := mem_of_mem_dropTrailing _ _ _ hm
        cases hem : emitsB env u member m with
        | true => simp only [if_true]; exact ih hw hb ha u m (hmem m hm')
        | false =>
          simp only [Bool.false_eq_true, if_false]
          exact okS_blank member hw hb ha
    | _ => simp [OkS] at hok
  | harray nm o p member ih =>
    intro _ _ _ u e hok
    cases e with
    | array ms =>
      simp only [OkS, OkP] at hok
      simp only [prS, pr, OkS, OkP]
      exact ⟨hok.1, fun x hx => hok.2 x (List.mem_filter.mp hx).1⟩
    | _ => simp [OkS, OkP] at hok

end Flatland.Flat.Proofs
