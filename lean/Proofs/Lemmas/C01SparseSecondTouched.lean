/-
C01, second round trip with SparseDicts — the `prefixFree` corollary:

when no field name of a mapping is a prefix of a sibling's, a field is *touched* (some surviving flat
key of the mapping starts with its name, `Mapping._set_flat`'s `startswith`) exactly when the member
held under its key is present and still emits a surviving pair.
-/
import Proofs.Lemmas.C01SparseMap
import Proofs.Lemmas.C01Emit
namespace Flatland.Flat.Proofs
open Flatland.Flat Flatland.Flat.Spec

variable {env : Env} {sep : Str}

/-- no field name is a prefix of a sibling's name -/
def NamesPF (fields : List Schema) : Prop :=
  ∀ f ∈ fields, ∀ g ∈ fields,
    f.name = g.name ∨ isPrefix (f.name.getD []) (g.name.getD []) = false

theorem namesPF_of_all (fields : List Schema)
    (h : fields.all (fun f => fields.all (fun g =>
      f.name == g.name || !isPrefix (f.name.getD []) (g.name.getD []))) = true) : NamesPF fields := by
  intro f hf g hg
  have := List.all_eq_true.mp (List.all_eq_true.mp h f hf) g hg
  simp only [Bool.or_eq_true, beq_iff_eq, Bool.not_eq_true'] at this
  exact this

theorem joinSep_head (sep t : Str) (q : List Str) : ∃ r, joinSep sep (t :: q) = t ++ r := by
  cases q with
  | nil => exact ⟨[], by simp [joinSep]⟩
  | cons u q => exact ⟨sep ++ joinSep sep (u :: q), by rw [joinSep_cons_cons, List.append_assoc]⟩

/-- two names neither of which is a prefix of the other: the first is not a prefix of any key that
    begins with the second -/
theorem not_prefix_of_ext (a b r : Str) (h1 : isPrefix a b = false) (h2 : isPrefix b a = false) :
    isPrefix a (b ++ r) = false := by
  cases h : isPrefix a (b ++ r) with
  | false => rfl
  | true =>
    exfalso
    have ha : a <+: b ++ r := by
      obtain ⟨z, hz⟩ := (isPrefix_iff _ _).mp h
      exact ⟨z, hz.symm⟩
    have hb : b <+: b ++ r := List.prefix_append b r
    rcases List.prefix_or_prefix_of_prefix ha hb with hab | hba
    · obtain ⟨z, hz⟩ := hab
      have := (isPrefix_iff a b).mpr ⟨z, hz.symm⟩
      rw [h1] at this; cases this
    · obtain ⟨z, hz⟩ := hba
      have := (isPrefix_iff b a).mpr ⟨z, hz.symm⟩
      rw [h2] at this; cases this

theorem lookup_of_mem_nodup {k : Str} {e : Elem} : ∀ {ms : List (Str × Elem)},
    (ms.map (·.1)).Nodup → (k, e) ∈ ms → lookup k ms = some e
  | [], _, h => by simp at h
  | (k0, e0) :: ms, hnd, h => by
    simp only [List.map_cons, List.nodup_cons] at hnd
    simp only [lookup]
    rcases List.mem_cons.mp h with heq | hin
    · injection heq with h1 h2; subst h1; subst h2; simp
    · have hne : k0 ≠ k := by
        intro heq; subst heq
        exact hnd.1 (List.mem_map.mpr ⟨(k0, e), hin, rfl⟩)
      simp only [hne, if_false]
      exact lookup_of_mem_nodup hnd.2 hin

theorem mem_of_lookup {k : Str} {e : Elem} : ∀ {ms : List (Str × Elem)},
    lookup k ms = some e → (k, e) ∈ ms
  | [], h => by simp [lookup] at h
  | (k0, e0) :: ms, h => by
    simp only [lookup] at h
    split at h
    · rename_i hk; injection h with h; subst hk; subst h; simp
    · exact List.mem_cons_of_mem _ (mem_of_lookup h)

theorem kidsS_of_mem {fields : List Schema} {k : Str} {e : Elem} {f : Schema}
    (hf : findField k fields = some f) : ∀ {ms : List (Str × Elem)}, (k, e) ∈ ms →
    resolve env f e ∈ kidsS env fields ms
  | [], h => by simp at h
  | (k0, e0) :: ms, h => by
    simp only [kidsS, List.mem_append]
    rcases List.mem_cons.mp h with heq | hin
    · injection heq with h1 h2; subst h1; subst h2
      left; simp [hf]
    · exact Or.inr (kidsS_of_mem hf hin)

/-- every path a named node emits begins with the node's name -/
theorem relFlat_head (k : FNode) (y : Str) (hy : k.name = some y) :
    ∀ x ∈ relFlat k, ∃ ext, x.1 = y :: ext := by
  intro x hx
  obtain ⟨it, hit, ext, he⟩ := bfsPath_mem _ x hx
  simp only [List.mem_singleton] at hit
  subst hit
  exact ⟨ext, by simp [he, namePath, hy]⟩

/-- **`prefixFree` corollary.**  If no field name is a prefix of a sibling's, a declared field is
    touched exactly when the member under its key is present and emits a pair that survives. -/
theorem touched_iff (fields : List Schema) (hnd : (namesOf fields).Nodup)
    (hsome : ∀ g ∈ fields, g.name.isSome) (hpf : NamesPF fields)
    (ms : List (Str × Elem)) (hkeys : (ms.map (·.1)).Nodup)
    (f : Schema) (hf : f ∈ fields) (u : Bool) :
    touched (innerPairs env sep u fields ms) f = true ↔
      ∃ e, lookup (f.name.getD []) ms = some e ∧ emitsB env u f e = true := by
  obtain ⟨nm, hname⟩ := Option.isSome_iff_exists.mp (hsome f hf)
  rw [innerPairs_eq]
  unfold touched
  simp only [hname, Option.getD_some, List.any_eq_true, List.mem_map, List.mem_filter]
  constructor
  · rintro ⟨p, ⟨x, ⟨hx, hkx⟩, rfl⟩, hpre⟩
    obtain ⟨it, hit, hxi⟩ := (mem_bfsPath_iff _ x).mp hx
    obtain ⟨k, hk, rfl⟩ := List.mem_map.mp hit
    obtain ⟨q, hq, g, hg, rfl⟩ := kidsS_mem hk
    obtain ⟨hgm, hgn⟩ := findField_someS hg
    have hxr : x ∈ relFlat (resolve env g q.2) := hxi
    obtain ⟨ext, hext⟩ := relFlat_head _ q.1 (by rw [resolve_name, hgn]) x hxr
    have hfg : f.name = g.name := by
      rcases hpf f hf g hgm with h | h1
      · exact h
      · rcases hpf g hgm f hf with h | h2
        · exact h.symm
        · exfalso
          rw [hname, hgn] at h1 h2
          simp only [Option.getD_some] at h1 h2
          obtain ⟨r, hr⟩ := joinSep_head sep q.1 ext
          simp only [joinPair, hext, hr] at hpre
          rw [not_prefix_of_ext nm q.1 r h1 h2] at hpre
          cases hpre
    have hq1 : q.1 = nm := by
      rw [hname, hgn] at hfg; injection hfg with h; exact h.symm
    have hgf : g = f := by
      have := findField_unique hnd hf (k := q.1) (by rw [hname, hq1])
      rw [hg] at this; injection this
    subst hgf
    refine ⟨q.2, ?_, ?_⟩
    · rw [← hq1]; exact lookup_of_mem_nodup hkeys (by simpa using hq)
    · exact (emitsB_iffN env u _ q.2).mpr ⟨x, hxr, hkx⟩
  · rintro ⟨e, hl, hem⟩
    obtain ⟨x, hx, hkx⟩ := (emitsB_iffN env u f e).mp hem
    have hmem := mem_of_lookup hl
    have hff : findField nm fields = some f := findField_unique hnd hf hname
    have hk : resolve env f e ∈ kidsS env fields ms := kidsS_of_mem hff hmem
    obtain ⟨ext, hext⟩ := relFlat_head _ nm (by rw [resolve_name, hname]) x hx
    refine ⟨joinPair sep x, ⟨x, ⟨?_, hkx⟩, rfl⟩, ?_⟩
    · exact (mem_bfsPath_iff _ x).mpr ⟨([], resolve env f e), List.mem_map.mpr ⟨_, hk, rfl⟩, hx⟩
    · simp only [joinPair, hext]
      exact isPrefix_tok_self sep nm ext

theorem touched_false_iff (fields : List Schema) (hnd : (namesOf fields).Nodup)
    (hsome : ∀ g ∈ fields, g.name.isSome) (hpf : NamesPF fields)
    (ms : List (Str × Elem)) (hkeys : (ms.map (·.1)).Nodup)
    (f : Schema) (hf : f ∈ fields) (u : Bool) :
    touched (innerPairs env sep u fields ms) f = false ↔
      ∀ e, lookup (f.name.getD []) ms = some e → emitsB env u f e = false := by
  have h := touched_iff (env := env) (sep := sep) fields hnd hsome hpf ms hkeys f hf u
  constructor
  · intro ht e hl
    cases hem : emitsB env u f e with
    | false => rfl
    | true => rw [h.mpr ⟨e, hl, hem⟩] at ht; cases ht
  · intro hall
    cases ht : touched (innerPairs env sep u fields ms) f with
    | false => rfl
    | true =>
      obtain ⟨e, hl, hem⟩ := h.mp ht
      rw [hall e hl] at hem; cases hem

end Flatland.Flat.Proofs
