/-
Header lemmas for the shared tree model: element-level mutators (`set`, `set_default`,
constructors) never change the identity, the stored parent pointer, the class or the key of the
element they are called on.
-/
import Flatland.Tree
namespace Flatland.Tree
open Flatland.PyList

/-- identity, stored parent, class and key of a node -/
def Node.hdr (n : Node) : Nat × Option Nat × Schema × Str × Option Bool × Option Str :=
  (n.id, n.parent, n.sch, n.key, n.ni.optOv, n.ni.nameOv)

theorem dictPrep_error_hdr (i : NInfo) (s : Schema) (kvs pol next) (r : SetR) (kids : List Node)
    (h : dictPrep i s kvs pol next = .error r) : r.node.hdr = (Node.mk i s kids).hdr := by
  simp only [dictPrep] at h
  cases hp : policyCheck (pol.getD s.info.policy) s.subs kvs with
  | ok u => simp [hp] at h
  | error e => simp [hp] at h; subst h; rfl

@[simp] theorem withKids_hdr (n : Node) (k : List Node) : (n.withKids k).hdr = n.hdr := rfl
@[simp] theorem withScalar_hdr (n : Node) (v : Val) (u : Str) : (n.withScalar v u).hdr = n.hdr := rfl

theorem attachAll_hdr (lst : Node) (es : List Node) (next : Nat) :
    (attachAll lst es next).1.hdr = lst.hdr := by
  induction es generalizing lst next with
  | nil => rfl
  | cons e es ih =>
    unfold attachAll
    split <;> rw [ih] <;> rfl

theorem setNode_hdr (n : Node) (raw : Raw) (pol : Option Policy) (next : Nat) :
    (setNode n raw pol next).node.hdr = n.hdr := by
  cases n with
  | mk i s kids =>
    unfold setNode
    split
    · split <;> rfl
    · split <;> rfl
    · rfl
    · split
      · rfl
      · split
        · dsimp only
          split
          · exact attachAll_hdr _ _ _
          · rfl
          · rfl
        · rfl
        · rfl
        · rfl
    · split
      · rfl
      · split
        · dsimp only
          split
          · exact attachAll_hdr _ _ _
          · rfl
          · rfl
        · rfl
        · rfl
        · rfl
    · split
      · rfl
      · split
        · dsimp only
          split
          · exact attachAll_hdr _ _ _
          · rfl
          · rfl
        · rfl
        · rfl
        · rfl
    all_goals
      split
      · split
        · rename_i r h; exact dictPrep_error_hdr _ _ _ _ _ _ kids h
        · rfl
      · split
        · rename_i r h; exact dictPrep_error_hdr _ _ _ _ _ _ kids h
        · rfl
      · split
        · rename_i r h; exact dictPrep_error_hdr _ _ _ _ _ _ kids h
        · rfl
      · split
        · rename_i r h; exact dictPrep_error_hdr _ _ _ _ _ _ kids h
        · rfl
      all_goals rfl

theorem blank_hdr (s : Schema) (parent : Option Nat) (key : Str) (next : Nat) :
    (blank s parent key next).1.hdr = (next, parent, s, key, none, none) := by
  cases s with
  | mk info dflt subs =>
    unfold blank
    split
    · rfl
    · split <;> rfl
    · rfl

theorem construct_hdr (s : Schema) (raw : Raw) (parent : Option Nat) (key : Str) (next : Nat) (e : Node)
    (h : (construct s raw parent key next).1 = .ok e) : e.hdr = (next, parent, s, key, none, none) := by
  unfold construct at h
  dsimp only at h
  split at h
  · cases h
    rw [setNode_hdr, blank_hdr]
  · cases h

theorem fromDefaults_hdr (s : Schema) (parent : Option Nat) (key : Str) (next : Nat) :
    (fromDefaults s parent key next).node.hdr = (next, parent, s, key, none, none) := by
  cases s with
  | mk info dflt subs =>
    have hb := blank_hdr (.mk info dflt subs) parent key next
    unfold fromDefaults
    dsimp only
    split
    · rw [setNode_hdr]; exact hb
    · rw [setNode_hdr]; exact hb
    · exact hb
    · split
      · exact hb
      · split
        · simpa using hb
        · exact hb
      · rw [setNode_hdr]; exact hb
    · split
      · exact hb
      · split
        · split
          · rw [attachAll_hdr]; exact hb
          · exact hb
        · exact hb
      · exact hb
    · split
      · exact hb
      · split
        · split
          · rw [attachAll_hdr]; exact hb
          · exact hb
        · exact hb
      · exact hb
    · split
      · simpa using hb
      · rw [setNode_hdr]; exact hb
    · split
      · split
        · simpa using hb
        · simpa using hb
      · rw [setNode_hdr]; exact hb

theorem setDefault_hdr (n : Node) (next : Nat) : (setDefault n next).node.hdr = n.hdr := by
  cases n with
  | mk i s kids =>
    unfold setDefault
    split
    · exact setNode_hdr _ _ _ _
    · exact setNode_hdr _ _ _ _
    · rfl
    · split
      · rfl
      · split <;> rfl
      · exact setNode_hdr _ _ _ _
    · split
      · rfl
      · split
        · dsimp only
          split
          · exact attachAll_hdr _ _ _
          · rfl
        · rfl
      · rfl
    · split
      · rfl
      · split
        · dsimp only
          split
          · exact attachAll_hdr _ _ _
          · rfl
        · rfl
      · rfl
    · split
      · rfl
      · exact setNode_hdr _ _ _ _
    · split
      · split <;> rfl
      · exact setNode_hdr _ _ _ _


theorem appendEl_hdr (n w : Node) (next : Nat) : (appendEl n w next).1.hdr = n.hdr := by
  unfold appendEl; split <;> rfl

theorem extendArgs_hdr (m : Schema) (n : Node) (as : List Arg) (next : Nat) :
    (extendArgs m n as next).1.hdr = n.hdr := by
  induction as generalizing n next with
  | nil => rfl
  | cons a as ih =>
    unfold extendArgs
    split
    · rfl
    · rw [ih, appendEl_hdr]

theorem imulLoop_hdr (m : Schema) (vals : List Arg) (k : Nat) (n : Node) (next : Nat) :
    (imulLoop m vals k n next).1.hdr = n.hdr := by
  induction k generalizing n next with
  | zero => rfl
  | succ k ih =>
    rw [imulLoop]
    have he := extendArgs_hdr m n vals next
    split
    · rename_i h; rw [h] at he; exact he
    · rename_i h; rw [h] at he; rw [ih]; exact he

/-- a list-protocol call never changes the identity, stored parent, class or key of the
    sequence it is called on -/
theorem seqStep_hdr (n : Node) (op : SeqOp) (next : Nat) : (seqStep n op next).node.hdr = n.hdr := by
  unfold seqStep
  split
  · rfl
  · cases op with
    | append a => dsimp only; split <;> first | rfl | exact appendEl_hdr _ _ _
    | extend as => dsimp only; split <;> exact extendArgs_hdr _ _ _ _
    | iadd as => dsimp only; split <;> exact extendArgs_hdr _ _ _ _
    | insert i a => dsimp only; split <;> first | rfl | (split <;> rfl)
    | setitem i a =>
      dsimp only
      split
      · split
        · split
          · rfl
          · split <;> rfl
        · split
          · split
            · rfl
            · split <;> rfl
          · rfl
      · split
        · rfl
        · split <;> rfl
    | setslice s as =>
      dsimp only
      split
      · rfl
      · split
        · split <;> rfl
        · split <;> rfl
    | delitem i => dsimp only; split <;> rfl
    | delslice s => dsimp only; split <;> rfl
    | pop i => dsimp only; split <;> first | rfl | (split <;> rfl)
    | remove a => dsimp only; split <;> first | rfl | (split <;> rfl)
    | reverse => rfl
    | clear => rfl
    | imul c =>
      dsimp only
      split
      · rfl
      · split <;> exact imulLoop_hdr _ _ _ _ _
    | sort k r => dsimp only; split <;> first | (split <;> first | rfl | (split <;> rfl)) | rfl
    | set r => dsimp only; split <;> exact setNode_hdr _ _ _ _
    | setDefault => dsimp only; split <;> exact setDefault_hdr _ _
    | len => rfl
    | getitem i => dsimp only; split <;> first | rfl | (split <;> first | rfl | (split <;> rfl))
    | getslice s => dsimp only; split <;> rfl
    | contains a => dsimp only; split <;> rfl
    | index a => dsimp only; split <;> first | rfl | (split <;> rfl)
    | count a => dsimp only; split <;> rfl

end Flatland.Tree
