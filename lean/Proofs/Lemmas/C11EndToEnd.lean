/-
C11 end to end: through the transforms.  If every keyword argument of a tag call is a plain
string (data or option spelling) under a valid attribute name, then whatever the bound element's
name and text are, everything that reaches the serialiser is a plain string under a valid name —
the transforms never manufacture `Markup` — and the contents are empty or the escaped text.
-/
import Proofs.Lemmas.C11Parse
import Proofs.Lemmas.C19Transforms
namespace Flatland.C11.Proofs
open Flatland.C11 Flatland.Markup Flatland.C19.Proofs

/-- every attribute is a plain string under a valid name — except under the (option) keys `ks`,
    which are still to be consumed by their transforms and may hold `True/False/Maybe` -/
def GoodAttrsX (ks : List Str) (a : Attrs) : Prop :=
  ∀ kv ∈ a, kv.1 ∈ ks ∨ ((∃ s, kv.2 = Val.text s) ∧ validName kv.1 = true)

/-- every attribute is a plain string under a valid name -/
def GoodAttrs (a : Attrs) : Prop := ∀ kv ∈ a, (∃ s, kv.2 = Val.text s) ∧ validName kv.1 = true

theorem goodX_nil {a : Attrs} (h : GoodAttrsX [] a) : GoodAttrs a := by
  intro kv hm; rcases h kv hm with h | h
  · simp at h
  · exact h

theorem mem_set {a : Attrs} {k : Str} {v : Val} {kv : Str × Val} (h : kv ∈ Dict.set a k v) :
    kv = (k, v) ∨ kv ∈ a := by
  induction a with
  | nil => simp [Dict.set] at h; left; exact h
  | cons p rest ih =>
    obtain ⟨k0, v0⟩ := p
    simp only [Dict.set] at h
    split at h
    · simp only [List.mem_cons] at h ⊢
      rcases h with h | h
      · left; exact h
      · right; right; exact h
    · simp only [List.mem_cons] at h ⊢
      rcases h with h | h
      · right; left; exact h
      · rcases ih h with h | h
        · left; exact h
        · right; right; exact h

theorem mem_erase {a : Attrs} {k : Str} {kv : Str × Val} (h : kv ∈ Dict.erase a k) : kv ∈ a := by
  induction a with
  | nil => simp [Dict.erase] at h
  | cons p rest ih =>
    obtain ⟨k0, v0⟩ := p
    simp only [Dict.erase] at h
    split at h
    · exact List.mem_cons_of_mem _ h
    · simp only [List.mem_cons] at h ⊢
      rcases h with h | h
      · left; exact h
      · right; exact ih h

theorem GoodAttrsX.set {ks : List Str} {a : Attrs} (h : GoodAttrsX ks a) (k s : Str) (hk : validName k = true) :
    GoodAttrsX ks (Dict.set a k (.text s)) := by
  intro kv hm
  rcases mem_set hm with rfl | hm
  · exact Or.inr ⟨⟨s, rfl⟩, hk⟩
  · exact h kv hm

theorem GoodAttrsX.erase {ks : List Str} {a : Attrs} (h : GoodAttrsX ks a) (k : Str) : GoodAttrsX ks (Dict.erase a k) :=
  fun kv hm => h kv (mem_erase hm)

theorem GoodAttrsX.toggle {ks : List Str} {a : Attrs} (h : GoodAttrsX ks a) (k : Str) (on : Bool)
    (hk : validName k = true) : GoodAttrsX ks (toggleAttr a k on) := by
  unfold toggleAttr; split
  · exact h.set k k hk
  · exact h.erase k

theorem mem_erase_ne {a : Attrs} {k : Str} {kv : Str × Val} (hn : (Dict.keys a).Nodup) (h : kv ∈ Dict.erase a k) :
    kv.1 ≠ k := by
  induction a with
  | nil => simp [Dict.erase] at h
  | cons p rest ih =>
    obtain ⟨k0, v0⟩ := p
    simp only [Dict.keys, List.map_cons, List.nodup_cons] at hn
    simp only [Dict.erase] at h
    split at h
    · rename_i h0
      subst h0
      intro e
      exact hn.1 (List.mem_map.mpr ⟨kv, h, e⟩)
    · rename_i h0
      simp only [List.mem_cons] at h
      rcases h with rfl | h
      · exact h0
      · exact ih hn.2 h

/-- consuming an option key: what is left no longer needs the exception for it -/
theorem GoodAttrsX.pop {ks : List Str} {a : Attrs} {key : Str} (hn : (Dict.keys a).Nodup)
    (h : GoodAttrsX (key :: ks) a) : GoodAttrsX ks (Dict.erase a key) := by
  intro kv hm
  rcases h kv (mem_erase hm) with hk | hg
  · simp only [List.mem_cons] at hk
    rcases hk with hk | hk
    · exact absurd hk (mem_erase_ne hn hm)
    · exact Or.inl hk
  · exact Or.inr hg

/-- the contents are what the author gave, or the escaped text of the bound element -/
def ContentsOK (T : Tables) (bnd : Option Bind) (c0 c : Option Val) : Prop :=
  c = c0 ∨ ∃ b, bnd = some b ∧ c = some (.markup (markupEscape T.textChain b.u))

macro "good_leaves" h:ident hs:ident hg:ident : tactic =>
  `(tactic| (repeat' split at $h:ident) <;> first
      | (simp at $h:ident; done)
      | (simp only [pure, Except.pure, Except.ok.injEq] at $h:ident; subst $h:ident; simp only [$hs:ident];
         refine ⟨?_, ?_⟩
         · repeat (first
             | exact $hg
             | apply GoodAttrsX.toggle _ _ _ (by decide)
             | apply GoodAttrsX.set _ _ _ (by decide)
             | apply GoodAttrsX.erase)
         · first
             | exact Or.inl rfl
             | exact Or.inr ⟨_, rfl, rfl⟩))

theorem transformName_good {T : Tables} {tag : Str} {bnd : Option Bind} {st st' : TState} {ks : List Str}
    (hn : (Dict.keys st.attrs).Nodup) (hg0 : GoodAttrsX ("auto_name".toList :: ks) st.attrs)
    (h : transformName T tag bnd st = .ok st') :
    GoodAttrsX ks st'.attrs ∧ ContentsOK T bnd st.contents st'.contents := by
  have hg := hg0.pop hn
  unfold transformName at h
  simp only [bind, Except.bind, pure, Except.pure] at h
  cases hp : popToggle T "auto_name".toList st.attrs st.ctx with
  | error e => rw [hp] at h; simp at h
  | ok r =>
    have hs := popToggle_shape hp
    rw [hp] at h; simp only at h
    good_leaves h hs hg

theorem transformValue_good {T : Tables} {tag : Str} {bnd : Option Bind} {st st' : TState} {ks : List Str}
    (hn : (Dict.keys st.attrs).Nodup) (hg0 : GoodAttrsX ("auto_value".toList :: ks) st.attrs)
    (h : transformValue T tag bnd st = .ok st') :
    GoodAttrsX ks st'.attrs ∧ ContentsOK T bnd st.contents st'.contents := by
  have hg := hg0.pop hn
  unfold transformValue at h
  simp only [bind, Except.bind, pure, Except.pure] at h
  cases hp : popToggle T "auto_value".toList st.attrs st.ctx with
  | error e => rw [hp] at h; simp at h
  | ok r =>
    have hs := popToggle_shape hp
    rw [hp] at h; simp only at h
    good_leaves h hs hg

theorem transformDomid_good {T : Tables} {tag : Str} {bnd : Option Bind} {st st' : TState} {ks : List Str}
    (hn : (Dict.keys st.attrs).Nodup) (hg0 : GoodAttrsX ("auto_domid".toList :: ks) st.attrs)
    (h : transformDomid T tag bnd st = .ok st') :
    GoodAttrsX ks st'.attrs ∧ ContentsOK T bnd st.contents st'.contents := by
  have hg := hg0.pop hn
  unfold transformDomid at h
  simp only [bind, Except.bind, pure, Except.pure] at h
  cases hp : popToggle T "auto_domid".toList st.attrs st.ctx with
  | error e => rw [hp] at h; simp at h
  | ok r =>
    have hs := popToggle_shape hp
    rw [hp] at h; simp only at h
    good_leaves h hs hg

theorem transformFor_good {T : Tables} {tag : Str} {bnd : Option Bind} {st st' : TState} {ks : List Str}
    (hn : (Dict.keys st.attrs).Nodup) (hg0 : GoodAttrsX ("auto_for".toList :: ks) st.attrs)
    (h : transformFor T tag bnd st = .ok st') :
    GoodAttrsX ks st'.attrs ∧ ContentsOK T bnd st.contents st'.contents := by
  have hg := hg0.pop hn
  unfold transformFor at h
  simp only [bind, Except.bind, pure, Except.pure] at h
  cases hp : popToggle T "auto_for".toList st.attrs st.ctx with
  | error e => rw [hp] at h; simp at h
  | ok r =>
    have hs := popToggle_shape hp
    rw [hp] at h; simp only at h
    good_leaves h hs hg

theorem transformTabindex_good {T : Tables} {tag : Str} {bnd : Option Bind} {st st' : TState} {ks : List Str}
    (hn : (Dict.keys st.attrs).Nodup) (hg0 : GoodAttrsX ("auto_tabindex".toList :: ks) st.attrs)
    (h : transformTabindex T tag bnd st = .ok st') :
    GoodAttrsX ks st'.attrs ∧ ContentsOK T bnd st.contents st'.contents := by
  have hg := hg0.pop hn
  unfold transformTabindex at h
  simp only [bind, Except.bind, pure, Except.pure] at h
  cases hp : popToggle T "auto_tabindex".toList st.attrs st.ctx with
  | error e => rw [hp] at h; simp at h
  | ok r =>
    have hs := popToggle_shape hp
    rw [hp] at h; simp only at h
    good_leaves h hs hg

theorem transformFilters_good {T : Tables} {tag : Str} {bnd : Option Bind} {st st' : TState} {ks : List Str}
    (hn : (Dict.keys st.attrs).Nodup) (hg0 : GoodAttrsX ("auto_filter".toList :: ks) st.attrs)
    (h : transformFilters T tag bnd st = .ok st') :
    GoodAttrsX ks st'.attrs ∧ ContentsOK T bnd st.contents st'.contents := by
  have hg := hg0.pop hn
  unfold transformFilters at h
  simp only [bind, Except.bind, pure, Except.pure] at h
  cases hp : popToggle T "auto_filter".toList st.attrs st.ctx with
  | error e => rw [hp] at h; simp at h
  | ok r =>
    have hs := popToggle_shape hp
    rw [hp] at h; simp only at h
    good_leaves h hs hg

end Flatland.C11.Proofs

namespace Flatland.C11.Proofs
open Flatland.C11 Flatland.Markup Flatland.C19.Proofs

theorem ContentsOK.trans {T : Tables} {bnd : Option Bind} {c0 c1 c2 : Option Val}
    (h1 : ContentsOK T bnd c0 c1) (h2 : ContentsOK T bnd c1 c2) : ContentsOK T bnd c0 c2 := by
  rcases h2 with rfl | h2
  · exact h1
  · exact Or.inr h2

theorem transform_good {T : Tables} {tag : Str} {bnd : Option Bind} {st st6 : TState}
    (hn : (Dict.keys st.attrs).Nodup) (hg : GoodAttrsX optionKeys st.attrs) (h : transform T tag bnd st = .ok st6) :
    GoodAttrs st6.attrs ∧ ContentsOK T bnd st.contents st6.contents := by
  unfold transform at h
  simp only [bind, Except.bind] at h
  cases h1 : transformName T tag bnd st with
  | error e => rw [h1] at h; simp at h
  | ok s1 =>
    rw [h1] at h; simp only at h
    cases h2 : transformValue T tag bnd s1 with
    | error e => rw [h2] at h; simp at h
    | ok s2 =>
      rw [h2] at h; simp only at h
      cases h3 : transformDomid T tag bnd s2 with
      | error e => rw [h3] at h; simp at h
      | ok s3 =>
        rw [h3] at h; simp only at h
        cases h4 : transformFor T tag bnd s3 with
        | error e => rw [h4] at h; simp at h
        | ok s4 =>
          rw [h4] at h; simp only at h
          cases h5 : transformTabindex T tag bnd s4 with
          | error e => rw [h5] at h; simp at h
          | ok s5 =>
            rw [h5] at h; simp only at h
            have n1 := (transformName_reach h1).nodup (Dict.nodup_erase _ _ hn)
            have n2 := (transformValue_reach h2).nodup (Dict.nodup_erase _ _ n1)
            have n3 := (transformDomid_reach h3).nodup (Dict.nodup_erase _ _ n2)
            have n4 := (transformFor_reach h4).nodup (Dict.nodup_erase _ _ n3)
            have n5 := (transformTabindex_reach h5).nodup (Dict.nodup_erase _ _ n4)
            obtain ⟨g1, c1⟩ := transformName_good hn hg h1
            obtain ⟨g2, c2⟩ := transformValue_good n1 g1 h2
            obtain ⟨g3, c3⟩ := transformDomid_good n2 g2 h3
            obtain ⟨g4, c4⟩ := transformFor_good n3 g3 h4
            obtain ⟨g5, c5⟩ := transformTabindex_good n4 g4 h5
            obtain ⟨g6, c6⟩ := transformFilters_good n5 g5 h
            exact ⟨goodX_nil g6, ((((c1.trans c2).trans c3).trans c4).trans c5).trans c6⟩

/-- keyword arguments of the declared domain: each is one of the six `auto_*` options (any value:
    str, True/False, Maybe) or a plain string under a name of the declared grammar
    (`[a-z][a-z0-9_:.-]*` once trailing underscores are stripped) -/
def GoodKwargs (kw : List (Str × Val)) : Prop :=
  ∀ kv ∈ kw, rstripUnderscore kv.1 ∈ optionKeys ∨
    ((∃ s, kv.2 = Val.text s) ∧ lowerName (rstripUnderscore kv.1) = true)

theorem mem_set' {a : Attrs} {k : Str} {v : Val} {kv : Str × Val} (h : kv ∈ Dict.set a k v) :
    kv = (k, v) ∨ kv ∈ a := mem_set h

theorem transformKeys_good (kw : List (Str × Val)) (h : GoodKwargs kw) : GoodAttrsX optionKeys (transformKeys kw) := by
  unfold transformKeys
  suffices ∀ (d : Attrs), GoodAttrsX optionKeys d →
      GoodAttrsX optionKeys (kw.foldl (fun d kv => Dict.set d (rstripUnderscore kv.1) kv.2) d) from
    this [] (fun kv hm => by simp at hm)
  induction kw with
  | nil => intro d hd; exact hd
  | cons kv rest ih =>
    intro d hd
    have hkv := h kv (by simp)
    simp only [List.foldl_cons]
    apply ih (fun x hx => h x (by simp [hx]))
    intro x hm
    rcases mem_set' hm with rfl | hm
    · rcases hkv with hk | ⟨hs, hv⟩
      · exact Or.inl hk
      · exact Or.inr ⟨hs, lowerName_valid hv⟩
    · exact hd x hm

theorem goodAttrs_as_text (a : List (Str × Val)) (h : GoodAttrs a) :
    ∃ attrs : List (Str × Str), a = attrs.map (fun kv => (kv.1, Val.text kv.2)) ∧
      ∀ kv ∈ attrs, validName kv.1 = true := by
  induction a with
  | nil => exact ⟨[], rfl, by simp⟩
  | cons p rest ih =>
    obtain ⟨k, v⟩ := p
    obtain ⟨attrs, ha, hv⟩ := ih (fun kv hm => h kv (by simp [hm]))
    obtain ⟨⟨s, hs⟩, hk⟩ := h (k, v) (by simp)
    simp only at hs hk
    refine ⟨(k, s) :: attrs, by simp [ha, hs], ?_⟩
    intro kv hm
    simp only [List.mem_cons] at hm
    rcases hm with rfl | hm
    · exact hk
    · exact hv kv hm

theorem goodAttrs_orderPairs (order : List Str) (o : Bool) (a : List (Str × Val)) (h : GoodAttrs a) :
    GoodAttrs (orderPairs order o a) := by
  unfold orderPairs
  split
  · intro kv hm; exact h kv ((mem_sortBy _ _ _).mp hm)
  · exact h

end Flatland.C11.Proofs

namespace Flatland.C11.Proofs
open Flatland.C11 Flatland.Markup Flatland.C19.Proofs

/-- final contents string of a tag call, from the transformed contents value -/
def contentsStr : Option Val → Str
  | some (.text c) => c
  | some (.markup c) => c
  | _ => []

theorem prepareTag_full {T : Tables} {order : List Str} {g : Gen} {tag : Str} {bnd : Option Bind}
    {kwargs : List (Str × Val)} {r : TagResult} (hp : prepareTag T order g tag bnd kwargs = .ok r) :
    ∃ st6 o, transform T tag bnd ⟨transformKeys (Dict.erase kwargs "contents".toList),
          Dict.get? kwargs "contents".toList, g.ctx⟩ = .ok st6 ∧
        r.pairs = orderPairs order o st6.attrs ∧ r.contents = contentsStr st6.contents := by
  unfold prepareTag at hp
  simp only [bind, Except.bind] at hp
  cases ht : transform T tag bnd ⟨transformKeys (Dict.erase kwargs "contents".toList),
          Dict.get? kwargs "contents".toList, g.ctx⟩ with
  | error e => rw [ht] at hp; simp at hp
  | ok st =>
    rw [ht] at hp
    simp only at hp
    refine ⟨st, ?_⟩
    cases hc : st.contents with
    | none =>
      rw [hc] at hp
      simp only [pure, Except.pure] at hp
      repeat' split at hp
      all_goals first
        | (simp at hp; done)
        | (simp only [Except.ok.injEq] at hp; subst hp; exact ⟨_, rfl, rfl, rfl⟩)
    | some v =>
      cases v with
      | text c =>
        rw [hc] at hp
        simp only [pure, Except.pure] at hp
        repeat' split at hp
        all_goals first
          | (simp at hp; done)
          | (simp only [Except.ok.injEq] at hp; subst hp; exact ⟨_, rfl, rfl, rfl⟩)
      | markup c =>
        rw [hc] at hp
        simp only [pure, Except.pure] at hp
        repeat' split at hp
        all_goals first
          | (simp at hp; done)
          | (simp only [Except.ok.injEq] at hp; subst hp; exact ⟨_, rfl, rfl, rfl⟩)
      | bool bb =>
        cases bb with
        | false =>
          rw [hc] at hp
          simp only [pure, Except.pure] at hp
          repeat' split at hp
          all_goals first
            | (simp at hp; done)
            | (simp only [Except.ok.injEq] at hp; subst hp; exact ⟨_, rfl, rfl, rfl⟩)
        | true =>
          rw [hc] at hp
          simp [throw, throwThe, MonadExceptOf.throw] at hp
      | maybe =>
        rw [hc] at hp
        simp [throw, throwThe, MonadExceptOf.throw] at hp

theorem erase_absent' (d : Attrs) (k : Str) (h : Dict.get? d k = none) : Dict.erase d k = d := by
  induction d with
  | nil => rfl
  | cons p rest ih =>
    obtain ⟨k0, v0⟩ := p
    by_cases h0 : k0 = k
    · subst h0; simp [Dict.get?_cons] at h
    · simp only [Dict.get?_cons, h0, if_false] at h
      simp [Dict.erase, h0, ih h]

end Flatland.C11.Proofs
