/-
The scanner and the token loop on absolute paths made of name segments:
`tokenize ("/" ++ "/".join(segs)) = [TOP] ++ [NAME unescape(seg) | seg in segs]`
when every segment is a "clean" name run (no unescaped `/` or `[`, no trailing lone backslash
except in the last segment, not `.`/`..`).  Used by C13 (`fq_name` output) and by the
name-step fragment of C14's tokenizer∘printer theorem.
-/
import Flatland.Path
namespace Flatland.Path.Lemmas
open Flatland.Path

/-! ### explicit unfoldings of the overlapping-pattern definitions -/

theorem nameRunLen_cons (c : Char) (r : Str) :
    nameRunLen (c :: r) =
      if c = '\\' then
        (match r with
          | [] => 1
          | c2 :: r2 => if isEscapable c2 then 2 + nameRunLen r2 else 1 + nameRunLen (c2 :: r2))
      else if c == '/' || c == '[' then 0 else 1 + nameRunLen r := by
  by_cases hc : c = '\\'
  · subst hc
    cases r with
    | nil => simp [nameRunLen]
    | cons c2 r2 => simp [nameRunLen]
  · simp only [hc, if_false]
    conv => lhs; unfold nameRunLen
    split
    · next heq => cases heq
    · next c' r' heq => injection heq with h1 h2; exact absurd h1 hc
    · next c' r' hside heq => injection heq with h1 h2; subst h1; subst h2; rfl

def isUnescapable (c : Char) : Bool := c == '/' || c == '[' || c == ']' || c == '.'

theorem unescape_cons (c : Char) (r : Str) :
    unescape (c :: r) =
      if c = '\\' then
        (match r with
          | [] => ['\\']
          | c2 :: r2 => if isUnescapable c2 then c2 :: unescape r2 else '\\' :: unescape (c2 :: r2))
      else c :: unescape r := by
  by_cases hc : c = '\\'
  · subst hc
    cases r with
    | nil => simp [unescape]
    | cons c2 r2 => simp [unescape, isUnescapable]
  · simp only [hc, if_false]
    conv => lhs; unfold unescape
    split
    · next heq => cases heq
    · next c' r' heq => injection heq with h1 h2; exact absurd h1 hc
    · next c' r' hside heq => injection heq with h1 h2; subst h1; subst h2; rfl

/-! ### clean segments -/

/-- the string is consumed as one name run; `last = false`: and cannot swallow a following `/`
    (no lone trailing backslash) -/
def cleanB (last : Bool) : Str → Bool
  | [] => true
  | c :: r =>
    if c = '\\' then
      (match r with
        | [] => last
        | c2 :: r2 => if isEscapable c2 then cleanB last r2 else cleanB last (c2 :: r2))
    else !(c == '/' || c == '[') && cleanB last r
termination_by s => s.length
decreasing_by all_goals simp_wf <;> omega

theorem cleanB_cons (last : Bool) (c : Char) (r : Str) :
    cleanB last (c :: r) =
      if c = '\\' then
        (match r with
          | [] => last
          | c2 :: r2 => if isEscapable c2 then cleanB last r2 else cleanB last (c2 :: r2))
      else !(c == '/' || c == '[') && cleanB last r := by
  rw [cleanB.eq_def]
  by_cases hc : c = '\\'
  · subst hc; cases r <;> rfl
  · simp only [hc, if_false]

/-- what may follow a segment: nothing, a `/`, or a `[` -/
def SlashOrEnd (t : Str) : Prop := t = [] ∨ ∃ t', t = '/' :: t' ∨ t = '[' :: t'

theorem nameRunLen_slashOrEnd (t : Str) (h : SlashOrEnd t) : nameRunLen t = 0 := by
  rcases h with h | ⟨t', h | h⟩
  · subst h; rfl
  · subst h; rw [nameRunLen_cons]; simp
  · subst h; rw [nameRunLen_cons]; simp

theorem nameRunLen_clean (last : Bool) : ∀ (n : Nat) (s t : Str), s.length ≤ n → cleanB last s = true →
    SlashOrEnd t → (last = true → t = []) → nameRunLen (s ++ t) = s.length
  | _, [], t, _, _, ht, _ => by simpa using nameRunLen_slashOrEnd t ht
  | 0, c :: r, _, hn, _, _, _ => by simp at hn
  | n + 1, c :: r, t, hn, hc, ht, hl => by
    rw [cleanB_cons] at hc
    rw [List.cons_append, nameRunLen_cons]
    by_cases hb : c = '\\'
    · subst hb
      simp only [if_true] at hc ⊢
      cases r with
      | nil =>
        simp only at hc
        have := hl hc
        subst this
        simp
      | cons c2 r2 =>
        simp only [List.cons_append] at hc ⊢
        by_cases he : isEscapable c2 = true
        · simp only [he, if_true] at hc ⊢
          have := nameRunLen_clean last n r2 t (by simp at hn; omega) hc ht hl
          simp only [this, List.length_cons]; omega
        · simp only [he, Bool.false_eq_true, if_false] at hc ⊢
          have := nameRunLen_clean last n (c2 :: r2) t (by simp at hn ⊢; omega) hc ht hl
          simp only [List.cons_append] at this
          simp only [this, List.length_cons]; omega
    · simp only [hb, if_false, Bool.and_eq_true, Bool.not_eq_true'] at hc ⊢
      simp only [hc.1, Bool.false_eq_true, if_false]
      have := nameRunLen_clean last n r t (by simp at hn; omega) hc.2 ht hl
      simp only [this, List.length_cons]; omega

/-- a clean (non-last) segment does not end in a backslash -/
theorem clean_getLast : ∀ (n : Nat) (s : Str), s.length ≤ n → cleanB false s = true → s.getLast? ≠ some '\\'
  | _, [], _, _ => by simp
  | 0, c :: r, hn, _ => by simp at hn
  | n + 1, c :: r, hn, hc => by
    rw [cleanB_cons] at hc
    by_cases hb : c = '\\'
    · subst hb
      simp only [if_true] at hc
      cases r with
      | nil => simp at hc
      | cons c2 r2 =>
        simp only at hc
        by_cases he : isEscapable c2 = true
        · simp only [he, if_true] at hc
          cases r2 with
          | nil =>
            simp only [List.getLast?_cons_cons, List.getLast?_singleton, ne_eq, Option.some.injEq]
            intro h; subst h; simp [isEscapable] at he
          | cons c3 r3 =>
            have := clean_getLast n (c3 :: r3) (by simp at hn ⊢; omega) hc
            simpa [List.getLast?_cons_cons] using this
        · simp only [he, Bool.false_eq_true, if_false] at hc
          have := clean_getLast n (c2 :: r2) (by simp at hn ⊢; omega) hc
          simpa [List.getLast?_cons_cons] using this
    · simp only [hb, if_false, Bool.and_eq_true] at hc
      cases r with
      | nil => simpa using hb
      | cons c2 r2 =>
        have := clean_getLast n (c2 :: r2) (by simp at hn ⊢; omega) hc.2
        simpa [List.getLast?_cons_cons] using this

/-! ### `findall` on `/seg/seg/...` -/

def slashJoin (segs : List Str) : Str := segs.flatMap (fun s => '/' :: s)

theorem slashJoin_slashOrEnd (segs : List Str) : SlashOrEnd (slashJoin segs) := by
  cases segs with
  | nil => left; rfl
  | cons s r => right; exact ⟨s ++ slashJoin r, Or.inl (by simp [slashJoin])⟩

/-- all segments non-empty and clean; only the last may end in a lone backslash -/
def SegsOK : List Str → Prop
  | [] => True
  | [s] => s ≠ [] ∧ cleanB true s = true
  | s :: r => s ≠ [] ∧ cleanB false s = true ∧ SegsOK r

theorem scan_cons (prev : Option Char) (c : Char) (r : Str) :
    scan prev (c :: r) =
      (scanStep prev c r).1.toList
        ++ scan (some ((c :: r).getD (scanStep prev c r).2 c)) (r.drop (scanStep prev c r).2) := by
  rw [scan]
  cases (scanStep prev c r).1 <;> rfl

theorem scanStep_slash (prev : Option Char) (r : Str) (hp : prev ≠ some '\\') :
    scanStep prev '/' r = (some (['/'], []), 0) := by
  unfold scanStep
  have h0 : nameRunLen ('/' :: r) = 0 := by rw [nameRunLen_cons]; simp
  simp only [h0, ne_eq, not_true_eq_false, if_false, beq_self_eq_true, if_true]
  have : (prev == some '\\') = false := by
    cases prev with
    | none => rfl
    | some p =>
      simp only [ne_eq, Option.some.injEq] at hp
      simp [hp]
  simp [this]

/-- one name segment followed by `/...` or the end is one token -/
theorem scanStep_seg (last : Bool) (prev : Option Char) (c : Char) (r t : Str)
    (hc : cleanB last (c :: r) = true) (ht : SlashOrEnd t) (hl : last = true → t = []) :
    scanStep prev c (r ++ t) = (some (c :: r, []), r.length) := by
  have hn := nameRunLen_clean last (c :: r).length (c :: r) t (Nat.le_refl _) hc ht hl
  simp only [List.cons_append, List.length_cons] at hn
  unfold scanStep
  simp only [hn, ne_eq, Nat.add_one_ne_zero, not_false_eq_true, if_true, Nat.add_sub_cancel]
  congr 2
  rw [show r.length + 1 = (c :: r).length from rfl, ← List.cons_append, List.take_left']
  rfl

theorem getD_last (t : Str) : ∀ (r : Str) (c x : Char),
    (c :: (r ++ t)).getD r.length x = ((c :: r).getLast?).getD x
  | [], c, x => by simp
  | d :: r, c, x => by
    simp only [List.cons_append, List.length_cons, List.getD_cons_succ, List.getLast?_cons_cons]
    exact getD_last t r d x

theorem scan_segs : ∀ (segs : List Str) (prev : Option Char), SegsOK segs → prev ≠ some '\\' →
    scan prev (slashJoin segs) = segs.flatMap (fun s => [(['/'], []), (s, [])])
  | [], prev, _, _ => by simp [slashJoin, scan]
  | [s], prev, hok, hp => by
    obtain ⟨hne, hc⟩ := hok
    cases s with
    | nil => exact absurd rfl hne
    | cons c r =>
      simp only [slashJoin, List.flatMap_cons, List.flatMap_nil, List.append_nil]
      rw [scan_cons, scanStep_slash prev _ hp]
      simp only [List.drop_zero]
      rw [scan_cons]
      have := scanStep_seg true (some (('/' :: c :: r).getD 0 '/')) c r [] hc (Or.inl rfl) (fun _ => rfl)
      simp only [List.append_nil] at this
      rw [this]
      simp [scan]
  | s :: s2 :: rest, prev, hok, hp => by
    obtain ⟨hne, hc, hrest⟩ := hok
    cases s with
    | nil => exact absurd rfl hne
    | cons c r =>
      have hj : slashJoin ((c :: r) :: s2 :: rest) = '/' :: (c :: (r ++ slashJoin (s2 :: rest))) := by
        simp [slashJoin]
      rw [hj, scan_cons, scanStep_slash prev _ hp]
      simp only [List.drop_zero]
      rw [scan_cons]
      have hso := slashJoin_slashOrEnd (s2 :: rest)
      have := scanStep_seg false (some (('/' :: c :: (r ++ slashJoin (s2 :: rest))).getD 0 '/')) c r _ hc hso
        (fun h => by cases h)
      rw [this]
      simp only [List.drop_left']
      have hprev : (some ((c :: (r ++ slashJoin (s2 :: rest))).getD r.length c)) ≠ some '\\' := by
        rw [getD_last]
        have hl := clean_getLast _ (c :: r) (Nat.le_refl _) hc
        cases hg : (c :: r).getLast? with
        | none => simp at hg
        | some x =>
          rw [hg] at hl
          simpa using hl
      rw [scan_segs (s2 :: rest) _ hrest hprev]
      simp

/-! ### the token loop on those tokens -/

/-- a segment that the token loop turns into a plain NAME -/
def PlainSeg (s : Str) : Prop :=
  s ≠ ['/'] ∧ s ≠ ['.'] ∧ s ≠ ['.', '.'] ∧ s.head? ≠ some '['

theorem tokStep_slash_first (st : TState) (h : st.last = none) :
    tokStep st (['/'], []) = .ok { st with toks := .top :: st.toks, last := some ['/'] } := by
  simp [tokStep, h]

theorem tokStep_slash_after (st : TState) (l : Str) (h : st.last = some l) (hl : l ≠ ['/']) :
    tokStep st (['/'], []) = .ok { st with last := some ['/'] } := by
  simp [tokStep, h, hl]

theorem tokStep_seg (st : TState) (s : Str) (hs : PlainSeg s) :
    tokStep st (s, []) = .ok { st with toks := .name (some (unescape s)) :: st.toks, last := some s } := by
  obtain ⟨h1, h2, h3, h4⟩ := hs
  unfold tokStep
  simp only [h1, h2, h3, beq_iff_eq, if_false, List.isEmpty_nil, Bool.not_true, Bool.false_eq_true]
  have : (s.head? == some '[') = false := by
    cases hh : s.head? with
    | none => rfl
    | some x =>
      rw [hh] at h4
      simp only [ne_eq, Option.some.injEq] at h4
      simp [h4]
  simp [this]

def lastSeg (segs : List Str) (l : Str) : Str := (segs.getLast?).getD l

theorem tokLoop_segs_aux : ∀ (segs : List Str) (st : TState) (l : Str),
    st.last = some l → l ≠ ['/'] → (∀ s ∈ segs, PlainSeg s) →
    tokLoop st (segs.flatMap (fun s => [(['/'], []), (s, [])])) =
      .ok { toks := (segs.map (fun s => Op.name (some (unescape s)))).reverse ++ st.toks,
            last := some (lastSeg segs l), canonical := st.canonical }
  | [], st, l, hl, _, _ => by
    rcases st with ⟨toks, last, canonical⟩
    simp only at hl
    subst hl
    simp [tokLoop, lastSeg]
  | s :: rest, st, l, hl, hne, hs => by
    have hps := hs s (by simp)
    simp only [List.flatMap_cons, List.cons_append, List.nil_append, tokLoop]
    rw [tokStep_slash_after st l hl hne]
    simp only
    rw [tokStep_seg _ s hps]
    simp only
    rw [tokLoop_segs_aux rest _ s rfl hps.1 (fun x hx => hs x (by simp [hx]))]
    simp only [List.map_cons, List.reverse_cons, List.append_assoc, List.singleton_append]
    congr 2
    cases rest with
    | nil => simp [lastSeg]
    | cons a b =>
      have : (a :: b).getLast? = some ((a :: b).getLast (by simp)) := List.getLast?_eq_some_getLast (by simp)
      simp [lastSeg, List.getLast?_cons_cons, this]

/-- the token loop on `/seg/seg/...` from the initial state -/
theorem tokLoop_segs (s : Str) (rest : List Str) (hs : ∀ x ∈ s :: rest, PlainSeg x) :
    tokLoop {} ((s :: rest).flatMap (fun s => [(['/'], []), (s, [])])) =
      .ok { toks := ((s :: rest).map (fun s => Op.name (some (unescape s)))).reverse ++ [Op.top],
            last := some (lastSeg rest s), canonical := true } := by
  have hps := hs s (by simp)
  simp only [List.flatMap_cons, List.cons_append, List.nil_append, tokLoop]
  rw [tokStep_slash_first _ rfl]
  simp only
  rw [tokStep_seg _ s hps]
  simp only
  rw [tokLoop_segs_aux rest _ s rfl hps.1 (fun x hx => hs x (by simp [hx]))]
  simp

/-- **`tokenize("/seg/seg/...") = [TOP, NAME seg, NAME seg, ...]`** for clean plain segments -/
theorem tokenize_segs (s : Str) (rest : List Str) (hok : SegsOK (s :: rest))
    (hp : ∀ x ∈ s :: rest, PlainSeg x) :
    tokenize (slashJoin (s :: rest))
      = .ok (Op.top :: (s :: rest).map (fun s => Op.name (some (unescape s)))) := by
  unfold tokenize
  rw [scan_segs (s :: rest) none hok (by simp), tokLoop_segs s rest hp]
  simp

/-- the same for a relative path `seg/seg/...` -/
theorem scan_rel (s : Str) (rest : List Str) (hok : SegsOK (s :: rest)) :
    scan none (s ++ slashJoin rest) = (s, []) :: rest.flatMap (fun s => [(['/'], []), (s, [])]) := by
  cases rest with
  | nil =>
    obtain ⟨hne, hc⟩ := hok
    cases s with
    | nil => exact absurd rfl hne
    | cons c r =>
      simp only [slashJoin, List.flatMap_nil, List.append_nil]
      rw [scan_cons]
      have := scanStep_seg true none c r [] hc (Or.inl rfl) (fun _ => rfl)
      simp only [List.append_nil] at this
      rw [this]
      simp [scan]
  | cons s2 r2 =>
    obtain ⟨hne, hc, hrest⟩ := hok
    cases s with
    | nil => exact absurd rfl hne
    | cons c r =>
      rw [List.cons_append, scan_cons]
      have hso := slashJoin_slashOrEnd (s2 :: r2)
      have := scanStep_seg false none c r _ hc hso (fun h => by cases h)
      rw [this]
      simp only [List.drop_left']
      have hprev : (some ((c :: (r ++ slashJoin (s2 :: r2))).getD r.length c)) ≠ some '\\' := by
        rw [getD_last]
        have hl := clean_getLast _ (c :: r) (Nat.le_refl _) hc
        cases hg : (c :: r).getLast? with
        | none => simp at hg
        | some x =>
          rw [hg] at hl
          simpa using hl
      rw [scan_segs (s2 :: r2) _ hrest hprev]
      simp

theorem tokenize_rel_segs (s : Str) (rest : List Str) (hok : SegsOK (s :: rest))
    (hp : ∀ x ∈ s :: rest, PlainSeg x) :
    tokenize (s ++ slashJoin rest) = .ok ((s :: rest).map (fun s => Op.name (some (unescape s)))) := by
  unfold tokenize
  rw [scan_rel s rest hok]
  have hps := hp s (by simp)
  simp only [tokLoop]
  rw [tokStep_seg _ s hps]
  simp only
  rw [tokLoop_segs_aux rest _ s rfl hps.1 (fun x hx => hp x (by simp [hx]))]
  simp

theorem tokenize_root : tokenize ['/'] = .ok [.top] := by
  unfold tokenize
  have hs : scan none ['/'] = [(['/'], [])] := by
    rw [scan_cons, scanStep_slash none [] (by simp)]
    simp [scan]
  rw [hs]
  simp [tokLoop, tokStep_slash_first]

theorem tokenize_empty : tokenize [] = .ok [] := by
  simp [tokenize, scan, tokLoop]

end Flatland.Path.Lemmas
