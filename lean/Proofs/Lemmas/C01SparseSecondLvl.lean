/-
C01, second round trip with SparseDicts — (a) on a stable state `prS` is invisible level by level.
-/
import Proofs.Lemmas.C01SparseSecondStable
import Proofs.Lemmas.C01SparseSecondOk
namespace Flatland.Flat.Proofs
open Flatland.Flat Flatland.Flat.Spec

variable {env : Env} {sep : Str}

/-- the member held under a declared field's key conforms to that field -/
theorem okS_member_lookup {fields : List Schema} (hnd : (namesOf fields).Nodup)
    {ms : List (Str × Elem)} (hmem : ∀ p ∈ ms, OkSAny env fields p.1 p.2)
    {f : Schema} (hf : f ∈ fields) (hsome : f.name.isSome) {e : Elem}
    (hl : lookup (f.name.getD []) ms = some e) : OkS env f e := by
  obtain ⟨x, hx⟩ := Option.isSome_iff_exists.mp hsome
  rw [hx] at hl
  simp only [Option.getD_some] at hl
  have := hmem _ (mem_of_lookup hl)
  obtain ⟨g, hg, hgn, hgo⟩ := (OkSAny_iff env fields x e).mp this
  have h1 := findField_unique hnd hf hx
  have h2 := findField_unique hnd hg hgn
  rw [h1] at h2
  injection h2 with h2
  subst h2
  exact hgo

/-! ### a Compound's own text -/

/-- level-equal states show the same text -/
theorem uOf_of_lvlEq (s : Schema) (a b : Elem) (h : LvlEq (resolve env s a) (resolve env s b)) :
    uOf env s a = uOf env s b := by
  have h0 := h 0
  cases s with
  | leaf nm o k =>
    unfold resolve at h0
    rw [lvl_zero_mk, lvl_zero_mk] at h0
    simp only [if_true, List.cons.injEq, Prod.mk.injEq, true_and, and_true] at h0
    cases a <;> cases b <;> simp_all [uOf]
  | joined nm o k mem =>
    unfold resolve at h0
    rw [lvl_zero_mk, lvl_zero_mk] at h0
    simp only [if_true, List.cons.injEq, Prod.mk.injEq, true_and, and_true] at h0
    cases a <;> cases b <;> simp_all [uOf]
  | compound nm o k fields =>
    unfold resolve at h0
    rw [lvl_zero_mk, lvl_zero_mk] at h0
    simpa using h0
  | dict nm o mode fields => cases a <;> cases b <;> simp [uOf]
  | list nm o p mx member => cases a <;> cases b <;> simp [uOf]
  | array nm o p member => cases a <;> cases b <;> simp [uOf]

theorem usOf_congr (env : Env) : ∀ (fs : List Schema) (ms ms' : List (Str × Elem)),
    (∀ f ∈ fs, ∃ e e', lookup (f.name.getD []) ms = some e ∧ lookup (f.name.getD []) ms' = some e' ∧
      uOf env f e = uOf env f e') → usOf env fs ms = usOf env fs ms'
  | [], _, _, _ => by simp [usOf]
  | f :: fs, ms, ms', h => by
    obtain ⟨e, e', h1, h2, h3⟩ := h f (by simp)
    simp only [usOf, h1, h2, h3,
      usOf_congr env fs ms ms' (fun g hg => h g (List.mem_cons_of_mem _ hg))]

theorem pickKeys_all (keys : List (Str × Str)) : ∀ fs : List Schema,
    pickKeys (fun _ => true) keys true fs = fs.map (fun f => f.name.getD []) ∧
    pickKeys (fun _ => true) keys false fs = []
  | [] => ⟨rfl, rfl⟩
  | f :: fs => by
    have ih := pickKeys_all keys fs
    simp [pickKeys, ih.1, ih.2]

theorem mem_pick_of_req (req : Schema → Bool) (keys : List (Str × Str)) (V : Schema → Elem) :
    ∀ (fs : List Schema) (f : Schema), f ∈ fs → req f = true →
      (f.name.getD [], if touched keys f then V f else blank f) ∈ pickV req keys V true fs
  | [], f, hf, _ => by simp at hf
  | g :: gs, f, hf, hr => by
    rcases List.mem_cons.mp hf with rfl | hf
    · simp [pickV, hr]
    · have ih := mem_pick_of_req req keys V gs f hf hr
      simp only [pickV, if_true]
      split
      · exact List.mem_cons_of_mem _ ih
      · exact ih

/-- the member a rebuilt mapping holds under a minimum field -/
theorem lookup_pick_req (fields : List Schema) (hnd : (namesOf fields).Nodup)
    (hsome : ∀ g ∈ fields, g.name.isSome) (req : Schema → Bool) (keys : List (Str × Str))
    (V : Schema → Elem) (f : Schema) (hf : f ∈ fields) (hr : req f = true) :
    lookup (f.name.getD []) (pickV req keys V true fields ++ pickV req keys V false fields)
      = some (if touched keys f then V f else blank f) :=
  lookup_of_mem_nodup (pick_keys_nodup fields hnd hsome req keys V)
    (List.mem_append_left _ (mem_pick_of_req req keys V fields f hf hr))

/-- the key list of a full Compound state: every field has its member -/
theorem lookup_of_keys_full {fields : List Schema} {ms : List (Str × Elem)}
    (hkeys : (ms.map (·.1)).Nodup)
    (hfull : ∀ f ∈ fields, f.name.getD [] ∈ ms.map (·.1)) (f : Schema) (hf : f ∈ fields) :
    ∃ e, lookup (f.name.getD []) ms = some e := by
  obtain ⟨p, hp, hk⟩ := List.mem_map.mp (hfull f hf)
  exact ⟨p.2, lookup_of_mem_nodup hkeys (by rw [← hk]; exact hp)⟩

theorem lvl_prS : ∀ s : Schema, wf s = true →
    ∀ (u : Bool) (e : Elem), OkS env s e → StableS env sep u s e →
      LvlEq (resolve env s (prS env sep u s e)) (resolve env s e) := by
  intro s
  induction s using schema_ind with
  | hleaf nm o k =>
    intro _ u e _ _
    rw [prS, pr]
    exact LvlEq.refl _
  | hjoined nm o k mem =>
    intro _ u e hok _
    cases e with
    | joined t ms =>
      simp only [prS, pr]
      split
      · rename_i h
        simp only [Bool.and_eq_true, List.isEmpty_iff] at h
        rw [resolve_joined, resolve_joined, h.2]
        exact lvlEq_nocfl _ _ _ _ _ _ _
      · rw [resolve_joined, resolve_joined]
        exact lvlEq_nocfl _ _ _ _ _ _ _
    | _ => simp [OkS, OkP] at hok
  | hdict nm o mode fields ih =>
    intro hw u e hok hst
    cases e with
    | dict ms =>
      simp only [wf, Bool.and_eq_true] at hw
      have hnd : (namesOf fields).Nodup := by simpa using hw.2
      have hsome := allSome_of fields hw.1.2
      simp only [OkS] at hok
      simp only [StableS] at hst
      simp only [prS]
      rw [prSPick_eq, prSPick_eq, resolve_dictS, resolve_dictS]
      exact lvlEq_mapping nm false [] u (isReq mode) fields hnd hsome ms hok.1 _ hst.1 hst.2
        (fun f hf e hl hs => ih f hf (wf_of_mem hw.1.1 f hf) u e
          (okS_member_lookup hnd hok.2 hf (hsome f hf) hl) hs)
    | _ => simp [OkS] at hok
  | hcompound nm o k fields ih =>
    intro hw u e hok hst
    cases e with
    | dict ms =>
      simp only [wf, Bool.and_eq_true] at hw
      have hnd : (namesOf fields).Nodup := by simpa using hw.2
      have hsome := allSome_of fields hw.1.2
      simp only [OkS] at hok
      simp only [StableS] at hst
      have hih : ∀ f ∈ fields, ∀ e, lookup (f.name.getD []) ms = some e → StableS env sep u f e →
          LvlEq (resolve env f (prS env sep u f e)) (resolve env f e) :=
        fun f hf e hl hs => ih f hf (wf_of_mem hw.1.1 f hf) u e
          (okS_member_lookup hnd hok.2 hf (hsome f hf) hl) hs
      -- a stable Compound state holds all its fields
      have hfull : ∀ f ∈ fields, f.name.getD [] ∈ ms.map (·.1) := by
        intro f hf
        have h1 := hst.1
        rw [(pickKeys_all _ fields).1, (pickKeys_all _ fields).2, List.append_nil] at h1
        have : f.name.getD [] ∈ fields.map (fun f => f.name.getD []) := List.mem_map.mpr ⟨f, hf, rfl⟩
        rw [← h1] at this
        obtain ⟨p, hp, hk⟩ := List.mem_map.mp this
        exact List.mem_map.mpr ⟨p, (List.mem_filter.mp hp).1, hk⟩
      simp only [prS]
      rw [prSPick_eq, prSPick_eq, resolve_compoundS, resolve_compoundS]
      have hu : usOf env fields
          (pickV (fun _ => true) (innerPairs env sep u fields ms) (valS env sep u ms) true fields
            ++ pickV (fun _ => true) (innerPairs env sep u fields ms) (valS env sep u ms) false fields)
          = usOf env fields ms := by
        apply usOf_congr
        intro f hf
        obtain ⟨e, hl⟩ := lookup_of_keys_full hok.1 hfull f hf
        refine ⟨_, e, lookup_pick_req fields hnd hsome _ _ _ f hf rfl, hl, ?_⟩
        have hst' := stableSFields_get hst.2 f hf e hl
        cases ht : touched (innerPairs env sep u fields ms) f with
        | true =>
          simp only [if_true, valS, hl]
          exact uOf_of_lvlEq f _ _ (hih f hf e hl (hst'.1 ht))
        | false =>
          simp only [Bool.false_eq_true, if_false]
          have := hst'.2 ht
          simp only [if_true] at this
          exact (uOf_of_lvlEq f _ _ this).symm
      rw [hu]
      exact lvlEq_mapping nm true _ u (fun _ => true) fields hnd hsome ms hok.1 _ hst.1 hst.2 hih
    | _ => simp [OkS] at hok
  | hlist nm o p mx member ih =>
    intro hw u e hok hst
    simp only [wf] at hw
    have ih := ih hw
    cases e with
    | list ms =>
      simp only [OkS] at hok
      obtain ⟨_, _, hmem⟩ := hok
      simp only [StableS] at hst
      simp only [prS]
      split
      · rename_i hp
        have hall := hst.1 hp
        have hf : ms.filter (emitsB env true member) = ms :=
          List.filter_eq_self.mpr (fun m hm => (hall m hm).1)
        rw [hf, resolve_list, resolve_list, List.map_map]
        apply lvlEq_mk_kids
        apply lvlEqL_map
        intro m hm
        exact ih true m (hmem m hm) (hall m hm).2
      · rename_i hp
        have hp' : p = false := by simpa using hp
        obtain ⟨hmems, hlast⟩ := hst.2 hp'
        obtain ⟨tl, hsplit, htl⟩ := dropTrailing_split (emitsB env u member) ms
        have htlE : ∀ k ∈ tl.map (resolve env member), LvlEmpty k := by
          intro k hk
          obtain ⟨m, hm, rfl⟩ := List.mem_map.mp hk
          cases u with
          | false => exact lvlEmpty_of_emitsB_false (htl m hm)
          | true =>
            have := dropTrailing_eq_self_split _ _ _ (hlast rfl) hsplit
            subst this; simp at hm
        rw [resolve_list, resolve_list, List.map_map]
        generalize dropTrailing (emitsB env u member) ms = D at hsplit ⊢
        subst hsplit
        rw [List.map_append]
        apply lvlEq_mk_drop _ _ _ _ _ _ _ _ _ htlE
        apply lvlEqL_map
        intro m hm
        have hm' : m ∈ D ++ tl := List.mem_append_left _ hm
        show LvlEq (resolve env member (if emitsB env u member m = true then prS env sep u member m
          else blank member)) (resolve env member m)
        cases hem : emitsB env u member m with
        | true =>
          simp only [if_true]
          exact ih u m (hmem m hm') ((hmems m hm').1 hem)
        | false =>
          simp only [Bool.false_eq_true, if_false]
          exact ((hmems m hm').2 hem).symm
    | _ => simp [OkS] at hok
  | harray nm o p member ih =>
    intro _ u e hok hst
    cases e with
    | array ms =>
      simp only [StableS] at hst
      simp only [prS, pr]
      rw [List.filter_eq_self.mpr hst]
      exact LvlEq.refl _
    | _ => simp [OkS, OkP] at hok

/-- on a stable state `prS` does not change the flattened output -/
theorem flatten_prS_of_stable (env : Env) (sep sep' : Str) (s : Schema) (u : Bool) (e : Elem)
    (hw : wf s = true) (hok : OkS env s e)
    (hst : StableS env sep u s e) :
    flatten env sep' s (prS env sep u s e) = flatten env sep' s e := by
  rw [flatten_eq_relFlat, flatten_eq_relFlat, relFlat_of_lvlEq (lvl_prS s hw u e hok hst)]

end Flatland.Flat.Proofs
