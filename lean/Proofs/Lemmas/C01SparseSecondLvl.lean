/-
C01, second round trip with SparseDicts — (a) on a stable state `prS` is invisible level by level.
-/
import Proofs.Lemmas.C01SparseSecondStable
namespace Flatland.Flat.Proofs
open Flatland.Flat Flatland.Flat.Spec

variable {env : Env} {sep : Str}

/-- the member held under a declared field's key conforms to that field -/
theorem okS_member_lookup {fields : List Schema} (hnd : (namesOf fields).Nodup)
    {ms : List (Str × Elem)} (hmem : ∀ p ∈ ms, OkSAny env fields p.1 p.2)
    {f : Schema} (hf : f ∈ fields) (hsome : f.name.isSome) {e : Elem}
    (hl : lookup (f.name.getD []) ms = some e) : OkS env f e := by
  obtain ⟨x, hx⟩ := Option.isSome_iff_exists.mp hsome
  rw [hx] at hl
  simp only [Option.getD_some] at hl
  have := hmem _ (mem_of_lookup hl)
  obtain ⟨g, hg, hgn, hgo⟩ := (OkSAny_iff env fields x e).mp this
  have h1 := findField_unique hnd hf hx
  have h2 := findField_unique hnd hg hgn
  rw [h1] at h2
  injection h2 with h2
  subst h2
  exact hgo

theorem lvl_prS : ∀ s : Schema, wf s = true → compoundFree s = true →
    ∀ (u : Bool) (e : Elem), OkS env s e → StableS env sep u s e →
      LvlEq (resolve env s (prS env sep u s e)) (resolve env s e) := by
  intro s
  induction s using schema_ind with
  | hleaf nm o k =>
    intro _ _ u e _ _
    rw [prS, pr]
    exact LvlEq.refl _
  | hjoined nm o k mem =>
    intro _ _ u e hok _
    cases e with
    | joined t ms =>
      simp only [prS, pr]
      split
      · rename_i h
        simp only [Bool.and_eq_true, List.isEmpty_iff] at h
        rw [resolve_joined, resolve_joined, h.2]
        exact lvlEq_nocfl _ _ _ _ _ _ _
      · rw [resolve_joined, resolve_joined]
        exact lvlEq_nocfl _ _ _ _ _ _ _
    | _ => simp [OkS, OkP] at hok
  | hdict nm o mode fields ih =>
    intro hw hcf u e hok hst
    cases e with
    | dict ms =>
      simp only [wf, Bool.and_eq_true] at hw
      have hnd : (namesOf fields).Nodup := by simpa using hw.2
      have hsome := allSome_of fields hw.1.2
      simp only [compoundFree] at hcf
      simp only [OkS] at hok
      simp only [StableS] at hst
      simp only [prS]
      rw [prSPick_eq, prSPick_eq, resolve_dictS, resolve_dictS]
      exact lvlEq_mapping nm u (isReq mode) fields hnd hsome ms hok.1 _ hst.1 hst.2
        (fun f hf e hl hs => ih f hf (wf_of_mem hw.1.1 f hf) (compoundFree_of_mem hcf f hf) u e
          (okS_member_lookup hnd hok.2 hf (hsome f hf) hl) hs)
    | _ => simp [OkS] at hok
  | hcompound nm o k fields ih =>
    intro _ hcf
    simp [compoundFree] at hcf
  | hlist nm o p mx member ih =>
    intro hw hcf u e hok hst
    simp only [wf] at hw
    simp only [compoundFree] at hcf
    have ih := ih hw hcf
    cases e with
    | list ms =>
      simp only [OkS] at hok
      obtain ⟨_, _, hmem⟩ := hok
      simp only [StableS] at hst
      simp only [prS]
      split
      · rename_i hp
        have hall := hst.1 hp
        have hf : ms.filter (emitsB env true member) = ms :=
          List.filter_eq_self.mpr (fun m hm => (hall m hm).1)
        rw [hf, resolve_list, resolve_list, List.map_map]
        apply lvlEq_mk_kids
        apply lvlEqL_map
        intro m hm
        exact ih true m (hmem m hm) (hall m hm).2
      · rename_i hp
        have hp' : p = false := by simpa using hp
        obtain ⟨hmems, hlast⟩ := hst.2 hp'
        obtain ⟨tl, hsplit, htl⟩ := dropTrailing_split (emitsB env u member) ms
        have htlE : ∀ k ∈ tl.map (resolve env member), LvlEmpty k := by
          intro k hk
          obtain ⟨m, hm, rfl⟩ := List.mem_map.mp hk
          cases u with
          | false => exact lvlEmpty_of_emitsB_false (htl m hm)
          | true =>
            have := dropTrailing_eq_self_split _ _ _ (hlast rfl) hsplit
            subst this; simp at hm
        rw [resolve_list, resolve_list, List.map_map]
        generalize dropTrailing (emitsB env u member) ms = D at hsplit ⊢
        subst hsplit
        rw [List.map_append]
        apply lvlEq_mk_drop _ _ _ _ _ _ _ _ _ htlE
        apply lvlEqL_map
        intro m hm
        have hm' : m ∈ D ++ tl := List.mem_append_left _ hm
        show LvlEq (resolve env member (if emitsB env u member m = true then prS env sep u member m
          else blank member)) (resolve env member m)
        cases hem : emitsB env u member m with
        | true =>
          simp only [if_true]
          exact ih u m (hmem m hm') ((hmems m hm').1 hem)
        | false =>
          simp only [Bool.false_eq_true, if_false]
          exact ((hmems m hm').2 hem).symm
    | _ => simp [OkS] at hok
  | harray nm o p member ih =>
    intro _ _ u e hok hst
    cases e with
    | array ms =>
      simp only [StableS] at hst
      simp only [prS, pr]
      rw [List.filter_eq_self.mpr hst]
      exact LvlEq.refl _
    | _ => simp [OkS, OkP] at hok

/-- on a stable state `prS` does not change the flattened output -/
theorem flatten_prS_of_stable (env : Env) (sep sep' : Str) (s : Schema) (u : Bool) (e : Elem)
    (hw : wf s = true) (hcf : compoundFree s = true) (hok : OkS env s e)
    (hst : StableS env sep u s e) :
    flatten env sep' s (prS env sep u s e) = flatten env sep' s e := by
  rw [flatten_eq_relFlat, flatten_eq_relFlat, relFlat_of_lvlEq (lvl_prS s hw hcf u e hok hst)]

end Flatland.Flat.Proofs
