/-
`int(str(i)) == i` for the model's `pyInt` / `natStr`, and shape facts about `natStr`.
-/
import Flatland.Path
namespace Flatland.Path.Lemmas
open Flatland.Path Flatland.Generated.C14

def isAsciiDigit (c : Char) : Bool := 48 ≤ c.toNat && c.toNat ≤ 57

theorem digitChar_toNat (d : Nat) (h : d < 10) : (Char.ofNat (48 + d)).toNat = 48 + d := by
  have : d = 0 ∨ d = 1 ∨ d = 2 ∨ d = 3 ∨ d = 4 ∨ d = 5 ∨ d = 6 ∨ d = 7 ∨ d = 8 ∨ d = 9 := by omega
  rcases this with h | h | h | h | h | h | h | h | h | h <;> subst h <;> decide

theorem digitChar_ascii (d : Nat) (h : d < 10) : isAsciiDigit (Char.ofNat (48 + d)) = true := by
  simp only [isAsciiDigit, digitChar_toNat d h, Bool.and_eq_true, decide_eq_true_eq]
  omega

theorem digitVal_digitChar (d : Nat) (h : d < 10) : digitVal (Char.ofNat (48 + d)) = some d := by
  unfold digitVal
  simp only [digitChar_toNat d h]
  have : 48 ≤ 48 + d ∧ 48 + d ≤ 57 := by omega
  simp only [this, and_self, if_true]
  congr 1; omega

theorem natStr_all_digits (n : Nat) : ∀ c ∈ natStr n, isAsciiDigit c = true := by
  induction n using Nat.strongRecOn with
  | _ n ih =>
    rw [natStr]
    split
    · intro c hc
      simp only [List.mem_singleton] at hc
      subst hc
      exact digitChar_ascii n (by omega)
    · intro c hc
      rw [List.mem_append] at hc
      rcases hc with hc | hc
      · exact ih (n / 10) (by omega) c hc
      · simp only [List.mem_singleton] at hc
        subst hc
        exact digitChar_ascii (n % 10) (by omega)

theorem natStr_ne_nil (n : Nat) : natStr n ≠ [] := by
  rw [natStr]
  split <;> simp

/-- digit values of an all-ASCII-digit string -/
def digitVals (s : Str) : List Nat := s.map (fun c => c.toNat - 48)

theorem digitVal_ascii (c : Char) (h : isAsciiDigit c = true) : digitVal c = some (c.toNat - 48) := by
  unfold digitVal
  simp only [isAsciiDigit, Bool.and_eq_true, decide_eq_true_eq] at h
  simp only [h, and_self, if_true]

theorem ascii_ne_underscore (c : Char) (h : isAsciiDigit c = true) : c ≠ '_' := by
  intro hc; subst hc; simp [isAsciiDigit] at h

theorem parseDigits_ascii : ∀ (s : Str), s ≠ [] → (∀ c ∈ s, isAsciiDigit c = true) →
    parseDigits s = some (digitVals s)
  | [], h, _ => absurd rfl h
  | [c], _, hall => by
    have hc := hall c (by simp)
    simp [parseDigits, digitVal_ascii c hc, digitVals]
  | c :: c' :: r, _, hall => by
    have hc := hall c (by simp)
    have hc' := hall c' (by simp)
    have hne := ascii_ne_underscore c' hc'
    have ih := parseDigits_ascii (c' :: r) (by simp) (fun x hx => hall x (by simp [hx]))
    rw [parseDigits]
    simp only [digitVal_ascii c hc]
    rw [ih]
    simp [digitVals]

theorem digitsValue_append (a : List Nat) (d : Nat) : digitsValue (a ++ [d]) = digitsValue a * 10 + d := by
  simp [digitsValue, List.foldl_append]

theorem digitsValue_natStr (n : Nat) : digitsValue (digitVals (natStr n)) = n := by
  induction n using Nat.strongRecOn with
  | _ n ih =>
    rw [natStr]
    split
    · rename_i h
      simp only [digitVals, List.map_cons, List.map_nil, digitChar_toNat n h, digitsValue, List.foldl_cons,
        List.foldl_nil]
      omega
    · rename_i h
      have hm : n % 10 < 10 := by omega
      simp only [digitVals, List.map_append, List.map_cons, List.map_nil, digitChar_toNat _ hm]
      have := ih (n / 10) (by omega)
      simp only [digitVals] at this
      rw [digitsValue_append, this]
      omega

theorem ascii_not_space (c : Char) (h : isAsciiDigit c = true) : isIntSpace c = false := by
  simp only [isAsciiDigit, Bool.and_eq_true, decide_eq_true_eq] at h
  unfold isIntSpace
  have hmem : ∀ x ∈ intSpaces, x < 48 ∨ 57 < x := by decide
  cases hc : intSpaces.contains c.toNat with
  | false => rfl
  | true =>
    rw [List.contains_iff_mem] at hc
    have := hmem _ hc
    omega

theorem dropWhile_head_false {α : Type} (p : α → Bool) : ∀ (s : List α), (∀ h : s ≠ [], p (s.head h) = false) →
    s.dropWhile p = s
  | [], _ => rfl
  | c :: r, h => by
    have := h (by simp)
    simp only [List.head_cons] at this
    simp [List.dropWhile, this]

theorem stripSpaces_digits (s : Str) (hne : s ≠ []) (hall : ∀ c ∈ s, isAsciiDigit c = true) :
    stripSpaces s = s := by
  unfold stripSpaces
  rw [dropWhile_head_false isIntSpace s (fun h => ascii_not_space _ (hall _ (List.head_mem h)))]
  rw [dropWhile_head_false isIntSpace s.reverse (fun h => ascii_not_space _ (hall _ (by
    have := List.head_mem h
    simpa using this)))]
  simp

theorem splitSign_digit : ∀ (s : Str), s ≠ [] → (∀ c ∈ s, isAsciiDigit c = true) → splitSign s = (false, s)
  | [], h, _ => absurd rfl h
  | c :: r, _, hall => by
    have hc := hall c (by simp)
    unfold splitSign
    split
    · rename_i heq
      simp only [List.cons.injEq] at heq
      obtain ⟨h1, _⟩ := heq; subst h1; simp [isAsciiDigit] at hc
    · rename_i heq
      simp only [List.cons.injEq] at heq
      obtain ⟨h1, _⟩ := heq; subst h1; simp [isAsciiDigit] at hc
    · rfl

theorem pyInt_digits (s : Str) (hne : s ≠ []) (hall : ∀ c ∈ s, isAsciiDigit c = true)
    (hlen : s.length ≤ intMaxDigits ∨ intMaxDigits = 0) :
    pyInt s = some (Int.ofNat (digitsValue (digitVals s))) := by
  have hl : (digitVals s).length = s.length := by simp [digitVals]
  have hlim : ¬ (intMaxDigits ≠ 0 ∧ (digitVals s).length > intMaxDigits) := by
    rw [hl]; omega
  unfold pyInt
  simp only [stripSpaces_digits _ hne hall, splitSign_digit _ hne hall, parseDigits_ascii _ hne hall, hlim,
    if_false, Bool.false_eq_true]

/-- `int(str(i)) == i`, as long as `str(i)` stays within the interpreter's digit limit -/
theorem pyInt_natStr (n : Nat) (hlen : (natStr n).length ≤ intMaxDigits ∨ intMaxDigits = 0) :
    pyInt (natStr n) = some (n : Int) := by
  rw [pyInt_digits _ (natStr_ne_nil n) (natStr_all_digits n) hlen, digitsValue_natStr]
  rfl

theorem pyListIndex_nat (n i : Nat) (h : i < n) : pyListIndex n (i : Int) = some i := by
  unfold pyListIndex
  have h1 : ¬ ((i : Int) < 0) := by omega
  simp only [h1, if_false]
  have h2 : (0 ≤ (i : Int) ∧ (i : Int) < (n : Int)) := by omega
  simp only [h2, and_self, if_true, Int.toNat_natCast]

end Flatland.Path.Lemmas
