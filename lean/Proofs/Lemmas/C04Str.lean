/- strip / digit lemmas for the scalar model (C04, reused by C18) -/
import Flatland.Scalar
namespace Flatland.Scalar
open Flatland.Scalar

/-! ### dropWhile / strip -/

theorem dropWhile_eq_self_of_head {α} (p : α → Bool) : ∀ (l : List α),
    (∀ a, l.head? = some a → p a = false) → l.dropWhile p = l
  | [], _ => rfl
  | a :: t, h => by simp [List.dropWhile, h a rfl]

theorem head_dropWhile {α} (p : α → Bool) : ∀ (l : List α) (a : α),
    (l.dropWhile p).head? = some a → p a = false
  | [], a, h => by simp at h
  | b :: t, a, h => by
    simp only [List.dropWhile] at h
    cases hb : p b with
    | true => rw [hb] at h; exact head_dropWhile p t a h
    | false => rw [hb] at h; simp at h; rw [← h]; exact hb

theorem dropWhile_suffix_getLast {α} (p : α → Bool) : ∀ (l : List α),
    l.dropWhile p ≠ [] → (l.dropWhile p).getLast? = l.getLast?
  | [], h => by simp at h
  | b :: t, h => by
    simp only [List.dropWhile] at h ⊢
    cases hb : p b with
    | false => simp
    | true =>
      rw [hb] at h
      simp only at h ⊢
      rw [dropWhile_suffix_getLast p t h]
      cases t with
      | nil => simp at h
      | cons c t' => simp [List.getLast?_cons_cons]

theorem lstrip_idem (T : Tables) (s : Str) : lstrip T (lstrip T s) = lstrip T s := by
  unfold lstrip
  apply dropWhile_eq_self_of_head
  intro a h
  exact head_dropWhile _ _ _ h

/-- a text whose first and last characters are not whitespace is unchanged by `strip` -/
theorem strip_of_ends (T : Tables) (s : Str)
    (hh : ∀ a, s.head? = some a → isWs T a = false)
    (hl : ∀ a, s.getLast? = some a → isWs T a = false) : strip T s = s := by
  unfold strip rstrip lstrip
  rw [dropWhile_eq_self_of_head _ s hh]
  rw [dropWhile_eq_self_of_head _ s.reverse (by
    intro a h
    apply hl
    simpa [List.head?_reverse] using h)]
  simp

theorem strip_head (T : Tables) (s : Str) (a : Char) (h : (strip T s).head? = some a) :
    isWs T a = false := by
  unfold strip rstrip at h
  rw [List.head?_reverse] at h
  have hne : (lstrip T s).reverse.dropWhile (isWs T) ≠ [] := by
    intro h0; rw [h0] at h; simp at h
  rw [dropWhile_suffix_getLast _ _ hne, List.getLast?_reverse] at h
  exact head_dropWhile _ _ _ h

theorem strip_last (T : Tables) (s : Str) (a : Char) (h : (strip T s).getLast? = some a) :
    isWs T a = false := by
  unfold strip rstrip at h
  rw [List.getLast?_reverse] at h
  exact head_dropWhile _ _ _ h

/-- `str.strip()` is idempotent -/
theorem strip_idem (T : Tables) (s : Str) : strip T (strip T s) = strip T s :=
  strip_of_ends T _ (strip_head T s) (strip_last T s)

theorem strip_of_all (T : Tables) (s : Str) (h : ∀ c ∈ s, isWs T c = false) : strip T s = s :=
  strip_of_ends T s (fun a ha => h a (List.mem_of_mem_head? ha))
    (fun a ha => h a (List.mem_of_getLast? ha))

theorem strip_nil (T : Tables) : strip T [] = [] := rfl

/-! ### decimal digits -/

theorem foldl_digits (b : List Nat) (acc : Nat) :
    b.foldl (fun acc d => acc * 10 + d) acc = acc * 10 ^ b.length + b.foldl (fun acc d => acc * 10 + d) 0 := by
  induction b generalizing acc with
  | nil => simp
  | cons d t ih =>
    simp only [List.foldl_cons, List.length_cons]
    rw [ih (acc * 10 + d), ih (0 * 10 + d), Nat.pow_succ]
    simp [Nat.add_mul, Nat.mul_assoc, Nat.add_assoc, Nat.mul_comm 10]

theorem digitsVal_append (a b : List Nat) :
    digitsVal (a ++ b) = digitsVal a * 10 ^ b.length + digitsVal b := by
  unfold digitsVal
  rw [List.foldl_append, foldl_digits]

theorem digitsVal_replicate_zero (n : Nat) : digitsVal (List.replicate n 0) = 0 := by
  induction n with
  | zero => rfl
  | succ n ih =>
    rw [List.replicate_succ']
    rw [digitsVal_append, ih]; simp [digitsVal]

/-- numeric value of each digit of `natDigits n` -/
def natDigitVals (n : Nat) : List Nat :=
  if n < 10 then [n] else natDigitVals (n / 10) ++ [n % 10]
termination_by n
decreasing_by omega

theorem natDigits_eq_map (n : Nat) : natDigits n = (natDigitVals n).map digitChar := by
  induction n using Nat.strongRecOn with
  | _ n ih =>
    rw [natDigits, natDigitVals]
    split
    · rfl
    · rw [ih (n / 10) (by omega)]; simp

theorem natDigitVals_lt (n : Nat) : ∀ d ∈ natDigitVals n, d < 10 := by
  induction n using Nat.strongRecOn with
  | _ n ih =>
    rw [natDigitVals]
    split
    · intro d hd; simp at hd; omega
    · intro d hd
      rcases List.mem_append.mp hd with h | h
      · exact ih (n / 10) (by omega) d h
      · simp at h; omega

theorem digitsVal_natDigitVals (n : Nat) : digitsVal (natDigitVals n) = n := by
  induction n using Nat.strongRecOn with
  | _ n ih =>
    rw [natDigitVals]
    split
    · simp [digitsVal]
    · rw [digitsVal_append, ih (n / 10) (by omega)]
      simp [digitsVal]; omega

theorem natDigitVals_ne_nil (n : Nat) : natDigitVals n ≠ [] := by
  rw [natDigitVals]; split <;> simp

theorem natDigitVals_length_le (n m : Nat) (hm : 1 ≤ m) (h : n < 10 ^ m) :
    (natDigitVals n).length ≤ m := by
  induction m generalizing n with
  | zero => omega
  | succ m ih =>
    rw [natDigitVals]
    split
    · simp
    · rename_i hn
      have hm1 : 1 ≤ m := by
        cases m with
        | zero => simp at h; omega
        | succ m' => omega
      have : n / 10 < 10 ^ m := by
        rw [Nat.pow_succ] at h
        exact Nat.div_lt_of_lt_mul (by omega)
      have := ih (n / 10) hm1 this
      simp; omega

theorem digitsVal_lt (ds : List Nat) (h : ∀ d ∈ ds, d < 10) : digitsVal ds < 10 ^ ds.length := by
  induction ds with
  | nil => simp [digitsVal]
  | cons d t ih =>
    have h1 := ih (fun x hx => h x (List.mem_cons_of_mem _ hx))
    have h2 : d < 10 := h d (by simp)
    have : digitsVal (d :: t) = d * 10 ^ t.length + digitsVal t := by
      have := digitsVal_append [d] t
      simpa [digitsVal] using this
    rw [this, List.length_cons, Nat.pow_succ]
    have h3 : d * 10 ^ t.length ≤ 9 * 10 ^ t.length := Nat.mul_le_mul_right _ (by omega)
    omega

/-! ### tables -/

/-- what the proofs need from the generated tables: ASCII digits are digits with their value and
    are not whitespace, `-` is not whitespace, the digit limit is positive -/
def Tables.OK (T : Tables) : Prop :=
  (∀ d, d < 10 → digitVal T (digitChar d) = some d) ∧
  (∀ d, d < 10 → isWs T (digitChar d) = false) ∧
  isWs T '-' = false ∧ isWs T ':' = false ∧ 4 ≤ T.maxDigits ∧ digitVal T '-' = none

instance (T : Tables) : Decidable T.OK := by unfold Tables.OK; exact inferInstance

theorem digitVal_lt (T : Tables) (c : Char) (d : Nat) (h : digitVal T c = some d) : d < 10 := by
  unfold digitVal at h
  obtain ⟨z, _, hz⟩ := List.exists_of_findSome?_eq_some h
  split at hz
  · simp at hz; omega
  · simp at hz

theorem digitChar_ne (d : Nat) (hd : d < 10) :
    digitChar d ≠ '_' ∧ digitChar d ≠ '-' ∧ digitChar d ≠ '+' := by
  have : d = 0 ∨ d = 1 ∨ d = 2 ∨ d = 3 ∨ d = 4 ∨ d = 5 ∨ d = 6 ∨ d = 7 ∨ d = 8 ∨ d = 9 := by omega
  rcases this with h | h | h | h | h | h | h | h | h | h <;> subst h <;> decide

/-- parsing a run of ASCII digits -/
theorem digitsAfter_digits (T : Tables) (hT : T.OK) (ds : List Nat) (h : ∀ d ∈ ds, d < 10) :
    digitsAfter T (ds.map digitChar) = some ds := by
  induction ds with
  | nil => rfl
  | cons d rest ih =>
    have hd : d < 10 := h d (by simp)
    have hne := digitChar_ne d hd
    simp only [List.map_cons]
    rw [digitsAfter]
    · rw [hT.1 d hd, ih (fun x hx => h x (List.mem_cons_of_mem _ hx))]; rfl
    · intro c rest' heq
      exact absurd heq hne.1

theorem parseDigitBody_digits (T : Tables) (hT : T.OK) (ds : List Nat) (hne : ds ≠ [])
    (h : ∀ d ∈ ds, d < 10) : parseDigitBody T (ds.map digitChar) = some ds := by
  cases ds with
  | nil => exact absurd rfl hne
  | cons d rest =>
    have hd : d < 10 := h d (by simp)
    simp only [List.map_cons, parseDigitBody]
    rw [hT.1 d hd, digitsAfter_digits T hT rest (fun x hx => h x (List.mem_cons_of_mem _ hx))]
    rfl

theorem digitsAfter_lt (T : Tables) (s : Str) : ∀ ds, digitsAfter T s = some ds → ∀ d ∈ ds, d < 10 := by
  fun_induction digitsAfter T s with
  | case1 => intro ds h; simp at h; subst h; simp
  | case2 c rest d hd ih =>
    intro ds h
    simp only [Option.map_eq_some_iff] at h
    obtain ⟨ds', h1, rfl⟩ := h
    intro x hx
    rcases List.mem_cons.mp hx with h | h
    · subst h; exact digitVal_lt T c _ hd
    · exact ih ds' h1 x h
  | case3 c rest hd => intro ds h; simp at h
  | case4 c rest hne d hd ih =>
    intro ds h
    simp only [Option.map_eq_some_iff] at h
    obtain ⟨ds', h1, rfl⟩ := h
    intro x hx
    rcases List.mem_cons.mp hx with h | h
    · subst h; exact digitVal_lt T c _ hd
    · exact ih ds' h1 x h
  | case5 c rest hne hd => intro ds h; simp at h

theorem parseDigitBody_lt (T : Tables) (s : Str) (ds : List Nat) (h : parseDigitBody T s = some ds) :
    ∀ d ∈ ds, d < 10 := by
  cases s with
  | nil => simp [parseDigitBody] at h
  | cons c rest =>
    simp only [parseDigitBody] at h
    cases hd : digitVal T c with
    | none => simp [hd] at h
    | some d0 =>
      simp only [hd, Option.map_eq_some_iff] at h
      obtain ⟨ds', h1, rfl⟩ := h
      intro x hx
      rcases List.mem_cons.mp hx with h | h
      · subst h; exact digitVal_lt T c _ hd
      · exact digitsAfter_lt T rest ds' h1 x h

/-- what `int(str)` returns can be printed again -/
theorem pyIntOfStr_fits (T : Tables) (s : Str) (i : Int) (h : pyIntOfStr T s = some i) :
    intFits T i = true := by
  unfold pyIntOfStr at h
  split at h
  · simp at h
  · rename_i ds hds
    split at h
    · simp at h
    · rename_i hlen
      have hlt := digitsVal_lt ds (parseDigitBody_lt T _ ds hds)
      have hpow : 10 ^ ds.length ≤ 10 ^ T.maxDigits := Nat.pow_le_pow_right (by omega) (by omega)
      simp only [Option.some.injEq] at h
      subst h
      simp only [intFits, decide_eq_true_eq]
      split <;> simp <;> omega

end Flatland.Scalar
