/-
Python's `<`, `<=`, `==` on natives (model) against the three-valued order of the specification.
-/
import Flatland.C15
import Flatland.Spec.C15
namespace Flatland.C15.Proofs
open Flatland.C16 Flatland.C15 Flatland.C15.Spec

theorem strLt_eq (x y : Str) : strLt x y = (textCmp x y == .lt) := by
  induction x generalizing y with
  | nil => cases y <;> rfl
  | cons a as ih =>
    cases y with
    | nil => rfl
    | cons b bs =>
      simp only [strLt, textCmp]
      rcases Nat.lt_trichotomy a.toNat b.toNat with h | h | h
      · simp [h, Nat.compare_eq_lt.2 h]
      · have h1 : ¬ a.toNat < b.toNat := by omega
        have h2 : ¬ b.toNat < a.toNat := by omega
        simp only [h1, h2, if_false, Nat.compare_eq_eq.2 h]
        exact ih bs
      · have h1 : ¬ a.toNat < b.toNat := by omega
        simp [h1, h, Nat.compare_eq_gt.2 h]

theorem strLt_swap (x y : Str) : strLt y x = (textCmp x y == .gt) := by
  induction x generalizing y with
  | nil => cases y <;> rfl
  | cons a as ih =>
    cases y with
    | nil => rfl
    | cons b bs =>
      simp only [strLt, textCmp]
      rcases Nat.lt_trichotomy a.toNat b.toNat with h | h | h
      · have h1 : ¬ b.toNat < a.toNat := by omega
        simp [h, h1, Nat.compare_eq_lt.2 h]
      · have h1 : ¬ a.toNat < b.toNat := by omega
        have h2 : ¬ b.toNat < a.toNat := by omega
        simp only [h1, h2, if_false, Nat.compare_eq_eq.2 h]
        exact ih bs
      · simp [h, Nat.compare_eq_gt.2 h]

theorem int_cmp_lt (x y : Int) : decide (x < y) = (compare x y == .lt) := by
  simp only [compare, compareOfLessAndEq]
  by_cases h : x < y
  · simp [h]
  · by_cases h2 : x = y <;> simp [h, h2]

theorem int_cmp_gt (x y : Int) : decide (y < x) = (compare x y == .gt) := by
  simp only [compare, compareOfLessAndEq]
  by_cases h : x < y
  · have : ¬ y < x := by omega
    simp [h, this]
  · by_cases h2 : x = y
    · subst h2; simp
    · have : y < x := by omega
      simp [h, h2, this]

theorem int_cmp_le (x y : Int) : decide (x ≤ y) = (compare x y != .gt) := by
  simp only [compare, compareOfLessAndEq]
  by_cases h : x < y
  · have : x ≤ y := by omega
    simp [h, this]
  · by_cases h2 : x = y
    · subst h2; simp
    · have : ¬ x ≤ y := by omega
      simp [h, h2, this]

theorem int_cmp_ge (x y : Int) : decide (y ≤ x) = (compare x y != .lt) := by
  simp only [compare, compareOfLessAndEq]
  by_cases h : x < y
  · have : ¬ y ≤ x := by omega
    simp [h, this]
  · by_cases h2 : x = y
    · subst h2; simp
    · have : y ≤ x := by omega
      simp [h, h2, this]

/-- the two operands are ordered by the specification: both numbers or both texts -/
theorem cmp_cases (a b : Val) (o : Ordering) (h : cmp a b = some o) :
    (∃ x y, numOf a = some x ∧ numOf b = some y ∧ o = compare x y) ∨
    (∃ x y, a = .str x ∧ b = .str y ∧ o = textCmp x y) := by
  unfold cmp at h
  cases ha : numOf a with
  | some x =>
    cases hb : numOf b with
    | some y => rw [ha, hb] at h; left; exact ⟨x, y, rfl, rfl, by cases h; rfl⟩
    | none =>
      rw [ha, hb] at h
      cases a <;> cases b <;> simp [numOf] at ha hb h
  | none =>
    rw [ha] at h
    cases a <;> cases b <;> simp [numOf] at ha h
    right
    exact ⟨_, _, rfl, rfl, h.symm⟩

theorem pyLt_cmp (a b : Val) (o : Ordering) (h : cmp a b = some o) :
    pyLt a b = .ok (o == .lt) := by
  rcases cmp_cases a b o h with ⟨x, y, ha, hb, ho⟩ | ⟨x, y, ha, hb, ho⟩
  · simp only [pyLt, ha, hb, ho, int_cmp_lt]
  · subst ha hb ho; simp only [pyLt, numOf, strLt_eq]

theorem pyGt_cmp (a b : Val) (o : Ordering) (h : cmp a b = some o) :
    pyLt b a = .ok (o == .gt) := by
  rcases cmp_cases a b o h with ⟨x, y, ha, hb, ho⟩ | ⟨x, y, ha, hb, ho⟩
  · simp only [pyLt, ha, hb, ho, int_cmp_gt]
  · subst ha hb ho; simp only [pyLt, numOf, strLt_swap]

theorem pyLe_cmp (a b : Val) (o : Ordering) (h : cmp a b = some o) :
    pyLe a b = .ok (o != .gt) := by
  rcases cmp_cases a b o h with ⟨x, y, ha, hb, ho⟩ | ⟨x, y, ha, hb, ho⟩
  · simp only [pyLe, ha, hb, ho, int_cmp_le]
  · subst ha hb ho
    simp only [pyLe, numOf, strLt_swap]
    cases textCmp x y <;> rfl

theorem pyGe_cmp (a b : Val) (o : Ordering) (h : cmp a b = some o) :
    pyLe b a = .ok (o != .lt) := by
  rcases cmp_cases a b o h with ⟨x, y, ha, hb, ho⟩ | ⟨x, y, ha, hb, ho⟩
  · simp only [pyLe, ha, hb, ho, int_cmp_ge]
  · subst ha hb ho
    simp only [pyLe, numOf, strLt_eq]
    cases textCmp x y <;> rfl

theorem textCmp_eq_iff (x y : Str) : textCmp x y = .eq ↔ x = y := by
  induction x generalizing y with
  | nil => cases y <;> simp [textCmp]
  | cons a as ih =>
    cases y with
    | nil => simp [textCmp]
    | cons b bs =>
      simp only [textCmp]
      rcases Nat.lt_trichotomy a.toNat b.toNat with h | h | h
      · have : a ≠ b := by intro hab; subst hab; omega
        simp [Nat.compare_eq_lt.2 h, this]
      · have hab : a = b := Char.ext (by
          have := h
          simp only [Char.toNat] at this
          exact UInt32.toNat_inj.1 this)
        subst hab
        simp [ih]
      · have : a ≠ b := by intro hab; subst hab; omega
        simp [Nat.compare_eq_gt.2 h, this]

/-- Python `==` on natives is the specification's `same` -/
theorem pyEq_same (a b : Val) : pyEq a b = same a b := by
  unfold pyEq same cmp
  cases ha : numOf a with
  | some x =>
    cases hb : numOf b with
    | some y =>
      simp only [compare, compareOfLessAndEq]
      by_cases h : x < y
      · have : x ≠ y := by omega
        simp [h, this]
      · by_cases h2 : x = y <;> simp [h, h2]
    | none => cases a <;> cases b <;> simp [numOf] at ha hb ⊢
  | none =>
    cases a <;> cases b <;> simp [numOf] at ha ⊢
    · rename_i x y
      cases hc : textCmp x y with
      | eq => simp [(textCmp_eq_iff x y).1 hc]
      | lt =>
        have : x ≠ y := by intro h; rw [(textCmp_eq_iff x y).2 h] at hc; cases hc
        simp [this]
      | gt =>
        have : x ≠ y := by intro h; rw [(textCmp_eq_iff x y).2 h] at hc; cases hc
        simp [this]

end Flatland.C15.Proofs
