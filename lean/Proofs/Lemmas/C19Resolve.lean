/-
Frame lookup = "innermost level that mentions the key, else the base frame"; the code's
two-step fallback vs the four-level rule on the list of level readings.
-/
import Proofs.Lemmas.C19Hist
namespace Flatland.C19.Proofs
open Flatland.Markup Flatland.C19 Flatland.C19.Spec

theorem get?_applyLog (log : List (Str × CVal)) (f : Frame) (k : Str) :
    Dict.get? (applyLog f log) k = (lastAssign log k).or (Dict.get? f k) := by
  induction log generalizing f with
  | nil => simp [applyLog, lastAssign]
  | cons p rest ih =>
    obtain ⟨k', v⟩ := p
    have : applyLog f ((k', v) :: rest) = applyLog (Dict.set f k' v) rest := rfl
    rw [this, ih, Dict.get?_set]
    simp only [lastAssign]
    cases lastAssign rest k with
    | some w => simp
    | none =>
      by_cases hk : k = k'
      · subst hk; simp
      · have : ¬ k' = k := fun e => hk e.symm
        simp [hk, this]

/-- the first level (innermost first) that mentions the key -/
def firstGiven (h : Hist) (k : Str) : Option CVal :=
  match h with
  | [] => none
  | lv :: rest => (lv.given k).or (firstGiven rest k)

/-- top-frame lookup under `Matches`: the innermost explicit value, else the base frame's -/
theorem lookup_matches : ∀ (fs : List Frame) (h : Hist) (k : Str), Matches fs h →
    ∃ top base, fs.head? = some top ∧ fs.getLast? = some base ∧
      Dict.get? top k = (firstGiven h k).or (Dict.get? base k)
  | [b], [], k, _ => ⟨b, b, rfl, rfl, by simp [firstGiven]⟩
  | f :: g :: rest, lv :: lvs, k, hm => by
    simp only [Matches] at hm
    obtain ⟨top', base, ht, hb, hg⟩ := lookup_matches (g :: rest) lvs k hm.2
    simp only [List.head?_cons, Option.some.injEq] at ht
    subst ht
    refine ⟨f, base, rfl, ?_, ?_⟩
    · simpa [List.getLast?_cons_cons] using hb
    · rw [hm.1, get?_applyLog, hg]
      simp only [firstGiven, Level.given]
      cases lastAssign lv.log k <;> simp
  | [], _, _, hm => by simp [Matches] at hm
  | [_], _ :: _, _, hm => by simp [Matches] at hm
  | _ :: _ :: _, [], _, hm => by simp [Matches] at hm

/-- what the code computes from the level readings: the innermost level that MENTIONS the option
    decides; if it says auto (or nobody mentions it) the built-in default applies -/
def codeResolve (b : Bool) : List (Option Trool) → Bool
  | [] => b
  | some .yes :: _ => true
  | some .no :: _ => false
  | some .maybe :: _ => b
  | none :: rest => codeResolve b rest

theorem codeResolve_eq_rule (b : Bool) (levels : List (Option Trool))
    (h : noShadowingAuto b levels = true) : codeResolve b levels = (firstOnOff levels).getD b := by
  induction levels with
  | nil => rfl
  | cons x rest ih =>
    cases x with
    | none => simp only [codeResolve, firstOnOff]; exact ih (by simpa [noShadowingAuto] using h)
    | some t =>
      cases t with
      | yes => rfl
      | no => rfl
      | maybe =>
        simp only [noShadowingAuto, Bool.or_eq_true, beq_iff_eq] at h
        simp only [codeResolve, firstOnOff]
        rcases h with h | h <;> simp [h]

/-- the restriction is necessary as well: where it fails, code and rule disagree -/
theorem codeResolve_ne_rule (b : Bool) (levels : List (Option Trool))
    (h : noShadowingAuto b levels = false) : codeResolve b levels ≠ (firstOnOff levels).getD b := by
  induction levels with
  | nil => simp [noShadowingAuto] at h
  | cons x rest ih =>
    cases x with
    | none => simp only [codeResolve, firstOnOff]; exact ih (by simpa [noShadowingAuto] using h)
    | some t =>
      cases t with
      | yes => simp [noShadowingAuto] at h
      | no => simp [noShadowingAuto] at h
      | maybe =>
        simp only [noShadowingAuto, Bool.or_eq_false_iff, beq_eq_false_iff_ne, ne_eq] at h
        simp only [codeResolve, firstOnOff]
        cases hf : firstOnOff rest with
        | none => exact absurd hf h.1
        | some c =>
          simp only [Option.getD_some]
          intro e; apply h.2; rw [hf, e]

end Flatland.C19.Proofs
