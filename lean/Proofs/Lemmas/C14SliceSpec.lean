/-
C14, `pySlice_spec`: the model's `pySlice` (a filter over `range n`, the "set-builder" reading) IS
the index arithmetic of CPython's slicing, for ALL lengths and ALL start / stop / step:

  `(start, stop, step) = slice(a, b, c).indices(n)`   (PySlice_Unpack + PySlice_AdjustIndices, written
                                                      out in `Flatland.PyList.adjust` / `adjustBound`)
  `pySlice n a b c = [start + k*step | k in range(count)]`,
  `count = max 0 (ceil ((stop - start) / step))`      (`PySlice_AdjustIndices`' return value)

`Flatland.PyList` is the reference `list` of C08–C10 (validated there against the real `list` type);
this file connects the two slice functions: `getSlice_eq_pySlice`.
-/
import Flatland.Path
import Flatland.PyList
namespace Flatland.C14.Proofs
open Flatland.Path Flatland.PyList

/-- two lists sorted strictly by the same asymmetric relation with the same members are equal -/
theorem pairwise_ext {r : Nat → Nat → Prop} (hr : ∀ a b, r a b → ¬ r b a) :
    ∀ (l1 l2 : List Nat), l1.Pairwise r → l2.Pairwise r → (∀ x, x ∈ l1 ↔ x ∈ l2) → l1 = l2
  | [], [], _, _, _ => rfl
  | [], b :: t2, _, _, h => by have := (h b).2 (by simp); simp at this
  | a :: t1, [], _, _, h => by have := (h a).1 (by simp); simp at this
  | a :: t1, b :: t2, h1, h2, h => by
    rw [List.pairwise_cons] at h1 h2
    have hab : a = b := by
      by_cases hab : a = b
      · exact hab
      · have ha : a ∈ t2 := by
          have := (h a).1 (by simp)
          simp only [List.mem_cons] at this
          rcases this with h' | h'
          · exact absurd h' hab
          · exact h'
        have hb : b ∈ t1 := by
          have := (h b).2 (by simp)
          simp only [List.mem_cons] at this
          rcases this with h' | h'
          · exact absurd h'.symm hab
          · exact h'
        exact absurd (h1.1 b hb) (hr _ _ (h2.1 a ha))
    subst hab
    have : t1 = t2 := by
      apply pairwise_ext hr t1 t2 h1.2 h2.2
      intro x
      constructor
      · intro hx
        have := (h x).1 (by simp [hx])
        simp only [List.mem_cons] at this
        rcases this with h' | h'
        · subst h'; exact absurd (h1.1 x hx) (hr _ _ (h1.1 x hx))
        · exact h'
      · intro hx
        have := (h x).2 (by simp [hx])
        simp only [List.mem_cons] at this
        rcases this with h' | h'
        · subst h'; exact absurd (h2.1 x hx) (hr _ _ (h2.1 x hx))
        · exact h'
    rw [this]

/-- number of terms of the progression `start, start + step, …` before `stop` (`step > 0`) —
    the return value of `PySlice_AdjustIndices` -/
def countUp (start stop step : Int) : Nat :=
  if start < stop then ((stop - start - 1) / step + 1).toNat else 0

def countDown (start stop step : Int) : Nat :=
  if stop < start then ((start - stop - 1) / (-step) + 1).toNat else 0

/-- ascending progression = the filter over `range n` -/
theorem filter_up (n : Nat) (start stop s : Int) (h0 : 0 ≤ start) (hs : 0 < s) (hstop : stop ≤ n) :
    (List.range n).filter
        (fun (i : Nat) => decide (start ≤ (i : Int) ∧ (i : Int) < stop ∧ ((i : Int) - start) % s = 0))
      = (List.range (countUp start stop s)).map (fun (k : Nat) => (start + (k : Int) * s).toNat) := by
  apply pairwise_ext (r := (· < ·)) (by intro a b; omega)
  · exact List.Pairwise.filter _ List.pairwise_lt_range
  · rw [List.pairwise_map]
    refine List.Pairwise.imp ?_ List.pairwise_lt_range
    intro a b hab
    have h1 : (a : Int) * s < (b : Int) * s := Int.mul_lt_mul_of_pos_right (by omega) hs
    have h2 : 0 ≤ (a : Int) * s := Int.mul_nonneg (by omega) (by omega)
    omega
  · intro x
    simp only [List.mem_filter, List.mem_range, decide_eq_true_eq, List.mem_map, countUp]
    constructor
    · rintro ⟨hxn, hx1, hx2, hx3⟩
      have hlt : start < stop := by omega
      have hdvd : ((x : Int) - start) / s * s = (x : Int) - start :=
        Int.ediv_mul_cancel (Int.dvd_of_emod_eq_zero hx3)
      have hq0 : 0 ≤ ((x : Int) - start) / s := Int.ediv_nonneg (by omega) (by omega)
      have hqle : ((x : Int) - start) / s ≤ (stop - start - 1) / s :=
        Int.ediv_le_ediv hs (by omega)
      refine ⟨(((x : Int) - start) / s).toNat, ?_, ?_⟩
      · rw [if_pos hlt]; omega
      · rw [Int.toNat_of_nonneg hq0, hdvd]; omega
    · rintro ⟨k, hk, rfl⟩
      by_cases hlt : start < stop
      · rw [if_pos hlt] at hk
        have hd0 : 0 ≤ (stop - start - 1) / s := Int.ediv_nonneg (by omega) (by omega)
        have hk' : (k : Int) ≤ (stop - start - 1) / s := by omega
        have h1 : (k : Int) * s ≤ (stop - start - 1) / s * s :=
          Int.mul_le_mul_of_nonneg_right hk' (by omega)
        have h2 : (stop - start - 1) / s * s ≤ stop - start - 1 := Int.ediv_mul_le _ (by omega)
        have h3 : 0 ≤ (k : Int) * s := Int.mul_nonneg (by omega) (by omega)
        have h4 : (start + (k : Int) * s - start) % s = 0 := by
          have : start + (k : Int) * s - start = (k : Int) * s := by omega
          rw [this]; exact Int.mul_emod_left _ _
        have h5 : ((start + (k : Int) * s).toNat : Int) = start + (k : Int) * s :=
          Int.toNat_of_nonneg (by omega)
        rw [h5]
        refine ⟨?_, by omega, by omega, h4⟩
        omega
      · rw [if_neg hlt] at hk; omega

/-- descending progression = the filter over the reversed `range n` -/
theorem filter_down (n : Nat) (start stop s : Int) (hstart : start < n) (hs : 0 < s) (hstop : -1 ≤ stop) :
    (List.range n).reverse.filter
        (fun (i : Nat) => decide (stop < (i : Int) ∧ (i : Int) ≤ start ∧ (start - (i : Int)) % s = 0))
      = (List.range (countDown start stop (-s))).map (fun (k : Nat) => (start + (k : Int) * (-s)).toNat) := by
  apply pairwise_ext (r := (· > ·)) (by intro a b; omega)
  · apply List.Pairwise.filter
    rw [List.pairwise_reverse]
    exact List.pairwise_lt_range
  · rw [List.pairwise_map]
    refine List.Pairwise.imp_of_mem ?_ List.pairwise_lt_range
    intro a b _ hb hab
    simp only [List.mem_range, countDown] at hb
    have hlt : stop < start := by
      by_cases hlt : stop < start
      · exact hlt
      · rw [if_neg hlt] at hb; omega
    rw [if_pos hlt, Int.neg_neg] at hb
    have hd0 : 0 ≤ (start - stop - 1) / s := Int.ediv_nonneg (by omega) (by omega)
    have hb' : (b : Int) ≤ (start - stop - 1) / s := by omega
    have h3 : (b : Int) * s ≤ (start - stop - 1) / s * s :=
      Int.mul_le_mul_of_nonneg_right hb' (by omega)
    have h4 : (start - stop - 1) / s * s ≤ start - stop - 1 := Int.ediv_mul_le _ (by omega)
    have h1 : (a : Int) * s < (b : Int) * s := Int.mul_lt_mul_of_pos_right (by omega) hs
    have h2 : 0 ≤ (a : Int) * s := Int.mul_nonneg (by omega) (by omega)
    have ha : (a : Int) * (-s) = -((a : Int) * s) := Int.mul_neg _ _
    have hb2 : (b : Int) * (-s) = -((b : Int) * s) := Int.mul_neg _ _
    rw [ha, hb2]
    show (start + -((b : Int) * s)).toNat < (start + -((a : Int) * s)).toNat
    omega
  · intro x
    simp only [List.mem_filter, List.mem_reverse, List.mem_range, decide_eq_true_eq, List.mem_map,
      countDown, Int.neg_neg]
    constructor
    · rintro ⟨hxn, hx1, hx2, hx3⟩
      have hlt : stop < start := by omega
      have hdvd : (start - (x : Int)) / s * s = start - (x : Int) :=
        Int.ediv_mul_cancel (Int.dvd_of_emod_eq_zero hx3)
      have hq0 : 0 ≤ (start - (x : Int)) / s := Int.ediv_nonneg (by omega) (by omega)
      have hqle : (start - (x : Int)) / s ≤ (start - stop - 1) / s :=
        Int.ediv_le_ediv hs (by omega)
      refine ⟨((start - (x : Int)) / s).toNat, ?_, ?_⟩
      · rw [if_pos hlt]; omega
      · rw [Int.toNat_of_nonneg hq0, Int.mul_neg, hdvd]; omega
    · rintro ⟨k, hk, rfl⟩
      by_cases hlt : stop < start
      · rw [if_pos hlt] at hk
        have hd0 : 0 ≤ (start - stop - 1) / s := Int.ediv_nonneg (by omega) (by omega)
        have hk' : (k : Int) ≤ (start - stop - 1) / s := by omega
        have h1 : (k : Int) * s ≤ (start - stop - 1) / s * s :=
          Int.mul_le_mul_of_nonneg_right hk' (by omega)
        have h2 : (start - stop - 1) / s * s ≤ start - stop - 1 := Int.ediv_mul_le _ (by omega)
        have h3 : 0 ≤ (k : Int) * s := Int.mul_nonneg (by omega) (by omega)
        rw [Int.mul_neg]
        have h5 : ((start + -((k : Int) * s)).toNat : Int) = start + -((k : Int) * s) :=
          Int.toNat_of_nonneg (by omega)
        have h4 : (start - (start + -((k : Int) * s))) % s = 0 := by
          have : start - (start + -((k : Int) * s)) = (k : Int) * s := by omega
          rw [this]; exact Int.mul_emod_left _ _
        rw [h5]
        refine ⟨?_, by omega, by omega, h4⟩
        omega
      · rw [if_neg hlt] at hk; omega

/-- `slice(a, b, c).indices(n)` together with the slice length, for `c ≠ 0`: the start and stop
    bounds adjusted as `PySlice_AdjustIndices` does (`PyList.adjustBound`: omitted → the end the
    direction starts from / runs to; negative → `+ n`, clamped at `0` resp. `-1`; too large →
    clamped at `n` resp. `n - 1`) -/
def sliceIx (n : Nat) (a b c : Option Int) : Ix :=
  let step := c.getD 1
  let len : Int := n
  let start := adjustBound len step (if step < 0 then len - 1 else 0) a
  let stop := adjustBound len step (if step < 0 then -1 else len) b
  ⟨start, stop, step, if step < 0 then countDown start stop step else countUp start stop step⟩

/-- `sliceIx` is `PyList.adjust` (the reference `list` of C08–C10) -/
theorem adjust_eq_sliceIx (n : Nat) (a b c : Option Int) (hc : c ≠ some 0) :
    adjust n ⟨a, b, c⟩ = some (sliceIx n a b c) := by
  have hstep : c.getD 1 ≠ 0 := by
    cases c with
    | none => simp
    | some v => intro h; apply hc; simpa using h
  simp only [adjust, sliceIx, hstep, if_false, countUp, countDown]

theorem adjust_zero (n : Nat) (a b : Option Int) : adjust n ⟨a, b, some 0⟩ = none := by
  simp [adjust]

theorem adjustBound_none (len step d : Int) : adjustBound len step d none = d := rfl

theorem adjustBound_some_up (len step d : Int) (hs : 0 < step) (x : Int) :
    adjustBound len step d (some x) = if x < 0 then max (x + len) 0 else min x len := by
  simp only [adjustBound]
  have : ¬ step < 0 := by omega
  simp only [this, if_false]
  split <;> split <;> omega

theorem adjustBound_some_down (len step d : Int) (hs : step < 0) (x : Int) :
    adjustBound len step d (some x) = if x < 0 then max (x + len) (-1) else min x (len - 1) := by
  simp only [adjustBound]
  simp only [hs, if_true]
  split <;> split <;> omega

theorem adjustBound_up_range (len step d : Int) (hl : 0 ≤ len) (hs : ¬ step < 0) (hd : 0 ≤ d ∧ d ≤ len)
    (a : Option Int) : 0 ≤ adjustBound len step d a ∧ adjustBound len step d a ≤ len := by
  cases a with
  | none => exact hd
  | some x =>
    simp only [adjustBound, hs, if_false]
    split <;> split <;> omega

theorem adjustBound_down_range (len step d : Int) (hs : step < 0) (hd : -1 ≤ d ∧ d < len)
    (a : Option Int) (hl : 0 ≤ len) : -1 ≤ adjustBound len step d a ∧ adjustBound len step d a < len := by
  cases a with
  | none => exact hd
  | some x =>
    simp only [adjustBound, hs, if_true]
    split <;> split <;> omega

/-- **`pySlice_spec`** — for every length and every start / stop / nonzero step the model's
    `pySlice` is the progression `start, start + step, …` (`count` terms) of the adjusted indices. -/
theorem pySlice_spec (n : Nat) (a b c : Option Int) (hc : c ≠ some 0) :
    pySlice n a b c = indices (sliceIx n a b c) := by
  have hstep : c.getD 1 ≠ 0 := by
    cases c with
    | none => simp
    | some v => intro h; apply hc; simpa using h
  unfold pySlice
  simp only
  by_cases hpos : c.getD 1 > 0
  · have hneg : ¬ c.getD 1 < 0 := by omega
    simp only [hpos, if_true, indices, sliceIx, hneg, if_false]
    have h1 := adjustBound_up_range (n : Int) (c.getD 1) 0 (by omega) hneg (by omega) a
    have h2 := adjustBound_up_range (n : Int) (c.getD 1) (n : Int) (by omega) hneg (by omega) b
    have := filter_up n _ _ _ h1.1 hpos h2.2
    cases a <;> cases b <;>
      simp only [adjustBound_none, adjustBound_some_up _ _ _ hpos] at this ⊢ <;> exact this
  · have hneg : c.getD 1 < 0 := by omega
    simp only [hpos, if_false, indices, sliceIx, hneg, if_true]
    by_cases hn : n = 0
    · subst hn
      have h0 := adjustBound_down_range ((0 : Nat) : Int) (c.getD 1) (((0 : Nat) : Int) - 1) hneg
        (by omega) a (by omega)
      have h1 := adjustBound_down_range ((0 : Nat) : Int) (c.getD 1) (-1) hneg (by omega) b (by omega)
      rw [countDown, if_neg (by omega)]
      simp
    have h1 := adjustBound_down_range (n : Int) (c.getD 1) ((n : Int) - 1) hneg (by omega) a (by omega)
    have h2 := adjustBound_down_range (n : Int) (c.getD 1) (-1) hneg (by omega) b (by omega)
    have := filter_down n (adjustBound (n : Int) (c.getD 1) ((n : Int) - 1) a)
      (adjustBound (n : Int) (c.getD 1) (-1) b) (-(c.getD 1)) h1.2 (by omega) h2.1
    rw [Int.neg_neg] at this
    cases a <;> cases b <;>
      simp only [adjustBound_none, adjustBound_some_down _ _ _ hneg] at this ⊢ <;> exact this

/-! ## Corollaries -/

/-- the slice length is `max 0 (ceil ((stop - start) / step))`, written with floor division:
    `ceil (x / s) = (x + s - 1) / s` for `s > 0` -/
theorem countUp_eq_ceil (start stop step : Int) (hs : 0 < step) :
    countUp start stop step = ((stop - start + step - 1) / step).toNat := by
  unfold countUp
  have h : (stop - start + step - 1) / step = (stop - start - 1) / step + 1 := by
    have : stop - start + step - 1 = (stop - start - 1) + 1 * step := by omega
    rw [this, Int.add_mul_ediv_right _ _ (by omega)]
  split
  · rw [h]
  · have : (stop - start + step - 1) / step < 1 := Int.ediv_lt_of_lt_mul hs (by omega)
    omega

theorem countDown_eq_ceil (start stop step : Int) (hs : step < 0) :
    countDown start stop step = ((start - stop + (-step) - 1) / (-step)).toNat := by
  unfold countDown
  have h : (start - stop + (-step) - 1) / (-step) = (start - stop - 1) / (-step) + 1 := by
    have : start - stop + (-step) - 1 = (start - stop - 1) + 1 * (-step) := by omega
    rw [this, Int.add_mul_ediv_right _ _ (by omega)]
  split
  · rw [h]
  · have : (start - stop + (-step) - 1) / (-step) < 1 := Int.ediv_lt_of_lt_mul (by omega) (by omega)
    omega

/-- zero step: `slice.indices` raises `ValueError` … -/
theorem sliceIx_zero_step (n : Nat) (a b : Option Int) : adjust n ⟨a, b, some 0⟩ = none :=
  adjust_zero n a b

/-- every selected index is an index of the list -/
theorem pySlice_lt (n : Nat) (a b c : Option Int) : ∀ i ∈ pySlice n a b c, i < n := by
  intro i hi
  unfold pySlice at hi
  simp only at hi
  split at hi
  · exact List.mem_range.1 (List.mem_filter.1 hi).1
  · exact List.mem_range.1 (List.mem_reverse.1 (List.mem_filter.1 hi).1)

/-- the `k`-th selected index, `k < count`, is `start + k*step` -/
theorem pySlice_getElem? (n : Nat) (a b c : Option Int) (hc : c ≠ some 0) (k : Nat) :
    (pySlice n a b c)[k]? =
      if k < (sliceIx n a b c).count
      then some ((sliceIx n a b c).start + (k : Int) * (sliceIx n a b c).step).toNat else none := by
  rw [pySlice_spec n a b c hc, indices, List.getElem?_map]
  by_cases h : k < (sliceIx n a b c).count
  · rw [List.getElem?_range h]; simp [h]
  · rw [List.getElem?_eq_none (by simpa using h)]; simp [h]

theorem pySlice_length (n : Nat) (a b c : Option Int) (hc : c ≠ some 0) :
    (pySlice n a b c).length = (sliceIx n a b c).count := by
  rw [pySlice_spec n a b c hc, indices]; simp

/-- negative step: strictly decreasing positions -/
theorem pySlice_descending (n : Nat) (a b c : Option Int) (h : c.getD 1 < 0) :
    (pySlice n a b c).Pairwise (· > ·) := by
  unfold pySlice
  have : ¬ c.getD 1 > 0 := by omega
  simp only [this, if_false]
  apply List.Pairwise.filter
  rw [List.pairwise_reverse]
  exact List.pairwise_lt_range

/-- `list[a:b:c]` of the reference list (`PyList.getSlice`) is the list of the elements at the
    indexes `pySlice` selects; a zero step is the `ValueError` -/
theorem getSlice_eq_pySlice {α : Type} (l : List α) (a b c : Option Int) :
    getSlice l ⟨a, b, c⟩ =
      if c = some 0 then .error .valueError
      else .ok ((pySlice l.length a b c).filterMap (fun i => l[i]?)) := by
  by_cases hc : c = some 0
  · subst hc; simp [getSlice, adjust_zero]
  · rw [if_neg hc, getSlice, adjust_eq_sliceIx _ _ _ _ hc, pySlice_spec _ _ _ _ hc]

/-- no selected index is dropped by the `filterMap` above: as many elements as indexes -/
theorem pySlice_filterMap_length {α : Type} (l : List α) (a b c : Option Int) :
    ((pySlice l.length a b c).filterMap (fun i => l[i]?)).length = (pySlice l.length a b c).length := by
  have h := pySlice_lt l.length a b c
  generalize pySlice l.length a b c = is at h
  induction is with
  | nil => rfl
  | cons i r ih =>
    have hi : i < l.length := h i (by simp)
    rw [List.filterMap_cons, List.getElem?_eq_getElem hi]
    simp only [List.length_cons]
    rw [ih (fun j hj => h j (by simp [hj]))]

theorem filterMap_range_drop_take {α : Type} (l : List α) (S : Nat) : ∀ cnt : Nat,
    ((List.range cnt).map (fun k => S + k)).filterMap (fun i => l[i]?) = (l.drop S).take cnt
  | 0 => by simp
  | cnt + 1 => by
    rw [List.range_succ, List.map_append, List.filterMap_append, filterMap_range_drop_take l S cnt,
      List.take_add_one, List.getElem?_drop]
    cases h : l[S + cnt]? <;> simp [h]

/-- step 1 (omitted): `l[a:b]` is `drop start` of `take stop` -/
theorem pySlice_step_one {α : Type} (l : List α) (a b : Option Int) :
    (pySlice l.length a b none).filterMap (fun i => l[i]?)
      = (l.take (sliceIx l.length a b none).stop.toNat).drop (sliceIx l.length a b none).start.toNat := by
  rw [pySlice_spec _ _ _ _ (by simp), indices]
  have h1 := adjustBound_up_range (l.length : Int) 1 0 (by omega) (by omega) (by omega) a
  have h2 := adjustBound_up_range (l.length : Int) 1 (l.length : Int) (by omega) (by omega) (by omega) b
  simp only [sliceIx, Option.getD_none, show ¬ ((1 : Int) < 0) by omega, if_false, countUp] at *
  generalize adjustBound (l.length : Int) 1 0 a = st at *
  generalize adjustBound (l.length : Int) 1 (l.length : Int) b = sp at *
  have hmap : ∀ cnt, (List.range cnt).map (fun (k : Nat) => (st + (k : Int) * 1).toNat)
      = (List.range cnt).map (fun k => st.toNat + k) := by
    intro cnt; apply List.map_congr_left; intro k _; omega
  rw [hmap, filterMap_range_drop_take, List.drop_take]
  congr 1
  split <;> omega

/-- `l[::-1]` selects every index, last first … -/
theorem pySlice_rev_all (n : Nat) : pySlice n none none (some (-1)) = (List.range n).reverse := by
  unfold pySlice
  simp only [Option.getD_some, show ¬ ((-1 : Int) > 0) by omega, if_false]
  rw [List.filter_eq_self]
  intro i hi
  have := List.mem_range.1 (List.mem_reverse.1 hi)
  simp only [decide_eq_true_eq]
  refine ⟨by omega, by omega, ?_⟩
  rw [show (-(-1 : Int)) = 1 by decide, Int.emod_one]

/-- … so `l[::-1]` is `reverse` -/
theorem pySlice_reverse {α : Type} (l : List α) :
    (pySlice l.length none none (some (-1))).filterMap (fun i => l[i]?) = l.reverse := by
  rw [pySlice_rev_all, List.filterMap_reverse]
  have := filterMap_range_drop_take l 0 l.length
  simp only [Nat.zero_add, List.map_id', List.drop_zero, List.take_length] at this
  rw [this]

/-- `l[:]` is `l` -/
theorem pySlice_all {α : Type} (l : List α) :
    (pySlice l.length none none none).filterMap (fun i => l[i]?) = l := by
  rw [pySlice_step_one]
  simp [sliceIx, adjustBound]

example : pySlice 5 (some (-4)) none (some 2) = [1, 3] := by decide
example : sliceIx 5 (some (-4)) none (some 2) = ⟨1, 5, 2, 2⟩ := by decide
example : pySlice 5 (some 9) (some (-9)) (some (-2)) = [4, 2, 0] := by decide
example : sliceIx 5 (some 9) (some (-9)) (some (-2)) = ⟨4, -1, -2, 3⟩ := by decide
example : getSlice [10, 11, 12, 13, 14] ⟨some 9, some (-9), some (-2)⟩ = .ok [14, 12, 10] := by
  rw [getSlice_eq_pySlice, if_neg (by decide)]; exact congrArg _ (by decide)
example : getSlice [10, 11, 12] ⟨none, none, some 0⟩ = .error .valueError := by
  rw [getSlice_eq_pySlice, if_pos rfl]

end Flatland.C14.Proofs
