/-
The same tag calls made the way the runner makes them (`prepareTag` on a generator: keyword
arguments re-keyed, attributes sorted for output): a browser reads the same pairs from them.
-/
import Proofs.Lemmas.C12FormTotal
namespace Flatland.C12.Proofs
open Flatland.Markup Flatland.C12 Flatland.C19.Proofs

/-- keyword arguments that reach the transforms as they are: distinct names, none with a trailing
    underscore for `_transform_keys` to strip, no explicit `contents=` -/
def kwStable (kw : Attrs) : Prop :=
  (Dict.keys kw).Nodup ∧ ∀ k ∈ Dict.keys kw, rstripUnderscore k = k ∧ k ≠ "contents".toList

theorem set_absent (d : Attrs) (k : Str) (v : Val) (h : k ∉ Dict.keys d) : Dict.set d k v = d ++ [(k, v)] := by
  induction d with
  | nil => rfl
  | cons p rest ih =>
    obtain ⟨k0, v0⟩ := p
    simp only [Dict.keys, List.map_cons, List.mem_cons, not_or] at h
    have : ¬ k0 = k := fun e => h.1 e.symm
    simp only [Dict.set, this, if_false, List.cons_append]
    rw [ih h.2]

theorem foldl_set_stable (kw : Attrs) : ∀ (d : Attrs), (Dict.keys (d ++ kw)).Nodup →
    (∀ k ∈ Dict.keys kw, rstripUnderscore k = k) →
    kw.foldl (fun d kv => Dict.set d (rstripUnderscore kv.1) kv.2) d = d ++ kw := by
  induction kw with
  | nil => intro d _ _; simp
  | cons kv rest ih =>
    intro d hnd hst
    obtain ⟨k, v⟩ := kv
    have hk : rstripUnderscore k = k := hst k (by simp [Dict.keys])
    simp only [List.foldl_cons, hk]
    have hnot : k ∉ Dict.keys d := by
      simp only [Dict.keys, List.map_append, List.map_cons] at hnd
      have := (List.nodup_append.mp hnd).2.2
      intro hm
      exact this k hm k (by simp) rfl
    rw [set_absent d k v hnot]
    have := ih (d ++ [(k, v)]) (by simpa [List.append_assoc] using hnd)
      (fun k' hk' => hst k' (by simp only [Dict.keys, List.map_cons, List.mem_cons]; right; exact hk'))
    simpa [List.append_assoc] using this

theorem transformKeys_stable (kw : Attrs) (h : kwStable kw) :
    Flatland.C11.transformKeys (Dict.erase kw "contents".toList) = kw ∧ Dict.get? kw "contents".toList = none := by
  have hc : Dict.get? kw "contents".toList = none := by
    rw [Dict.get?_eq_none_iff]
    intro hm
    exact (h.2 _ hm).2 rfl
  refine ⟨?_, hc⟩
  rw [erase_absent _ _ hc]
  unfold Flatland.C11.transformKeys
  have := foldl_set_stable kw [] (by simpa using h.1) (fun k hk => (h.2 k hk).1)
  simpa using this

/-- `prepareTag` = the transforms on the keyword arguments, then the body and the output order -/
theorem prepareTag_stable {T : Tables} {order : List Str} {g : Gen} {tag : Str} {b : Bind} {kw : Attrs}
    (hk : kwStable kw) {r : TagResult} (h : prepareTag T order g tag (some b) kw = .ok r) :
    ∃ st6 o, transform T tag (some b) ⟨kw, none, g.ctx⟩ = .ok st6 ∧
      r.pairs = Flatland.C11.orderPairs order o st6.attrs ∧ bodyOf st6.contents = .ok r.contents ∧ r.ctx = st6.ctx := by
  obtain ⟨e1, e2⟩ := transformKeys_stable kw hk
  unfold prepareTag at h
  simp only [bind, Except.bind] at h
  rw [e1, e2] at h
  cases ht : transform T tag (some b) ⟨kw, none, g.ctx⟩ with
  | error e => rw [ht] at h; simp at h
  | ok st =>
    rw [ht] at h
    simp only at h
    refine ⟨st, ?_⟩
    repeat' split at h
    all_goals first
      | (simp at h; done)
      | (simp only [pure, Except.pure, Except.ok.injEq] at h; subst h
         refine ⟨_, rfl, rfl, ?_, rfl⟩
         simp only [bodyOf, *])

end Flatland.C12.Proofs

namespace Flatland.C12.Proofs
open Flatland.Markup Flatland.C12 Flatland.C19.Proofs

/-! ### the browser rule does not see the output order -/

theorem submitted_congr (tag : Str) (a a' : List (Str × Str)) (text : Str) (h : ∀ k, attr? a k = attr? a' k) :
    submitted tag a text = submitted tag a' text := by
  unfold submitted
  simp only [h]

theorem submittedOption_congr (n : Str) (a a' : List (Str × Str)) (text : Str) (h : ∀ k, attr? a k = attr? a' k) :
    submittedOption n a text = submittedOption n a' text := by
  unfold submittedOption
  simp only [h]

theorem attr?_orderPairs (order : List Str) (o : Bool) (attrs : Attrs) (hnd : (Dict.keys attrs).Nodup) (k : Str) :
    attr? (strAttrs (Flatland.C11.orderPairs order o attrs)) k = attr? (strAttrs attrs) k := by
  obtain ⟨h1, h2⟩ := get?_orderPairs order o attrs hnd k
  rw [attr?_strAttrs _ h2, attr?_strAttrs _ hnd, h1]

/-- a tag call through `prepareTag` shows a browser the same attributes (up to order) and the same
    text as the transforms on the keyword arguments -/
theorem seenVia_ok {T : Tables} {order : List Str} {g : Gen} {tag : Str} {b : Bind} {kw : Attrs} (hk : kwStable kw)
    {s : Seen} (h : seenVia T order g tag b kw = .ok s) :
    ∃ s', seenOf T g.ctx tag b kw = .ok s' ∧ s.2 = s'.2 ∧ ∀ k, attr? s.1 k = attr? s'.1 k := by
  unfold seenVia at h
  simp only [bind, Except.bind, pure, Except.pure] at h
  cases hp : prepareTag T order g tag (some b) kw with
  | error e => rw [hp] at h; simp at h
  | ok r =>
    rw [hp] at h
    simp only [Except.ok.injEq] at h
    subst h
    obtain ⟨st6, o, ht, hpairs, hb, _⟩ := prepareTag_stable hk hp
    refine ⟨_, seenOf_of_transform ht hb, rfl, ?_⟩
    intro k
    simp only [hpairs]
    exact attr?_orderPairs order o st6.attrs (transform_nodup (st := ⟨kw, none, g.ctx⟩) hk.1 ht) k

/-- the keyword arguments of every tag of a control group reach the transforms as they are -/
def ControlStable : Control → Prop
  | .single _ _ kw => kwStable kw
  | .select _ kw opts => kwStable kw ∧ ∀ o ∈ opts, kwStable o

theorem postsAll_mono {α} (f f' : α → Except PyErr (List Pair)) (cs : List α)
    (h : ∀ c ∈ cs, ∀ p, f c = .ok p → f' c = .ok p) : ∀ ps, postsAll f cs = .ok ps → postsAll f' cs = .ok ps := by
  induction cs with
  | nil => intro ps hps; exact hps
  | cons c cs ih =>
    intro ps hps
    obtain ⟨p, q, hc, hq, rfl⟩ := postsAll_cons hps
    exact postsAll_cons_ok (h c (by simp) p hc) (ih (fun c' hc' => h c' (List.mem_cons_of_mem _ hc')) q hq)

/-- what a control group posts when rendered through `prepareTag` is what it posts in the model of
    the theorems -/
theorem posts_via_of (T : Tables) (order : List Str) (g : Gen) (c : Control) (hc : ControlStable c) (ps : List Pair)
    (h : Control.posts (seenVia T order g) c = .ok ps) : Control.posts (seenOf T g.ctx) c = .ok ps := by
  cases c with
  | single tag b kw =>
    obtain ⟨s, hs, rfl⟩ := posts_single h
    obtain ⟨s', hs', ht, ha⟩ := seenVia_ok hc hs
    rw [posts_single_ok hs', submitted_congr tag s.1 s'.1 s.2 ha, ht]
  | select b kw opts =>
    obtain ⟨s, hs, hopts⟩ := posts_select h
    obtain ⟨s', hs', _, ha⟩ := seenVia_ok hc.1 hs
    unfold Control.posts
    simp only [bind, Except.bind, pure, Except.pure, hs']
    rw [ha sName] at hopts
    refine postsAll_mono _ _ opts ?_ ps hopts
    intro okw hokw p hp
    simp only [bind, Except.bind, pure, Except.pure] at hp ⊢
    cases hso : seenVia T order g sOption b okw with
    | error e => rw [hso] at hp; simp at hp
    | ok so =>
      rw [hso] at hp
      simp only [Except.ok.injEq] at hp
      obtain ⟨so', hso', ht, hao⟩ := seenVia_ok (hc.2 okw hokw) hso
      rw [hso']
      subst hp
      rw [ht, submittedOption_congr _ so.1 so'.1 so'.2 hao]

theorem browserPost_via_of (T : Tables) (order : List Str) (g : Gen) (cs : List Control) (hcs : ∀ c ∈ cs, ControlStable c)
    (ps : List Pair) (h : browserPost (seenVia T order g) cs = .ok ps) : browserPost (seenOf T g.ctx) cs = .ok ps :=
  postsAll_mono _ _ cs (fun c hc p hp => posts_via_of T order g c (hcs c hc) p hp) ps h

end Flatland.C12.Proofs

namespace Flatland.C12.Proofs
open Flatland.Markup Flatland.C12 Flatland.C19.Proofs

/-! ### the keyword arguments of a form's controls are stable -/

theorem kwStable_nil : kwStable [] := ⟨by simp [Dict.keys], by intro k hk; simp [Dict.keys] at hk⟩

theorem kwStable_extra {extra : Attrs} (hex : extraOk extra = true) : kwStable extra := by
  refine ⟨extraOk_nodup hex, fun k hk => ⟨extraOk_stable hex hk, ?_⟩⟩
  intro hc
  subst hc
  exact not_mem_keys_of_get? (extraOk_get? hex (by decide)) hk

theorem kwStable_cons (k : Str) (v : Val) (kw : Attrs) (hk : rstripUnderscore k = k) (hc : k ≠ "contents".toList)
    (hnot : Dict.get? kw k = none) (h : kwStable kw) : kwStable ((k, v) :: kw) := by
  refine ⟨?_, ?_⟩
  · simp only [Dict.keys, List.map_cons, List.nodup_cons]
    exact ⟨not_mem_keys_of_get? hnot, h.1⟩
  · intro k' hk'
    simp only [Dict.keys, List.map_cons, List.mem_cons] at hk'
    rcases hk' with rfl | hk'
    · exact ⟨hk, hc⟩
    · exact h.2 k' hk'

theorem kwStable_kwInput (ty : Option Str) (extra : Attrs) (hex : extraOk extra = true) : kwStable (kwInput ty extra) := by
  cases ty with
  | none => exact kwStable_extra hex
  | some t =>
    exact kwStable_cons sType _ extra (by decide) (by decide) (extraOk_get? hex mem_reserved_type) (kwStable_extra hex)

theorem kwStable_kwOption (lit : Str) (extra : Attrs) (hex : extraOk extra = true) : kwStable (kwOption lit extra) :=
  kwStable_cons sValue _ extra (by decide) (by decide) (extraOk_get? hex mem_reserved_value) (kwStable_extra hex)

theorem kwStable_kwCheck (ty lit : Str) (extra : Attrs) (hex : extraOk extra = true) : kwStable (kwCheck ty lit extra) := by
  refine kwStable_cons sType _ _ (by decide) (by decide) ?_ (kwStable_kwOption lit extra hex)
  have := get?_kwOption_other lit extra sType (by decide)
  rw [kwOption] at this
  rw [this]
  exact extraOk_get? hex mem_reserved_type

theorem kwStable_multiple : kwStable [(sMultiple, .text sMultiple)] :=
  kwStable_cons sMultiple _ [] (by decide) (by decide) rfl kwStable_nil

/-! ### … and they render through `prepareTag`, leaving the generator as it was -/

/-- the `ordered_attributes` setting is a plain bool (as `Generator.__init__` leaves it) -/
def OrderedSet (ctx : Ctx) : Prop := ∃ o, ctx.getItem "ordered_attributes".toList = .ok (.bool o)

theorem prepareTag_of_renders {T : Tables} {order : List Str} {g : Gen} {tag : Str} {b : Bind} {kw : Attrs}
    (hk : kwStable kw) (hr : Renders T g.ctx tag b kw) (ho : OrderedSet g.ctx) :
    ∃ r, prepareTag T order g tag (some b) kw = .ok r ∧ r.ctx = g.ctx := by
  obtain ⟨st6, body, ht, hctx, hb⟩ := hr
  obtain ⟨o, ho⟩ := ho
  obtain ⟨e1, e2⟩ := transformKeys_stable kw hk
  unfold prepareTag
  simp only [bind, Except.bind]
  rw [e1, e2, ht]
  simp only [hctx, ho]
  cases hc : st6.contents with
  | none => exact ⟨_, rfl, rfl⟩
  | some v =>
    rw [hc] at hb
    cases v with
    | text s => exact ⟨_, rfl, rfl⟩
    | markup s => exact ⟨_, rfl, rfl⟩
    | maybe => simp [bodyOf] at hb
    | bool bb =>
      cases bb with
      | false => exact ⟨_, rfl, rfl⟩
      | true => simp [bodyOf] at hb

theorem seenVia_of_renders {T : Tables} {order : List Str} {g : Gen} {tag : Str} {b : Bind} {kw : Attrs}
    (hk : kwStable kw) (hr : Renders T g.ctx tag b kw) (ho : OrderedSet g.ctx) :
    ∃ s, seenVia T order g tag b kw = .ok s := by
  obtain ⟨r, hp, _⟩ := prepareTag_of_renders (order := order) hk hr ho
  unfold seenVia
  simp only [bind, Except.bind, pure, Except.pure, hp]
  exact ⟨_, rfl⟩

theorem fresh_ordered : OrderedSet freshGen.ctx := ⟨true, by decide⟩

end Flatland.C12.Proofs
