/-
C14, the work list without the `Uni` hypothesis: the FIFO work list of `PathExpression.__call__`
computes the depth-first reading WITH the explicit precedence of errors (`denOrd`: smaller slice
depth first, sequence order within one depth) — for every op list, strict or not, with or without
slice steps written as 0.
-/
import Flatland.Path
import Flatland.Spec.C14
import Proofs.Lemmas.C14Work
namespace Flatland.C14.Proofs
open Flatland.Path Flatland.C14.Spec

/-! ### depth bookkeeping -/

/-- every error of `r` arises at depth `m` or deeper -/
def GeDepth (m : Nat) : Ranked → Prop
  | .ok _ => True
  | .err d _ => m ≤ d

/-- every error of `r` arises at depth `m` exactly -/
def AtDepth (m : Nat) : Ranked → Prop
  | .ok _ => True
  | .err d _ => d = m

theorem GeDepth.mono {m n : Nat} (h : m ≤ n) : ∀ r : Ranked, GeDepth n r → GeDepth m r
  | .ok _, _ => trivial
  | .err d _, hd => Nat.le_trans h hd

theorem merge_geDepth (m : Nat) : ∀ a b : Ranked, GeDepth m a → GeDepth m b → GeDepth m (a.merge b)
  | .ok _, .ok _, _, _ => trivial
  | .ok _, .err _ _, _, hb => hb
  | .err _ _, .ok _, ha, _ => ha
  | .err d e, .err d' e', ha, hb => by
    simp only [Ranked.merge]
    split
    · exact hb
    · exact ha

theorem flatMapR_geDepth (m : Nat) (f : Pos → Ranked) (hf : ∀ x, GeDepth m (f x)) :
    ∀ xs : List Pos, GeDepth m (flatMapR f xs)
  | [] => trivial
  | x :: xs => merge_geDepth m _ _ (hf x) (flatMapR_geDepth m f hf xs)

theorem merge_assoc : ∀ a b c : Ranked, (a.merge b).merge c = a.merge (b.merge c)
  | .ok _, .ok _, .ok _ => by simp [Ranked.merge]
  | .ok _, .ok _, .err _ _ => rfl
  | .ok _, .err _ _, .ok _ => rfl
  | .err _ _, .ok _, .ok _ => rfl
  | .ok _, .err d e, .err d' e' => by
    by_cases h : d' < d <;> simp [Ranked.merge, h]
  | .err d e, .ok _, .err d' e' => rfl
  | .err d e, .err d' e', .ok _ => by
    by_cases h : d' < d <;> simp [Ranked.merge, h]
  | .err d e, .err d' e', .err d'' e'' => by
    simp only [Ranked.merge]
    by_cases h1 : d' < d <;> by_cases h2 : d'' < d' <;> by_cases h3 : d'' < d <;>
      simp only [h1, h2, h3, if_true, if_false, Ranked.merge] <;> first | rfl | omega

theorem flatMapR_append (f : Pos → Ranked) : ∀ xs ys : List Pos,
    flatMapR f (xs ++ ys) = (flatMapR f xs).merge (flatMapR f ys)
  | [], ys => by
    simp only [List.nil_append, flatMapR]
    cases flatMapR f ys <;> simp [Ranked.merge]
  | x :: xs, ys => by
    simp only [List.cons_append, flatMapR, flatMapR_append f xs ys, merge_assoc]

/-- errors that all arise at the same depth come in sequence order: the first one wins -/
theorem flatMapR_atDepth (m : Nat) (f : Pos → Ranked) (hf : ∀ x, AtDepth m (f x)) :
    ∀ xs : List Pos, AtDepth m (flatMapR f xs) ∧
      (flatMapR f xs).forget = flatMapM (fun x => (f x).forget) xs
  | [] => ⟨trivial, rfl⟩
  | x :: xs => by
    obtain ⟨ih1, ih2⟩ := flatMapR_atDepth m f hf xs
    have hx := hf x
    simp only [flatMapR, flatMapM]
    rw [← ih2]
    cases hfx : f x with
    | ok a =>
      cases hr : flatMapR f xs with
      | ok b => exact ⟨trivial, rfl⟩
      | err d e => rw [hr] at ih1; exact ⟨ih1, rfl⟩
    | err d e =>
      rw [hfx] at hx
      cases hr : flatMapR f xs with
      | ok b => exact ⟨hx, rfl⟩
      | err d' e' =>
        rw [hr] at ih1
        simp only [AtDepth] at hx ih1
        subst hx; subst ih1
        simp [Ranked.merge, AtDepth, Ranked.forget]

/-- a slice step: the errors of the step itself (depth `m`) come before every error below it
    (depth > `m`), whatever the sequence order says -/
theorem flatMapR_bind (m : Nat) (s : Pos → Except Err (List Pos)) (g : Pos → Ranked)
    (hg : ∀ k, GeDepth (m + 1) (g k)) :
    ∀ els : List Pos,
      flatMapR (fun el => match s el with
          | .error e => Ranked.err m e
          | .ok ks => flatMapR g ks) els
        = match flatMapM s els with
          | .error e => Ranked.err m e
          | .ok ks => flatMapR g ks
  | [] => rfl
  | el :: els => by
    simp only [flatMapR, flatMapM]
    rw [flatMapR_bind m s g hg els]
    cases hs : s el with
    | error e =>
      simp only []
      cases hr : flatMapM s els with
      | error e' => simp [Ranked.merge]
      | ok ks =>
        simp only []
        have := flatMapR_geDepth (m + 1) g hg ks
        cases hk : flatMapR g ks with
        | ok _ => rfl
        | err d' e' =>
          rw [hk] at this
          simp only [GeDepth] at this
          simp only [Ranked.merge]
          rw [if_neg (by omega)]
    | ok ks1 =>
      simp only []
      cases hr : flatMapM s els with
      | error e' =>
        simp only []
        have := flatMapR_geDepth (m + 1) g hg ks1
        cases hk : flatMapR g ks1 with
        | ok _ => rfl
        | err d e =>
          rw [hk] at this
          simp only [GeDepth] at this
          simp only [Ranked.merge]
          rw [if_pos (by omega)]
      | ok ks2 =>
        simp only []
        rw [flatMapR_append]

/-! ### one context -/

theorem denOrd_of_runCtx (root : Node) (strict : Bool) :
    ∀ (ops : List Op) (d : Nat) (el : Pos),
      denOrd root strict ops d el =
        match runCtx root strict ops el with
        | .error e => .err d e
        | .ok (.found p) => .ok [p]
        | .ok .dead => .ok []
        | .ok (.spawn rest kids) => flatMapR (denOrd root strict rest (d + 1)) kids
  | [], d, el => by simp [denOrd, runCtx]
  | .top :: r, d, el => by simp only [denOrd, runCtx]; exact denOrd_of_runCtx root strict r d []
  | .up :: r, d, el => by simp only [denOrd, runCtx]; exact denOrd_of_runCtx root strict r d _
  | .here :: r, d, el => by simp only [denOrd, runCtx]; exact denOrd_of_runCtx root strict r d _
  | .name s :: r, d, el => by
    simp only [denOrd, runCtx]
    cases hi : indexAt root el s with
    | some i => simp only []; exact denOrd_of_runCtx root strict r d _
    | none => cases strict <;> simp
  | .slice a b c :: r, d, el => by
    simp only [denOrd, runCtx]
    split <;> rfl

theorem denOrd_geDepth (root : Node) (strict : Bool) :
    ∀ (ops : List Op) (d : Nat) (el : Pos), GeDepth d (denOrd root strict ops d el)
  | [], d, el => trivial
  | .top :: r, d, el => by simp only [denOrd]; exact denOrd_geDepth root strict r d []
  | .up :: r, d, el => by simp only [denOrd]; exact denOrd_geDepth root strict r d _
  | .here :: r, d, el => by simp only [denOrd]; exact denOrd_geDepth root strict r d _
  | .name s :: r, d, el => by
    simp only [denOrd]
    split
    · exact denOrd_geDepth root strict r d _
    · split
      · exact Nat.le_refl d
      · trivial
  | .slice a b c :: r, d, el => by
    simp only [denOrd]
    split
    · exact Nat.le_refl d
    · exact GeDepth.mono (Nat.le_succ d) _
        (flatMapR_geDepth (d + 1) _ (fun k => denOrd_geDepth root strict r (d + 1) k) _)

/-- slice-free ops: one context, errors at the current depth, and the plain reading -/
theorem denOrd_none (root : Node) (strict : Bool) (ops : List Op) (h : afterSlice ops = none)
    (d : Nat) (el : Pos) :
    AtDepth d (denOrd root strict ops d el) ∧
      (denOrd root strict ops d el).forget = denOps root strict ops el := by
  have hs := runCtx_shape root strict ops el
  rw [h] at hs
  rw [denOrd_of_runCtx, denOps_of_runCtx]
  cases hr : runCtx root strict ops el with
  | error e => exact ⟨rfl, rfl⟩
  | ok r =>
    rw [hr] at hs
    cases r with
    | found p => exact ⟨trivial, rfl⟩
    | dead => exact ⟨trivial, rfl⟩
    | spawn rest kids => exact absurd hs (by simp)

/-- ops with a slice: the context's own outcome (depth `d`), then the rest below each child -/
theorem denOrd_some (root : Node) (strict : Bool) (ops rest : List Op) (h : afterSlice ops = some rest)
    (d : Nat) (el : Pos) :
    denOrd root strict ops d el =
      match spawnOf root strict ops el with
      | .error e => .err d e
      | .ok ks => flatMapR (denOrd root strict rest (d + 1)) ks := by
  have hs := runCtx_shape root strict ops el
  rw [h] at hs
  rw [denOrd_of_runCtx]
  unfold spawnOf
  cases hr : runCtx root strict ops el with
  | error e => rfl
  | ok r =>
    rw [hr] at hs
    cases r with
    | found p => exact absurd hs (by simp)
    | dead => rfl
    | spawn rest' kids =>
      simp only [] at hs
      subst hs
      rfl

/-! ### a whole level, without `Uni` -/

theorem work_level_gen (root : Node) (strict : Bool) :
    ∀ (n : Nat) (ops : List Op), ops.length ≤ n → ∀ (d : Nat) (els : List Pos),
      work root strict (els.map (fun el => (ops, el)))
        = (flatMapR (denOrd root strict ops d) els).forget
  | n, ops, hn, d, els => by
    have hw := work_pass root strict (els.map (fun el => (ops, el))) []
    rw [List.append_nil] at hw
    rw [hw]
    cases ha : afterSlice ops with
    | none =>
      rw [pass_none root strict ops ha els]
      have hA := flatMapR_atDepth d (denOrd root strict ops d)
        (fun x => (denOrd_none root strict ops ha d x).1) els
      rw [hA.2]
      have hfun : (fun x => (denOrd root strict ops d x).forget) = denOps root strict ops :=
        funext (fun x => (denOrd_none root strict ops ha d x).2)
      rw [hfun]
      cases flatMapM (denOps root strict ops) els with
      | error e => rfl
      | ok fs => simp [work]
    | some rest =>
      have hlt := afterSlice_length ops rest ha
      rw [pass_some root strict ops rest ha els]
      have hfun : denOrd root strict ops d
          = fun el => match spawnOf root strict ops el with
            | .error e => Ranked.err d e
            | .ok ks => flatMapR (denOrd root strict rest (d + 1)) ks :=
        funext (denOrd_some root strict ops rest ha d)
      rw [hfun, flatMapR_bind d _ _ (fun k => denOrd_geDepth root strict rest (d + 1) k)]
      cases flatMapM (spawnOf root strict ops) els with
      | error e => rfl
      | ok ks =>
        simp only [andThen_ok, List.nil_append]
        match n, hn with
        | 0, hn => omega
        | n + 1, hn =>
          rw [work_level_gen root strict n rest (by omega) (d + 1) ks]
          cases (flatMapR (denOrd root strict rest (d + 1)) ks).forget <;> rfl

/-! ### one kind of error only: the precedence is immaterial -/

theorem flatMapR_forget_onlyErr (e0 : Err) (f : Pos → Ranked) (hf : ∀ x, OnlyErr e0 (f x).forget) :
    ∀ xs : List Pos, (flatMapR f xs).forget = flatMapM (fun x => (f x).forget) xs
  | [] => rfl
  | x :: xs => by
    have ih := flatMapR_forget_onlyErr e0 f hf xs
    have hx := hf x
    have hxs : OnlyErr e0 (flatMapR f xs).forget := by
      rw [ih]; exact flatMapM_onlyLookup _ xs hf
    simp only [flatMapR, flatMapM]
    rw [← ih]
    cases hfx : f x with
    | ok a =>
      cases hr : flatMapR f xs with
      | ok b => rfl
      | err d e => rfl
    | err d e =>
      rw [hfx] at hx
      cases hr : flatMapR f xs with
      | ok b => rfl
      | err d' e' =>
        rw [hr] at hxs
        have h1 : e = e0 := hx e rfl
        have h2 : e' = e0 := hxs e' rfl
        subst h1; subst h2
        by_cases h : d' < d <;> simp [Ranked.merge, Ranked.forget, h]

/-- under `Uni` (no zero stride, or non-strict lookups) `denOrd` forgets to the plain depth-first
    reading `denOps`, at every depth -/
theorem denOrd_forget_of_uni' (root : Node) (strict : Bool) :
    ∀ (ops : List Op), Uni strict ops → ∀ (d : Nat) (el : Pos),
      (denOrd root strict ops d el).forget = denOps root strict ops el
  | [], _, d, el => rfl
  | .top :: r, hu, d, el => by
    simp only [denOrd, denOps]
    exact denOrd_forget_of_uni' root strict r (hu.imp (by simp [NoZero, Op.stepOk]) id) d []
  | .up :: r, hu, d, el => by
    simp only [denOrd, denOps]
    exact denOrd_forget_of_uni' root strict r (hu.imp (by simp [NoZero, Op.stepOk]) id) d _
  | .here :: r, hu, d, el => by
    simp only [denOrd, denOps]
    exact denOrd_forget_of_uni' root strict r (hu.imp (by simp [NoZero, Op.stepOk]) id) d _
  | .name s :: r, hu, d, el => by
    simp only [denOrd, denOps]
    cases indexAt root el s with
    | some i =>
      simp only []
      exact denOrd_forget_of_uni' root strict r (hu.imp (by simp [NoZero, Op.stepOk]) id) d _
    | none => cases strict <;> rfl
  | .slice a b c :: r, hu, d, el => by
    have hu' : Uni strict r := hu.imp (by
      intro h; simp only [NoZero, List.all_cons, Bool.and_eq_true] at h; exact h.2) id
    simp only [denOrd, denOps]
    split
    · rfl
    · have hfun : (fun x => (denOrd root strict r (d + 1) x).forget) = denOps root strict r :=
        funext (fun x => denOrd_forget_of_uni' root strict r hu' (d + 1) x)
      rw [flatMapR_forget_onlyErr (errOf strict) _
        (fun x => by rw [denOrd_forget_of_uni' root strict r hu' (d + 1) x]
                     exact denOps_onlyErr root strict r hu' x), hfun]

end Flatland.C14.Proofs
