/-
Path-level view of `flatten`: the queue loop emitting the *token path* of each element instead of
the separator-joined key.  `bfsFlat` is its image under `joinSep`.  Lemmas: level order,
selection of a subtree by a path predicate, shifting by a common prefix.
-/
import Flatland.Flat
import Proofs.Lemmas.FlatBfs
namespace Flatland.Flat

abbrev PPair := List Str × Str

def ownPath (it : QItem) : List PPair :=
  if it.2.fl then [(namePath it.1 it.2, it.2.u)] else []

/-- the queue loop of `flatten`, emitting token paths -/
def bfsPath : List QItem → List PPair
  | [] => []
  | it :: q => ownPath it ++ bfsPath (q ++ pushed it)
termination_by q => qsize q
decreasing_by
  have h := qsize_pushed_lt it
  rw [qsize_append, qsize_cons it q]
  omega

theorem bfsPath_nil : bfsPath [] = [] := by rw [bfsPath]

theorem bfsPath_cons (it : QItem) (q : List QItem) :
    bfsPath (it :: q) = ownPath it ++ bfsPath (q ++ pushed it) := by rw [bfsPath]

theorem bfsPath_append (q r : List QItem) :
    bfsPath (q ++ r) = q.flatMap ownPath ++ bfsPath (r ++ q.flatMap pushed) := by
  induction q generalizing r with
  | nil => simp
  | cons it q ih =>
    simp only [List.cons_append, bfsPath_cons, List.flatMap_cons]
    rw [List.append_assoc, ih]
    simp [List.append_assoc]

theorem bfsPath_level (q : List QItem) :
    bfsPath q = q.flatMap ownPath ++ bfsPath (q.flatMap pushed) := by
  have := bfsPath_append q []
  simpa using this

def joinPair (sep : Str) (x : PPair) : Str × Str := (joinSep sep x.1, x.2)

theorem ownPair_eq_map (sep : Str) (it : QItem) : ownPair sep it = (ownPath it).map (joinPair sep) := by
  unfold ownPair ownPath joinPair
  split <;> simp

/-- the string-level output is the path-level output with every path joined by the separator -/
theorem bfsFlat_eq_map (sep : Str) (q : List QItem) :
    bfsFlat sep q = (bfsPath q).map (joinPair sep) := by
  induction h : qsize q using Nat.strongRecOn generalizing q with
  | _ n ih =>
    cases q with
    | nil => simp [bfsFlat_nil, bfsPath_nil]
    | cons it q =>
      rw [bfsFlat_level, bfsPath_level]
      have hs := qsize_flatMap_pushed (it :: q)
      simp only [List.length_cons] at hs
      rw [ih _ (by omega) _ rfl]
      have hfm : ∀ l : List QItem, l.flatMap (ownPair sep) = (l.flatMap ownPath).map (joinPair sep) := by
        intro l
        induction l with
        | nil => simp
        | cons a as iha => simp [List.flatMap_cons, iha, ownPair_eq_map]
      rw [hfm, List.map_append]

/-- Selecting from the output the pairs that satisfy a predicate which is constant on each
    element's whole subtree gives the output of the selected elements alone — in the same order
    (level order restricted to a set of subtrees is the level order of those subtrees). -/
theorem bfsPath_filter (sel : QItem → Bool) (P : PPair → Bool)
    (hown : ∀ it x, x ∈ ownPath it → P x = sel it)
    (hpush : ∀ it c, c ∈ pushed it → sel c = sel it) (q : List QItem) :
    (bfsPath q).filter P = bfsPath (q.filter sel) := by
  induction h : qsize q using Nat.strongRecOn generalizing q with
  | _ n ih =>
    cases q with
    | nil => simp [bfsPath_nil]
    | cons it q =>
      rw [bfsPath_level, bfsPath_level ((it :: q).filter sel)]
      have hs := qsize_flatMap_pushed (it :: q)
      simp only [List.length_cons] at hs
      rw [List.filter_append, ih _ (by omega) _ rfl]
      congr 1
      · -- own pairs
        generalize (it :: q) = l
        induction l with
        | nil => simp
        | cons a as iha =>
          simp only [List.flatMap_cons, List.filter_append, iha, List.filter_cons]
          by_cases hsel : sel a = true
          · simp only [hsel, if_true, List.flatMap_cons]
            congr 1
            apply List.filter_eq_self.mpr
            intro x hx; rw [hown a x hx, hsel]
          · simp only [hsel, if_false, Bool.false_eq_true]
            have : (ownPath a).filter P = [] := by
              apply List.filter_eq_nil_iff.mpr
              intro x hx; rw [hown a x hx]; simpa using hsel
            simp [this]
      · -- pushed items
        congr 1
        generalize (it :: q) = l
        induction l with
        | nil => simp
        | cons a as iha =>
          simp only [List.flatMap_cons, List.filter_append, iha, List.filter_cons]
          by_cases hsel : sel a = true
          · simp only [hsel, if_true, List.flatMap_cons]
            congr 1
            apply List.filter_eq_self.mpr
            intro c hc; rw [hpush a c hc, hsel]
          · simp only [hsel, if_false, Bool.false_eq_true]
            have : (pushed a).filter sel = [] := by
              apply List.filter_eq_nil_iff.mpr
              intro c hc; rw [hpush a c hc]; simpa using hsel
            simp [this]

/-- shift every queue item below a common path prefix -/
def shift (π : List Str) (it : QItem) : QItem := (π ++ it.1, it.2)

theorem namePath_shift (π p : List Str) (n : FNode) : namePath (π ++ p) n = π ++ namePath p n := by
  simp [namePath, List.append_assoc]

theorem kidsFrom_shift (π p : List Str) (s : Bool) (i : Nat) (ks : List FNode) :
    kidsFrom (π ++ p) s i ks = (kidsFrom p s i ks).map (shift π) := by
  induction ks generalizing i with
  | nil => simp [kidsFrom]
  | cons k ks ih =>
    simp only [kidsFrom, List.map_cons, ih, shift]
    congr 2
    split <;> simp [List.append_assoc]

theorem pushed_shift (π : List Str) (it : QItem) : pushed (shift π it) = (pushed it).map (shift π) := by
  obtain ⟨p, n⟩ := it
  simp only [pushed, shift, childItems]
  by_cases h : n.cfl = true
  · simp only [h, if_true]; rw [namePath_shift, kidsFrom_shift]
  · simp [h]

theorem ownPath_shift (π : List Str) (it : QItem) :
    ownPath (shift π it) = (ownPath it).map (fun x => (π ++ x.1, x.2)) := by
  obtain ⟨p, n⟩ := it
  simp only [ownPath, shift]
  by_cases h : n.fl = true
  · simp [h, namePath_shift]
  · simp [h]

theorem bfsPath_shift (π : List Str) (q : List QItem) :
    bfsPath (q.map (shift π)) = (bfsPath q).map (fun x => (π ++ x.1, x.2)) := by
  induction h : qsize q using Nat.strongRecOn generalizing q with
  | _ n ih =>
    cases q with
    | nil => simp [bfsPath_nil]
    | cons it q =>
      rw [bfsPath_level, bfsPath_level (it :: q)]
      have hs := qsize_flatMap_pushed (it :: q)
      simp only [List.length_cons] at hs
      simp only [List.map_append]
      congr 1
      · simp only [List.flatMap_map, List.map_flatMap, ownPath_shift]
      · have : ((it :: q).map (shift π)).flatMap pushed = ((it :: q).flatMap pushed).map (shift π) := by
          simp only [List.flatMap_map, List.map_flatMap, pushed_shift]
        rw [this, ih _ (by omega) _ rfl]

/-- what an item pushes lies below it: the name path only grows -/
theorem namePath_kidsFrom (p : List Str) (s : Bool) (i : Nat) (ks : List FNode) (c : QItem)
    (hc : c ∈ kidsFrom p s i ks) : ∃ ext, namePath c.1 c.2 = p ++ ext := by
  induction ks generalizing i with
  | nil => simp [kidsFrom] at hc
  | cons k ks ih =>
    simp only [kidsFrom, List.mem_cons] at hc
    rcases hc with rfl | h
    · simp only [namePath]
      split
      · exact ⟨[natStr i] ++ k.name.toList, by simp [List.append_assoc]⟩
      · exact ⟨k.name.toList, rfl⟩
    · exact ih (i + 1) h

theorem namePath_pushed (it c : QItem) (hc : c ∈ pushed it) :
    ∃ ext, namePath c.1 c.2 = namePath it.1 it.2 ++ ext := by
  obtain ⟨p, n⟩ := it
  simp only [pushed] at hc
  split at hc
  · exact namePath_kidsFrom _ _ _ _ c hc
  · simp at hc

/-- selecting by the first token of the path selects whole subtrees -/
theorem bfsPath_filter_head (t : Str) (q : List QItem) (hq : ∀ it ∈ q, namePath it.1 it.2 ≠ []) :
    (bfsPath q).filter (fun x => x.1.head? == some t)
      = bfsPath (q.filter (fun it => (namePath it.1 it.2).head? == some t)) := by
  induction h : qsize q using Nat.strongRecOn generalizing q with
  | _ n ih =>
    cases q with
    | nil => simp [bfsPath_nil]
    | cons it q =>
      rw [bfsPath_level, bfsPath_level ((it :: q).filter _)]
      have hs := qsize_flatMap_pushed (it :: q)
      simp only [List.length_cons] at hs
      have hq' : ∀ c ∈ (it :: q).flatMap pushed, namePath c.1 c.2 ≠ [] := by
        intro c hc
        obtain ⟨a, ha, hca⟩ := List.mem_flatMap.mp hc
        obtain ⟨ext, he⟩ := namePath_pushed a c hca
        rw [he]
        have := hq a ha
        intro hnil
        exact this (List.append_eq_nil_iff.mp hnil).1
      rw [List.filter_append, ih _ (by omega) _ hq' rfl]
      generalize (it :: q) = l at hq
      congr 1
      · induction l with
        | nil => simp
        | cons a as iha =>
          have hqa : ∀ it ∈ as, namePath it.1 it.2 ≠ [] := fun x hx => hq x (List.mem_cons_of_mem _ hx)
          simp only [List.flatMap_cons, List.filter_append, iha hqa, List.filter_cons]
          by_cases hsel : ((namePath a.1 a.2).head? == some t) = true
          · simp only [hsel, if_true, List.flatMap_cons]
            congr 1
            apply List.filter_eq_self.mpr
            intro x hx
            unfold ownPath at hx
            split at hx <;> simp at hx
            subst hx; exact hsel
          · simp only [hsel, if_false, Bool.false_eq_true]
            have : (ownPath a).filter (fun x => x.1.head? == some t) = [] := by
              apply List.filter_eq_nil_iff.mpr
              intro x hx
              unfold ownPath at hx
              split at hx <;> simp at hx
              subst hx; exact hsel
            simp [this]
      · congr 1
        induction l with
        | nil => simp
        | cons a as iha =>
          have hqa : ∀ it ∈ as, namePath it.1 it.2 ≠ [] := fun x hx => hq x (List.mem_cons_of_mem _ hx)
          have hne := hq a (by simp)
          have hkid : ∀ c ∈ pushed a, ((namePath c.1 c.2).head? == some t)
              = ((namePath a.1 a.2).head? == some t) := by
            intro c hc
            obtain ⟨ext, he⟩ := namePath_pushed a c hc
            rw [he]
            cases hnp : namePath a.1 a.2 with
            | nil => exact absurd hnp hne
            | cons x xs => simp
          simp only [List.flatMap_cons, List.filter_append, iha hqa, List.filter_cons]
          by_cases hsel : ((namePath a.1 a.2).head? == some t) = true
          · simp only [hsel, if_true, List.flatMap_cons]
            congr 1
            apply List.filter_eq_self.mpr
            intro c hc; rw [hkid c hc]; exact hsel
          · simp only [hsel, if_false, Bool.false_eq_true]
            have : (pushed a).filter (fun it => (namePath it.1 it.2).head? == some t) = [] := by
              apply List.filter_eq_nil_iff.mpr
              intro c hc; rw [hkid c hc]; exact hsel
            simp [this]

/-- every emitted path extends the name path of some item of the queue -/
theorem bfsPath_mem (q : List QItem) (x : PPair) (hx : x ∈ bfsPath q) :
    ∃ it ∈ q, ∃ ext, x.1 = namePath it.1 it.2 ++ ext := by
  induction h : qsize q using Nat.strongRecOn generalizing q with
  | _ n ih =>
    cases q with
    | nil => simp [bfsPath_nil] at hx
    | cons it q =>
      rw [bfsPath_level] at hx
      have hs := qsize_flatMap_pushed (it :: q)
      simp only [List.length_cons] at hs
      rcases List.mem_append.mp hx with h1 | h1
      · obtain ⟨a, ha, hxa⟩ := List.mem_flatMap.mp h1
        unfold ownPath at hxa
        split at hxa <;> simp at hxa
        exact ⟨a, ha, [], by simp [hxa]⟩
      · obtain ⟨c, hc, ext, he⟩ := ih _ (by omega) _ h1 rfl
        obtain ⟨a, ha, hca⟩ := List.mem_flatMap.mp hc
        obtain ⟨ext2, he2⟩ := namePath_pushed a c hca
        exact ⟨a, ha, ext2 ++ ext, by rw [he, he2, List.append_assoc]⟩

end Flatland.Flat
