/-
The controls of a form DO render on a generator whose id / for / tabindex / filter transforms are
switched off (true of `Generator()`): every `seenOf` of `Proofs/Lemmas/C12FormControls.lean` is `.ok`,
and the context is left as it was.
-/
import Proofs.Lemmas.C12FormControls
namespace Flatland.C12.Proofs
open Flatland.Markup Flatland.C12 Flatland.C19.Proofs

/-- the four later transforms are switched off in the context and their settings are readable -/
structure Quiet (T : Tables) (ctx : Ctx) : Prop where
  domidOff : Disabled T ctx "auto_domid".toList
  forOff : Disabled T ctx "auto_for".toList
  tabindexOff : Disabled T ctx "auto_tabindex".toList
  filterOff : Disabled T ctx "auto_filter".toList
  filters : ∃ v, ctx.getItem "filters".toList = .ok v

theorem disabled_of_top (T : Tables) (ctx : Ctx) (key : Str) (b : Bool) (v : CVal) (t : Trool)
    (hdef : Dict.get? T.defaultContext key = some (.bool b))
    (hv : Dict.get? ctx.top key = some v) (ht : T.parseTroolC v = .ok t)
    (hres : (match t with | .yes => true | .no => false | .maybe => b) = false) :
    Disabled T ctx key := by
  intro attrs hno
  rw [popToggle_eq T key attrs ctx b v t hdef hv ht, hno]
  simp only [Option.getD_none]
  have : T.parseTrool .maybe = .maybe := rfl
  rw [this]
  cases t <;> simp_all

/-- `Generator()` leaves ids, `for`, tabindex and filters alone -/
theorem fresh_quiet : Quiet Tables.current freshGen.ctx :=
  ⟨disabled_of_top _ _ _ false (.bool false) .no (by decide) (by decide) (by decide) (by decide),
   disabled_of_top _ _ _ false (.bool false) .no (by decide) (by decide) (by decide) (by decide),
   disabled_of_top _ _ _ false (.bool false) .no (by decide) (by decide) (by decide) (by decide),
   disabled_of_top _ _ _ false (.bool false) .no (by decide) (by decide) (by decide) (by decide),
   ⟨.opaque ['(', ')'], by decide⟩⟩

theorem fresh_live : Live Tables.current freshGen.ctx := ⟨fresh_enabled.1, fresh_enabled.2⟩

/-- options of the later transforms -/
def laterKeys : List Str := ["auto_domid".toList, "auto_for".toList, "auto_tabindex".toList, "auto_filter".toList]

theorem domid_id (T : Tables) (tag : Str) (bnd : Option Bind) (st : TState) (h : Disabled T st.ctx "auto_domid".toList)
    (hno : Dict.get? st.attrs "auto_domid".toList = none) : transformDomid T tag bnd st = .ok st := by
  have hp := h st.attrs hno
  rw [erase_absent _ _ hno] at hp
  unfold transformDomid
  simp only [bind, Except.bind, pure, Except.pure, hp, Bool.not_false, if_true]

theorem for_id (T : Tables) (tag : Str) (bnd : Option Bind) (st : TState) (h : Disabled T st.ctx "auto_for".toList)
    (hno : Dict.get? st.attrs "auto_for".toList = none) (htag : tag ≠ sLabel) : transformFor T tag bnd st = .ok st := by
  have hp := h st.attrs hno
  rw [erase_absent _ _ hno] at hp
  unfold transformFor
  simp only [bind, Except.bind, pure, Except.pure, hp, Bool.false_and, Bool.false_eq_true, if_false, htag]

theorem tabindex_id (T : Tables) (tag : Str) (bnd : Option Bind) (st : TState)
    (h : Disabled T st.ctx "auto_tabindex".toList)
    (hno : Dict.get? st.attrs "auto_tabindex".toList = none) : transformTabindex T tag bnd st = .ok st := by
  have hp := h st.attrs hno
  rw [erase_absent _ _ hno] at hp
  unfold transformTabindex
  simp only [bind, Except.bind, pure, Except.pure, hp, Bool.not_false, if_true]

theorem filters_id (T : Tables) (tag : Str) (bnd : Option Bind) (st : TState)
    (h : Disabled T st.ctx "auto_filter".toList) (hf : ∃ v, st.ctx.getItem "filters".toList = .ok v)
    (hno : Dict.get? st.attrs "auto_filter".toList = none) : transformFilters T tag bnd st = .ok st := by
  have hp := h st.attrs hno
  rw [erase_absent _ _ hno] at hp
  obtain ⟨v, hv⟩ := hf
  unfold transformFilters
  simp only [bind, Except.bind, pure, Except.pure, hp, hv]

/-- after the name and value steps, a quiet generator adds nothing: the tag renders with the
    attributes and contents those two steps left, and the context is untouched -/
theorem transform_of_steps (T : Tables) (ctx : Ctx) (hQ : Quiet T ctx) (tag : Str) (b : Bind) (kw : Attrs)
    (s1 s2 : TState) (h1 : transformName T tag (some b) ⟨kw, none, ctx⟩ = .ok s1)
    (h2 : transformValue T tag (some b) s1 = .ok s2) (hctx : s2.ctx = ctx) (htag : tag ≠ sLabel)
    (hopts : ∀ k ∈ laterKeys, Dict.get? kw k = none) :
    transform T tag (some b) ⟨kw, none, ctx⟩ = .ok s2 := by
  have hk : ∀ k ∈ laterKeys, Dict.get? s2.attrs k = none := by
    intro k hk
    have hne : k ≠ sValue ∧ k ≠ "auto_value".toList ∧ k ≠ sChecked ∧ k ≠ sSelected ∧ k ≠ sName ∧
        k ≠ "auto_name".toList := by
      simp only [laterKeys, List.mem_cons, List.not_mem_nil, or_false] at hk
      rcases hk with rfl | rfl | rfl | rfl <;> decide
    rw [transformValue_frame k h2 hne.1 hne.2.1 hne.2.2.1 hne.2.2.2.1, transformName_frame k h1 hne.2.2.2.2.1 hne.2.2.2.2.2]
    exact hopts k hk
  subst hctx
  unfold transform
  simp only [bind, Except.bind, h1, h2,
    domid_id T tag (some b) s2 hQ.domidOff (hk _ (by decide)),
    for_id T tag (some b) s2 hQ.forOff (hk _ (by decide)) htag,
    tabindex_id T tag (some b) s2 hQ.tabindexOff (hk _ (by decide)),
    filters_id T tag (some b) s2 hQ.filterOff hQ.filters (hk _ (by decide))]

theorem extraOk_later {a : Attrs} (h : extraOk a = true) : ∀ k ∈ laterKeys, Dict.get? a k = none := by
  intro k hk
  apply extraOk_get? h
  simp only [laterKeys, List.mem_cons, List.not_mem_nil, or_false] at hk
  rcases hk with rfl | rfl | rfl | rfl <;> decide

theorem seenOf_of_transform {T : Tables} {ctx : Ctx} {tag : Str} {b : Bind} {kw : Attrs} {st6 : TState} {body : Str}
    (ht : transform T tag (some b) ⟨kw, none, ctx⟩ = .ok st6) (hb : bodyOf st6.contents = .ok body) :
    seenOf T ctx tag b kw = .ok (strAttrs st6.attrs, Flatland.C11.decodeRefs body) := by
  unfold seenOf
  simp only [bind, Except.bind, pure, Except.pure, ht, hb]

end Flatland.C12.Proofs

namespace Flatland.C12.Proofs
open Flatland.Markup Flatland.C12 Flatland.C19.Proofs

/-! ### every control kind renders -/

/-- the tag call goes through: the six transforms succeed and leave the context as it was, and the
    contents can be printed -/
def Renders (T : Tables) (ctx : Ctx) (tag : Str) (b : Bind) (kw : Attrs) : Prop :=
  ∃ st6 body, transform T tag (some b) ⟨kw, none, ctx⟩ = .ok st6 ∧ st6.ctx = ctx ∧ bodyOf st6.contents = .ok body

theorem Renders.seen {T : Tables} {ctx : Ctx} {tag : Str} {b : Bind} {kw : Attrs} (h : Renders T ctx tag b kw) :
    ∃ s, seenOf T ctx tag b kw = .ok s := by
  obtain ⟨st6, body, ht, _, hb⟩ := h
  exact ⟨_, seenOf_of_transform ht hb⟩

theorem posts_single_ok {see : Str → Bind → Attrs → Except PyErr Seen} {tag : Str} {b : Bind} {kw : Attrs} {s : Seen}
    (h : see tag b kw = .ok s) : Control.posts see (.single tag b kw) = .ok (submitted tag s.1 s.2).toList := by
  unfold Control.posts
  simp only [bind, Except.bind, pure, Except.pure, h]

/-- the value transform does nothing to a tag outside its table (no option on the tag) -/
theorem transformValue_skip (T : Tables) (tag : Str) (b : Bind) (st : TState)
    (hen : Enabled T st.ctx "auto_value".toList) (hopt : Dict.get? st.attrs "auto_value".toList = none)
    (htag : T.autoTag sValue tag = false) : transformValue T tag (some b) st = .ok st := by
  have hp := hen st.attrs hopt
  rw [erase_absent _ _ hopt] at hp
  unfold transformValue
  simp only [bind, Except.bind, pure, Except.pure, hp, htag, Bool.not_true, Bool.not_false, Bool.false_eq_true, if_false,
    Bool.and_self, if_true]

/-- the state after the name step of a tag the name transform applies to -/
def named (kw : Attrs) (b : Bind) (ctx : Ctx) : TState := ⟨Dict.set kw sName (.text b.flatName), none, ctx⟩

theorem named_get? (kw : Attrs) (b : Bind) (ctx : Ctx) (k : Str) (hk : k ≠ sName) :
    Dict.get? (named kw b ctx).attrs k = Dict.get? kw k := Dict.get?_set_other _ _ _ _ hk

theorem name_step (T : Tables) (ctx : Ctx) (hL : Live T ctx) (tag : Str) (b : Bind) (kw : Attrs)
    (h1 : Dict.get? kw "auto_name".toList = none) (h3 : Dict.get? kw sName = none) (hname : b.flatName ≠ [])
    (htag : T.autoTag sName tag = true) : transformName T tag (some b) ⟨kw, none, ctx⟩ = .ok (named kw b ctx) :=
  transformName_on T tag b ⟨kw, none, ctx⟩ hL.nameOn h1 hname h3 htag

theorem input_renders (T : Tables) (ctx : Ctx) (hT : TablesOK T) (hL : Live T ctx) (hQ : Quiet T ctx) (b : Bind)
    (ty : Option Str) (extra : Attrs) (hex : extraOk extra = true) (hty : textLikeTy ty = true) (hname : b.flatName ≠ []) :
    Renders T ctx sInput b (kwInput ty extra) := by
  have n1 : sType ≠ "auto_name".toList := by decide
  have n2 : sType ≠ "auto_value".toList := by decide
  have n3 : sType ≠ sName := by decide
  have n4 : sType ≠ sValue := by decide
  have h1 := name_step T ctx hL sInput b (kwInput ty extra)
    (by rw [get?_kwInput_other _ _ _ n1]; exact extraOk_get? hex mem_reserved_autoName)
    (by rw [get?_kwInput_other _ _ _ n3]; exact extraOk_get? hex mem_reserved_name) hname hT.nameInput
  have h2 := transformValue_textlike T b (named (kwInput ty extra) b ctx) hL.valueOn
    (by rw [named_get? _ _ _ _ (by decide), get?_kwInput_other _ _ _ n2]; exact extraOk_get? hex mem_reserved_autoValue)
    (by rw [named_get? _ _ _ _ (by decide), get?_kwInput_type ty extra hex]; exact textLikeTy_code ty hty)
    (by rw [named_get? _ _ _ _ (by decide), get?_kwInput_other _ _ _ n4]; exact extraOk_get? hex mem_reserved_value)
    hT.valueInput
  have ht := transform_of_steps T ctx hQ sInput b _ _ _ h1 h2 rfl (by decide)
    (fun k hk => by
      have : sType ≠ k := by
        simp only [laterKeys, List.mem_cons, List.not_mem_nil, or_false] at hk
        rcases hk with rfl | rfl | rfl | rfl <;> decide
      rw [get?_kwInput_other _ _ _ this]; exact extraOk_later hex k hk)
  exact ⟨_, _, ht, rfl, rfl⟩

end Flatland.C12.Proofs

namespace Flatland.C12.Proofs
open Flatland.Markup Flatland.C12 Flatland.C19.Proofs

theorem button_renders (T : Tables) (ctx : Ctx) (hT : TablesOK T) (hL : Live T ctx) (hQ : Quiet T ctx) (b : Bind)
    (extra : Attrs) (hex : extraOk extra = true) (hname : b.flatName ≠ []) :
    Renders T ctx sButton b extra := by
  have h1 := name_step T ctx hL sButton b extra (extraOk_get? hex mem_reserved_autoName)
    (extraOk_get? hex mem_reserved_name) hname hT.nameButton
  have h2 := transformValue_plain T sButton b (named extra b ctx) hL.valueOn
    (by rw [named_get? _ _ _ _ (by decide)]; exact extraOk_get? hex mem_reserved_autoValue)
    (by decide) (by decide) (by decide)
    (by rw [named_get? _ _ _ _ (by decide)]; exact extraOk_get? hex mem_reserved_value) hT.valueButton
  have ht := transform_of_steps T ctx hQ sButton b _ _ _ h1 h2 rfl (by decide) (extraOk_later hex)
  exact ⟨_, _, ht, rfl, rfl⟩

theorem textarea_renders (T : Tables) (ctx : Ctx) (hT : TablesOK T) (hL : Live T ctx) (hQ : Quiet T ctx) (b : Bind)
    (extra : Attrs) (hex : extraOk extra = true) (hname : b.flatName ≠ []) :
    Renders T ctx sTextarea b extra := by
  have h1 := name_step T ctx hL sTextarea b extra (extraOk_get? hex mem_reserved_autoName)
    (extraOk_get? hex mem_reserved_name) hname hT.nameTextarea
  have h2 := transformValue_textarea T b (named extra b ctx) hL.valueOn
    (by rw [named_get? _ _ _ _ (by decide)]; exact extraOk_get? hex mem_reserved_autoValue) rfl hT.valueTextarea
  have ht := transform_of_steps T ctx hQ sTextarea b _ _ _ h1 h2 rfl (by decide) (extraOk_later hex)
  exact ⟨_, _, ht, rfl, rfl⟩

theorem later_kwCheck (ty lit : Str) (extra : Attrs) (hex : extraOk extra = true) :
    ∀ k ∈ laterKeys, Dict.get? (kwCheck ty lit extra) k = none := by
  intro k hk
  have : sType ≠ k ∧ sValue ≠ k := by
    simp only [laterKeys, List.mem_cons, List.not_mem_nil, or_false] at hk
    rcases hk with rfl | rfl | rfl | rfl <;> decide
  rw [get?_kwCheck_other _ _ _ _ this.1 this.2]; exact extraOk_later hex k hk

/-- a check control with a literal renders whenever `lit in bind` / `lit == bind.u` can be answered -/
theorem check_renders (T : Tables) (ctx : Ctx) (hT : TablesOK T) (hL : Live T ctx) (hQ : Quiet T ctx) (b : Bind)
    (ty lit : Str) (extra : Attrs) (hex : extraOk extra = true) (hty : checkTy ty = true) (hname : b.flatName ≠ [])
    (m : Bool) (hm : b.matches T (some (.text lit)) = .ok m) :
    Renders T ctx sInput b (kwCheck ty lit extra) := by
  have hp := plain_kwCheck T ctx hL ty lit extra hex
  have h1 := name_step T ctx hL sInput b (kwCheck ty lit extra) hp.noNameOpt hp.noName hname hT.nameInput
  have h2 := transformValue_check_gen T b (named (kwCheck ty lit extra) b ctx) (.text ty) (.text lit) hL.valueOn
    (by rw [named_get? _ _ _ _ (by decide)]; exact hp.noValueOpt)
    (by rw [named_get? _ _ _ _ (by decide)]; exact get?_kwCheck_type ty lit extra) (checkTy_code ty hty)
    (by rw [named_get? _ _ _ _ (by decide)]; exact get?_kwCheck_value ty lit extra) m hm hT.valueInput
  have ht := transform_of_steps T ctx hQ sInput b _ _ _ h1 h2 rfl (by decide) (later_kwCheck ty lit extra hex)
  exact ⟨_, _, ht, rfl, rfl⟩

theorem boolbox_renders (T : Tables) (ctx : Ctx) (hT : TablesOK T) (hL : Live T ctx) (hQ : Quiet T ctx) (b : Bind)
    (tru : Str) (extra : Attrs) (hex : extraOk extra = true) (hname : b.flatName ≠ []) (hkind : b.kind = .boolean tru) :
    Renders T ctx sInput b ((sType, .text sCheckbox) :: extra) := by
  have hkw : (sType, Val.text sCheckbox) :: extra = kwInput (some sCheckbox) extra := rfl
  rw [hkw]
  have n1 : sType ≠ "auto_name".toList := by decide
  have n2 : sType ≠ "auto_value".toList := by decide
  have n3 : sType ≠ sName := by decide
  have n4 : sType ≠ sValue := by decide
  have h1 := name_step T ctx hL sInput b (kwInput (some sCheckbox) extra)
    (by rw [get?_kwInput_other _ _ _ n1]; exact extraOk_get? hex mem_reserved_autoName)
    (by rw [get?_kwInput_other _ _ _ n3]; exact extraOk_get? hex mem_reserved_name) hname hT.nameInput
  have h2 := transformValue_boolcheck T b (named (kwInput (some sCheckbox) extra) b ctx) (.text sCheckbox) tru hL.valueOn
    (by rw [named_get? _ _ _ _ (by decide), get?_kwInput_other _ _ _ n2]; exact extraOk_get? hex mem_reserved_autoValue)
    (by rw [named_get? _ _ _ _ (by decide), get?_kwInput_type (some sCheckbox) extra hex]; rfl) (by decide)
    (by rw [named_get? _ _ _ _ (by decide), get?_kwInput_other _ _ _ n4]; exact extraOk_get? hex mem_reserved_value)
    hkind hT.valueInput
  have ht := transform_of_steps T ctx hQ sInput b _ _ _ h1 h2 rfl (by decide)
    (fun k hk => by
      have : sType ≠ k := by
        simp only [laterKeys, List.mem_cons, List.not_mem_nil, or_false] at hk
        rcases hk with rfl | rfl | rfl | rfl <;> decide
      rw [get?_kwInput_other _ _ _ this]; exact extraOk_later hex k hk)
  exact ⟨_, _, ht, rfl, rfl⟩

theorem option_renders (T : Tables) (ctx : Ctx) (hT : TablesOK T) (hL : Live T ctx) (hQ : Quiet T ctx) (b : Bind)
    (lit : Str) (extra : Attrs) (hex : extraOk extra = true) (m : Bool) (hm : b.matches T (some (.text lit)) = .ok m) :
    Renders T ctx sOption b (kwOption lit extra) := by
  have n1 : sValue ≠ "auto_name".toList := by decide
  have n2 : sValue ≠ "auto_value".toList := by decide
  have h1 := transformName_skip T sOption (some b) ⟨kwOption lit extra, none, ctx⟩ hL.nameOn
    (by simp only; rw [get?_kwOption_other _ _ _ n1]; exact extraOk_get? hex mem_reserved_autoName) hT.nameOption
  have h2 := transformValue_option T b ⟨kwOption lit extra, none, ctx⟩ (.text lit) m hL.valueOn
    (by simp only; rw [get?_kwOption_other _ _ _ n2]; exact extraOk_get? hex mem_reserved_autoValue)
    (by simp only [kwOption, Dict.get?_cons, if_true]) hm hT.valueOption
  have ht := transform_of_steps T ctx hQ sOption b _ _ _ h1 h2 rfl (by decide)
    (fun k hk => by
      have : sValue ≠ k := by
        simp only [laterKeys, List.mem_cons, List.not_mem_nil, or_false] at hk
        rcases hk with rfl | rfl | rfl | rfl <;> decide
      rw [get?_kwOption_other _ _ _ this]; exact extraOk_later hex k hk)
  exact ⟨_, _, ht, rfl, rfl⟩

theorem select_renders (T : Tables) (ctx : Ctx) (hT : TablesOK T) (hL : Live T ctx) (hQ : Quiet T ctx) (b : Bind)
    (kw : Attrs) (h1 : Dict.get? kw "auto_name".toList = none) (h2 : Dict.get? kw "auto_value".toList = none)
    (h3 : Dict.get? kw sName = none) (hlater : ∀ k ∈ laterKeys, Dict.get? kw k = none) (hname : b.flatName ≠ []) :
    Renders T ctx sSelect b kw := by
  have e1 := name_step T ctx hL sSelect b kw h1 h3 hname hT.nameSelect
  have e2 := transformValue_skip T sSelect b (named kw b ctx) hL.valueOn
    (by rw [named_get? _ _ _ _ (by decide)]; exact h2) hT.valueSelect
  have ht := transform_of_steps T ctx hQ sSelect b _ _ _ e1 e2 rfl (by decide) hlater
  exact ⟨_, _, ht, rfl, rfl⟩

end Flatland.C12.Proofs

namespace Flatland.C12.Proofs
open Flatland.Markup Flatland.C12 Flatland.C19.Proofs

/-! ### groups -/

theorem postsAll_cons_ok {α} {f : α → Except PyErr (List Pair)} {c : α} {cs : List α} {p q : List Pair}
    (hc : f c = .ok p) (hq : postsAll f cs = .ok q) : postsAll f (c :: cs) = .ok (p ++ q) := by
  unfold postsAll
  simp only [bind, Except.bind, pure, Except.pure, hc, hq]

theorem postsAll_append_ok {α} {f : α → Except PyErr (List Pair)} {a b : List α}
    (ha : ∃ p, postsAll f a = .ok p) (hb : ∃ q, postsAll f b = .ok q) : ∃ ps, postsAll f (a ++ b) = .ok ps := by
  induction a with
  | nil => simpa using hb
  | cons c cs ih =>
    obtain ⟨p, hp⟩ := ha
    obtain ⟨p1, q1, h1, h2, _⟩ := postsAll_cons hp
    obtain ⟨r, hr⟩ := ih ⟨q1, h2⟩
    exact ⟨p1 ++ r, postsAll_cons_ok h1 hr⟩

theorem postsAll_single_ok {α} {f : α → Except PyErr (List Pair)} {c : α} (h : ∃ p, f c = .ok p) :
    ∃ ps, postsAll f [c] = .ok ps := by
  obtain ⟨p, hp⟩ := h
  exact ⟨p ++ [], postsAll_cons_ok hp rfl⟩

theorem checkGroup_renders (see : Str → Bind → Attrs → Except PyErr Seen) (b : Bind) (ty : Str)
    (hone : ∀ l extra, extraOk extra = true → ∃ s, see sInput b (kwCheck ty l extra) = .ok s) :
    ∀ (lits : List Str) (es : List Attrs), es.all extraOk = true →
      ∃ ps, postsAll (Control.posts see) (checkGroup b ty lits es) = .ok ps := by
  intro lits
  induction lits with
  | nil => intro es _; exact ⟨[], rfl⟩
  | cons l ls ih =>
    intro es hes
    obtain ⟨s, hs⟩ := hone l (es.headD []) (extraOk_headD hes)
    obtain ⟨q, hq⟩ := ih es.tail (extraOk_tail hes)
    exact ⟨_, postsAll_cons_ok (posts_single_ok hs) hq⟩

theorem select_group_renders (see : Str → Bind → Attrs → Except PyErr Seen) (b : Bind) (kw : Attrs)
    (hsel : ∃ s, see sSelect b kw = .ok s)
    (hone : ∀ l extra, extraOk extra = true → ∃ s, see sOption b (kwOption l extra) = .ok s)
    (lits : List Str) (es : List Attrs) (hes : es.all extraOk = true) :
    ∃ ps, Control.posts see (.select b kw (optionGroup lits es)) = .ok ps := by
  obtain ⟨s, hs⟩ := hsel
  unfold Control.posts
  simp only [bind, Except.bind, pure, Except.pure, hs]
  generalize (attr? s.1 sName).getD [] = n
  clear hs
  induction lits generalizing es with
  | nil => exact ⟨[], rfl⟩
  | cons l ls ih =>
    obtain ⟨so, hso⟩ := hone l (es.headD []) (extraOk_headD hes)
    obtain ⟨q, hq⟩ := ih es.tail (extraOk_tail hes)
    refine ⟨_, postsAll_cons_ok (p := (submittedOption n so.1 so.2).toList) ?_ hq⟩
    simp only [hso]

end Flatland.C12.Proofs
