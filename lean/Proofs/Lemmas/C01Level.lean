/-
The queue loop of `flatten`, level by level.

`flatten` is breadth-first, so the output of a container is not the concatenation of its children's
outputs: the children are merged level by level.  `lvl d q` is what the queue `q` emits `d` rounds
later; the whole output is the concatenation of the levels.  Two nodes are *level-equal* (`LvlEq`)
when they emit the same pairs at every depth; this relation — unlike equality of outputs — is a
congruence for the node constructor.
-/
import Proofs.Lemmas.C01Emit
namespace Flatland.Flat.Proofs
open Flatland.Flat Flatland.Flat.Spec

/-- the pairs emitted by the elements `d` levels below the queue's items -/
def lvl : Nat → List QItem → List PPair
  | 0, q => q.flatMap ownPath
  | d + 1, q => lvl d (q.flatMap pushed)

theorem lvl_nil (d : Nat) : lvl d [] = [] := by
  induction d with
  | zero => rfl
  | succ d ih => simpa [lvl] using ih

theorem lvl_append (d : Nat) : ∀ a b : List QItem, lvl d (a ++ b) = lvl d a ++ lvl d b := by
  induction d with
  | zero => intro a b; simp [lvl]
  | succ d ih => intro a b; simp only [lvl, List.flatMap_append, ih]

theorem lvl_cons (d : Nat) (it : QItem) (q : List QItem) : lvl d (it :: q) = lvl d [it] ++ lvl d q := by
  have := lvl_append d [it] q
  simpa using this

theorem lvl_shift (π : List Str) (d : Nat) : ∀ q : List QItem,
    lvl d (q.map (shift π)) = (lvl d q).map (pre π) := by
  induction d with
  | zero =>
    intro q
    simp only [lvl, List.flatMap_map, List.map_flatMap, ownPath_shift]
    rfl
  | succ d ih =>
    intro q
    have : (q.map (shift π)).flatMap pushed = (q.flatMap pushed).map (shift π) := by
      simp only [List.flatMap_map, List.map_flatMap, pushed_shift]
    simp only [lvl, this, ih]

/-- an item's levels are the node's own levels with the item's path in front -/
theorem lvl_item (d : Nat) (p : List Str) (k : FNode) :
    lvl d [(p, k)] = (lvl d [([], k)]).map (pre p) := by
  have : [((p, k) : QItem)] = [(([], k) : QItem)].map (shift p) := by simp [shift]
  rw [this, lvl_shift]

theorem qsize_eq_zero : ∀ q : List QItem, qsize q = 0 → q = []
  | [], _ => rfl
  | (p, n) :: q, h => by
    obtain ⟨name, fl, cfl, u, slots, kids⟩ := n
    simp [qsize, FNode.size] at h

/-- **level decomposition**: the output of the queue loop is the concatenation of its levels -/
theorem bfsPath_eq_levels (N : Nat) : ∀ q : List QItem, qsize q ≤ N →
    bfsPath q = (List.range N).flatMap (fun d => lvl d q) := by
  induction N with
  | zero =>
    intro q h
    have := qsize_eq_zero q (by omega)
    subst this
    simp [bfsPath_nil]
  | succ N ih =>
    intro q h
    rw [bfsPath_level]
    have hs := qsize_flatMap_pushed q
    have hle : qsize (q.flatMap pushed) ≤ N := by
      cases q with
      | nil => simp [qsize]
      | cons it q => simp only [List.length_cons] at hs; omega
    rw [ih _ hle, List.range_succ_eq_map, List.flatMap_cons, List.flatMap_map]
    rfl

/-- queues that agree level by level have the same output -/
theorem bfsPath_congr_levels (q q' : List QItem) (h : ∀ d, lvl d q = lvl d q') :
    bfsPath q = bfsPath q' := by
  rw [bfsPath_eq_levels (qsize q + qsize q') q (by omega),
    bfsPath_eq_levels (qsize q + qsize q') q' (by omega)]
  simp only [h]

theorem flatMap_eq_nil' {α β} (l : List α) (f : α → List β) (h : l.flatMap f = []) :
    ∀ x ∈ l, f x = [] := by
  intro x hx
  cases hf : f x with
  | nil => rfl
  | cons b bs =>
    have : b ∈ l.flatMap f := List.mem_flatMap.mpr ⟨x, hx, by rw [hf]; simp⟩
    rw [h] at this; simp at this

/-- a queue without output has no output at any level -/
theorem lvl_of_bfsPath_nil (q : List QItem) (h : bfsPath q = []) (d : Nat) : lvl d q = [] := by
  by_cases hd : d < qsize q + d + 1
  · rw [bfsPath_eq_levels (qsize q + d + 1) q (by omega)] at h
    exact flatMap_eq_nil' _ _ h d (List.mem_range.mpr hd)
  · omega

/-! ### level equality of nodes -/

/-- the two nodes emit the same pairs at every depth -/
def LvlEq (n n' : FNode) : Prop := ∀ d, lvl d [([], n)] = lvl d [([], n')]

/-- the node emits nothing at all -/
def LvlEmpty (n : FNode) : Prop := ∀ d, lvl d [([], n)] = []

theorem LvlEq.refl (n : FNode) : LvlEq n n := fun _ => rfl
theorem LvlEq.symm {n n' : FNode} (h : LvlEq n n') : LvlEq n' n := fun d => (h d).symm
theorem LvlEq.trans {a b c : FNode} (h1 : LvlEq a b) (h2 : LvlEq b c) : LvlEq a c :=
  fun d => (h1 d).trans (h2 d)

theorem relFlat_of_lvlEq {n n' : FNode} (h : LvlEq n n') : relFlat n = relFlat n' :=
  bfsPath_congr_levels _ _ h

theorem lvlEmpty_of_relFlat_nil {n : FNode} (h : relFlat n = []) : LvlEmpty n :=
  fun d => lvl_of_bfsPath_nil _ h d

theorem lvlEq_of_empty {n n' : FNode} (h : LvlEmpty n) (h' : LvlEmpty n') : LvlEq n n' :=
  fun d => by rw [h d, h' d]

/-- pairwise level equality of two lists of nodes -/
def LvlEqL : List FNode → List FNode → Prop
  | [], [] => True
  | k :: ks, k' :: ks' => LvlEq k k' ∧ LvlEqL ks ks'
  | _, _ => False

theorem lvlEqL_map {α} (f g : α → FNode) : ∀ l : List α, (∀ x ∈ l, LvlEq (f x) (g x)) →
    LvlEqL (l.map f) (l.map g)
  | [], _ => trivial
  | x :: xs, h => ⟨h x (by simp), lvlEqL_map f g xs (fun y hy => h y (List.mem_cons_of_mem _ hy))⟩

/-! ### the children of a node -/

theorem kidsFrom_append (p : List Str) (s : Bool) (i : Nat) (a b : List FNode) :
    kidsFrom p s i (a ++ b) = kidsFrom p s i a ++ kidsFrom p s (i + a.length) b := by
  induction a generalizing i with
  | nil => simp [kidsFrom]
  | cons k ks ih =>
    simp only [List.cons_append, kidsFrom, ih, List.length_cons]
    have : i + 1 + ks.length = i + (ks.length + 1) := by omega
    rw [this]

theorem lvl_kidsFrom_cons (d : Nat) (p : List Str) (s : Bool) (i : Nat) (k : FNode) (ks : List FNode) :
    lvl d (kidsFrom p s i (k :: ks))
      = (lvl d [([], k)]).map (pre (if s then p ++ [natStr i] else p)) ++ lvl d (kidsFrom p s (i + 1) ks) := by
  simp only [kidsFrom]
  rw [lvl_cons, lvl_item]

/-- children replaced pairwise by level-equal children -/
theorem lvl_kidsFrom_congr (d : Nat) (p : List Str) (s : Bool) : ∀ (i : Nat) (ks ks' : List FNode),
    LvlEqL ks ks' → lvl d (kidsFrom p s i ks) = lvl d (kidsFrom p s i ks')
  | _, [], [], _ => rfl
  | _, [], _ :: _, h => by simp [LvlEqL] at h
  | _, _ :: _, [], h => by simp [LvlEqL] at h
  | i, k :: ks, k' :: ks', h => by
    simp only [LvlEqL] at h
    rw [lvl_kidsFrom_cons, lvl_kidsFrom_cons, h.1 d, lvl_kidsFrom_congr d p s (i + 1) ks ks' h.2]

theorem lvl_kidsFrom_empty (d : Nat) (p : List Str) (s : Bool) : ∀ (i : Nat) (ks : List FNode),
    (∀ k ∈ ks, LvlEmpty k) → lvl d (kidsFrom p s i ks) = []
  | _, [], _ => by simp [kidsFrom, lvl_nil]
  | i, k :: ks, h => by
    rw [lvl_kidsFrom_cons, h k (by simp) d,
      lvl_kidsFrom_empty d p s (i + 1) ks (fun x hx => h x (List.mem_cons_of_mem _ hx))]
    rfl

/-- trailing children that emit nothing can be dropped (the indexes of the others do not move) -/
theorem lvl_kidsFrom_drop_empty (d : Nat) (p : List Str) (s : Bool) (i : Nat) (ks tl : List FNode)
    (h : ∀ k ∈ tl, LvlEmpty k) : lvl d (kidsFrom p s i (ks ++ tl)) = lvl d (kidsFrom p s i ks) := by
  rw [kidsFrom_append, lvl_append, lvl_kidsFrom_empty d p s _ tl h, List.append_nil]

theorem lvl_zero_mk (nm : Option Str) (fl cfl : Bool) (t : Str) (s : Bool) (kids : List FNode) :
    lvl 0 [([], .mk nm fl cfl t s kids)] = if fl then [(nm.toList, t)] else [] := by
  cases fl <;> simp [lvl, ownPath, FNode.fl, namePath, FNode.name, FNode.u]

theorem lvl_succ_mk (d : Nat) (nm : Option Str) (fl cfl : Bool) (t : Str) (s : Bool) (kids : List FNode) :
    lvl (d + 1) [([], .mk nm fl cfl t s kids)]
      = if cfl then lvl d (kidsFrom nm.toList s 0 kids) else [] := by
  cases cfl with
  | true => simp [lvl, pushed, FNode.cfl, childItems, namePath, FNode.name, FNode.slots, FNode.kids]
  | false => simp [lvl, pushed, FNode.cfl, lvl_nil]

/-- **congruence**: a node whose children's levels agree -/
theorem lvlEq_mk (nm : Option Str) (fl cfl : Bool) (t : Str) (s : Bool) (kids kids' : List FNode)
    (h : ∀ d, lvl d (kidsFrom nm.toList s 0 kids) = lvl d (kidsFrom nm.toList s 0 kids')) :
    LvlEq (.mk nm fl cfl t s kids) (.mk nm fl cfl t s kids') := by
  intro d
  cases d with
  | zero => rw [lvl_zero_mk, lvl_zero_mk]
  | succ d => rw [lvl_succ_mk, lvl_succ_mk, h d]

theorem lvlEq_mk_kids (nm : Option Str) (fl cfl : Bool) (t : Str) (s : Bool) (kids kids' : List FNode)
    (h : LvlEqL kids kids') : LvlEq (.mk nm fl cfl t s kids) (.mk nm fl cfl t s kids') :=
  lvlEq_mk nm fl cfl t s kids kids' (fun d => lvl_kidsFrom_congr d _ _ 0 kids kids' h)

/-- children replaced pairwise by level-equal ones, and trailing silent children dropped -/
theorem lvlEq_mk_drop (nm : Option Str) (fl cfl : Bool) (t : Str) (s : Bool) (kids kids' tl : List FNode)
    (h : LvlEqL kids kids') (htl : ∀ k ∈ tl, LvlEmpty k) :
    LvlEq (.mk nm fl cfl t s kids) (.mk nm fl cfl t s (kids' ++ tl)) :=
  lvlEq_mk nm fl cfl t s kids (kids' ++ tl) (fun d => by
    rw [lvl_kidsFrom_drop_empty d _ _ 0 kids' tl htl]
    exact lvl_kidsFrom_congr d _ _ 0 kids kids' h)

/-- a node that does not flatten its children: only its own pair counts -/
theorem lvlEq_nocfl (nm : Option Str) (fl : Bool) (t : Str) (s s' : Bool) (kids kids' : List FNode) :
    LvlEq (.mk nm fl false t s kids) (.mk nm fl false t s' kids') := by
  intro d
  cases d with
  | zero => rw [lvl_zero_mk, lvl_zero_mk]
  | succ d => rw [lvl_succ_mk, lvl_succ_mk]; rfl

end Flatland.Flat.Proofs
