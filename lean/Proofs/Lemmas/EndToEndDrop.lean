/-
End-to-end (C12 ∘ C02 ∘ C01), lemma 1: DROPPING pairs whose value is `''`.

A form does not post the `(key, '')` pair of an unchecked Boolean.  `DropE ps ps'`: `ps'` is `ps`
with some pairs of value `''` left out.  `drop_setFlat`: for a `dropSafe` schema (dense Dicts,
pruning Lists, scalar kinds that read `''` as blank) and pairs in which no key occurs twice
(`HNodup`), `from_flat` builds the same tree from both.

* scalar: first exact match wins, no match = untouched; with at most one match, losing it leaves the
  blank leaf, and the lost pair would have set the leaf from `''` — equal exactly when the kind
  reads `''` as blank;
* dense Dict: a fresh Dict holds every field, so whether a field sees pairs or not it is
  `set_flat` of what it sees (`dense_setFlat`, from C01's `setFields_closed`);
* pruning List: pairs with an empty value are skipped before the index recogniser runs.
-/
import Proofs.C02Order
import Proofs.Lemmas.C01SparseMap
import Flatland.Spec.EndToEnd
namespace Flatland.EndToEnd.Proofs
open Flatland.Flat Flatland.Flat.Spec Flatland.Flat.Proofs Flatland.EndToEnd

/-- `l'` is `l` with some pairs of value `''` left out -/
inductive DropE {α : Type} : List (α × Str) → List (α × Str) → Prop
  | nil : DropE [] []
  | keep (p : α × Str) {l l' : List (α × Str)} : DropE l l' → DropE (p :: l) (p :: l')
  | drop (a : α) {l l' : List (α × Str)} : DropE l l' → DropE ((a, []) :: l) l'

namespace DropE
variable {α β γ : Type}

theorem refl : ∀ l : List (α × Str), DropE l l
  | [] => .nil
  | p :: l => .keep p (refl l)

theorem sublist {l l' : List (α × Str)} (h : DropE l l') : l'.Sublist l := by
  induction h with
  | nil => exact .slnil
  | keep p _ ih => exact ih.cons₂ p
  | drop a _ ih => exact ih.cons _

theorem eq_nil {l' : List (α × Str)} (h : DropE ([] : List (α × Str)) l') : l' = [] := by
  cases h; rfl

/-- a value-preserving `filterMap` (prefix stripping, key wrapping, per-field filters) commutes -/
theorem filterMap (f : α × Str → Option (β × Str)) (hf : ∀ p q, f p = some q → q.2 = p.2)
    {l l' : List (α × Str)} (h : DropE l l') : DropE (l.filterMap f) (l'.filterMap f) := by
  induction h with
  | nil => exact .nil
  | keep p _ ih =>
    simp only [List.filterMap_cons]
    cases f p with
    | none => exact ih
    | some q => exact .keep q ih
  | drop a _ ih =>
    simp only [List.filterMap_cons]
    cases hfa : f (a, []) with
    | none => exact ih
    | some q =>
      have := hf _ _ hfa
      obtain ⟨k, v⟩ := q
      simp only at this
      subst this
      exact .drop k ih

theorem filter (p : α × Str → Bool) {l l' : List (α × Str)} (h : DropE l l') :
    DropE (l.filter p) (l'.filter p) := by
  induction h with
  | nil => exact .nil
  | keep x _ ih =>
    simp only [List.filter_cons]
    split
    · exact .keep x ih
    · exact ih
  | drop a _ ih =>
    simp only [List.filter_cons]
    split
    · exact .drop a ih
    · exact ih

theorem mapKey (f : α → β) {l l' : List (α × Str)} (h : DropE l l') :
    DropE (l.map (fun p => (f p.1, p.2))) (l'.map (fun p => (f p.1, p.2))) := by
  induction h with
  | nil => exact .nil
  | keep p _ ih => exact .keep _ ih
  | drop a _ ih => exact .drop _ ih

/-- a `filterMap` that skips empty values anyway does not see the difference -/
theorem filterMap_eq (g : α × Str → Option γ) (hg : ∀ a, g (a, []) = none)
    {l l' : List (α × Str)} (h : DropE l l') : l.filterMap g = l'.filterMap g := by
  induction h with
  | nil => rfl
  | keep p _ ih => simp only [List.filterMap_cons, ih]
  | drop a _ ih => simp only [List.filterMap_cons, hg a, ih]

theorem append_empty (a : List (α × Str)) : ∀ d : List (α × Str), (∀ x ∈ d, x.2 = []) → DropE (a ++ d) a := by
  induction a with
  | nil =>
    intro d hd
    induction d with
    | nil => exact .nil
    | cons x d ih =>
      obtain ⟨k, v⟩ := x
      have : v = [] := hd (k, v) (by simp)
      subst this
      exact .drop k (ih (fun y hy => hd y (List.mem_cons_of_mem _ hy)))
  | cons p a ih => intro d hd; exact .keep p (ih d hd)

/-- first match: with at most one match, the two lists find the same pair, or the only match was a
    dropped pair (value `''`) -/
theorem find (P : α × Str → Bool) {l l' : List (α × Str)} (h : DropE l l')
    (hl : (l.filter P).length ≤ 1) :
    l.find? P = l'.find? P ∨ ∃ a, l.find? P = some (a, []) ∧ l'.find? P = none := by
  induction h with
  | nil => exact Or.inl rfl
  | keep p _ ih =>
    by_cases hp : P p = true
    · left; simp [List.find?_cons, hp]
    · have hp' : P p = false := by simpa using hp
      simp only [List.filter_cons, hp', Bool.false_eq_true, if_false] at hl
      simp only [List.find?_cons, hp']
      exact ih hl
  | @drop a l l' hd ih =>
    by_cases hp : P (a, []) = true
    · right
      refine ⟨a, by simp [List.find?_cons, hp], ?_⟩
      simp only [List.filter_cons, hp, if_true, List.length_cons] at hl
      have h0 : l.filter P = [] := List.length_eq_zero_iff.mp (by omega)
      rw [List.find?_eq_none]
      intro x hx
      have hx' : x ∈ l := hd.sublist.subset hx
      have := List.filter_eq_nil_iff.mp h0 x hx'
      simpa using this
    · have hp' : P (a, []) = false := by simpa using hp
      simp only [List.filter_cons, hp', Bool.false_eq_true, if_false] at hl
      simp only [List.find?_cons, hp']
      exact ih hl

end DropE

theorem dropE_possibles (sep : Str) (name : Option Str) {ps ps' : Pairs} (h : DropE ps ps') :
    DropE (possibles sep name ps) (possibles sep name ps') := by
  unfold possibles
  have h1 := h.filterMap (fun p : Key × Str => p.1.map (fun k => (k, p.2)))
    (by intro p q hq; cases hk : p.1 <;> simp [hk] at hq; rw [← hq])
  cases name with
  | none => exact h1
  | some n =>
    exact h1.filterMap _ (by intro p q hq; split at hq <;> simp at hq; rw [← hq])

theorem dropE_wrap {l l' : List (Str × Str)} (h : DropE l l') : DropE (wrap l) (wrap l') :=
  h.mapKey some

/-! ### a fresh dense Dict in closed form -/

theorem pickV_dense_true (poss : List (Str × Str)) (V : Schema → Elem) : ∀ fs : List Schema,
    pickV (fun _ => true) poss V true fs
      = fs.map (fun f => (f.name.getD [], if touched poss f then V f else blank f))
  | [] => rfl
  | f :: fs => by simp [pickV, pickV_dense_true poss V fs]

theorem pickV_dense_false (poss : List (Str × Str)) (V : Schema → Elem) : ∀ fs : List Schema,
    pickV (fun _ => true) poss V false fs = []
  | [] => rfl
  | f :: fs => by simp [pickV, pickV_dense_false poss V fs]

theorem blankSel_true : ∀ fs : List Schema,
    blankSel (fun _ => true) fs = fs.map (fun f => (f.name.getD [], blank f))
  | [] => rfl
  | f :: fs => by simp [blankSel, blankSel_true fs]

/-- what a field of a fresh mapping is rebuilt to from the stripped pairs `poss` -/
def fieldV (env : Env) (sep : Str) (poss : List (Str × Str)) (f : Schema) : Elem :=
  setFlat env sep f (blank f) (wrap (poss.filter (fun p => isPrefix (f.name.getD []) p.1)))

theorem fieldV_untouched (env : Env) (sep : Str) (poss : List (Str × Str)) (f : Schema)
    (h : touched poss f = false) : fieldV env sep poss f = blank f := by
  rw [touched_eq] at h
  have : poss.filter (fun p => isPrefix (f.name.getD []) p.1) = [] := by simpa using h
  unfold fieldV
  rw [this]
  exact setFlat_blank_nil env sep f

/-- `from_flat` on a dense Dict: every declared field, in declaration order, each `set_flat` with the
    pairs the `startswith` filter hands it -/
theorem dense_setFlat (env : Env) (sep : Str) (nm : Option Str) (o : Bool) (fields : List Schema)
    (hnd : (namesOf fields).Nodup) (hsome : ∀ g ∈ fields, g.name.isSome) (ps : Pairs) :
    setFlat env sep (.dict nm o .dense fields) (blank (.dict nm o .dense fields)) ps
      = .dict (fields.map (fun f => (f.name.getD [], fieldV env sep (possibles sep nm ps) f))) := by
  have hmap : fields.map (fun f => (f.name.getD [],
        if touched (possibles sep nm ps) f then fieldV env sep (possibles sep nm ps) f else blank f))
      = fields.map (fun f => (f.name.getD [], fieldV env sep (possibles sep nm ps) f)) := by
    apply List.map_congr_left
    intro f _
    cases ht : touched (possibles sep nm ps) f with
    | true => simp
    | false => simp [fieldV_untouched env sep _ f ht]
  simp only [setFlat, blank, membersOf]
  rw [blankFields_sel]
  by_cases hp : (possibles sep nm ps).isEmpty = true
  · have hp' : possibles sep nm ps = [] := by simpa using hp
    simp only [hp, if_true]
    rw [blankSel_true, ← hmap]
    congr 1
    apply List.map_congr_left
    intro f _
    simp [hp', touched]
  · simp only [hp, if_false, Bool.false_eq_true]
    rw [setFields_closed env sep fields hnd hsome (fun _ => true) (possibles sep nm ps)
      (fieldV env sep (possibles sep nm ps)) (fun f _ _ => rfl)]
    rw [pickV_dense_true, pickV_dense_false, List.append_nil, hmap]

theorem hnodupFields_mem (env : Env) (sep : Str) : ∀ (fs : List Schema) (poss : List (Str × Str)),
    HNodupFields env sep fs poss → ∀ f ∈ fs,
      HNodup env sep f (wrap (poss.filter (fun p => isPrefix (f.name.getD []) p.1)))
  | [], _, _, f, hf => by simp at hf
  | g :: gs, poss, h, f, hf => by
    simp only [HNodupFields] at h
    rcases List.mem_cons.mp hf with rfl | hf'
    · exact h.1
    · exact hnodupFields_mem env sep gs poss h.2 f hf'

/-! ### the drop lemma -/

mutual
/-- **dropping `(key, '')` pairs changes nothing** for a `dropSafe` schema when no key occurs twice -/
theorem drop_setFlat (env : Env) (sep : Str) : ∀ s : Schema, dropSafe env s = true → wf s = true →
    ∀ ps ps' : Pairs, HNodup env sep s ps → DropE ps ps' →
      setFlat env sep s (blank s) ps = setFlat env sep s (blank s) ps'
  | .leaf name o k, hd, _, ps, ps', hn, h => by
    simp only [dropSafe, beq_iff_eq] at hd
    simp only [HNodup] at hn
    simp only [setFlat, blank]
    rcases h.find (fun p => p.1 == name) hn with e | ⟨a, e1, e2⟩
    · rw [e]
    · rw [e1, e2]; simp [hd]
  | .joined name o k m, hd, _, ps, ps', hn, h => by
    simp only [dropSafe, Bool.and_eq_true, beq_iff_eq, List.isEmpty_iff] at hd
    simp only [HNodup] at hn
    simp only [setFlat, blank]
    rcases h.find (fun p => p.1 == name) hn with e | ⟨a, e1, e2⟩
    · rw [e]
    · rw [e1, e2]; simp [hd.1, hd.2]
  | .dict name o mode fields, hd, hw, ps, ps', hn, h => by
    simp only [dropSafe, Bool.and_eq_true, decide_eq_true_eq] at hd
    obtain ⟨hm, hdl⟩ := hd
    subst hm
    simp only [wf, Bool.and_eq_true] at hw
    have hnd : (namesOf fields).Nodup := by simpa using hw.2
    have hsome := allSome_of fields hw.1.2
    simp only [HNodup] at hn
    rw [dense_setFlat env sep name o fields hnd hsome, dense_setFlat env sep name o fields hnd hsome]
    congr 1
    apply List.map_congr_left
    intro f hf
    congr 1
    unfold fieldV
    exact drop_fields env sep fields hdl hw.1.1 f hf _ _ (hnodupFields_mem env sep fields _ hn f hf)
      (dropE_wrap ((dropE_possibles sep name h).filter _))
  | .compound .., hd, _, _, _, _, _ => by simp [dropSafe] at hd
  | .array .., hd, _, _, _, _, _ => by simp [dropSafe] at hd
  | .list name o prune mx member, hd, _, ps, ps', _, h => by
    simp only [dropSafe] at hd
    subst hd
    have hi : indexesOf env sep name true ps = indexesOf env sep name true ps' :=
      h.filterMap_eq _ (by intro a; simp)
    have hg : (fun i => groupOf env sep name true i ps) = (fun i => groupOf env sep name true i ps') := by
      funext i
      exact h.filterMap_eq _ (by intro a; simp)
    simp only [setFlat, hi, hg]
    cases ps' with
    | nil =>
      have : indexesOf env sep name true ([] : Pairs) = [] := rfl
      simp [this]
    | cons b bs =>
      cases ps with
      | nil => cases h
      | cons a as => simp
theorem drop_fields (env : Env) (sep : Str) : ∀ fs : List Schema, dropSafeL env fs = true → wfL fs = true →
    ∀ f ∈ fs, ∀ ps ps' : Pairs, HNodup env sep f ps → DropE ps ps' →
      setFlat env sep f (blank f) ps = setFlat env sep f (blank f) ps'
  | [], _, _, f, hf => by simp at hf
  | g :: gs, hd, hw, f, hf => by
    simp only [dropSafeL, Bool.and_eq_true] at hd
    simp only [wfL, Bool.and_eq_true] at hw
    have h1 := drop_setFlat env sep g hd.1 hw.1
    have h2 := drop_fields env sep gs hd.2 hw.2
    rcases List.mem_cons.mp hf with rfl | hf'
    · exact h1
    · exact h2 f hf'
end

end Flatland.EndToEnd.Proofs
