import Proofs.Lemmas.C17Layer
namespace Flatland.C17.Proofs
open Flatland.C17 Flatland.C17.Spec

/-! ### the class table after `addClass` -/

theorem getElem?_append_singleton {α : Type} (l : List α) (a : α) (c : Nat) :
    (l ++ [a])[c]? = if c = l.length then some a else l[c]? := by
  rcases Nat.lt_trichotomy c l.length with h | h | h
  · rw [List.getElem?_append_left h, if_neg (Nat.ne_of_lt h)]
  · subst h; simp
  · rw [if_neg (Nat.ne_of_gt h), List.getElem?_eq_none (by simp; omega), List.getElem?_eq_none (by omega)]

theorem mroOf_addClass (σ : State) (tail : List ClassId) (own : Option DescId) (c : ClassId) :
    (addClass σ tail own).mroOf c
      = if c = σ.classes.length then σ.classes.length :: tail else σ.mroOf c := by
  simp only [State.mroOf, addClass, getElem?_append_singleton]
  by_cases e : c = σ.classes.length <;> simp [e]

theorem ownOf_addClass (σ : State) (tail : List ClassId) (own : Option DescId) (c : ClassId) :
    (addClass σ tail own).ownOf c = if c = σ.classes.length then own else σ.ownOf c := by
  simp only [State.ownOf, addClass, getElem?_append_singleton]
  by_cases e : c = σ.classes.length <;> simp [e]

theorem length_addClass (σ : State) (tail : List ClassId) (own : Option DescId) :
    (addClass σ tail own).classes.length = σ.classes.length + 1 := by simp [addClass]

theorem mroOf_ge (σ : State) (c : ClassId) (h : σ.classes.length ≤ c) : σ.mroOf c = [] := by
  simp [State.mroOf, List.getElem?_eq_none h]

theorem ownOf_ge (σ : State) (c : ClassId) (h : σ.classes.length ≤ c) : σ.ownOf c = none := by
  simp [State.ownOf, List.getElem?_eq_none h]

theorem mem_set {κ β : Type} [DecidableEq κ] (d : AList κ β) (k : κ) (b : β) (p : κ × β)
    (h : p ∈ AList.set d k b) : p = (k, b) ∨ p ∈ d := by
  induction d with
  | nil => simp [AList.set] at h; exact Or.inl h
  | cons q r ih =>
    obtain ⟨k0, b0⟩ := q
    simp only [AList.set] at h
    split at h
    · rename_i e
      rcases List.mem_cons.1 h with h | h
      · left; rw [h, e]
      · right; exact List.mem_cons_of_mem _ h
    · rcases List.mem_cons.1 h with h | h
      · right; rw [h]; exact List.mem_cons_self ..
      · rcases ih h with h | h
        · left; exact h
        · right; exact List.mem_cons_of_mem _ h

def KeyOK (nd n : Nat) : FrameKey → Prop
  | .init d => d < nd
  | .cls d c => d < nd ∧ c < n

/-- a new class (with possibly a new descriptor and more frames) keeps the store well formed -/
theorem WF_extend (σ : State) (hwf : WF σ) (tail : List ClassId) (own : Option DescId)
    (nd : Nat) (frames : AList FrameKey Frame)
    (htail : ∀ x ∈ tail, x < σ.classes.length) (hnd : tail.Nodup)
    (hle : σ.ndesc ≤ nd) (hown : ∀ d, own = some d → d < nd)
    (hkeys : ∀ key f, (key, f) ∈ frames → KeyOK nd (σ.classes.length + 1) key) :
    WF { addClass σ tail own with ndesc := nd, frames := frames } := by
  have hm : ∀ c, State.mroOf { addClass σ tail own with ndesc := nd, frames := frames } c
      = (addClass σ tail own).mroOf c := fun c => mroOf_congr rfl c
  have ho : ∀ c, State.ownOf { addClass σ tail own with ndesc := nd, frames := frames } c
      = (addClass σ tail own).ownOf c := fun c => ownOf_congr rfl c
  have hlen : State.classes { addClass σ tail own with ndesc := nd, frames := frames }
      = σ.classes ++ [⟨σ.classes.length :: tail, own⟩] := rfl
  refine ⟨?_, ?_, ?_, ?_, ?_, ?_⟩
  · intro c x hx
    rw [hm, mroOf_addClass] at hx
    rw [hlen, List.length_append, List.length_singleton]
    split at hx
    · rcases List.mem_cons.1 hx with rfl | h
      · exact Nat.lt_succ_self _
      · exact Nat.lt_succ_of_lt (htail x h)
    · exact Nat.lt_succ_of_lt (hwf.mro_lt c x hx)
  · intro c hc
    rw [hlen, List.length_append, List.length_singleton] at hc
    rw [hm, mroOf_addClass]
    split
    · rename_i e; exact ⟨tail, by rw [e]⟩
    · rename_i e; exact hwf.mro_head c (Nat.lt_of_le_of_ne (Nat.le_of_lt_succ hc) e)
  · intro c
    rw [hm, mroOf_addClass]
    split
    · exact List.nodup_cons.2 ⟨fun h => Nat.lt_irrefl _ (htail _ h), hnd⟩
    · exact hwf.mro_nodup c
  · intro c d h
    rw [ho, ownOf_addClass] at h
    show d < nd
    split at h
    · exact hown d h
    · exact Nat.lt_of_lt_of_le (hwf.own_lt c d h) hle
  · intro key f h
    have := hkeys key f h
    rw [hlen, List.length_append, List.length_singleton]
    cases key with
    | init d => exact this
    | cls d c => exact this
  · intro i x h
    rw [hlen, List.length_append, List.length_singleton]
    exact Nat.lt_succ_of_lt (hwf.inst_lt i x h)

theorem keyOK_mono (σ : State) (hwf : WF σ) (nd : Nat) (hle : σ.ndesc ≤ nd) (key : FrameKey) (f : Frame)
    (h : (key, f) ∈ σ.frames) : KeyOK nd (σ.classes.length + 1) key := by
  have := hwf.key_lt key f h
  cases key with
  | init d => exact Nat.lt_of_lt_of_le this hle
  | cls d c => exact ⟨Nat.lt_of_lt_of_le this.1 hle, Nat.lt_succ_of_lt this.2⟩

theorem WF_addClass (σ : State) (hwf : WF σ) (tail : List ClassId) (own : Option DescId)
    (htail : ∀ x ∈ tail, x < σ.classes.length) (hnd : tail.Nodup)
    (hown : ∀ d, own = some d → d < σ.ndesc) : WF (addClass σ tail own) :=
  WF_extend σ hwf tail own σ.ndesc σ.frames htail hnd (Nat.le_refl _) hown
    (fun key f h => keyOK_mono σ hwf σ.ndesc (Nat.le_refl _) key f h)

theorem WF_usingPropsStep (σ : State) (hwf : WF σ) (p : ClassId) (init : List (Key × Val)) :
    WF (usingPropsStep σ p init) := by
  unfold usingPropsStep
  apply WF_extend σ hwf (σ.mroOf p) (some σ.ndesc) (σ.ndesc + 1)
  · exact fun x hx => hwf.mro_lt p x hx
  · have := hwf.mro_nodup p
    exact this
  · exact Nat.le_succ _
  · intro d h; simp only [Option.some.injEq] at h; subst h; exact Nat.lt_succ_self _
  · intro key f h
    rcases mem_set _ _ _ _ h with e | h
    · simp only [Prod.mk.injEq] at e; rw [e.1]; exact Nat.lt_succ_self _
    · exact keyOK_mono σ hwf _ (Nat.le_succ _) key f h

theorem WF_setFrame (σ : State) (hwf : WF σ) (key : FrameKey) (f : Frame)
    (hk : match key with
      | .init d => d < σ.ndesc
      | .cls d c => d < σ.ndesc ∧ c < σ.classes.length) : WF (σ.setFrame key f) where
  mro_lt := hwf.mro_lt
  mro_head := hwf.mro_head
  mro_nodup := hwf.mro_nodup
  own_lt := hwf.own_lt
  key_lt := by
    intro key' f' h
    rcases mem_set _ _ _ _ h with e | h
    · simp only [Prod.mk.injEq] at e; rw [e.1]; exact hk
    · exact hwf.key_lt key' f' h
  inst_lt := hwf.inst_lt

theorem WF_setInst (σ : State) (hwf : WF σ) (i : InstId) (y : Inst)
    (hy : y.cls < σ.classes.length) : WF (setInst σ i y) where
  mro_lt := hwf.mro_lt
  mro_head := hwf.mro_head
  mro_nodup := hwf.mro_nodup
  own_lt := hwf.own_lt
  key_lt := hwf.key_lt
  inst_lt := by
    intro j x h
    simp only [setInst] at h
    by_cases e : i = j
    · subst e
      rcases Nat.lt_or_ge i σ.insts.length with hl | hl
      · rw [List.getElem?_set_self hl] at h
        simp only [Option.some.injEq] at h; subst h; exact hy
      · rw [List.getElem?_eq_none (by simp; omega)] at h; simp at h
    · rw [List.getElem?_set_ne e] at h
      exact hwf.inst_lt j x h

theorem WF_addInst (σ : State) (hwf : WF σ) (y : Inst) (hy : y.cls < σ.classes.length) :
    WF { σ with insts := σ.insts ++ [y] } where
  mro_lt := hwf.mro_lt
  mro_head := hwf.mro_head
  mro_nodup := hwf.mro_nodup
  own_lt := hwf.own_lt
  key_lt := hwf.key_lt
  inst_lt := by
    intro j x h
    simp only [getElem?_append_singleton] at h
    split at h
    · simp only [Option.some.injEq] at h; subst h; exact hy
    · exact hwf.inst_lt j x h

/-- a descriptor found by attribute lookup is owned by a class of the MRO -/
theorem descOf_owner (σ : State) (c : ClassId) (d : DescId) (h : σ.descOf c = some d) :
    ∃ x ∈ σ.mroOf c, σ.ownOf x = some d := by
  unfold State.descOf at h
  obtain ⟨x, hx, hox⟩ := List.exists_of_findSome?_eq_some h
  exact ⟨x, hx, hox⟩

theorem baseKey_lt (σ : State) (hwf : WF σ) (v : ClassId) (d : DescId)
    (hv : v < σ.classes.length) (hd : σ.descOf v = some d) :
    match σ.baseKey v d with
    | .init d => d < σ.ndesc
    | .cls d c => d < σ.ndesc ∧ c < σ.classes.length := by
  obtain ⟨x, _, hox⟩ := descOf_owner σ v d hd
  have hlt := hwf.own_lt x d hox
  unfold State.baseKey
  by_cases ho : σ.owns v d = true
  · simp only [ho, if_true]; exact hlt
  · simp only [ho, Bool.false_eq_true, if_false]; exact ⟨hlt, hv⟩

/-! ### extensionality of reading: a view only depends on its MRO, the owners along it, the dict
objects its walk visits, and (for an instance) its own `__dict__` entry -/

theorem walk_ext (σ σ' : State) (d : DescId) (l : List ClassId)
    (ho : ∀ x ∈ l, σ'.ownOf x = σ.ownOf x)
    (hf : ∀ x ∈ l, AList.get? σ'.frames (σ.baseKey x d) = AList.get? σ.frames (σ.baseKey x d)) :
    σ'.walk d l = σ.walk d l := by
  induction l with
  | nil => rfl
  | cons c rest ih =>
    have h1 := hf c (List.mem_cons_self ..)
    have ih' := ih (fun x hx => ho x (List.mem_cons_of_mem _ hx)) (fun x hx => hf x (List.mem_cons_of_mem _ hx))
    have hown : σ'.owns c d = σ.owns c d := by simp [State.owns, ho c (List.mem_cons_self ..)]
    unfold State.walk
    rw [hown]
    unfold State.baseKey at h1
    split
    · rename_i hoo
      simp only [hoo, if_true] at h1
      simp [State.frameD, h1]
    · rename_i hoo
      simp only [hoo, Bool.false_eq_true, if_false] at h1
      rw [h1, ih']

theorem findSome?_ext {α β : Type} (f g : α → Option β) (l : List α) (h : ∀ x ∈ l, f x = g x) :
    l.findSome? f = l.findSome? g := by
  induction l with
  | nil => rfl
  | cons x r ih =>
    simp only [List.findSome?_cons, h x (List.mem_cons_self ..)]
    rw [ih (fun y hy => h y (List.mem_cons_of_mem _ hy))]

theorem descOf_ext (σ σ' : State) (w : ClassId) (hm : σ'.mroOf w = σ.mroOf w)
    (ho : ∀ x ∈ σ.mroOf w, σ'.ownOf x = σ.ownOf x) : σ'.descOf w = σ.descOf w := by
  unfold State.descOf
  rw [hm]
  exact findSome?_ext _ _ _ ho

theorem tGet_ext (σ σ' : State) (w : ClassId) (d : DescId) (hm : σ'.mroOf w = σ.mroOf w)
    (ho : ∀ x ∈ σ.mroOf w, σ'.ownOf x = σ.ownOf x)
    (hf : ∀ x ∈ σ.mroOf w,
      AList.get? σ'.frames (σ.baseKey x d) = AList.get? σ.frames (σ.baseKey x d)) (k : Key) :
    tGet σ' w d k = tGet σ w d k := by
  simp only [tGet, tFrames, hm, walk_ext σ σ' d (σ.mroOf w) ho hf]

theorem visible_cls_ext (σ σ' : State) (w : ClassId) (hm : σ'.mroOf w = σ.mroOf w)
    (ho : ∀ x ∈ σ.mroOf w, σ'.ownOf x = σ.ownOf x)
    (hf : ∀ d, σ.descOf w = some d → ∀ x ∈ σ.mroOf w,
      AList.get? σ'.frames (σ.baseKey x d) = AList.get? σ.frames (σ.baseKey x d)) :
    visible σ' (.cls w) = visible σ (.cls w) := by
  funext k
  simp only [visible, descOf_ext σ σ' w hm ho]
  cases hd : σ.descOf w with
  | none => rfl
  | some d => simp only [tGet_ext σ σ' w d hm ho (hf d hd)]

theorem visible_inst_ext (σ σ' : State) (i : InstId) (hi : σ'.insts[i]? = σ.insts[i]?)
    (hcls : ∀ x, σ.insts[i]? = some x →
      σ'.mroOf x.cls = σ.mroOf x.cls ∧ (∀ y ∈ σ.mroOf x.cls, σ'.ownOf y = σ.ownOf y) ∧
      ∀ d, σ.descOf x.cls = some d → ∀ y ∈ σ.mroOf x.cls,
        AList.get? σ'.frames (σ.baseKey y d) = AList.get? σ.frames (σ.baseKey y d)) :
    visible σ' (.inst i) = visible σ (.inst i) := by
  funext k
  simp only [visible, hi]
  cases hx : σ.insts[i]? with
  | none => rfl
  | some x =>
    obtain ⟨hm, ho, hf⟩ := hcls x hx
    simp only [descOf_ext σ σ' x.cls hm ho]
    cases x.loc with
    | plain m => rfl
    | storage f =>
      cases hd : σ.descOf x.cls with
      | none => rfl
      | some d => simp only [iGet, tGet_ext σ σ' x.cls d hm ho (hf d hd)]

end Flatland.C17.Proofs
