/-
What each control group of a rendered form posts (`Control.posts (seenOf T ctx)`), from the
per-control theorems of `Proofs/C12.lean`.  Partial-correctness form: IF the tag calls render
(`= .ok`), the posted pairs are the stated ones; that they do render on a generator with default
settings is `Proofs/Lemmas/C12FormTotal.lean`.
-/
import Flatland.C12.Form
import Proofs.C12
import Proofs.C11
namespace Flatland.C12.Proofs
open Flatland.Markup Flatland.C12 Flatland.C19.Proofs

/-- what the theorems need of the tables (true of the current ones: `tablesOK_current`) -/
structure TablesOK (T : Tables) : Prop where
  nameInput : T.autoTag sName sInput = true
  valueInput : T.autoTag sValue sInput = true
  nameTextarea : T.autoTag sName sTextarea = true
  valueTextarea : T.autoTag sValue sTextarea = true
  nameButton : T.autoTag sName sButton = true
  valueButton : T.autoTag sValue sButton = true
  nameSelect : T.autoTag sName sSelect = true
  valueSelect : T.autoTag sValue sSelect = false
  nameOption : T.autoTag sName sOption = false
  valueOption : T.autoTag sValue sOption = true
  textChain : Flatland.C11.Proofs.TextChainOK T.textChain = true

theorem tablesOK_current : TablesOK Tables.current :=
  ⟨by decide, by decide, by decide, by decide, by decide, by decide, by decide, by decide, by decide, by decide,
   by decide⟩

/-- name and value generation are switched on in the context (true of `Generator()`: `fresh_enabled`) -/
structure Live (T : Tables) (ctx : Ctx) : Prop where
  nameOn : Enabled T ctx "auto_name".toList
  valueOn : Enabled T ctx "auto_value".toList

/-! ### author attributes -/

theorem extraOk_nil : extraOk [] = true := by decide

theorem extraOk_nodup {a : Attrs} (h : extraOk a = true) : (Dict.keys a).Nodup := by
  simp only [extraOk, Bool.and_eq_true, decide_eq_true_eq] at h
  exact h.1

theorem extraOk_get? {a : Attrs} (h : extraOk a = true) {k : Str} (hk : k ∈ reservedKeys) : Dict.get? a k = none := by
  simp only [extraOk, Bool.and_eq_true, decide_eq_true_eq, List.all_eq_true, Bool.not_eq_true',
    List.contains_eq_mem, decide_eq_false_iff_not] at h
  rw [Dict.get?_eq_none_iff]
  intro hm
  exact (h.2 k hm).1 hk

theorem extraOk_stable {a : Attrs} (h : extraOk a = true) {k : Str} (hk : k ∈ Dict.keys a) : rstripUnderscore k = k := by
  simp only [extraOk, Bool.and_eq_true, decide_eq_true_eq, List.all_eq_true, beq_iff_eq] at h
  exact (h.2 k hk).2

theorem extraOk_headD {es : List Attrs} (h : es.all extraOk = true) : extraOk (es.headD []) = true := by
  cases es with
  | nil => exact extraOk_nil
  | cons e es => simp only [List.all_cons, Bool.and_eq_true] at h; exact h.1

theorem extraOk_tail {es : List Attrs} (h : es.all extraOk = true) : es.tail.all extraOk = true := by
  cases es with
  | nil => rfl
  | cons e es => simp only [List.all_cons, Bool.and_eq_true] at h; exact h.2

theorem not_mem_keys_of_get? {a : Attrs} {k : Str} (h : Dict.get? a k = none) : k ∉ Dict.keys a :=
  (Dict.get?_eq_none_iff a k).mp h

/-- a tag that carries only author attributes: nothing of what `Plain` excludes -/
theorem plain_of (T : Tables) (ctx : Ctx) (hL : Live T ctx) (a : Attrs) (c : Option Val)
    (h1 : Dict.get? a "auto_name".toList = none) (h2 : Dict.get? a "auto_value".toList = none)
    (h3 : Dict.get? a sName = none) : Plain T ⟨a, c, ctx⟩ :=
  ⟨hL.nameOn, hL.valueOn, h1, h2, h3⟩

/-! ### reading `seenOf` and `postsAll` -/

theorem seenOf_ok {T : Tables} {ctx : Ctx} {tag : Str} {b : Bind} {kw : Attrs} {s : Seen}
    (h : seenOf T ctx tag b kw = .ok s) :
    ∃ st6 body, transform T tag (some b) ⟨kw, none, ctx⟩ = .ok st6 ∧ bodyOf st6.contents = .ok body ∧
      s = (strAttrs st6.attrs, Flatland.C11.decodeRefs body) := by
  unfold seenOf at h
  simp only [bind, Except.bind, pure, Except.pure] at h
  cases ht : transform T tag (some b) ⟨kw, none, ctx⟩ with
  | error e => rw [ht] at h; simp at h
  | ok st6 =>
    rw [ht] at h; simp only at h
    cases hb : bodyOf st6.contents with
    | error e => rw [hb] at h; simp at h
    | ok body =>
      rw [hb] at h
      simp only [Except.ok.injEq] at h
      exact ⟨st6, body, rfl, hb, h.symm⟩

theorem posts_single {see : Str → Bind → Attrs → Except PyErr Seen} {tag : Str} {b : Bind} {kw : Attrs}
    {ps : List Pair} (h : Control.posts see (.single tag b kw) = .ok ps) :
    ∃ s, see tag b kw = .ok s ∧ ps = (submitted tag s.1 s.2).toList := by
  unfold Control.posts at h
  simp only [bind, Except.bind, pure, Except.pure] at h
  cases hs : see tag b kw with
  | error e => rw [hs] at h; simp at h
  | ok s =>
    rw [hs] at h
    simp only [Except.ok.injEq] at h
    exact ⟨s, rfl, h.symm⟩

theorem postsAll_nil {α} (f : α → Except PyErr (List Pair)) : postsAll f [] = .ok [] := rfl

theorem postsAll_cons {α} {f : α → Except PyErr (List Pair)} {c : α} {cs : List α} {ps : List Pair}
    (h : postsAll f (c :: cs) = .ok ps) : ∃ p q, f c = .ok p ∧ postsAll f cs = .ok q ∧ ps = p ++ q := by
  unfold postsAll at h
  simp only [bind, Except.bind, pure, Except.pure] at h
  cases hc : f c with
  | error e => rw [hc] at h; simp at h
  | ok p =>
    rw [hc] at h; simp only at h
    cases hq : postsAll f cs with
    | error e => rw [hq] at h; simp at h
    | ok q =>
      rw [hq] at h
      simp only [Except.ok.injEq] at h
      exact ⟨p, q, rfl, rfl, h.symm⟩

theorem postsAll_append {α} {f : α → Except PyErr (List Pair)} {a b : List α} {ps : List Pair}
    (h : postsAll f (a ++ b) = .ok ps) : ∃ p q, postsAll f a = .ok p ∧ postsAll f b = .ok q ∧ ps = p ++ q := by
  induction a generalizing ps with
  | nil => exact ⟨[], ps, rfl, h, rfl⟩
  | cons c cs ih =>
    obtain ⟨p, q, hc, hq, rfl⟩ := postsAll_cons (by simpa using h)
    obtain ⟨p1, q1, h1, h2, rfl⟩ := ih hq
    refine ⟨p ++ p1, q1, ?_, h2, by simp⟩
    unfold postsAll
    simp only [bind, Except.bind, pure, Except.pure, hc, h1]

theorem postsAll_single {α} {f : α → Except PyErr (List Pair)} {c : α} {ps : List Pair}
    (h : postsAll f [c] = .ok ps) : f c = .ok ps := by
  obtain ⟨p, q, hc, hq, rfl⟩ := postsAll_cons h
  simp only [postsAll, pure, Except.pure, Except.ok.injEq] at hq
  subst hq
  simpa using hc

end Flatland.C12.Proofs

namespace Flatland.C12.Proofs
open Flatland.Markup Flatland.C12 Flatland.C19.Proofs

/-! ### keyword arguments of the control kinds -/

theorem mem_reserved_name : sName ∈ reservedKeys := by decide
theorem mem_reserved_value : sValue ∈ reservedKeys := by decide
theorem mem_reserved_type : sType ∈ reservedKeys := by decide
theorem mem_reserved_autoName : "auto_name".toList ∈ reservedKeys := by decide
theorem mem_reserved_autoValue : "auto_value".toList ∈ reservedKeys := by decide

theorem get?_kwInput_other (ty : Option Str) (extra : Attrs) (k : Str) (hk : sType ≠ k) :
    Dict.get? (kwInput ty extra) k = Dict.get? extra k := by
  cases ty with
  | none => rfl
  | some t => simp only [kwInput, Dict.get?_cons, hk, if_false]

theorem get?_kwInput_type (ty : Option Str) (extra : Attrs) (hex : extraOk extra = true) :
    Dict.get? (kwInput ty extra) sType = ty.map Val.text := by
  cases ty with
  | none => exact extraOk_get? hex mem_reserved_type
  | some t => simp only [kwInput, Dict.get?_cons, if_true, Option.map_some]

theorem nodup_kwInput (ty : Option Str) (extra : Attrs) (hex : extraOk extra = true) :
    (Dict.keys (kwInput ty extra)).Nodup := by
  cases ty with
  | none => exact extraOk_nodup hex
  | some t =>
    simp only [kwInput, Dict.keys, List.map_cons, List.nodup_cons]
    exact ⟨not_mem_keys_of_get? (extraOk_get? hex mem_reserved_type), extraOk_nodup hex⟩

theorem get?_kwCheck_other (ty lit : Str) (extra : Attrs) (k : Str) (h1 : sType ≠ k) (h2 : sValue ≠ k) :
    Dict.get? (kwCheck ty lit extra) k = Dict.get? extra k := by
  simp only [kwCheck, Dict.get?_cons, h1, h2, if_false]

theorem nodup_kwCheck (ty lit : Str) (extra : Attrs) (hex : extraOk extra = true) :
    (Dict.keys (kwCheck ty lit extra)).Nodup := by
  simp only [kwCheck, Dict.keys, List.map_cons, List.nodup_cons, List.mem_cons, not_or]
  exact ⟨⟨by decide, not_mem_keys_of_get? (extraOk_get? hex mem_reserved_type)⟩,
    not_mem_keys_of_get? (extraOk_get? hex mem_reserved_value), extraOk_nodup hex⟩

theorem get?_kwOption_other (lit : Str) (extra : Attrs) (k : Str) (h2 : sValue ≠ k) :
    Dict.get? (kwOption lit extra) k = Dict.get? extra k := by
  simp only [kwOption, Dict.get?_cons, h2, if_false]

theorem nodup_kwOption (lit : Str) (extra : Attrs) (hex : extraOk extra = true) :
    (Dict.keys (kwOption lit extra)).Nodup := by
  simp only [kwOption, Dict.keys, List.map_cons, List.nodup_cons]
  exact ⟨not_mem_keys_of_get? (extraOk_get? hex mem_reserved_value), extraOk_nodup hex⟩

/-! ### text-like `<input>` -/

theorem textLikeTy_code (ty : Option Str) (h : textLikeTy ty = true) :
    textLike ((ty.map Val.text).getD (.text [])).lowerKw = true := by
  cases ty with
  | none => decide
  | some s =>
    simp only [textLikeTy, Bool.and_eq_true] at h
    simp only [Option.map_some, Option.getD_some, Val.lowerKw, textLike, Val.eqStr, Val.str?]
    exact h.1.1

theorem textLikeTy_browser (ty : Option Str) (h : textLikeTy ty = true) :
    asciiLower (((ty.map Val.text).bind Val.str?).getD "text".toList) ≠ "checkbox".toList ∧
    asciiLower (((ty.map Val.text).bind Val.str?).getD "text".toList) ≠ "radio".toList ∧
    inputNeverPosts (asciiLower (((ty.map Val.text).bind Val.str?).getD "text".toList)) = false := by
  cases ty with
  | none => decide
  | some s =>
    simp only [textLikeTy, Bool.and_eq_true, Bool.not_eq_true', Bool.or_eq_false_iff, beq_eq_false_iff_ne] at h
    simp only [Option.map_some, Option.bind_some, Val.str?, Option.getD_some]
    exact ⟨h.1.2.1, h.1.2.2, h.2⟩

/-- a text-like `<input>` bound to ANY element posts `(flat name, u)` -/
theorem input_posts (T : Tables) (ctx : Ctx) (hT : TablesOK T) (hL : Live T ctx) (b : Bind) (ty : Option Str)
    (extra : Attrs) (hex : extraOk extra = true) (hty : textLikeTy ty = true) (hname : b.flatName ≠ [])
    (ps : List Pair) (h : Control.posts (seenOf T ctx) (.single sInput b (kwInput ty extra)) = .ok ps) :
    ps = [(b.flatName, b.u)] := by
  obtain ⟨s, hs, rfl⟩ := posts_single h
  obtain ⟨st6, body, ht, _, rfl⟩ := seenOf_ok hs
  have n1 : sType ≠ "auto_name".toList := by decide
  have n2 : sType ≠ "auto_value".toList := by decide
  have n3 : sType ≠ sName := by decide
  have n4 : sType ≠ sValue := by decide
  have hp : Plain T ⟨kwInput ty extra, none, ctx⟩ := plain_of T ctx hL _ _
    (by rw [get?_kwInput_other _ _ _ n1]; exact extraOk_get? hex mem_reserved_autoName)
    (by rw [get?_kwInput_other _ _ _ n2]; exact extraOk_get? hex mem_reserved_autoValue)
    (by rw [get?_kwInput_other _ _ _ n3]; exact extraOk_get? hex mem_reserved_name)
  have hpost := posts_flat_pair_input T b ⟨kwInput ty extra, none, ctx⟩ st6 (Flatland.C11.decodeRefs body) hp
    (nodup_kwInput ty extra hex)
    (by simp only; rw [get?_kwInput_other _ _ _ n4]; exact extraOk_get? hex mem_reserved_value)
    (by simp only; rw [get?_kwInput_type ty extra hex]; exact textLikeTy_code ty hty)
    (by simp only [browserTextLike]; rw [get?_kwInput_type ty extra hex]; exact textLikeTy_browser ty hty)
    hname hT.nameInput hT.valueInput ht
  unfold Spec.PostsFlatPair submittedD at hpost
  simp only [hpost, Option.toList_some]

end Flatland.C12.Proofs

namespace Flatland.C12.Proofs
open Flatland.Markup Flatland.C12 Flatland.C19.Proofs

/-! ### `<button>` and `<textarea>` -/

theorem plain_extra (T : Tables) (ctx : Ctx) (hL : Live T ctx) (extra : Attrs) (hex : extraOk extra = true) :
    Plain T ⟨extra, none, ctx⟩ :=
  plain_of T ctx hL _ _ (extraOk_get? hex mem_reserved_autoName) (extraOk_get? hex mem_reserved_autoValue)
    (extraOk_get? hex mem_reserved_name)

theorem button_posts (T : Tables) (ctx : Ctx) (hT : TablesOK T) (hL : Live T ctx) (b : Bind)
    (extra : Attrs) (hex : extraOk extra = true) (hname : b.flatName ≠ [])
    (ps : List Pair) (h : Control.posts (seenOf T ctx) (.single sButton b extra) = .ok ps) :
    ps = [(b.flatName, b.u)] := by
  obtain ⟨s, hs, rfl⟩ := posts_single h
  obtain ⟨st6, body, ht, _, rfl⟩ := seenOf_ok hs
  have hpost := posts_flat_pair_button T b ⟨extra, none, ctx⟩ st6 (Flatland.C11.decodeRefs body)
    (plain_extra T ctx hL extra hex) (extraOk_nodup hex) (extraOk_get? hex mem_reserved_value)
    (extraOk_get? hex mem_reserved_type) hname
    hT.nameButton hT.valueButton ht
  unfold Spec.PostsFlatPair submittedD at hpost
  have e : sButton = "button".toList := rfl
  simp only [e, hpost, Option.toList_some]

theorem decode_markupEscape (ch : Flatland.C11.Chain) (hch : Flatland.C11.Proofs.TextChainOK ch = true) (u : Str) :
    Flatland.C11.decodeRefs (Flatland.C11.markupEscape ch u) = u := by
  cases u with
  | nil => simp only [Flatland.C11.markupEscape]; exact Flatland.C11.Proofs.decodeRefs_nil
  | cons c cs =>
    simp only [Flatland.C11.markupEscape]
    exact Flatland.C11.Proofs.decodeRefs_escape ch hch (c :: cs)

theorem dropLeadingLF_of_not (u : Str) (h : startsWithLF u = false) : dropLeadingLF u = u := by
  unfold dropLeadingLF
  split
  · simp [startsWithLF] at h
  · rfl

/-- a `<textarea>` posts `(flat name, u)` — unless `u` starts with a newline (KF-C12-f) -/
theorem textarea_posts (T : Tables) (ctx : Ctx) (hT : TablesOK T) (hL : Live T ctx) (b : Bind)
    (extra : Attrs) (hex : extraOk extra = true) (hname : b.flatName ≠ []) (hlf : startsWithLF b.u = false)
    (ps : List Pair) (h : Control.posts (seenOf T ctx) (.single sTextarea b extra) = .ok ps) :
    ps = [(b.flatName, b.u)] := by
  obtain ⟨s, hs, rfl⟩ := posts_single h
  obtain ⟨st6, body, ht, hb, rfl⟩ := seenOf_ok hs
  obtain ⟨hc, hpost⟩ := posts_flat_pair_textarea T b ⟨extra, none, ctx⟩ st6
    (plain_extra T ctx hL extra hex) (extraOk_nodup hex) rfl hname hT.nameTextarea hT.valueTextarea ht
  rw [hc] at hb
  simp only [bodyOf, pure, Except.pure, Except.ok.injEq] at hb
  subst hb
  have := hpost b.u
  unfold submittedD at this
  simp only [decode_markupEscape _ hT.textChain, this, Option.toList_some, dropLeadingLF_of_not _ hlf]

end Flatland.C12.Proofs

namespace Flatland.C12.Proofs
open Flatland.Markup Flatland.C12 Flatland.C19.Proofs

/-! ### check controls with a literal -/

theorem toList_ite {α} (c : Bool) (x : α) : (if c = true then some x else none).toList = if c = true then [x] else [] := by
  cases c <;> rfl

theorem checkTy_code (ty : Str) (h : checkTy ty = true) :
    ((Val.text ty).lowerKw.eqStr "radio".toList || (Val.text ty).lowerKw.eqStr "checkbox".toList) = true := by
  simp only [checkTy, Bool.and_eq_true] at h
  simp only [Val.lowerKw, Val.eqStr, Val.str?]
  exact h.1

theorem checkTy_browser (ty : Str) (h : checkTy ty = true) :
    ∀ s, (Val.text ty).str? = some s → asciiLower s = kwLower s := by
  simp only [checkTy, Bool.and_eq_true, beq_iff_eq] at h
  intro s hs
  simp only [Val.str?, Option.some.injEq] at hs
  subst hs
  exact h.2

theorem plain_kwCheck (T : Tables) (ctx : Ctx) (hL : Live T ctx) (ty lit : Str) (extra : Attrs)
    (hex : extraOk extra = true) : Plain T ⟨kwCheck ty lit extra, none, ctx⟩ :=
  plain_of T ctx hL _ _
    (by rw [get?_kwCheck_other _ _ _ _ (by decide) (by decide)]; exact extraOk_get? hex mem_reserved_autoName)
    (by rw [get?_kwCheck_other _ _ _ _ (by decide) (by decide)]; exact extraOk_get? hex mem_reserved_autoValue)
    (by rw [get?_kwCheck_other _ _ _ _ (by decide) (by decide)]; exact extraOk_get? hex mem_reserved_name)

theorem get?_kwCheck_type (ty lit : Str) (extra : Attrs) : Dict.get? (kwCheck ty lit extra) sType = some (.text ty) := by
  simp only [kwCheck, Dict.get?_cons, if_true]

theorem get?_kwCheck_value (ty lit : Str) (extra : Attrs) : Dict.get? (kwCheck ty lit extra) sValue = some (.text lit) := by
  have : sType ≠ sValue := by decide
  simp only [kwCheck, Dict.get?_cons, this, if_false, if_true]

/-- `<input type=radio|checkbox value=lit>` bound to a scalar or Boolean: posts `(name, lit)` iff `lit = u` -/
theorem check_posts_scalar (T : Tables) (ctx : Ctx) (hT : TablesOK T) (hL : Live T ctx) (b : Bind) (ty lit : Str)
    (extra : Attrs) (hex : extraOk extra = true) (hty : checkTy ty = true) (hname : b.flatName ≠ [])
    (hkind : ∀ s ms, b.kind ≠ .array s ms)
    (ps : List Pair) (h : Control.posts (seenOf T ctx) (.single sInput b (kwCheck ty lit extra)) = .ok ps) :
    ps = if lit == b.u then [(b.flatName, lit)] else [] := by
  obtain ⟨s, hs, rfl⟩ := posts_single h
  obtain ⟨st6, body, ht, _, rfl⟩ := seenOf_ok hs
  have hpost := (checked_iff T b ⟨kwCheck ty lit extra, none, ctx⟩ st6 (.text ty) lit (Flatland.C11.decodeRefs body)
    (plain_kwCheck T ctx hL ty lit extra hex) (nodup_kwCheck ty lit extra hex) (get?_kwCheck_type ty lit extra)
    (checkTy_code ty hty) (checkTy_browser ty hty) (get?_kwCheck_value ty lit extra) hkind hname
    hT.nameInput hT.valueInput ht).2.2.2
  unfold Spec.PostsIffMatches submittedD at hpost
  rw [hpost]
  exact toList_ite _ _

/-- the same control bound to an Array of strings: posts `(name, lit)` iff `lit` (stripped when the
    member schema strips) is one of the members -/
theorem check_posts_array (T : Tables) (ctx : Ctx) (hT : TablesOK T) (hL : Live T ctx) (b : Bind) (ty lit : Str)
    (extra : Attrs) (hex : extraOk extra = true) (hty : checkTy ty = true) (hname : b.flatName ≠ [])
    (strip : Bool) (ms : List (Option Str)) (hkind : b.kind = .array strip ms)
    (ps : List Pair) (h : Control.posts (seenOf T ctx) (.single sInput b (kwCheck ty lit extra)) = .ok ps) :
    ps = if ms.contains (some (if strip then T.strip lit else lit)) then [(b.flatName, lit)] else [] := by
  obtain ⟨s, hs, rfl⟩ := posts_single h
  obtain ⟨st6, body, ht, _, rfl⟩ := seenOf_ok hs
  have hpost := (checked_iff_array T b ⟨kwCheck ty lit extra, none, ctx⟩ st6 (.text ty) lit (Flatland.C11.decodeRefs body)
    (plain_kwCheck T ctx hL ty lit extra hex) (nodup_kwCheck ty lit extra hex) (get?_kwCheck_type ty lit extra)
    (checkTy_code ty hty) (checkTy_browser ty hty) (get?_kwCheck_value ty lit extra) strip ms hkind hname
    hT.nameInput hT.valueInput ht).2.2.2
  unfold Spec.PostsIffMatches submittedD at hpost
  rw [hpost]
  exact toList_ite _ _

/-- `<input type=checkbox>` without `value=`, bound to a Boolean: posts `(name, true)` iff `u` is the true text -/
theorem boolbox_posts (T : Tables) (ctx : Ctx) (hT : TablesOK T) (hL : Live T ctx) (b : Bind) (tru : Str)
    (extra : Attrs) (hex : extraOk extra = true) (hname : b.flatName ≠ []) (hkind : b.kind = .boolean tru)
    (ps : List Pair) (h : Control.posts (seenOf T ctx) (.single sInput b ((sType, .text sCheckbox) :: extra)) = .ok ps) :
    ps = if tru == b.u then [(b.flatName, tru)] else [] := by
  obtain ⟨s, hs, rfl⟩ := posts_single h
  obtain ⟨st6, body, ht, _, rfl⟩ := seenOf_ok hs
  have hkw : (sType, Val.text sCheckbox) :: extra = kwInput (some sCheckbox) extra := rfl
  have n1 : sType ≠ "auto_name".toList := by decide
  have n2 : sType ≠ "auto_value".toList := by decide
  have n3 : sType ≠ sName := by decide
  have n4 : sType ≠ sValue := by decide
  have hp : Plain T ⟨kwInput (some sCheckbox) extra, none, ctx⟩ := plain_of T ctx hL _ _
    (by rw [get?_kwInput_other _ _ _ n1]; exact extraOk_get? hex mem_reserved_autoName)
    (by rw [get?_kwInput_other _ _ _ n2]; exact extraOk_get? hex mem_reserved_autoValue)
    (by rw [get?_kwInput_other _ _ _ n3]; exact extraOk_get? hex mem_reserved_name)
  rw [hkw] at ht
  have hpost := (checked_iff_boolean T b ⟨kwInput (some sCheckbox) extra, none, ctx⟩ st6 (.text sCheckbox) tru
    (Flatland.C11.decodeRefs body) hp (nodup_kwInput (some sCheckbox) extra hex)
    (by simp only; rw [get?_kwInput_type (some sCheckbox) extra hex]; rfl) (by decide)
    (checkTy_browser sCheckbox (by decide))
    (by simp only; rw [get?_kwInput_other _ _ _ n4]; exact extraOk_get? hex mem_reserved_value)
    hkind hname hT.nameInput hT.valueInput ht).2.2
  unfold Spec.PostsIffMatches submittedD at hpost
  rw [hpost]
  exact toList_ite _ _

end Flatland.C12.Proofs

namespace Flatland.C12.Proofs
open Flatland.Markup Flatland.C12 Flatland.C19.Proofs

/-! ### `<select>` and its options -/

/-- THE SELECT CARRIES THE NAME: `gen.select(bind)` comes out with `name` = the flat name -/
theorem select_carries_name (T : Tables) (b : Bind) (st st6 : TState) (hp : Plain T st)
    (hname : b.flatName ≠ []) (hT1 : T.autoTag sName sSelect = true)
    (h : transform T sSelect (some b) st = .ok st6) :
    Dict.get? st6.attrs sName = some (.text b.flatName) := by
  obtain ⟨s1, s2, s3, s4, s5, h1, h2, h3, h4, h5, h6⟩ := transform_steps h
  rw [transformName_on T sSelect b st hp.nameOn hp.noNameOpt hname hp.noName hT1] at h1
  simp only [Except.ok.injEq] at h1
  subst h1
  have f2 := transformValue_frame sName h2 (by decide) (by decide) (by decide) (by decide)
  have f1 := (later_frame sName (by decide) (by decide : sSelect ≠ sLabel) h3 h4 h5 h6).1
  rw [f1, f2]
  exact Dict.get?_set_self _ _ _

theorem posts_select {see : Str → Bind → Attrs → Except PyErr Seen} {b : Bind} {kw : Attrs} {opts : List Attrs}
    {ps : List Pair} (h : Control.posts see (.select b kw opts) = .ok ps) :
    ∃ s, see sSelect b kw = .ok s ∧
      postsAll (fun okw => do
        let (attrs, text) ← see sOption b okw
        pure (submittedOption ((attr? s.1 sName).getD []) attrs text).toList) opts = .ok ps := by
  unfold Control.posts at h
  simp only [bind, Except.bind, pure, Except.pure] at h
  cases hs : see sSelect b kw with
  | error e => rw [hs] at h; simp at h
  | ok s =>
    rw [hs] at h
    exact ⟨s, rfl, h⟩

/-- the name a browser reads from the rendered `<select>` -/
theorem select_seen_name (T : Tables) (ctx : Ctx) (hT : TablesOK T) (hL : Live T ctx) (b : Bind) (kw : Attrs)
    (hnd : (Dict.keys kw).Nodup) (h1 : Dict.get? kw "auto_name".toList = none)
    (h2 : Dict.get? kw "auto_value".toList = none) (h3 : Dict.get? kw sName = none) (hname : b.flatName ≠ [])
    (s : Seen) (h : seenOf T ctx sSelect b kw = .ok s) : (attr? s.1 sName).getD [] = b.flatName := by
  obtain ⟨st6, body, ht, _, rfl⟩ := seenOf_ok h
  have hn := select_carries_name T b ⟨kw, none, ctx⟩ st6 (plain_of T ctx hL _ _ h1 h2 h3) hname hT.nameSelect ht
  have hnd6 := transform_nodup (st := ⟨kw, none, ctx⟩) hnd ht
  simp only [attr?_strAttrs _ hnd6, hn, Option.bind_some, str?_text, Option.getD_some]

/-- `<option value=lit>` inside a `<select>` named `n`: posts `(n, lit)` iff the literal matches -/
theorem option_posts (T : Tables) (ctx : Ctx) (hT : TablesOK T) (hL : Live T ctx) (b : Bind) (n lit : Str)
    (extra : Attrs) (hex : extraOk extra = true) (hn : n ≠ []) (m : Bool)
    (hm : b.matches T (some (.text lit)) = .ok m) (p : List Pair)
    (h : (do
      let (attrs, text) ← seenOf T ctx sOption b (kwOption lit extra)
      pure (submittedOption n attrs text).toList : Except PyErr (List Pair)) = .ok p) :
    p = if m = true then [(n, lit)] else [] := by
  simp only [bind, Except.bind, pure, Except.pure] at h
  cases hs : seenOf T ctx sOption b (kwOption lit extra) with
  | error e => rw [hs] at h; simp at h
  | ok s =>
    rw [hs] at h
    simp only [Except.ok.injEq] at h
    subst h
    obtain ⟨st6, body, ht, _, rfl⟩ := seenOf_ok hs
    have n1 : sValue ≠ "auto_name".toList := by decide
    have n2 : sValue ≠ "auto_value".toList := by decide
    have n3 : sValue ≠ sName := by decide
    have hp : Plain T ⟨kwOption lit extra, none, ctx⟩ := plain_of T ctx hL _ _
      (by rw [get?_kwOption_other _ _ _ n1]; exact extraOk_get? hex mem_reserved_autoName)
      (by rw [get?_kwOption_other _ _ _ n2]; exact extraOk_get? hex mem_reserved_autoValue)
      (by rw [get?_kwOption_other _ _ _ n3]; exact extraOk_get? hex mem_reserved_name)
    have hpost := (selected_iff T b ⟨kwOption lit extra, none, ctx⟩ st6 lit n (Flatland.C11.decodeRefs body) m hp
      (nodup_kwOption lit extra hex) (by simp only [kwOption, Dict.get?_cons, if_true]) hm hn
      hT.nameOption hT.valueOption ht).2.2
    simp only [hpost]
    exact toList_ite _ _

/-- a group of options `value=l` (l ∈ lits) inside a `<select>` named `n`: one pair per matching literal -/
theorem optionGroup_posts (T : Tables) (ctx : Ctx) (hT : TablesOK T) (hL : Live T ctx) (b : Bind) (n : Str) (hn : n ≠ [])
    (m : Str → Bool) (hm : ∀ l, b.matches T (some (.text l)) = .ok (m l)) :
    ∀ (lits : List Str) (es : List Attrs), es.all extraOk = true → ∀ ps,
      postsAll (fun okw => do
        let (attrs, text) ← seenOf T ctx sOption b okw
        pure (submittedOption n attrs text).toList) (optionGroup lits es) = .ok ps →
      ps = (lits.filter m).map (fun l => (n, l)) := by
  intro lits
  induction lits with
  | nil => intro es _ ps h; simp only [optionGroup, postsAll, pure, Except.pure, Except.ok.injEq] at h; subst h; rfl
  | cons l ls ih =>
    intro es hes ps h
    simp only [optionGroup] at h
    obtain ⟨p, q, hp, hq, rfl⟩ := postsAll_cons h
    have e1 := option_posts T ctx hT hL b n l (es.headD []) (extraOk_headD hes) hn (m l) (hm l) p hp
    have e2 := ih es.tail (extraOk_tail hes) q hq
    subst e1; subst e2
    cases hml : m l <;> simp [hml]

/-- a group of check controls `value=l` (l ∈ lits): one pair per matching literal -/
theorem checkGroup_posts (T : Tables) (ctx : Ctx) (b : Bind) (ty : Str) (m : Str → Bool)
    (hone : ∀ l extra, extraOk extra = true → ∀ p,
      Control.posts (seenOf T ctx) (.single sInput b (kwCheck ty l extra)) = .ok p →
      p = if m l = true then [(b.flatName, l)] else []) :
    ∀ (lits : List Str) (es : List Attrs), es.all extraOk = true → ∀ ps,
      postsAll (Control.posts (seenOf T ctx)) (checkGroup b ty lits es) = .ok ps →
      ps = (lits.filter m).map (fun l => (b.flatName, l)) := by
  intro lits
  induction lits with
  | nil => intro es _ ps h; simp only [checkGroup, postsAll, pure, Except.pure, Except.ok.injEq] at h; subst h; rfl
  | cons l ls ih =>
    intro es hes ps h
    simp only [checkGroup] at h
    obtain ⟨p, q, hp, hq, rfl⟩ := postsAll_cons h
    have e1 := hone l (es.headD []) (extraOk_headD hes) p hp
    have e2 := ih es.tail (extraOk_tail hes) q hq
    subst e1; subst e2
    cases hml : m l <;> simp [hml]

end Flatland.C12.Proofs
