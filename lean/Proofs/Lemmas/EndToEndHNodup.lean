/-
END TO END — the bridge from "no Array / MultiValue with two or more members" to C02's hereditary
"no key twice" (`HNodup`) on an element's own flat pairs:

    hnodup_flatten : SepSafe … → EnvOK env → wf s → rootOK s → OkS env s e → narrowB s e →
                     HNodup env sep s (wrap (flatten env sep s e))

`HNodup` of `flatten` output does not follow from key distinctness alone (KF-C02-a: `l_0_s` / `l_00_s`);
it needs the keys to be the CANONICAL paths of the schema.  The proof is the induction of C01's
`rts_all` once more, with `HNodup` in place of the rebuilt value:

* `hnodup_reach`  — `HNodup` only looks at the pairs that pass the element's own first test (`reach`);
* a mapping: what the `startswith` filter hands to a declared field is, after that first test, the
  field's own output (`reach_other_head`: a sibling's pairs fail the test) — or nothing;
* a List: the group of slot `i` is the `i`-th member's own output (`listAddr_path`, `slots_filter`),
  an index beyond the members addresses nothing;
* an Array with at most one member, a scalar, a JoinedString: at most one pair altogether.

`hnodup_perm` carries `HNodup` across the permutation `flatten e ~ formPairs t ++ uncheckedPairs t`
(document order vs breadth-first order).
-/
import Proofs.C02Order
import Proofs.C01Sparse
import Flatland.Spec.EndToEnd
namespace Flatland.Flat.Proofs
open Flatland.Flat Flatland.Flat.Spec Flatland.EndToEnd

/-! ### `HNodup` is a property of the multiset of pairs -/

mutual
theorem hnodup_perm (env : Env) (sep : Str) : ∀ (s : Schema) (ps ps' : Pairs),
    HNodup env sep s ps → ps.Perm ps' → HNodup env sep s ps'
  | .leaf name _ _, ps, ps', h, hp => by
    simp only [HNodup] at h ⊢
    rw [← (hp.filter _).length_eq]; exact h
  | .joined name _ _ _, ps, ps', h, hp => by
    simp only [HNodup] at h ⊢
    rw [← (hp.filter _).length_eq]; exact h
  | .dict name _ _ fields, ps, ps', h, hp => by
    simp only [HNodup] at h ⊢
    exact hnodupFields_perm env sep fields _ _ h (possibles_perm sep name hp)
  | .compound name _ _ fields, ps, ps', h, hp => by
    simp only [HNodup] at h ⊢
    exact hnodupFields_perm env sep fields _ _ h (possibles_perm sep name hp)
  | .list name _ prune _ member, ps, ps', h, hp => by
    simp only [HNodup] at h ⊢
    intro i
    exact hnodup_perm env sep member _ _ (h i) (groupOf_perm env sep name prune i hp)
  | .array name _ prune member, ps, ps', h, hp => by
    simp only [HNodup] at h ⊢
    by_cases hn : (!truthy name) = true
    · simp only [hn, if_true] at h ⊢
      rw [arrayAnon_eq, List.length_map] at h ⊢
      rw [← (hp.filterMap _).length_eq]; exact h
    · simp only [hn, if_false] at h ⊢
      rw [arrayNamed_eq, List.length_map] at h ⊢
      rw [← (hp.filterMap _).length_eq]; exact h
theorem hnodupFields_perm (env : Env) (sep : Str) : ∀ (fs : List Schema) (poss poss' : List (Str × Str)),
    HNodupFields env sep fs poss → poss.Perm poss' → HNodupFields env sep fs poss'
  | [], _, _, _, _ => by simp [HNodupFields]
  | f :: fs, poss, poss', h, hp => by
    simp only [HNodupFields] at h ⊢
    exact ⟨hnodup_perm env sep f _ _ h.1 (wrap_perm (hp.filter _)),
      hnodupFields_perm env sep fs _ _ h.2 hp⟩
end

/-! ### no pairs at all -/

mutual
theorem hnodup_nil (env : Env) (sep : Str) : ∀ s : Schema, HNodup env sep s []
  | .leaf .. => by simp [HNodup]
  | .joined .. => by simp [HNodup]
  | .dict name _ _ fields => by
    simp only [HNodup, possibles_nil]; exact hnodupFields_nil env sep fields
  | .compound name _ _ fields => by
    simp only [HNodup, possibles_nil]; exact hnodupFields_nil env sep fields
  | .list name _ prune _ member => by
    simp only [HNodup]
    intro i
    have : groupOf env sep name prune i [] = [] := rfl
    rw [this]; exact hnodup_nil env sep member
  | .array name _ prune member => by simp [HNodup, arrayAnon, arrayNamed]
theorem hnodupFields_nil (env : Env) (sep : Str) : ∀ fs : List Schema, HNodupFields env sep fs []
  | [] => by simp [HNodupFields]
  | f :: fs => by
    simp only [HNodupFields, List.filter_nil]
    exact ⟨hnodup_nil env sep f, hnodupFields_nil env sep fs⟩
end

/-- field by field -/
theorem hnodupFields_of_forall (env : Env) (sep : Str) (poss : List (Str × Str)) : ∀ fs : List Schema,
    (∀ f ∈ fs, HNodup env sep f (wrap (poss.filter (fun p => isPrefix (f.name.getD []) p.1)))) →
    HNodupFields env sep fs poss
  | [], _ => by simp [HNodupFields]
  | f :: fs, h => by
    simp only [HNodupFields]
    exact ⟨h f (by simp), hnodupFields_of_forall env sep poss fs (fun g hg => h g (List.mem_cons_of_mem _ hg))⟩

/-! ### `HNodup` only looks at the pairs that pass the element's own first test -/

theorem hnodup_reach (env : Env) (sep : Str) (s : Schema) (ps : Pairs) :
    HNodup env sep s (ps.filter (fun p => reach env sep s p.1)) ↔ HNodup env sep s ps := by
  cases s with
  | leaf name o k => simp only [HNodup, reach, List.filter_filter, Bool.and_self]
  | joined name o k m => simp only [HNodup, reach, List.filter_filter, Bool.and_self]
  | dict name o mode fields => simp only [HNodup, reach, possibles_filter]
  | compound name o k fields => simp only [HNodup, reach, possibles_filter]
  | list name o prune mx member => simp only [HNodup, reach, groupOf_filter]
  | array name o prune member =>
    simp only [HNodup, reach]
    by_cases ht : truthy name = true
    · simp only [ht, Bool.not_true, Bool.false_eq_true, if_false, arrayNamed_filter]
    · have ht' : truthy name = false := by simpa using ht
      simp only [ht', Bool.not_false, if_true, arrayAnon_filter]

/-- at most one pair altogether: scalars, JoinedStrings and Arrays are content -/
theorem arrayAnon_length_le (setM : Pairs → Elem) (prune : Bool) (cn : Option Str) (ps : Pairs) :
    (arrayAnon setM prune cn ps).length ≤ ps.length := by
  rw [arrayAnon_eq, List.length_map]; exact List.length_filterMap_le _ _

theorem arrayNamed_length_le (setM : Pairs → Elem) (sep : Str) (prune : Bool) (name : Str) (cn : Option Str)
    (ps : Pairs) : (arrayNamed setM sep prune name cn ps).length ≤ ps.length := by
  rw [arrayNamed_eq, List.length_map]; exact List.length_filterMap_le _ _

theorem toKeys_filter_length_le (sep : Str) (u : Bool) (l : List PPair) :
    (toKeys sep (l.filter (keepP u))).length ≤ l.length := by
  simp only [toKeys, List.length_map]; exact List.length_filter_le _ _

/-! ### the statement for one schema -/

/-- the element's own surviving pairs satisfy the hereditary "no key twice" whenever no Array of the
    state has two members -/
def HNS (env : Env) (sep : Str) (s : Schema) : Prop :=
  ∀ (u : Bool) (e : Elem), OkS env s e → narrowB s e = true →
    HNodup env sep s (toKeys sep ((relFlat (resolve env s e)).filter (keepP u)))

variable {env : Env} {sep : Str} {T : Str → Prop}

theorem hns_leaf (nm : Option Str) (o : Bool) (k : Nat) : HNS env sep (.leaf nm o k) := by
  intro u e hok _
  cases e with
  | leaf t =>
    have hr : resolve env (.leaf nm o k) (.leaf t) = .mk nm true true t false [] := by
      unfold resolve; rfl
    rw [hr, relFlat_leaf nm true t [] (Or.inr rfl)]
    simp only [HNodup]
    exact Nat.le_trans (List.length_filter_le _ _) (toKeys_filter_length_le sep u _)
  | _ => simp [OkS, OkP] at hok

theorem hns_joined (nm : Option Str) (o : Bool) (k : Nat) (m : Schema) : HNS env sep (.joined nm o k m) := by
  intro u e hok _
  cases e with
  | joined t ms =>
    have hr : resolve env (.joined nm o k m) (.joined t ms)
        = .mk nm true false t false (resolveList env m ms) := by
      unfold resolve; rfl
    rw [hr, relFlat_leaf nm false t _ (Or.inl rfl)]
    simp only [HNodup]
    exact Nat.le_trans (List.length_filter_le _ _) (toKeys_filter_length_le sep u _)
  | _ => simp [OkS, OkP] at hok

theorem hns_array (nm : Option Str) (o prune : Bool) (member : Schema) :
    HNS env sep (.array nm o prune member) := by
  intro u e hok hnar
  cases e with
  | array ms =>
    simp only [OkS, OkP] at hok
    obtain ⟨⟨cn, mo, k, hm⟩, hmem⟩ := hok
    subst hm
    simp only [narrowB, decide_eq_true_eq] at hnar
    obtain ⟨hkids, hms, _⟩ := resolveList_leavesP env cn mo k ms hmem
    have hr : resolve env (.array nm o prune (.leaf cn mo k)) (.array ms)
        = .mk nm false true [] false (resolveList env (.leaf cn mo k) ms) := by
      unfold resolve; rfl
    rw [hr, relFlat_eq]
    simp only [ownPath, FNode.fl, Bool.false_eq_true, if_false, List.nil_append, pushed, FNode.cfl,
      if_true, childItems, FNode.slots, FNode.kids, namePath, FNode.name, List.nil_append]
    rw [kidsFrom_noslots, hkids, List.map_map]
    have := bfsPath_leaves nm.toList cn (leafTexts ms)
    simp only [Function.comp_def] at this ⊢
    rw [this]
    have hlen : (leafTexts ms).length ≤ 1 := by
      have : ms.length = (leafTexts ms).length := by
        conv => lhs; rw [hms]
        simp
      omega
    have hle := toKeys_filter_length_le sep u
      ((leafTexts ms).map (fun t => ((nm.toList ++ cn.toList, t) : PPair)))
    simp only [List.length_map] at hle
    simp only [HNodup]
    split
    · exact Nat.le_trans (arrayAnon_length_le _ _ _ _) (by omega)
    · exact Nat.le_trans (arrayNamed_length_le _ _ _ _ _ _) (by omega)
  | _ => simp [OkS, OkP] at hok

/-! ### mappings -/

theorem narrowMs_mem : ∀ (fs : List Schema) (ms : List (Str × Elem)), narrowMs fs ms = true →
    ∀ f ∈ fs, ∀ x e, f.name = some x → lookup x ms = some e → narrowB f e = true
  | [], _, _ => by intro f hf; simp at hf
  | g :: gs, ms, h => by
    simp only [narrowMs, Bool.and_eq_true] at h
    intro f hf x e hx hl
    rcases List.mem_cons.mp hf with rfl | hf
    · have h1 := h.1
      simp only [hx, Option.getD_some, hl] at h1
      exact h1
    · exact narrowMs_mem gs ms h.2 f hf x e hx hl

section field
variable (hs : SepSafe env sep T)
include hs

/-- **one field.**  What `Mapping._set_flat` hands to the declared field `f` — every stripped key that
    merely starts with its name — satisfies `HNodup f`, when the member held under that name does
    (with its own output) -/
theorem field_hnodup (fields : List Schema) (hnd : (namesOf fields).Nodup)
    (htok : ∀ g ∈ fields, ∃ x, g.name = some x ∧ T x)
    (ms : List (Str × Elem)) (hkeys : (ms.map (·.1)).Nodup)
    (hmem : ∀ p ∈ ms, OkSAny env fields p.1 p.2) (hnar : narrowMs fields ms = true)
    (f : Schema) (hf : f ∈ fields) (nm : Str) (hname : f.name = some nm)
    (hrt : HNS env sep f) (u : Bool) :
    HNodup env sep f
      (wrap ((((bfsPath ((kidsS env fields ms).map (fun k => (([], k) : QItem)))).filter (keepP u)).map
        (joinPair sep)).filter (fun p => isPrefix nm p.1))) := by
  obtain ⟨nm', hnm', hT⟩ := htok f hf
  rw [hname] at hnm'
  have : nm' = nm := by injection hnm' with h; exact h.symm
  subst this
  have hkids : ∀ k ∈ kidsS env fields ms, ∃ y, k.name = some y ∧ T y := by
    intro k hk
    obtain ⟨y, h1, h2, _⟩ := kidsS_names htok hk
    exact ⟨y, h1, h2⟩
  -- selection: after the field's own first test only the member's own pairs are left
  generalize hQ : (kidsS env fields ms).map (fun k => (([], k) : QItem)) = Q
  have hQne : ∀ it ∈ Q, namePath it.1 it.2 ≠ [] := by
    intro it hit; rw [← hQ] at hit
    obtain ⟨k, hk, rfl⟩ := List.mem_map.mp hit
    obtain ⟨y, hy, _⟩ := hkids k hk
    simp [namePath, hy]
  have hhead : ∀ x ∈ bfsPath Q, ∃ y ext, T y ∧ x.1 = y :: ext := by
    intro x hx
    obtain ⟨it, hit, ext, he⟩ := bfsPath_mem Q x hx
    rw [← hQ] at hit
    obtain ⟨k, hk, rfl⟩ := List.mem_map.mp hit
    obtain ⟨y, hy, hTy⟩ := hkids k hk
    exact ⟨y, ext, hTy, by simp [he, namePath, hy]⟩
  have hpred : ∀ x ∈ bfsPath Q,
      (isPrefix nm' (joinPair sep x).1 && reach env sep f (some (joinPair sep x).1))
        = ((x.1.head? == some nm') && reach env sep f (some (joinPair sep x).1)) := by
    intro x hx
    obtain ⟨y, ext, hTy, hxe⟩ := hhead x hx
    simp only [joinPair, hxe, List.head?_cons]
    by_cases hyn : y = nm'
    · subst hyn; simp [isPrefix_tok_self]
    · rw [reach_other_head hs f nm' hname hT y hTy hyn ext]; simp
  have hsel : (wrap ((((bfsPath Q).filter (keepP u)).map (joinPair sep)).filter
        (fun p => isPrefix nm' p.1))).filter (fun p => reach env sep f p.1)
      = (wrap (((bfsPath (Q.filter (fun it => (namePath it.1 it.2).head? == some nm'))).filter
          (keepP u)).map (joinPair sep))).filter (fun p => reach env sep f p.1) := by
    rw [← bfsPath_filter_head nm' Q hQne]
    simp only [wrap_filter, List.filter_map, List.filter_filter]
    congr 2
    apply List.filter_congr
    intro x hx
    have hp := hpred x hx
    simp only [Function.comp] at hp ⊢
    generalize isPrefix nm' (joinPair sep x).1 = I at hp ⊢
    generalize reach env sep f (some (joinPair sep x).1) = A at hp ⊢
    generalize (x.1.head? == some nm') = H at hp ⊢
    generalize keepP u x = K
    cases I <;> cases A <;> cases H <;> cases K <;> simp_all
  rw [← hnodup_reach, hsel, hnodup_reach, ← hQ]
  -- the member held under the name, or nothing
  cases hl : lookup nm' ms with
  | none =>
    have hne := lookup_none_keys hl
    have hfil : ((kidsS env fields ms).map (fun k => (([], k) : QItem))).filter
        (fun it => (namePath it.1 it.2).head? == some nm') = [] := by
      apply List.filter_eq_nil_iff.mpr
      intro it hit
      obtain ⟨k, hk, rfl⟩ := List.mem_map.mp hit
      obtain ⟨y, hy, _, e, hye⟩ := kidsS_names htok hk
      have := hne (y, e) hye
      simp [namePath, hy, this]
    rw [hfil, bfsPath_nil]
    simp only [List.filter_nil, List.map_nil, wrap]
    exact hnodup_nil env sep f
  | some e =>
    obtain ⟨a, b, hab, hna⟩ := lookup_some_split hl
    have hnb : ∀ p ∈ b, p.1 ≠ nm' := by
      intro p hp heq
      rw [hab, List.map_append, List.map_cons] at hkeys
      have h1 := (List.nodup_append.mp hkeys).2.1
      simp only [List.nodup_cons] at h1
      apply h1.1
      rw [← heq]
      exact List.mem_map_of_mem hp
    have hfind : findField nm' fields = some f := findField_unique hnd hf hname
    have hsplit : kidsS env fields ms
        = kidsS env fields a ++ resolve env f e :: kidsS env fields b := by
      rw [hab, kidsS_append]
      simp only [kidsS, hfind, Option.map_some, List.singleton_append]
    have hother : ∀ l : List (Str × Elem), (∀ p ∈ l, p.1 ≠ nm') → (∀ p ∈ l, p ∈ ms) →
        ∀ it ∈ (kidsS env fields l).map (fun k => (([], k) : QItem)),
          ((namePath it.1 it.2).head? == some nm') = false := by
      intro l hl _ it hit
      obtain ⟨k, hk, rfl⟩ := List.mem_map.mp hit
      obtain ⟨y, hy, _, e', hye⟩ := kidsS_names htok hk
      have := hl (y, e') hye
      simp [namePath, hy, this]
    have hfil : ((kidsS env fields ms).map (fun k => (([], k) : QItem))).filter
        (fun it => (namePath it.1 it.2).head? == some nm') = [([], resolve env f e)] := by
      rw [hsplit, List.map_append, List.map_cons]
      apply filter_unique
      · simp [namePath, resolve_name, hname]
      · exact hother a hna (fun p hp => by rw [hab]; simp [hp])
      · exact hother b hnb (fun p hp => by rw [hab]; simp [hp])
    rw [hfil]
    have hrel : bfsPath [(([], resolve env f e) : QItem)] = relFlat (resolve env f e) := rfl
    rw [hrel]
    have hrel_ne : ∀ p ∈ (relFlat (resolve env f e)).filter (keepP u), p.1 ≠ [] := by
      intro p hp
      have hp' := (List.mem_filter.mp hp).1
      obtain ⟨it, hit, ext, he⟩ := bfsPath_mem _ p hp'
      simp only [List.mem_singleton] at hit
      subst hit
      rw [he]
      simp [namePath, resolve_name, hname]
    rw [← toKeys_eq_wrap sep _ hrel_ne]
    have hok : OkS env f e := by
      have h1 := hmem (nm', e) (by rw [hab]; simp)
      obtain ⟨g, hg, hgn, hgo⟩ := (OkSAny_iff env fields nm' e).mp h1
      have := findField_unique hnd hg hgn
      rw [hfind] at this
      injection this with this
      subst this
      exact hgo
    exact hrt u e hok (narrowMs_mem fields ms hnar f hf nm' e hname hl)

/-- **mappings.**  A Dict, Compound or SparseDict whose fields are all fine is fine itself. -/
theorem hns_mapping (nm : Option Str) (hnm : ∀ x, nm = some x → T x) (fields : List Schema)
    (hnd : (namesOf fields).Nodup) (htok : ∀ g ∈ fields, ∃ x, g.name = some x ∧ T x)
    (hrt : ∀ f ∈ fields, HNS env sep f)
    (ms : List (Str × Elem)) (hkeys : (ms.map (·.1)).Nodup)
    (hmem : ∀ p ∈ ms, OkSAny env fields p.1 p.2) (hnar : narrowMs fields ms = true) (u : Bool)
    (own : List PPair) (hown : own = [] ∨ ∃ t, own = [(nm.toList, t)])
    (L : List PPair)
    (hLdef : L = bfsPath ((kidsS env fields ms).map (fun k => ((nm.toList, k) : QItem)))) :
    HNodupFields env sep fields (possibles sep nm (toKeys sep ((own ++ L).filter (keepP u)))) := by
  have hL : L = (bfsPath ((kidsS env fields ms).map (fun k => (([], k) : QItem)))).map (pre nm.toList) := by
    rw [hLdef, map_pair_shift, bfsPath_shift']
  have hne : ∀ p ∈ bfsPath ((kidsS env fields ms).map (fun k => (([], k) : QItem))), p.1 ≠ [] := by
    intro p hp
    obtain ⟨it, hit, ext, he⟩ := bfsPath_mem _ p hp
    obtain ⟨k, hk, rfl⟩ := List.mem_map.mp hit
    obtain ⟨y, hy, _⟩ := kidsS_names htok hk
    rw [he]
    simp [namePath, hy]
  have hne' : ∀ p ∈ (bfsPath ((kidsS env fields ms).map (fun k => (([], k) : QItem)))).filter (keepP u),
      p.1 ≠ [] := fun p hp => hne p (List.mem_filter.mp hp).1
  have hposs : possibles sep nm (toKeys sep ((own ++ L).filter (keepP u)))
      = ((bfsPath ((kidsS env fields ms).map (fun k => (([], k) : QItem)))).filter
      (keepP u)).map (joinPair sep) := by
    rw [hL, List.filter_append, filter_keepP_pre]
    rcases hown with rfl | ⟨t, rfl⟩
    · simp only [List.filter_nil, List.nil_append]
      exact possibles_of_kidsP hs nm hnm _ hne'
    · simp only [List.filter_cons, List.filter_nil]
      split
      · simp only [toKeys, List.singleton_append, List.map_cons]
        rw [possibles_ownP hs]
        exact possibles_of_kidsP hs nm hnm _ hne'
      · simp only [List.nil_append]
        exact possibles_of_kidsP hs nm hnm _ hne'
  rw [hposs]
  apply hnodupFields_of_forall
  intro f hf
  obtain ⟨x, hx, _⟩ := htok f hf
  simp only [hx, Option.getD_some]
  exact field_hnodup hs fields hnd htok ms hkeys hmem hnar f hf x hx (hrt f hf) u

end field

/-! ### Lists -/

theorem hns_list (hs : SepSafe env sep T) (henv : EnvOK env) (nm : Option Str)
    (hnm : ∀ x, nm = some x → T x) (o prune : Bool) (mx : Nat) (member : Schema)
    (hmn : ∀ t ∈ names member, t ≠ []) (hrt : HNS env sep member) :
    HNS env sep (.list nm o prune mx member) := by
  intro u e hok hnar
  cases e with
  | list ms =>
    simp only [OkS] at hok
    obtain ⟨hlen, hdig, hmem⟩ := hok
    simp only [narrowB, List.all_eq_true] at hnar
    have hr : resolve env (.list nm o prune mx member) (.list ms)
        = .mk nm false true [] true (resolveList env member ms) := by
      unfold resolve; rfl
    rw [hr, relFlat_eq]
    simp only [ownPath, FNode.fl, Bool.false_eq_true, if_false, List.nil_append, pushed, FNode.cfl,
      if_true, childItems, FNode.slots, FNode.kids, namePath, FNode.name]
    rw [kidsFrom_slots, bfsPath_shift', resolveList_eq_map, filter_keepP_pre]
    generalize hkids : ms.map (resolve env member) = kids
    have hklen : kids.length = ms.length := by rw [← hkids]; simp
    have hkne : namesNEL kids := by
      rw [← hkids, ← resolveList_eq_map]; exact resolveList_namesNE env member ms hmn
    have hkid : ∀ i (hi : i < kids.length), kids[i] = resolve env member ms[i]! := by
      intro i hi
      have hi' : i < ms.length := by omega
      simp [← hkids, hi']
    have hheads := slots_heads kids hkne
    generalize hLs : bfsPath (slotItems 0 kids) = Ls at hheads
    -- every pair is read as (slot index, remaining path)
    have haddr : ∀ x ∈ Ls, ∃ i ext, i < kids.length ∧ x.1 = natStr i :: ext ∧
        listAddr env sep nm (tokKey sep ((pre nm.toList x).1)) = some (i, tokKey sep ext) := by
      intro x hx
      obtain ⟨i, ext, hi, hxe, hext⟩ := hheads x hx
      refine ⟨i, ext, hi, hxe, ?_⟩
      simp only [pre, hxe]
      exact listAddr_path hs henv nm hnm i (hdig i (by omega)) ext hext
    obtain ⟨u', hu'⟩ : ∃ u' : Bool, u' = (u || prune) := ⟨_, rfl⟩
    -- the group of slot i is the member's own surviving output
    have hgroup : ∀ i, (hi : i < kids.length) →
        groupOf env sep nm prune i (toKeys sep ((Ls.filter (keepP u)).map (pre nm.toList)))
          = toKeys sep ((relFlat kids[i]).filter (keepP u')) := by
      intro i hi
      simp only [groupOf, toKeys, List.filterMap_map]
      rw [filterMap_filter']
      refine (filterMap_congr' _ (fun x => if (keepP u' x && (x.1.head? == some (natStr i))) = true
              then some (tokKey sep x.1.tail, x.2) else none) Ls ?_).trans ?_
      · intro x hx
        obtain ⟨j, ext, hj, hxe, hla⟩ := haddr x hx
        simp only [Function.comp, pre] at hla ⊢
        show (if keepP u x = true then (if (prune && x.2.isEmpty) = true then none else _) else none) = _
        rw [sel_comb, hla, ← hu']
        simp only [hxe, List.head?_cons, List.tail_cons]
        by_cases hk : keepP u' x = true
        · by_cases hji : j = i
          · subst hji; simp [hk]
          · have : natStr j ≠ natStr i := fun h => hji (natStr_inj henv h)
            simp [hk, hji, this]
        · simp [hk]
      · have hfm : ∀ l : List PPair, l.filterMap (fun x =>
              if (keepP u' x && (x.1.head? == some (natStr i))) = true
              then some (tokKey sep x.1.tail, x.2) else none)
            = ((l.filter (fun x => x.1.head? == some (natStr i))).filter (keepP u')).map
                (fun x => (tokKey sep x.1.tail, x.2)) := by
          intro l
          induction l with
          | nil => rfl
          | cons a as ih =>
            simp only [List.filterMap_cons, List.filter_cons]
            by_cases hc1 : (a.1.head? == some (natStr i)) = true
            · by_cases hc2 : keepP u' a = true
              · simp only [hc1, hc2, Bool.and_self, if_true, List.filter_cons, List.map_cons, ih]
              · simp only [hc1, hc2, Bool.and_true, if_true, if_false, Bool.false_eq_true,
                  List.filter_cons, ih]
            · simp only [hc1, Bool.and_false, if_false, Bool.false_eq_true, ih]
        rw [hfm, ← hLs, slots_filter henv kids i hi, filter_keepP_pre]
        simp [pre, List.map_map, Function.comp_def]
    -- an index beyond the members addresses nothing
    have hbeyond : ∀ i, kids.length ≤ i →
        groupOf env sep nm prune i (toKeys sep ((Ls.filter (keepP u)).map (pre nm.toList))) = [] := by
      intro i hi
      simp only [groupOf, toKeys, List.filterMap_map]
      apply List.filterMap_eq_nil_iff.mpr
      intro x hx
      obtain ⟨j, ext, hj, hxe, hla⟩ := haddr x (List.mem_filter.mp hx).1
      simp only [Function.comp, pre] at hla ⊢
      rw [hla]
      have : j ≠ i := by omega
      simp [this]
    simp only [HNodup]
    intro i
    by_cases hi : i < kids.length
    · rw [hgroup i hi, hkid i hi]
      have hi' : i < ms.length := by omega
      have hmi : ms[i]! ∈ ms := by simp [hi']
      exact hrt u' ms[i]! (hmem _ hmi) (hnar _ hmi)
    · rw [hbeyond i (by omega)]
      exact hnodup_nil env sep member
  | _ => simp [OkS] at hok

/-! ### all schemas -/

section main
variable (root : Schema) (hs : SepSafe env sep (Tok root)) (henv : EnvOK env)
include hs henv

mutual
theorem hns_all : ∀ s : Schema, (∀ t ∈ names s, t ∈ names root) → wf s = true → HNS env sep s
  | .leaf nm o k, _, _ => hns_leaf nm o k
  | .joined nm o k m, _, _ => hns_joined nm o k m
  | .array nm o p member, _, _ => hns_array nm o p member
  | .list nm o p mx member, hsub, hw => by
    simp only [wf] at hw
    have hsubm : ∀ t ∈ names member, t ∈ names root := fun t ht => hsub t (by simp [names, ht])
    apply hns_list hs henv nm _ o p mx member
    · intro t ht; exact hs.tok_ne t (Or.inl (hsubm t ht))
    · exact hns_all member hsubm hw
    · intro x hx; subst hx; exact Or.inl (hsub x (by simp [names]))
  | .dict nm o mode fields, hsub, hw => by
    simp only [wf, Bool.and_eq_true] at hw
    have hnd : (namesOf fields).Nodup := by simpa using hw.2
    have hsome := allSome_of fields hw.1.2
    have hsubf : ∀ t ∈ namesL fields, t ∈ names root := fun t ht => hsub t (by simp [names, ht])
    have htok : ∀ g ∈ fields, ∃ x, g.name = some x ∧ Tok root x := by
      intro g hg
      have := hsome g hg
      cases hn : g.name with
      | none => simp [hn] at this
      | some x =>
        exact ⟨x, rfl, Or.inl (hsubf x (names_sub_namesL hg x (name_mem_names g x hn)))⟩
    have hrt := hns_fields fields hsubf hw.1.1
    intro u e hok hnar
    cases e with
    | dict ms =>
      simp only [OkS] at hok
      simp only [narrowB] at hnar
      have hr : resolve env (.dict nm o mode fields) (.dict ms)
          = .mk nm false true [] false (kidsS env fields ms) := by
        unfold resolve
        simp only [membersOf, resolveMembers_kidsS]
      rw [hr, relFlat_eq]
      simp only [ownPath, FNode.fl, Bool.false_eq_true, if_false, List.nil_append, pushed, FNode.cfl,
        if_true, childItems, FNode.slots, FNode.kids, namePath, FNode.name]
      rw [kidsFrom_noslots]
      simp only [HNodup]
      exact hns_mapping hs nm (fun x hx => by subst hx; exact Or.inl (hsub x (by simp [names])))
        fields hnd htok hrt ms hok.1 hok.2 hnar u [] (Or.inl rfl) _ rfl
    | _ => simp [OkS] at hok
  | .compound nm o k fields, hsub, hw => by
    simp only [wf, Bool.and_eq_true] at hw
    have hnd : (namesOf fields).Nodup := by simpa using hw.2
    have hsome := allSome_of fields hw.1.2
    have hsubf : ∀ t ∈ namesL fields, t ∈ names root := fun t ht => hsub t (by simp [names, ht])
    have htok : ∀ g ∈ fields, ∃ x, g.name = some x ∧ Tok root x := by
      intro g hg
      have := hsome g hg
      cases hn : g.name with
      | none => simp [hn] at this
      | some x =>
        exact ⟨x, rfl, Or.inl (hsubf x (names_sub_namesL hg x (name_mem_names g x hn)))⟩
    have hrt := hns_fields fields hsubf hw.1.1
    intro u e hok hnar
    cases e with
    | dict ms =>
      simp only [OkS] at hok
      simp only [narrowB] at hnar
      have hr : resolve env (.compound nm o k fields) (.dict ms)
          = .mk nm true true (uOf env (.compound nm o k fields) (.dict ms)) false (kidsS env fields ms) := by
        unfold resolve
        simp only [membersOf, resolveMembers_kidsS]
      rw [hr, relFlat_eq]
      simp only [ownPath, FNode.fl, if_true, pushed, FNode.cfl, childItems, FNode.slots, FNode.kids,
        namePath, FNode.name, FNode.u, List.nil_append]
      rw [kidsFrom_noslots]
      simp only [HNodup]
      exact hns_mapping hs nm (fun x hx => by subst hx; exact Or.inl (hsub x (by simp [names])))
        fields hnd htok hrt ms hok.1 hok.2 hnar u [(nm.toList, _)] (Or.inr ⟨_, rfl⟩) _ rfl
    | _ => simp [OkS] at hok
theorem hns_fields : ∀ fs : List Schema, (∀ t ∈ namesL fs, t ∈ names root) → wfL fs = true →
    ∀ f ∈ fs, HNS env sep f
  | [], _, _ => fun f hf => by simp at hf
  | g :: gs, hsub, hw => by
    simp only [wfL, Bool.and_eq_true] at hw
    have h1 := hns_all g (fun t ht => hsub t (by simp [namesL, ht])) hw.1
    have h2 := hns_fields gs (fun t ht => hsub t (by simp [namesL, ht])) hw.2
    intro f hf
    rcases List.mem_cons.mp hf with rfl | h
    · exact h1
    · exact h2 f h
end

end main

/-! ### the bridge -/

/-- **the bridge.**  The flat pairs of an element none of whose Arrays / MultiValues holds two members
    satisfy C02's hereditary "no key twice" — in the schema's own canonical keys. -/
theorem hnodup_flatten (env : Env) (sep : Str) (s : Schema) (e : Elem)
    (hs : SepSafe env sep (Tok s)) (henv : EnvOK env) (hw : wf s = true)
    (hroot : rootOK s = true) (hok : OkS env s e) (hnar : narrowB s e = true) :
    HNodup env sep s (wrap (flatten env sep s e)) := by
  rw [flatten_eq_relFlat, ← toKeys_eq_wrap sep _ (root_paths_neS env s e hw hroot hok)]
  have h := hns_all s hs henv s (fun t ht => ht) hw false e hok hnar
  rw [filter_keepP_false] at h
  exact h

/-- … and so does every reordering of them (document order, for one) -/
theorem hnodup_flatten_perm (env : Env) (sep : Str) (s : Schema) (e : Elem)
    (hs : SepSafe env sep (Tok s)) (henv : EnvOK env) (hw : wf s = true)
    (hroot : rootOK s = true) (hok : OkS env s e) (hnar : narrowB s e = true)
    (ps : List (Str × Str)) (hp : (flatten env sep s e).Perm ps) :
    HNodup env sep s (wrap ps) :=
  hnodup_perm env sep s _ _ (hnodup_flatten env sep s e hs henv hw hroot hok hnar) (wrap_perm hp)

/-! ### the executable test is complete as well (`hnodupB_sound` is in EndToEndNodup.lean) -/

mutual
theorem hnodupB_complete (env : Env) (sep : Str) : ∀ (s : Schema) (ps : Pairs),
    HNodup env sep s ps → hnodupB env sep s ps = true
  | .leaf .., ps, h => by simpa [hnodupB, HNodup] using h
  | .joined .., ps, h => by simpa [hnodupB, HNodup] using h
  | .dict name o m fields, ps, h => by
    simp only [HNodup] at h
    simp only [hnodupB]
    exact hnodupFieldsB_complete env sep fields _ h
  | .compound name o k fields, ps, h => by
    simp only [HNodup] at h
    simp only [hnodupB]
    exact hnodupFieldsB_complete env sep fields _ h
  | .list name o prune mx member, ps, h => by
    simp only [HNodup] at h
    simp only [hnodupB, Bool.and_eq_true, List.all_eq_true]
    exact ⟨fun i _ => hnodupB_complete env sep member _ (h i),
      hnodupB_complete env sep member [] (hnodup_nil env sep member)⟩
  | .array name o prune member, ps, h => by
    simp only [HNodup] at h
    simp only [hnodupB]
    split
    · rename_i hn; simpa [hn] using h
    · rename_i hn; simpa [hn] using h
theorem hnodupFieldsB_complete (env : Env) (sep : Str) : ∀ (fs : List Schema) (poss : List (Str × Str)),
    HNodupFields env sep fs poss → hnodupFieldsB env sep fs poss = true
  | [], _, _ => by simp [hnodupFieldsB]
  | f :: fs, poss, h => by
    simp only [HNodupFields] at h
    simp only [hnodupFieldsB, Bool.and_eq_true]
    exact ⟨hnodupB_complete env sep f _ h.1, hnodupFieldsB_complete env sep fs poss h.2⟩
end

end Flatland.Flat.Proofs
