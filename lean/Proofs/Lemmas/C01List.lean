/-
C01: the round trip through a (non-pruning) List.
-/
import Proofs.Lemmas.C01Dict
namespace Flatland.Flat.Proofs
open Flatland.Flat Flatland.Flat.Spec

variable {env : Env} {sep : Str} {T : Str → Prop}

/-! ### tokens of emitted paths are never empty -/

mutual
def namesNE : FNode → Prop
  | .mk nm _ _ _ _ kids => nm ≠ some [] ∧ namesNEL kids
def namesNEL : List FNode → Prop
  | [] => True
  | k :: ks => namesNE k ∧ namesNEL ks
end

def itemNE (it : QItem) : Prop := (∀ t ∈ it.1, t ≠ []) ∧ namesNE it.2

theorem namePath_tokens_ne (it : QItem) (h : itemNE it) : ∀ t ∈ namePath it.1 it.2, t ≠ [] := by
  obtain ⟨p, n⟩ := it
  obtain ⟨nm, fl, cfl, u, slots, kids⟩ := n
  intro t ht
  simp only [namePath, FNode.name, List.mem_append] at ht
  rcases ht with ht | ht
  · exact h.1 t ht
  · cases nm with
    | none => simp at ht
    | some x =>
      simp at ht; subst ht
      intro hx; exact h.2.1 (by rw [hx])

theorem kidsFrom_itemNE (p : List Str) (hp : ∀ t ∈ p, t ≠ []) (s : Bool) (i : Nat) (ks : List FNode)
    (hk : namesNEL ks) : ∀ c ∈ kidsFrom p s i ks, itemNE c := by
  induction ks generalizing i with
  | nil => intro c hc; simp [kidsFrom] at hc
  | cons k ks ih =>
    intro c hc
    simp only [namesNEL] at hk
    simp only [kidsFrom, List.mem_cons] at hc
    rcases hc with rfl | hc
    · refine ⟨?_, hk.1⟩
      intro t ht
      split at ht
      · simp only [List.mem_append, List.mem_singleton] at ht
        rcases ht with ht | rfl
        · exact hp t ht
        · exact natStr_ne_nil i
      · exact hp t ht
    · exact ih (i + 1) hk.2 c hc

theorem pushed_itemNE (it : QItem) (h : itemNE it) : ∀ c ∈ pushed it, itemNE c := by
  intro c hc
  have hnp := namePath_tokens_ne it h
  obtain ⟨p, n⟩ := it
  obtain ⟨nm, fl, cfl, u, slots, kids⟩ := n
  simp only [pushed, FNode.cfl] at hc
  cases cfl with
  | true => exact kidsFrom_itemNE _ hnp _ _ _ h.2.2 c (by simpa [childItems, FNode.kids] using hc)
  | false => simp at hc

theorem bfsPath_tokens_ne (q : List QItem) (hq : ∀ it ∈ q, itemNE it) :
    ∀ x ∈ bfsPath q, ∀ t ∈ x.1, t ≠ [] := by
  induction h : qsize q using Nat.strongRecOn generalizing q with
  | _ n ih =>
    cases q with
    | nil => intro x hx; simp [bfsPath_nil] at hx
    | cons it q =>
      intro x hx
      rw [bfsPath_level] at hx
      have hs := qsize_flatMap_pushed (it :: q)
      simp only [List.length_cons] at hs
      rcases List.mem_append.mp hx with h1 | h1
      · obtain ⟨a, ha, hxa⟩ := List.mem_flatMap.mp h1
        unfold ownPath at hxa
        split at hxa <;> simp at hxa
        subst hxa
        exact namePath_tokens_ne a (hq a ha)
      · apply ih _ (by omega) _ _ rfl x h1
        intro c hc
        obtain ⟨a, ha, hca⟩ := List.mem_flatMap.mp hc
        exact pushed_itemNE a (hq a ha) c hca

mutual
theorem resolve_namesNE (env : Env) : ∀ (s : Schema) (e : Elem), (∀ t ∈ names s, t ≠ []) →
    namesNE (resolve env s e)
  | .leaf nm o k, e, h => by
    unfold resolve; simp only [namesNE, namesNEL, and_true]
    intro hn; subst hn; exact h [] (by simp [names]) rfl
  | .dict nm o m fields, e, h => by
    unfold resolve; simp only [namesNE]
    refine ⟨?_, resolveMembers_namesNE env fields (membersOf e) (membersOf e)
      (fun t ht => h t (by simp [names, ht]))⟩
    intro hn; subst hn; exact h [] (by simp [names]) rfl
  | .compound nm o k fields, e, h => by
    unfold resolve; simp only [namesNE]
    refine ⟨?_, resolveMembers_namesNE env fields (membersOf e) (membersOf e)
      (fun t ht => h t (by simp [names, ht]))⟩
    intro hn; subst hn; exact h [] (by simp [names]) rfl
  | .list nm o p mx member, e, h => by
    unfold resolve; simp only [namesNE]
    refine ⟨?_, resolveList_namesNE env member _ (fun t ht => h t (by simp [names, ht]))⟩
    intro hn; subst hn; exact h [] (by simp [names]) rfl
  | .array nm o p member, e, h => by
    unfold resolve; simp only [namesNE]
    refine ⟨?_, resolveList_namesNE env member _ (fun t ht => h t (by simp [names, ht]))⟩
    intro hn; subst hn; exact h [] (by simp [names]) rfl
  | .joined nm o k member, e, h => by
    unfold resolve; simp only [namesNE]
    refine ⟨?_, resolveList_namesNE env member _ (fun t ht => h t (by simp [names, ht]))⟩
    intro hn; subst hn; exact h [] (by simp [names]) rfl
theorem resolveMembers_namesNE (env : Env) : ∀ (fields : List Schema) (all ms : List (Str × Elem)),
    (∀ t ∈ namesL fields, t ≠ []) → namesNEL (resolveMembers env fields all ms)
  | _, _, [], _ => by unfold resolveMembers; simp [namesNEL]
  | fields, all, (key, e) :: rest, h => by
    unfold resolveMembers
    have hr := resolveMembers_namesNE env fields all rest h
    cases ho : resolveOne env fields key e with
    | none => simpa using hr
    | some n =>
      simp only [List.singleton_append, namesNEL]
      exact ⟨resolveOne_namesNE env fields key e h n ho, hr⟩
theorem resolveOne_namesNE (env : Env) : ∀ (fields : List Schema) (key : Str) (e : Elem),
    (∀ t ∈ namesL fields, t ≠ []) → ∀ n, resolveOne env fields key e = some n → namesNE n
  | [], _, _, _, n, hn => by simp [resolveOne] at hn
  | f :: fs, key, e, h, n, hn => by
    unfold resolveOne at hn
    split at hn
    · simp only [Option.some.injEq] at hn
      subst hn
      exact resolve_namesNE env f e (fun t ht => h t (by simp [namesL, ht]))
    · exact resolveOne_namesNE env fs key e (fun t ht => h t (by simp [namesL, ht])) n hn
theorem resolveList_namesNE (env : Env) : ∀ (member : Schema) (es : List Elem),
    (∀ t ∈ names member, t ≠ []) → namesNEL (resolveList env member es)
  | _, [], _ => by unfold resolveList; simp [namesNEL]
  | member, e :: es, h => by
    unfold resolveList
    simp only [namesNEL]
    exact ⟨resolve_namesNE env member e h, resolveList_namesNE env member es h⟩
end

end Flatland.Flat.Proofs

namespace Flatland.Flat.Proofs
open Flatland.Flat Flatland.Flat.Spec

variable {env : Env} {sep : Str} {T : Str → Prop}

/-! ### slots -/

theorem resolveList_eq_map (env : Env) (member : Schema) (ms : List Elem) :
    resolveList env member ms = ms.map (resolve env member) := by
  induction ms with
  | nil => unfold resolveList; rfl
  | cons e es ih => unfold resolveList; rw [ih]; rfl

theorem slotItems_append (a : Nat) (xs ys : List FNode) :
    slotItems a (xs ++ ys) = slotItems a xs ++ slotItems (a + xs.length) ys := by
  induction xs generalizing a with
  | nil => simp [slotItems]
  | cons x xs ih =>
    simp only [List.cons_append, slotItems, List.length_cons, ih (a + 1)]
    congr 3; omega

theorem mem_slotItems (a : Nat) (ks : List FNode) (it : QItem) (h : it ∈ slotItems a ks) :
    ∃ j, j < ks.length ∧ it.1 = [natStr (a + j)] := by
  induction ks generalizing a with
  | nil => simp [slotItems] at h
  | cons k ks ih =>
    simp only [slotItems, List.mem_cons] at h
    rcases h with rfl | h
    · exact ⟨0, by simp, by simp⟩
    · obtain ⟨j, hj, he⟩ := ih (a + 1) h
      exact ⟨j + 1, by simp; omega, by rw [he]; congr 2; omega⟩

theorem natStr_inj (henv : EnvOK env) {i j : Nat} (h : natStr i = natStr j) : i = j := by
  have h1 := digitsVal_natStr henv i
  have h2 := digitsVal_natStr henv j
  rw [h] at h1; rw [h1] at h2; exact h2

theorem slotItems_itemNE (a : Nat) (ks : List FNode) (hk : namesNEL ks) :
    ∀ it ∈ slotItems a ks, itemNE it := by
  induction ks generalizing a with
  | nil => intro it hit; simp [slotItems] at hit
  | cons k ks ih =>
    simp only [namesNEL] at hk
    intro it hit
    simp only [slotItems, List.mem_cons] at hit
    rcases hit with rfl | hit
    · exact ⟨by intro t ht; simp at ht; subst ht; exact natStr_ne_nil a, hk.1⟩
    · exact ih (a + 1) hk.2 it hit

/-- the output of one slot, selected from the output of all slots by its index token -/
theorem slots_filter (henv : EnvOK env) (kids : List FNode) (i : Nat) (hi : i < kids.length) :
    (bfsPath (slotItems 0 kids)).filter (fun x => x.1.head? == some (natStr i))
      = (relFlat kids[i]).map (pre [natStr i]) := by
  have hne : ∀ it ∈ slotItems 0 kids, namePath it.1 it.2 ≠ [] := by
    intro it hit
    obtain ⟨j, _, he⟩ := mem_slotItems 0 kids it hit
    simp [namePath, he]
  rw [bfsPath_filter_head (natStr i) _ hne]
  have hsplit : kids = kids.take i ++ kids[i] :: kids.drop (i + 1) := by
    rw [List.getElem_cons_drop_succ_eq_drop, List.take_append_drop]
  have hlen : (kids.take i).length = i := by simp; omega
  conv => lhs; rw [hsplit, slotItems_append]
  simp only [slotItems, hlen, Nat.zero_add]
  rw [filter_unique]
  · show bfsPath [([natStr i], kids[i])] = _
    have : [(([natStr i], kids[i]) : QItem)] = [(([], kids[i]) : QItem)].map (shift [natStr i]) := by
      simp [shift]
    rw [this, bfsPath_shift']
    rfl
  · simp [namePath]
  · intro it hit
    obtain ⟨j, hj, he⟩ := mem_slotItems 0 _ it hit
    rw [hlen] at hj
    have hne' : natStr j ≠ natStr i := by
      intro h; have := natStr_inj henv h; omega
    simp [namePath, he, hne']
  · intro it hit
    obtain ⟨j, hj, he⟩ := mem_slotItems (i + 1) _ it hit
    have hne' : natStr (i + 1 + j) ≠ natStr i := by
      intro h; have := natStr_inj henv h; omega
    simp [namePath, he, hne']

/-- every path emitted below the slots starts with the index token of a slot -/
theorem slots_heads (kids : List FNode) (hk : namesNEL kids) :
    ∀ x ∈ bfsPath (slotItems 0 kids), ∃ i ext, i < kids.length ∧ x.1 = natStr i :: ext ∧
      (∀ t ∈ ext, t ≠ []) := by
  intro x hx
  obtain ⟨it, hit, ext, he⟩ := bfsPath_mem _ x hx
  obtain ⟨j, hj, hp⟩ := mem_slotItems 0 kids it hit
  have htok := bfsPath_tokens_ne _ (slotItems_itemNE 0 kids hk) x hx
  refine ⟨j, it.2.name.toList ++ ext, hj, ?_, ?_⟩
  · rw [he]; simp [namePath, hp]
  · intro t ht
    apply htok t
    rw [he]; simp only [namePath, hp, List.mem_append]
    simp only [List.mem_append] at ht
    rcases ht with ht | ht
    · exact Or.inl (Or.inr ht)
    · exact Or.inr ht

theorem foldl_max_ge (l : List Nat) (a : Nat) : a ≤ l.foldl max a := by
  induction l generalizing a with
  | nil => simp
  | cons x xs ih => simp only [List.foldl_cons]; exact Nat.le_trans (Nat.le_max_left a x) (ih _)

theorem foldl_max_mem_ge (l : List Nat) (a x : Nat) (hx : x ∈ l) : x ≤ l.foldl max a := by
  induction l generalizing a with
  | nil => simp at hx
  | cons y ys ih =>
    simp only [List.foldl_cons]
    rcases List.mem_cons.mp hx with rfl | h
    · exact Nat.le_trans (Nat.le_max_right a x) (foldl_max_ge ys _)
    · exact ih _ h

theorem foldl_max_lt (l : List Nat) (a k : Nat) (ha : a < k) (hl : ∀ x ∈ l, x < k) :
    l.foldl max a < k := by
  induction l generalizing a with
  | nil => simpa
  | cons y ys ih =>
    simp only [List.foldl_cons]
    apply ih _ _ (fun x hx => hl x (List.mem_cons_of_mem _ hx))
    have := hl y (by simp)
    exact Nat.max_lt.mpr ⟨ha, this⟩

end Flatland.Flat.Proofs

namespace Flatland.Flat.Proofs
open Flatland.Flat Flatland.Flat.Spec

variable {env : Env} {sep : Str} {T : Str → Prop}

theorem filterMap_congr' {α β} (f g : α → Option β) (l : List α) (h : ∀ x ∈ l, f x = g x) :
    l.filterMap f = l.filterMap g := by
  induction l with
  | nil => rfl
  | cons a as ih =>
    simp only [List.filterMap_cons, h a (by simp)]
    rw [ih (fun x hx => h x (List.mem_cons_of_mem _ hx))]

theorem emitsAny_iff (env : Env) (s : Schema) (e : Elem) :
    emitsAny env s e ↔ relFlat (resolve env s e) ≠ [] := by
  unfold emitsAny
  rw [flatten_eq_relFlat]
  constructor
  · intro h hr; apply h; rw [hr]; rfl
  · intro h hr; apply h
    cases hrel : relFlat (resolve env s e) with
    | nil => rfl
    | cons x xs => rw [hrel] at hr; simp at hr

/-- how a List reads the key of a path that starts (after the List's own name) with an index -/
theorem listAddr_path (hs : SepSafe env sep T) (henv : EnvOK env) (nm : Option Str)
    (hnm : ∀ x, nm = some x → T x) (i : Nat) (hi : (natStr i).length ≤ env.maxDigits)
    (ext : List Str) (hext : ∀ t ∈ ext, t ≠ []) :
    listAddr env sep nm (tokKey sep (nm.toList ++ natStr i :: ext)) = some (i, tokKey sep ext) := by
  cases nm with
  | none => exact listAddr_anon hs henv i hi ext hext
  | some x => exact listAddr_named hs henv x (hs.tok_ne x (hnm x rfl)) i hi ext hext

theorem rt_list (hs : SepSafe env sep T) (henv : EnvOK env) (nm : Option Str)
    (hnm : ∀ x, nm = some x → T x) (o prune : Bool) (mx : Nat) (member : Schema)
    (hmn : ∀ t ∈ names member, t ≠ []) (hrt : RT env sep member) :
    RT env sep (.list nm o prune mx member) := by
  intro e hok
  cases e with
  | list ms =>
    simp only [Ok] at hok
    obtain ⟨hprune, hlen, hdig, hmem⟩ := hok
    subst hprune
    have hr : resolve env (.list nm o false mx member) (.list ms)
        = .mk nm false true [] true (resolveList env member ms) := by
      unfold resolve; rfl
    rw [hr, relFlat_eq]
    simp only [ownPath, FNode.fl, Bool.false_eq_true, if_false, List.nil_append, pushed, FNode.cfl,
      if_true, childItems, FNode.slots, FNode.kids, namePath, FNode.name]
    rw [kidsFrom_slots, bfsPath_shift', resolveList_eq_map]
    generalize hkids : ms.map (resolve env member) = kids
    have hklen : kids.length = ms.length := by rw [← hkids]; simp
    have hkne : namesNEL kids := by
      rw [← hkids, ← resolveList_eq_map]; exact resolveList_namesNE env member ms hmn
    have hheads := slots_heads kids hkne
    generalize hLs : bfsPath (slotItems 0 kids) = Ls at hheads
    -- every pair is read as (slot index, remaining path)
    have haddr : ∀ x ∈ Ls, ∃ i ext, i < kids.length ∧ x.1 = natStr i :: ext ∧
        listAddr env sep nm (tokKey sep ((pre nm.toList x).1)) = some (i, tokKey sep ext) := by
      intro x hx
      obtain ⟨i, ext, hi, hxe, hext⟩ := hheads x hx
      refine ⟨i, ext, hi, hxe, ?_⟩
      simp only [pre, hxe]
      exact listAddr_path hs henv nm hnm i (hdig i (by omega)) ext hext
    -- the group of slot i is the member's own output
    have hgroup : ∀ i, (hi : i < kids.length) →
        groupOf env sep nm false i (toKeys sep (Ls.map (pre nm.toList)))
          = toKeys sep (relFlat kids[i]) := by
      intro i hi
      simp only [groupOf, toKeys, List.filterMap_map, Bool.false_and, Bool.false_eq_true, if_false]
      refine (filterMap_congr' _ (fun x => if x.1.head? == some (natStr i)
              then some (tokKey sep x.1.tail, x.2) else none) Ls ?_).trans ?_
      · intro x hx
        obtain ⟨j, ext, hj, hxe, hla⟩ := haddr x hx
        simp only [Function.comp, hla, hxe, List.head?_cons, List.tail_cons]
        by_cases hji : j = i
        · subst hji; simp [pre]
        · have : natStr j ≠ natStr i := fun h => hji (natStr_inj henv h)
          simp [hji, this, pre]
      have hfm : ∀ l : List PPair, l.filterMap (fun x => if x.1.head? == some (natStr i)
              then some (tokKey sep x.1.tail, x.2) else none)
            = (l.filter (fun x => x.1.head? == some (natStr i))).map
                (fun x => (tokKey sep x.1.tail, x.2)) := by
        intro l
        induction l with
        | nil => rfl
        | cons a as ih =>
          simp only [List.filterMap_cons, List.filter_cons]
          by_cases hc : (a.1.head? == some (natStr i)) = true
          · simp only [hc, if_true, List.map_cons, ih]
          · simp only [hc, if_false, Bool.false_eq_true, ih]
      rw [hfm, ← hLs, slots_filter henv kids i hi]
      simp [pre, List.map_map, Function.comp_def]
    -- indexes seen
    have hidx_lt : ∀ j ∈ indexesOf env sep nm false (toKeys sep (Ls.map (pre nm.toList))), j < kids.length := by
      intro j hj
      simp only [indexesOf, toKeys, List.filterMap_map, Bool.false_and, Bool.false_eq_true, if_false,
        List.mem_filterMap, Function.comp] at hj
      obtain ⟨x, hx, hxj⟩ := hj
      obtain ⟨i, ext, hi, hxe, hla⟩ := haddr x hx
      simp only [pre] at hla
      simp only [pre, hla, Option.map_some, Option.some.injEq] at hxj
      omega
    have hemits : ∀ i, (hi : i < kids.length) → relFlat kids[i] ≠ [] := by
      intro i hi
      have hi' : i < ms.length := by omega
      have : kids[i] = resolve env member ms[i] := by
        simp [← hkids]
      rw [this]
      exact (emitsAny_iff env member ms[i]).mp (hmem ms[i] (List.getElem_mem hi')).2
    have hidx_mem : ∀ i, i < kids.length →
        i ∈ indexesOf env sep nm false (toKeys sep (Ls.map (pre nm.toList))) := by
      intro i hi
      have hne := hemits i hi
      have hsf := slots_filter henv kids i hi
      rw [hLs] at hsf
      obtain ⟨y, hy⟩ := List.exists_mem_of_ne_nil _ hne
      have hyin : pre [natStr i] y ∈ Ls.filter (fun x => x.1.head? == some (natStr i)) := by
        rw [hsf]; exact List.mem_map_of_mem hy
      have hx := (List.mem_filter.mp hyin).1
      obtain ⟨j, ext, hj, hxe, hla⟩ := haddr _ hx
      simp only [indexesOf, toKeys, List.filterMap_map, Bool.false_and, Bool.false_eq_true, if_false,
        List.mem_filterMap, Function.comp]
      refine ⟨_, hx, ?_⟩
      simp only [pre] at hla hxe ⊢
      rw [hla]
      simp only [List.singleton_append, List.cons.injEq] at hxe
      simp [natStr_inj henv hxe.1]
    -- now run `_set_flat`
    rw [setFlat]
    by_cases hk0 : kids.length = 0
    · have hms : ms = [] := by
        apply List.eq_nil_of_length_eq_zero; omega
      have hkn : kids = [] := List.eq_nil_of_length_eq_zero hk0
      have : Ls = [] := by rw [← hLs, hkn]; simp [slotItems, bfsPath_nil]
      simp [this, toKeys, hms]
    · have hkpos : 0 < kids.length := Nat.pos_of_ne_zero hk0
      have hlast := hidx_mem (kids.length - 1) (by omega)
      generalize hPS : toKeys sep (Ls.map (pre nm.toList)) = PS at *
      generalize hidxs : indexesOf env sep nm false PS = idxs at *
      have hPSne : PS.isEmpty = false := by
        cases hP : PS with
        | nil =>
          have : idxs = [] := by rw [← hidxs, hP]; simp [indexesOf]
          rw [this] at hlast; simp at hlast
        | cons a as => rfl
      have hidne : idxs.isEmpty = false := by
        cases hI : idxs with
        | nil => rw [hI] at hlast; simp at hlast
        | cons a as => rfl
      have htop : min (idxs.foldl max 0 + 1) mx = kids.length := by
        have h1 : idxs.foldl max 0 < kids.length := foldl_max_lt idxs 0 _ hkpos hidx_lt
        have h2 := foldl_max_mem_ge idxs 0 _ hlast
        omega
      simp only [hPSne, hidne, Bool.false_eq_true, if_false, htop]
      congr 1
      unfold buildSlots
      apply List.ext_getElem
      · simp; omega
      · intro i h1 h2
        simp only [List.length_map, List.length_range] at h1
        simp only [List.getElem_map, List.getElem_range]
        rw [hgroup i h1]
        have hne := hemits i h1
        have hnot : (toKeys sep (relFlat kids[i])).isEmpty = false := by
          cases hr : relFlat kids[i] with
          | nil => exact absurd hr hne
          | cons a as => simp [toKeys]
        simp only [hnot, Bool.false_eq_true, if_false]
        have : kids[i] = resolve env member ms[i] := by simp [← hkids]
        rw [this]
        exact hrt ms[i] (hmem ms[i] (List.getElem_mem h2)).1
  | _ => simp [Ok] at hok

end Flatland.Flat.Proofs
