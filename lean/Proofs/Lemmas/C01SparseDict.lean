/-
C01 with SparseDicts: mappings whose members are any subset of the declared fields in any order
(Dict, Compound, SparseDict in both `minimum_fields` settings — one proof for all).

* `field_roundtripS` — what the `startswith` filter hands to one declared field rebuilds that field's
  member when it is present (the pairs of prefix-sharing siblings fail the field's own first test,
  `reach_filter`) and a blank element when it is absent;
* `setFields_closed` — the `for schema in self.field_schema` loop started from a fresh mapping's
  minimum members, in closed form: minimum members first, then the other touched fields, both in
  declaration order;
* `rts_mapping` — the mapping rebuilds to `prS`.
-/
import Proofs.Lemmas.C01SparseReach
namespace Flatland.Flat.Proofs
open Flatland.Flat Flatland.Flat.Spec

variable {env : Env} {sep : Str} {T : Str → Prop}

/-- the general round-trip statement for one schema, SparseDicts included -/
def RTS (env : Env) (sep : Str) (s : Schema) : Prop :=
  ∀ (u : Bool) (e : Elem), OkS env s e →
    setFlat env sep s (blank s) (toKeys sep ((relFlat (resolve env s e)).filter (keepP u)))
      = prS env sep u s e

/-! ### resolving members held in any order -/

/-- members resolved in insertion order, each against the field its key names -/
def kidsS (env : Env) (fields : List Schema) : List (Str × Elem) → List FNode
  | [] => []
  | (k, e) :: ms =>
    (match (findField k fields).map (fun f => resolve env f e) with
      | some n => [n]
      | none => []) ++ kidsS env fields ms

theorem resolveMembers_kidsS (env : Env) (fields : List Schema) (any ms : List (Str × Elem)) :
    resolveMembers env fields any ms = kidsS env fields ms := by
  induction ms with
  | nil => simp [resolveMembers, kidsS]
  | cons m ms ih =>
    obtain ⟨k, e⟩ := m
    simp only [resolveMembers, kidsS, resolveOne_eq, ih]
    cases findField k fields <;> rfl

theorem kidsS_append (env : Env) (fields : List Schema) (a b : List (Str × Elem)) :
    kidsS env fields (a ++ b) = kidsS env fields a ++ kidsS env fields b := by
  induction a with
  | nil => rfl
  | cons m ms ih =>
    obtain ⟨k, e⟩ := m
    simp only [List.cons_append, kidsS, ih, List.append_assoc]

theorem findField_someS {k : Str} {fields : List Schema} {f : Schema} (h : findField k fields = some f) :
    f ∈ fields ∧ f.name = some k := by
  induction fields with
  | nil => simp [findField] at h
  | cons g gs ih =>
    simp only [findField] at h
    split at h
    · rename_i hg
      injection h with h; subst h
      exact ⟨by simp, hg⟩
    · obtain ⟨h1, h2⟩ := ih h
      exact ⟨List.mem_cons_of_mem _ h1, h2⟩

theorem findField_unique {fields : List Schema} (hnd : (namesOf fields).Nodup) {f : Schema}
    (hf : f ∈ fields) {k : Str} (hk : f.name = some k) : findField k fields = some f := by
  induction fields with
  | nil => simp at hf
  | cons g gs ih =>
    simp only [namesOf, List.nodup_cons] at hnd
    simp only [findField]
    rcases List.mem_cons.mp hf with rfl | hin
    · simp [hk]
    · have hne : g.name ≠ some k := by
        intro heq
        apply hnd.1
        rw [heq, ← hk]
        exact mem_namesOf hin
      simp only [hne, if_false]
      exact ih hnd.2 hin

theorem kidsS_mem {env : Env} {fields : List Schema} {ms : List (Str × Elem)} {k : FNode}
    (hk : k ∈ kidsS env fields ms) :
    ∃ p ∈ ms, ∃ f, findField p.1 fields = some f ∧ k = resolve env f p.2 := by
  induction ms with
  | nil => simp [kidsS] at hk
  | cons m ms ih =>
    obtain ⟨key, e⟩ := m
    simp only [kidsS, List.mem_append] at hk
    rcases hk with hk | hk
    · cases hf : findField key fields with
      | none => simp [hf] at hk
      | some f =>
        simp only [hf, Option.map_some, List.mem_singleton] at hk
        exact ⟨(key, e), by simp, f, hf, hk⟩
    · obtain ⟨p, hp, f, h1, h2⟩ := ih hk
      exact ⟨p, List.mem_cons_of_mem _ hp, f, h1, h2⟩

theorem OkSAny_iff (env : Env) (fields : List Schema) (k : Str) (e : Elem) :
    OkSAny env fields k e ↔ ∃ f ∈ fields, f.name = some k ∧ OkS env f e := by
  induction fields with
  | nil => simp [OkSAny]
  | cons g gs ih =>
    simp only [OkSAny, ih, List.mem_cons]
    constructor
    · rintro (⟨h1, h2⟩ | ⟨f, hf, h1, h2⟩)
      · exact ⟨g, Or.inl rfl, h1, h2⟩
      · exact ⟨f, Or.inr hf, h1, h2⟩
    · rintro ⟨f, rfl | hf, h1, h2⟩
      · exact Or.inl ⟨h1, h2⟩
      · exact Or.inr ⟨f, hf, h1, h2⟩

/-- every resolved member carries its key as name, a declared field's token -/
theorem kidsS_names {fields : List Schema} (htok : ∀ g ∈ fields, ∃ x, g.name = some x ∧ T x)
    {ms : List (Str × Elem)} {k : FNode} (hk : k ∈ kidsS env fields ms) :
    ∃ y, k.name = some y ∧ T y ∧ ∃ e, (y, e) ∈ ms := by
  obtain ⟨p, hp, f, hf, rfl⟩ := kidsS_mem hk
  obtain ⟨hmem, hname⟩ := findField_someS hf
  obtain ⟨x, hx, hTx⟩ := htok f hmem
  rw [hname] at hx
  injection hx with hx
  subst hx
  exact ⟨p.1, by rw [resolve_name, hname], hTx, p.2, hp⟩

theorem lookup_some_split {k : Str} {e : Elem} : ∀ {ms : List (Str × Elem)}, lookup k ms = some e →
    ∃ a b, ms = a ++ (k, e) :: b ∧ ∀ p ∈ a, p.1 ≠ k
  | [], h => by simp [lookup] at h
  | (k', e') :: ms, h => by
    simp only [lookup] at h
    split at h
    · rename_i hk
      injection h with h
      subst hk; subst h
      exact ⟨[], ms, rfl, by simp⟩
    · rename_i hk
      obtain ⟨a, b, hab, hne⟩ := lookup_some_split h
      refine ⟨(k', e') :: a, b, by simp [hab], ?_⟩
      intro p hp
      rcases List.mem_cons.mp hp with rfl | hp
      · exact hk
      · exact hne p hp

theorem lookup_none_keys {k : Str} : ∀ {ms : List (Str × Elem)}, lookup k ms = none → ∀ p ∈ ms, p.1 ≠ k
  | [], _ => by simp
  | (k', e') :: ms, h => by
    simp only [lookup] at h
    split at h
    · cases h
    · rename_i hk
      intro p hp
      rcases List.mem_cons.mp hp with rfl | hp
      · exact hk
      · exact lookup_none_keys h p hp

theorem lookup_none_of_keys {k : Str} : ∀ {ms : List (Str × Elem)}, (∀ p ∈ ms, p.1 ≠ k) → lookup k ms = none
  | [], _ => rfl
  | (k', e') :: ms, h => by
    have hk : k' ≠ k := h (k', e') (by simp)
    simp only [lookup, hk, if_false]
    exact lookup_none_of_keys (fun p hp => h p (List.mem_cons_of_mem _ hp))

section field
variable (hs : SepSafe env sep T)
include hs

/-- **one field, selection.**  What `Mapping._set_flat` hands to the field named `nm` — every stripped
    key that merely *starts with* `nm` — has the same effect on the field as the output of the
    members whose own name is `nm`: the pairs of prefix-sharing siblings fail the field's own first
    test. -/
theorem field_selectS (fields : List Schema) (ms : List (Str × Elem)) (f : Schema) (nm : Str)
    (hname : f.name = some nm) (hT : T nm)
    (hkids : ∀ k ∈ kidsS env fields ms, ∃ y, k.name = some y ∧ T y) (u : Bool) :
    setFlat env sep f (blank f)
      (wrap ((((bfsPath ((kidsS env fields ms).map (fun k => (([], k) : QItem)))).filter (keepP u)).map
        (joinPair sep)).filter (fun p => isPrefix nm p.1)))
    = setFlat env sep f (blank f)
      (wrap (((bfsPath (((kidsS env fields ms).map (fun k => (([], k) : QItem))).filter
        (fun it => (namePath it.1 it.2).head? == some nm))).filter (keepP u)).map (joinPair sep))) := by
  generalize hQ : (kidsS env fields ms).map (fun k => (([], k) : QItem)) = Q
  have hQne : ∀ it ∈ Q, namePath it.1 it.2 ≠ [] := by
    intro it hit; rw [← hQ] at hit
    obtain ⟨k, hk, rfl⟩ := List.mem_map.mp hit
    obtain ⟨y, hy, _⟩ := hkids k hk
    simp [namePath, hy]
  have hhead : ∀ x ∈ bfsPath Q, ∃ y ext, T y ∧ x.1 = y :: ext := by
    intro x hx
    obtain ⟨it, hit, ext, he⟩ := bfsPath_mem Q x hx
    rw [← hQ] at hit
    obtain ⟨k, hk, rfl⟩ := List.mem_map.mp hit
    obtain ⟨y, hy, hTy⟩ := hkids k hk
    exact ⟨y, ext, hTy, by simp [he, namePath, hy]⟩
  have hpred : ∀ x ∈ bfsPath Q,
      (isPrefix nm (joinPair sep x).1 && reach env sep f (some (joinPair sep x).1))
        = ((x.1.head? == some nm) && reach env sep f (some (joinPair sep x).1)) := by
    intro x hx
    obtain ⟨y, ext, hTy, hxe⟩ := hhead x hx
    simp only [joinPair, hxe, List.head?_cons]
    by_cases hyn : y = nm
    · subst hyn; simp [isPrefix_tok_self]
    · rw [reach_other_head hs f nm hname hT y hTy hyn ext]; simp
  rw [← bfsPath_filter_head nm Q hQne]
  rw [reach_filter env sep f (blank f) (wrap ((((bfsPath Q).filter (keepP u)).map (joinPair sep)).filter
    (fun p => isPrefix nm p.1)))]
  rw [reach_filter env sep f (blank f) (wrap ((((bfsPath Q).filter (fun x => x.1.head? == some nm)).filter
    (keepP u)).map (joinPair sep)))]
  congr 1
  simp only [wrap_filter, List.filter_map, List.filter_filter]
  congr 2
  apply List.filter_congr
  intro x hx
  have hp := hpred x hx
  simp only [Function.comp] at hp ⊢
  generalize isPrefix nm (joinPair sep x).1 = I at hp ⊢
  generalize reach env sep f (some (joinPair sep x).1) = A at hp ⊢
  generalize (x.1.head? == some nm) = H at hp ⊢
  generalize keepP u x = K
  cases I <;> cases A <;> cases H <;> cases K <;> simp_all


/-- **one field.**  The pairs the `startswith` filter hands to a declared field rebuild the member
    held under that key (to its own `prS`), or a blank element when there is none. -/
theorem field_roundtripS (fields : List Schema) (hnd : (namesOf fields).Nodup)
    (htok : ∀ g ∈ fields, ∃ x, g.name = some x ∧ T x)
    (ms : List (Str × Elem)) (hkeys : (ms.map (·.1)).Nodup)
    (hmem : ∀ p ∈ ms, OkSAny env fields p.1 p.2)
    (f : Schema) (hf : f ∈ fields) (nm : Str) (hname : f.name = some nm)
    (hrt : RTS env sep f) (u : Bool) :
    setFlat env sep f (blank f)
      (wrap ((((bfsPath ((kidsS env fields ms).map (fun k => (([], k) : QItem)))).filter (keepP u)).map
        (joinPair sep)).filter (fun p => isPrefix nm p.1)))
    = (match lookup nm ms with
        | some e => prS env sep u f e
        | none => blank f) := by
  obtain ⟨nm', hnm', hT⟩ := htok f hf
  rw [hname] at hnm'
  have : nm' = nm := by injection hnm' with h; exact h.symm
  subst this
  have hkids : ∀ k ∈ kidsS env fields ms, ∃ y, k.name = some y ∧ T y := by
    intro k hk
    obtain ⟨y, h1, h2, _⟩ := kidsS_names htok hk
    exact ⟨y, h1, h2⟩
  rw [field_selectS hs fields ms f nm' hname hT hkids u]
  cases hl : lookup nm' ms with
  | none =>
    have hne := lookup_none_keys hl
    have hfil : ((kidsS env fields ms).map (fun k => (([], k) : QItem))).filter
        (fun it => (namePath it.1 it.2).head? == some nm') = [] := by
      apply List.filter_eq_nil_iff.mpr
      intro it hit
      obtain ⟨k, hk, rfl⟩ := List.mem_map.mp hit
      obtain ⟨y, hy, _, e, hye⟩ := kidsS_names htok hk
      have := hne (y, e) hye
      simp [namePath, hy, this]
    rw [hfil, bfsPath_nil]
    simp only [List.filter_nil, List.map_nil, wrap]
    exact setFlat_blank_nil env sep f
  | some e =>
    obtain ⟨a, b, hab, hna⟩ := lookup_some_split hl
    have hnb : ∀ p ∈ b, p.1 ≠ nm' := by
      intro p hp heq
      rw [hab, List.map_append, List.map_cons] at hkeys
      have h1 := (List.nodup_append.mp hkeys).2.1
      simp only [List.nodup_cons] at h1
      apply h1.1
      rw [← heq]
      exact List.mem_map_of_mem hp
    have hfind : findField nm' fields = some f := findField_unique hnd hf hname
    have hsplit : kidsS env fields ms
        = kidsS env fields a ++ resolve env f e :: kidsS env fields b := by
      rw [hab, kidsS_append]
      simp only [kidsS, hfind, Option.map_some, List.singleton_append]
    have hother : ∀ l : List (Str × Elem), (∀ p ∈ l, p.1 ≠ nm') → (∀ p ∈ l, p ∈ ms) →
        ∀ it ∈ (kidsS env fields l).map (fun k => (([], k) : QItem)),
          ((namePath it.1 it.2).head? == some nm') = false := by
      intro l hl _ it hit
      obtain ⟨k, hk, rfl⟩ := List.mem_map.mp hit
      obtain ⟨y, hy, _, e', hye⟩ := kidsS_names htok hk
      have := hl (y, e') hye
      simp [namePath, hy, this]
    have hfil : ((kidsS env fields ms).map (fun k => (([], k) : QItem))).filter
        (fun it => (namePath it.1 it.2).head? == some nm') = [([], resolve env f e)] := by
      rw [hsplit, List.map_append, List.map_cons]
      apply filter_unique
      · simp [namePath, resolve_name, hname]
      · exact hother a hna (fun p hp => by rw [hab]; simp [hp])
      · exact hother b hnb (fun p hp => by rw [hab]; simp [hp])
    rw [hfil]
    have hrel : bfsPath [(([], resolve env f e) : QItem)] = relFlat (resolve env f e) := rfl
    rw [hrel]
    have hrel_ne : ∀ p ∈ (relFlat (resolve env f e)).filter (keepP u), p.1 ≠ [] := by
      intro p hp
      have hp' := (List.mem_filter.mp hp).1
      obtain ⟨it, hit, ext, he⟩ := bfsPath_mem _ p hp'
      simp only [List.mem_singleton] at hit
      subst hit
      rw [he]
      simp [namePath, resolve_name, hname]
    rw [← toKeys_eq_wrap sep _ hrel_ne]
    have hok : OkS env f e := by
      have h1 := hmem (nm', e) (by rw [hab]; simp)
      obtain ⟨g, hg, hgn, hgo⟩ := (OkSAny_iff env fields nm' e).mp h1
      have := findField_unique hnd hg hgn
      rw [hfind] at this
      injection this with this
      subst this
      exact hgo
    exact hrt u e hok

end field

/-! ### the field loop in closed form -/

/-- the members a fresh mapping is created with -/
def blankSel (req : Schema → Bool) : List Schema → List (Str × Elem)
  | [] => []
  | f :: fs => if req f then (f.name.getD [], blank f) :: blankSel req fs else blankSel req fs

/-- `prSPick` with the rebuilt value of a field abstracted -/
def pickV (req : Schema → Bool) (keys : List (Str × Str)) (V : Schema → Elem) (first : Bool) :
    List Schema → List (Str × Elem)
  | [] => []
  | f :: fs =>
    if first then
      (if req f then (f.name.getD [], if touched keys f then V f else blank f) :: pickV req keys V first fs
        else pickV req keys V first fs)
    else
      (if !req f && touched keys f then (f.name.getD [], V f) :: pickV req keys V first fs
        else pickV req keys V first fs)

theorem blankSel_keys (req : Schema → Bool) (fs : List Schema) (hsome : ∀ g ∈ fs, g.name.isSome) :
    ∀ p ∈ blankSel req fs, some p.1 ∈ namesOf fs := by
  induction fs with
  | nil => simp [blankSel]
  | cons f fs ih =>
    intro p hp
    have ih' := ih (fun g hg => hsome g (List.mem_cons_of_mem _ hg))
    simp only [blankSel] at hp
    simp only [namesOf, List.mem_cons]
    split at hp
    · rcases List.mem_cons.mp hp with rfl | hp
      · left
        have := hsome f (by simp)
        cases hn : f.name with
        | none => simp [hn] at this
        | some x => simp
      · exact Or.inr (ih' p hp)
    · exact Or.inr (ih' p hp)

theorem touched_eq (keys : List (Str × Str)) (f : Schema) :
    touched keys f = !(keys.filter (fun p => isPrefix (f.name.getD []) p.1)).isEmpty := by
  unfold touched
  induction keys with
  | nil => rfl
  | cons a as ih =>
    simp only [List.any_cons, List.filter_cons]
    cases h : isPrefix (f.name.getD []) a.1 with
    | true => simp
    | false => simpa using ih

theorem setFields_closedAux (env : Env) (sep : Str) (all : List Schema) (hnd : (namesOf all).Nodup)
    (hsome : ∀ g ∈ all, g.name.isSome) (req : Schema → Bool) (poss : List (Str × Str))
    (V : Schema → Elem)
    (hV : ∀ f ∈ all, touched poss f = true →
      setFlat env sep f (blank f) (wrap (poss.filter (fun p => isPrefix (f.name.getD []) p.1))) = V f) :
    ∀ (fs done : List Schema) (R O : List (Str × Elem)), all = done ++ fs →
      (∀ p ∈ R ++ O, some p.1 ∈ namesOf done) →
      setFields env sep fs (R ++ (blankSel req fs ++ O)) poss
        = (R ++ pickV req poss V true fs) ++ (O ++ pickV req poss V false fs) := by
  intro fs
  induction fs with
  | nil =>
    intro done R O _ _
    simp [setFields, blankSel, pickV]
  | cons f fs ih =>
    intro done R O hall hRO
    have hfmem : f ∈ all := by rw [hall]; simp
    have hfs : f.name = some (f.name.getD []) := by
      have := hsome f hfmem
      cases hn : f.name with
      | none => simp [hn] at this
      | some x => simp
    generalize hnf : f.name.getD [] = nf at hfs
    have hnd' : (namesOf done ++ f.name :: namesOf fs).Nodup := by
      have := hnd; rw [hall, namesOf_append] at this; simpa [namesOf] using this
    obtain ⟨_, hnd2, hdisj⟩ := List.nodup_append.mp hnd'
    simp only [List.nodup_cons] at hnd2
    have hRO' : ∀ p ∈ R ++ O, p.1 ≠ nf := by
      intro p hp heq
      have h1 := hRO p hp
      exact hdisj (some p.1) h1 f.name (by simp) (by rw [hfs, heq])
    have hR' : ∀ p ∈ R, p.1 ≠ nf := fun p hp => hRO' p (by simp [hp])
    have hO' : ∀ p ∈ O, p.1 ≠ nf := fun p hp => hRO' p (by simp [hp])
    have hB' : ∀ p ∈ blankSel req fs, p.1 ≠ nf := by
      intro p hp heq
      have h1 := blankSel_keys req fs (fun g hg => hsome g (by rw [hall]; simp [hg])) p hp
      apply hnd2.1
      rw [hfs, ← heq]; exact h1
    have hdone' : ∀ (x : Str × Elem) (R2 O2 : List (Str × Elem)), x.1 = nf →
        (∀ p ∈ R2 ++ O2, p ∈ R ++ O ∨ p = x) → ∀ p ∈ R2 ++ O2, some p.1 ∈ namesOf (done ++ [f]) := by
      intro x R2 O2 hx h p hp
      rw [namesOf_append]
      rcases h p hp with h1 | rfl
      · exact List.mem_append_left _ (hRO p h1)
      · apply List.mem_append_right; simp [namesOf, hfs, hx]
    have hall' : all = (done ++ [f]) ++ fs := by rw [hall]; simp
    rw [setFields_cons, hnf]
    have htq := touched_eq poss f
    rw [hnf] at htq
    have hVf := hV f hfmem
    rw [hnf] at hVf
    generalize hacc : poss.filter (fun p => isPrefix nf p.1) = accum at htq hVf
    cases ht : touched poss f with
    | false =>
      have hemp : accum.isEmpty = true := by rw [ht] at htq; simpa using htq.symm
      have hstep : stepM env sep f (R ++ (blankSel req (f :: fs) ++ O)) accum
          = R ++ (blankSel req (f :: fs) ++ O) := by
        unfold stepM; simp [hemp]
      rw [hstep]
      cases hr : req f with
      | true =>
        have := ih (done ++ [f]) (R ++ [(nf, blank f)]) O hall'
          (hdone' (nf, blank f) _ _ rfl (by
            intro p hp
            simp only [List.mem_append, List.mem_singleton] at hp ⊢
            rcases hp with (h | h) | h
            · exact Or.inl (Or.inl h)
            · exact Or.inr h
            · exact Or.inl (Or.inr h)))
        simp only [blankSel, hr, if_true, hnf, pickV, ht, Bool.false_eq_true, if_false,
          Bool.not_true, Bool.false_and] at this ⊢
        simpa [List.append_assoc] using this
      | false =>
        have := ih (done ++ [f]) R O hall'
          (hdone' (nf, blank f) _ _ rfl (fun p hp => Or.inl hp))
        simp only [blankSel, hr, if_false, Bool.false_eq_true, pickV, ht, Bool.not_false,
          Bool.true_and, if_true] at this ⊢
        exact this
    | true =>
      have hne : accum.isEmpty = false := by rw [ht] at htq; simpa using htq.symm
      have hv := hVf ht
      cases hr : req f with
      | true =>
        have hlook : lookup nf (R ++ (blankSel req (f :: fs) ++ O)) = some (blank f) := by
          rw [lookup_append_skip nf R _ hR']
          simp [blankSel, hr, hnf, lookup]
        have hstep : stepM env sep f (R ++ (blankSel req (f :: fs) ++ O)) accum
            = (R ++ [(nf, V f)]) ++ (blankSel req fs ++ O) := by
          unfold stepM
          simp only [hne, Bool.false_eq_true, if_false, hnf, hlook, hv]
          rw [replace_append_skip nf _ R _ hR']
          simp [blankSel, hr, hnf, replace]
        rw [hstep]
        have := ih (done ++ [f]) (R ++ [(nf, V f)]) O hall'
          (hdone' (nf, V f) _ _ rfl (by
            intro p hp
            simp only [List.mem_append, List.mem_singleton] at hp ⊢
            rcases hp with (h | h) | h
            · exact Or.inl (Or.inl h)
            · exact Or.inr h
            · exact Or.inl (Or.inr h)))
        rw [this]
        simp [pickV, hr, ht, hnf, List.append_assoc]
      | false =>
        have hlook : lookup nf (R ++ (blankSel req (f :: fs) ++ O)) = none := by
          apply lookup_none_of_keys
          intro p hp
          simp only [blankSel, hr, Bool.false_eq_true, if_false, List.mem_append] at hp
          rcases hp with h | h | h
          · exact hR' p h
          · exact hB' p h
          · exact hO' p h
        have hstep : stepM env sep f (R ++ (blankSel req (f :: fs) ++ O)) accum
            = R ++ (blankSel req fs ++ (O ++ [(nf, V f)])) := by
          unfold stepM
          simp only [hne, Bool.false_eq_true, if_false, hnf, hlook, hv]
          simp [blankSel, hr, List.append_assoc]
        rw [hstep]
        have := ih (done ++ [f]) R (O ++ [(nf, V f)]) hall'
          (hdone' (nf, V f) _ _ rfl (by
            intro p hp
            simp only [List.mem_append, List.mem_singleton] at hp ⊢
            rcases hp with h | h | h
            · exact Or.inl (Or.inl h)
            · exact Or.inl (Or.inr h)
            · exact Or.inr h))
        rw [this]
        simp [pickV, hr, ht, hnf, List.append_assoc]

/-- **the field loop in closed form**: started from the minimum members of a fresh mapping, the
    `for schema in self.field_schema` loop leaves the minimum members first (each rebuilt when
    touched), then the other touched fields — both in declaration order. -/
theorem setFields_closed (env : Env) (sep : Str) (all : List Schema) (hnd : (namesOf all).Nodup)
    (hsome : ∀ g ∈ all, g.name.isSome) (req : Schema → Bool) (poss : List (Str × Str))
    (V : Schema → Elem)
    (hV : ∀ f ∈ all, touched poss f = true →
      setFlat env sep f (blank f) (wrap (poss.filter (fun p => isPrefix (f.name.getD []) p.1))) = V f) :
    setFields env sep all (blankSel req all) poss
      = pickV req poss V true all ++ pickV req poss V false all := by
  have := setFields_closedAux env sep all hnd hsome req poss V hV all [] [] [] rfl (by simp)
  simpa using this

end Flatland.Flat.Proofs
