/-
Lemmas about the insertion-ordered dictionaries of the markup models.
-/
import Flatland.Markup.Basic
namespace Flatland.Markup.Dict
open Flatland.Markup
variable {β : Type}

@[simp] theorem get?_nil (k : Str) : get? ([] : Dict β) k = none := rfl

theorem get?_cons (k' : Str) (v : β) (d : Dict β) (k : Str) :
    get? ((k', v) :: d) k = if k' = k then some v else get? d k := rfl

theorem get?_set_self (d : Dict β) (k : Str) (v : β) : get? (set d k v) k = some v := by
  induction d with
  | nil => simp [set, get?_cons]
  | cons p rest ih =>
    obtain ⟨k', v'⟩ := p
    by_cases h : k' = k
    · simp [set, h, get?_cons]
    · simp [set, h, get?_cons, ih]

theorem get?_set_other (d : Dict β) (k k' : Str) (v : β) (h : k' ≠ k) :
    get? (set d k v) k' = get? d k' := by
  induction d with
  | nil => simp [set, get?_cons, h.symm]
  | cons p rest ih =>
    obtain ⟨k0, v0⟩ := p
    by_cases h0 : k0 = k
    · subst h0; simp [set, get?_cons, h.symm]
    · simp [set, h0, get?_cons, ih]

theorem get?_set (d : Dict β) (k k' : Str) (v : β) :
    get? (set d k v) k' = if k' = k then some v else get? d k' := by
  by_cases h : k' = k
  · subst h; simp [get?_set_self]
  · simp [h, get?_set_other d k k' v h]

theorem get?_erase_other (d : Dict β) (k k' : Str) (h : k' ≠ k) :
    get? (erase d k) k' = get? d k' := by
  induction d with
  | nil => rfl
  | cons p rest ih =>
    obtain ⟨k0, v0⟩ := p
    by_cases h0 : k0 = k
    · subst h0; simp [erase, get?_cons, h.symm]
    · simp [erase, h0, get?_cons, ih]

theorem get?_eq_none_iff (d : Dict β) (k : Str) : get? d k = none ↔ k ∉ keys d := by
  induction d with
  | nil => simp [keys]
  | cons p rest ih =>
    obtain ⟨k0, v0⟩ := p
    by_cases h0 : k0 = k
    · subst h0; simp [get?_cons, keys]
    · simp only [get?_cons, h0, if_false, ih, keys, List.map_cons, List.mem_cons, not_or]
      constructor
      · intro h; exact ⟨fun e => h0 e.symm, h⟩
      · intro h; exact h.2

theorem keys_erase_sub (d : Dict β) (k x : Str) (h : x ∈ keys (erase d k)) : x ∈ keys d := by
  induction d with
  | nil => simp [erase, keys] at h
  | cons p rest ih =>
    obtain ⟨k0, v0⟩ := p
    by_cases h0 : k0 = k
    · simp only [erase, h0, if_true] at h
      simp only [keys, List.map_cons, List.mem_cons]; right; exact h
    · simp only [erase, h0, if_false, keys, List.map_cons, List.mem_cons] at h ⊢
      rcases h with h | h
      · left; exact h
      · right; exact ih h

theorem nodup_erase (d : Dict β) (k : Str) (h : (keys d).Nodup) : (keys (erase d k)).Nodup := by
  induction d with
  | nil => simp [erase, keys]
  | cons p rest ih =>
    obtain ⟨k0, v0⟩ := p
    simp only [keys, List.map_cons, List.nodup_cons] at h
    by_cases h0 : k0 = k
    · simp only [erase, h0, if_true]; exact h.2
    · simp only [erase, h0, if_false, keys, List.map_cons, List.nodup_cons]
      exact ⟨fun hm => h.1 (keys_erase_sub rest k k0 hm), ih h.2⟩

theorem get?_erase_self (d : Dict β) (k : Str) (h : (keys d).Nodup) : get? (erase d k) k = none := by
  induction d with
  | nil => rfl
  | cons p rest ih =>
    obtain ⟨k0, v0⟩ := p
    simp only [keys, List.map_cons, List.nodup_cons] at h
    by_cases h0 : k0 = k
    · subst h0
      simp only [erase, if_true]
      exact (get?_eq_none_iff rest k0).mpr h.1
    · simp [erase, h0, get?_cons, ih h.2]

theorem keys_set (d : Dict β) (k : Str) (v : β) :
    keys (set d k v) = if k ∈ keys d then keys d else keys d ++ [k] := by
  induction d with
  | nil => simp [set, keys]
  | cons p rest ih =>
    obtain ⟨k0, v0⟩ := p
    by_cases h0 : k0 = k
    · subst h0; simp [set, keys]
    · have hne : ¬ k = k0 := fun e => h0 e.symm
      simp only [set, h0, if_false, keys, List.map_cons, List.mem_cons, hne, false_or] at ih ⊢
      rw [ih]; split <;> simp [*]

theorem nodup_set (d : Dict β) (k : Str) (v : β) (h : (keys d).Nodup) : (keys (set d k v)).Nodup := by
  rw [keys_set]
  split
  · exact h
  · rename_i hk
    rw [List.nodup_append]
    exact ⟨h, by simp, by intro a ha b hb; simp at hb; subst hb; intro e; subst e; exact hk ha⟩

theorem mem_keys_set (d : Dict β) (k x : Str) (v : β) : x ∈ keys (set d k v) ↔ x ∈ keys d ∨ x = k := by
  rw [keys_set]
  split
  · rename_i hk; constructor
    · intro h; left; exact h
    · rintro (h | rfl); exact h; exact hk
  · simp

theorem contains_iff (d : Dict β) (k : Str) : contains d k = true ↔ k ∈ keys d := by
  unfold contains
  rw [Option.isSome_iff_ne_none, ne_eq, get?_eq_none_iff]
  simp

end Flatland.Markup.Dict
