/-
C01 with SparseDicts: a mapping (Dict, Compound, SparseDict) whose fields all round-trip does so
itself — `rts_mapping`.
-/
import Proofs.Lemmas.C01SparseDict
namespace Flatland.Flat.Proofs
open Flatland.Flat Flatland.Flat.Spec

variable {env : Env} {sep : Str} {T : Str → Prop}

/-- what a declared field is rebuilt to: the `prS` of the member held under its key, or blank -/
def valS (env : Env) (sep : Str) (u : Bool) (ms : List (Str × Elem)) (f : Schema) : Elem :=
  match lookup (f.name.getD []) ms with
  | some e => prS env sep u f e
  | none => blank f

theorem prSPick_eq (env : Env) (sep : Str) (u : Bool) (req : Schema → Bool) (keys : List (Str × Str))
    (ms : List (Str × Elem)) (first : Bool) (fs : List Schema) :
    prSPick env sep u req keys ms first fs = pickV req keys (valS env sep u ms) first fs := by
  induction fs with
  | nil => simp [prSPick, pickV]
  | cons f fs ih =>
    simp only [prSPick, pickV, ih, valS]
    cases lookup (f.name.getD []) ms <;> rfl

theorem blankFields_sel (fs : List Schema) : blankFields fs = blankSel (fun _ => true) fs := by
  induction fs with
  | nil => rfl
  | cons f fs ih => simp [blankFields, blankSel, ih]

theorem blankRequired_sel (fs : List Schema) : blankRequired fs = blankSel (fun f => !f.opt) fs := by
  induction fs with
  | nil => rfl
  | cons f fs ih =>
    simp only [blankRequired, blankSel, ih]
    by_cases h : f.opt = true
    · simp [h]
    · simp [h]

theorem blankNone_sel (fs : List Schema) : ([] : List (Str × Elem)) = blankSel (fun _ => false) fs := by
  induction fs with
  | nil => rfl
  | cons f fs ih => simp [blankSel, ← ih]

theorem blank_dict_members (nm : Option Str) (o : Bool) (mode : DictMode) (fields : List Schema) :
    blank (.dict nm o mode fields) = .dict (blankSel (isReq mode) fields) := by
  cases mode with
  | dense =>
    simp only [blank, blankFields_sel]; congr
  | sparse =>
    simp only [blank]; rw [blankNone_sel fields]; congr
  | sparseReq =>
    simp only [blank, blankRequired_sel]; congr

theorem relFlat_anon_dict (env : Env) (o : Bool) (mode : DictMode) (fields : List Schema)
    (ms : List (Str × Elem)) :
    relFlat (resolve env (.dict none o mode fields) (.dict ms))
      = bfsPath ((kidsS env fields ms).map (fun k => (([], k) : QItem))) := by
  have hr : resolve env (.dict none o mode fields) (.dict ms)
      = .mk none false true [] false (kidsS env fields ms) := by
    unfold resolve
    simp only [membersOf, resolveMembers_kidsS]
  rw [hr, relFlat_eq]
  simp only [ownPath, FNode.fl, Bool.false_eq_true, if_false, List.nil_append, pushed, FNode.cfl,
    if_true, childItems, FNode.slots, FNode.kids, namePath, FNode.name, Option.toList]
  rw [kidsFrom_noslots]

/-- the keys the spec tests `touched` on are the keys `possibles` hands to the field loop -/
theorem innerPairs_eq (env : Env) (sep : Str) (u : Bool) (fields : List Schema) (ms : List (Str × Elem)) :
    innerPairs env sep u fields ms
      = ((bfsPath ((kidsS env fields ms).map (fun k => (([], k) : QItem)))).filter (keepP u)).map
          (joinPair sep) := by
  unfold innerPairs
  rw [flatten_eq_relFlat, relFlat_anon_dict, List.filter_map]
  rfl

section mapping
variable (hs : SepSafe env sep T)
include hs

/-- **mappings.**  A Dict, Compound or SparseDict (`req` = which fields a fresh one is created with)
    whose fields all round-trip does so itself, from any conforming state: any subset of the fields
    in any order. -/
theorem rts_mapping (nm : Option Str) (hnm : ∀ x, nm = some x → T x) (fields : List Schema)
    (hnd : (namesOf fields).Nodup) (htok : ∀ g ∈ fields, ∃ x, g.name = some x ∧ T x)
    (hrt : ∀ f ∈ fields, RTS env sep f) (req : Schema → Bool)
    (ms : List (Str × Elem)) (hkeys : (ms.map (·.1)).Nodup)
    (hmem : ∀ p ∈ ms, OkSAny env fields p.1 p.2) (u : Bool)
    (own : List PPair) (hown : own = [] ∨ ∃ t, own = [(nm.toList, t)])
    (L : List PPair)
    (hLdef : L = bfsPath ((kidsS env fields ms).map (fun k => ((nm.toList, k) : QItem))))
    (poss : List (Str × Str))
    (hpdef : poss = possibles sep nm (toKeys sep ((own ++ L).filter (keepP u)))) :
    (if poss.isEmpty then Elem.dict (blankSel req fields)
     else Elem.dict (setFields env sep fields (blankSel req fields) poss))
      = Elem.dict (prSPick env sep u req (innerPairs env sep u fields ms) ms true fields
          ++ prSPick env sep u req (innerPairs env sep u fields ms) ms false fields) := by
  have hL : L = (bfsPath ((kidsS env fields ms).map (fun k => (([], k) : QItem)))).map (pre nm.toList) := by
    rw [hLdef, map_pair_shift, bfsPath_shift']
  have hne : ∀ p ∈ bfsPath ((kidsS env fields ms).map (fun k => (([], k) : QItem))), p.1 ≠ [] := by
    intro p hp
    obtain ⟨it, hit, ext, he⟩ := bfsPath_mem _ p hp
    obtain ⟨k, hk, rfl⟩ := List.mem_map.mp hit
    obtain ⟨y, hy, _⟩ := kidsS_names htok hk
    rw [he]
    simp [namePath, hy]
  have hne' : ∀ p ∈ (bfsPath ((kidsS env fields ms).map (fun k => (([], k) : QItem)))).filter (keepP u),
      p.1 ≠ [] := fun p hp => hne p (List.mem_filter.mp hp).1
  have hposs : poss = ((bfsPath ((kidsS env fields ms).map (fun k => (([], k) : QItem)))).filter
      (keepP u)).map (joinPair sep) := by
    rw [hpdef, hL, List.filter_append, filter_keepP_pre]
    rcases hown with rfl | ⟨t, rfl⟩
    · simp only [List.filter_nil, List.nil_append]
      exact possibles_of_kidsP hs nm hnm _ hne'
    · simp only [List.filter_cons, List.filter_nil]
      split
      · simp only [toKeys, List.singleton_append, List.map_cons]
        rw [possibles_ownP hs]
        exact possibles_of_kidsP hs nm hnm _ hne'
      · simp only [List.nil_append]
        exact possibles_of_kidsP hs nm hnm _ hne'
  have hsome : ∀ g ∈ fields, g.name.isSome := by
    intro g hg
    obtain ⟨x, hx, _⟩ := htok g hg
    simp [hx]
  have hfold := setFields_closed env sep fields hnd hsome req poss (valS env sep u ms) (by
    intro f hf _
    obtain ⟨x, hx, _⟩ := htok f hf
    have h := field_roundtripS hs fields hnd htok ms hkeys hmem f hf x hx (hrt f hf) u
    rw [← hposs] at h
    simp only [hx, Option.getD_some, valS]
    rw [h]
    cases lookup x ms <;> rfl)
  rw [prSPick_eq, prSPick_eq, innerPairs_eq, ← hposs, ← hfold]
  split
  · rename_i hemp
    have : poss = [] := by simpa using hemp
    rw [this, setFields_nil]
  · rfl

end mapping

end Flatland.Flat.Proofs
