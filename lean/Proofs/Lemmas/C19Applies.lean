/-
From the decision of `_pop_toggle` to the attribute: each transform against the "applies" table
of the specification.  `(a, p, f)` is what `_pop_toggle` returned: the attributes without the
option, proceed, forced.
-/
import Proofs.Lemmas.C19Transforms
namespace Flatland.C19.Proofs
open Flatland.Markup Flatland.C19 Flatland.C19.Spec

/-- the guard written in the code is the applies table -/
theorem guard_eq_applies (T : Tables) (attr tag : Str) (a : Attrs) (f : Bool) :
    (f || (Dict.get? a attr).isNone && T.autoTag attr tag) = applies T attr tag f (Dict.get? a attr).isSome := by
  unfold applies; cases Dict.get? a attr <;> rfl

/-- NAME: generated iff the option is on, the tag is bound to an element with a non-empty flat
    name, and the applies table says so — otherwise only the option is consumed -/
theorem transformName_decision (T : Tables) (tag : Str) (bnd : Option Bind) (st : TState) (a : Attrs) (p f : Bool)
    (hp : popToggle T "auto_name".toList st.attrs st.ctx = .ok (a, p, f)) :
    transformName T tag bnd st = .ok { st with attrs :=
      match bnd with
      | some b => if p && !b.flatName.isEmpty && applies T sName tag f (Dict.get? a sName).isSome
                  then Dict.set a sName (.text b.flatName) else a
      | none => a } := by
  unfold transformName
  simp only [bind, Except.bind, pure, Except.pure]
  rw [hp]
  cases bnd with
  | none => rfl
  | some b =>
    simp only [guard_eq_applies]
    cases p
    · simp
    · by_cases hE : b.flatName.isEmpty = true
      · simp [hE]
      · simp only [Bool.not_eq_true] at hE
        by_cases hA : applies T sName tag f (Dict.get? a sName).isSome = true
        · simp [hE, hA]
        · simp only [Bool.not_eq_true] at hA
          simp [hE, hA]

/-- ID: skipped (only the option is consumed) when the option is off or the table says no -/
theorem transformDomid_skips (T : Tables) (tag : Str) (bnd : Option Bind) (st : TState) (a : Attrs) (p f : Bool)
    (hp : popToggle T "auto_domid".toList st.attrs st.ctx = .ok (a, p, f))
    (h : p = false ∨ applies T sId tag f (Dict.get? a sId).isSome = false) :
    transformDomid T tag bnd st = .ok { st with attrs := a } := by
  unfold transformDomid
  simp only [bind, Except.bind, pure, Except.pure]
  rw [hp]
  simp only [guard_eq_applies]
  rcases h with rfl | h
  · rfl
  · cases p
    · rfl
    · simp only [h, Bool.not_true, Bool.false_eq_true, if_false]

/-- ID: generated when on and the table says yes (and there is a raw id and the format applies) -/
theorem transformDomid_applies (T : Tables) (tag : Str) (bnd : Option Bind) (st : TState) (a : Attrs) (f : Bool)
    (raw idv : Str) (fmt : CVal)
    (hp : popToggle T "auto_domid".toList st.attrs st.ctx = .ok (a, true, f))
    (h : applies T sId tag f (Dict.get? a sId).isSome = true)
    (hraw : generateRawDomid tag a bnd = .ok (some raw))
    (hfmt : st.ctx.getItem "domid_format".toList = .ok fmt) (hid : formatDomid fmt raw = .ok idv) :
    transformDomid T tag bnd st = .ok { st with attrs := Dict.set a sId (.text idv) } := by
  unfold transformDomid
  simp only [bind, Except.bind, pure, Except.pure]
  rw [hp]
  simp only [guard_eq_applies, Bool.not_true, Bool.false_eq_true, if_false, h, if_true]
  rw [hraw]; simp only
  rw [hfmt]; simp only
  rw [hid]

/-- FOR: skipped when off, unbound, or the table says no; a `<label>` still loses its `value` -/
theorem transformFor_skips (T : Tables) (tag : Str) (bnd : Option Bind) (st : TState) (a : Attrs) (p f : Bool)
    (hp : popToggle T "auto_for".toList st.attrs st.ctx = .ok (a, p, f))
    (h : p = false ∨ bnd = none ∨ applies T sFor tag f (Dict.get? a sFor).isSome = false) :
    transformFor T tag bnd st = .ok { st with attrs := if tag = sLabel then Dict.erase a sValue else a } := by
  unfold transformFor
  simp only [bind, Except.bind, pure, Except.pure]
  rw [hp]
  simp only [guard_eq_applies]
  rcases h with rfl | rfl | h
  · simp only [Bool.false_and, Bool.false_eq_true, if_false]
  · simp only [Option.isSome_none, Bool.and_false, Bool.false_eq_true, if_false]
  · simp only [h, Bool.false_eq_true, if_false]
    split <;> rfl

/-- FOR: generated when on, bound and the table says yes -/
theorem transformFor_applies (T : Tables) (tag : Str) (b : Bind) (st : TState) (a : Attrs) (f : Bool)
    (raw idv : Str) (fmt : CVal)
    (hp : popToggle T "auto_for".toList st.attrs st.ctx = .ok (a, true, f))
    (h : applies T sFor tag f (Dict.get? a sFor).isSome = true)
    (hraw : generateRawDomid tag a (some b) = .ok (some raw))
    (hfmt : st.ctx.getItem "domid_format".toList = .ok fmt) (hid : formatDomid fmt raw = .ok idv) :
    transformFor T tag (some b) st = .ok { st with attrs :=
      (if tag = sLabel then Dict.erase (Dict.set a sFor (.text idv)) sValue else Dict.set a sFor (.text idv)) } := by
  unfold transformFor
  simp only [bind, Except.bind, pure, Except.pure]
  rw [hp]
  simp only [guard_eq_applies, Option.isSome_some, Bool.and_self, if_true, h]
  rw [hraw]; simp only
  rw [hfmt]; simp only
  rw [hid]

/-- TABINDEX: skipped when off, when the counter is 0, or when the table says no -/
theorem transformTabindex_skips (T : Tables) (tag : Str) (bnd : Option Bind) (st : TState) (a : Attrs) (p f : Bool)
    (n : Int) (hp : popToggle T "auto_tabindex".toList st.attrs st.ctx = .ok (a, p, f))
    (hn : st.ctx.getItem sTabindex = .ok (.int n))
    (h : p = false ∨ n = 0 ∨ applies T sTabindex tag f (Dict.get? a sTabindex).isSome = false) :
    transformTabindex T tag bnd st = .ok { st with attrs := a } := by
  unfold transformTabindex
  simp only [bind, Except.bind, pure, Except.pure]
  rw [hp]
  simp only [guard_eq_applies]
  cases p
  · rfl
  · simp only [Bool.not_true, Bool.false_eq_true, if_false, hn]
    rcases h with h | rfl | h
    · simp at h
    · simp
    · by_cases h0 : n = 0
      · simp [h0]
      · simp only [h0, if_false, h, Bool.false_eq_true]

/-- TABINDEX: rendered (and the positive counter advanced) when on and the table says yes -/
theorem transformTabindex_applies (T : Tables) (tag : Str) (bnd : Option Bind) (st : TState) (a : Attrs) (f : Bool)
    (n : Int) (hp : popToggle T "auto_tabindex".toList st.attrs st.ctx = .ok (a, true, f))
    (hn : st.ctx.getItem sTabindex = .ok (.int n)) (h0 : n ≠ 0)
    (h : applies T sTabindex tag f (Dict.get? a sTabindex).isSome = true) :
    ∃ st', transformTabindex T tag bnd st = .ok st' ∧
      st'.attrs = Dict.set a sTabindex (.text (intRepr n)) := by
  unfold transformTabindex
  simp only [bind, Except.bind, pure, Except.pure]
  rw [hp]
  simp only [guard_eq_applies, Bool.not_true, Bool.false_eq_true, if_false, hn, h0, h, if_true]
  by_cases hpos : n > 0
  · simp only [hpos, if_true]
    have hhas : st.ctx.has sTabindex = true := by
      simp only [Ctx.has, Dict.contains]
      simp only [Ctx.getItem] at hn
      cases hg : Dict.get? st.ctx.top sTabindex with
      | none => rw [hg] at hn; simp [throw, throwThe, MonadExceptOf.throw] at hn
      | some v => rfl
    simp [Ctx.setItem, hhas, pure, Except.pure]
  · simp only [hpos, if_false]; exact ⟨_, rfl, rfl⟩

/-- VALUE: skipped when off, unbound, or (not forced and the tag is not one of the value tags) -/
theorem transformValue_skips (T : Tables) (tag : Str) (bnd : Option Bind) (st : TState) (a : Attrs) (p f : Bool)
    (hp : popToggle T "auto_value".toList st.attrs st.ctx = .ok (a, p, f))
    (h : p = false ∨ bnd = none ∨ (f = false ∧ T.autoTag sValue tag = false)) :
    transformValue T tag bnd st = .ok { st with attrs := a } := by
  unfold transformValue
  simp only [bind, Except.bind, pure, Except.pure]
  rw [hp]
  rcases h with rfl | rfl | ⟨rfl, h2⟩
  · cases bnd <;> rfl
  · rfl
  · cases bnd with
    | none => rfl
    | some b => cases p <;> simp [h2]

/-- a forced `value` on a `<label>` does not survive: the for-transform removes `value` from labels -/
theorem label_value_dropped {T : Tables} {bnd : Option Bind} {st st' : TState}
    (hnd : (Dict.keys st.attrs).Nodup) (h : transformFor T sLabel bnd st = .ok st') :
    Dict.get? st'.attrs sValue = none := by
  unfold transformFor at h
  simp only [bind, Except.bind, pure, Except.pure] at h
  cases hp : popToggle T "auto_for".toList st.attrs st.ctx with
  | error e => rw [hp] at h; simp at h
  | ok r =>
    have hs := popToggle_shape hp
    have hn0 : (Dict.keys r.1).Nodup := by rw [hs]; exact Dict.nodup_erase _ _ hnd
    rw [hp] at h; simp only at h
    repeat' split at h
    all_goals first
      | (simp at h; done)
      | (simp only [pure, Except.pure, Except.ok.injEq] at h; subst h
         first
           | exact Dict.get?_erase_self _ _ (Dict.nodup_set _ _ _ hn0)
           | exact Dict.get?_erase_self _ _ hn0)
      | (rename_i hl; exact absurd trivial hl)

end Flatland.C19.Proofs
