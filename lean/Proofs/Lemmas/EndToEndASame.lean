/-
END TO END / C02 — for CANONICAL pair lists the plain per-key reading of stability is enough:

    asame_flatten : SepSafe … → EnvOK env → wf s → rootOK s → OkS env s e →
                    KRel (flatten env sep s e) ps' → ASame env sep s (wrap (flatten env sep s e)) (wrap ps')

`KRel`: the same multiset, the pairs of every key in the same relative order.  (For ARBITRARY pair
lists this is false — `order_free_stable_full_fails`: `l_0` / `l_00` are two keys of one Array member
list; on canonical output every index has one spelling.)  The proof is the canonical descent of
`EndToEndHNodup.lean` a third time: on the `flatten` side every list handed down is the member's own
output (after the member's own first test, `asame_congr_reach`); the other side follows through `KRel`,
which survives every stripping step because on canonical keys every step is injective (`krel_possibles`,
`krel_groupOf` + `tokKey_append_cons`); at an Array the member's own output has ONE key, so the two
lists are equal (`krel_eq_of_const_key`).
-/
import Proofs.Lemmas.EndToEndKRel
namespace Flatland.Flat.Proofs
open Flatland.Flat Flatland.Flat.Spec Flatland.EndToEnd

/-- field by field -/
theorem asameFields_of_forall (env : Env) (sep : Str) (poss poss' : List (Str × Str)) : ∀ fs : List Schema,
    (∀ f ∈ fs, ASame env sep f (wrap (poss.filter (fun p => isPrefix (f.name.getD []) p.1)))
      (wrap (poss'.filter (fun p => isPrefix (f.name.getD []) p.1)))) →
    ASameFields env sep fs poss poss'
  | [], _ => by simp [ASameFields]
  | f :: fs, h => by
    simp only [ASameFields]
    exact ⟨h f (by simp), asameFields_of_forall env sep poss poss' fs (fun g hg => h g (List.mem_cons_of_mem _ hg))⟩

/-- the slot step of a List keeps `KRel` when it is injective on the keys that occur -/
theorem krel_groupOf (env : Env) (sep : Str) (nm : Option Str) (prune : Bool) (i : Nat) {A B : Pairs}
    (hinj : ∀ p ∈ A, ∀ q ∈ A, ∀ p' q', p' ∈ groupOf env sep nm prune i [p] →
      q' ∈ groupOf env sep nm prune i [q] → p'.1 = q'.1 → p.1 = q.1)
    (h : KRel A B) : KRel (groupOf env sep nm prune i A) (groupOf env sep nm prune i B) := by
  unfold groupOf at hinj ⊢
  apply krel_filterMap _ _ h
  intro p hp q hq p' q' hgp hgq
  exact hinj p hp q hq p' q' (List.mem_filterMap.mpr ⟨p, by simp, hgp⟩) (List.mem_filterMap.mpr ⟨q, by simp, hgq⟩)

/-- what the induction carries for one schema: against the element's own surviving pairs, every list
    that is `KRel`-related to them (after the element's own first test) is `ASame` -/
def HAS (env : Env) (sep : Str) (s : Schema) : Prop :=
  ∀ (u : Bool) (e : Elem), OkS env s e → ∀ B : Pairs,
    KRel ((toKeys sep ((relFlat (resolve env s e)).filter (keepP u))).filter (fun p => reach env sep s p.1))
      (B.filter (fun p => reach env sep s p.1)) →
    ASame env sep s (toKeys sep ((relFlat (resolve env s e)).filter (keepP u))) B

variable {env : Env} {sep : Str} {T : Str → Prop}

theorem has_leaf (nm : Option Str) (o : Bool) (k : Nat) : HAS env sep (.leaf nm o k) := by
  intro u e _ B _; simp only [ASame]

theorem has_joined (nm : Option Str) (o : Bool) (k : Nat) (m : Schema) : HAS env sep (.joined nm o k m) := by
  intro u e _ B _; simp only [ASame]

theorem has_array (nm : Option Str) (o prune : Bool) (member : Schema) :
    HAS env sep (.array nm o prune member) := by
  intro u e hok B hR
  cases e with
  | array ms =>
    simp only [OkS, OkP] at hok
    obtain ⟨⟨cn, mo, k, hm⟩, hmem⟩ := hok
    subst hm
    obtain ⟨hkids, hms, _⟩ := resolveList_leavesP env cn mo k ms hmem
    have hform : relFlat (resolve env (.array nm o prune (.leaf cn mo k)) (.array ms))
        = (leafTexts ms).map (fun t => ((nm.toList ++ cn.toList, t) : PPair)) := by
      have hr : resolve env (.array nm o prune (.leaf cn mo k)) (.array ms)
          = .mk nm false true [] false (resolveList env (.leaf cn mo k) ms) := by
        unfold resolve; rfl
      rw [hr, relFlat_eq]
      simp only [ownPath, FNode.fl, Bool.false_eq_true, if_false, List.nil_append, pushed, FNode.cfl,
        if_true, childItems, FNode.slots, FNode.kids, namePath, FNode.name, List.nil_append]
      rw [kidsFrom_noslots, hkids, List.map_map]
      have := bfsPath_leaves nm.toList cn (leafTexts ms)
      simp only [Function.comp_def] at this ⊢
      rw [this]
    rw [hform] at hR ⊢
    have hk : ∀ p ∈ (toKeys sep (((leafTexts ms).map (fun t => ((nm.toList ++ cn.toList, t) : PPair))).filter
        (keepP u))).filter (fun p => reach env sep (.array nm o prune (.leaf cn mo k)) p.1),
        p.1 = tokKey sep (nm.toList ++ cn.toList) := by
      intro p hp
      have hp' := (List.mem_filter.mp hp).1
      simp only [toKeys, List.mem_map, List.mem_filter] at hp'
      obtain ⟨x, ⟨⟨t, _, rfl⟩, _⟩, rfl⟩ := hp'
      rfl
    have heq := krel_eq_of_const_key hR _ hk
    exact asame_congr_reach env sep _ _ _ _ _ rfl heq.symm (asame_refl env sep _ _)
  | _ => simp [OkS, OkP] at hok

section field
variable (hs : SepSafe env sep T)
include hs

/-- **one field.**  What `Mapping._set_flat` hands to the declared field `f` — every stripped key that
    merely starts with its name — satisfies `HNodupA f`, when the member held under that name does
    (with its own output) -/
theorem field_asame (fields : List Schema) (hnd : (namesOf fields).Nodup)
    (htok : ∀ g ∈ fields, ∃ x, g.name = some x ∧ T x)
    (ms : List (Str × Elem)) (hkeys : (ms.map (·.1)).Nodup)
    (hmem : ∀ p ∈ ms, OkSAny env fields p.1 p.2)
    (f : Schema) (hf : f ∈ fields) (nm : Str) (hname : f.name = some nm)
    (hrt : HAS env sep f) (u : Bool) (Y : List (Str × Str))
    (hR : KRel (((bfsPath ((kidsS env fields ms).map (fun k => (([], k) : QItem)))).filter (keepP u)).map
        (joinPair sep)) Y) :
    ASame env sep f
      (wrap ((((bfsPath ((kidsS env fields ms).map (fun k => (([], k) : QItem)))).filter (keepP u)).map
        (joinPair sep)).filter (fun p => isPrefix nm p.1)))
      (wrap (Y.filter (fun p => isPrefix nm p.1))) := by
  obtain ⟨nm', hnm', hT⟩ := htok f hf
  rw [hname] at hnm'
  have : nm' = nm := by injection hnm' with h; exact h.symm
  subst this
  have hkids : ∀ k ∈ kidsS env fields ms, ∃ y, k.name = some y ∧ T y := by
    intro k hk
    obtain ⟨y, h1, h2, _⟩ := kidsS_names htok hk
    exact ⟨y, h1, h2⟩
  -- selection: after the field's own first test only the member's own pairs are left
  generalize hQ : (kidsS env fields ms).map (fun k => (([], k) : QItem)) = Q at hR ⊢
  have hQne : ∀ it ∈ Q, namePath it.1 it.2 ≠ [] := by
    intro it hit; rw [← hQ] at hit
    obtain ⟨k, hk, rfl⟩ := List.mem_map.mp hit
    obtain ⟨y, hy, _⟩ := hkids k hk
    simp [namePath, hy]
  have hhead : ∀ x ∈ bfsPath Q, ∃ y ext, T y ∧ x.1 = y :: ext := by
    intro x hx
    obtain ⟨it, hit, ext, he⟩ := bfsPath_mem Q x hx
    rw [← hQ] at hit
    obtain ⟨k, hk, rfl⟩ := List.mem_map.mp hit
    obtain ⟨y, hy, hTy⟩ := hkids k hk
    exact ⟨y, ext, hTy, by simp [he, namePath, hy]⟩
  have hpred : ∀ x ∈ bfsPath Q,
      (isPrefix nm' (joinPair sep x).1 && reach env sep f (some (joinPair sep x).1))
        = ((x.1.head? == some nm') && reach env sep f (some (joinPair sep x).1)) := by
    intro x hx
    obtain ⟨y, ext, hTy, hxe⟩ := hhead x hx
    simp only [joinPair, hxe, List.head?_cons]
    by_cases hyn : y = nm'
    · subst hyn; simp [isPrefix_tok_self]
    · rw [reach_other_head hs f nm' hname hT y hTy hyn ext]; simp
  have hsel : (wrap ((((bfsPath Q).filter (keepP u)).map (joinPair sep)).filter
        (fun p => isPrefix nm' p.1))).filter (fun p => reach env sep f p.1)
      = (wrap (((bfsPath (Q.filter (fun it => (namePath it.1 it.2).head? == some nm'))).filter
          (keepP u)).map (joinPair sep))).filter (fun p => reach env sep f p.1) := by
    rw [← bfsPath_filter_head nm' Q hQne]
    simp only [wrap_filter, List.filter_map, List.filter_filter]
    congr 2
    apply List.filter_congr
    intro x hx
    have hp := hpred x hx
    simp only [Function.comp] at hp ⊢
    generalize isPrefix nm' (joinPair sep x).1 = I at hp ⊢
    generalize reach env sep f (some (joinPair sep x).1) = A at hp ⊢
    generalize (x.1.head? == some nm') = H at hp ⊢
    generalize keepP u x = K
    cases I <;> cases A <;> cases H <;> cases K <;> simp_all
  have hR' := krel_filter (fun p => reach env sep f p.1)
    (krel_wrap (krel_filter (fun p : Str × Str => isPrefix nm' p.1) hR))
  rw [hsel] at hR'
  refine asame_congr_reach env sep f _ _ _ _ hsel rfl ?_
  rw [← hQ] at hR' ⊢
  -- the member held under the name, or nothing
  cases hl : lookup nm' ms with
  | none =>
    have hne := lookup_none_keys hl
    have hfil : ((kidsS env fields ms).map (fun k => (([], k) : QItem))).filter
        (fun it => (namePath it.1 it.2).head? == some nm') = [] := by
      apply List.filter_eq_nil_iff.mpr
      intro it hit
      obtain ⟨k, hk, rfl⟩ := List.mem_map.mp hit
      obtain ⟨y, hy, _, e, hye⟩ := kidsS_names htok hk
      have := hne (y, e) hye
      simp [namePath, hy, this]
    rw [hfil, bfsPath_nil] at hR' ⊢
    have hw0 : wrap ((([] : List PPair).filter (keepP u)).map (joinPair sep)) = [] := rfl
    rw [hw0] at hR' ⊢
    have hB := krel_nil_right hR'
    exact asame_congr_reach env sep f _ [] _ [] rfl (by rw [hB]; rfl) (asame_refl env sep f [])
  | some e =>
    obtain ⟨a, b, hab, hna⟩ := lookup_some_split hl
    have hnb : ∀ p ∈ b, p.1 ≠ nm' := by
      intro p hp heq
      rw [hab, List.map_append, List.map_cons] at hkeys
      have h1 := (List.nodup_append.mp hkeys).2.1
      simp only [List.nodup_cons] at h1
      apply h1.1
      rw [← heq]
      exact List.mem_map_of_mem hp
    have hfind : findField nm' fields = some f := findField_unique hnd hf hname
    have hsplit : kidsS env fields ms
        = kidsS env fields a ++ resolve env f e :: kidsS env fields b := by
      rw [hab, kidsS_append]
      simp only [kidsS, hfind, Option.map_some, List.singleton_append]
    have hother : ∀ l : List (Str × Elem), (∀ p ∈ l, p.1 ≠ nm') → (∀ p ∈ l, p ∈ ms) →
        ∀ it ∈ (kidsS env fields l).map (fun k => (([], k) : QItem)),
          ((namePath it.1 it.2).head? == some nm') = false := by
      intro l hl _ it hit
      obtain ⟨k, hk, rfl⟩ := List.mem_map.mp hit
      obtain ⟨y, hy, _, e', hye⟩ := kidsS_names htok hk
      have := hl (y, e') hye
      simp [namePath, hy, this]
    have hfil : ((kidsS env fields ms).map (fun k => (([], k) : QItem))).filter
        (fun it => (namePath it.1 it.2).head? == some nm') = [([], resolve env f e)] := by
      rw [hsplit, List.map_append, List.map_cons]
      apply filter_unique
      · simp [namePath, resolve_name, hname]
      · exact hother a hna (fun p hp => by rw [hab]; simp [hp])
      · exact hother b hnb (fun p hp => by rw [hab]; simp [hp])
    rw [hfil] at hR' ⊢
    have hrel : bfsPath [(([], resolve env f e) : QItem)] = relFlat (resolve env f e) := rfl
    rw [hrel] at hR' ⊢
    have hrel_ne : ∀ p ∈ (relFlat (resolve env f e)).filter (keepP u), p.1 ≠ [] := by
      intro p hp
      have hp' := (List.mem_filter.mp hp).1
      obtain ⟨it, hit, ext, he⟩ := bfsPath_mem _ p hp'
      simp only [List.mem_singleton] at hit
      subst hit
      rw [he]
      simp [namePath, resolve_name, hname]
    rw [← toKeys_eq_wrap sep _ hrel_ne] at hR' ⊢
    have hok : OkS env f e := by
      have h1 := hmem (nm', e) (by rw [hab]; simp)
      obtain ⟨g, hg, hgn, hgo⟩ := (OkSAny_iff env fields nm' e).mp h1
      have := findField_unique hnd hg hgn
      rw [hfind] at this
      injection this with this
      subst this
      exact hgo
    exact hrt u e hok _ hR'


/-- **mappings.**  A Dict, Compound or SparseDict whose fields are all fine is fine itself. -/
theorem has_mapping (nm : Option Str) (hnm : ∀ x, nm = some x → T x) (fields : List Schema)
    (hnd : (namesOf fields).Nodup) (htok : ∀ g ∈ fields, ∃ x, g.name = some x ∧ T x)
    (hrt : ∀ f ∈ fields, HAS env sep f)
    (ms : List (Str × Elem)) (hkeys : (ms.map (·.1)).Nodup)
    (hmem : ∀ p ∈ ms, OkSAny env fields p.1 p.2) (u : Bool)
    (own : List PPair) (hown : own = [] ∨ ∃ t, own = [(nm.toList, t)])
    (L : List PPair)
    (hLdef : L = bfsPath ((kidsS env fields ms).map (fun k => ((nm.toList, k) : QItem))))
    (Y : List (Str × Str))
    (hR : KRel (possibles sep nm (toKeys sep ((own ++ L).filter (keepP u)))) Y) :
    ASameFields env sep fields (possibles sep nm (toKeys sep ((own ++ L).filter (keepP u)))) Y := by
  have hL : L = (bfsPath ((kidsS env fields ms).map (fun k => (([], k) : QItem)))).map (pre nm.toList) := by
    rw [hLdef, map_pair_shift, bfsPath_shift']
  have hne : ∀ p ∈ bfsPath ((kidsS env fields ms).map (fun k => (([], k) : QItem))), p.1 ≠ [] := by
    intro p hp
    obtain ⟨it, hit, ext, he⟩ := bfsPath_mem _ p hp
    obtain ⟨k, hk, rfl⟩ := List.mem_map.mp hit
    obtain ⟨y, hy, _⟩ := kidsS_names htok hk
    rw [he]
    simp [namePath, hy]
  have hne' : ∀ p ∈ (bfsPath ((kidsS env fields ms).map (fun k => (([], k) : QItem)))).filter (keepP u),
      p.1 ≠ [] := fun p hp => hne p (List.mem_filter.mp hp).1
  have hposs : possibles sep nm (toKeys sep ((own ++ L).filter (keepP u)))
      = ((bfsPath ((kidsS env fields ms).map (fun k => (([], k) : QItem)))).filter
      (keepP u)).map (joinPair sep) := by
    rw [hL, List.filter_append, filter_keepP_pre]
    rcases hown with rfl | ⟨t, rfl⟩
    · simp only [List.filter_nil, List.nil_append]
      exact possibles_of_kidsP hs nm hnm _ hne'
    · simp only [List.filter_cons, List.filter_nil]
      split
      · simp only [toKeys, List.singleton_append, List.map_cons]
        rw [possibles_ownP hs]
        exact possibles_of_kidsP hs nm hnm _ hne'
      · simp only [List.nil_append]
        exact possibles_of_kidsP hs nm hnm _ hne'
  rw [hposs] at hR ⊢
  apply asameFields_of_forall
  intro f hf
  obtain ⟨x, hx, _⟩ := htok f hf
  simp only [hx, Option.getD_some]
  exact field_asame hs fields hnd htok ms hkeys hmem f hf x hx (hrt f hf) u Y hR


end field

/-! ### Lists -/

theorem has_list (hs : SepSafe env sep T) (henv : EnvOK env) (nm : Option Str)
    (hnm : ∀ x, nm = some x → T x) (o prune : Bool) (mx : Nat) (member : Schema)
    (hmn : ∀ t ∈ names member, t ≠ []) (hrt : HAS env sep member) :
    HAS env sep (.list nm o prune mx member) := by
  intro u e hok B hR
  cases e with
  | list ms =>
    simp only [OkS] at hok
    obtain ⟨hlen, hdig, hmem⟩ := hok
    have hr : resolve env (.list nm o prune mx member) (.list ms)
        = .mk nm false true [] true (resolveList env member ms) := by
      unfold resolve; rfl
    simp only [reach] at hR
    rw [hr, relFlat_eq] at hR ⊢
    simp only [ownPath, FNode.fl, Bool.false_eq_true, if_false, List.nil_append, pushed, FNode.cfl,
      if_true, childItems, FNode.slots, FNode.kids, namePath, FNode.name] at hR ⊢
    rw [kidsFrom_slots, bfsPath_shift', resolveList_eq_map, filter_keepP_pre] at hR ⊢
    generalize hkids : ms.map (resolve env member) = kids at hR ⊢
    have hklen : kids.length = ms.length := by rw [← hkids]; simp
    have hkne : namesNEL kids := by
      rw [← hkids, ← resolveList_eq_map]; exact resolveList_namesNE env member ms hmn
    have hkid : ∀ i (hi : i < kids.length), kids[i] = resolve env member ms[i]! := by
      intro i hi
      have hi' : i < ms.length := by omega
      simp [← hkids, hi']
    have hheads := slots_heads kids hkne
    generalize hLs : bfsPath (slotItems 0 kids) = Ls at hheads hR ⊢
    -- every pair is read as (slot index, remaining path)
    have haddr : ∀ x ∈ Ls, ∃ i ext, i < kids.length ∧ x.1 = natStr i :: ext ∧
        listAddr env sep nm (tokKey sep ((pre nm.toList x).1)) = some (i, tokKey sep ext) := by
      intro x hx
      obtain ⟨i, ext, hi, hxe, hext⟩ := hheads x hx
      refine ⟨i, ext, hi, hxe, ?_⟩
      simp only [pre, hxe]
      exact listAddr_path hs henv nm hnm i (hdig i (by omega)) ext hext
    obtain ⟨u', hu'⟩ : ∃ u' : Bool, u' = (u || prune) := ⟨_, rfl⟩
    -- the group of slot i is the member's own surviving output
    have hgroup : ∀ i, (hi : i < kids.length) →
        groupOf env sep nm prune i (toKeys sep ((Ls.filter (keepP u)).map (pre nm.toList)))
          = toKeys sep ((relFlat kids[i]).filter (keepP u')) := by
      intro i hi
      simp only [groupOf, toKeys, List.filterMap_map]
      rw [filterMap_filter']
      refine (filterMap_congr' _ (fun x => if (keepP u' x && (x.1.head? == some (natStr i))) = true
              then some (tokKey sep x.1.tail, x.2) else none) Ls ?_).trans ?_
      · intro x hx
        obtain ⟨j, ext, hj, hxe, hla⟩ := haddr x hx
        simp only [Function.comp, pre] at hla ⊢
        show (if keepP u x = true then (if (prune && x.2.isEmpty) = true then none else _) else none) = _
        rw [sel_comb, hla, ← hu']
        simp only [hxe, List.head?_cons, List.tail_cons]
        by_cases hk : keepP u' x = true
        · by_cases hji : j = i
          · subst hji; simp [hk]
          · have : natStr j ≠ natStr i := fun h => hji (natStr_inj henv h)
            simp [hk, hji, this]
        · simp [hk]
      · have hfm : ∀ l : List PPair, l.filterMap (fun x =>
              if (keepP u' x && (x.1.head? == some (natStr i))) = true
              then some (tokKey sep x.1.tail, x.2) else none)
            = ((l.filter (fun x => x.1.head? == some (natStr i))).filter (keepP u')).map
                (fun x => (tokKey sep x.1.tail, x.2)) := by
          intro l
          induction l with
          | nil => rfl
          | cons a as ih =>
            simp only [List.filterMap_cons, List.filter_cons]
            by_cases hc1 : (a.1.head? == some (natStr i)) = true
            · by_cases hc2 : keepP u' a = true
              · simp only [hc1, hc2, Bool.and_self, if_true, List.filter_cons, List.map_cons, ih]
              · simp only [hc1, hc2, Bool.and_true, if_true, if_false, Bool.false_eq_true,
                  List.filter_cons, ih]
            · simp only [hc1, Bool.and_false, if_false, Bool.false_eq_true, ih]
        rw [hfm, ← hLs, slots_filter henv kids i hi, filter_keepP_pre]
        simp [pre, List.map_map, Function.comp_def]
    -- an index beyond the members addresses nothing
    have hbeyond : ∀ i, kids.length ≤ i →
        groupOf env sep nm prune i (toKeys sep ((Ls.filter (keepP u)).map (pre nm.toList))) = [] := by
      intro i hi
      simp only [groupOf, toKeys, List.filterMap_map]
      apply List.filterMap_eq_nil_iff.mpr
      intro x hx
      obtain ⟨j, ext, hj, hxe, hla⟩ := haddr x (List.mem_filter.mp hx).1
      simp only [Function.comp, pre] at hla ⊢
      rw [hla]
      have : j ≠ i := by omega
      simp [this]
    -- the slot step is injective on the canonical keys
    have hdec : ∀ i, ∀ p ∈ toKeys sep ((Ls.filter (keepP u)).map (pre nm.toList)), ∀ p',
        p' ∈ groupOf env sep nm prune i [p] →
        ∃ ext, p.1 = tokKey sep (nm.toList ++ natStr i :: ext) ∧ p'.1 = tokKey sep ext := by
      intro i p hp p' hg
      simp only [toKeys, List.mem_map] at hp
      obtain ⟨y, ⟨x, hx, rfl⟩, rfl⟩ := hp
      obtain ⟨j, ext, hj, hxe, hla⟩ := haddr x (List.mem_filter.mp hx).1
      simp only [pre] at hla hg ⊢
      simp only [groupOf, List.filterMap_cons, List.filterMap_nil, hla] at hg
      by_cases hpr : (prune && x.2.isEmpty) = true
      · simp [hpr] at hg
      · by_cases hji : j = i
        · subst hji
          simp only [hpr, if_false, if_true, Bool.false_eq_true] at hg
          simp only [List.mem_singleton] at hg
          subst hg
          exact ⟨ext, by rw [hxe], rfl⟩
        · simp [hpr, hji] at hg
    have hG : ∀ i, KRel (groupOf env sep nm prune i (toKeys sep ((Ls.filter (keepP u)).map (pre nm.toList))))
        (groupOf env sep nm prune i B) := by
      intro i
      have h1 := krel_groupOf env sep nm prune i (by
        intro p hp q hq p' q' hgp hgq hk
        obtain ⟨ext, hp1, hp2⟩ := hdec i p (List.mem_filter.mp hp).1 p' hgp
        obtain ⟨ext', hq1, hq2⟩ := hdec i q (List.mem_filter.mp hq).1 q' hgq
        rw [hp1, hq1]
        exact tokKey_append_cons sep nm.toList (natStr i) ext ext' (by rw [← hp2, ← hq2, hk])) hR
      rw [groupOf_filter, groupOf_filter] at h1
      exact h1
    simp only [ASame]
    intro i
    have h3 := hG i
    by_cases hi : i < kids.length
    · rw [hgroup i hi, hkid i hi] at h3 ⊢
      have hi' : i < ms.length := by omega
      have hmi : ms[i]! ∈ ms := by simp [hi']
      exact hrt u' ms[i]! (hmem _ hmi) _ (krel_filter _ h3)
    · rw [hbeyond i (by omega)] at h3 ⊢
      rw [krel_nil_right h3]
      exact asame_refl env sep member []
  | _ => simp [OkS] at hok
/-! ### all schemas -/

section main
variable (root : Schema) (hs : SepSafe env sep (Tok root)) (henv : EnvOK env)
include hs henv

mutual
theorem has_all : ∀ s : Schema, (∀ t ∈ names s, t ∈ names root) → wf s = true → HAS env sep s
  | .leaf nm o k, _, _ => has_leaf nm o k
  | .joined nm o k m, _, _ => has_joined nm o k m
  | .array nm o p member, _, _ => has_array nm o p member
  | .list nm o p mx member, hsub, hw => by
    simp only [wf] at hw
    have hsubm : ∀ t ∈ names member, t ∈ names root := fun t ht => hsub t (by simp [names, ht])
    apply has_list hs henv nm _ o p mx member
    · intro t ht; exact hs.tok_ne t (Or.inl (hsubm t ht))
    · exact has_all member hsubm hw
    · intro x hx; subst hx; exact Or.inl (hsub x (by simp [names]))
  | .dict nm o mode fields, hsub, hw => by
    simp only [wf, Bool.and_eq_true] at hw
    have hnd : (namesOf fields).Nodup := by simpa using hw.2
    have hsome := allSome_of fields hw.1.2
    have hsubf : ∀ t ∈ namesL fields, t ∈ names root := fun t ht => hsub t (by simp [names, ht])
    have htok : ∀ g ∈ fields, ∃ x, g.name = some x ∧ Tok root x := by
      intro g hg
      have := hsome g hg
      cases hn : g.name with
      | none => simp [hn] at this
      | some x =>
        exact ⟨x, rfl, Or.inl (hsubf x (names_sub_namesL hg x (name_mem_names g x hn)))⟩
    have hrt := has_fields fields hsubf hw.1.1
    intro u e hok B hR
    cases e with
    | dict ms =>
      simp only [OkS] at hok
      have hr : resolve env (.dict nm o mode fields) (.dict ms)
          = .mk nm false true [] false (kidsS env fields ms) := by
        unfold resolve
        simp only [membersOf, resolveMembers_kidsS]
      simp only [reach] at hR
      have h2 := krel_possibles sep nm hR
      rw [possibles_filter, possibles_filter] at h2
      rw [hr, relFlat_eq] at h2 ⊢
      simp only [ownPath, FNode.fl, Bool.false_eq_true, if_false, List.nil_append, pushed, FNode.cfl,
        if_true, childItems, FNode.slots, FNode.kids, namePath, FNode.name] at h2 ⊢
      rw [kidsFrom_noslots] at h2 ⊢
      simp only [ASame]
      exact has_mapping hs nm (fun x hx => by subst hx; exact Or.inl (hsub x (by simp [names])))
        fields hnd htok hrt ms hok.1 hok.2 u [] (Or.inl rfl) _ rfl _ h2
    | _ => simp [OkS] at hok
  | .compound nm o k fields, hsub, hw => by
    simp only [wf, Bool.and_eq_true] at hw
    have hnd : (namesOf fields).Nodup := by simpa using hw.2
    have hsome := allSome_of fields hw.1.2
    have hsubf : ∀ t ∈ namesL fields, t ∈ names root := fun t ht => hsub t (by simp [names, ht])
    have htok : ∀ g ∈ fields, ∃ x, g.name = some x ∧ Tok root x := by
      intro g hg
      have := hsome g hg
      cases hn : g.name with
      | none => simp [hn] at this
      | some x =>
        exact ⟨x, rfl, Or.inl (hsubf x (names_sub_namesL hg x (name_mem_names g x hn)))⟩
    have hrt := has_fields fields hsubf hw.1.1
    intro u e hok B hR
    cases e with
    | dict ms =>
      simp only [OkS] at hok
      have hr : resolve env (.compound nm o k fields) (.dict ms)
          = .mk nm true true (uOf env (.compound nm o k fields) (.dict ms)) false (kidsS env fields ms) := by
        unfold resolve
        simp only [membersOf, resolveMembers_kidsS]
      simp only [reach] at hR
      have h2 := krel_possibles sep nm hR
      rw [possibles_filter, possibles_filter] at h2
      rw [hr, relFlat_eq] at h2 ⊢
      simp only [ownPath, FNode.fl, if_true, pushed, FNode.cfl, childItems, FNode.slots, FNode.kids,
        namePath, FNode.name, FNode.u, List.nil_append] at h2 ⊢
      rw [kidsFrom_noslots] at h2 ⊢
      simp only [ASame]
      exact has_mapping hs nm (fun x hx => by subst hx; exact Or.inl (hsub x (by simp [names])))
        fields hnd htok hrt ms hok.1 hok.2 u [(nm.toList, _)] (Or.inr ⟨_, rfl⟩) _ rfl _ h2
    | _ => simp [OkS] at hok
theorem has_fields : ∀ fs : List Schema, (∀ t ∈ namesL fs, t ∈ names root) → wfL fs = true →
    ∀ f ∈ fs, HAS env sep f
  | [], _, _ => fun f hf => by simp at hf
  | g :: gs, hsub, hw => by
    simp only [wfL, Bool.and_eq_true] at hw
    have h1 := has_all g (fun t ht => hsub t (by simp [namesL, ht])) hw.1
    have h2 := has_fields gs (fun t ht => hsub t (by simp [namesL, ht])) hw.2
    intro f hf
    rcases List.mem_cons.mp hf with rfl | h
    · exact h1
    · exact h2 f h
end

end main

/-! ### the theorem -/

/-- **canonical keys: the per-key reading is enough.**  Against the flat pairs of a conforming element,
    every list with the same pairs in which the pairs of every KEY keep their relative order hands every
    Array its member-yielding pairs in the same order (`ASame`). -/
theorem asame_flatten (env : Env) (sep : Str) (s : Schema) (e : Elem)
    (hs : SepSafe env sep (Tok s)) (henv : EnvOK env) (hw : wf s = true)
    (hroot : rootOK s = true) (hok : OkS env s e) (ps' : List (Str × Str))
    (hR : KRel (flatten env sep s e) ps') :
    ASame env sep s (wrap (flatten env sep s e)) (wrap ps') := by
  have hR2 := krel_wrap hR
  rw [flatten_eq_relFlat, ← toKeys_eq_wrap sep _ (root_paths_neS env s e hw hroot hok)] at hR2 ⊢
  have h := has_all s hs henv s (fun t ht => ht) hw false e hok (wrap ps')
  rw [filter_keepP_false] at h
  exact h (krel_filter _ hR2)

end Flatland.Flat.Proofs
