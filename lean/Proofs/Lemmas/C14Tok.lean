/-
C14, tokenizer ∘ printer for the whole concrete syntax: the printed path is a piece sequence the
scanner splits as intended, and the token loop turns each step's token into the op the step
compiles to.
-/
import Flatland.Path
import Flatland.Spec.C14
import Proofs.Lemmas.PathScan
import Proofs.Lemmas.PathPieces
import Proofs.Lemmas.C14Print
import Proofs.Lemmas.C14Num
namespace Flatland.C14.Proofs
open Flatland.Path Flatland.C14.Spec Flatland.Path.Lemmas Flatland.Generated.C14

theorem ascii_bridge (c : Char) (h : Spec.isAsciiDigit c = true) : Lemmas.isAsciiDigit c = true := by
  simp only [Spec.isAsciiDigit, Bool.and_eq_true, decide_eq_true_eq] at h
  simp only [Lemmas.isAsciiDigit, Bool.and_eq_true, decide_eq_true_eq]
  obtain ⟨h1, h2⟩ := h
  rw [Char.le_def] at h1 h2
  exact ⟨h1, h2⟩

/-! ### steps as pieces -/

def bracketed (c : CStep) (s : Str) : Bool := c.sp.bracket && !s.isEmpty && s.all Spec.isAsciiDigit

def stepPiece (c : CStep) : Piece :=
  match c.step with
  | .up => .seg ['.', '.']
  | .here => .seg ['.']
  | .name s => if bracketed c s then .br s else .seg (escapeSeg c.sp.escAll s)
  | .negidx n => .br ('-' :: natStr n)
  | .slice a b none => .br (optIntStr a ++ ':' :: optIntStr b)
  | .slice a b (some c') => .br (optIntStr a ++ ':' :: (optIntStr b ++ ':' :: optIntStr c'))

def _root_.Flatland.Path.Lemmas.Piece.isBr : Piece → Bool | .br _ => true | _ => false

theorem text_piece (c : CStep) : c.text = ((stepPiece c).text, (stepPiece c).isBr) := by
  unfold CStep.text stepPiece
  cases hs : c.step with
  | up => rfl
  | here => rfl
  | name s =>
    simp only [bracketed]
    by_cases hb : (c.sp.bracket && !s.isEmpty && s.all Spec.isAsciiDigit) = true
    · simp [hb, Piece.text, Piece.isBr]
    · simp [hb, Piece.text, Piece.isBr]
  | negidx n => simp [Piece.text, Piece.isBr]
  | slice a b c' =>
    cases c' with
    | none => simp [Piece.text, Piece.isBr]
    | some x => simp [Piece.text, Piece.isBr]

def stepsPieces (first : Bool) : List CStep → List Piece
  | [] => []
  | c :: r =>
    (if first || ((stepPiece c).isBr && !c.sp.sep) then [] else [Piece.slash])
      ++ stepPiece c :: stepsPieces false r

def pathPieces (p : CPath) : List Piece :=
  (if p.top then [Piece.slash] else []) ++ stepsPieces true p.steps
    ++ (if p.trail && !p.steps.isEmpty then [Piece.slash] else [])

theorem printSteps_pieces : ∀ (first : Bool) (cs : List CStep),
    printSteps first cs = piecesText (stepsPieces first cs)
  | _, [] => rfl
  | first, c :: r => by
    simp only [printSteps, stepsPieces, text_piece c, printSteps_pieces false r]
    by_cases h : (first || ((stepPiece c).isBr && !c.sp.sep)) = true
    · simp [h, piecesText]
    · simp [h, piecesText, Piece.text]

theorem print_pieces (p : CPath) : print p = piecesText (pathPieces p) := by
  unfold print pathPieces
  rw [printSteps_pieces]
  cases p.top <;> cases (p.trail && !p.steps.isEmpty) <;> simp [piecesText, Piece.text]

/-! ### what the theorem assumes of a step -/

def StepFits : Step → Prop
  | .negidx n => (natStr n).length ≤ intMaxDigits ∨ intMaxDigits = 0
  | .slice a b c => OptFits a ∧ OptFits b ∧ (match c with | none => True | some c' => OptFits c')
  | _ => True

def CStepOK (c : CStep) : Prop := c.wf = true ∧ StepFits c.step

/-- what suffices for the very last step of a path without trailing slash, and for the token
    loop in every position: a name only has to be non-empty -/
def CStepOKW (c : CStep) : Prop := c.wfLast = true ∧ StepFits c.step

theorem CStepOK.weak {c : CStep} (h : CStepOK c) : CStepOKW c := by
  refine ⟨?_, h.2⟩
  have h1 := h.1
  simp only [CStep.wf] at h1
  simp only [CStep.wfLast]
  cases hs : c.step with
  | name s =>
    simp only [hs, GoodName, Bool.and_eq_true] at h1
    exact h1.1
  | _ => rfl

/-- every step is well-formed; only the last one of a path without a trailing slash may be a
    name ending in a backslash -/
def StepsOK (trail : Bool) : List CStep → Prop
  | [] => True
  | c :: r => (if r.isEmpty && !trail then CStepOKW c else CStepOK c) ∧ StepsOK trail r

theorem StepsOK.weak_all (trail : Bool) : ∀ (cs : List CStep), StepsOK trail cs → ∀ c ∈ cs, CStepOKW c
  | [], _, c, hc => by simp at hc
  | x :: r, h, c, hc => by
    simp only [StepsOK] at h
    simp only [List.mem_cons] at hc
    rcases hc with hc | hc
    · subst hc
      by_cases hl : (r.isEmpty && !trail) = true
      · simpa [hl] using h.1
      · have := h.1; simp only [hl, Bool.false_eq_true, if_false] at this; exact this.weak
    · exact StepsOK.weak_all trail r h.2 c hc

theorem getLast?_ne_of_all (s : Str) (h : ∀ x ∈ s, x ≠ '\\') : s.getLast? ≠ some '\\' := by
  intro e
  have := List.mem_of_getLast? e
  exact h _ this rfl

def BrChar (x : Char) : Prop := NumChar x ∨ x = ':'

theorem brOK_of_chars (c : Str) (hall : ∀ x ∈ c, BrChar x) (hl : sliceLang c = true) : BrOK c := by
  have hne : ∀ x ∈ c, x ≠ ']' ∧ x ≠ '\\' := by
    intro x hx
    rcases hall x hx with h | h
    · have := numChar_ne x h; exact ⟨this.2.1, this.2.2⟩
    · subst h; exact ⟨by decide, by decide⟩
  exact ⟨fun x hx => (hne x hx).1, hl, getLast?_ne_of_all c (fun x hx => (hne x hx).2)⟩

theorem brChar_opt (o : Option Int) : ∀ x ∈ optIntStr o, BrChar x :=
  fun x hx => Or.inl (optIntStr_chars o x hx)

theorem clean_dots (last : Bool) : cleanB last ['.', '.'] = true ∧ cleanB last ['.'] = true := by
  constructor
  · rw [cleanB_cons]; simp only [show ('.' : Char) ≠ '\\' by decide, if_false]
    rw [cleanB_cons]; simp only [show ('.' : Char) ≠ '\\' by decide, if_false]
    rw [cleanB_nil']; decide
  · rw [cleanB_cons]; simp only [show ('.' : Char) ≠ '\\' by decide, if_false]
    rw [cleanB_nil']; decide

theorem name_all_digits (s : Str) (h : s.all Spec.isAsciiDigit = true) : ∀ x ∈ s, Lemmas.isAsciiDigit x = true := by
  intro x hx
  rw [List.all_eq_true] at h
  exact ascii_bridge x (h x hx)

theorem wfLast_name_ne_nil (c : CStep) (s : Str) (hs : c.step = .name s) (h : c.wfLast = true) : s ≠ [] := by
  simp only [CStep.wfLast, hs, Bool.and_eq_true, Bool.not_eq_true'] at h
  intro e; subst e; simp at h

/-- every step's piece is well-formed: a clean non-empty name run (`last`: nothing follows it, so
    it may end in a backslash), or a bracket token with contents in the slice language -/
theorem stepPiece_ok (last : Bool) (c : CStep) (hokw : CStepOKW c) (hstrong : last = false → CStepOK c) :
    (match stepPiece c with
      | .seg s => s ≠ [] ∧ cleanB last s = true
      | .br b => BrOK b
      | .slash => False) := by
  obtain ⟨hwf, _⟩ := hokw
  unfold stepPiece
  cases hs : c.step with
  | up => exact ⟨by simp, (clean_dots last).1⟩
  | here => exact ⟨by simp, (clean_dots last).2⟩
  | name s =>
    simp only
    by_cases hb : bracketed c s = true
    · simp only [hb, if_true]
      simp only [bracketed, Bool.and_eq_true] at hb
      have hd := name_all_digits s hb.2
      exact brOK_of_chars s (fun x hx => Or.inl (Or.inl (hd x hx))) (sliceLang_digits s hd)
    · simp only [hb, Bool.false_eq_true, if_false]
      have hne := wfLast_name_ne_nil c s hs hwf
      have hl : last = true ∨ s.getLast? ≠ some '\\' := by
        cases last with
        | true => exact Or.inl rfl
        | false =>
          right
          have h1 := (hstrong rfl).1
          simp only [CStep.wf, hs, Bool.and_eq_true, GoodName, bne_iff_ne, ne_eq] at h1
          exact h1.2
      have := escapeSeg_facts' last c.sp.escAll s hne hl
      exact ⟨this.1, this.2.1⟩
  | negidx n =>
    refine brOK_of_chars _ ?_ (sliceLang_neg n)
    intro x hx
    simp only [List.mem_cons] at hx
    rcases hx with hx | hx
    · exact Or.inl (Or.inr hx)
    · exact Or.inl (Or.inl (natStr_all_digits n x hx))
  | slice a b c' =>
    cases c' with
    | none =>
      refine brOK_of_chars _ ?_ (sliceLang_two a b)
      intro x hx
      simp only [List.mem_append, List.mem_cons] at hx
      rcases hx with hx | hx | hx
      · exact brChar_opt a x hx
      · exact Or.inr hx
      · exact brChar_opt b x hx
    | some cc =>
      refine brOK_of_chars _ ?_ (by simpa using sliceLang_three a b cc)
      intro x hx
      simp only [List.mem_append, List.mem_cons] at hx
      rcases hx with hx | hx | hx | hx | hx
      · exact brChar_opt a x hx
      · exact Or.inr hx
      · exact brChar_opt b x hx
      · exact Or.inr hx
      · exact brChar_opt cc x hx

theorem stepPiece_not_slash (c : CStep) : (stepPiece c).kind = .seg ∨ (stepPiece c).kind = .br := by
  unfold stepPiece
  cases c.step with
  | up => left; rfl
  | here => left; rfl
  | name s => simp only; split <;> simp [Piece.kind]
  | negidx n => right; rfl
  | slice a b c' => cases c' <;> (right; rfl)

theorem isBr_kind (p : Piece) : p.isBr = true ↔ p.kind = .br := by
  cases p <;> simp [Piece.isBr, Piece.kind]

theorem rest_isEmpty (r : List CStep) (trail : Bool) :
    (stepsPieces false r ++ (if trail then [Piece.slash] else [])).isEmpty = (r.isEmpty && !trail) := by
  cases r with
  | nil => cases trail <;> rfl
  | cons c2 r2 =>
    simp only [stepsPieces, Bool.false_or, List.isEmpty_cons, Bool.false_and]
    split <;> simp

/-- the printed steps, followed by an optional trailing slash, form a valid piece sequence -/
theorem stepsPieces_ok : ∀ (cs : List CStep) (first : Bool) (pk : PK) (trail : Bool),
    StepsOK trail cs →
    (first = true → pk = .start ∨ pk = .slash) → (first = false → pk = .seg ∨ pk = .br) →
    (trail = true → cs ≠ [] ∨ pk ≠ .slash) →
    PiecesOK pk (stepsPieces first cs ++ (if trail then [Piece.slash] else []))
  | [], first, pk, trail, _, _, _, ht => by
    cases trail with
    | false => simp [stepsPieces, PiecesOK]
    | true =>
      simp only [stepsPieces, List.nil_append, if_true, PiecesOK, and_true]
      rcases ht rfl with h | h
      · exact absurd rfl h
      · exact h
  | c :: r, first, pk, trail, hall, hf, hnf, _ => by
    simp only [StepsOK] at hall
    have hcw : CStepOKW c := by
      by_cases hl : (r.isEmpty && !trail) = true
      · simpa [hl] using hall.1
      · have := hall.1; simp only [hl, Bool.false_eq_true, if_false] at this; exact this.weak
    have hcs : (r.isEmpty && !trail) = false → CStepOK c := by
      intro hl; have := hall.1; simp only [hl, Bool.false_eq_true, if_false] at this; exact this
    have hok := stepPiece_ok (r.isEmpty && !trail) c hcw hcs
    have hk := stepPiece_not_slash c
    have ih : PiecesOK (stepPiece c).kind (stepsPieces false r ++ (if trail then [Piece.slash] else [])) :=
      stepsPieces_ok r false (stepPiece c).kind trail hall.2
        (fun h => by cases h) (fun _ => hk)
        (fun _ => Or.inr (by rcases hk with h | h <;> rw [h] <;> decide))
    simp only [stepsPieces, List.append_assoc, List.cons_append]
    by_cases hsep : (first || ((stepPiece c).isBr && !c.sp.sep)) = true
    · simp only [hsep, if_true, List.nil_append]
      cases hp : stepPiece c with
      | slash => rw [hp] at hk; simp [Piece.kind] at hk
      | seg s =>
        rw [hp] at hok ih
        simp only [Piece.kind] at ih
        simp only [PiecesOK]
        refine ⟨?_, hok.1, by rw [rest_isEmpty]; exact hok.2, ih⟩
        -- a name run without separator only as the first step
        have hfirst : first = true := by
          simp only [hp, Piece.isBr, Bool.false_and, Bool.or_false] at hsep
          exact hsep
        exact hf hfirst
      | br b =>
        rw [hp] at hok ih
        simp only [Piece.kind] at ih
        simp only [PiecesOK]
        exact ⟨hok, ih⟩
    · simp only [hsep, Bool.false_eq_true, if_false, List.singleton_append]
      have hfirst : first = false := by
        cases first with
        | false => rfl
        | true => simp at hsep
      have hpk := hnf hfirst
      simp only [PiecesOK]
      refine ⟨by rcases hpk with h | h <;> rw [h] <;> decide, ?_⟩
      cases hp : stepPiece c with
      | slash => rw [hp] at hk; simp [Piece.kind] at hk
      | seg s =>
        rw [hp] at hok ih
        simp only [Piece.kind] at ih
        simp only [PiecesOK]
        exact ⟨by first | trivial | exact Or.inr rfl, hok.1, by rw [rest_isEmpty]; exact hok.2, ih⟩
      | br b =>
        rw [hp] at hok ih
        simp only [Piece.kind] at ih
        simp only [PiecesOK]
        exact ⟨hok, ih⟩

theorem pathPieces_ok (p : CPath) (hall : StepsOK (p.trail && !p.steps.isEmpty) p.steps) :
    PiecesOK .start (pathPieces p) := by
  unfold pathPieces
  have hnil : (!p.steps.isEmpty) = true ↔ p.steps ≠ [] := by
    cases p.steps <;> simp
  cases htop : p.top with
  | true =>
    simp only [if_true, List.singleton_append, List.cons_append, List.nil_append, PiecesOK]
    refine ⟨by decide, ?_⟩
    have := stepsPieces_ok p.steps true .slash (p.trail && !p.steps.isEmpty) hall
      (fun _ => Or.inr rfl) (fun h => by cases h)
      (fun h => by
        simp only [Bool.and_eq_true] at h
        exact Or.inl (hnil.1 h.2))
    exact this
  | false =>
    simp only [Bool.false_eq_true, if_false, List.nil_append]
    exact stepsPieces_ok p.steps true .start (p.trail && !p.steps.isEmpty) hall
      (fun _ => Or.inl rfl) (fun h => by cases h)
      (fun _ => Or.inr (by decide))

/-! ### the token loop -/

theorem tokLoop_append : ∀ (a b : List RawTok) (st : TState),
    tokLoop st (a ++ b) = (match tokLoop st a with | .error e => .error e | .ok st' => tokLoop st' b)
  | [], b, st => rfl
  | t :: a, b, st => by
    simp only [List.cons_append, tokLoop]
    cases tokStep st t with
    | error e => rfl
    | ok st1 => exact tokLoop_append a b st1

def notDot (s : Step) : Bool := !(s.isUp || s.isHere)

theorem tokStep_br (st : TState) (b : Str) (op : Op) (hne : b ≠ []) (hp : parseSlice b = some op) :
    tokStep st ('[' :: b ++ [']'], b)
      = .ok { st with toks := op :: st.toks, last := some ('[' :: b ++ [']']) } := by
  unfold tokStep
  have h1 : (('[' :: b ++ [']']) == ['/']) = false := by simp
  have h2 : (('[' :: b ++ [']']) == ['.']) = false := by simp
  have h3 : (('[' :: b ++ [']']) == ['.', '.']) = false := by simp
  have h4 : b.isEmpty = false := by cases b with | nil => exact absurd rfl hne | cons _ _ => rfl
  simp only [h1, h2, h3, h4, Bool.false_eq_true, if_false, Bool.not_false, if_true, hp]

theorem br_ne_nil_of_brOK (c : CStep) (b : Str) (hp : stepPiece c = .br b) : b ≠ [] := by
  unfold stepPiece at hp
  cases hs : c.step with
  | up => rw [hs] at hp; cases hp
  | here => rw [hs] at hp; cases hp
  | name s =>
    rw [hs] at hp
    simp only at hp
    by_cases hb : bracketed c s = true
    · simp only [hb, if_true, Piece.br.injEq] at hp
      subst hp
      simp only [bracketed, Bool.and_eq_true, Bool.not_eq_true'] at hb
      intro e; subst e; simp at hb
    · simp [hb] at hp
  | negidx n => rw [hs] at hp; simp only [Piece.br.injEq] at hp; subst hp; simp
  | slice a b' c' =>
    rw [hs] at hp
    cases c' with
    | none => simp only [Piece.br.injEq] at hp; subst hp; simp
    | some x => simp only [Piece.br.injEq] at hp; subst hp; simp

/-- the token of one step becomes the op the step compiles to -/
theorem tokStep_piece (st : TState) (c : CStep) (hok : CStepOKW c) :
    tokStep st (stepPiece c).raw
      = .ok { toks := compileStep c.step :: st.toks, last := some (stepPiece c).text,
              canonical := st.canonical && notDot c.step } := by
  obtain ⟨hwf, hfit⟩ := hok
  unfold stepPiece
  cases hs : c.step with
  | up =>
    simp only [Piece.raw, Piece.text, notDot, Step.isUp, Bool.true_or, Bool.not_true, Bool.and_false, compileStep]
    simp [tokStep]
  | here =>
    simp only [Piece.raw, Piece.text, notDot, Step.isUp, Step.isHere, Bool.or_true, Bool.not_true, Bool.and_false,
      compileStep]
    simp [tokStep]
  | name s =>
    simp only [notDot, Step.isUp, Step.isHere, Bool.or_self, Bool.not_false, Bool.and_true, compileStep]
    by_cases hb : bracketed c s = true
    · simp only [hb, if_true, Piece.raw, Piece.text]
      simp only [bracketed, Bool.and_eq_true, Bool.not_eq_true'] at hb
      have hne : s ≠ [] := by intro e; subst e; simp at hb
      rw [tokStep_br st s _ hne (parseSlice_digits s hne (name_all_digits s hb.2))]
    · simp only [hb, Bool.false_eq_true, if_false, Piece.raw, Piece.text]
      have hf := escapeSeg_facts' true c.sp.escAll s (wfLast_name_ne_nil c s hs hwf) (Or.inl rfl)
      rw [tokStep_seg st _ hf.2.2.1, hf.2.2.2]
  | negidx n =>
    simp only [notDot, Step.isUp, Step.isHere, Bool.or_self, Bool.not_false, Bool.and_true, Piece.raw, Piece.text]
    rw [hs] at hfit
    rw [tokStep_br st _ _ (by simp) (parseSlice_neg n hfit)]
  | slice a b c' =>
    rw [hs] at hfit
    simp only [StepFits] at hfit
    cases c' with
    | none =>
      simp only [notDot, Step.isUp, Step.isHere, Bool.or_self, Bool.not_false, Bool.and_true, Piece.raw, Piece.text]
      rw [tokStep_br st _ _ (by simp) (parseSlice_two a b hfit.1 hfit.2.1)]
    | some cc =>
      simp only [notDot, Step.isUp, Step.isHere, Bool.or_self, Bool.not_false, Bool.and_true, Piece.raw, Piece.text]
      rw [tokStep_br st _ _ (by simp) (parseSlice_three a b cc hfit.1 hfit.2.1 hfit.2.2)]

theorem stepPiece_text_ne_slash (c : CStep) (hok : CStepOKW c) : (stepPiece c).text ≠ ['/'] := by
  obtain ⟨hwf, _⟩ := hok
  unfold stepPiece
  cases hs : c.step with
  | up => simp [Piece.text]
  | here => simp [Piece.text]
  | name s =>
    simp only
    by_cases hb : bracketed c s = true
    · simp [hb, Piece.text]
    · simp only [hb, Bool.false_eq_true, if_false, Piece.text]
      exact (escapeSeg_facts' true c.sp.escAll s (wfLast_name_ne_nil c s hs hwf) (Or.inl rfl)).2.2.1.1
  | negidx n => simp [Piece.text]
  | slice a b c' => cases c' <;> simp [Piece.text]

theorem tokLoop_steps : ∀ (cs : List CStep) (first : Bool) (st : TState), (∀ c ∈ cs, CStepOKW c) →
    (first = false → ∃ l, st.last = some l ∧ l ≠ ['/']) →
    ∃ st', tokLoop st ((stepsPieces first cs).map Piece.raw) = .ok st' ∧
      st'.toks = (cs.map (fun c => compileStep c.step)).reverse ++ st.toks ∧
      st'.canonical = (st.canonical && cs.all (fun c => notDot c.step)) ∧
      (cs ≠ [] → ∃ l, st'.last = some l ∧ l ≠ ['/']) ∧ (cs = [] → st' = st)
  | [], first, st, _, _ => ⟨st, by simp [stepsPieces, tokLoop], by simp, by simp, by simp, fun _ => rfl⟩
  | c :: r, first, st, hall, hlast => by
    have hok := hall c (by simp)
    -- state after the optional separator
    have hsepst : ∃ st1, tokLoop st ((if first || ((stepPiece c).isBr && !c.sp.sep) then [] else [Piece.slash]).map Piece.raw)
        = .ok st1 ∧ st1.toks = st.toks ∧ st1.canonical = st.canonical := by
      by_cases hsep : (first || ((stepPiece c).isBr && !c.sp.sep)) = true
      · exact ⟨st, by simp [hsep, tokLoop], rfl, rfl⟩
      · have hfirst : first = false := by
          cases first with
          | false => rfl
          | true => simp at hsep
        obtain ⟨l, hl, hne⟩ := hlast hfirst
        refine ⟨{ st with last := some ['/'] }, ?_, rfl, rfl⟩
        simp only [hsep, Bool.false_eq_true, if_false, List.map_cons, List.map_nil, Piece.raw, tokLoop,
          tokStep_slash_after st l hl hne]
    obtain ⟨st1, h1, h1t, h1c⟩ := hsepst
    let st2 : TState := { toks := compileStep c.step :: st1.toks, last := some (stepPiece c).text,
                           canonical := st1.canonical && notDot c.step }
    obtain ⟨st', h3, h3t, h3c, h3l, h3e⟩ := tokLoop_steps r false st2 (fun x hx => hall x (by simp [hx]))
      (fun _ => ⟨(stepPiece c).text, rfl, stepPiece_text_ne_slash c hok⟩)
    refine ⟨st', ?_, ?_, ?_, ?_, fun h => by cases h⟩
    · simp only [stepsPieces, List.map_append, List.map_cons]
      rw [tokLoop_append, h1]
      simp only [tokLoop, tokStep_piece st1 c hok]
      exact h3
    · rw [h3t]; simp [st2, h1t]
    · rw [h3c]; simp [st2, h1c, Bool.and_assoc]
    · intro _
      cases r with
      | nil =>
        have := h3e rfl
        rw [this]
        exact ⟨(stepPiece c).text, rfl, stepPiece_text_ne_slash c hok⟩
      | cons x xs => exact h3l (by simp)

/-- **tokenizer ∘ printer** -/
theorem tokenize_print_aux (p : CPath) (hsteps : StepsOK p.trail p.steps) :
    tokenize (print p) = .ok
      (if p.steps.all (fun c => notDot c.step) then compile p.abstract
       else canonicalize (compile p.abstract)) := by
  have hall : ∀ c ∈ p.steps, CStepOKW c := StepsOK.weak_all p.trail p.steps hsteps
  have hsteps' : StepsOK (p.trail && !p.steps.isEmpty) p.steps := by
    cases hp : p.steps with
    | nil => trivial
    | cons c r => rw [hp] at hsteps; simpa using hsteps
  unfold tokenize
  rw [print_pieces, scan_pieces _ none .start (pathPieces_ok p hsteps') (by simp)]
  unfold pathPieces
  simp only [List.map_append]
  rw [tokLoop_append, tokLoop_append]
  -- leading slash
  have htop : ∃ st0, tokLoop {} ((if p.top then [Piece.slash] else []).map Piece.raw) = .ok st0 ∧
      st0.toks = (if p.top then [Op.top] else []) ∧ st0.canonical = true := by
    cases p.top with
    | true =>
      exact ⟨{ toks := [.top], last := some ['/'], canonical := true },
        by simp [Piece.raw, tokLoop, tokStep_slash_first], rfl, rfl⟩
    | false => exact ⟨{}, by simp [tokLoop], rfl, rfl⟩
  obtain ⟨st0, h0, h0t, h0c⟩ := htop
  rw [h0]
  obtain ⟨st1, h1, h1t, h1c, h1l, _⟩ := tokLoop_steps p.steps true st0 hall (fun h => by cases h)
  simp only [h1]
  -- trailing slash
  have htrail : ∃ st2, tokLoop st1 ((if p.trail && !p.steps.isEmpty then [Piece.slash] else []).map Piece.raw)
      = .ok st2 ∧ st2.toks = st1.toks ∧ st2.canonical = st1.canonical := by
    by_cases ht : (p.trail && !p.steps.isEmpty) = true
    · have hne : p.steps ≠ [] := by
        simp only [Bool.and_eq_true, Bool.not_eq_true'] at ht
        intro e; rw [e] at ht; simp at ht
      obtain ⟨l, hl, hlne⟩ := h1l hne
      exact ⟨{ st1 with last := some ['/'] },
        by simp only [ht, if_true, List.map_cons, List.map_nil, Piece.raw, tokLoop, tokStep_slash_after st1 l hl hlne],
        rfl, rfl⟩
    · exact ⟨st1, by simp [ht, tokLoop], rfl, rfl⟩
  obtain ⟨st2, h2, h2t, h2c⟩ := htrail
  rw [h2]
  simp only [h2t, h2c, h1t, h1c, h0t, h0c, Bool.true_and, List.reverse_append, List.reverse_reverse]
  have hcomp : (if p.top then [Op.top] else []).reverse ++ p.steps.map (fun c => compileStep c.step)
      = compile p.abstract := by
    unfold compile CPath.abstract
    cases p.top <;> simp [List.map_map, Function.comp_def]
  rw [hcomp]

end Flatland.C14.Proofs
