/-
C01 with SparseDicts: Lists (pruning and non-pruning, below a pruning List or not) whose member
schema may contain SparseDicts.  The proof is `rtp_list` (Proofs/Lemmas/C01PList.lean) verbatim with
`OkS` / `prS` in place of `OkP` / `pr`: nothing in it depends on what the member is.
-/
import Proofs.Lemmas.C01PList
import Proofs.Lemmas.C01SparseMap
namespace Flatland.Flat.Proofs
open Flatland.Flat Flatland.Flat.Spec

variable {env : Env} {sep : Str} {T : Str → Prop}

theorem rts_list (hs : SepSafe env sep T) (henv : EnvOK env) (nm : Option Str)
    (hnm : ∀ x, nm = some x → T x) (o prune : Bool) (mx : Nat) (member : Schema)
    (hmn : ∀ t ∈ names member, t ≠ []) (hrt : RTS env sep member) :
    RTS env sep (.list nm o prune mx member) := by
  intro u e hok
  cases e with
  | list ms =>
    simp only [OkS] at hok
    obtain ⟨hlen, hdig, hmem⟩ := hok
    have hr : resolve env (.list nm o prune mx member) (.list ms)
        = .mk nm false true [] true (resolveList env member ms) := by
      unfold resolve; rfl
    rw [hr, relFlat_eq]
    simp only [ownPath, FNode.fl, Bool.false_eq_true, if_false, List.nil_append, pushed, FNode.cfl,
      if_true, childItems, FNode.slots, FNode.kids, namePath, FNode.name]
    rw [kidsFrom_slots, bfsPath_shift', resolveList_eq_map, filter_keepP_pre]
    generalize hkids : ms.map (resolve env member) = kids
    have hklen : kids.length = ms.length := by rw [← hkids]; simp
    have hkne : namesNEL kids := by
      rw [← hkids, ← resolveList_eq_map]; exact resolveList_namesNE env member ms hmn
    have hkid : ∀ i (hi : i < kids.length), kids[i] = resolve env member ms[i]! := by
      intro i hi
      have hi' : i < ms.length := by omega
      simp [← hkids, hi']
    have hheads := slots_heads kids hkne
    generalize hLs : bfsPath (slotItems 0 kids) = Ls at hheads
    -- every pair is read as (slot index, remaining path)
    have haddr : ∀ x ∈ Ls, ∃ i ext, i < kids.length ∧ x.1 = natStr i :: ext ∧
        listAddr env sep nm (tokKey sep ((pre nm.toList x).1)) = some (i, tokKey sep ext) := by
      intro x hx
      obtain ⟨i, ext, hi, hxe, hext⟩ := hheads x hx
      refine ⟨i, ext, hi, hxe, ?_⟩
      simp only [pre, hxe]
      exact listAddr_path hs henv nm hnm i (hdig i (by omega)) ext hext
    obtain ⟨u', hu'⟩ : ∃ u' : Bool, u' = (u || prune) := ⟨_, rfl⟩
    -- the group of slot i is the member's own surviving output
    have hgroup : ∀ i, (hi : i < kids.length) →
        groupOf env sep nm prune i (toKeys sep ((Ls.filter (keepP u)).map (pre nm.toList)))
          = toKeys sep ((relFlat kids[i]).filter (keepP u')) := by
      intro i hi
      simp only [groupOf, toKeys, List.filterMap_map]
      rw [filterMap_filter']
      refine (filterMap_congr' _ (fun x => if (keepP u' x && (x.1.head? == some (natStr i))) = true
              then some (tokKey sep x.1.tail, x.2) else none) Ls ?_).trans ?_
      · intro x hx
        obtain ⟨j, ext, hj, hxe, hla⟩ := haddr x hx
        simp only [Function.comp, pre] at hla ⊢
        show (if keepP u x = true then (if (prune && x.2.isEmpty) = true then none else _) else none) = _
        rw [sel_comb, hla, ← hu']
        simp only [hxe, List.head?_cons, List.tail_cons]
        by_cases hk : keepP u' x = true
        · by_cases hji : j = i
          · subst hji; simp [hk]
          · have : natStr j ≠ natStr i := fun h => hji (natStr_inj henv h)
            simp [hk, hji, this]
        · simp [hk]
      · have hfm : ∀ l : List PPair, l.filterMap (fun x =>
              if (keepP u' x && (x.1.head? == some (natStr i))) = true
              then some (tokKey sep x.1.tail, x.2) else none)
            = ((l.filter (fun x => x.1.head? == some (natStr i))).filter (keepP u')).map
                (fun x => (tokKey sep x.1.tail, x.2)) := by
          intro l
          induction l with
          | nil => rfl
          | cons a as ih =>
            simp only [List.filterMap_cons, List.filter_cons]
            by_cases hc1 : (a.1.head? == some (natStr i)) = true
            · by_cases hc2 : keepP u' a = true
              · simp only [hc1, hc2, Bool.and_self, if_true, List.filter_cons, List.map_cons, ih]
              · simp only [hc1, hc2, Bool.and_true, if_true, if_false, Bool.false_eq_true,
                  List.filter_cons, ih]
            · simp only [hc1, Bool.and_false, if_false, Bool.false_eq_true, ih]
        rw [hfm, ← hLs, slots_filter henv kids i hi, filter_keepP_pre]
        simp [pre, List.map_map, Function.comp_def]
    -- indexes seen: exactly the slots whose member still emits something
    have hidx_spec : ∀ j, j ∈ indexesOf env sep nm prune (toKeys sep ((Ls.filter (keepP u)).map (pre nm.toList)))
        ↔ (j < kids.length ∧ (relFlat kids[j]!).filter (keepP u') ≠ []) := by
      intro j
      simp only [indexesOf, toKeys, List.filterMap_map]
      rw [filterMap_filter', List.mem_filterMap]
      constructor
      · rintro ⟨x, hx, hxj⟩
        obtain ⟨i, ext, hi, hxe, hla⟩ := haddr x hx
        simp only [Function.comp, pre] at hla hxj
        change (if keepP u x = true then (if (prune && x.2.isEmpty) = true then none else _) else none)
          = some j at hxj
        rw [sel_comb, hla, ← hu'] at hxj
        by_cases hk : keepP u' x = true
        · simp only [hk, if_true, Option.map_some, Option.some.injEq] at hxj
          subst hxj
          refine ⟨hi, ?_⟩
          have hsf := slots_filter henv kids i hi
          rw [hLs] at hsf
          have hxin : x ∈ (Ls.filter (fun y => y.1.head? == some (natStr i))).filter (keepP u') := by
            apply List.mem_filter.mpr
            exact ⟨List.mem_filter.mpr ⟨hx, by simp [hxe]⟩, hk⟩
          rw [hsf, filter_keepP_pre] at hxin
          obtain ⟨y, hy, _⟩ := List.mem_map.mp hxin
          have : kids[i]! = kids[i] := by simp [hi]
          rw [this]
          exact List.ne_nil_of_mem hy
        · simp [hk] at hxj
      · rintro ⟨hj, hne⟩
        have : kids[j]! = kids[j] := by simp [hj]
        rw [this] at hne
        obtain ⟨y, hy⟩ := List.exists_mem_of_ne_nil _ hne
        have hsf := slots_filter henv kids j hj
        rw [hLs] at hsf
        have hyin : pre [natStr j] y ∈ (Ls.filter (fun z => z.1.head? == some (natStr j))).filter (keepP u') := by
          rw [hsf, filter_keepP_pre]; exact List.mem_map_of_mem hy
        obtain ⟨hy1, hy2⟩ := List.mem_filter.mp hyin
        have hx := (List.mem_filter.mp hy1).1
        obtain ⟨i, ext, hi, hxe, hla⟩ := haddr _ hx
        refine ⟨_, hx, ?_⟩
        simp only [Function.comp, pre] at hla hxe ⊢
        show (if keepP u ([natStr j] ++ y.1, y.2) = true then
            (if (prune && (([natStr j] ++ y.1, y.2) : PPair).2.isEmpty) = true then none else _) else none) = some j
        rw [sel_comb, hla, ← hu']
        simp only [List.singleton_append, List.cons.injEq] at hxe
        have hy2' : keepP u' ([natStr j] ++ y.1, y.2) = true := hy2
        simp only [List.singleton_append] at hy2'
        have hij : j = i := natStr_inj henv hxe.1
        subst hij
        simp [hy2']
    -- emitting, in terms of the specification's test
    have hemit : ∀ j, (hj : j < kids.length) →
        ((relFlat kids[j]!).filter (keepP u') ≠ [] ↔ emitsB env u' member ms[j]! = true) := by
      intro j hj
      have : kids[j]! = kids[j] := by simp [hj]
      rw [this, hkid j hj]
      exact (emitsB_iff env u' member ms[j]!).symm
    -- what each surviving slot is rebuilt to
    have hslot : ∀ i, (hi : i < kids.length) → emitsB env u' member ms[i]! = true →
        (if (toKeys sep ((relFlat kids[i]).filter (keepP u'))).isEmpty then blank member
          else setFlat env sep member (blank member) (toKeys sep ((relFlat kids[i]).filter (keepP u'))))
          = prS env sep u' member ms[i]! := by
      intro i hi hem
      have hne := (hemit i hi).mpr hem
      have : kids[i]! = kids[i] := by simp [hi]
      rw [this] at hne
      have hnot : (toKeys sep ((relFlat kids[i]).filter (keepP u'))).isEmpty = false := by
        cases hr : (relFlat kids[i]).filter (keepP u') with
        | nil => exact absurd hr hne
        | cons a as => simp [toKeys]
      simp only [hnot, Bool.false_eq_true, if_false]
      rw [hkid i hi]
      have hi' : i < ms.length := by omega
      have hmi : ms[i]! ∈ ms := by simp [hi']
      exact hrt u' ms[i]! (hmem _ hmi)
    have hslot_blank : ∀ i, (hi : i < kids.length) → emitsB env u' member ms[i]! = false →
        (toKeys sep ((relFlat kids[i]).filter (keepP u'))).isEmpty = true := by
      intro i hi hem
      have : (relFlat kids[i]).filter (keepP u') = [] := by
        rw [hkid i hi]; exact (emitsB_false_iff env u' member ms[i]!).mp hem
      simp [this, toKeys]
    -- now run `_set_flat`
    rw [setFlat]
    generalize hPS : toKeys sep ((Ls.filter (keepP u)).map (pre nm.toList)) = PS at *
    generalize hidxs : indexesOf env sep nm prune PS = idxs at *
    have hidx_lt : ∀ j ∈ idxs, j < kids.length := fun j hj => ((hidx_spec j).mp hj).1
    have hidx_iff : ∀ i, i < kids.length → (i ∈ idxs ↔ emitsB env u' member ms[i]! = true) := by
      intro i hi
      rw [hidx_spec i]
      constructor
      · rintro ⟨_, h⟩; exact (hemit i hi).mp h
      · intro h; exact ⟨hi, (hemit i hi).mpr h⟩
    by_cases hnone : idxs = []
    · -- nothing survives: the list comes back empty
      have hlhs : (if PS.isEmpty = true then Elem.list []
          else if idxs.isEmpty = true then Elem.list []
          else if prune = true then
            Elem.list (buildSlots (blank member) (fun g => setFlat env sep member (blank member) g)
              ((sortedDistinct idxs).take mx) (fun i => groupOf env sep nm prune i PS))
          else Elem.list (buildSlots (blank member) (fun g => setFlat env sep member (blank member) g)
              (List.range (min (idxs.foldl max 0 + 1) mx)) (fun i => groupOf env sep nm prune i PS)))
          = Elem.list [] := by
        split
        · rfl
        · simp [hnone]
      rw [hlhs]
      have hno : ∀ m ∈ ms, emitsB env u' member m = false := by
        intro m hm
        obtain ⟨i, hi, rfl⟩ := List.getElem_of_mem hm
        have hik : i < kids.length := by omega
        cases hem : emitsB env u' member ms[i] with
        | false => rfl
        | true =>
          have : i ∈ idxs := (hidx_iff i hik).mpr (by simpa [hi] using hem)
          rw [hnone] at this; simp at this
      simp only [prS]
      cases hp : prune with
      | true =>
        have hut : u' = true := by rw [hu', hp]; simp
        rw [hut] at hno
        have : ms.filter (emitsB env true member) = [] :=
          List.filter_eq_nil_iff.mpr (fun m hm => by simp [hno m hm])
        simp [this]
      | false =>
        have huu : u' = u := by rw [hu', hp]; simp
        rw [huu] at hno
        have hn0 : (dropTrailing (emitsB env u member) ms).length = 0 := by
          by_cases h0 : 0 < (dropTrailing (emitsB env u member) ms).length
          · have hl := dropTrailing_last (emitsB env u member) ms h0
            have hle := dropTrailing_length_le (emitsB env u member) ms
            have hin : ms[(dropTrailing (emitsB env u member) ms).length - 1]! ∈ ms := by
              have : (dropTrailing (emitsB env u member) ms).length - 1 < ms.length := by omega
              simp [this]
            rw [hno _ hin] at hl; cases hl
          · omega
        have : dropTrailing (emitsB env u member) ms = [] := List.eq_nil_of_length_eq_zero hn0
        simp [this]
    · have hidne : idxs.isEmpty = false := by
        cases hI : idxs with
        | nil => exact absurd hI hnone
        | cons a as => rfl
      have hPSne : PS.isEmpty = false := by
        cases hP : PS with
        | nil =>
          have : idxs = [] := by rw [← hidxs, hP]; simp [indexesOf]
          exact absurd this hnone
        | cons a as => rfl
      simp only [hPSne, hidne, Bool.false_eq_true, if_false]
      cases hp : prune with
      | true =>
        have hut : u' = true := by rw [hu', hp]; simp
        subst hut
        simp only [if_true, prS]
        congr 1
        have hsd : sortedDistinct idxs
            = (List.range ms.length).filter (fun i => emitsB env true member ms[i]!) := by
          apply sortedDistinct_eq_filter_range
          · intro j hj; have := hidx_lt j hj; omega
          · intro i hi
            exact hidx_iff i (by omega)
        have htake : (sortedDistinct idxs).take mx = sortedDistinct idxs := by
          apply List.take_of_length_le
          rw [hsd]
          have := List.length_filter_le (fun i => emitsB env true member ms[i]!) (List.range ms.length)
          simp only [List.length_range] at this
          omega
        rw [htake, hsd]
        unfold buildSlots
        rw [← filter_range_map ms (emitsB env true member) (prS env sep true member)]
        apply List.map_congr_left
        intro i hi
        obtain ⟨hir, hie⟩ := List.mem_filter.mp hi
        have hik : i < kids.length := by rw [hklen]; exact List.mem_range.mp hir
        rw [hp] at hgroup
        have hg := hgroup i hik
        show (if (groupOf env sep nm true i PS).isEmpty = true then blank member
          else setFlat env sep member (blank member) (groupOf env sep nm true i PS)) = _
        rw [hg]
        exact hslot i hik hie
      | false =>
        have huu : u' = u := by rw [hu', hp]; simp
        subst huu
        simp only [Bool.false_eq_true, if_false, prS]
        congr 1
        -- the last surviving index
        have hM := foldl_max_mem idxs hnone
        have hMk := hidx_lt _ hM
        have hMe := (hidx_iff _ hMk).mp hM
        have hnle := dropTrailing_length_le (emitsB env u' member) ms
        have hMn : idxs.foldl max 0 < (dropTrailing (emitsB env u' member) ms).length := by
          by_cases h : idxs.foldl max 0 < (dropTrailing (emitsB env u' member) ms).length
          · exact h
          · have := dropTrailing_after (emitsB env u' member) ms (idxs.foldl max 0) (by omega) (by omega)
            rw [this] at hMe; cases hMe
        have hlast := dropTrailing_last (emitsB env u' member) ms (by omega)
        have hn1 : (dropTrailing (emitsB env u' member) ms).length - 1 ∈ idxs := by
          exact (hidx_iff _ (by omega)).mpr hlast
        have hge := foldl_max_mem_ge idxs 0 _ hn1
        have htop : min (idxs.foldl max 0 + 1) mx = (dropTrailing (emitsB env u' member) ms).length := by
          omega
        rw [htop]
        unfold buildSlots
        conv => rhs; rw [dropTrailing_eq_take (emitsB env u' member) ms]
        generalize (dropTrailing (emitsB env u' member) ms).length = n at *
        have htk : ms.take n = (List.range n).map (fun i => ms[i]!) := by
          apply List.ext_getElem
          · simp; omega
          · intro i h1 h2
            simp only [List.length_map, List.length_range] at h2
            have : i < ms.length := by omega
            simp [List.getElem_take, this]
        rw [htk, List.map_map]
        apply List.map_congr_left
        intro i hi
        have hin : i < n := List.mem_range.mp hi
        have hik : i < kids.length := by omega
        rw [hp] at hgroup
        have hg := hgroup i hik
        show (if (groupOf env sep nm false i PS).isEmpty = true then blank member
          else setFlat env sep member (blank member) (groupOf env sep nm false i PS))
          = (if emitsB env u' member ms[i]! = true then prS env sep u' member ms[i]! else blank member)
        rw [hg]
        cases hem : emitsB env u' member ms[i]! with
        | true =>
          simp only [if_true]
          exact hslot i hik hem
        | false =>
          rw [hslot_blank i hik hem]
          simp only [if_true, Bool.false_eq_true, if_false]
  | _ => simp [OkS] at hok

end Flatland.Flat.Proofs
