import Proofs.Lemmas.C17State
namespace Flatland.C17.Proofs
open Flatland.C17 Flatland.C17.Spec

/-! ### frames as layers -/

theorem frameLayer_set (f : Frame) (k : Key) (s : Slot) :
    frameLayer (AList.set f k s) = (frameLayer f).set k s := by
  funext k'
  simp only [frameLayer, Layer.set, get?_set]
  split <;> split <;> simp_all

theorem frameLayer_foldl_deleted (keys : List Key) (f : Frame) :
    frameLayer (keys.foldl (fun f k => AList.set f k .deleted) f)
      = fun k => if k ∈ keys then some .deleted else frameLayer f k := by
  induction keys generalizing f with
  | nil => simp
  | cons k0 r ih =>
    simp only [List.foldl_cons, ih, frameLayer_set]
    funext k
    simp only [Layer.set, List.mem_cons]
    split <;> split <;> simp_all

/-- folding `set` over pairs, as a function of the key -/
theorem foldl_layer_set (ps : List (Key × Val)) (l : Layer) (k : Key) :
    ps.foldl (fun l kv => l.set kv.1 (.val kv.2)) l k
      = ((lastVal ps k).map Slot.val).or (l k) := by
  induction ps generalizing l with
  | nil => simp [lastVal]
  | cons p r ih =>
    obtain ⟨k0, v0⟩ := p
    simp only [List.foldl_cons, ih, lastVal, Layer.set]
    by_cases e : k = k0
    · subst e; cases lastVal r k <;> simp
    · have e' : ¬ k0 = k := fun h => e h.symm
      cases lastVal r k <;> simp [e, e']

theorem frameLayer_update (f : Frame) (ps : List (Key × Val)) :
    frameLayer (AList.update f ((AList.ofPairs ps : Dict Val).map (fun kv => (kv.1, Slot.val kv.2))))
      = ps.foldl (fun l kv => l.set kv.1 (.val kv.2)) (frameLayer f) := by
  funext k
  rw [foldl_layer_set]
  simp only [frameLayer, get?_update, lastVal_map_val,
    lastVal_of_nodup _ k (nodup_ofPairs ps), get?_ofPairs]

theorem layerOfPairs_eq (ps : List (Key × Val)) : layerOfPairs ps = frameLayer (valFrame ps) := by
  funext k
  simp only [layerOfPairs, foldl_layer_set, frameLayer, valFrame, get?_map_val, get?_ofPairs]
  cases lastVal ps k <;> simp [Layer.empty]

/-! ### `items()` lists exactly what `__getitem__` finds -/

theorem get?_tItems (σ : State) (c : ClassId) (d : DescId) (k : Key) :
    AList.get? (tItems σ c d) k = (tGet σ c d k).toOption := by
  simp [tItems, tGet, get?_itemsGo, firstSlot_flatten, lookupFrames_eq]

theorem mem_keys_tItems (σ : State) (c : ClassId) (d : DescId) (k : Key) :
    k ∈ (tItems σ c d).map (·.1) ↔ ((tGet σ c d k).toOption).isSome := by
  rw [← get?_tItems]
  have := get?_eq_none_iff (tItems σ c d) k
  cases h : AList.get? (tItems σ c d) k <;> simp_all

theorem nodup_tItems (σ : State) (c : ClassId) (d : DescId) : ((tItems σ c d).map (·.1)).Nodup :=
  (itemsGo_keys _ []).1

def slotOver (x : Option Slot) (b : Option Val) : Option Val :=
  match x with
  | some (.val v) => some v
  | some .deleted => none
  | none => b

theorem overlay_eq (below : Mapping) (l : Layer) (k : Key) :
    overlay below l k = slotOver (l k) (below k) := rfl

theorem clear_aux (x : Option Slot) (b : Option Val) :
    slotOver (if (slotOver x b).isSome = true then some Slot.deleted else x) b = none := by
  cases x with
  | none => cases b <;> simp [slotOver]
  | some s => cases s <;> simp [slotOver]

/-! ### spec algebra: recording an operation in the top layer = dict semantics on the overlay -/

theorem overlay_set_val (below : Mapping) (l : Layer) (k : Key) (v : Val) :
    overlay below (l.set k (.val v)) = upd (overlay below l) k (some v) := by
  funext k'; simp only [overlay, Layer.set, upd]; by_cases e : k' = k <;> simp [e]

theorem overlay_set_deleted (below : Mapping) (l : Layer) (k : Key) :
    overlay below (l.set k .deleted) = upd (overlay below l) k none := by
  funext k'; simp only [overlay, Layer.set, upd]; by_cases e : k' = k <;> simp [e]

theorem overlay_foldl_set (below : Mapping) (ps : List (Key × Val)) (l : Layer) :
    overlay below (ps.foldl (fun l kv => l.set kv.1 (.val kv.2)) l)
      = ps.foldl (fun m kv => upd m kv.1 (some kv.2)) (overlay below l) := by
  induction ps generalizing l with
  | nil => rfl
  | cons p r ih => simp only [List.foldl_cons, ih, overlay_set_val]

/-- **the mutating methods have `dict` semantics on the visible mapping** (spec level):
    recording `o` in the view's own layer changes the overlay exactly as `o` changes a dict -/
theorem overlay_applyOp (below : Mapping) (l : Layer) (o : Op) :
    overlay below (applyOp (overlay below l) l o) = dictApply o (overlay below l) := by
  cases o <;> simp only [applyOp, dictApply, overlay_set_val, overlay_foldl_set]
  case delitem k =>
    split
    · rw [overlay_set_deleted]
    · rename_i h; funext k'; simp only [upd]; split
      · rename_i e; subst e; simpa using h
      · rfl
  case clear =>
    funext k
    simp only [overlay_eq, Mapping.empty]
    exact clear_aux (l k) (below k)
  case pop k _ =>
    split
    · rw [overlay_set_deleted]
    · rename_i h; funext k'; simp only [upd]; split
      · rename_i e; subst e; simpa using h
      · rfl
  case setdefault k dv =>
    split
    · rfl
    · rw [overlay_set_val]

end Flatland.C17.Proofs
