/-
`_path_segment`'s escaping against the scanner: for a name without a backslash directly before
`.` or `]`, the escaped name is one clean name run that unescapes back to the name.
-/
import Flatland.Path
import Flatland.Spec.C13
import Proofs.Lemmas.PathScan
import Proofs.Lemmas.PathInt
namespace Flatland.Path.Lemmas
open Flatland.Path Flatland.C13.Spec

/-- the general branch of `escapeName` -/
def esc : Str → Str
  | [] => []
  | c :: r => (if c == '/' then ['\\', '/'] else if c == '[' then ['\\', '['] else [c]) ++ esc r

theorem esc_eq_flatMap : ∀ s : Str,
    s.flatMap (fun c => if c == '/' then ['\\', '/'] else if c == '[' then ['\\', '['] else [c]) = esc s
  | [] => rfl
  | c :: r => by simp only [List.flatMap_cons, esc, esc_eq_flatMap r]

theorem escapeName_eq (s : Str) (h1 : s ≠ ['.']) (h2 : s ≠ ['.', '.']) : escapeName s = esc s := by
  unfold escapeName
  have e1 : (s == ['.']) = false := by simpa using h1
  have e2 : (s == ['.', '.']) = false := by simpa using h2
  simp only [e1, e2, Bool.false_eq_true, if_false, esc_eq_flatMap]

theorem cleanB_nil (last : Bool) : cleanB last [] = true := by rw [cleanB.eq_def]

/-- the escaped form of a non-empty string not starting with `.` or `]` starts with a character
    that neither the scanner nor the unescaper treats as escapable -/
theorem esc_head (d : Char) (r : Str) (h1 : d ≠ '.') (h2 : d ≠ ']') :
    ∃ h tl, esc (d :: r) = h :: tl ∧ isEscapable h = false ∧ isUnescapable h = false := by
  by_cases hs : d = '/'
  · subst hs; exact ⟨'\\', '/' :: esc r, by simp [esc], by decide, by decide⟩
  · by_cases hb : d = '['
    · subst hb; exact ⟨'\\', '[' :: esc r, by simp [esc], by decide, by decide⟩
    · refine ⟨d, esc r, by simp [esc, hs, hb], ?_, ?_⟩
      · simp [isEscapable, hs, hb, h1]
      · simp [isUnescapable, hs, hb, h1, h2]

theorem hbd_cons (c : Char) (r : Str) (h : hasBackslashDot (c :: r) = false) : hasBackslashDot r = false := by
  simp only [hasBackslashDot, Bool.or_eq_false_iff] at h
  exact h.2

theorem hbd_backslash (d : Char) (r : Str) (h : hasBackslashDot ('\\' :: d :: r) = false) :
    d ≠ '.' ∧ d ≠ ']' := by
  simp only [hasBackslashDot, Bool.or_eq_false_iff, List.head?_cons, beq_self_eq_true, Bool.true_and] at h
  have h1 := h.1
  constructor
  · intro hd; subst hd; simp at h1
  · intro hd; subst hd; simp at h1

theorem ends_tail (last : Bool) (c : Char) (r : Str)
    (h : last = true ∨ endsWithBackslash (c :: r) = false) :
    last = true ∨ endsWithBackslash r = false := by
  rcases h with h | h
  · exact Or.inl h
  · right
    cases r with
    | nil => rfl
    | cons d r' => simpa [endsWithBackslash, List.getLast?_cons_cons] using h

theorem clean_esc (last : Bool) : ∀ s : Str, hasBackslashDot s = false →
    (last = true ∨ endsWithBackslash s = false) → cleanB last (esc s) = true
  | [], _, _ => cleanB_nil last
  | c :: r, hb, he => by
    have ih := clean_esc last r (hbd_cons c r hb) (ends_tail last c r he)
    by_cases hs : c = '/'
    · subst hs
      simp only [esc, beq_self_eq_true, if_true, List.cons_append, List.nil_append]
      rw [cleanB_cons]
      simp only [if_true]
      simpa [isEscapable] using ih
    · by_cases hbr : c = '['
      · subst hbr
        have : (('[' : Char) == '/') = false := by decide
        simp only [esc, this, Bool.false_eq_true, if_false, beq_self_eq_true, if_true, List.cons_append,
          List.nil_append]
        rw [cleanB_cons]
        simp only [if_true]
        simpa [isEscapable] using ih
      · have hesc : esc (c :: r) = c :: esc r := by simp [esc, hs, hbr]
        rw [hesc, cleanB_cons]
        by_cases hbs : c = '\\'
        · subst hbs
          simp only [if_true]
          cases r with
          | nil =>
            simp only [esc]
            rcases he with he | he
            · exact he
            · simp [endsWithBackslash] at he
          | cons d r' =>
            obtain ⟨hd1, hd2⟩ := hbd_backslash d r' hb
            obtain ⟨h, tl, heq, hne, _⟩ := esc_head d r' hd1 hd2
            rw [heq] at ih ⊢
            simp only [hne, Bool.false_eq_true, if_false]
            exact ih
        · simp only [hbs, if_false, Bool.and_eq_true, Bool.not_eq_true', Bool.or_eq_false_iff, beq_eq_false_iff_ne,
            ne_eq]
          exact ⟨⟨hs, hbr⟩, ih⟩

theorem unescape_nil : unescape [] = [] := by simp [unescape]

theorem unescape_esc : ∀ s : Str, hasBackslashDot s = false → unescape (esc s) = s
  | [], _ => unescape_nil
  | c :: r, hb => by
    have ih := unescape_esc r (hbd_cons c r hb)
    by_cases hs : c = '/'
    · subst hs
      simp only [esc, beq_self_eq_true, if_true, List.cons_append, List.nil_append]
      rw [unescape_cons]
      simp only [if_true]
      simp [isUnescapable, ih]
    · by_cases hbr : c = '['
      · subst hbr
        have : (('[' : Char) == '/') = false := by decide
        simp only [esc, this, Bool.false_eq_true, if_false, beq_self_eq_true, if_true, List.cons_append,
          List.nil_append]
        rw [unescape_cons]
        simp only [if_true]
        simp [isUnescapable, ih]
      · have hesc : esc (c :: r) = c :: esc r := by simp [esc, hs, hbr]
        rw [hesc, unescape_cons]
        by_cases hbs : c = '\\'
        · subst hbs
          simp only [if_true]
          cases r with
          | nil => simp [esc]
          | cons d r' =>
            obtain ⟨hd1, hd2⟩ := hbd_backslash d r' hb
            obtain ⟨h, tl, heq, _, hne⟩ := esc_head d r' hd1 hd2
            rw [heq] at ih ⊢
            simp only [hne, Bool.false_eq_true, if_false]
            rw [ih]
        · simp only [hbs, if_false, ih]

theorem esc_ne_nil (c : Char) (r : Str) : esc (c :: r) ≠ [] := by
  simp only [esc]
  split <;> (try split) <;> simp

/-- the first character of an escaped name is never `[`, and `/` only ever follows a backslash -/
theorem esc_plain : ∀ s : Str, s ≠ [] → s ≠ ['.'] → s ≠ ['.', '.'] → PlainSeg (esc s)
  | [], h, _, _ => absurd rfl h
  | c :: r, _, h1, h2 => by
    by_cases hs : c = '/'
    · subst hs
      refine ⟨?_, ?_, ?_, ?_⟩ <;> simp [esc]
    · by_cases hbr : c = '['
      · subst hbr
        refine ⟨?_, ?_, ?_, ?_⟩ <;> simp [esc]
      · have hesc : esc (c :: r) = c :: esc r := by simp [esc, hs, hbr]
        rw [hesc]
        refine ⟨?_, ?_, ?_, ?_⟩
        · simp [hs]
        · intro h
          simp only [List.cons.injEq] at h
          obtain ⟨hc, hr⟩ := h
          subst hc
          cases r with
          | nil => exact h1 rfl
          | cons d r' => exact esc_ne_nil d r' hr
        · intro h
          simp only [List.cons.injEq] at h
          obtain ⟨hc, hr⟩ := h
          subst hc
          cases r with
          | nil => simp [esc] at hr
          | cons d r' =>
            by_cases hd : d = '/'
            · subst hd; simp [esc] at hr
            · by_cases hd2 : d = '['
              · subst hd2; simp [esc] at hr
              · have : esc (d :: r') = d :: esc r' := by simp [esc, hd, hd2]
                rw [this] at hr
                simp only [List.cons.injEq] at hr
                obtain ⟨hd3, hr'⟩ := hr
                subst hd3
                cases r' with
                | nil => exact h2 rfl
                | cons e r'' => exact esc_ne_nil e r'' hr'
        · simp [hbr]

/-- the three facts the scanner lemma needs about an escaped field name -/
theorem escapeName_facts (last : Bool) (s : Str) (hne : s ≠ []) (hb : hasBackslashDot s = false)
    (he : last = true ∨ endsWithBackslash s = false) :
    escapeName s ≠ [] ∧ cleanB last (escapeName s) = true ∧ PlainSeg (escapeName s) ∧
      unescape (escapeName s) = s := by
  by_cases h1 : s = ['.']
  · subst h1
    refine ⟨by simp [escapeName], ?_, ⟨by simp [escapeName], by simp [escapeName], by simp [escapeName], by simp [escapeName]⟩, ?_⟩
    · simp only [escapeName, beq_self_eq_true, if_true]
      rw [cleanB_cons]; simp [isEscapable, cleanB_nil]
    · simp only [escapeName, beq_self_eq_true, if_true]
      rw [unescape_cons]; simp [isUnescapable, unescape_nil]
  · by_cases h2 : s = ['.', '.']
    · subst h2
      have hne' : (['.', '.'] == ['.']) = false := by decide
      refine ⟨by simp [escapeName], ?_, ⟨by simp [escapeName], by simp [escapeName], by simp [escapeName], by simp [escapeName]⟩, ?_⟩
      · simp only [escapeName, hne', Bool.false_eq_true, if_false, beq_self_eq_true, if_true]
        rw [cleanB_cons]; simp only [if_true, isEscapable]
        simp only [beq_self_eq_true, Bool.or_true, Bool.true_or, if_true]
        rw [cleanB_cons]; simp [isEscapable, cleanB_nil]
      · simp only [escapeName, hne', Bool.false_eq_true, if_false, beq_self_eq_true, if_true]
        rw [unescape_cons]; simp only [if_true, isUnescapable]
        simp only [beq_self_eq_true, Bool.or_true, if_true]
        rw [unescape_cons]; simp [isUnescapable, unescape_nil]
    · rw [escapeName_eq s h1 h2]
      cases s with
      | nil => exact absurd rfl hne
      | cons c r =>
        exact ⟨esc_ne_nil c r, clean_esc last _ hb he, esc_plain _ hne h1 h2, unescape_esc _ hb⟩

/-! ### positions -/

theorem digits_clean (last : Bool) : ∀ s : Str, (∀ c ∈ s, isAsciiDigit c = true) → cleanB last s = true
  | [], _ => cleanB_nil last
  | c :: r, h => by
    have hc := h c (by simp)
    have ih := digits_clean last r (fun x hx => h x (by simp [hx]))
    simp only [isAsciiDigit, Bool.and_eq_true, decide_eq_true_eq] at hc
    have h1 : c ≠ '\\' := by intro e; subst e; simp at hc
    have h2 : c ≠ '/' := by intro e; subst e; simp at hc
    have h3 : c ≠ '[' := by intro e; subst e; simp at hc
    rw [cleanB_cons]
    simp [h1, h2, h3, ih]

theorem digits_unescape : ∀ s : Str, (∀ c ∈ s, isAsciiDigit c = true) → unescape s = s
  | [], _ => unescape_nil
  | c :: r, h => by
    have hc := h c (by simp)
    have ih := digits_unescape r (fun x hx => h x (by simp [hx]))
    simp only [isAsciiDigit, Bool.and_eq_true, decide_eq_true_eq] at hc
    have h1 : c ≠ '\\' := by intro e; subst e; simp at hc
    rw [unescape_cons]
    simp [h1, ih]

theorem digits_plain (s : Str) (hne : s ≠ []) (h : ∀ c ∈ s, isAsciiDigit c = true) : PlainSeg s := by
  cases s with
  | nil => exact absurd rfl hne
  | cons c r =>
    have hc := h c (by simp)
    simp only [isAsciiDigit, Bool.and_eq_true, decide_eq_true_eq] at hc
    refine ⟨?_, ?_, ?_, ?_⟩
    · intro e; injection e with e1 _; subst e1; simp at hc
    · intro e; injection e with e1 _; subst e1; simp at hc
    · intro e; injection e with e1 _; subst e1; simp at hc
    · simp only [List.head?_cons, ne_eq, Option.some.injEq]; intro e; subst e; simp at hc

theorem natStr_facts (last : Bool) (i : Nat) :
    natStr i ≠ [] ∧ cleanB last (natStr i) = true ∧ PlainSeg (natStr i) ∧ unescape (natStr i) = natStr i :=
  ⟨natStr_ne_nil i, digits_clean last _ (natStr_all_digits i),
   digits_plain _ (natStr_ne_nil i) (natStr_all_digits i), digits_unescape _ (natStr_all_digits i)⟩

end Flatland.Path.Lemmas
