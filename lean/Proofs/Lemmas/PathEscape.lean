/-
`_path_segment`'s escaping against the scanner: the escaped name is one clean name run that
unescapes back to the name.  The code's chain of replaces (`/`, `[` escaped, a backslash before
`.` or `]` doubled) produces exactly the minimal spelling of the C14 printer
(`escapeSeg false`), so the facts proved for the printer carry over.
-/
import Flatland.Path
import Flatland.Spec.C13
import Flatland.Spec.C14
import Proofs.Lemmas.PathScan
import Proofs.Lemmas.PathInt
import Proofs.Lemmas.C14Print
namespace Flatland.Path.Lemmas
open Flatland.Path Flatland.C13.Spec Flatland.C14.Spec Flatland.C14.Proofs

def dotHead (s : Str) : Bool := s.head? == some '.' || s.head? == some ']'

theorem escapeBody_cons (c : Char) (r : Str) :
    escapeBody (c :: r) =
      (if c == '/' then ['\\', '/']
       else if c == '[' then ['\\', '[']
       else if c == '\\' && dotHead r then ['\\', '\\']
       else [c]) ++ escapeBody r := rfl

/-- the code's output = the printer's minimal spelling, up to where the extra backslash is
    attributed (the code doubles the backslash, the printer escapes the dot) -/
theorem escapeFrom_eq_body : ∀ (s : Str) (p : Bool),
    escapeFrom false p s = (if p && dotHead s then ['\\'] else []) ++ escapeBody s
  | [], p => by simp [escapeFrom_nil, dotHead, escapeBody]
  | c :: r, p => by
    rw [escapeFrom_cons, escapeFrom_eq_body r (c == '\\'), escapeBody_cons]
    by_cases h1 : c = '/'
    · subst h1; simp [escNow, dotHead]
    · by_cases h2 : c = '['
      · subst h2; simp [escNow, dotHead]
      · by_cases h3 : c = '.'
        · subst h3; cases p <;> simp [escNow, dotHead]
        · by_cases h4 : c = ']'
          · subst h4; cases p <;> simp [escNow, dotHead]
          · by_cases h5 : c = '\\'
            · subst h5
              cases hd : dotHead r <;> cases p <;> simp [escNow, dotHead, hd]
            · simp [escNow, dotHead, h1, h2, h3, h4, h5]

theorem escapeName_eq_escapeSeg (s : Str) : escapeName s = escapeSeg false s := by
  unfold escapeName escapeSeg
  split
  · rfl
  · split
    · rfl
    · rw [escapeFrom_eq_body]; simp

/-- the facts the scanner lemma needs about an escaped field name: non-empty names only;
    `last = false` additionally needs the name not to end in a backslash -/
theorem escapeName_facts (last : Bool) (s : Str) (hne : s ≠ [])
    (he : last = true ∨ endsWithBackslash s = false) :
    escapeName s ≠ [] ∧ cleanB last (escapeName s) = true ∧ PlainSeg (escapeName s) ∧
      unescape (escapeName s) = s := by
  have hl : last = true ∨ s.getLast? ≠ some '\\' := by
    rcases he with h | h
    · exact Or.inl h
    · right; simpa [endsWithBackslash] using h
  rw [escapeName_eq_escapeSeg]
  by_cases h1 : s = ['.']
  · subst h1
    refine ⟨by simp [escapeSeg], ?_, ⟨by simp [escapeSeg], by simp [escapeSeg], by simp [escapeSeg], by simp [escapeSeg]⟩, ?_⟩
    · simp only [escapeSeg, beq_self_eq_true, if_true]
      rw [cleanB_cons]; simp [isEscapable, cleanB_nil']
    · simp only [escapeSeg, beq_self_eq_true, if_true]
      rw [unescape_cons]; simp [isUnescapable, unescape_nil']
  · by_cases h2 : s = ['.', '.']
    · subst h2
      have hne2 : (['.', '.'] == ['.']) = false := by decide
      refine ⟨by simp [escapeSeg], ?_, ⟨by simp [escapeSeg], by simp [escapeSeg], by simp [escapeSeg], by simp [escapeSeg]⟩, ?_⟩
      · simp only [escapeSeg, hne2, Bool.false_eq_true, if_false, beq_self_eq_true, if_true]
        rw [cleanB_cons]; simp only [if_true, isEscapable]
        simp only [beq_self_eq_true, Bool.or_true, Bool.true_or, if_true]
        rw [cleanB_cons]; simp [isEscapable, cleanB_nil']
      · simp only [escapeSeg, hne2, Bool.false_eq_true, if_false, beq_self_eq_true, if_true]
        rw [unescape_cons]; simp only [if_true, isUnescapable]
        simp only [beq_self_eq_true, Bool.or_true, if_true]
        rw [unescape_cons]; simp [isUnescapable, unescape_nil']
    · have e1 : (s == ['.']) = false := by simpa using h1
      have e2 : (s == ['.', '.']) = false := by simpa using h2
      simp only [escapeSeg, e1, e2, Bool.false_eq_true, if_false]
      cases s with
      | nil => exact absurd rfl hne
      | cons c r =>
        exact ⟨escapeFrom_ne_nil false false c r, clean_escapeFrom' last false _ false hl,
          escapeFrom_plain false _ hne h1 h2, unescape_escapeFrom false _ false⟩

/-! ### positions -/

theorem digits_clean (last : Bool) : ∀ s : Str, (∀ c ∈ s, isAsciiDigit c = true) → cleanB last s = true
  | [], _ => cleanB_nil' last
  | c :: r, h => by
    have hc := h c (by simp)
    have ih := digits_clean last r (fun x hx => h x (by simp [hx]))
    simp only [isAsciiDigit, Bool.and_eq_true, decide_eq_true_eq] at hc
    have h1 : c ≠ '\\' := by intro e; subst e; simp at hc
    have h2 : c ≠ '/' := by intro e; subst e; simp at hc
    have h3 : c ≠ '[' := by intro e; subst e; simp at hc
    rw [cleanB_cons]
    simp [h1, h2, h3, ih]

theorem digits_unescape : ∀ s : Str, (∀ c ∈ s, isAsciiDigit c = true) → unescape s = s
  | [], _ => unescape_nil'
  | c :: r, h => by
    have hc := h c (by simp)
    have ih := digits_unescape r (fun x hx => h x (by simp [hx]))
    simp only [isAsciiDigit, Bool.and_eq_true, decide_eq_true_eq] at hc
    have h1 : c ≠ '\\' := by intro e; subst e; simp at hc
    rw [unescape_cons]
    simp [h1, ih]

theorem digits_plain (s : Str) (hne : s ≠ []) (h : ∀ c ∈ s, isAsciiDigit c = true) : PlainSeg s := by
  cases s with
  | nil => exact absurd rfl hne
  | cons c r =>
    have hc := h c (by simp)
    simp only [isAsciiDigit, Bool.and_eq_true, decide_eq_true_eq] at hc
    refine ⟨?_, ?_, ?_, ?_⟩
    · intro e; injection e with e1 _; subst e1; simp at hc
    · intro e; injection e with e1 _; subst e1; simp at hc
    · intro e; injection e with e1 _; subst e1; simp at hc
    · simp only [List.head?_cons, ne_eq, Option.some.injEq]; intro e; subst e; simp at hc

theorem natStr_facts (last : Bool) (i : Nat) :
    natStr i ≠ [] ∧ cleanB last (natStr i) = true ∧ PlainSeg (natStr i) ∧ unescape (natStr i) = natStr i :=
  ⟨natStr_ne_nil i, digits_clean last _ (natStr_all_digits i),
   digits_plain _ (natStr_ne_nil i) (natStr_all_digits i), digits_unescape _ (natStr_all_digits i)⟩

end Flatland.Path.Lemmas
