/-
Key sets of the SetWith… validators and the sibling loop of NotDuplicated.
-/
import Flatland.C15
import Flatland.Spec.C15
import Proofs.Lemmas.C15Order
namespace Flatland.C15.Proofs
open Flatland.C16 Flatland.C15 Flatland.C15.Spec

theorem mem_dedup (x : Str) (l : List Str) : x ∈ dedup l ↔ x ∈ l := by
  induction l with
  | nil => simp [dedup]
  | cons y ys ih =>
    simp only [dedup]
    by_cases h : (dedup ys).contains y = true
    · rw [if_pos h]
      have hy : y ∈ dedup ys := by simpa using h
      constructor
      · intro hx; exact List.mem_cons_of_mem _ (ih.1 hx)
      · intro hx
        rcases List.mem_cons.1 hx with heq | hx
        · rw [heq]; exact hy
        · exact ih.2 hx
    · rw [if_neg h]
      constructor
      · intro hx
        rcases List.mem_cons.1 hx with heq | hx
        · rw [heq]; exact List.mem_cons_self
        · exact List.mem_cons_of_mem _ (ih.1 hx)
      · intro hx
        rcases List.mem_cons.1 hx with heq | hx
        · rw [heq]; exact List.mem_cons_self
        · exact List.mem_cons_of_mem _ (ih.2 hx)

theorem dedup_eq_nil (l : List Str) : dedup l = [] ↔ l = [] := by
  constructor
  · intro h
    cases l with
    | nil => rfl
    | cons y ys =>
      have : y ∈ dedup (y :: ys) := (mem_dedup y _).2 (by simp)
      rw [h] at this
      cases this
  · intro h; subst h; rfl

theorem insertSorted_ne_nil (x : Str) (l : List Str) : insertSorted x l ≠ [] := by
  cases l with
  | nil => simp [insertSorted]
  | cons y ys => simp only [insertSorted]; split <;> simp

theorem sortStrs_isEmpty (l : List Str) : (sortStrs l).isEmpty = l.isEmpty := by
  unfold sortStrs
  cases hd : dedup l with
  | nil =>
    have := (dedup_eq_nil l).1 hd
    subst this; rfl
  | cons y ys =>
    have hl : l ≠ [] := by
      intro h; subst h; simp [dedup] at hd
    simp only [List.foldr]
    have h1 := insertSorted_ne_nil y (List.foldr insertSorted [] ys)
    cases h2 : insertSorted y (List.foldr insertSorted [] ys) with
    | nil => exact absurd h2 h1
    | cons a as =>
      cases l with
      | nil => exact absurd rfl hl
      | cons b bs => rfl

/-- `given - allowed` is empty exactly when every given key is allowed -/
theorem diffKeys_isEmpty (given allowed : List Str) :
    (diffKeys given allowed).isEmpty = given.all (fun k => allowed.contains k) := by
  unfold diffKeys
  rw [sortStrs_isEmpty]
  induction given with
  | nil => rfl
  | cons k ks ih =>
    simp only [List.filter, List.all_cons]
    cases h : allowed.contains k with
    | true => simpa using ih
    | false => simp

/-- the sibling loop: starting at index `idx` with `pos ≥ idx`, the verdict is `valid` and no
    sibling before `pos` equals the element -/
theorem dupLoop_valid (me : Val × Str) (p : Nat) (sibs : List (Val × Str)) (idx : Nat)
    (valid : Bool) (h : idx ≤ p) :
    (dupLoop me (some p) sibs idx valid).1 =
      (valid && !((sibs.take (p - idx)).any (fun s => pyEq me.1 s.1 && me.2 == s.2))) := by
  induction sibs generalizing idx valid with
  | nil => simp [dupLoop]
  | cons s rest ih =>
    simp only [dupLoop]
    by_cases hp : p = idx
    · subst hp
      simp
    · have hne : (some p == some idx) = false := by simp [hp]
      have hlt : idx + 1 ≤ p := by omega
      have hsub : p - idx = (p - (idx + 1)) + 1 := by omega
      simp only [hne, Bool.false_eq_true, if_false]
      rw [hsub, List.take_succ_cons, List.any_cons]
      cases valid with
      | false =>
        simp only [Bool.false_and, Bool.false_eq_true, if_false]
        rw [ih (idx + 1) false hlt]
        simp
      | true =>
        simp only [Bool.true_and]
        cases heq : (pyEq me.1 s.1 && me.2 == s.2) with
        | true =>
          simp only [if_true]
          rw [ih (idx + 1) false hlt]
          simp
        | false =>
          simp only [Bool.false_eq_true, if_false]
          rw [ih (idx + 1) true hlt]
          simp

end Flatland.C15.Proofs
