/-
Key sets of the SetWith… validators and the sibling loop of NotDuplicated.
-/
import Flatland.C15
import Flatland.Spec.C15
import Proofs.Lemmas.C15Order
namespace Flatland.C15.Proofs
open Flatland.C16 Flatland.C15 Flatland.C15.Spec

theorem insertSorted_ne_nil (x : Str) (l : List Str) : insertSorted x l ≠ [] := by
  cases l with
  | nil => simp [insertSorted]
  | cons y ys => simp only [insertSorted]; split <;> simp

theorem sortOnly_isEmpty (l : List Str) : (sortOnly l).isEmpty = l.isEmpty := by
  cases l with
  | nil => rfl
  | cons y ys =>
    simp only [sortOnly, List.foldr]
    have h1 := insertSorted_ne_nil y (List.foldr insertSorted [] ys)
    cases h2 : insertSorted y (List.foldr insertSorted [] ys) with
    | nil => exact absurd h2 h1
    | cons a as => rfl

theorem dedupGo_nil_isEmpty (l : List Val) : (dedupGo [] l).isEmpty = l.isEmpty := by
  cases l with
  | nil => rfl
  | cons x xs => simp [dedupGo]

/-- `set(a) - set(b)` is empty exactly when every key of `a` is in `b` -/
theorem diffKeys_isEmpty (a b : List Val) :
    (diffKeys a b).isEmpty = a.all (fun k => memKey k b) := by
  unfold diffKeys
  rw [sortOnly_isEmpty]
  have hmap : ∀ l : List Val, (l.map pyStr).isEmpty = l.isEmpty := by
    intro l; cases l <;> rfl
  rw [hmap, dedupGo_nil_isEmpty]
  induction a with
  | nil => rfl
  | cons k ks ih =>
    simp only [List.filter, List.all_cons]
    cases h : memKey k b with
    | true => simpa using ih
    | false => simp

/-- the sibling loop: starting at index `idx` with `pos ≥ idx`, the verdict is `valid` and no
    sibling before `pos` equals the element -/
theorem dupLoop_valid (me : Val × Str) (p : Nat) (sibs : List (Val × Str)) (idx : Nat)
    (valid : Bool) (h : idx ≤ p) :
    (dupLoop me (some p) sibs idx valid).1 =
      (valid && !((sibs.take (p - idx)).any (fun s => pyEq me.1 s.1 && me.2 == s.2))) := by
  induction sibs generalizing idx valid with
  | nil => simp [dupLoop]
  | cons s rest ih =>
    simp only [dupLoop]
    by_cases hp : p = idx
    · subst hp
      simp
    · have hne : (some p == some idx) = false := by simp [hp]
      have hlt : idx + 1 ≤ p := by omega
      have hsub : p - idx = (p - (idx + 1)) + 1 := by omega
      simp only [hne, Bool.false_eq_true, if_false]
      rw [hsub, List.take_succ_cons, List.any_cons]
      cases valid with
      | false =>
        simp only [Bool.false_and, Bool.false_eq_true, if_false]
        rw [ih (idx + 1) false hlt]
        simp
      | true =>
        simp only [Bool.true_and]
        cases heq : (pyEq me.1 s.1 && me.2 == s.2) with
        | true =>
          simp only [if_true]
          rw [ih (idx + 1) false hlt]
          simp
        | false =>
          simp only [Bool.false_eq_true, if_false]
          rw [ih (idx + 1) true hlt]
          simp

end Flatland.C15.Proofs
