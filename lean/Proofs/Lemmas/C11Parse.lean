/-
The mini parser reads back what the serialiser wrote: attribute lists, then whole elements.
Generic in the escape function `esc` (no `"` in its output, inverted by `dec`).
-/
import Proofs.Lemmas.C11Decode
namespace Flatland.C11.Proofs
open Flatland.C11 Flatland.Markup

/-- author-chosen identifiers: non-empty, none of the characters that end a name -/
def validName (k : Str) : Bool := !k.isEmpty && k.all (fun c => !nameStop c)

/-- the declared name grammar `[A-Za-z][A-Za-z0-9_:.-]*` -/
def isIdentStart (c : Char) : Bool := ('A' ≤ c && c ≤ 'Z') || ('a' ≤ c && c ≤ 'z')
def isIdentChar (c : Char) : Bool :=
  isIdentStart c || ('0' ≤ c && c ≤ '9') || c = '_' || c = ':' || c = '.' || c = '-'
def identName : Str → Bool
  | [] => false
  | c :: cs => isIdentStart c && cs.all isIdentChar
/-- … in lower case (what html.parser reports, and what `Generator.tag()` turns a tag name into) -/
def lowerName (k : Str) : Bool := identName k && k.all (fun c => !('A' ≤ c && c ≤ 'Z'))

theorem identChar_not_stop (c : Char) (h : isIdentChar c = true) : nameStop c = false := by
  rw [Bool.eq_false_iff]
  intro hs
  simp only [nameStop, Bool.or_eq_true, decide_eq_true_eq] at hs
  rcases hs with ((((rfl | rfl) | rfl) | rfl) | rfl) | rfl <;> simp [isIdentChar, isIdentStart] at h

theorem identName_valid {k : Str} (h : identName k = true) : validName k = true := by
  cases k with
  | nil => simp [identName] at h
  | cons c cs =>
    simp only [identName, Bool.and_eq_true, List.all_eq_true] at h
    simp only [validName, List.isEmpty_cons, Bool.not_false, Bool.true_and, List.all_cons, Bool.and_eq_true,
      Bool.not_eq_true', List.all_eq_true]
    refine ⟨identChar_not_stop c (by simp [isIdentChar, h.1]), fun x hx => identChar_not_stop x (h.2 x hx)⟩

theorem lowerName_valid {k : Str} (h : lowerName k = true) : validName k = true := by
  simp only [lowerName, Bool.and_eq_true] at h
  exact identName_valid h.1

theorem takeWhile_name (k rest : Str) (c : Char) (hk : k.all (fun c => !nameStop c) = true)
    (hc : nameStop c = true) :
    (k ++ c :: rest).takeWhile (fun c => !nameStop c) = k ∧
    (k ++ c :: rest).dropWhile (fun c => !nameStop c) = c :: rest := by
  induction k with
  | nil => simp [hc]
  | cons x xs ih =>
    simp only [List.all_cons, Bool.and_eq_true] at hk
    obtain ⟨h1, h2⟩ := ih hk.2
    simp [List.takeWhile_cons, List.dropWhile_cons, hk.1, h1, h2]

/-- ` k="esc v"` -/
def attrText (esc : Str → Str) (kv : Str × Str) : Str :=
  ' ' :: kv.1 ++ '=' :: '"' :: esc kv.2 ++ ['"']

theorem parseAttrs_close (dec : Str → Str) (tail : Str) :
    parseAttrs dec ('>' :: tail) = some ([], .opened, tail) := by
  rw [parseAttrs]

theorem parseAttrs_selfclose (dec : Str → Str) (tail : Str) :
    parseAttrs dec (' ' :: '/' :: '>' :: tail) = some ([], .selfClosed, tail) := by
  rw [parseAttrs]

theorem parseAttrs_step (dec esc : Str → Str) (hq : ∀ v, '"' ∉ esc v)
    (k v more : Str) (hk : validName k = true) :
    parseAttrs dec (attrText esc (k, v) ++ more) =
      match parseAttrs dec more with
      | some (m, cl, rest) => some ((k, dec (esc v)) :: m, cl, rest)
      | none => none := by
  simp only [validName, Bool.and_eq_true, Bool.not_eq_true', List.isEmpty_eq_false_iff] at hk
  obtain ⟨hne, hall⟩ := hk
  obtain ⟨h1, h2⟩ := takeWhile_name k ('"' :: (esc v ++ '"' :: more)) '=' hall (by decide)
  have hs := splitAtChar_append (esc v) more (hq v)
  cases k with
  | nil => exact absurd rfl hne
  | cons x xs =>
    have hx : nameStop x = false := by
      simp only [List.all_cons, Bool.and_eq_true, Bool.not_eq_true'] at hall; exact hall.1
    have hx1 : x ≠ '/' := by intro e; subst e; simp [nameStop] at hx
    have hstr : attrText esc (x :: xs, v) ++ more =
        ' ' :: ((x :: xs) ++ '=' :: '"' :: (esc v ++ '"' :: more)) := by
      simp [attrText]
    rw [hstr, parseAttrs]
    split
    · rename_i s2 hd
      rw [h2] at hd
      simp only [List.cons.injEq, true_and] at hd
      subst hd
      rw [h1]
      simp only [List.isEmpty_cons, Bool.false_eq_true, ↓reduceIte]
      split
      · rename_i v' s3 hsp
        rw [hs] at hsp
        simp only [Option.some.injEq, Prod.mk.injEq] at hsp
        obtain ⟨rfl, rfl⟩ := hsp
        rfl
      · rename_i hsp; rw [hs] at hsp; simp at hsp
    · rename_i hd
      exact absurd h2 (hd _)
    · intro rest e
      simp only [List.cons_append, List.cons.injEq] at e
      exact hx1 e.1

theorem parseAttrs_render (dec esc : Str → Str) (hq : ∀ v, '"' ∉ esc v) (hd : ∀ v, dec (esc v) = v)
    (attrs : List (Str × Str)) (hv : ∀ kv ∈ attrs, validName kv.1 = true)
    (closer : Str) (cl : Closer) (tail : Str)
    (hc : parseAttrs dec (closer ++ tail) = some ([], cl, tail)) :
    parseAttrs dec (attrs.flatMap (attrText esc) ++ closer ++ tail) = some (attrs, cl, tail) := by
  induction attrs with
  | nil => simpa using hc
  | cons kv more ih =>
    obtain ⟨k, v⟩ := kv
    have hk := hv (k, v) (by simp)
    have ih' := ih (fun kv h => hv kv (by simp [h]))
    simp only [List.flatMap_cons, List.append_assoc]
    rw [parseAttrs_step dec esc hq k v _ hk]
    simp only [List.append_assoc] at ih'
    rw [ih', hd]

end Flatland.C11.Proofs

namespace Flatland.C11.Proofs
open Flatland.C11 Flatland.Markup

theorem attributeEscape_text (ch : Chain) (s : Str) :
    attributeEscape ch (.text s) = .ok (escapeChain ch s) := by
  cases s with
  | nil => simp [attributeEscape, escapeChain_nil]; rfl
  | cons x xs => rfl

theorem markupEscape_eq (ch : Chain) (s : Str) : markupEscape ch s = escapeChain ch s := by
  cases s with
  | nil => simp [markupEscape, escapeChain_nil]
  | cons x xs => rfl

/-- the item `k="esc v"` as `renderAttr` writes it -/
def itemText (esc : Str → Str) (kv : Str × Str) : Str := kv.1 ++ ['=', '"'] ++ esc kv.2 ++ ['"']

theorem renderAttrs_text (ch : Chain) (attrs : List (Str × Str)) :
    renderAttrs ch (attrs.map (fun kv => (kv.1, Val.text kv.2))) =
      .ok (attrs.map (itemText (escapeChain ch))) := by
  induction attrs with
  | nil => rfl
  | cons kv rest ih =>
    simp only [List.map_cons, renderAttrs, renderAttr, attributeEscape_text, ih, itemText]
    rfl

theorem joinSpace_flatMap (a : Str) (items : List Str) :
    ' ' :: joinSpace (a :: items) = (a :: items).flatMap (fun i => ' ' :: i) := by
  induction items generalizing a with
  | nil => simp [joinSpace]
  | cons b rest ih =>
    simp only [joinSpace, List.flatMap_cons]
    rw [← List.flatMap_cons, ← ih b]
    simp

theorem header_form (tag : Str) (items : List Str) (hne : ∀ i ∈ items, i ≠ []) :
    (if (joinSpace items).isEmpty then '<' :: tag else '<' :: tag ++ ' ' :: joinSpace items) =
      '<' :: tag ++ items.flatMap (fun i => ' ' :: i) := by
  cases items with
  | nil => simp [joinSpace]
  | cons a rest =>
    have ha : a ≠ [] := hne a (by simp)
    have : (joinSpace (a :: rest)).isEmpty = false := by
      cases rest with
      | nil => simp [joinSpace, ha]
      | cons b r => simp [joinSpace, ha]
    rw [this, ← joinSpace_flatMap]
    simp

theorem items_flatMap (esc : Str → Str) (attrs : List (Str × Str)) :
    (attrs.map (itemText esc)).flatMap (fun i => ' ' :: i) = attrs.flatMap (attrText esc) := by
  induction attrs with
  | nil => rfl
  | cons kv rest ih =>
    simp only [List.map_cons, List.flatMap_cons, ih]
    simp [itemText, attrText]

theorem renderOpen_text (ch : Chain) (tag : Str) (attrs : List (Str × Str)) :
    renderOpen ch tag (attrs.map (fun kv => (kv.1, Val.text kv.2))) =
      .ok ('<' :: tag ++ attrs.flatMap (attrText (escapeChain ch))) := by
  simp only [renderOpen, renderAttrs_text]
  have := header_form tag (attrs.map (itemText (escapeChain ch)))
  rw [items_flatMap] at this
  show (if _ then Except.ok _ else Except.ok _) = _
  rw [← this]
  · split <;> rfl
  intro i hi
  simp only [List.mem_map] at hi
  obtain ⟨kv, _, rfl⟩ := hi
  simp [itemText]

/-- what follows the tag name begins with a character that ends a name -/
theorem after_name_stop (esc : Str → Str) (attrs : List (Str × Str)) (closer tail : Str)
    (hc : closer = ['>'] ∨ closer = [' ', '/', '>']) :
    ∃ c rest, attrs.flatMap (attrText esc) ++ closer ++ tail = c :: rest ∧ nameStop c = true := by
  cases attrs with
  | nil =>
    rcases hc with rfl | rfl
    · exact ⟨'>', tail, by simp, by decide⟩
    · exact ⟨' ', '/' :: '>' :: tail, by simp, by decide⟩
  | cons kv more =>
    exact ⟨' ', _, by simp [attrText]; rfl, by decide⟩

end Flatland.C11.Proofs
