/-
C12, whole form — submission through an ACTIVATED submitter (`browserSubmit`, `Flatland/C12/Form.lean`).

A browser posts a `<button>` / `<input type=submit>` only when it is the control that was pressed.
Here: (1) a browser reads "is a submitter" off the rendered tag the same way `kwSubmitter` reads it
off the keyword arguments of the call (the transforms never touch `type`); (2) list lemmas:
with no submitter among the controls `browserSubmit` is `browserPost`, with at most one and that
one activated likewise; without an activated one the submitters' pairs are dropped.
-/
import Proofs.Lemmas.C12FormGen
namespace Flatland.C12.Proofs
open Flatland.Markup Flatland.C12 Flatland.C19.Proofs

/-! ### reading the submitter off the call -/

theorem isSubmitter_congr (tag : Str) (a a' : List (Str × Str)) (h : ∀ k, attr? a k = attr? a' k) :
    isSubmitter tag a = isSubmitter tag a' := by
  unfold isSubmitter
  simp only [h]

theorem sType_not_touched : sType ∉ touchKeys := by decide

/-- the transforms leave `type` alone, so what a browser reads is what the author wrote -/
theorem seenOf_submitter {T : Tables} {ctx : Ctx} {tag : Str} {b : Bind} {kw : Attrs} {s : Seen}
    (hnd : (Dict.keys kw).Nodup) (h : seenOf T ctx tag b kw = .ok s) : isSubmitter tag s.1 = kwSubmitter tag kw := by
  obtain ⟨st6, body, ht, _, rfl⟩ := seenOf_ok h
  have hn6 := transform_nodup hnd ht
  have hty := transform_frame sType sType_not_touched ht
  simp only at hty
  unfold isSubmitter kwSubmitter
  simp only [attr?_strAttrs _ hn6, hty]

theorem seenVia_submitter {T : Tables} {order : List Str} {g : Gen} {tag : Str} {b : Bind} {kw : Attrs} {s : Seen}
    (hk : kwStable kw) (h : seenVia T order g tag b kw = .ok s) : isSubmitter tag s.1 = kwSubmitter tag kw := by
  obtain ⟨s', hs', _, ha⟩ := seenVia_ok hk h
  rw [isSubmitter_congr tag s.1 s'.1 ha]
  exact seenOf_submitter hk.1 hs'

/-- a way of making the tag calls that shows a browser the `type` the author wrote -/
def ReadsType (see : Str → Bind → Attrs → Except PyErr Seen) : Prop :=
  ∀ tag b kw s, kwStable kw → see tag b kw = .ok s → isSubmitter tag s.1 = kwSubmitter tag kw

theorem readsType_seenOf (T : Tables) (ctx : Ctx) : ReadsType (seenOf T ctx) :=
  fun _ _ _ _ hk h => seenOf_submitter hk.1 h

theorem readsType_seenVia (T : Tables) (order : List Str) (g : Gen) : ReadsType (seenVia T order g) :=
  fun _ _ _ _ hk h => seenVia_submitter hk h

/-- a control that renders is read as a submitter exactly when its call says so -/
theorem isSub_of_posts {see : Str → Bind → Attrs → Except PyErr Seen} (hsee : ReadsType see) (c : Control)
    (hc : ControlStable c) {ps : List Pair} (h : Control.posts see c = .ok ps) : Control.isSub see c = .ok c.kwSub := by
  cases c with
  | single tag b kw =>
    obtain ⟨s, hs, _⟩ := posts_single h
    unfold Control.isSub
    simp only [bind, Except.bind, pure, Except.pure, hs, Control.kwSub]
    rw [hsee tag b kw s hc hs]
  | select b kw opts => rfl

/-! ### list lemmas -/

theorem subCount_cons {see : Str → Bind → Attrs → Except PyErr Seen} {c : Control} {cs : List Control} {s : Bool} {n : Nat}
    (h1 : Control.isSub see c = .ok s) (h2 : subCount see cs = .ok n) :
    subCount see (c :: cs) = .ok ((if s then 1 else 0) + n) := by
  simp only [subCount, bind, Except.bind, pure, Except.pure, h1, h2]

/-- the number of submitters a browser counts is the number the calls announce -/
theorem subCount_eq {see : Str → Bind → Attrs → Except PyErr Seen} (hsee : ReadsType see) :
    ∀ (cs : List Control), (∀ c ∈ cs, ControlStable c) → ∀ ps, browserPost see cs = .ok ps →
      subCount see cs = .ok (cs.countP Control.kwSub)
  | [], _, _, _ => rfl
  | c :: cs, hst, ps, h => by
    obtain ⟨p, q, hp, hq, _⟩ := postsAll_cons h
    have h1 := isSub_of_posts hsee c (hst c (List.mem_cons_self ..)) hp
    have h2 := subCount_eq hsee cs (fun c' hc' => hst c' (List.mem_cons_of_mem _ hc')) q hq
    rw [subCount_cons h1 h2, List.countP_cons]
    congr 1
    exact Nat.add_comm _ _

theorem browserSubmit_cons_plain {see : Str → Bind → Attrs → Except PyErr Seen} {c : Control} {cs : List Control}
    {p q : List Pair} (act : Option Nat) (hp : Control.posts see c = .ok p) (hs : Control.isSub see c = .ok false)
    (hq : browserSubmit see act cs = .ok q) : browserSubmit see act (c :: cs) = .ok (p ++ q) := by
  simp only [browserSubmit, bind, Except.bind, pure, Except.pure, hp, hs, hq, Bool.false_eq_true, if_false]

theorem browserSubmit_cons_pressed {see : Str → Bind → Attrs → Except PyErr Seen} {c : Control} {cs : List Control}
    {p q : List Pair} (hp : Control.posts see c = .ok p) (hs : Control.isSub see c = .ok true)
    (hq : browserSubmit see none cs = .ok q) : browserSubmit see (some 0) (c :: cs) = .ok (p ++ q) := by
  simp only [browserSubmit, bind, Except.bind, pure, Except.pure, hp, hs, hq, if_true]

theorem browserSubmit_cons_idle {see : Str → Bind → Attrs → Except PyErr Seen} {c : Control} {cs : List Control}
    {p q : List Pair} (hp : Control.posts see c = .ok p) (hs : Control.isSub see c = .ok true)
    (hq : browserSubmit see none cs = .ok q) : browserSubmit see none (c :: cs) = .ok q := by
  simp only [browserSubmit, bind, Except.bind, pure, Except.pure, hp, hs, hq, if_true]

theorem browserSubmit_cons_skip {see : Str → Bind → Attrs → Except PyErr Seen} {c : Control} {cs : List Control}
    {p q : List Pair} (k : Nat) (hp : Control.posts see c = .ok p) (hs : Control.isSub see c = .ok true)
    (hq : browserSubmit see (some k) cs = .ok q) : browserSubmit see (some (k + 1)) (c :: cs) = .ok q := by
  simp only [browserSubmit, bind, Except.bind, pure, Except.pure, hp, hs, hq, if_true]

theorem subCount_cons_inv {see : Str → Bind → Attrs → Except PyErr Seen} {c : Control} {cs : List Control} {n : Nat}
    (h : subCount see (c :: cs) = .ok n) :
    ∃ s m, Control.isSub see c = .ok s ∧ subCount see cs = .ok m ∧ n = (if s then 1 else 0) + m := by
  simp only [subCount, bind, Except.bind, pure, Except.pure] at h
  cases hs : Control.isSub see c with
  | error e => rw [hs] at h; simp at h
  | ok s =>
    rw [hs] at h; simp only at h
    cases hm : subCount see cs with
    | error e => rw [hm] at h; simp at h
    | ok m =>
      rw [hm] at h
      simp only [Except.ok.injEq] at h
      exact ⟨s, m, rfl, rfl, h.symm⟩

/-- NO SUBMITTER among the controls: whichever way the form is submitted, every control posts -/
theorem browserSubmit_of_none {see : Str → Bind → Attrs → Except PyErr Seen} :
    ∀ (cs : List Control) (ps : List Pair), subCount see cs = .ok 0 → browserPost see cs = .ok ps →
      ∀ act, browserSubmit see act cs = .ok ps
  | [], ps, _, h, act => by
    simp only [browserPost, postsAll, pure, Except.pure] at h
    cases act <;> exact h
  | c :: cs, ps, hn, h, act => by
    obtain ⟨p, q, hp, hq, rfl⟩ := postsAll_cons h
    obtain ⟨s, m, hs, hm, e⟩ := subCount_cons_inv hn
    cases s with
    | true => simp at e; omega
    | false =>
      have hm0 : m = 0 := by simp at e; omega
      subst hm0
      exact browserSubmit_cons_plain act hp hs (browserSubmit_of_none cs q hm hq act)

/-- AT MOST ONE SUBMITTER, and it is the one that was activated: every control posts -/
theorem browserSubmit_of_one {see : Str → Bind → Attrs → Except PyErr Seen} :
    ∀ (cs : List Control) (n : Nat) (ps : List Pair), subCount see cs = .ok n → n ≤ 1 → browserPost see cs = .ok ps →
      browserSubmit see (some 0) cs = .ok ps
  | [], _, ps, _, _, h => by
    simp only [browserPost, postsAll, pure, Except.pure] at h
    exact h
  | c :: cs, n, ps, hn, hle, h => by
    obtain ⟨p, q, hp, hq, rfl⟩ := postsAll_cons h
    obtain ⟨s, m, hs, hm, e⟩ := subCount_cons_inv hn
    cases s with
    | true =>
      have hm0 : m = 0 := by simp at e; omega
      subst hm0
      exact browserSubmit_cons_pressed hp hs (browserSubmit_of_none cs q hm hq none)
    | false =>
      have hm' : m ≤ 1 := by simp at e; omega
      exact browserSubmit_cons_plain (some 0) hp hs (browserSubmit_of_one cs m q hm hm' hq)

/-- submission WITHOUT an activated submitter, over a concatenation -/
theorem browserSubmit_none_append {see : Str → Bind → Attrs → Except PyErr Seen} :
    ∀ (a b : List Control) (p q : List Pair), browserSubmit see none a = .ok p → browserSubmit see none b = .ok q →
      browserSubmit see none (a ++ b) = .ok (p ++ q)
  | [], b, p, q, ha, hb => by
    simp only [browserSubmit, pure, Except.pure, Except.ok.injEq] at ha
    subst ha
    exact hb
  | c :: a, b, p, q, ha, hb => by
    simp only [browserSubmit, bind, Except.bind, pure, Except.pure] at ha
    cases hp : Control.posts see c with
    | error e => rw [hp] at ha; simp at ha
    | ok p0 =>
      rw [hp] at ha; simp only at ha
      cases hs : Control.isSub see c with
      | error e => rw [hs] at ha; simp at ha
      | ok s =>
        rw [hs] at ha; simp only at ha
        cases s with
        | true =>
          simp only [if_true] at ha
          exact browserSubmit_cons_idle hp hs (browserSubmit_none_append a b p q ha hb)
        | false =>
          simp only [Bool.false_eq_true, if_false] at ha
          cases hr : browserSubmit see none a with
          | error e => rw [hr] at ha; simp at ha
          | ok r =>
            rw [hr] at ha
            simp only [Except.ok.injEq] at ha
            subst ha
            have := browserSubmit_cons_plain none hp hs (browserSubmit_none_append a b r q hr hb)
            simpa [List.append_assoc] using this

/-- only submitters: submitted without pressing any of them, nothing is posted -/
theorem browserSubmit_none_single_sub {see : Str → Bind → Attrs → Except PyErr Seen} {c : Control} {p : List Pair}
    (hp : Control.posts see c = .ok p) (hs : Control.isSub see c = .ok true) : browserSubmit see none [c] = .ok [] :=
  browserSubmit_cons_idle hp hs rfl

/-- from a submission that went through, every control rendered -/
theorem browserPost_of_submit {see : Str → Bind → Attrs → Except PyErr Seen} :
    ∀ (cs : List Control) (act : Option Nat) (ps : List Pair), browserSubmit see act cs = .ok ps →
      ∃ ps', browserPost see cs = .ok ps'
  | [], _, _, _ => ⟨[], rfl⟩
  | c :: cs, act, ps, h => by
    simp only [browserSubmit, bind, Except.bind, pure, Except.pure] at h
    cases hp : Control.posts see c with
    | error e => rw [hp] at h; simp at h
    | ok p0 =>
      rw [hp] at h; simp only at h
      cases hs : Control.isSub see c with
      | error e => rw [hs] at h; simp at h
      | ok s =>
        rw [hs] at h; simp only at h
        have rest : ∃ act' q, browserSubmit see act' cs = .ok q := by
          cases s with
          | true =>
            simp only [if_true] at h
            cases act with
            | none => exact ⟨none, _, h⟩
            | some k =>
              cases k with
              | zero =>
                simp only at h
                cases hr : browserSubmit see none cs with
                | error e => rw [hr] at h; simp at h
                | ok r => exact ⟨none, r, hr⟩
              | succ k => exact ⟨some k, _, h⟩
          | false =>
            simp only [Bool.false_eq_true, if_false] at h
            cases hr : browserSubmit see act cs with
            | error e => rw [hr] at h; simp at h
            | ok r => exact ⟨act, r, hr⟩
        obtain ⟨act', q, hq⟩ := rest
        obtain ⟨q', hq'⟩ := browserPost_of_submit cs act' q hq
        exact ⟨p0 ++ q', postsAll_cons_ok hp hq'⟩

/-! ### the submitters the calls of a form announce = `submitters` of the tree -/

theorem kwSubmitter_input (ty : Option Str) (extra : Attrs) (hex : extraOk extra = true) :
    kwSubmitter sInput (kwInput ty extra) = submitTy ty := by
  unfold kwSubmitter
  simp only [get?_kwInput_type ty extra hex]
  have e : ¬ (sInput = "button".toList) := by decide
  cases ty with
  | none => simp only [e, if_false, Option.map_none, Option.bind_none, Option.getD_none, submitTy]; decide
  | some t =>
    simp only [e, if_false, Option.map_some, Option.bind_some, Val.str?, Option.getD_some, submitTy]
    rw [Bool.eq_iff_iff, beq_iff_eq]
    exact decide_eq_true_iff

theorem kwSubmitter_button (extra : Attrs) (hex : extraOk extra = true) : kwSubmitter sButton extra = true := by
  unfold kwSubmitter
  simp only [extraOk_get? hex mem_reserved_type]
  decide

theorem kwSubmitter_textarea (extra : Attrs) : kwSubmitter sTextarea extra = false := by
  unfold kwSubmitter
  have e1 : ¬ (sTextarea = "button".toList) := by decide
  have e2 : ¬ (sTextarea = sInput) := by decide
  simp only [e1, e2, if_false, decide_false, Bool.false_and]

theorem checkTy_not_submit (ty : Str) (h : checkTy ty = true) : asciiLower ty ≠ "submit".toList := by
  simp only [checkTy, Bool.and_eq_true, Bool.or_eq_true, beq_iff_eq] at h
  obtain ⟨h1, h2⟩ := h
  rw [h2]
  rcases h1 with h1 | h1 <;> rw [h1] <;> decide

theorem kwSubmitter_check (ty lit : Str) (extra : Attrs) (h : checkTy ty = true) :
    kwSubmitter sInput (kwCheck ty lit extra) = false := by
  unfold kwSubmitter
  have e : ¬ (sInput = "button".toList) := by decide
  simp only [get?_kwCheck_type, e, if_false, Option.bind_some, Val.str?, Option.getD_some]
  have := checkTy_not_submit ty h
  simpa using this

theorem countP_checkGroup (b : Bind) (ty : Str) (h : checkTy ty = true) : ∀ (lits : List Str) (es : List Attrs),
    (checkGroup b ty lits es).countP Control.kwSub = 0
  | [], _ => rfl
  | l :: ls, es => by
    simp only [checkGroup, List.countP_cons, Control.kwSub, kwSubmitter_check ty l _ h, countP_checkGroup b ty h ls es.tail,
      Bool.false_eq_true, if_false]

mutual
theorem countP_renderForm (T : Tables) : ∀ (t : FormTree) (pre : List (Option Str)), formOk T pre t = true →
    (renderForm pre t).countP Control.kwSub = submitters t
  | .text n u w ex, pre, hok => by
    simp only [formOk, Bool.and_eq_true] at hok
    simp only [renderForm]
    cases w with
    | input ty =>
      simp only [scalarControls, List.countP_cons, List.countP_nil, Control.kwSub,
        kwSubmitter_input ty _ (extraOk_headD hok.2), submitters]
      cases submitTy ty <;> rfl
    | textarea =>
      simp only [scalarControls, List.countP_cons, List.countP_nil, Control.kwSub, kwSubmitter_textarea, submitters,
        Bool.false_eq_true, if_false]
    | button =>
      simp only [scalarControls, List.countP_cons, List.countP_nil, Control.kwSub,
        kwSubmitter_button _ (extraOk_headD hok.2), submitters, if_true]
    | radios ty lits =>
      simp only [widgetOk, Bool.and_eq_true] at hok
      simp only [scalarControls, submitters]
      exact countP_checkGroup _ ty hok.1.2.1 lits ex
    | select lits =>
      simp only [scalarControls, List.countP_cons, List.countP_nil, Control.kwSub, submitters, Bool.false_eq_true, if_false]
  | .bool n tru u ex, pre, hok => by
    simp only [renderForm, List.countP_cons, List.countP_nil, Control.kwSub, submitters]
    have : kwSubmitter sInput ((sType, .text sCheckbox) :: ex.headD []) = false := by
      have := kwSubmitter_check sCheckbox [] (ex.headD []) (by decide)
      unfold kwSubmitter at this ⊢
      simpa [kwCheck, Dict.get?_cons] using this
    simp only [this, Bool.false_eq_true, if_false]
  | .array n strip ms w ex, pre, hok => by
    simp only [renderForm, submitters]
    cases w with
    | checkboxes => exact countP_checkGroup _ sCheckbox (by decide) ms ex
    | selectMultiple => simp only [arrayControls, List.countP_cons, List.countP_nil, Control.kwSub, Bool.false_eq_true, if_false]
  | .joined n u ms ty ex, pre, hok => by
    simp only [formOk, Bool.and_eq_true] at hok
    simp only [renderForm, List.countP_cons, List.countP_nil, Control.kwSub,
      kwSubmitter_input ty _ (extraOk_headD hok.2), submitters]
    cases submitTy ty <;> rfl
  | .dict n fields, pre, hok => by
    simp only [formOk] at hok
    simp only [renderForm, submitters]
    exact countP_renderFields T fields (pre ++ [n]) hok
  | .list n members, pre, hok => by
    simp only [formOk] at hok
    simp only [renderForm, submitters]
    exact countP_renderSlots T members (pre ++ [n]) 0 hok
theorem countP_renderFields (T : Tables) : ∀ (ts : List FormTree) (pre : List (Option Str)), fieldsOk T pre ts = true →
    (renderFields pre ts).countP Control.kwSub = submittersL ts
  | [], _, _ => rfl
  | t :: ts, pre, hok => by
    simp only [fieldsOk, Bool.and_eq_true] at hok
    simp only [renderFields, List.countP_append, submittersL, countP_renderForm T t pre hok.1,
      countP_renderFields T ts pre hok.2]
theorem countP_renderSlots (T : Tables) : ∀ (ts : List FormTree) (pre : List (Option Str)) (i : Nat),
    slotsOk T pre i ts = true → (renderSlots pre i ts).countP Control.kwSub = submittersL ts
  | [], _, _, _ => rfl
  | t :: ts, pre, i, hok => by
    simp only [slotsOk, Bool.and_eq_true] at hok
    simp only [renderSlots, List.countP_append, submittersL, countP_renderForm T t _ hok.1,
      countP_renderSlots T ts pre (i + 1) hok.2]
end

end Flatland.C12.Proofs
