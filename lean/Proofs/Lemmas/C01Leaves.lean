/-
C01: the round trip for scalar leaves, joined values and arrays of scalars.
-/
import Proofs.Lemmas.C01Keys
namespace Flatland.Flat.Proofs
open Flatland.Flat Flatland.Flat.Spec

variable {env : Env} {sep : Str} {T : Str → Prop}

/-- the round-trip statement for one schema -/
def RT (env : Env) (sep : Str) (s : Schema) : Prop :=
  ∀ e, Ok env s e → setFlat env sep s (blank s) (toKeys sep (relFlat (resolve env s e))) = e

theorem tokKey_name (sep : Str) (nm : Option Str) : (tokKey sep nm.toList == nm) = true := by
  cases nm with
  | none => rfl
  | some x => simp [tokKey, joinSep]

theorem relFlat_leaf (nm : Option Str) (cfl : Bool) (u : Str) (kids : List FNode)
    (h : cfl = false ∨ kids = []) :
    relFlat (.mk nm true cfl u false kids) = [(nm.toList, u)] := by
  rw [relFlat_eq]
  have hp : pushed ([], FNode.mk nm true cfl u false kids) = [] := by
    simp only [pushed, FNode.cfl]
    rcases h with h | h
    · simp [h]
    · subst h; cases cfl <;> simp [childItems, kidsFrom, FNode.kids]
  rw [hp, bfsPath_nil]
  simp [ownPath, FNode.fl, namePath, FNode.name, FNode.u]

theorem rt_leaf (nm : Option Str) (o : Bool) (k : Nat) : RT env sep (.leaf nm o k) := by
  intro e hok
  cases e with
  | leaf u =>
    simp only [Ok] at hok
    have hr : resolve env (.leaf nm o k) (.leaf u) = .mk nm true true u false [] := by
      unfold resolve; rfl
    rw [hr, relFlat_leaf nm true u [] (Or.inr rfl)]
    simp only [toKeys, List.map_cons, List.map_nil, setFlat, List.find?_cons, tokKey_name, hok]
  | _ => simp [Ok] at hok

theorem rt_joined (nm : Option Str) (o : Bool) (k : Nat) (m : Schema) : RT env sep (.joined nm o k m) := by
  intro e hok
  cases e with
  | joined u ms =>
    simp only [Ok] at hok
    have hr : resolve env (.joined nm o k m) (.joined u ms)
        = .mk nm true false u false (resolveList env m ms) := by
      unfold resolve; rfl
    rw [hr, relFlat_leaf nm false u _ (Or.inl rfl)]
    simp only [toKeys, List.map_cons, List.map_nil, setFlat, List.find?_cons, tokKey_name, hok.1]
    rw [← hok.2]
  | _ => simp [Ok] at hok

/-! ### arrays of scalars -/

theorem bfsPath_leaves (p : List Str) (cn : Option Str) (us : List Str) :
    bfsPath (us.map (fun u => ((p, FNode.mk cn true true u false []) : QItem)))
      = us.map (fun u => (p ++ cn.toList, u)) := by
  rw [bfsPath_level]
  have h1 : (us.map (fun u => ((p, FNode.mk cn true true u false []) : QItem))).flatMap pushed = [] := by
    induction us with
    | nil => simp
    | cons u us ih => simp [List.flatMap_cons, pushed, childItems, kidsFrom, FNode.kids, FNode.cfl, ih]
  rw [h1, bfsPath_nil, List.append_nil]
  clear h1
  induction us with
  | nil => simp
  | cons u us ih =>
    simp only [List.map_cons, List.flatMap_cons, ih]
    simp [ownPath, FNode.fl, namePath, FNode.name, FNode.u]

/-- texts of the members of an array of scalars -/
def leafTexts : List Elem → List Str
  | [] => []
  | .leaf u :: es => u :: leafTexts es
  | _ :: es => leafTexts es

theorem resolveList_leaves (env : Env) (cn : Option Str) (o : Bool) (k : Nat) (ms : List Elem)
    (h : ∀ e ∈ ms, Ok env (.leaf cn o k) e) :
    resolveList env (.leaf cn o k) ms = (leafTexts ms).map (fun u => FNode.mk cn true true u false [])
    ∧ ms = (leafTexts ms).map Elem.leaf ∧ ∀ u ∈ leafTexts ms, env.norm k u = u := by
  induction ms with
  | nil => simp [resolveList, leafTexts]
  | cons e es ih =>
    have he := h e (by simp)
    have ih' := ih (fun x hx => h x (List.mem_cons_of_mem _ hx))
    cases e with
    | leaf u =>
      simp only [Ok] at he
      refine ⟨?_, ?_, ?_⟩
      · simp only [resolveList, leafTexts, List.map_cons, ih'.1]
        congr 1
        unfold resolve; rfl
      · simp only [leafTexts, List.map_cons]; rw [← ih'.2.1]
      · intro v hv
        simp only [leafTexts, List.mem_cons] at hv
        rcases hv with rfl | hv
        · exact he
        · exact ih'.2.2 v hv
    | _ => simp [Ok] at he

theorem setFlat_leaf_single (env : Env) (sep : Str) (cn : Option Str) (o : Bool) (k : Nat) (u : Str)
    (hu : env.norm k u = u) :
    setFlat env sep (.leaf cn o k) (blank (.leaf cn o k)) [(cn, u)] = .leaf u := by
  simp [setFlat, hu]

theorem arrayAnon_leaves (sep : Str) (setM : Pairs → Elem) (cn : Option Str)
    (hcn : ∀ c, cn = some c → c ≠ []) (us : List Str) (hset : ∀ u ∈ us, setM [(cn, u)] = .leaf u) :
    arrayAnon setM false cn (us.map (fun u => (tokKey sep cn.toList, u))) = us.map Elem.leaf := by
  induction us with
  | nil => simp [arrayAnon]
  | cons u us ih =>
    have ih' := ih (fun v hv => hset v (List.mem_cons_of_mem _ hv))
    have hu := hset u (by simp)
    simp only [List.map_cons, arrayAnon, Bool.false_and, Bool.false_eq_true, if_false, ih']
    cases cn with
    | none =>
      simp only [Option.toList, tokKey, truthy]
      simp [hu]
    | some c =>
      have hc := hcn c rfl
      have htr : truthy (some c) = true := by
        cases c with
        | nil => exact absurd rfl hc
        | cons a as => rfl
      have hk : tokKey sep (some c).toList = some c := by simp [tokKey, joinSep]
      have hne : (some c == some ([] : Str)) = false := by
        simp; exact hc
      simp only [hk, hne, Bool.false_eq_true, if_false, htr, bne_self_eq_false, Bool.and_false,
        Bool.not_true, Bool.false_and, hu]

theorem arrayRemainder_self (hs : SepSafe env sep T) (x : Str) :
    arrayRemainder sep x x = some none := by
  unfold arrayRemainder
  have h1 : isPrefix x x = true := (isPrefix_iff _ _).mpr ⟨[], by simp⟩
  have h2 : isPrefix sep [] = false := by
    cases hsep : sep with
    | nil => exact absurd hsep hs.sep_ne
    | cons c r => rfl
  simp [h1, h2]

theorem arrayRemainder_member (x c : Str) (hc : c ≠ []) :
    arrayRemainder sep x (x ++ sep ++ c) = some (some c) := by
  unfold arrayRemainder
  have h1 : isPrefix x (x ++ sep ++ c) = true := by rw [List.append_assoc]; exact isPrefix_append _ _
  have h2 : (x ++ sep ++ c).drop x.length = sep ++ c := by rw [List.append_assoc]; exact drop_append_length _ _
  have h3 : c.isEmpty = false := by cases c with | nil => exact absurd rfl hc | cons a as => rfl
  simp [h1, h2, isPrefix_append, h3]

theorem arrayNamed_leaves (hs : SepSafe env sep T) (setM : Pairs → Elem) (x : Str) (cn : Option Str)
    (hcn : ∀ c, cn = some c → c ≠ []) (us : List Str) (hset : ∀ u ∈ us, setM [(cn, u)] = .leaf u) :
    arrayNamed setM sep false x cn (us.map (fun u => (tokKey sep (x :: cn.toList), u)))
      = us.map Elem.leaf := by
  induction us with
  | nil => simp [arrayNamed]
  | cons u us ih =>
    have ih' := ih (fun v hv => hset v (List.mem_cons_of_mem _ hv))
    have hu := hset u (by simp)
    rw [List.map_cons, arrayNamed_cons, ih', List.map_cons]
    have : arrayNamed setM sep false x cn [(tokKey sep (x :: cn.toList), u)] = [Elem.leaf u] := by
      simp only [arrayNamed, tokKey_cons]
      cases cn with
      | none =>
        simp only [Option.toList, joinSep_single, arrayRemainder_self hs x]
        simp [truthy, hu]
      | some c =>
        have hc := hcn c rfl
        have htr : truthy (some c) = true := by
          cases c with
          | nil => exact absurd rfl hc
          | cons a as => rfl
        have hj : joinSep sep (x :: (some c).toList) = x ++ sep ++ c := by simp [joinSep]
        simp only [hj, arrayRemainder_member x c hc, htr]
        simp [hu]
    rw [this]; rfl

theorem rt_array (hs : SepSafe env sep T) (nm : Option Str) (hnm : ∀ x, nm = some x → x ≠ [])
    (o prune : Bool) (member : Schema) (hmn : ∀ c, member.name = some c → c ≠ []) :
    RT env sep (.array nm o prune member) := by
  intro e hok
  cases e with
  | array ms =>
    simp only [Ok] at hok
    obtain ⟨hprune, ⟨cn, mo, k, hm⟩, hmem⟩ := hok
    subst hprune; subst hm
    simp only [Schema.name] at hmn
    obtain ⟨hkids, hms, hnorm⟩ := resolveList_leaves env cn mo k ms hmem
    have hr : resolve env (.array nm o false (.leaf cn mo k)) (.array ms)
        = .mk nm false true [] false (resolveList env (.leaf cn mo k) ms) := by
      unfold resolve; rfl
    rw [hr, relFlat_eq]
    simp only [ownPath, FNode.fl, Bool.false_eq_true, if_false, List.nil_append, pushed, FNode.cfl,
      if_true, childItems, FNode.slots, FNode.kids, namePath, FNode.name, List.nil_append]
    rw [kidsFrom_noslots, hkids, List.map_map]
    have := bfsPath_leaves nm.toList cn (leafTexts ms)
    simp only [Function.comp_def] at this ⊢
    rw [this]
    have hset : ∀ u ∈ leafTexts ms,
        (fun g => setFlat env sep (.leaf cn mo k) (blank (.leaf cn mo k)) g) [(cn, u)] = .leaf u :=
      fun u hu => setFlat_leaf_single env sep cn mo k u (hnorm u hu)
    simp only [toKeys, List.map_map, Function.comp_def]
    rw [setFlat]
    simp only [Schema.name]
    conv => rhs; rw [hms]
    cases nm with
    | none =>
      simp only [truthy, Bool.not_false, if_true]
      exact congrArg Elem.array (arrayAnon_leaves sep _ cn hmn _ hset)
    | some x =>
      have hx := hnm x rfl
      have htr : truthy (some x) = true := by
        cases x with
        | nil => exact absurd rfl hx
        | cons a as => rfl
      simp only [htr, Bool.not_true, Bool.false_eq_true, if_false, Option.getD_some]
      exact congrArg Elem.array (arrayNamed_leaves hs _ x cn hmn _ hset)
  | _ => simp [Ok] at hok

end Flatland.Flat.Proofs
