/-
C01 with SparseDicts — groundwork: the FIRST layer of `_set_flat` alone drops the pairs of
prefix-sharing siblings.

For schemas without SparseDicts the dense proof uses `confined_filter` (C02: a pair that addresses
nothing has no effect), which is false of SparseDicts (KF-C02-b).  What the round trip needs is less:
`reach s key` — the key passes the element's own first test (exact name for a scalar, `name+sep`
prefix for a mapping, the index regex for a List, the Array regex) — and

* `reach_filter`: pairs that do not pass that first test have no effect, for EVERY schema and state
  (no well-formedness, SparseDicts included);
* `reach_other_head`: under `SepSafe`, a key whose first token is a sibling's name does not pass it.
-/
import Proofs.Lemmas.C01PDict
import Flatland.Spec.C01Sparse
namespace Flatland.Flat.Proofs
open Flatland.Flat Flatland.Flat.Spec

variable {env : Env} {sep : Str} {T : Str → Prop}

/-- does `key` pass the first test `_set_flat` of an element of schema `s` applies? -/
def reach (env : Env) (sep : Str) : Schema → Key → Bool
  | .leaf name _ _, key => key == name
  | .joined name _ _ _, key => key == name
  | .dict name _ _ _, key =>
    match key with
    | none => false
    | some k => (stripName sep name k).isSome
  | .compound name _ _ _, key =>
    match key with
    | none => false
    | some k => (stripName sep name k).isSome
  | .list name _ _ _ _, key => (listAddr env sep name key).isSome
  | .array name _ _ member, key =>
    if !truthy name then arrayAddrAnon member.name key
    else arrayAddrNamed sep (name.getD []) member.name key

theorem filterMap_filter_none {α β} (p : α → Bool) (f : α → Option β) (l : List α)
    (h : ∀ x ∈ l, p x = false → f x = none) : (l.filter p).filterMap f = l.filterMap f := by
  induction l with
  | nil => rfl
  | cons a as ih =>
    have iha := ih (fun x hx => h x (List.mem_cons_of_mem _ hx))
    by_cases hp : p a = true
    · simp only [List.filter_cons, hp, if_true, List.filterMap_cons, iha]
    · have hp' : p a = false := by simpa using hp
      simp only [List.filter_cons, hp', Bool.false_eq_true, if_false, List.filterMap_cons,
        h a (by simp) hp', iha]

theorem find?_filter_self {α} (p : α → Bool) (l : List α) : (l.filter p).find? p = l.find? p := by
  induction l with
  | nil => rfl
  | cons a as ih =>
    by_cases hp : p a = true
    · simp [List.filter_cons, hp]
    · have hp' : p a = false := by simpa using hp
      simp [List.filter_cons, hp', ih]

theorem possibles_nil (sep : Str) (name : Option Str) : possibles sep name [] = [] := by
  cases name <;> simp [possibles]

theorem possibles_filter (sep : Str) (name : Option Str) (ps : Pairs) :
    possibles sep name (ps.filter (fun p => match p.1 with
      | none => false
      | some k => (stripName sep name k).isSome)) = possibles sep name ps := by
  induction ps with
  | nil => rfl
  | cons x xs ih =>
    obtain ⟨key, v⟩ := x
    rw [show (key, v) :: xs = [(key, v)] ++ xs from rfl, possibles_append, List.filter_append,
      possibles_append, ih]
    congr 1
    cases key with
    | none => simp [possibles_single, possibles_nil]
    | some k =>
      cases hst : stripName sep name k with
      | none =>
        simp only [hst, Option.isSome_none, List.filter_cons, Bool.false_eq_true, if_false,
          List.filter_nil]
        rw [possibles_single, possibles_nil]; simp only [hst]
      | some r => simp [hst]

theorem arrayAnon_filter (setM : Pairs → Elem) (prune : Bool) (cn : Option Str) (ps : Pairs) :
    arrayAnon setM prune cn (ps.filter (fun p => arrayAddrAnon cn p.1)) = arrayAnon setM prune cn ps := by
  induction ps with
  | nil => rfl
  | cons x xs ih =>
    obtain ⟨key, v⟩ := x
    rw [arrayAnon_cons setM prune cn (key, v) xs]
    by_cases h : arrayAddrAnon cn key = true
    · simp only [List.filter_cons, h, if_true]
      rw [arrayAnon_cons, ih]
    · have h' : arrayAddrAnon cn key = false := by simpa using h
      simp only [List.filter_cons, h', Bool.false_eq_true, if_false]
      rw [arrayAnon_stray setM prune cn key v h', ih]; rfl

theorem arrayNamed_filter (setM : Pairs → Elem) (sep : Str) (prune : Bool) (name : Str)
    (cn : Option Str) (ps : Pairs) :
    arrayNamed setM sep prune name cn (ps.filter (fun p => arrayAddrNamed sep name cn p.1))
      = arrayNamed setM sep prune name cn ps := by
  induction ps with
  | nil => rfl
  | cons x xs ih =>
    obtain ⟨key, v⟩ := x
    rw [arrayNamed_cons setM sep prune name cn (key, v) xs]
    by_cases h : arrayAddrNamed sep name cn key = true
    · simp only [List.filter_cons, h, if_true]
      rw [arrayNamed_cons, ih]
    · have h' : arrayAddrNamed sep name cn key = false := by simpa using h
      simp only [List.filter_cons, h', Bool.false_eq_true, if_false]
      rw [arrayNamed_stray setM sep prune name cn key v h', ih]; rfl

theorem indexesOf_filter (env : Env) (sep : Str) (name : Option Str) (prune : Bool) (ps : Pairs) :
    indexesOf env sep name prune (ps.filter (fun p => (listAddr env sep name p.1).isSome))
      = indexesOf env sep name prune ps := by
  unfold indexesOf
  apply filterMap_filter_none
  intro x _ hx
  have : listAddr env sep name x.1 = none := by simpa using hx
  simp [this]

theorem groupOf_filter (env : Env) (sep : Str) (name : Option Str) (prune : Bool) (i : Nat) (ps : Pairs) :
    groupOf env sep name prune i (ps.filter (fun p => (listAddr env sep name p.1).isSome))
      = groupOf env sep name prune i ps := by
  unfold groupOf
  apply filterMap_filter_none
  intro x _ hx
  have : listAddr env sep name x.1 = none := by simpa using hx
  simp [this]

/-- **first-layer confinement**, for every schema (SparseDicts included) and every state: pairs whose
    key does not pass the element's own first test have no effect. -/
theorem reach_filter (env : Env) (sep : Str) (s : Schema) (e : Elem) (ps : Pairs) :
    setFlat env sep s e ps = setFlat env sep s e (ps.filter (fun p => reach env sep s p.1)) := by
  cases s with
  | leaf name o k =>
    simp only [setFlat, reach]
    rw [find?_filter_self (fun p : Key × Str => p.1 == name)]
  | joined name o k m =>
    simp only [setFlat, reach]
    rw [find?_filter_self (fun p : Key × Str => p.1 == name)]
  | dict name o mode fields =>
    simp only [setFlat, reach, possibles_filter]
  | compound name o k fields =>
    simp only [setFlat, reach, possibles_filter]
  | list name o prune mx member =>
    simp only [setFlat, reach, indexesOf_filter, groupOf_filter]
    by_cases h1 : ps.isEmpty = true
    · have : ps = [] := by simpa using h1
      subst this; simp
    · by_cases h2 : (ps.filter (fun p => (listAddr env sep name p.1).isSome)).isEmpty = true
      · have h3 : ps.filter (fun p => (listAddr env sep name p.1).isSome) = [] := by simpa using h2
        have h4 : indexesOf env sep name prune ps = [] := by
          rw [← indexesOf_filter, h3]; rfl
        simp [h1, h4]
      · simp only [h1, h2]
  | array name o prune member =>
    simp only [setFlat, reach]
    by_cases ht : truthy name = true
    · simp only [ht, Bool.not_true, Bool.false_eq_true, if_false, arrayNamed_filter]
    · have ht' : truthy name = false := by simpa using ht
      simp only [ht', Bool.not_false, if_true, arrayAnon_filter]

/-- a stray sibling: a key whose first token is another name does not even pass the first test -/
theorem reach_other_head (hs : SepSafe env sep T) (f : Schema) (x : Str) (hfn : f.name = some x)
    (hx : T x) (t : Str) (ht : T t) (hne : t ≠ x) (rest : List Str) :
    reach env sep f (some (joinSep sep (t :: rest))) = false := by
  have hxne := hs.tok_ne x hx
  have hnoeq : joinSep sep (t :: rest) ≠ x := by
    intro he
    exact hne (joinSep_eq_tok hs hx rest he).2
  have hnopre : isPrefix (x ++ sep) (joinSep sep (t :: rest)) = false := by
    apply Bool.eq_false_iff.mpr
    intro hp
    exact hne (prefix_tok_sep hs hx ht rest hp).1.symm
  cases f with
  | leaf n o k =>
    simp only [Schema.name] at hfn; subst hfn
    simp only [reach]
    simpa using hnoeq
  | joined n o k m =>
    simp only [Schema.name] at hfn; subst hfn
    simp only [reach]
    simpa using hnoeq
  | dict n o mode fields =>
    simp only [Schema.name] at hfn; subst hfn
    simp [reach, stripName, hnopre]
  | compound n o k fields =>
    simp only [Schema.name] at hfn; subst hfn
    simp [reach, stripName, hnopre]
  | list n o prune mx member =>
    simp only [Schema.name] at hfn; subst hfn
    have htr : truthy (some x) = true := by
      cases x with
      | nil => exact absurd rfl hxne
      | cons c cs => rfl
    simp [reach, listAddr, htr, hnopre]
  | array n o prune member =>
    simp only [Schema.name] at hfn; subst hfn
    have h := addr_other_head hs (.array (some x) o prune member) x rfl hx t ht hne rest
    simpa only [addr, reach] using h

end Flatland.Flat.Proofs
