/-
`sig` (the `(value, u)` an element compares by) is blind to ids, parent pointers, keys and
renumbering; wrapping a plain value by a scalar member schema yields the adapted value.
-/
import Flatland.Tree
import Proofs.Lemmas.TreeHdr
namespace Flatland.Tree
open Flatland.PyList

@[simp] theorem sig_withParent (n : Node) (p : Option Nat) : sig (n.withParent p) = sig n := by
  cases n with
  | mk i s kids => simp [Node.withParent, sig, Node.ni, Node.sch, Node.kids]

@[simp] theorem sig_withKey (n : Node) (k : Str) : sig (n.withKey k) = sig n := by
  cases n with
  | mk i s kids => simp [Node.withKey, sig, Node.ni, Node.sch, Node.kids]

@[simp] theorem sig_mkSlot (id lst nm : Nat) (el : Node) : sig (mkSlot id lst nm el) = sig el := by
  simp [mkSlot, sig, slotSchema, Schema.kind, Schema.info, sigFirst]

theorem sig_slot (i : NInfo) (s : Schema) (el : Node) (rest : List Node) (h : s.kind = .slot) :
    sig (.mk i s (el :: rest)) = sig el := by
  simp [sig, h, sigFirst]

theorem map_sig_renumberFrom (k : Nat) (l : List Node) : (renumberFrom k l).map sig = l.map sig := by
  induction l generalizing k with
  | nil => rfl
  | cons x xs ih => simp [renumberFrom, ih]

@[simp] theorem map_sig_renumber (l : List Node) : (renumber l).map sig = l.map sig :=
  map_sig_renumberFrom 0 l

@[simp] theorem length_renumberFrom (k : Nat) (l : List Node) : (renumberFrom k l).length = l.length := by
  induction l generalizing k with
  | nil => rfl
  | cons x xs ih => simp [renumberFrom, ih]

@[simp] theorem length_renumber (l : List Node) : (renumber l).length = l.length := length_renumberFrom 0 l

theorem map_key_renumberFrom (k : Nat) (l : List Node) :
    (renumberFrom k l).map Node.key = (List.range' k l.length).map (fun j => (toString j).toList) := by
  induction l generalizing k with
  | nil => rfl
  | cons x xs ih =>
    simp only [renumberFrom, List.map_cons, List.length_cons, List.range'_succ, ih]
    cases x; rfl

theorem map_key_renumber (l : List Node) :
    (renumber l).map Node.key = (List.range l.length).map (fun j => (toString j).toList) := by
  rw [renumber, map_key_renumberFrom, List.range_eq_range']

/-- a scalar class: Integer or String -/
def ScalarSchema (m : Schema) : Prop := m.kind = .integer ∨ m.kind = .string

/-- `element.set(raw)` on a scalar element -/
theorem setNode_scalar (el : Node) (hk : el.sch.kind = .integer ∨ el.sch.kind = .string) (raw : Raw)
    (pol : Option Policy) (next : Nat) (v : Val) (u : Str) (ok : Bool)
    (ha : adaptScalar el.sch.kind raw = some (v, u, ok)) :
    (setNode el raw pol next).res = .ok ok ∧ (setNode el raw pol next).next = next ∧
      sig (setNode el raw pol next).node = .sc v u ∧ (setNode el raw pol next).node.kids = el.kids := by
  cases el with
  | mk i s kids =>
    simp only [Node.sch] at hk ha
    rcases hk with hk | hk
    · unfold setNode
      simp only [hk] at ha ⊢
      simp only [ha]
      simp [sig, hk, Node.kids]
    · unfold setNode
      simp only [hk] at ha ⊢
      simp only [ha]
      simp [sig, hk, Node.kids]

/-- `member_schema(value=raw)` for a scalar member schema: a fresh detached element holding the
    adapted `(value, u)` -/
theorem construct_scalar (m : Schema) (hm : ScalarSchema m) (raw : Raw) (parent : Option Nat) (key : Str)
    (next : Nat) (v : Val) (u : Str) (ok : Bool) (ha : adaptScalar m.kind raw = some (v, u, ok)) :
    ∃ w, construct m raw parent key next = (.ok w, next + 1) ∧ sig w = .sc v u ∧
      w.hdr = (next, parent, m, key, none, none) ∧ w.kids = [] := by
  have hb : (blank m parent key next) = (.mk { id := next, parent := parent, key := key } m [], next + 1) := by
    cases m with
    | mk info dflt subs =>
      have hk : info.kind = .integer ∨ info.kind = .string := hm
      unfold blank
      rcases hk with hk | hk <;> simp [hk]
  have hs := setNode_scalar (.mk { id := next, parent := parent, key := key } m []) hm raw none (next + 1) v u ok ha
  obtain ⟨h1, h2, h3, h4⟩ := hs
  refine ⟨(setNode (.mk { id := next, parent := parent, key := key } m []) raw none (next + 1)).node, ?_, h3, ?_, h4⟩
  · unfold construct
    simp only [hb, h1, h2]
  · rw [setNode_hdr]; rfl

end Flatland.Tree
