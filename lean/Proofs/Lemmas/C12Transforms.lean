/-
Symbolic evaluation of the transforms for the control kinds of C12.
`Enabled/Disabled`: what `_pop_toggle` answers for a tag that carries no option of its own.
-/
import Flatland.C12
import Proofs.Lemmas.C19Transforms
namespace Flatland.C12.Proofs
open Flatland.Markup Flatland.C12 Flatland.C19.Proofs

/-- with no option on the tag, the transform is applied (not forced) -/
def Enabled (T : Tables) (ctx : Ctx) (key : Str) : Prop :=
  ∀ attrs : Attrs, Dict.get? attrs key = none → popToggle T key attrs ctx = .ok (Dict.erase attrs key, true, false)

/-- with no option on the tag, the transform is skipped -/
def Disabled (T : Tables) (ctx : Ctx) (key : Str) : Prop :=
  ∀ attrs : Attrs, Dict.get? attrs key = none → popToggle T key attrs ctx = .ok (Dict.erase attrs key, false, false)

theorem erase_absent (d : Attrs) (k : Str) (h : Dict.get? d k = none) : Dict.erase d k = d := by
  induction d with
  | nil => rfl
  | cons p rest ih =>
    obtain ⟨k0, v0⟩ := p
    by_cases h0 : k0 = k
    · subst h0; simp [Dict.get?_cons] at h
    · simp only [Dict.get?_cons, h0, if_false] at h
      simp [Dict.erase, h0, ih h]

/-- `get?` of a key other than the ones a step touches -/
macro "frame_leaves" h:ident hs:ident : tactic =>
  `(tactic| (repeat' split at $h:ident) <;> first
      | (simp at $h:ident; done)
      | (simp only [pure, Except.pure, Except.ok.injEq] at $h:ident; subst $h:ident; simp only [$hs:ident, toggleAttr];
         (repeat' split) <;>
         simp only [Dict.get?_set_other _ _ _ _ (by assumption), Dict.get?_erase_other _ _ _ (by assumption)]))

/-- the id transform leaves every attribute other than `id` (and its option) alone -/
theorem transformDomid_frame {T : Tables} {tag : Str} {bnd : Option Bind} {st st' : TState} (k : Str)
    (h : transformDomid T tag bnd st = .ok st') (h1 : k ≠ sId) (h2 : k ≠ "auto_domid".toList) :
    Dict.get? st'.attrs k = Dict.get? st.attrs k ∧ st'.contents = st.contents := by
  unfold transformDomid at h
  simp only [bind, Except.bind, pure, Except.pure] at h
  cases hp : popToggle T "auto_domid".toList st.attrs st.ctx with
  | error e => rw [hp] at h; simp at h
  | ok r =>
    have hs := popToggle_shape hp
    rw [hp] at h; simp only at h
    repeat' split at h
    all_goals first
      | (simp at h; done)
      | (simp only [pure, Except.pure, Except.ok.injEq] at h; subst h; simp only [hs];
         refine ⟨?_, by first | rfl | trivial⟩
         first
           | rw [Dict.get?_set_other _ _ _ _ h1, Dict.get?_erase_other _ _ _ h2]
           | rw [Dict.get?_erase_other _ _ _ h2])

theorem transformFor_frame {T : Tables} {tag : Str} {bnd : Option Bind} {st st' : TState} (k : Str)
    (h : transformFor T tag bnd st = .ok st') (h1 : k ≠ sFor) (h2 : k ≠ "auto_for".toList)
    (h3 : tag ≠ sLabel ∨ k ≠ sValue) :
    Dict.get? st'.attrs k = Dict.get? st.attrs k ∧ st'.contents = st.contents := by
  unfold transformFor at h
  simp only [bind, Except.bind, pure, Except.pure] at h
  cases hp : popToggle T "auto_for".toList st.attrs st.ctx with
  | error e => rw [hp] at h; simp at h
  | ok r =>
    have hs := popToggle_shape hp
    rw [hp] at h; simp only at h
    rcases h3 with h3 | h3
    · repeat' split at h
      all_goals first
        | (simp at h; done)
        | (exfalso; apply h3; assumption)
        | (simp only [pure, Except.pure, Except.ok.injEq] at h; subst h; simp only [hs];
           refine ⟨?_, by first | rfl | trivial⟩
           simp only [Dict.get?_set_other _ _ _ _ h1, Dict.get?_erase_other _ _ _ h2])
    · repeat' split at h
      all_goals first
        | (simp at h; done)
        | (simp only [pure, Except.pure, Except.ok.injEq] at h; subst h; simp only [hs];
           refine ⟨?_, by first | rfl | trivial⟩
           simp only [Dict.get?_set_other _ _ _ _ h1, Dict.get?_erase_other _ _ _ h2,
             Dict.get?_erase_other _ _ _ h3])

theorem transformTabindex_frame {T : Tables} {tag : Str} {bnd : Option Bind} {st st' : TState} (k : Str)
    (h : transformTabindex T tag bnd st = .ok st') (h1 : k ≠ sTabindex) (h2 : k ≠ "auto_tabindex".toList) :
    Dict.get? st'.attrs k = Dict.get? st.attrs k ∧ st'.contents = st.contents := by
  unfold transformTabindex at h
  simp only [bind, Except.bind, pure, Except.pure] at h
  cases hp : popToggle T "auto_tabindex".toList st.attrs st.ctx with
  | error e => rw [hp] at h; simp at h
  | ok r =>
    have hs := popToggle_shape hp
    rw [hp] at h; simp only at h
    repeat' split at h
    all_goals first
      | (simp at h; done)
      | (simp only [pure, Except.pure, Except.ok.injEq] at h; subst h; simp only [hs];
         refine ⟨?_, by first | rfl | trivial⟩
         first
           | rw [Dict.get?_set_other _ _ _ _ h1, Dict.get?_erase_other _ _ _ h2]
           | rw [Dict.get?_erase_other _ _ _ h2])

theorem transformFilters_frame {T : Tables} {tag : Str} {bnd : Option Bind} {st st' : TState} (k : Str)
    (h : transformFilters T tag bnd st = .ok st') (h2 : k ≠ "auto_filter".toList) :
    Dict.get? st'.attrs k = Dict.get? st.attrs k ∧ st'.contents = st.contents := by
  unfold transformFilters at h
  simp only [bind, Except.bind, pure, Except.pure] at h
  cases hp : popToggle T "auto_filter".toList st.attrs st.ctx with
  | error e => rw [hp] at h; simp at h
  | ok r =>
    have hs := popToggle_shape hp
    rw [hp] at h; simp only at h
    repeat' split at h
    all_goals first
      | (simp at h; done)
      | (simp only [pure, Except.pure, Except.ok.injEq] at h; subst h; simp only [hs];
         refine ⟨?_, by first | rfl | trivial⟩
         rw [Dict.get?_erase_other _ _ _ h2])

end Flatland.C12.Proofs

namespace Flatland.C12.Proofs
open Flatland.Markup Flatland.C12 Flatland.C19.Proofs

/-- the name transform leaves every attribute other than `name` (and its option) alone -/
theorem transformName_frame {T : Tables} {tag : Str} {bnd : Option Bind} {st st' : TState} (k : Str)
    (h : transformName T tag bnd st = .ok st') (h1 : k ≠ sName) (h2 : k ≠ "auto_name".toList) :
    Dict.get? st'.attrs k = Dict.get? st.attrs k := by
  unfold transformName at h
  simp only [bind, Except.bind, pure, Except.pure] at h
  cases hp : popToggle T "auto_name".toList st.attrs st.ctx with
  | error e => rw [hp] at h; simp at h
  | ok r =>
    have hs := popToggle_shape hp
    rw [hp] at h; simp only at h
    repeat' split at h
    all_goals first
      | (simp at h; done)
      | (simp only [pure, Except.pure, Except.ok.injEq] at h; subst h; simp only [hs]
         first
           | rw [Dict.get?_set_other _ _ _ _ h1, Dict.get?_erase_other _ _ _ h2]
           | rw [Dict.get?_erase_other _ _ _ h2])

/-- the value transform leaves every attribute other than value / checked / selected alone -/
theorem transformValue_frame {T : Tables} {tag : Str} {bnd : Option Bind} {st st' : TState} (k : Str)
    (h : transformValue T tag bnd st = .ok st') (h1 : k ≠ sValue) (h2 : k ≠ "auto_value".toList)
    (h3 : k ≠ sChecked) (h4 : k ≠ sSelected) :
    Dict.get? st'.attrs k = Dict.get? st.attrs k := by
  unfold transformValue at h
  simp only [bind, Except.bind, pure, Except.pure] at h
  cases hp : popToggle T "auto_value".toList st.attrs st.ctx with
  | error e => rw [hp] at h; simp at h
  | ok r =>
    have hs := popToggle_shape hp
    rw [hp] at h; simp only at h
    repeat' split at h
    all_goals first
      | (simp at h; done)
      | (simp only [pure, Except.pure, Except.ok.injEq] at h; subst h; simp only [hs, toggleAttr]
         (repeat' split) <;>
         simp only [Dict.get?_set_other _ _ _ _ h1, Dict.get?_set_other _ _ _ _ h3, Dict.get?_set_other _ _ _ _ h4,
           Dict.get?_erase_other _ _ _ h2, Dict.get?_erase_other _ _ _ h3, Dict.get?_erase_other _ _ _ h4])

/-- names the transforms may write or delete: the generated attributes and the six options -/
def touchKeys : List Str := generatedKeys ++ optionKeys

/-- AUTHOR ATTRIBUTES PASS THROUGH: an attribute whose name is none of the generated ones
    (name, value, id, for, tabindex, checked, selected) nor an option reaches the serialiser exactly as
    the author gave it — whatever the tag, the bind and the context -/
theorem transform_frame {T : Tables} {tag : Str} {bnd : Option Bind} {st st6 : TState} (k : Str)
    (hk : k ∉ touchKeys) (h : transform T tag bnd st = .ok st6) :
    Dict.get? st6.attrs k = Dict.get? st.attrs k := by
  simp only [touchKeys, generatedKeys, optionKeys, List.cons_append, List.nil_append, List.mem_cons, List.not_mem_nil,
    or_false, not_or] at hk
  obtain ⟨k1, k2, k3, k4, k5, k6, k7, o1, o2, o3, o4, o5, o6⟩ := hk
  unfold transform at h
  simp only [bind, Except.bind] at h
  cases h1 : transformName T tag bnd st with
  | error e => rw [h1] at h; simp at h
  | ok s1 =>
    rw [h1] at h; simp only at h
    cases h2 : transformValue T tag bnd s1 with
    | error e => rw [h2] at h; simp at h
    | ok s2 =>
      rw [h2] at h; simp only at h
      cases h3 : transformDomid T tag bnd s2 with
      | error e => rw [h3] at h; simp at h
      | ok s3 =>
        rw [h3] at h; simp only at h
        cases h4 : transformFor T tag bnd s3 with
        | error e => rw [h4] at h; simp at h
        | ok s4 =>
          rw [h4] at h; simp only at h
          cases h5 : transformTabindex T tag bnd s4 with
          | error e => rw [h5] at h; simp at h
          | ok s5 =>
            rw [h5] at h; simp only at h
            rw [(transformFilters_frame k h o6).1, (transformTabindex_frame k h5 k5 o5).1,
              (transformFor_frame k h4 k4 o4 (Or.inr k2)).1, (transformDomid_frame k h3 k3 o3).1,
              transformValue_frame k h2 k2 o2 k6 k7, transformName_frame k h1 k1 o1]

/-- attributes a browser reads from a control; none of the later transforms writes them -/
def controlKeys : List Str := [sName, sValue, sType, sChecked, sSelected]

/-- id / for / tabindex / filter transforms do not touch what the control posts -/
theorem later_frame {T : Tables} {tag : Str} {bnd : Option Bind} {s2 s3 s4 s5 s6 : TState} (k : Str)
    (hk : k ∈ controlKeys) (hl : tag ≠ sLabel)
    (h3 : transformDomid T tag bnd s2 = .ok s3) (h4 : transformFor T tag bnd s3 = .ok s4)
    (h5 : transformTabindex T tag bnd s4 = .ok s5) (h6 : transformFilters T tag bnd s5 = .ok s6) :
    Dict.get? s6.attrs k = Dict.get? s2.attrs k ∧ s6.contents = s2.contents := by
  have hne : k ≠ sId ∧ k ≠ "auto_domid".toList ∧ k ≠ sFor ∧ k ≠ "auto_for".toList ∧ k ≠ sTabindex ∧
      k ≠ "auto_tabindex".toList ∧ k ≠ "auto_filter".toList := by
    simp only [controlKeys, List.mem_cons, List.not_mem_nil, or_false] at hk
    rcases hk with rfl | rfl | rfl | rfl | rfl <;> decide
  obtain ⟨a1, a2, a3, a4, a5, a6, a7⟩ := hne
  obtain ⟨e3, c3⟩ := transformDomid_frame k h3 a1 a2
  obtain ⟨e4, c4⟩ := transformFor_frame k h4 a3 a4 (Or.inl hl)
  obtain ⟨e5, c5⟩ := transformTabindex_frame k h5 a5 a6
  obtain ⟨e6, c6⟩ := transformFilters_frame k h6 a7
  exact ⟨by rw [e6, e5, e4, e3], by rw [c6, c5, c4, c3]⟩

/-- the name transform on a tag it applies to, without a `name` attribute: `name` := flattened name -/
theorem transformName_on (T : Tables) (tag : Str) (b : Bind) (st : TState)
    (hen : Enabled T st.ctx "auto_name".toList) (hopt : Dict.get? st.attrs "auto_name".toList = none)
    (hname : b.flatName ≠ []) (hno : Dict.get? st.attrs sName = none) (htag : T.autoTag sName tag = true) :
    transformName T tag (some b) st = .ok { st with attrs := Dict.set st.attrs sName (.text b.flatName) } := by
  have hp := hen st.attrs hopt
  rw [erase_absent _ _ hopt] at hp
  have hne : b.flatName.isEmpty = false := by simpa using hname
  unfold transformName
  simp only [bind, Except.bind, pure, Except.pure]
  rw [hp]
  simp [hne, hno, htag]


/-- an `<input>` type whose value attribute is the element's text -/
def textLike (ty : Val) : Bool :=
  !(ty.eqStr "radio".toList || ty.eqStr "checkbox".toList || ty.eqStr "password".toList ||
    ty.eqStr "file".toList || ty.eqStr "image".toList)

theorem transformValue_textlike (T : Tables) (b : Bind) (st : TState)
    (hen : Enabled T st.ctx "auto_value".toList) (hopt : Dict.get? st.attrs "auto_value".toList = none)
    (hty : textLike ((Dict.get? st.attrs sType).getD (.text [])).lowerKw = true)
    (hno : Dict.get? st.attrs sValue = none) (htag : T.autoTag sValue sInput = true) :
    transformValue T sInput (some b) st = .ok { st with attrs := Dict.set st.attrs sValue (.text b.u) } := by
  have hp := hen st.attrs hopt
  rw [erase_absent _ _ hopt] at hp
  simp only [textLike, Bool.not_eq_true', Bool.or_eq_false_iff] at hty
  obtain ⟨⟨⟨⟨t1, t2⟩, t3⟩, t4⟩, t5⟩ := hty
  unfold transformValue
  simp only [bind, Except.bind, pure, Except.pure]
  rw [hp]
  simp only [Bool.not_true, Bool.false_eq_true, ↓reduceIte, htag, Bool.not_false, Bool.and_false, Bool.and_true,
    Bool.true_and, Bool.false_and, t1, t2, t3, t4, t5, Bool.or_self, Bool.or_false, hno, Option.isNone_none, Bool.true_or]

theorem transformValue_plain (T : Tables) (tag : Str) (b : Bind) (st : TState)
    (hen : Enabled T st.ctx "auto_value".toList) (hopt : Dict.get? st.attrs "auto_value".toList = none)
    (h1 : tag ≠ sInput) (h2 : tag ≠ sOption) (h3 : tag ≠ sTextarea)
    (hno : Dict.get? st.attrs sValue = none) (htag : T.autoTag sValue tag = true) :
    transformValue T tag (some b) st = .ok { st with attrs := Dict.set st.attrs sValue (.text b.u) } := by
  have hp := hen st.attrs hopt
  rw [erase_absent _ _ hopt] at hp
  unfold transformValue
  simp only [bind, Except.bind, pure, Except.pure]
  rw [hp]
  simp only [Bool.not_true, Bool.false_eq_true, ↓reduceIte, htag, Bool.not_false, Bool.and_false,
    h1, h2, h3, hno, Option.isNone_none, Bool.or_false]

theorem transformValue_textarea (T : Tables) (b : Bind) (st : TState)
    (hen : Enabled T st.ctx "auto_value".toList) (hopt : Dict.get? st.attrs "auto_value".toList = none)
    (hc : st.contents = none) (htag : T.autoTag sValue sTextarea = true) :
    transformValue T sTextarea (some b) st =
      .ok { st with contents := some (.markup (Flatland.C11.markupEscape T.textChain b.u)) } := by
  have hp := hen st.attrs hopt
  rw [erase_absent _ _ hopt] at hp
  unfold transformValue
  simp only [bind, Except.bind, pure, Except.pure]
  rw [hp]
  have e1 : sTextarea ≠ sInput := by decide
  have e2 : sTextarea ≠ sOption := by decide
  simp only [Bool.not_true, Bool.false_eq_true, ↓reduceIte, htag, Bool.not_false, Bool.and_false,
    e1, e2, hc, Option.isNone_none, Bool.or_false]

theorem transformValue_check (T : Tables) (b : Bind) (st : TState) (ty lit : Val)
    (hen : Enabled T st.ctx "auto_value".toList) (hopt : Dict.get? st.attrs "auto_value".toList = none)
    (hty : Dict.get? st.attrs sType = some ty)
    (hck : (ty.lowerKw.eqStr "radio".toList || ty.lowerKw.eqStr "checkbox".toList) = true)
    (hlit : Dict.get? st.attrs sValue = some lit) (hkind : ∀ s ms, b.kind ≠ .array s ms)
    (htag : T.autoTag sValue sInput = true) :
    transformValue T sInput (some b) st =
      .ok { st with attrs := toggleAttr st.attrs sChecked (lit.eqStr b.u) } := by
  have hp := hen st.attrs hopt
  rw [erase_absent _ _ hopt] at hp
  have hm : b.matches T (some lit) = .ok (lit.eqStr b.u) := by
    unfold Bind.matches
    cases hk : b.kind with
    | scalar => rfl
    | boolean t => rfl
    | array s ms => exact absurd hk (hkind s ms)
  unfold transformValue
  simp only [bind, Except.bind, pure, Except.pure]
  rw [hp]
  simp only [Bool.not_true, Bool.false_eq_true, ↓reduceIte, htag, Bool.not_false, Bool.and_false,
    hty, Option.getD_some, hck, hlit]
  simp only [ite_self, hm]

/-- the same for ANY bind kind, in terms of `current in bind` / `current == bind.u` (`Bind.matches`) -/
theorem transformValue_check_gen (T : Tables) (b : Bind) (st : TState) (ty lit : Val)
    (hen : Enabled T st.ctx "auto_value".toList) (hopt : Dict.get? st.attrs "auto_value".toList = none)
    (hty : Dict.get? st.attrs sType = some ty)
    (hck : (ty.lowerKw.eqStr "radio".toList || ty.lowerKw.eqStr "checkbox".toList) = true)
    (hlit : Dict.get? st.attrs sValue = some lit) (m : Bool) (hm : b.matches T (some lit) = .ok m)
    (htag : T.autoTag sValue sInput = true) :
    transformValue T sInput (some b) st =
      .ok { st with attrs := toggleAttr st.attrs sChecked m } := by
  have hp := hen st.attrs hopt
  rw [erase_absent _ _ hopt] at hp
  unfold transformValue
  simp only [bind, Except.bind, pure, Except.pure]
  rw [hp]
  simp only [Bool.not_true, Bool.false_eq_true, ↓reduceIte, htag, Bool.not_false, Bool.and_false,
    hty, Option.getD_some, hck, hlit]
  simp only [ite_self, hm]


/-- the name transform does nothing to a tag outside its table (no option on the tag) -/
theorem transformName_skip (T : Tables) (tag : Str) (bnd : Option Bind) (st : TState)
    (hen : Enabled T st.ctx "auto_name".toList) (hopt : Dict.get? st.attrs "auto_name".toList = none)
    (htag : T.autoTag sName tag = false) :
    transformName T tag bnd st = .ok st := by
  have hp := hen st.attrs hopt
  rw [erase_absent _ _ hopt] at hp
  unfold transformName
  simp only [bind, Except.bind, pure, Except.pure]
  rw [hp]
  cases bnd with
  | none => rfl
  | some b =>
    simp only [Bool.not_true, Bool.false_eq_true, if_false, htag, Bool.and_false, Bool.or_self]
    split <;> rfl

/-- an `<option>` with a `value` attribute: `selected` is set exactly when the value matches -/
theorem transformValue_option (T : Tables) (b : Bind) (st : TState) (lit : Val) (m : Bool)
    (hen : Enabled T st.ctx "auto_value".toList) (hopt : Dict.get? st.attrs "auto_value".toList = none)
    (hlit : Dict.get? st.attrs sValue = some lit) (hm : b.matches T (some lit) = .ok m)
    (htag : T.autoTag sValue sOption = true) :
    transformValue T sOption (some b) st = .ok { st with attrs := toggleAttr st.attrs sSelected m } := by
  have hp := hen st.attrs hopt
  rw [erase_absent _ _ hopt] at hp
  unfold transformValue
  simp only [bind, Except.bind, pure, Except.pure]
  rw [hp]
  have e1 : sOption ≠ sInput := by decide
  simp only [Bool.not_true, Bool.false_eq_true, ↓reduceIte, htag, Bool.not_false, Bool.and_false, e1, hlit, hm]

/-- a checkbox WITHOUT `value=` bound to a Boolean: `value` becomes `bind.true`, `checked` is set
    exactly when the element's text is that value -/
theorem transformValue_boolcheck (T : Tables) (b : Bind) (st : TState) (ty : Val) (tru : Str)
    (hen : Enabled T st.ctx "auto_value".toList) (hopt : Dict.get? st.attrs "auto_value".toList = none)
    (hty : Dict.get? st.attrs sType = some ty) (hck : ty.lowerKw.eqStr "checkbox".toList = true)
    (hno : Dict.get? st.attrs sValue = none) (hkind : b.kind = .boolean tru)
    (htag : T.autoTag sValue sInput = true) :
    transformValue T sInput (some b) st =
      .ok { st with attrs := toggleAttr (Dict.set st.attrs sValue (.text tru)) sChecked (tru == b.u) } := by
  have hp := hen st.attrs hopt
  rw [erase_absent _ _ hopt] at hp
  have hm : b.matches T (some (.text tru)) = .ok (tru == b.u) := by
    unfold Bind.matches; rw [hkind]; rfl
  unfold transformValue
  simp only [bind, Except.bind, pure, Except.pure]
  rw [hp]
  simp only [Bool.not_true, Bool.false_eq_true, ↓reduceIte, htag, Bool.not_false, Bool.and_false,
    hty, Option.getD_some, hck, Bool.or_true, hno, hkind, hm]

end Flatland.C12.Proofs
