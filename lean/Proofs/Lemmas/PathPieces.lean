/-
`findall` on a path written as a sequence of *pieces* — `/`, a clean name run (this includes the
texts `.` and `..`), or a bracket token `[content]` whose content is in the slice language — in
any order the printer of Spec/C14 can produce (a name run only at the start or after a `/`).
-/
import Flatland.Path
import Proofs.Lemmas.PathScan
namespace Flatland.Path.Lemmas
open Flatland.Path

inductive Piece
  | slash
  | seg (s : Str)
  | br (content : Str)
  deriving Repr

def Piece.text : Piece → Str
  | .slash => ['/']
  | .seg s => s
  | .br c => '[' :: c ++ [']']

def Piece.raw : Piece → RawTok
  | .slash => (['/'], [])
  | .seg s => (s, [])
  | .br c => ('[' :: c ++ [']'], c)

def piecesText (ps : List Piece) : Str := ps.flatMap Piece.text

/-- kind of the piece before -/
inductive PK | start | slash | seg | br
  deriving DecidableEq

def Piece.kind : Piece → PK
  | .slash => .slash
  | .seg _ => .seg
  | .br _ => .br

/-- bracket contents: no `]`, in the slice language, not ending in a backslash -/
def BrOK (c : Str) : Prop := (∀ x ∈ c, x ≠ ']') ∧ sliceLang c = true ∧ c.getLast? ≠ some '\\'

def PiecesOK : PK → List Piece → Prop
  | _, [] => True
  | pk, .slash :: r => pk ≠ .slash ∧ PiecesOK .slash r
  | pk, .seg s :: r => (pk = .start ∨ pk = .slash) ∧ s ≠ [] ∧ cleanB r.isEmpty s = true ∧ PiecesOK .seg r
  | _, .br c :: r => BrOK c ∧ PiecesOK .br r

/-- the text after a name run or a bracket token starts with `/` or `[`, or is empty -/
theorem piecesText_stop (pk : PK) (hpk : pk = .seg ∨ pk = .br) : ∀ ps : List Piece, PiecesOK pk ps →
    SlashOrEnd (piecesText ps)
  | [], _ => Or.inl rfl
  | .slash :: r, _ => Or.inr ⟨piecesText r, Or.inl (by simp [piecesText, Piece.text])⟩
  | .br c :: r, _ => Or.inr ⟨c ++ [']'] ++ piecesText r, Or.inr (by simp [piecesText, Piece.text])⟩
  | .seg s :: r, h => by
    simp only [PiecesOK] at h
    rcases hpk with e | e <;> (subst e; rcases h.1 with h1 | h1 <;> cases h1)

theorem bracketLookahead_stop (t : Str) (h : SlashOrEnd t) : bracketLookahead t = true := by
  rcases h with h | ⟨t', h | h⟩
  · subst h; rfl
  · subst h
    unfold bracketLookahead
    split
    · rfl
    · rfl
    · next c _ heq => injection heq with h1 _; subst h1; rfl
  · subst h
    unfold bracketLookahead
    split
    · rfl
    · rfl
    · next c _ heq => injection heq with h1 _; subst h1; rfl

theorem takeWhile_content (c after : Str) (h : ∀ x ∈ c, x ≠ ']') :
    (c ++ ']' :: after).takeWhile (· != ']') = c := by
  induction c with
  | nil => simp
  | cons x r ih =>
    have hx : x ≠ ']' := h x (by simp)
    simp only [List.cons_append, List.takeWhile_cons, bne_iff_ne, ne_eq, hx, not_false_eq_true, decide_true,
      if_true, ih (fun y hy => h y (by simp [hy]))]

/-- one bracket token -/
theorem scanStep_bracket (prev : Option Char) (c after : Str) (hp : prev ≠ some '\\') (hb : BrOK c)
    (ha : SlashOrEnd after) :
    scanStep prev '[' (c ++ ']' :: after) = (some ('[' :: c ++ [']'], c), c.length + 1) := by
  obtain ⟨h1, h2, h3⟩ := hb
  unfold scanStep
  have h0 : nameRunLen ('[' :: (c ++ ']' :: after)) = 0 := by rw [nameRunLen_cons]; simp
  have hne : (('[' : Char) == '/') = false := by decide
  simp only [h0, ne_eq, not_true_eq_false, if_false, hne, Bool.false_eq_true, takeWhile_content c after h1]
  have hprev : (prev != some '\\') = true := by
    cases prev with
    | none => rfl
    | some p =>
      simp only [ne_eq, Option.some.injEq] at hp
      simp [hp]
  have hclosed : ((c ++ ']' :: after).drop c.length).head? = some ']' := by simp
  have hafter : (c ++ ']' :: after).drop (c.length + 1) = after := by
    rw [show c ++ ']' :: after = (c ++ [']']) ++ after by simp]
    exact List.drop_left' (by simp)
  have hlast : (c.getLast? != some '\\') = true := by simpa using h3
  simp [hprev, hclosed, hafter, bracketLookahead_stop after ha, hlast, h2]

theorem getD_bracket (c after : Str) (x : Char) :
    ('[' :: (c ++ ']' :: after)).getD (c.length + 1) x = ']' := by
  simp [List.getD_cons_succ, List.getD_eq_getElem?_getD]

/-- **`findall` on a piece sequence** -/
theorem scan_pieces : ∀ (ps : List Piece) (prev : Option Char) (pk : PK), PiecesOK pk ps →
    prev ≠ some '\\' → scan prev (piecesText ps) = ps.map Piece.raw
  | [], prev, _, _, _ => by simp [piecesText, scan]
  | .slash :: r, prev, pk, hok, hp => by
    simp only [PiecesOK] at hok
    simp only [piecesText, List.flatMap_cons, Piece.text, List.cons_append, List.nil_append, List.map_cons,
      Piece.raw]
    rw [scan_cons, scanStep_slash prev _ hp]
    simp only [List.drop_zero, Option.toList, List.singleton_append]
    congr 1
    exact scan_pieces r _ .slash hok.2 (by simp)
  | .seg s :: r, prev, pk, hok, hp => by
    simp only [PiecesOK] at hok
    obtain ⟨_, hne, hc, hrest⟩ := hok
    cases s with
    | nil => exact absurd rfl hne
    | cons c t =>
      by_cases hr : r = []
      · -- the last piece: nothing follows, a lone trailing backslash is harmless
        subst hr
        simp only [List.isEmpty_nil] at hc
        simp only [piecesText, List.flatMap_cons, List.flatMap_nil, Piece.text, List.append_nil, List.map_cons,
          List.map_nil, Piece.raw]
        rw [scan_cons]
        have := scanStep_seg true prev c t [] hc (Or.inl rfl) (fun _ => rfl)
        simp only [List.append_nil] at this
        rw [this]
        simp [scan]
      · have he : r.isEmpty = false := by
          cases r with
          | nil => exact absurd rfl hr
          | cons _ _ => rfl
        rw [he] at hc
        have hstop := piecesText_stop .seg (Or.inl rfl) r hrest
        simp only [piecesText, List.flatMap_cons, Piece.text, List.cons_append, List.map_cons, Piece.raw]
        rw [scan_cons]
        have := scanStep_seg false prev c t (piecesText r) hc hstop (fun h => by cases h)
        simp only [piecesText] at this
        rw [this]
        simp only [List.drop_left', Option.toList, List.singleton_append]
        congr 1
        have hprev : (some ((c :: (t ++ List.flatMap Piece.text r)).getD t.length c)) ≠ some '\\' := by
          rw [getD_last]
          have hl := clean_getLast _ (c :: t) (Nat.le_refl _) hc
          cases hg : (c :: t).getLast? with
          | none => simp at hg
          | some x =>
            rw [hg] at hl
            simpa using hl
        exact scan_pieces r _ .seg hrest hprev
  | .br c :: r, prev, pk, hok, hp => by
    simp only [PiecesOK] at hok
    obtain ⟨hb, hrest⟩ := hok
    have hstop := piecesText_stop .br (Or.inr rfl) r hrest
    have htext : piecesText (.br c :: r) = '[' :: (c ++ ']' :: piecesText r) := by
      simp [piecesText, Piece.text]
    rw [htext, scan_cons, scanStep_bracket prev c (piecesText r) hp hb hstop]
    simp only [Option.toList, List.singleton_append, List.map_cons, Piece.raw]
    congr 1
    rw [getD_bracket]
    have hdrop : (c ++ ']' :: piecesText r).drop (c.length + 1) = piecesText r := by
      rw [show c ++ ']' :: piecesText r = (c ++ [']']) ++ piecesText r by simp]
      exact List.drop_left' (by simp)
    rw [hdrop]
    exact scan_pieces r _ .br hrest (by simp)

end Flatland.Path.Lemmas
