/-
C01 with SparseDicts, second clause groundwork: what `from_flat(flatten(e))` rebuilds (`prS`) holds the
members of every mapping in normal order (`sparseNormal`: minimum members first, then declaration
order) — whatever the state it was rebuilt from; so does a fresh element.
-/
import Proofs.Lemmas.C01SparseSecondOk
namespace Flatland.Flat.Proofs
open Flatland.Flat Flatland.Flat.Spec

variable {env : Env} {sep : Str}

/-! ### ranks of declared fields -/

theorem fieldIdx_le (k : Str) (fs : List Schema) : fieldIdx k fs ≤ fs.length := by
  induction fs with
  | nil => simp [fieldIdx]
  | cons f fs ih =>
    simp only [fieldIdx, List.length_cons]
    split <;> omega

/-- under distinct names the declared fields have strictly increasing positions -/
theorem fieldIdx_pairwise (fs : List Schema) (hnd : (namesOf fs).Nodup)
    (hsome : ∀ g ∈ fs, g.name.isSome) :
    fs.Pairwise (fun f g => fieldIdx (nmOf f) fs < fieldIdx (nmOf g) fs) := by
  induction fs with
  | nil => exact List.Pairwise.nil
  | cons g gs ih =>
    simp only [namesOf, List.nodup_cons] at hnd
    have hsome' : ∀ x ∈ gs, x.name.isSome := fun x hx => hsome x (List.mem_cons_of_mem _ hx)
    have hg : g.name = some (nmOf g) := name_eq_nmOf hsome (List.mem_cons_self ..)
    have hother : ∀ f ∈ gs, fieldIdx (nmOf f) (g :: gs) = fieldIdx (nmOf f) gs + 1 := by
      intro f hf
      have hne : g.name ≠ some (nmOf f) := by
        intro heq
        apply hnd.1
        rw [heq, ← name_eq_nmOf hsome' hf]
        exact mem_namesOf hf
      simp only [fieldIdx, hne, if_false]
    have hself : fieldIdx (nmOf g) (g :: gs) = 0 := by
      simp only [fieldIdx, hg, if_true]
    apply List.Pairwise.cons
    · intro f hf
      rw [hself, hother f hf]; omega
    · refine List.Pairwise.imp_of_mem ?_ (ih hnd.2 hsome')
      intro a b ha hb hab
      rw [hother a ha, hother b hb]; omega

theorem memberRank_field {fields : List Schema} (hnd : (namesOf fields).Nodup)
    (hsome : ∀ g ∈ fields, g.name.isSome) (req : Schema → Bool) {f : Schema} (hf : f ∈ fields) :
    memberRank req fields (nmOf f)
      = (if req f then 0 else fields.length + 1) + fieldIdx (nmOf f) fields := by
  unfold memberRank
  rw [findField_unique hnd hf (name_eq_nmOf hsome hf)]

/-! ### the rebuilt mapping is in normal order -/

theorem rankSorted_pick (fields : List Schema) (hnd : (namesOf fields).Nodup)
    (hsome : ∀ g ∈ fields, g.name.isSome) (req : Schema → Bool) (keys : List (Str × Str))
    (V : Schema → Elem) :
    rankSorted req fields (pickV req keys V true fields ++ pickV req keys V false fields) = true := by
  unfold rankSorted
  rw [decide_eq_true_eq]
  have hmap : ∀ R : List (Str × Elem), R.map (fun p => memberRank req fields p.1)
      = (R.map (·.1)).map (memberRank req fields) := by
    intro R; rw [List.map_map]; rfl
  rw [hmap, List.map_append, pickV_keys_filter, pickV_keys_filter, List.map_append, List.map_map, List.map_map]
  have hpw := fieldIdx_pairwise fields hnd hsome
  have hA := hpw.sublist (List.filter_sublist (p := pickSel req keys true))
  have hB := hpw.sublist (List.filter_sublist (p := pickSel req keys false))
  have hrA : ∀ f ∈ fields.filter (pickSel req keys true),
      memberRank req fields (nmOf f) = fieldIdx (nmOf f) fields := by
    intro f hf
    obtain ⟨hf1, hf2⟩ := List.mem_filter.mp hf
    simp only [pickSel, if_true] at hf2
    rw [memberRank_field hnd hsome req hf1, hf2]; simp
  have hrB : ∀ f ∈ fields.filter (pickSel req keys false),
      memberRank req fields (nmOf f) = fields.length + 1 + fieldIdx (nmOf f) fields := by
    intro f hf
    obtain ⟨hf1, hf2⟩ := List.mem_filter.mp hf
    simp only [pickSel, Bool.false_eq_true, if_false, Bool.and_eq_true, Bool.not_eq_true'] at hf2
    rw [memberRank_field hnd hsome req hf1, hf2.1]; simp
  apply List.pairwise_append.mpr
  refine ⟨?_, ?_, ?_⟩
  · rw [List.pairwise_map]
    refine List.Pairwise.imp_of_mem ?_ hA
    intro a b ha hb hab
    simp only [Function.comp]
    rw [hrA a ha, hrA b hb]; exact hab
  · rw [List.pairwise_map]
    refine List.Pairwise.imp_of_mem ?_ hB
    intro a b ha hb hab
    simp only [Function.comp]
    rw [hrB a ha, hrB b hb]; omega
  · intro a ha b hb
    obtain ⟨f, hf, rfl⟩ := List.mem_map.mp ha
    obtain ⟨g, hg, rfl⟩ := List.mem_map.mp hb
    simp only [Function.comp]
    rw [hrA f hf, hrB g hg]
    have := fieldIdx_le (nmOf f) fields
    omega

theorem sparseNormalMs_pick (fields : List Schema) (hnd : (namesOf fields).Nodup)
    (hsome : ∀ g ∈ fields, g.name.isSome) (req : Schema → Bool) (keys : List (Str × Str))
    (V : Schema → Elem) (hV : ∀ f ∈ fields, sparseNormal f (V f) = true)
    (hB : ∀ f ∈ fields, sparseNormal f (blank f) = true) :
    ∀ fs : List Schema, (∀ f ∈ fs, f ∈ fields) →
      sparseNormalMs fs (pickV req keys V true fields ++ pickV req keys V false fields) = true := by
  intro fs
  induction fs with
  | nil => intro _; simp [sparseNormalMs]
  | cons f fs ih =>
    intro hsub
    have hf : f ∈ fields := hsub f (List.mem_cons_self ..)
    simp only [sparseNormalMs, Bool.and_eq_true]
    refine ⟨?_, ih (fun g hg => hsub g (List.mem_cons_of_mem _ hg))⟩
    cases hl : lookup (f.name.getD []) (pickV req keys V true fields ++ pickV req keys V false fields) with
    | none => rfl
    | some e =>
      obtain ⟨a, b, hab, _⟩ := lookup_some_split hl
      have hp : (f.name.getD [], e) ∈ pickV req keys V true fields ++ pickV req keys V false fields := by
        rw [hab]; simp
      have : ∃ g ∈ fields, nmOf f = nmOf g ∧ (e = V g ∨ e = blank g) := by
        rcases List.mem_append.mp hp with hp | hp
        · obtain ⟨g, hg, _, h⟩ := pickV_mem req keys V true fields _ hp
          exact ⟨g, hg, h⟩
        · obtain ⟨g, hg, _, h⟩ := pickV_mem req keys V false fields _ hp
          exact ⟨g, hg, h⟩
      obtain ⟨g, hg, hk, hv⟩ := this
      have := field_eq_of_nmOf hnd hsome hf hg hk
      subst this
      rcases hv with hv | hv
      · simp only [hv]; exact hV f hf
      · simp only [hv]; exact hB f hf

/-- **mappings.**  What the field loop leaves is in normal order when every rebuilt member and every
    fresh member is. -/
theorem normal_pick (fields : List Schema) (hnd : (namesOf fields).Nodup)
    (hsome : ∀ g ∈ fields, g.name.isSome) (req : Schema → Bool) (keys : List (Str × Str))
    (V : Schema → Elem) (hV : ∀ f ∈ fields, sparseNormal f (V f) = true)
    (hB : ∀ f ∈ fields, sparseNormal f (blank f) = true) :
    (rankSorted req fields (pickV req keys V true fields ++ pickV req keys V false fields)
      && sparseNormalMs fields (pickV req keys V true fields ++ pickV req keys V false fields)) = true := by
  rw [Bool.and_eq_true]
  exact ⟨rankSorted_pick fields hnd hsome req keys V,
    sparseNormalMs_pick fields hnd hsome req keys V hV hB fields (fun f hf => hf)⟩

/-! ### a fresh element is in normal order -/

theorem sparseNormal_blank : ∀ s : Schema, wf s = true → sparseNormal s (blank s) = true := by
  intro s
  induction s using schema_ind with
  | hleaf nm o k => intro _; simp [sparseNormal]
  | hjoined nm o k m => intro _; simp [sparseNormal]
  | hdict nm o mode fields ih =>
    intro hw
    simp only [wf, Bool.and_eq_true] at hw
    have hnd : (namesOf fields).Nodup := by simpa using hw.2
    have hsome := allSome_of fields hw.1.2
    have hB : ∀ f ∈ fields, sparseNormal f (blank f) = true := fun f hf =>
      ih f hf (wf_of_mem hw.1.1 f hf)
    rw [blank_dict_members, blankSel_eq_pick (isReq mode) blank fields]
    simp only [sparseNormal]
    exact normal_pick fields hnd hsome (isReq mode) [] blank hB hB
  | hcompound nm o k fields ih =>
    intro hw
    simp only [wf, Bool.and_eq_true] at hw
    have hnd : (namesOf fields).Nodup := by simpa using hw.2
    have hsome := allSome_of fields hw.1.2
    have hB : ∀ f ∈ fields, sparseNormal f (blank f) = true := fun f hf =>
      ih f hf (wf_of_mem hw.1.1 f hf)
    simp only [blank]
    rw [blankFields_sel, blankSel_eq_pick (fun _ => true) blank fields]
    simp only [sparseNormal]
    exact normal_pick fields hnd hsome (fun _ => true) [] blank hB hB
  | hlist nm o p mx member ih => intro _; simp [blank, sparseNormal]
  | harray nm o p member ih => intro _; simp [sparseNormal]

/-! ### `prS` rebuilds in normal order -/

/-- **the rebuilt state is in normal order** — from any state whatever, conforming or not. -/
theorem prS_sparseNormal_any : ∀ s : Schema, wf s = true →
    ∀ (u : Bool) (e : Elem), sparseNormal s (prS env sep u s e) = true := by
  intro s
  induction s using schema_ind with
  | hleaf nm o k => intro _ u e; simp [sparseNormal]
  | hjoined nm o k m => intro _ u e; simp [sparseNormal]
  | hdict nm o mode fields ih =>
    intro hw u e
    cases e with
    | dict ms =>
      simp only [wf, Bool.and_eq_true] at hw
      have hnd : (namesOf fields).Nodup := by simpa using hw.2
      have hsome := allSome_of fields hw.1.2
      have hB : ∀ f ∈ fields, sparseNormal f (blank f) = true := fun f hf =>
        sparseNormal_blank f (wf_of_mem hw.1.1 f hf)
      have hV : ∀ f ∈ fields, sparseNormal f (valS env sep u ms f) = true := by
        intro f hf
        unfold valS
        cases hl : lookup (f.name.getD []) ms with
        | none => exact hB f hf
        | some e' => exact ih f hf (wf_of_mem hw.1.1 f hf) u e'
      simp only [prS, sparseNormal]
      rw [prSPick_eq, prSPick_eq]
      exact normal_pick fields hnd hsome _ _ _ hV hB
    | _ => simp [prS, sparseNormal]
  | hcompound nm o k fields ih =>
    intro hw u e
    cases e with
    | dict ms =>
      simp only [wf, Bool.and_eq_true] at hw
      have hnd : (namesOf fields).Nodup := by simpa using hw.2
      have hsome := allSome_of fields hw.1.2
      have hB : ∀ f ∈ fields, sparseNormal f (blank f) = true := fun f hf =>
        sparseNormal_blank f (wf_of_mem hw.1.1 f hf)
      have hV : ∀ f ∈ fields, sparseNormal f (valS env sep u ms f) = true := by
        intro f hf
        unfold valS
        cases hl : lookup (f.name.getD []) ms with
        | none => exact hB f hf
        | some e' => exact ih f hf (wf_of_mem hw.1.1 f hf) u e'
      simp only [prS, sparseNormal]
      rw [prSPick_eq, prSPick_eq]
      exact normal_pick fields hnd hsome _ _ _ hV hB
    | _ => simp [prS, sparseNormal]
  | hlist nm o p mx member ih =>
    intro hw u e
    simp only [wf] at hw
    cases e with
    | list ms =>
      simp only [prS]
      split
      · simp only [sparseNormal]
        apply List.all_eq_true.mpr
        intro x hx
        obtain ⟨m, _, rfl⟩ := List.mem_map.mp hx
        exact ih hw true m
      · simp only [sparseNormal]
        apply List.all_eq_true.mpr
        intro x hx
        obtain ⟨m, _, rfl⟩ := List.mem_map.mp hx
        cases hem : emitsB env u member m with
        | true => simp only [if_true]; exact ih hw u m
        | false =>
          simp only [Bool.false_eq_true, if_false]
          exact sparseNormal_blank member hw
    | _ => simp [prS, sparseNormal]
  | harray nm o p member ih => intro _ u e; simp [sparseNormal]

/-- the statement as asked for (the `OkS` hypothesis is not needed) -/
theorem prS_sparseNormal : ∀ s : Schema, wf s = true →
    ∀ (u : Bool) (e : Elem), OkS env s e → sparseNormal s (prS env sep u s e) = true :=
  fun s hw u e _ => prS_sparseNormal_any s hw u e

end Flatland.Flat.Proofs
