/-
C14, tokenizer ∘ printer on the name fragment of the concrete syntax: a path whose steps are all
names written as segments (any names the grammar can spell — including `/`, `[`, `]`, `.`, `..`
and backslashes inside — with the necessary escapes, or with every `.`/`]` escaped) tokenizes to
exactly the compiled op list: escaped punctuation is a literal name character.
-/
import Flatland.Path
import Flatland.Spec.C14
import Proofs.Lemmas.PathScan
namespace Flatland.C14.Proofs
open Flatland.Path Flatland.C14.Spec Flatland.Path.Lemmas

def escNow (e p : Bool) (c : Char) : Bool :=
  c == '/' || c == '[' || ((c == '.' || c == ']') && (p || e))

theorem escapeFrom_cons (e p : Bool) (c : Char) (r : Str) :
    escapeFrom e p (c :: r)
      = (if escNow e p c then ['\\', c] else [c]) ++ escapeFrom e (c == '\\') r := by
  simp [escapeFrom, escNow]

theorem escapeFrom_nil (e p : Bool) : escapeFrom e p [] = [] := by simp [escapeFrom]

theorem cleanB_nil' (last : Bool) : cleanB last [] = true := by rw [cleanB.eq_def]

theorem unescape_nil' : unescape [] = [] := by simp [unescape]

/-- after a backslash, the next emitted character is never one the scanner or the unescaper
    would pair with it -/
theorem escapeFrom_head (e : Bool) (d : Char) (r : Str) :
    ∃ h tl, escapeFrom e true (d :: r) = h :: tl ∧ isEscapable h = false ∧ isUnescapable h = false := by
  rw [escapeFrom_cons]
  by_cases hx : escNow e true d = true
  · exact ⟨'\\', d :: escapeFrom e (d == '\\') r, by simp [hx], by decide, by decide⟩
  · refine ⟨d, escapeFrom e (d == '\\') r, by simp [hx], ?_, ?_⟩
    · simp only [escNow, Bool.true_or, Bool.and_true, Bool.or_eq_true, beq_iff_eq, not_or] at hx
      simp [isEscapable, hx.1.1, hx.1.2, hx.2.1]
    · simp only [escNow, Bool.true_or, Bool.and_true, Bool.or_eq_true, beq_iff_eq, not_or] at hx
      simp [isUnescapable, hx.1.1, hx.1.2, hx.2.1, hx.2.2]

theorem getLast_tail (c : Char) (r : Str) (h : (c :: r).getLast? ≠ some '\\') : r.getLast? ≠ some '\\' := by
  cases r with
  | nil => simp
  | cons d r' => simpa [List.getLast?_cons_cons] using h

theorem clean_escapeFrom (last e : Bool) : ∀ (s : Str) (p : Bool), s.getLast? ≠ some '\\' →
    cleanB last (escapeFrom e p s) = true
  | [], p, _ => by rw [escapeFrom_nil]; exact cleanB_nil' last
  | c :: r, p, hl => by
    have ih := fun p' => clean_escapeFrom last e r p' (getLast_tail c r hl)
    rw [escapeFrom_cons]
    by_cases hx : escNow e p c = true
    · simp only [hx, if_true, List.cons_append, List.nil_append]
      rw [cleanB_cons]
      simp only [if_true]
      by_cases he : isEscapable c = true
      · simp only [he, if_true]; exact ih _
      · simp only [he, Bool.false_eq_true, if_false]
        rw [cleanB_cons]
        have hc1 : c ≠ '\\' := by
          intro e1; subst e1; simp [escNow] at hx
        have hc2 : (c == '/' || c == '[') = false := by
          simp only [isEscapable, Bool.or_eq_true, beq_iff_eq, not_or] at he
          simp [he.1.1, he.2]
        simp [hc1, hc2, ih]
    · simp only [hx, Bool.false_eq_true, if_false, List.cons_append, List.nil_append]
      rw [cleanB_cons]
      by_cases hb : c = '\\'
      · subst hb
        simp only [if_true, beq_self_eq_true]
        cases r with
        | nil => simp at hl
        | cons d r' =>
          obtain ⟨h, tl, heq, hne, _⟩ := escapeFrom_head e d r'
          have := ih true
          rw [heq] at this ⊢
          simp only [hne, Bool.false_eq_true, if_false]
          exact this
      · simp only [hb, if_false]
        simp only [escNow, Bool.or_eq_true, beq_iff_eq, not_or] at hx
        simp [hx.1.1, hx.1.2, ih]

/-- the same with the trailing backslash allowed for a last segment -/
theorem clean_escapeFrom' (last e : Bool) (s : Str) (p : Bool)
    (hl : last = true ∨ s.getLast? ≠ some '\\') : cleanB last (escapeFrom e p s) = true := by
  rcases hl with h | h
  · subst h
    -- `cleanB true` of any escaped string: by the same recursion, the lone final backslash is fine
    induction s generalizing p with
    | nil => rw [escapeFrom_nil]; exact cleanB_nil' true
    | cons c r ih =>
      rw [escapeFrom_cons]
      by_cases hx : escNow e p c = true
      · simp only [hx, if_true, List.cons_append, List.nil_append]
        rw [cleanB_cons]
        simp only [if_true]
        by_cases he : isEscapable c = true
        · simp only [he, if_true]; exact ih _
        · simp only [he, Bool.false_eq_true, if_false]
          rw [cleanB_cons]
          have hc1 : c ≠ '\\' := by
            intro e1; subst e1; simp [escNow] at hx
          have hc2 : (c == '/' || c == '[') = false := by
            simp only [isEscapable, Bool.or_eq_true, beq_iff_eq, not_or] at he
            simp [he.1.1, he.2]
          simp [hc1, hc2, ih]
      · simp only [hx, Bool.false_eq_true, if_false, List.cons_append, List.nil_append]
        rw [cleanB_cons]
        by_cases hb : c = '\\'
        · subst hb
          simp only [if_true, beq_self_eq_true]
          cases r with
          | nil => rw [escapeFrom_nil]
          | cons d r' =>
            obtain ⟨h, tl, heq, hne, _⟩ := escapeFrom_head e d r'
            have := ih true
            rw [heq] at this ⊢
            simp only [hne, Bool.false_eq_true, if_false]
            exact this
        · simp only [hb, if_false]
          simp only [escNow, Bool.or_eq_true, beq_iff_eq, not_or] at hx
          simp [hx.1.1, hx.1.2, ih]
  · exact clean_escapeFrom last e s p h

theorem unescape_escapeFrom (e : Bool) : ∀ (s : Str) (p : Bool), unescape (escapeFrom e p s) = s
  | [], p => by rw [escapeFrom_nil]; exact unescape_nil'
  | c :: r, p => by
    have ih := fun p' => unescape_escapeFrom e r p'
    rw [escapeFrom_cons]
    by_cases hx : escNow e p c = true
    · simp only [hx, if_true, List.cons_append, List.nil_append]
      rw [unescape_cons]
      have hu : isUnescapable c = true := by
        simp only [escNow, Bool.or_eq_true, beq_iff_eq, Bool.and_eq_true] at hx
        rcases hx with (h | h) | ⟨h | h, _⟩ <;> subst h <;> decide
      simp [hu, ih]
    · simp only [hx, Bool.false_eq_true, if_false, List.cons_append, List.nil_append]
      rw [unescape_cons]
      by_cases hb : c = '\\'
      · subst hb
        simp only [if_true, beq_self_eq_true]
        cases r with
        | nil => simp [escapeFrom_nil]
        | cons d r' =>
          obtain ⟨h, tl, heq, _, hne⟩ := escapeFrom_head e d r'
          have := ih true
          rw [heq] at this ⊢
          simp only [hne, Bool.false_eq_true, if_false]
          rw [this]
      · simp [hb, ih]

theorem escapeFrom_ne_nil (e p : Bool) (c : Char) (r : Str) : escapeFrom e p (c :: r) ≠ [] := by
  rw [escapeFrom_cons]
  split <;> simp

theorem escapeFrom_plain (e : Bool) : ∀ s : Str, s ≠ [] → s ≠ ['.'] → s ≠ ['.', '.'] →
    PlainSeg (escapeFrom e false s)
  | [], h, _, _ => absurd rfl h
  | c :: r, _, h1, h2 => by
    rw [escapeFrom_cons]
    by_cases hx : escNow e false c = true
    · simp only [hx, if_true, List.cons_append, List.nil_append]
      refine ⟨?_, ?_, ?_, ?_⟩ <;> simp
    · simp only [hx, Bool.false_eq_true, if_false, List.cons_append, List.nil_append]
      have hx' := hx
      simp only [escNow, Bool.or_eq_true, beq_iff_eq, not_or] at hx'
      refine ⟨?_, ?_, ?_, ?_⟩
      · intro h; injection h with hc _; exact hx'.1.1 hc
      · intro h
        injection h with hc hr
        subst hc
        cases r with
        | nil => exact h1 rfl
        | cons d r' => exact escapeFrom_ne_nil e _ d r' hr
      · intro h
        injection h with hc hr
        subst hc
        cases r with
        | nil => simp [escapeFrom_nil] at hr
        | cons d r' =>
          have hdot : (('.' : Char) == '\\') = false := by decide
          rw [hdot, escapeFrom_cons] at hr
          by_cases hy : escNow e false d = true
          · simp [hy] at hr
          · simp only [hy, Bool.false_eq_true, if_false, List.cons_append, List.nil_append, List.cons.injEq] at hr
            obtain ⟨hd, hr'⟩ := hr
            subst hd
            cases r' with
            | nil => exact h2 rfl
            | cons x r'' => exact escapeFrom_ne_nil e _ x r'' hr'
      · simp only [List.head?_cons, ne_eq, Option.some.injEq]
        exact hx'.1.2

/-- the printed form of a spellable name: non-empty, one clean name run, a plain NAME token,
    and it unescapes to the name -/
theorem escapeSeg_facts (last e : Bool) (s : Str) (hg : GoodName s = true) :
    escapeSeg e s ≠ [] ∧ cleanB last (escapeSeg e s) = true ∧ PlainSeg (escapeSeg e s) ∧
      unescape (escapeSeg e s) = s := by
  simp only [GoodName, Bool.and_eq_true, Bool.not_eq_true', bne_iff_ne, ne_eq] at hg
  obtain ⟨hne, hl⟩ := hg
  have hne' : s ≠ [] := by intro h; subst h; simp at hne
  by_cases h1 : s = ['.']
  · subst h1
    refine ⟨by simp [escapeSeg], ?_, ⟨by simp [escapeSeg], by simp [escapeSeg], by simp [escapeSeg], by simp [escapeSeg]⟩, ?_⟩
    · simp only [escapeSeg, beq_self_eq_true, if_true]
      rw [cleanB_cons]; simp [isEscapable, cleanB_nil']
    · simp only [escapeSeg, beq_self_eq_true, if_true]
      rw [unescape_cons]; simp [isUnescapable, unescape_nil']
  · by_cases h2 : s = ['.', '.']
    · subst h2
      have hne2 : (['.', '.'] == ['.']) = false := by decide
      refine ⟨by simp [escapeSeg], ?_, ⟨by simp [escapeSeg], by simp [escapeSeg], by simp [escapeSeg], by simp [escapeSeg]⟩, ?_⟩
      · simp only [escapeSeg, hne2, Bool.false_eq_true, if_false, beq_self_eq_true, if_true]
        rw [cleanB_cons]; simp only [if_true, isEscapable]
        simp only [beq_self_eq_true, Bool.or_true, Bool.true_or, if_true]
        rw [cleanB_cons]; simp [isEscapable, cleanB_nil']
      · simp only [escapeSeg, hne2, Bool.false_eq_true, if_false, beq_self_eq_true, if_true]
        rw [unescape_cons]; simp only [if_true, isUnescapable]
        simp only [beq_self_eq_true, Bool.or_true, if_true]
        rw [unescape_cons]; simp [isUnescapable, unescape_nil']
    · have e1 : (s == ['.']) = false := by simpa using h1
      have e2 : (s == ['.', '.']) = false := by simpa using h2
      simp only [escapeSeg, e1, e2, Bool.false_eq_true, if_false]
      cases s with
      | nil => exact absurd rfl hne'
      | cons c r =>
        exact ⟨escapeFrom_ne_nil e false c r, clean_escapeFrom last e _ false hl,
          escapeFrom_plain e _ hne' h1 h2, unescape_escapeFrom e _ false⟩

/-- the same for a non-empty name that may end in a backslash when it is the last segment -/
theorem escapeSeg_facts' (last e : Bool) (s : Str) (hne' : s ≠ [])
    (hl : last = true ∨ s.getLast? ≠ some '\\') :
    escapeSeg e s ≠ [] ∧ cleanB last (escapeSeg e s) = true ∧ PlainSeg (escapeSeg e s) ∧
      unescape (escapeSeg e s) = s := by
  by_cases hg : GoodName s = true
  · exact escapeSeg_facts last e s hg
  · -- s ends in a backslash, so it is neither "." nor ".."
    have hend : s.getLast? = some '\\' := by
      simp only [GoodName, Bool.and_eq_true, Bool.not_eq_true', bne_iff_ne, ne_eq, not_and, Decidable.not_not] at hg
      apply hg
      cases s with
      | nil => exact absurd rfl hne'
      | cons _ _ => rfl
    have h1 : s ≠ ['.'] := by intro h; subst h; simp at hend
    have h2 : s ≠ ['.', '.'] := by intro h; subst h; simp at hend
    have e1 : (s == ['.']) = false := by simpa using h1
    have e2 : (s == ['.', '.']) = false := by simpa using h2
    simp only [escapeSeg, e1, e2, Bool.false_eq_true, if_false]
    cases s with
    | nil => exact absurd rfl hne'
    | cons c r =>
      exact ⟨escapeFrom_ne_nil e false c r, clean_escapeFrom' last e _ false hl,
        escapeFrom_plain e _ hne' h1 h2, unescape_escapeFrom e _ false⟩

end Flatland.C14.Proofs
