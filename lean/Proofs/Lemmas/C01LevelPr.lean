/-
What the documented pruning `pr` preserves: conformance (`OkP`), a compound's text, and — below a
pruning List — whether the element still emits a non-empty value.  Also: a member that emits nothing
(that survives) and the fresh member it is replaced by.
-/
import Proofs.Lemmas.C01LevelBase
namespace Flatland.Flat.Proofs
open Flatland.Flat Flatland.Flat.Spec

variable {env : Env}

/-! ### a silent member and the fresh member -/

/-- if a conforming element emits nothing (that survives `u`), the fresh element of its schema
    conforms, emits nothing either, and shows the same text -/
def BLprop (env : Env) (s : Schema) : Prop :=
  ∀ (u : Bool) (m : Elem), OkP env s m → emitsB env u s m = false →
    OkP env s (blank s) ∧ emitsB env u s (blank s) = false ∧ uOf env s (blank s) = uOf env s m

theorem bl_fields (env : Env) (u : Bool) : ∀ (fs : List Schema) (ms : List (Str × Elem)),
    (∀ f ∈ fs, BLprop env f) → OkPFields env fs ms → emFields env u fs ms = false →
    OkPFields env fs (blankFields fs) ∧ emFields env u fs (blankFields fs) = false ∧
      usZip env fs (blankFields fs) = usZip env fs ms
  | [], [], _, _, _ => by simp [blankFields, OkPFields, emFields, usZip]
  | [], _ :: _, _, h, _ => by simp [OkPFields] at h
  | _ :: _, [], _, h, _ => by simp [OkPFields] at h
  | f :: fs, (k, e) :: ms, hP, hok, hem => by
    simp only [OkPFields] at hok
    simp only [emFields, Bool.or_eq_false_iff] at hem
    have ih := bl_fields env u fs ms (fun g hg => hP g (List.mem_cons_of_mem _ hg)) hok.2.2 hem.2
    have h1 := hP f (by simp) u e hok.2.1 hem.1
    simp only [blankFields, OkPFields, emFields, usZip, hok.1, Option.getD_some, h1.1, h1.2.1,
      h1.2.2, ih.1, ih.2.1, ih.2.2, and_self, Bool.or_self]

theorem bl_all : ∀ s : Schema, wf s = true → dense s = true → BLprop env s := by
  apply schema_ind_wf
  · -- leaf
    intro nm o k u m hok hem
    cases m with
    | leaf t =>
      simp only [OkP] at hok
      rw [emitsB_leaf] at hem
      have hu : u = true := by cases u <;> simp_all
      subst hu
      have ht : t = [] := by cases t <;> simp_all
      subst ht
      refine ⟨by simpa [blank, OkP] using hok, ?_, by simp [blank]⟩
      simp only [blank]; rw [emitsB_leaf]; rfl
    | _ => simp [OkP] at hok
  · -- joined
    intro nm o k mem u m hok hem
    cases m with
    | joined t ms =>
      simp only [OkP] at hok
      rw [emitsB_joined] at hem
      have hu : u = true := by cases u <;> simp_all
      subst hu
      have ht : t = [] := by cases t <;> simp_all
      subst ht
      refine ⟨by simpa [blank, OkP] using hok.1, ?_, by simp [blank, uOf]⟩
      simp only [blank]; rw [emitsB_joined]; rfl
    | _ => simp [OkP] at hok
  · -- dict
    intro nm o fields hnd hsome ih u m hok hem
    cases m with
    | dict ms =>
      simp only [OkP, true_and] at hok
      rw [emitsB_dict env u nm o fields hnd hsome ms hok] at hem
      have hb := bl_fields env u fields ms (fun f hf => (ih f hf).2.2) hok hem
      refine ⟨by simp only [blank, OkP, true_and]; exact hb.1, ?_, by simp [blank, uOf]⟩
      simp only [blank]
      rw [emitsB_dict env u nm o fields hnd hsome _ hb.1]
      exact hb.2.1
    | _ => simp [OkP] at hok
  · -- compound
    intro nm o k fields hnd hsome ih u m hok hem
    cases m with
    | dict ms =>
      simp only [OkP] at hok
      rw [emitsB_compound env u nm o k fields hnd hsome ms hok] at hem
      have hem := Bool.or_eq_false_iff.mp hem
      have hb := bl_fields env u fields ms (fun f hf => (ih f hf).2.2) hok hem.2
      have hu : uOf env (.compound nm o k fields) (.dict (blankFields fields))
          = uOf env (.compound nm o k fields) (.dict ms) := by
        rw [uOf_compound, uOf_compound,
          usOf_eq_zip env fields _ (okFields_keysP env fields _ hb.1) hnd,
          usOf_eq_zip env fields _ (okFields_keysP env fields _ hok) hnd, hb.2.2]
      refine ⟨by simp only [blank, OkP]; exact hb.1, ?_, by simp only [blank]; exact hu⟩
      simp only [blank]
      rw [emitsB_compound env u nm o k fields hnd hsome _ hb.1, hu, hb.2.1]
      simp only [Bool.or_false]
      exact hem.1
    | _ => simp [OkP] at hok
  · -- list
    intro nm o p mx member _ _ _ u m hok hem
    cases m with
    | list ms =>
      refine ⟨by simp [blank, OkP], ?_, by simp [blank, uOf]⟩
      simp only [blank]; rw [emitsB_list]; rfl
    | _ => simp [OkP] at hok
  · -- array
    intro nm o p member _ _ _ u m hok hem
    cases m with
    | array ms =>
      simp only [OkP] at hok
      refine ⟨by simp only [blank, OkP]; exact ⟨hok.1, by simp⟩, ?_, by simp [blank, uOf]⟩
      simp only [blank]; rw [emitsB_array]; rfl
    | _ => simp [OkP] at hok

/-! ### `pr` keeps elements conforming -/

theorem okP_prFields (env : Env) (u : Bool) : ∀ (fs : List Schema) (ms : List (Str × Elem)),
    (∀ f ∈ fs, ∀ u e, OkP env f e → OkP env f (pr env u f e)) → OkPFields env fs ms →
    OkPFields env fs (prFields env u fs ms)
  | [], [], _, _ => by simp [prFields, OkPFields]
  | [], _ :: _, _, h => by simp [OkPFields] at h
  | _ :: _, [], _, h => by simp [OkPFields] at h
  | f :: fs, (k, e) :: ms, hP, hok => by
    simp only [OkPFields] at hok
    simp only [prFields, OkPFields]
    exact ⟨hok.1, hP f (by simp) u e hok.2.1,
      okP_prFields env u fs ms (fun g hg => hP g (List.mem_cons_of_mem _ hg)) hok.2.2⟩

theorem okP_pr : ∀ s : Schema, wf s = true → dense s = true →
    ∀ (u : Bool) (e : Elem), OkP env s e → OkP env s (pr env u s e) := by
  apply schema_ind_wf
  · intro nm o k u e hok
    cases e <;> simp_all [pr, OkP]
  · intro nm o k mem u e hok
    cases e with
    | joined t ms =>
      simp only [OkP] at hok
      simp only [pr]
      split
      · rename_i h
        simp only [Bool.and_eq_true, List.isEmpty_iff] at h
        have h0 := hok.1
        rw [h.2] at h0
        simp [OkP, h0]
      · simp only [OkP]; exact ⟨hok.1, Or.inl trivial⟩
    | _ => simp [OkP] at hok
  · intro nm o fields hnd hsome ih u e hok
    cases e with
    | dict ms =>
      simp only [OkP, true_and] at hok
      simp only [pr, OkP, true_and]
      exact okP_prFields env u fields ms (fun f hf => (ih f hf).2.2) hok
    | _ => simp [OkP] at hok
  · intro nm o k fields hnd hsome ih u e hok
    cases e with
    | dict ms =>
      simp only [OkP] at hok
      simp only [pr, OkP]
      exact okP_prFields env u fields ms (fun f hf => (ih f hf).2.2) hok
    | _ => simp [OkP] at hok
  · intro nm o p mx member hw hd ih u e hok
    cases e with
    | list ms =>
      simp only [OkP] at hok
      obtain ⟨hlen, hdig, hmem⟩ := hok
      simp only [pr]
      split
      · simp only [OkP, List.length_map]
        have hle := List.length_filter_le (emitsB env true member) ms
        refine ⟨by omega, fun i hi => hdig i (by omega), ?_⟩
        intro x hx
        obtain ⟨m, hm, rfl⟩ := List.mem_map.mp hx
        exact ih true m (hmem m (List.mem_filter.mp hm).1)
      · simp only [OkP, List.length_map]
        have hle := dropTrailing_length_le (emitsB env u member) ms
        refine ⟨by omega, fun i hi => hdig i (by omega), ?_⟩
        intro x hx
        obtain ⟨m, hm, rfl⟩ := List.mem_map.mp hx
        have hm' := mem_of_mem_dropTrailing _ _ _ hm
        cases hem : emitsB env u member m with
        | true => simp only [if_true]; exact ih u m (hmem m hm')
        | false =>
          simp only [Bool.false_eq_true, if_false]
          exact (bl_all member hw hd u m (hmem m hm') hem).1
    | _ => simp [OkP] at hok
  · intro nm o p member hw hd ih u e hok
    cases e with
    | array ms =>
      simp only [OkP] at hok
      simp only [pr, OkP]
      exact ⟨hok.1, fun x hx => hok.2 x (List.mem_filter.mp hx).1⟩
    | _ => simp [OkP] at hok

/-! ### `pr` keeps a compound's text -/

theorem usZip_prFields (env : Env) (u : Bool) : ∀ (fs : List Schema) (ms : List (Str × Elem)),
    (∀ f ∈ fs, ∀ u e, OkP env f e → uOf env f (pr env u f e) = uOf env f e) → OkPFields env fs ms →
    usZip env fs (prFields env u fs ms) = usZip env fs ms
  | [], [], _, _ => by simp [prFields]
  | [], _ :: _, _, h => by simp [OkPFields] at h
  | _ :: _, [], _, h => by simp [OkPFields] at h
  | f :: fs, (k, e) :: ms, hP, hok => by
    simp only [OkPFields] at hok
    simp only [prFields, usZip, hP f (by simp) u e hok.2.1,
      usZip_prFields env u fs ms (fun g hg => hP g (List.mem_cons_of_mem _ hg)) hok.2.2]

theorem uOf_pr : ∀ s : Schema, wf s = true → dense s = true →
    ∀ (u : Bool) (e : Elem), OkP env s e → uOf env s (pr env u s e) = uOf env s e := by
  apply schema_ind_wf
  · intro nm o k u e hok
    cases e <;> simp_all [pr, OkP]
  · intro nm o k mem u e hok
    cases e with
    | joined t ms =>
      simp only [pr]
      split
      · rename_i h
        simp only [Bool.and_eq_true, List.isEmpty_iff] at h
        simp [uOf, h.2]
      · rfl
    | _ => simp [OkP] at hok
  · intro nm o fields hnd hsome ih u e hok
    cases e with
    | dict ms => simp [pr, uOf]
    | _ => simp [OkP] at hok
  · intro nm o k fields hnd hsome ih u e hok
    cases e with
    | dict ms =>
      simp only [OkP] at hok
      have hok' := okP_prFields env u fields ms
        (fun f hf => okP_pr f (ih f hf).1 (ih f hf).2.1) hok
      simp only [pr]
      rw [uOf_compound, uOf_compound,
        usOf_eq_zip env fields _ (okFields_keysP env fields _ hok') hnd,
        usOf_eq_zip env fields _ (okFields_keysP env fields _ hok) hnd,
        usZip_prFields env u fields ms (fun f hf => (ih f hf).2.2) hok]
    | _ => simp [OkP] at hok
  · intro nm o p mx member hw hd ih u e hok
    cases e with
    | list ms => simp only [pr]; split <;> simp [uOf]
    | _ => simp [OkP] at hok
  · intro nm o p member hw hd ih u e hok
    cases e with
    | array ms => simp [pr, uOf]
    | _ => simp [OkP] at hok

/-! ### below a pruning List, `pr` does not change whether an element survives -/

theorem wfL_of_forall : ∀ fs : List Schema, (∀ f ∈ fs, wf f = true) → wfL fs = true
  | [], _ => rfl
  | g :: gs, h => by
    simp only [wfL, Bool.and_eq_true]
    exact ⟨h g (by simp), wfL_of_forall gs (fun f hf => h f (List.mem_cons_of_mem _ hf))⟩

theorem denseL_of_forall : ∀ fs : List Schema, (∀ f ∈ fs, dense f = true) → denseL fs = true
  | [], _ => rfl
  | g :: gs, h => by
    simp only [denseL, Bool.and_eq_true]
    exact ⟨h g (by simp), denseL_of_forall gs (fun f hf => h f (List.mem_cons_of_mem _ hf))⟩

theorem wf_compound_of (nm : Option Str) (o : Bool) (k : Nat) (fields : List Schema)
    (hnd : (namesOf fields).Nodup) (hsome : ∀ g ∈ fields, g.name.isSome)
    (h : ∀ f ∈ fields, wf f = true) : wf (.compound nm o k fields) = true := by
  simp only [wf, Bool.and_eq_true, decide_eq_true_eq]
  refine ⟨⟨wfL_of_forall fields h, ?_⟩, hnd⟩
  apply List.all_eq_true.mpr
  intro x hx
  obtain ⟨g, hg, rfl⟩ := exists_of_mem_namesOf hx
  exact hsome g hg

theorem dense_compound_of (nm : Option Str) (o : Bool) (k : Nat) (fields : List Schema)
    (h : ∀ f ∈ fields, dense f = true) : dense (.compound nm o k fields) = true := by
  simp only [dense]
  exact denseL_of_forall fields h

theorem emFields_prFields (env : Env) (u : Bool) : ∀ (fs : List Schema) (ms : List (Str × Elem)),
    (∀ f ∈ fs, ∀ e, OkP env f e → emitsB env u f (pr env u f e) = emitsB env u f e) →
    OkPFields env fs ms → emFields env u fs (prFields env u fs ms) = emFields env u fs ms
  | [], [], _, _ => by simp [prFields]
  | [], _ :: _, _, h => by simp [OkPFields] at h
  | _ :: _, [], _, h => by simp [OkPFields] at h
  | f :: fs, (k, e) :: ms, hP, hok => by
    simp only [OkPFields] at hok
    simp only [prFields, emFields, hP f (by simp) e hok.2.1,
      emFields_prFields env u fs ms (fun g hg => hP g (List.mem_cons_of_mem _ hg)) hok.2.2]

theorem any_filter_self {α} (p : α → Bool) (l : List α) : (l.filter p).any p = l.any p := by
  induction l with
  | nil => rfl
  | cons a as ih =>
    simp only [List.filter_cons]
    cases h : p a <;> simp [h, ih]

theorem any_congr' {α} (p q : α → Bool) (l : List α) (h : ∀ x ∈ l, p x = q x) : l.any p = l.any q := by
  induction l with
  | nil => rfl
  | cons a as ih =>
    simp only [List.any_cons, h a (by simp), ih (fun x hx => h x (List.mem_cons_of_mem _ hx))]

/-- what a non-pruning List makes of a member -/
def keepOrBlank (env : Env) (u : Bool) (member : Schema) (m : Elem) : Elem :=
  if emitsB env u member m then pr env u member m else blank member

theorem emitsB_keepOrBlank_true (member : Schema) (hw : wf member = true) (hd : dense member = true)
    (ih : ∀ e, OkP env member e → emitsB env true member (pr env true member e) = emitsB env true member e)
    (m : Elem) (hok : OkP env member m) :
    emitsB env true member (keepOrBlank env true member m) = emitsB env true member m := by
  unfold keepOrBlank
  cases hem : emitsB env true member m with
  | true => simp only [if_true]; rw [ih m hok, hem]
  | false =>
    simp only [Bool.false_eq_true, if_false]
    exact (bl_all member hw hd true m hok hem).2.1

theorem emitsB_pr_true : ∀ s : Schema, wf s = true → dense s = true →
    ∀ e : Elem, OkP env s e → emitsB env true s (pr env true s e) = emitsB env true s e := by
  apply schema_ind_wf
  · intro nm o k e hok
    cases e <;> simp_all [pr, OkP]
  · intro nm o k mem e hok
    cases e with
    | joined t ms =>
      simp only [pr]
      split
      · rename_i h
        simp only [Bool.true_and, List.isEmpty_iff] at h
        rw [emitsB_joined, emitsB_joined, h]
      · rw [emitsB_joined, emitsB_joined]
    | _ => simp [OkP] at hok
  · intro nm o fields hnd hsome ih e hok
    cases e with
    | dict ms =>
      simp only [OkP, true_and] at hok
      have hok' := okP_prFields env true fields ms
        (fun f hf => okP_pr f (ih f hf).1 (ih f hf).2.1) hok
      simp only [pr]
      rw [emitsB_dict env true nm o fields hnd hsome _ hok', emitsB_dict env true nm o fields hnd hsome _ hok,
        emFields_prFields env true fields ms (fun f hf => (ih f hf).2.2) hok]
    | _ => simp [OkP] at hok
  · intro nm o k fields hnd hsome ih e hok
    cases e with
    | dict ms =>
      have hu := uOf_pr (env := env) (.compound nm o k fields)
        (wf_compound_of nm o k fields hnd hsome (fun f hf => (ih f hf).1))
        (dense_compound_of nm o k fields (fun f hf => (ih f hf).2.1)) true (.dict ms) hok
      simp only [OkP] at hok
      have hok' := okP_prFields env true fields ms
        (fun f hf => okP_pr f (ih f hf).1 (ih f hf).2.1) hok
      simp only [pr] at hu ⊢
      rw [emitsB_compound env true nm o k fields hnd hsome _ hok',
        emitsB_compound env true nm o k fields hnd hsome _ hok, hu,
        emFields_prFields env true fields ms (fun f hf => (ih f hf).2.2) hok]
    | _ => simp [OkP] at hok
  · intro nm o p mx member hw hd ih e hok
    cases e with
    | list ms =>
      simp only [OkP] at hok
      obtain ⟨_, _, hmem⟩ := hok
      simp only [pr]
      split
      · rw [emitsB_list, emitsB_list, List.any_map]
        exact (any_congr' _ (emitsB env true member) (ms.filter (emitsB env true member))
          (fun x hx => ih x (hmem x (List.mem_filter.mp hx).1))).trans (any_filter_self _ _)
      · rw [emitsB_list, emitsB_list, List.any_map]
        exact (any_congr' _ (emitsB env true member) (dropTrailing (emitsB env true member) ms)
          (fun x hx => emitsB_keepOrBlank_true member hw hd ih x
            (hmem x (mem_of_mem_dropTrailing _ _ _ hx)))).trans (any_dropTrailing _ _)
    | _ => simp [OkP] at hok
  · intro nm o p member hw hd ih e hok
    cases e with
    | array ms =>
      simp only [pr, Bool.true_or]
      rw [emitsB_array, emitsB_array]
      exact any_filter_self _ _
    | _ => simp [OkP] at hok

end Flatland.Flat.Proofs
