/-
The form model (`Flatland/C12/Form.lean`) against the flat model (`Flatland/Flat.lean`): the names
the controls carry are the keys `flatten()` emits, and `formPairs` + the pairs of the unchecked
Boolean boxes are (as a multiset) what `flatten()` emits for the same tree.
-/
import Flatland.C12.Form
import Proofs.C12
import Proofs.C07
namespace Flatland.C12.Proofs
open Flatland.Markup Flatland.C12
open Flatland.Flat (FNode joinSep namePath flattenAt flattenNode ownPair pushed childItems kidsFrom bfsFlat)

/-- the separator of `flattened_name()` -/
def usep : Str := ['_']

theorem joinSep_cons (n : Str) (rest : List Str) :
    joinSep usep (n :: rest) = n ++ (rest.map (fun x => '_' :: x)).flatten := by
  induction rest generalizing n with
  | nil => simp [joinSep]
  | cons r rs ih =>
    have e : joinSep usep (n :: r :: rs) = n ++ usep ++ joinSep usep (r :: rs) := rfl
    rw [e, ih r]
    simp [usep, List.append_assoc]

/-- NAMES ARE KEYS: the name a control carries (`flattened_name()` of the path) is the key the flat
    model's `flatten` emits for the same path: the non-`None` names joined by the separator -/
theorem flatName_eq_joinSep (path : List (Option Str)) : flatName path = joinSep usep (path.filterMap id) := by
  rw [flatName_spec]
  unfold Spec.flattenedName
  cases h : path.filterMap id with
  | nil => rfl
  | cons n rest => exact (joinSep_cons n rest).symm

theorem filterMap_snoc (pre : List (Option Str)) (n : Option Str) :
    (pre ++ [n]).filterMap id = pre.filterMap id ++ n.toList := by
  cases n <;> simp [List.filterMap_append]

theorem flatName_namePath (pre : List (Option Str)) (nm : Option Str) (fl cfl : Bool) (u : Str) (s : Bool)
    (kids : List FNode) :
    joinSep usep (namePath (pre.filterMap id) (.mk nm fl cfl u s kids)) = flatName (pre ++ [nm]) := by
  rw [flatName_eq_joinSep, filterMap_snoc]
  rfl

/-- a node without children that emits its own pair -/
theorem flattenAt_leaf (p : List Str) (nm : Option Str) (cfl : Bool) (u : Str) (s : Bool) :
    flattenAt usep p (.mk nm true cfl u s []) = [(joinSep usep (namePath p (.mk nm true cfl u s [])), u)] := by
  unfold flattenAt ownPair pushed
  cases cfl <;> simp [childItems, kidsFrom, Flatland.Flat.bfsFlat_nil, FNode.fl, FNode.cfl, FNode.u, FNode.kids]

theorem perm_interleave {α} (a b as bs : List α) : ((a ++ b) ++ (as ++ bs)).Perm ((a ++ as) ++ (b ++ bs)) := by
  simp only [List.append_assoc]
  apply List.Perm.append_left
  rw [← List.append_assoc, ← List.append_assoc]
  exact List.Perm.append_right _ List.perm_append_comm

/-- members of an Array: anonymous leaves under the Array's own path -/
theorem members_flat (p : List Str) (i : Nat) (ms : List Str) :
    (kidsFrom p false i (ms.map memberNode)).flatMap (fun it => flattenAt usep it.1 it.2) =
      ms.map (fun m => (joinSep usep p, m)) := by
  induction ms generalizing i with
  | nil => rfl
  | cons m ms ih =>
    simp only [List.map_cons, kidsFrom, Bool.false_eq_true, if_false, List.flatMap_cons, ih]
    simp only [memberNode, flattenAt_leaf, namePath, FNode.name, Option.toList_none, List.append_nil,
      List.singleton_append]

/-- a container node: nothing of its own, then what its members emit -/
theorem flattenAt_container (p : List Str) (nm : Option Str) (u : Str) (s : Bool) (kids : List FNode) :
    (flattenAt usep p (.mk nm false true u s kids)).Perm
      ((kidsFrom (p ++ nm.toList) s 0 kids).flatMap (fun it => flattenAt usep it.1 it.2)) := by
  have h := Flatland.Flat.Proofs.flatten_compositional usep p (.mk nm false true u s kids) rfl
  simpa [ownPair, childItems, namePath, FNode.fl, FNode.name, FNode.slots, FNode.kids] using h

mutual
theorem formPairs_flattenAt : ∀ (t : FormTree) (pre : List (Option Str)),
    (flattenAt usep (pre.filterMap id) (embed t)).Perm (formPairs pre t ++ uncheckedPairs pre t)
  | .text n u w ex, pre => by
    simp only [embed, flattenAt_leaf, flatName_namePath, formPairs, uncheckedPairs, List.append_nil]
    exact List.Perm.refl _
  | .bool n tru u ex, pre => by
    simp only [embed, flattenAt_leaf, flatName_namePath, formPairs, uncheckedPairs]
    by_cases h : tru = u <;> simp [h]
  | .array n strip ms w ex, pre => by
    simp only [embed, formPairs, uncheckedPairs, List.append_nil]
    refine (flattenAt_container _ _ _ _ _).trans ?_
    rw [members_flat, ← filterMap_snoc, ← flatName_eq_joinSep]
    have : flatName (pre ++ [n, none]) = flatName (pre ++ [n]) := by
      have := flatName_skip_none (pre ++ [n]) []
      simpa using this
    rw [this]
  | .joined n u ms ty ex, pre => by
    simp only [embed, formPairs, uncheckedPairs, List.append_nil]
    rw [Flatland.Flat.Proofs.joined_opaque usep _ _ rfl]
    simp only [ownPair, FNode.fl, if_true, FNode.u, flatName_namePath]
    exact List.Perm.refl _
  | .dict n fields, pre => by
    simp only [embed, formPairs, uncheckedPairs]
    refine (flattenAt_container _ _ _ _ _).trans ?_
    rw [← filterMap_snoc]
    exact fieldPairs_flat fields (pre ++ [n]) 0
  | .list n members, pre => by
    simp only [embed, formPairs, uncheckedPairs]
    refine (flattenAt_container _ _ _ _ _).trans ?_
    rw [← filterMap_snoc]
    exact slotPairs_flat members (pre ++ [n]) 0
theorem fieldPairs_flat : ∀ (ts : List FormTree) (pre : List (Option Str)) (i : Nat),
    ((kidsFrom (pre.filterMap id) false i (embedAll ts)).flatMap (fun it => flattenAt usep it.1 it.2)).Perm
      (fieldPairs pre ts ++ uncheckedFields pre ts)
  | [], pre, i => by simp [embedAll, kidsFrom, fieldPairs, uncheckedFields]
  | t :: ts, pre, i => by
    simp only [embedAll, kidsFrom, Bool.false_eq_true, if_false, List.flatMap_cons, fieldPairs, uncheckedFields]
    exact ((formPairs_flattenAt t pre).append (fieldPairs_flat ts pre (i + 1))).trans (perm_interleave _ _ _ _)
theorem slotPairs_flat : ∀ (ts : List FormTree) (pre : List (Option Str)) (i : Nat),
    ((kidsFrom (pre.filterMap id) true i (embedAll ts)).flatMap (fun it => flattenAt usep it.1 it.2)).Perm
      (slotPairs pre i ts ++ uncheckedSlots pre i ts)
  | [], pre, i => by simp [embedAll, kidsFrom, slotPairs, uncheckedSlots]
  | t :: ts, pre, i => by
    simp only [embedAll, kidsFrom, if_true, List.flatMap_cons, slotPairs, uncheckedSlots]
    have h1 := formPairs_flattenAt t (pre ++ [some (slotName i)])
    rw [filterMap_snoc] at h1
    exact (h1.append (slotPairs_flat ts pre (i + 1))).trans (perm_interleave _ _ _ _)
end

end Flatland.C12.Proofs
