/-
Numbers in bracket steps: `int(str(i)) == i` for signed ints, the slice language accepts every
printed bracket content, and `_parse_slice` reads it back as the op the AST compiles to.
-/
import Flatland.Path
import Flatland.Spec.C14
import Proofs.Lemmas.PathInt
namespace Flatland.C14.Proofs
open Flatland.Path Flatland.C14.Spec Flatland.Path.Lemmas Flatland.Generated.C14

/-- the decimal text of `i` is within `int()`'s digit limit -/
def IntFits (i : Int) : Prop := (natStr i.natAbs).length ≤ intMaxDigits ∨ intMaxDigits = 0

theorem isDigit_ascii (c : Char) (h : Lemmas.isAsciiDigit c = true) : isDigit c = true := by
  simp [isDigit, digitVal_ascii c h]

theorem isDigit_colon : isDigit ':' = false := by decide
theorem isDigit_minus : isDigit '-' = false := by decide
theorem isDigit_rbracket : isDigit ']' = false := by decide

theorem ascii_ne (c : Char) (h : Lemmas.isAsciiDigit c = true) :
    c ≠ '-' ∧ c ≠ ':' ∧ c ≠ ']' ∧ c ≠ '\\' ∧ c ≠ '+' := by
  simp only [Lemmas.isAsciiDigit, Bool.and_eq_true, decide_eq_true_eq] at h
  refine ⟨?_, ?_, ?_, ?_, ?_⟩ <;> (intro e; subst e; simp at h)

/-! ### `int(str(i))` with a sign -/

theorem stripSpaces_signed (s : Str) (hne : s ≠ []) (hall : ∀ c ∈ s, Lemmas.isAsciiDigit c = true) :
    stripSpaces ('-' :: s) = '-' :: s := by
  unfold stripSpaces
  have h1 : isIntSpace '-' = false := by decide
  have hd : ('-' :: s).dropWhile isIntSpace = '-' :: s := by simp [List.dropWhile, h1]
  rw [hd]
  have hlast : ∀ h : ('-' :: s).reverse ≠ [], isIntSpace (('-' :: s).reverse.head h) = false := by
    intro h
    have hm : ('-' :: s).reverse.head h ∈ s := by
      have : ('-' :: s).reverse = s.reverse ++ ['-'] := by simp
      have hs : s.reverse ≠ [] := by simpa using hne
      simp only [this, List.head_append_of_ne_nil hs]
      have := List.head_mem hs
      simpa using this
    exact ascii_not_space _ (hall _ hm)
  rw [dropWhile_head_false isIntSpace _ hlast]
  simp

theorem pyInt_neg_digits (s : Str) (hne : s ≠ []) (hall : ∀ c ∈ s, Lemmas.isAsciiDigit c = true)
    (hlen : s.length ≤ intMaxDigits ∨ intMaxDigits = 0) :
    pyInt ('-' :: s) = some (-(Int.ofNat (digitsValue (digitVals s)))) := by
  have hl : (digitVals s).length = s.length := by simp [digitVals]
  have hlim : ¬ (intMaxDigits ≠ 0 ∧ (digitVals s).length > intMaxDigits) := by
    rw [hl]; omega
  unfold pyInt
  simp only [stripSpaces_signed s hne hall, splitSign, parseDigits_ascii _ hne hall, hlim, if_false, if_true]

theorem pyInt_intStr (i : Int) (h : IntFits i) : pyInt (intStr i) = some i := by
  unfold intStr
  by_cases hneg : i < 0
  · simp only [hneg, if_true]
    rw [pyInt_neg_digits _ (natStr_ne_nil _) (natStr_all_digits _) h, digitsValue_natStr]
    congr 1
    simp only [Int.ofNat_eq_natCast]
    omega
  · simp only [hneg, if_false]
    have h' : (natStr i.toNat).length ≤ intMaxDigits ∨ intMaxDigits = 0 := by
      have : i.toNat = i.natAbs := by omega
      rw [this]; exact h
    rw [pyInt_natStr _ h']
    congr 1
    omega

theorem pyInt_neg_natStr (n : Nat) (h : (natStr n).length ≤ intMaxDigits ∨ intMaxDigits = 0) :
    pyInt ('-' :: natStr n) = some (-(n : Int)) := by
  rw [pyInt_neg_digits _ (natStr_ne_nil _) (natStr_all_digits _) h, digitsValue_natStr]
  rfl

/-! ### characters of printed numbers -/

def NumChar (c : Char) : Prop := Lemmas.isAsciiDigit c = true ∨ c = '-'

theorem intStr_chars (i : Int) : ∀ c ∈ intStr i, NumChar c := by
  unfold intStr
  split
  · intro c hc
    simp only [List.mem_cons] at hc
    rcases hc with hc | hc
    · exact Or.inr hc
    · exact Or.inl (natStr_all_digits _ c hc)
  · intro c hc; exact Or.inl (natStr_all_digits _ c hc)

theorem optIntStr_chars (o : Option Int) : ∀ c ∈ optIntStr o, NumChar c := by
  cases o with
  | none => intro c hc; simp [optIntStr] at hc
  | some i => exact intStr_chars i

theorem numChar_ne (c : Char) (h : NumChar c) : c ≠ ':' ∧ c ≠ ']' ∧ c ≠ '\\' := by
  rcases h with h | h
  · have := ascii_ne c h; exact ⟨this.2.1, this.2.2.1, this.2.2.2.1⟩
  · subst h; exact ⟨by decide, by decide, by decide⟩

theorem intStr_ne_nil (i : Int) : intStr i ≠ [] := by
  unfold intStr
  split
  · simp
  · exact natStr_ne_nil _

theorem intStr_isEmpty (i : Int) : (intStr i).isEmpty = false := by
  cases h : intStr i with
  | nil => exact absurd h (intStr_ne_nil i)
  | cons _ _ => rfl

theorem optIntStr_isEmpty (o : Option Int) : (optIntStr o).isEmpty = o.isNone := by
  cases o with
  | none => rfl
  | some i =>
    simp only [optIntStr, Option.isNone_some]
    cases h : intStr i with
    | nil => exact absurd h (intStr_ne_nil i)
    | cons _ _ => rfl

/-! ### the slice language -/

def dropItem (s : Str) : Str := (optChar '-' s).dropWhile isDigit

theorem dropWhile_digits (s rest : Str) (hall : ∀ c ∈ s, Lemmas.isAsciiDigit c = true)
    (hr : ∀ h : rest ≠ [], isDigit (rest.head h) = false) :
    (s ++ rest).dropWhile isDigit = rest := by
  induction s with
  | nil => simpa using dropWhile_head_false isDigit rest hr
  | cons c r ih =>
    have hc := isDigit_ascii c (hall c (by simp))
    simp only [List.cons_append, List.dropWhile_cons, hc, if_true]
    exact ih (fun x hx => hall x (by simp [hx]))

/-- what may follow a number inside brackets: nothing or a colon -/
def ColonOrEnd (rest : Str) : Prop := rest = [] ∨ ∃ t, rest = ':' :: t

theorem colonOrEnd_head (rest : Str) (h : ColonOrEnd rest) :
    ∀ hne : rest ≠ [], isDigit (rest.head hne) = false := by
  intro hne
  rcases h with h | ⟨t, h⟩
  · exact absurd h hne
  · subst h; exact isDigit_colon

theorem optChar_minus_other (s : Str) (h : s.head? ≠ some '-') : optChar '-' s = s := by
  cases s with
  | nil => rfl
  | cons c r =>
    simp only [List.head?_cons, ne_eq, Option.some.injEq] at h
    simp [optChar, h]

theorem dropItem_natStr (n : Nat) (rest : Str) (h : ColonOrEnd rest) : dropItem (natStr n ++ rest) = rest := by
  unfold dropItem
  have hhead : (natStr n ++ rest).head? ≠ some '-' := by
    cases hs : natStr n with
    | nil => exact absurd hs (natStr_ne_nil n)
    | cons c r =>
      have hc : Lemmas.isAsciiDigit c = true := natStr_all_digits n c (by rw [hs]; simp)
      simp only [List.cons_append, List.head?_cons, ne_eq, Option.some.injEq]
      exact (ascii_ne c hc).1
  rw [optChar_minus_other _ hhead]
  exact dropWhile_digits _ rest (natStr_all_digits n) (colonOrEnd_head rest h)

theorem dropItem_opt (o : Option Int) (rest : Str) (h : ColonOrEnd rest) :
    dropItem (optIntStr o ++ rest) = rest := by
  cases o with
  | none =>
    simp only [optIntStr, List.nil_append]
    unfold dropItem
    rcases h with h | ⟨t, h⟩
    · subst h; rfl
    · subst h
      have : optChar '-' (':' :: t) = ':' :: t := by simp [optChar]
      rw [this]
      simp [List.dropWhile_cons, isDigit_colon]
  | some i =>
    simp only [optIntStr, intStr]
    split
    · unfold dropItem
      simp only [List.cons_append, optChar, beq_self_eq_true, if_true]
      exact dropWhile_digits _ rest (natStr_all_digits _) (colonOrEnd_head rest h)
    · exact dropItem_natStr _ rest h

theorem sliceLang_eq (s : Str) :
    sliceLang s = (dropItem (optChar ':' (dropItem (optChar ':' (dropItem s))))).isEmpty := rfl

theorem optChar_colon_cons (t : Str) : optChar ':' (':' :: t) = t := by simp [optChar]
theorem optChar_nil (x : Char) : optChar x [] = [] := rfl
theorem dropItem_nil : dropItem [] = [] := rfl

/-- `[a:b]` -/
theorem sliceLang_two (a b : Option Int) : sliceLang (optIntStr a ++ ':' :: optIntStr b) = true := by
  rw [sliceLang_eq, dropItem_opt a _ (Or.inr ⟨_, rfl⟩), optChar_colon_cons]
  have := dropItem_opt b [] (Or.inl rfl)
  simp only [List.append_nil] at this
  rw [this, optChar_nil, dropItem_nil]
  rfl

/-- `[a:b:c]` -/
theorem sliceLang_three (a b c : Option Int) :
    sliceLang (optIntStr a ++ ':' :: optIntStr b ++ ':' :: optIntStr c) = true := by
  have e : optIntStr a ++ ':' :: optIntStr b ++ ':' :: optIntStr c
      = optIntStr a ++ ':' :: (optIntStr b ++ ':' :: optIntStr c) := by simp
  rw [e, sliceLang_eq, dropItem_opt a _ (Or.inr ⟨_, rfl⟩), optChar_colon_cons,
    dropItem_opt b _ (Or.inr ⟨_, rfl⟩), optChar_colon_cons]
  have := dropItem_opt c [] (Or.inl rfl)
  simp only [List.append_nil] at this
  rw [this]
  rfl

/-- `[n]` and `[-n]` -/
theorem sliceLang_digits (s : Str) (hall : ∀ c ∈ s, Lemmas.isAsciiDigit c = true) : sliceLang s = true := by
  rw [sliceLang_eq]
  have h1 : dropItem s = [] := by
    unfold dropItem
    cases s with
    | nil => rfl
    | cons c r =>
      have hc := hall c (by simp)
      have : optChar '-' (c :: r) = c :: r := by simp [optChar, (ascii_ne c hc).1]
      rw [this]
      have := dropWhile_digits (c :: r) [] hall (fun h => absurd rfl h)
      simpa using this
  rw [h1]; rfl

theorem sliceLang_neg (n : Nat) : sliceLang ('-' :: natStr n) = true := by
  rw [sliceLang_eq]
  have h1 : dropItem ('-' :: natStr n) = [] := by
    unfold dropItem
    simp only [optChar, beq_self_eq_true, if_true]
    have := dropWhile_digits (natStr n) [] (natStr_all_digits n) (fun h => absurd rfl h)
    simpa using this
  rw [h1]; rfl

/-! ### `_parse_slice` on printed bracket contents -/

theorem takeWhile_noColon (A R : Str) (h : ∀ x ∈ A, x ≠ ':') :
    (A ++ ':' :: R).takeWhile (· != ':') = A := by
  induction A with
  | nil => simp
  | cons x r ih =>
    have hx : x ≠ ':' := h x (by simp)
    simp only [List.cons_append, List.takeWhile_cons, bne_iff_ne, ne_eq, hx, not_false_eq_true, decide_true,
      if_true, ih (fun y hy => h y (by simp [hy]))]

theorem takeWhile_all (B : Str) (h : ∀ x ∈ B, x ≠ ':') : B.takeWhile (· != ':') = B := by
  induction B with
  | nil => rfl
  | cons x r ih =>
    have hx : x ≠ ':' := h x (by simp)
    simp only [List.takeWhile_cons, bne_iff_ne, ne_eq, hx, not_false_eq_true, decide_true, if_true,
      ih (fun y hy => h y (by simp [hy]))]

theorem splitOnce_colon (A R : Str) (h : ∀ x ∈ A, x ≠ ':') : splitOnce (A ++ ':' :: R) = some (A, R) := by
  unfold splitOnce
  simp only [takeWhile_noColon A R h]
  have hlt : A.length < (A ++ ':' :: R).length := by simp
  simp only [hlt, if_true]
  congr 2
  rw [show A ++ ':' :: R = (A ++ [':']) ++ R by simp]
  exact List.drop_left' (by simp)

theorem splitOnce_none (B : Str) (h : ∀ x ∈ B, x ≠ ':') : splitOnce B = none := by
  unfold splitOnce
  simp [takeWhile_all B h]

theorem optIntStr_noColon (o : Option Int) : ∀ x ∈ optIntStr o, x ≠ ':' :=
  fun x hx => (numChar_ne x (optIntStr_chars o x hx)).1

theorem splitColon2_two (a b : Option Int) :
    splitColon2 (optIntStr a ++ ':' :: optIntStr b) = [optIntStr a, optIntStr b] := by
  unfold splitColon2
  rw [splitOnce_colon _ _ (optIntStr_noColon a)]
  simp only [splitOnce_none _ (optIntStr_noColon b)]

theorem splitColon2_three (a b c : Option Int) :
    splitColon2 (optIntStr a ++ ':' :: (optIntStr b ++ ':' :: optIntStr c))
      = [optIntStr a, optIntStr b, optIntStr c] := by
  unfold splitColon2
  rw [splitOnce_colon _ _ (optIntStr_noColon a)]
  simp only [splitOnce_colon _ _ (optIntStr_noColon b)]

def OptFits : Option Int → Prop
  | none => True
  | some i => IntFits i

/-- reading one slice field back -/
theorem field_start (a : Option Int) (h : OptFits a) :
    (if (optIntStr a).isEmpty then some (0 : Int) else pyInt (optIntStr a)) = some (a.getD 0) := by
  cases a with
  | none => rfl
  | some i =>
    simp only [optIntStr, intStr_isEmpty, Bool.false_eq_true, if_false, pyInt_intStr i h, Option.getD_some]

theorem field_stop (b : Option Int) (h : OptFits b) :
    (if (optIntStr b).isEmpty then some (none : Option Int) else (pyInt (optIntStr b)).map some) = some b := by
  cases b with
  | none => rfl
  | some i =>
    simp only [optIntStr, intStr_isEmpty, Bool.false_eq_true, if_false, pyInt_intStr i h, Option.map_some]

theorem field_stride (c : Option Int) (h : OptFits c) :
    (if (optIntStr c).isEmpty then some (1 : Int) else pyInt (optIntStr c)) = some (c.getD 1) := by
  cases c with
  | none => rfl
  | some i =>
    simp only [optIntStr, intStr_isEmpty, Bool.false_eq_true, if_false, pyInt_intStr i h, Option.getD_some]

theorem content_ne_colon (A R : Str) (hA : A ≠ [] ∨ R ≠ []) (hR : ∀ x ∈ R, x ≠ ':') (hA' : ∀ x ∈ A, x ≠ ':') :
    (A ++ ':' :: R == [':']) = false ∧ (A ++ ':' :: R == [':', ':']) = false := by
  constructor
  · cases A with
    | nil =>
      cases R with
      | nil => simp at hA
      | cons r rs => simp
    | cons x xs =>
      have hx := hA' x (by simp)
      cases xs <;> simp [hx]
  · cases A with
    | nil =>
      cases R with
      | nil => simp
      | cons r rs =>
        have hr := hR r (by simp)
        cases rs <;> simp [hr]
    | cons x xs =>
      have hx := hA' x (by simp)
      simp [hx]

theorem contains_colon (A R : Str) : (A ++ ':' :: R).contains ':' = true := by simp

/-- **`[a:b]`** reads back as the compiled op -/
theorem parseSlice_two (a b : Option Int) (ha : OptFits a) (hb : OptFits b) :
    parseSlice (optIntStr a ++ ':' :: optIntStr b) = some (compileStep (.slice a b none)) := by
  by_cases hnn : a = none ∧ b = none
  · obtain ⟨rfl, rfl⟩ := hnn
    rfl
  · have hne : optIntStr a ≠ [] ∨ optIntStr b ≠ [] := by
      cases a with
      | some i => left; exact intStr_ne_nil i
      | none =>
        cases b with
        | some j => right; exact intStr_ne_nil j
        | none => exact absurd ⟨rfl, rfl⟩ hnn
    obtain ⟨h1, h2⟩ := content_ne_colon _ _ hne (optIntStr_noColon b) (optIntStr_noColon a)
    unfold parseSlice
    simp only [h1, h2, Bool.or_self, Bool.false_eq_true, if_false, contains_colon, Bool.not_true,
      splitColon2_two, field_start a ha, field_stop b hb]
    cases a with
    | some i => cases b <;> rfl
    | none =>
      cases b with
      | some j => rfl
      | none => exact absurd ⟨rfl, rfl⟩ hnn

/-- **`[a:b:c]`** reads back as the compiled op (an explicit step 0 stays 0) -/
theorem parseSlice_three (a b c : Option Int) (ha : OptFits a) (hb : OptFits b) (hc : OptFits c) :
    parseSlice (optIntStr a ++ ':' :: (optIntStr b ++ ':' :: optIntStr c))
      = some (compileStep (.slice a b (some c))) := by
  by_cases hnn : a = none ∧ b = none ∧ c = none
  · obtain ⟨rfl, rfl, rfl⟩ := hnn
    rfl
  · have hR : ∀ x ∈ optIntStr b ++ ':' :: optIntStr c, x = ':' ∨ NumChar x := by
      intro x hx
      simp only [List.mem_append, List.mem_cons] at hx
      rcases hx with hx | hx | hx
      · exact Or.inr (optIntStr_chars b x hx)
      · exact Or.inl hx
      · exact Or.inr (optIntStr_chars c x hx)
    have h1 : (optIntStr a ++ ':' :: (optIntStr b ++ ':' :: optIntStr c) == [':']) = false := by
      cases ha' : optIntStr a with
      | nil => cases hb' : optIntStr b <;> simp
      | cons x xs =>
        have hx := optIntStr_noColon a x (by rw [ha']; simp)
        cases xs <;> simp [hx]
    have h2 : (optIntStr a ++ ':' :: (optIntStr b ++ ':' :: optIntStr c) == [':', ':']) = false := by
      cases ha' : optIntStr a with
      | nil =>
        cases hb' : optIntStr b with
        | nil =>
          cases hc' : optIntStr c with
          | nil =>
            exfalso
            apply hnn
            have ea : a = none := by
              cases a with
              | none => rfl
              | some i => exact absurd ha' (intStr_ne_nil i)
            have eb : b = none := by
              cases b with
              | none => rfl
              | some i => exact absurd hb' (intStr_ne_nil i)
            have ec : c = none := by
              cases c with
              | none => rfl
              | some i => exact absurd hc' (intStr_ne_nil i)
            exact ⟨ea, eb, ec⟩
          | cons y ys => simp
        | cons y ys =>
          have hy := optIntStr_noColon b y (by rw [hb']; simp)
          simp [hy]
      | cons x xs =>
        have hx := optIntStr_noColon a x (by rw [ha']; simp)
        simp [hx]
    unfold parseSlice
    simp only [h1, h2, Bool.or_self, Bool.false_eq_true, if_false, contains_colon, Bool.not_true,
      splitColon2_three, field_start a ha, field_stop b hb, field_stride c hc]
    simp only [optIntStr_isEmpty]
    cases a with
    | some i => cases b <;> rfl
    | none =>
      cases b with
      | some j => rfl
      | none =>
        cases c with
        | some k => rfl
        | none => exact absurd ⟨rfl, rfl, rfl⟩ hnn

/-- **`[n]`** reads back as the name `n` -/
theorem parseSlice_digits (s : Str) (hne : s ≠ []) (hall : ∀ c ∈ s, Lemmas.isAsciiDigit c = true) :
    parseSlice s = some (.name (some s)) := by
  have hnc : ∀ x ∈ s, x ≠ ':' := fun x hx => (ascii_ne x (hall x hx)).2.1
  have h1 : (s == [':']) = false := by
    cases s with
    | nil => rfl
    | cons x xs => have := hnc x (by simp); cases xs <;> simp [this]
  have h2 : (s == [':', ':']) = false := by
    cases s with
    | nil => rfl
    | cons x xs => have := hnc x (by simp); simp [this]
  have h3 : s.contains ':' = false := by
    cases hcn : s.contains ':' with
    | false => rfl
    | true => rw [List.contains_iff_mem] at hcn; exact absurd rfl (hnc _ hcn)
  have h4 : (s.head? != some '-') = true := by
    cases s with
    | nil => rfl
    | cons x xs => have := (ascii_ne x (hall x (by simp))).1; simp [this]
  unfold parseSlice
  simp only [h1, h2, h3, h4, Bool.or_self, Bool.false_eq_true, if_false, Bool.not_false, if_true]

/-- **`[-n]`** reads back as the one-element slice the AST compiles to -/
theorem parseSlice_neg (n : Nat) (h : (natStr n).length ≤ intMaxDigits ∨ intMaxDigits = 0) :
    parseSlice ('-' :: natStr n) = some (compileStep (.negidx n)) := by
  have hnc : ∀ x ∈ natStr n, x ≠ ':' := fun x hx => (ascii_ne x (natStr_all_digits n x hx)).2.1
  have h1 : (('-' :: natStr n) == [':']) = false := by simp
  have h2 : (('-' :: natStr n) == [':', ':']) = false := by simp
  have h3 : ('-' :: natStr n).contains ':' = false := by
    cases hcn : ('-' :: natStr n).contains ':' with
    | false => rfl
    | true =>
      rw [List.contains_iff_mem] at hcn
      simp only [List.mem_cons] at hcn
      rcases hcn with hcn | hcn
      · exact absurd hcn (by decide)
      · exact absurd rfl (hnc _ hcn)
  unfold parseSlice
  simp only [h1, h2, Bool.or_self, Bool.false_eq_true, if_false, h3, Bool.not_false, if_true,
    List.head?_cons, bne_self_eq_false, pyInt_neg_natStr n h, compileStep]
  by_cases hn : n = 1
  · subst hn; rfl
  · have : ((-(n : Int)) == -1) = false := by
      simp only [beq_eq_false_iff_ne, ne_eq]
      omega
    simp [this, hn]

end Flatland.C14.Proofs
