/-
What each Generator call does to the frame stack (model A), in a form the history proofs use.
-/
import Flatland.Spec.C19
import Proofs.Lemmas.MarkupDict
namespace Flatland.C19.Proofs
open Flatland.Markup Flatland.C19 Flatland.C19.Spec

/-- a dict after a sequence of item assignments -/
def applyLog (f : Frame) (log : List (Str × CVal)) : Frame :=
  log.foldl (fun d kv => Dict.set d kv.1 kv.2) f

theorem applyLog_append (f : Frame) (a b : List (Str × CVal)) :
    applyLog f (a ++ b) = applyLog (applyLog f a) b := by
  simp [applyLog, List.foldl_append]

theorem setItem_ok {c c' : Ctx} {k : Str} {v : CVal} (h : c.setItem k v = .ok c') :
    c' = { c with top := Dict.set c.top k v } ∧ c.has k = true := by
  unfold Ctx.setItem at h
  split at h
  · rename_i hk; simp [pure, Except.pure] at h; exact ⟨h.symm, hk⟩
  · simp [throw, throwThe, MonadExceptOf.throw] at h

theorem setItem_err {c : Ctx} {k : Str} {v : CVal} {e : PyErr} (h : c.setItem k v = .error e) :
    e = .keyError ∧ c.has k = false := by
  unfold Ctx.setItem at h
  split at h
  · simp [pure, Except.pure] at h
  · rename_i hk; simp [throw, throwThe, MonadExceptOf.throw] at h; exact ⟨h.symm, by simpa using hk⟩

theorem has_after_set (c : Ctx) (k k' : Str) (v : CVal) (hk : c.has k = true) :
    ({ c with top := Dict.set c.top k v } : Ctx).has k' = c.has k' := by
  simp only [Ctx.has] at *
  rw [Bool.eq_iff_iff, Dict.contains_iff, Dict.contains_iff, Dict.mem_keys_set]
  rw [Dict.contains_iff] at hk
  constructor
  · rintro (h | rfl); exact h; exact hk
  · intro h; left; exact h

theorem setAll_ok : ∀ (kw : List (Str × CVal)) (c c' : Ctx), c.setAll kw = .ok c' →
    c'.below = c.below ∧ c'.top = applyLog c.top kw ∧ (∀ k, c'.has k = c.has k)
  | [], c, c', h => by
    simp [Ctx.setAll, pure, Except.pure] at h; subst h; simp [applyLog]
  | (k, v) :: rest, c, c', h => by
    simp only [Ctx.setAll, bind, Except.bind] at h
    cases h1 : c.setItem k v with
    | error e => rw [h1] at h; simp at h
    | ok c1 =>
      rw [h1] at h
      obtain ⟨e1, hk⟩ := setItem_ok h1
      obtain ⟨hb, ht, hh⟩ := setAll_ok rest c1 c' h
      subst e1
      refine ⟨hb, ?_, ?_⟩
      · rw [ht]; rfl
      · intro k'; rw [hh, has_after_set c k k' v hk]

theorem setAll_err : ∀ (kw : List (Str × CVal)) (c : Ctx) (e : PyErr), c.setAll kw = .error e →
    e = .keyError
  | [], c, e, h => by simp [Ctx.setAll, pure, Except.pure] at h
  | (k, v) :: rest, c, e, h => by
    simp only [Ctx.setAll, bind, Except.bind] at h
    cases h1 : c.setItem k v with
    | error e1 => rw [h1] at h; simp at h; subst h; exact (setItem_err h1).1
    | ok c1 => rw [h1] at h; exact setAll_err rest c1 e h

/-- when every key is known, `setAll` cannot fail -/
theorem setAll_total : ∀ (kw : List (Str × CVal)) (c : Ctx), (kw.all (fun kv => c.has kv.1)) = true →
    ∃ c', c.setAll kw = .ok c'
  | [], c, _ => ⟨c, rfl⟩
  | (k, v) :: rest, c, h => by
    simp only [List.all_cons, Bool.and_eq_true] at h
    have hk : c.has k = true := h.1
    have h1 : c.setItem k v = .ok { c with top := Dict.set c.top k v } := by
      simp [Ctx.setItem, hk, pure, Except.pure]
    have h2 : (rest.all fun kv => ({ c with top := Dict.set c.top k v } : Ctx).has kv.1) = true := by
      rw [List.all_eq_true] at h ⊢
      intro kv hkv
      rw [has_after_set c k kv.1 v hk]; exact h.2 kv hkv
    obtain ⟨c', hc'⟩ := setAll_total rest _ h2
    exact ⟨c', by simp only [Ctx.setAll, bind, Except.bind, h1]; exact hc'⟩

theorem update_ok {c c' : Ctx} {kw : List (Str × CVal)} (h : c.update kw = .ok c') :
    c'.below = c.below ∧ c'.top = applyLog c.top kw ∧ (∀ k, c'.has k = c.has k) := by
  unfold Ctx.update at h
  split at h
  · exact setAll_ok kw c c' h
  · simp [throw, throwThe, MonadExceptOf.throw] at h

theorem update_err {c : Ctx} {kw : List (Str × CVal)} {e : PyErr} (h : c.update kw = .error e) :
    e = .keyError := by
  unfold Ctx.update at h
  split at h
  · exact setAll_err kw c e h
  · simp [throw, throwThe, MonadExceptOf.throw] at h; exact h.symm

/-- `update` fails exactly when some key is unknown -/
theorem update_unknown {c : Ctx} {kw : List (Str × CVal)} (h : ∃ kv ∈ kw, c.has kv.1 = false) :
    c.update kw = .error .keyError := by
  unfold Ctx.update
  have : (kw.all fun kv => c.has kv.1) = false := by
    rw [Bool.eq_false_iff]; intro hall
    rw [List.all_eq_true] at hall
    obtain ⟨kv, hkv, hf⟩ := h
    rw [hall kv hkv] at hf; simp at hf
  simp [this, throw, throwThe, MonadExceptOf.throw]

theorem update_known {c : Ctx} {kw : List (Str × CVal)} (h : (kw.all fun kv => c.has kv.1) = true) :
    ∃ c', c.update kw = .ok c' := by
  unfold Ctx.update
  simp only [h, if_true]
  exact setAll_total kw c h

end Flatland.C19.Proofs
