/-
C01, general (pruning) form: scalar leaves, joined values and arrays of scalars.
-/
import Proofs.Lemmas.C01PBasics
namespace Flatland.Flat.Proofs
open Flatland.Flat Flatland.Flat.Spec

variable {env : Env} {sep : Str} {T : Str → Prop}

theorem rtp_leaf (nm : Option Str) (o : Bool) (k : Nat) : RTP env sep (.leaf nm o k) := by
  intro u e hok
  cases e with
  | leaf t =>
    simp only [OkP] at hok
    have hr : resolve env (.leaf nm o k) (.leaf t) = .mk nm true true t false [] := by
      unfold resolve; rfl
    rw [hr, relFlat_leaf nm true t [] (Or.inr rfl)]
    simp only [List.filter_cons, List.filter_nil, keepP]
    by_cases hk : (!u || !t.isEmpty) = true
    · simp only [hk, if_true, toKeys, List.map_cons, List.map_nil, setFlat, List.find?_cons,
        tokKey_name, hok, pr]
    · simp only [hk, if_false, Bool.false_eq_true, toKeys, List.map_nil, setFlat, List.find?_nil, pr, blank]
      have : t = [] := by
        cases t with
        | nil => rfl
        | cons a as => cases u <;> simp at hk
      rw [this]
  | _ => simp [OkP] at hok

theorem rtp_joined (nm : Option Str) (o : Bool) (k : Nat) (m : Schema) : RTP env sep (.joined nm o k m) := by
  intro u e hok
  cases e with
  | joined t ms =>
    simp only [OkP] at hok
    have hr : resolve env (.joined nm o k m) (.joined t ms)
        = .mk nm true false t false (resolveList env m ms) := by
      unfold resolve; rfl
    rw [hr, relFlat_leaf nm false t _ (Or.inl rfl)]
    simp only [List.filter_cons, List.filter_nil, keepP]
    by_cases hk : (!u || !t.isEmpty) = true
    · have hnot : (u && t.isEmpty) = false := by
        cases u <;> cases hte : t.isEmpty <;> simp_all
      simp only [hk, if_true, toKeys, List.map_cons, List.map_nil, setFlat, List.find?_cons,
        tokKey_name, hok.1, pr, hnot, Bool.false_eq_true, if_false]
    · have hyes : (u && t.isEmpty) = true := by
        cases u <;> cases hte : t.isEmpty <;> simp_all
      simp only [hk, if_false, Bool.false_eq_true, toKeys, List.map_nil, setFlat, List.find?_nil, pr,
        blank, hyes, if_true]
  | _ => simp [OkP] at hok

/-! ### arrays -/

theorem emitsB_leaf (env : Env) (u : Bool) (cn : Option Str) (o : Bool) (k : Nat) (t : Str) :
    emitsB env u (.leaf cn o k) (.leaf t) = (!u || !t.isEmpty) := by
  have hr : resolve env (.leaf cn o k) (.leaf t) = .mk cn true true t false [] := by
    unfold resolve; rfl
  cases hb : (!u || !t.isEmpty) with
  | true =>
    apply (emitsB_iff env u _ _).mpr
    rw [hr, relFlat_leaf cn true t [] (Or.inr rfl)]
    simp [keepP, hb]
  | false =>
    apply (emitsB_false_iff env u _ _).mpr
    rw [hr, relFlat_leaf cn true t [] (Or.inr rfl)]
    simp [keepP, hb]

theorem resolveList_leavesP (env : Env) (cn : Option Str) (o : Bool) (k : Nat) (ms : List Elem)
    (h : ∀ e ∈ ms, OkP env (.leaf cn o k) e) :
    resolveList env (.leaf cn o k) ms = (leafTexts ms).map (fun u => FNode.mk cn true true u false [])
    ∧ ms = (leafTexts ms).map Elem.leaf ∧ ∀ u ∈ leafTexts ms, env.norm k u = u := by
  induction ms with
  | nil => simp [resolveList, leafTexts]
  | cons e es ih =>
    have he := h e (by simp)
    have ih' := ih (fun x hx => h x (List.mem_cons_of_mem _ hx))
    cases e with
    | leaf u =>
      simp only [OkP] at he
      refine ⟨?_, ?_, ?_⟩
      · simp only [resolveList, leafTexts, List.map_cons, ih'.1]
        congr 1
        unfold resolve; rfl
      · simp only [leafTexts, List.map_cons]; rw [← ih'.2.1]
      · intro v hv
        simp only [leafTexts, List.mem_cons] at hv
        rcases hv with rfl | hv
        · exact he
        · exact ih'.2.2 v hv
    | _ => simp [OkP] at he

/-- what an Array rebuilds from the pairs of its members that survive `u`, when its own prune filter
    is `p` -/
theorem arrayAnon_leavesP (sep : Str) (setM : Pairs → Elem) (prune : Bool) (cn : Option Str)
    (hcn : ∀ c, cn = some c → c ≠ []) (us : List Str) (hset : ∀ u ∈ us, setM [(cn, u)] = .leaf u) :
    arrayAnon setM prune cn (us.map (fun u => (tokKey sep cn.toList, u)))
      = (us.filter (fun t => !(prune && cn.isSome) || !t.isEmpty)).map Elem.leaf := by
  induction us with
  | nil => simp [arrayAnon]
  | cons t us ih =>
    have ih' := ih (fun v hv => hset v (List.mem_cons_of_mem _ hv))
    have ht := hset t (by simp)
    rw [List.map_cons, arrayAnon_cons, ih', List.filter_cons]
    cases cn with
    | none =>
      have : arrayAnon setM prune none [(tokKey sep (none : Option Str).toList, t)] = [Elem.leaf t] := by
        simp only [arrayAnon, Option.toList, tokKey, truthy]
        simp [ht]
      rw [this]
      simp
    | some c =>
      have hc := hcn c rfl
      have htr : truthy (some c) = true := by
        cases c with
        | nil => exact absurd rfl hc
        | cons a as => rfl
      have hk : tokKey sep (some c).toList = some c := by simp [tokKey, joinSep]
      have hne : (some c == some ([] : Str)) = false := by simp; exact hc
      by_cases hp : (prune && t.isEmpty) = true
      · have : arrayAnon setM prune (some c) [(tokKey sep (some c).toList, t)] = [] := by
          simp only [arrayAnon, hk, htr, if_true, Option.getD_some, beq_self_eq_true, Bool.and_true, hp]
        rw [this]
        have hp' : (!(prune && (some c).isSome) || !t.isEmpty) = false := by
          cases prune <;> cases hte : t.isEmpty <;> simp_all
        simp only [hp', Bool.false_eq_true, if_false, List.nil_append]
      · have hpf : (prune && t.isEmpty) = false := by simpa using hp
        have : arrayAnon setM prune (some c) [(tokKey sep (some c).toList, t)] = [Elem.leaf t] := by
          simp only [arrayAnon, hk, htr, if_true, Option.getD_some, beq_self_eq_true, Bool.and_true, hpf,
            Bool.false_eq_true, if_false, hne, bne_self_eq_false, Bool.and_false, Bool.not_true,
            Bool.false_and, ht]
        rw [this]
        have hp' : (!(prune && (some c).isSome) || !t.isEmpty) = true := by
          cases prune <;> cases hte : t.isEmpty <;> simp_all
        simp only [hp', if_true, List.map_cons, List.singleton_append]

theorem arrayNamed_leavesP (hs : SepSafe env sep T) (setM : Pairs → Elem) (prune : Bool) (x : Str)
    (cn : Option Str) (hcn : ∀ c, cn = some c → c ≠ []) (us : List Str)
    (hset : ∀ u ∈ us, setM [(cn, u)] = .leaf u) :
    arrayNamed setM sep prune x cn (us.map (fun u => (tokKey sep (x :: cn.toList), u)))
      = (us.filter (fun t => !prune || !t.isEmpty)).map Elem.leaf := by
  induction us with
  | nil => simp [arrayNamed]
  | cons t us ih =>
    have ih' := ih (fun v hv => hset v (List.mem_cons_of_mem _ hv))
    have ht := hset t (by simp)
    rw [List.map_cons, arrayNamed_cons, ih', List.filter_cons]
    have hone : arrayNamed setM sep prune x cn [(tokKey sep (x :: cn.toList), t)]
        = if (prune && t.isEmpty) = true then [] else [Elem.leaf t] := by
      simp only [arrayNamed, tokKey_cons]
      cases cn with
      | none =>
        simp only [Option.toList, joinSep_single, arrayRemainder_self hs x]
        simp [truthy, ht]
      | some c =>
        have hc := hcn c rfl
        have htr : truthy (some c) = true := by
          cases c with
          | nil => exact absurd rfl hc
          | cons a as => rfl
        have hj : joinSep sep (x :: (some c).toList) = x ++ sep ++ c := by simp [joinSep]
        simp only [hj, arrayRemainder_member x c hc, htr]
        simp [ht]
    rw [hone]
    by_cases hp : (prune && t.isEmpty) = true
    · have hp' : (!prune || !t.isEmpty) = false := by
        cases prune <;> cases hte : t.isEmpty <;> simp_all
      simp [hp, hp']
    · have hp' : (!prune || !t.isEmpty) = true := by
        cases prune <;> cases hte : t.isEmpty <;> simp_all
      simp [hp, hp']

end Flatland.Flat.Proofs

namespace Flatland.Flat.Proofs
open Flatland.Flat Flatland.Flat.Spec

variable {env : Env} {sep : Str} {T : Str → Prop}

theorem filter_leaf_map (us : List Str) (P : Str → Bool) :
    (us.map Elem.leaf).filter (fun m => match m with | .leaf t => P t | _ => true)
      = (us.filter P).map Elem.leaf := by
  induction us with
  | nil => rfl
  | cons t us ih =>
    simp only [List.map_cons, List.filter_cons, ih]
    split <;> rfl

theorem rtp_array (hs : SepSafe env sep T) (nm : Option Str) (hnm : ∀ x, nm = some x → x ≠ [])
    (o prune : Bool) (member : Schema) (hmn : ∀ c, member.name = some c → c ≠ []) :
    RTP env sep (.array nm o prune member) := by
  intro u e hok
  cases e with
  | array ms =>
    simp only [OkP] at hok
    obtain ⟨⟨cn, mo, k, hm⟩, hmem⟩ := hok
    subst hm
    simp only [Schema.name] at hmn
    obtain ⟨hkids, hms, hnorm⟩ := resolveList_leavesP env cn mo k ms hmem
    have hr : resolve env (.array nm o prune (.leaf cn mo k)) (.array ms)
        = .mk nm false true [] false (resolveList env (.leaf cn mo k) ms) := by
      unfold resolve; rfl
    rw [hr, relFlat_eq]
    simp only [ownPath, FNode.fl, Bool.false_eq_true, if_false, List.nil_append, pushed, FNode.cfl,
      if_true, childItems, FNode.slots, FNode.kids, namePath, FNode.name, List.nil_append]
    rw [kidsFrom_noslots, hkids, List.map_map]
    have := bfsPath_leaves nm.toList cn (leafTexts ms)
    simp only [Function.comp_def] at this ⊢
    rw [this]
    -- the pairs that survive `u`
    have hfil : ((leafTexts ms).map (fun t => ((nm.toList ++ cn.toList, t) : PPair))).filter (keepP u)
        = ((leafTexts ms).filter (fun t => !u || !t.isEmpty)).map (fun t => (nm.toList ++ cn.toList, t)) := by
      rw [List.filter_map]; rfl
    rw [hfil]
    have hset : ∀ t ∈ (leafTexts ms).filter (fun t => !u || !t.isEmpty),
        (fun g => setFlat env sep (.leaf cn mo k) (blank (.leaf cn mo k)) g) [(cn, t)] = .leaf t :=
      fun t ht => setFlat_leaf_single env sep cn mo k t (hnorm t (List.mem_filter.mp ht).1)
    simp only [toKeys, List.map_map, Function.comp_def]
    rw [setFlat]
    simp only [Schema.name]
    -- what the specification keeps
    have hpr : pr env u (.array nm o prune (.leaf cn mo k)) (.array ms)
        = .array (((leafTexts ms).filter
            (fun t => !(u || arrayPrunes nm prune (.leaf cn mo k)) || !t.isEmpty)).map Elem.leaf) := by
      simp only [pr]
      congr 1
      conv => lhs; rw [hms]
      rw [← filter_leaf_map]
      apply List.filter_congr
      intro m hm
      obtain ⟨t, _, rfl⟩ := List.mem_map.mp hm
      exact emitsB_leaf env _ cn mo k t
    rw [hpr]
    cases nm with
    | none =>
      simp only [truthy, Bool.not_false, if_true]
      have := arrayAnon_leavesP sep (fun g => setFlat env sep (.leaf cn mo k) (blank (.leaf cn mo k)) g)
        prune cn hmn _ hset
      simp only [Option.toList, List.nil_append] at this ⊢
      rw [this, List.filter_filter]
      congr 2
      apply List.filter_congr
      intro t _
      simp only [arrayPrunes, Schema.name, Option.isNone_none, Bool.true_and]
      cases u <;> cases prune <;> cases cn <;> cases t.isEmpty <;> rfl
    | some x =>
      have hx := hnm x rfl
      have htr : truthy (some x) = true := by
        cases x with
        | nil => exact absurd rfl hx
        | cons a as => rfl
      simp only [htr, Bool.not_true, Bool.false_eq_true, if_false, Option.getD_some]
      have := arrayNamed_leavesP hs (fun g => setFlat env sep (.leaf cn mo k) (blank (.leaf cn mo k)) g)
        prune x cn hmn _ hset
      simp only [Option.toList, List.singleton_append] at this ⊢
      rw [this, List.filter_filter]
      congr 2
      apply List.filter_congr
      intro t _
      simp only [arrayPrunes, Schema.name, Option.isNone_some, Bool.false_and, Bool.not_false, Bool.and_true]
      cases u <;> cases prune <;> cases t.isEmpty <;> rfl
  | _ => simp [OkP] at hok

end Flatland.Flat.Proofs
