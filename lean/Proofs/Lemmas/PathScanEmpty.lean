/-
The scanner and the token loop on absolute paths whose segments may be EMPTY (05c4adc: an unnamed
child of a mapping is spelled by the empty step, `'//x'`, `'/l/0//'`, `'///y'`).

`fq_name()` emits `'/' + '/'.join(parts)` and one more slash when the last part is empty.  Read from
the left, after the leading slash (TOP), this is: every segment followed by a slash, except a
non-empty last one (`sufJoin`).  In that grouping every segment yields exactly ONE op:

* a non-empty segment `s` followed by `/`: tokens `s`, `/` — NAME unescape(s), and the slash (its
  `last` is `s`, not a slash) emits nothing;
* an empty segment: the token `/` alone, with `last == '/'` — NAME None (the None of an empty
  segment is emitted by the slash that CLOSES it, hence the trailing slash of its own).

`tokenize_sufJoin`: `tokenize ('/' :: sufJoin segs) = [TOP] ++ [stepOp seg | seg in segs]`.
-/
import Flatland.Path
import Proofs.Lemmas.PathScan
namespace Flatland.Path.Lemmas
open Flatland.Path

/-- every segment followed by a slash, except a non-empty last one -/
def sufJoin : List Str → Str
  | [] => []
  | [s] => if s.isEmpty then ['/'] else s
  | s :: r => s ++ '/' :: sufJoin r

theorem sufJoin_cons2 (s s2 : Str) (r : List Str) :
    sufJoin (s :: s2 :: r) = s ++ '/' :: sufJoin (s2 :: r) := rfl

/-- `'/'.join(parts)` plus the slash of a trailing empty step = `sufJoin` -/
theorem joinSlash_sufJoin : ∀ l : List Str,
    joinSlash l ++ (if lastEmpty l then ['/'] else []) = sufJoin l
  | [] => by simp [joinSlash, lastEmpty, sufJoin]
  | [s] => by
    cases s with
    | nil => simp [joinSlash, lastEmpty, sufJoin]
    | cons c r => simp [joinSlash, lastEmpty, sufJoin]
  | s :: s2 :: r => by
    have ih := joinSlash_sufJoin (s2 :: r)
    have hl : lastEmpty (s :: s2 :: r) = lastEmpty (s2 :: r) := by
      simp [lastEmpty, List.getLast?_cons_cons]
    rw [sufJoin_cons2, ← ih, hl]
    simp [joinSlash]

/-- the op of one step: the empty step is `(NAME, None)` -/
def stepData (s : Str) : Option Str := if s.isEmpty then none else some (unescape s)

def stepOp (s : Str) : Op := .name (stepData s)

/-- segments are clean name runs (the empty one included); only the last may end in a lone backslash -/
def SufOK : List Str → Prop
  | [] => True
  | [s] => cleanB true s = true
  | s :: r => cleanB false s = true ∧ SufOK r

/-- the raw tokens of `sufJoin segs` -/
def rawSuf : List Str → List RawTok
  | [] => []
  | [s] => if s.isEmpty then [(['/'], [])] else [(s, [])]
  | s :: r => (if s.isEmpty then [] else [(s, [])]) ++ (['/'], []) :: rawSuf r

theorem rawSuf_cons2 (s s2 : Str) (r : List Str) :
    rawSuf (s :: s2 :: r) = (if s.isEmpty then [] else [(s, [])]) ++ (['/'], []) :: rawSuf (s2 :: r) := rfl

theorem scan_nil (prev : Option Char) : scan prev [] = [] := by simp [scan]

theorem scan_suf : ∀ (segs : List Str) (prev : Option Char), SufOK segs → prev ≠ some '\\' →
    scan prev (sufJoin segs) = rawSuf segs
  | [], prev, _, _ => by simp [sufJoin, rawSuf, scan]
  | [s], prev, hok, hp => by
    cases s with
    | nil =>
      simp only [sufJoin, rawSuf, List.isEmpty_nil, if_true]
      rw [scan_cons, scanStep_slash prev _ hp]
      simp [scan]
    | cons c r =>
      simp only [sufJoin, rawSuf, List.isEmpty_cons, Bool.false_eq_true, if_false]
      rw [scan_cons]
      have := scanStep_seg true prev c r [] hok (Or.inl rfl) (fun _ => rfl)
      simp only [List.append_nil] at this
      rw [this]
      simp [scan]
  | s :: s2 :: rest, prev, hok, hp => by
    obtain ⟨hc, hrest⟩ := hok
    rw [sufJoin_cons2, rawSuf_cons2]
    cases s with
    | nil =>
      simp only [List.nil_append, List.isEmpty_nil, if_true]
      rw [scan_cons, scanStep_slash prev _ hp]
      simp only [List.drop_zero]
      rw [scan_suf (s2 :: rest) _ hrest (by simp)]
      simp
    | cons c r =>
      simp only [List.isEmpty_cons, Bool.false_eq_true, if_false, List.cons_append, List.nil_append]
      rw [scan_cons]
      have hso : SlashOrEnd ('/' :: sufJoin (s2 :: rest)) := Or.inr ⟨_, Or.inl rfl⟩
      have := scanStep_seg false prev c r _ hc hso (fun h => by cases h)
      rw [this]
      simp only [List.drop_left']
      have hprev : (some ((c :: (r ++ '/' :: sufJoin (s2 :: rest))).getD r.length c)) ≠ some '\\' := by
        rw [getD_last]
        have hl := clean_getLast _ (c :: r) (Nat.le_refl _) hc
        cases hg : (c :: r).getLast? with
        | none => simp at hg
        | some x =>
          rw [hg] at hl
          simpa using hl
      rw [scan_cons, scanStep_slash _ _ hprev]
      simp only [List.drop_zero]
      rw [scan_suf (s2 :: rest) _ hrest (by simp)]
      simp

/-! ### the token loop -/

/-- a slash directly after a slash: `(NAME, None)` -/
theorem tokStep_slash_slash (st : TState) (h : st.last = some ['/']) :
    tokStep st (['/'], []) = .ok { st with toks := .name none :: st.toks, last := some ['/'] } := by
  simp [tokStep, h]

/-- one step per segment, from a state whose last token is a slash -/
theorem tokLoop_suf : ∀ (segs : List Str) (st : TState),
    st.last = some ['/'] → (∀ s ∈ segs, s = [] ∨ PlainSeg s) →
    ∃ l, tokLoop st (rawSuf segs) =
      .ok { toks := (segs.map stepOp).reverse ++ st.toks, last := l, canonical := st.canonical }
  | [], st, hl, _ => by
    rcases st with ⟨toks, last, canonical⟩
    exact ⟨last, by simp [rawSuf, tokLoop]⟩
  | [s], st, hl, hs => by
    cases s with
    | nil =>
      refine ⟨some ['/'], ?_⟩
      simp only [rawSuf, List.isEmpty_nil, if_true, tokLoop]
      rw [tokStep_slash_slash st hl]
      simp [stepOp, stepData]
    | cons c r =>
      have hps : PlainSeg (c :: r) := by
        rcases hs (c :: r) (by simp) with h | h
        · cases h
        · exact h
      refine ⟨some (c :: r), ?_⟩
      simp only [rawSuf, List.isEmpty_cons, Bool.false_eq_true, if_false, tokLoop]
      rw [tokStep_seg st _ hps]
      simp [stepOp, stepData]
  | s :: s2 :: rest, st, hl, hs => by
    rw [rawSuf_cons2]
    cases s with
    | nil =>
      simp only [List.isEmpty_nil, if_true, List.nil_append, tokLoop]
      rw [tokStep_slash_slash st hl]
      simp only
      obtain ⟨l, ih⟩ := tokLoop_suf (s2 :: rest) { st with toks := .name none :: st.toks, last := some ['/'] }
        rfl (fun x hx => hs x (by simp only [List.mem_cons] at hx ⊢; exact Or.inr hx))
      refine ⟨l, ?_⟩
      rw [ih]
      simp [stepOp, stepData]
    | cons c r =>
      have hps : PlainSeg (c :: r) := by
        rcases hs (c :: r) (by simp) with h | h
        · cases h
        · exact h
      simp only [List.isEmpty_cons, Bool.false_eq_true, if_false, List.cons_append, List.nil_append, tokLoop]
      rw [tokStep_seg st _ hps]
      simp only
      rw [tokStep_slash_after _ (c :: r) rfl hps.1]
      simp only
      obtain ⟨l, ih⟩ := tokLoop_suf (s2 :: rest)
        { st with toks := .name (some (unescape (c :: r))) :: st.toks, last := some ['/'] }
        rfl (fun x hx => hs x (by simp only [List.mem_cons] at hx ⊢; exact Or.inr hx))
      refine ⟨l, ?_⟩
      rw [ih]
      simp [stepOp, stepData]

/-- **`tokenize('/' + seg/seg/.../)`** with empty segments: TOP, then one op per segment — NAME None for
    an empty one, NAME unescape(seg) otherwise -/
theorem tokenize_sufJoin (segs : List Str) (hok : SufOK segs) (hp : ∀ s ∈ segs, s = [] ∨ PlainSeg s) :
    tokenize ('/' :: sufJoin segs) = .ok (Op.top :: segs.map stepOp) := by
  unfold tokenize
  rw [scan_cons, scanStep_slash none _ (by simp)]
  simp only [List.drop_zero, Option.toList_some, List.cons_append, List.nil_append]
  rw [scan_suf segs _ hok (by simp)]
  simp only [tokLoop]
  rw [tokStep_slash_first _ rfl]
  simp only
  obtain ⟨l, h⟩ := tokLoop_suf segs { toks := [Op.top], last := some ['/'], canonical := true } rfl hp
  rw [h]
  simp

/-- `'//'`, `'///y'`, `'/l/0//'`, `'/a//b'` -/
example : tokenize ['/', '/'] = .ok [.top, .name none] :=
  tokenize_sufJoin [[]] (by simp only [SufOK]; rw [cleanB.eq_def]) (by simp)

end Flatland.Path.Lemmas
