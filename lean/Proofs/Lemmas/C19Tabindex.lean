/-
Tabindex values are handed out in strictly increasing order within a scope.
-/
import Proofs.Lemmas.C19Stack
namespace Flatland.C19.Proofs
open Flatland.Markup Flatland.C19 Flatland.C19.Spec

/-- `generator["tabindex"]` when it is an int -/
def counter (g : Gen) : Option Int :=
  match g.ctx.getItem sTabindex with
  | .ok (.int n) => some n
  | _ => none

/-- the automatic tabindex values handed out along a history OF TAG CALLS: a tag call hands out the
    counter value exactly when it writes the counter back.  (On other ops the function also emits
    the counter whenever the context changes: it is only used under `isTag` everywhere; mixed
    histories are handled by `scopeHanded`, `Proofs/Lemmas/C19Scope.lean`.) -/
def handed (T : Tables) (R : RenderCfg) : Gen → List Op → List Int
  | _, [] => []
  | g, op :: rest =>
    (if (step T R g op).1.ctx = g.ctx then []
     else match counter g with
       | some n => [n]
       | none => []) ++ handed T R (step T R g op).1 rest

def isTag : Op → Bool
  | .tag _ _ _ => true
  | _ => false

/-- one tag call: the counter stays, or the call hands out the positive counter `n` and stores `n+1` -/
theorem tag_counter (T : Tables) (R : RenderCfg) (g : Gen) (name : Str) (bnd : Option Bind)
    (kwargs : List (Str × Val)) :
    (step T R g (.tag name bnd kwargs)).1.ctx = g.ctx ∨
    ∃ n : Int, n > 0 ∧ counter g = some n ∧ counter (step T R g (.tag name bnd kwargs)).1 = some (n + 1) := by
  obtain ⟨g', o, hst, _, hctx⟩ := step_tag_effect T R g name bnd kwargs
  rw [hst]
  rcases hctx with heq | ⟨n, hn, hg, hs⟩
  · left; exact heq
  · right
    obtain ⟨e, _⟩ := setItem_ok hs
    refine ⟨n, hn, by simp [counter, hg], ?_⟩
    simp only [counter]
    rw [e]
    simp [Ctx.getItem, Dict.get?_set_self, pure, Except.pure]

/-- TABINDEX INCREASING: along any sequence of tag calls made in one scope (no other call in
    between), starting from a positive counter `n`, the values handed out are strictly increasing
    and all ≥ `n` -/
theorem tabindex_increasing (T : Tables) (R : RenderCfg) : ∀ (ops : List Op) (g : Gen) (n : Int),
    ops.all isTag = true → counter g = some n → n > 0 →
    (handed T R g ops).Pairwise (· < ·) ∧ ∀ x ∈ handed T R g ops, n ≤ x
  | [], _, _, _, _, _ => by simp [handed]
  | op :: rest, g, n, hall, hc, hn => by
    simp only [List.all_cons, Bool.and_eq_true] at hall
    cases op with
    | tag name bnd kwargs =>
      simp only [handed]
      rcases tag_counter T R g name bnd kwargs with hsame | ⟨m, hm, hcm, hcm'⟩
      · have hc' : counter (step T R g (.tag name bnd kwargs)).1 = some n := by
          simp only [counter, hsame] at hc ⊢; exact hc
        obtain ⟨ih1, ih2⟩ := tabindex_increasing T R rest _ n hall.2 hc' hn
        simp only [hsame, if_true, List.nil_append]
        exact ⟨ih1, ih2⟩
      · have : m = n := by rw [hc] at hcm; simp at hcm; exact hcm.symm
        subst this
        obtain ⟨ih1, ih2⟩ := tabindex_increasing T R rest _ (m + 1) hall.2 hcm' (by omega)
        by_cases hsame : (step T R g (.tag name bnd kwargs)).1.ctx = g.ctx
        · -- impossible: the counter changed
          exfalso
          simp only [counter, hsame] at hcm'
          simp only [counter] at hc
          rw [hcm'] at hc; simp at hc; omega
        · simp only [hsame, if_false, hc, List.singleton_append]
          refine ⟨List.pairwise_cons.mpr ⟨fun x hx => by have := ih2 x hx; omega, ih1⟩, ?_⟩
          intro x hx
          simp only [List.mem_cons] at hx
          rcases hx with rfl | hx
          · omega
          · have := ih2 x hx; omega
    | _ => simp [isTag] at hall

end Flatland.C19.Proofs
