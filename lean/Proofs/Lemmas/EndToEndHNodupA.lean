/-
END TO END — `HNodupA` (C02's hereditary "no key twice" with the Arrays exempt, Proofs/C02OrderStable.lean)
of an element's own flat pairs, WITHOUT the hypothesis `narrowB`:

    hnodupA_flatten : SepSafe … → EnvOK env → wf s → rootOK s → OkS env s e →
                      HNodupA env sep s (wrap (flatten env sep s e))

The bridge proof of `EndToEndHNodup.lean` once more; the Array case — the only one that used
`narrowB` — is `True` by the definition of `HNodupA`.
-/
import Proofs.Lemmas.EndToEndHNodup
import Proofs.C02OrderStable
namespace Flatland.Flat.Proofs
open Flatland.Flat Flatland.Flat.Spec Flatland.EndToEnd
/-! ### no pairs at all -/

mutual
theorem hnodupA_nil (env : Env) (sep : Str) : ∀ s : Schema, HNodupA env sep s []
  | .leaf .. => by simp [HNodupA]
  | .joined .. => by simp [HNodupA]
  | .dict name _ _ fields => by
    simp only [HNodupA, possibles_nil]; exact hnodupAFields_nil env sep fields
  | .compound name _ _ fields => by
    simp only [HNodupA, possibles_nil]; exact hnodupAFields_nil env sep fields
  | .list name _ prune _ member => by
    simp only [HNodupA]
    intro i
    have : groupOf env sep name prune i [] = [] := rfl
    rw [this]; exact hnodupA_nil env sep member
  | .array name _ prune member => by simp only [HNodupA]
theorem hnodupAFields_nil (env : Env) (sep : Str) : ∀ fs : List Schema, HNodupAFields env sep fs []
  | [] => by simp [HNodupAFields]
  | f :: fs => by
    simp only [HNodupAFields, List.filter_nil]
    exact ⟨hnodupA_nil env sep f, hnodupAFields_nil env sep fs⟩
end

/-- field by field -/
theorem hnodupAFields_of_forall (env : Env) (sep : Str) (poss : List (Str × Str)) : ∀ fs : List Schema,
    (∀ f ∈ fs, HNodupA env sep f (wrap (poss.filter (fun p => isPrefix (f.name.getD []) p.1)))) →
    HNodupAFields env sep fs poss
  | [], _ => by simp [HNodupAFields]
  | f :: fs, h => by
    simp only [HNodupAFields]
    exact ⟨h f (by simp), hnodupAFields_of_forall env sep poss fs (fun g hg => h g (List.mem_cons_of_mem _ hg))⟩

/-! ### `HNodupA` only looks at the pairs that pass the element's own first test -/

theorem hnodupA_reach (env : Env) (sep : Str) (s : Schema) (ps : Pairs) :
    HNodupA env sep s (ps.filter (fun p => reach env sep s p.1)) ↔ HNodupA env sep s ps := by
  cases s with
  | leaf name o k => simp only [HNodupA, reach, List.filter_filter, Bool.and_self]
  | joined name o k m => simp only [HNodupA, reach, List.filter_filter, Bool.and_self]
  | dict name o mode fields => simp only [HNodupA, reach, possibles_filter]
  | compound name o k fields => simp only [HNodupA, reach, possibles_filter]
  | list name o prune mx member => simp only [HNodupA, reach, groupOf_filter]
  | array name o prune member => simp only [HNodupA]

/-! ### the statement for one schema -/

/-- the element's own surviving pairs satisfy the hereditary "no key twice" whenever no Array of the
    state has two members -/
def HNSA (env : Env) (sep : Str) (s : Schema) : Prop :=
  ∀ (u : Bool) (e : Elem), OkS env s e →
    HNodupA env sep s (toKeys sep ((relFlat (resolve env s e)).filter (keepP u)))

variable {env : Env} {sep : Str} {T : Str → Prop}

theorem hnsa_leaf (nm : Option Str) (o : Bool) (k : Nat) : HNSA env sep (.leaf nm o k) := by
  intro u e hok
  cases e with
  | leaf t =>
    have hr : resolve env (.leaf nm o k) (.leaf t) = .mk nm true true t false [] := by
      unfold resolve; rfl
    rw [hr, relFlat_leaf nm true t [] (Or.inr rfl)]
    simp only [HNodupA]
    exact Nat.le_trans (List.length_filter_le _ _) (toKeys_filter_length_le sep u _)
  | _ => simp [OkS, OkP] at hok

theorem hnsa_joined (nm : Option Str) (o : Bool) (k : Nat) (m : Schema) : HNSA env sep (.joined nm o k m) := by
  intro u e hok
  cases e with
  | joined t ms =>
    have hr : resolve env (.joined nm o k m) (.joined t ms)
        = .mk nm true false t false (resolveList env m ms) := by
      unfold resolve; rfl
    rw [hr, relFlat_leaf nm false t _ (Or.inl rfl)]
    simp only [HNodupA]
    exact Nat.le_trans (List.length_filter_le _ _) (toKeys_filter_length_le sep u _)
  | _ => simp [OkS, OkP] at hok

theorem hnsa_array (nm : Option Str) (o prune : Bool) (member : Schema) :
    HNSA env sep (.array nm o prune member) := by
  intro u e _
  simp only [HNodupA]

section field
variable (hs : SepSafe env sep T)
include hs

/-- **one field.**  What `Mapping._set_flat` hands to the declared field `f` — every stripped key that
    merely starts with its name — satisfies `HNodupA f`, when the member held under that name does
    (with its own output) -/
theorem field_hnodupA (fields : List Schema) (hnd : (namesOf fields).Nodup)
    (htok : ∀ g ∈ fields, ∃ x, g.name = some x ∧ T x)
    (ms : List (Str × Elem)) (hkeys : (ms.map (·.1)).Nodup)
    (hmem : ∀ p ∈ ms, OkSAny env fields p.1 p.2)
    (f : Schema) (hf : f ∈ fields) (nm : Str) (hname : f.name = some nm)
    (hrt : HNSA env sep f) (u : Bool) :
    HNodupA env sep f
      (wrap ((((bfsPath ((kidsS env fields ms).map (fun k => (([], k) : QItem)))).filter (keepP u)).map
        (joinPair sep)).filter (fun p => isPrefix nm p.1))) := by
  obtain ⟨nm', hnm', hT⟩ := htok f hf
  rw [hname] at hnm'
  have : nm' = nm := by injection hnm' with h; exact h.symm
  subst this
  have hkids : ∀ k ∈ kidsS env fields ms, ∃ y, k.name = some y ∧ T y := by
    intro k hk
    obtain ⟨y, h1, h2, _⟩ := kidsS_names htok hk
    exact ⟨y, h1, h2⟩
  -- selection: after the field's own first test only the member's own pairs are left
  generalize hQ : (kidsS env fields ms).map (fun k => (([], k) : QItem)) = Q
  have hQne : ∀ it ∈ Q, namePath it.1 it.2 ≠ [] := by
    intro it hit; rw [← hQ] at hit
    obtain ⟨k, hk, rfl⟩ := List.mem_map.mp hit
    obtain ⟨y, hy, _⟩ := hkids k hk
    simp [namePath, hy]
  have hhead : ∀ x ∈ bfsPath Q, ∃ y ext, T y ∧ x.1 = y :: ext := by
    intro x hx
    obtain ⟨it, hit, ext, he⟩ := bfsPath_mem Q x hx
    rw [← hQ] at hit
    obtain ⟨k, hk, rfl⟩ := List.mem_map.mp hit
    obtain ⟨y, hy, hTy⟩ := hkids k hk
    exact ⟨y, ext, hTy, by simp [he, namePath, hy]⟩
  have hpred : ∀ x ∈ bfsPath Q,
      (isPrefix nm' (joinPair sep x).1 && reach env sep f (some (joinPair sep x).1))
        = ((x.1.head? == some nm') && reach env sep f (some (joinPair sep x).1)) := by
    intro x hx
    obtain ⟨y, ext, hTy, hxe⟩ := hhead x hx
    simp only [joinPair, hxe, List.head?_cons]
    by_cases hyn : y = nm'
    · subst hyn; simp [isPrefix_tok_self]
    · rw [reach_other_head hs f nm' hname hT y hTy hyn ext]; simp
  have hsel : (wrap ((((bfsPath Q).filter (keepP u)).map (joinPair sep)).filter
        (fun p => isPrefix nm' p.1))).filter (fun p => reach env sep f p.1)
      = (wrap (((bfsPath (Q.filter (fun it => (namePath it.1 it.2).head? == some nm'))).filter
          (keepP u)).map (joinPair sep))).filter (fun p => reach env sep f p.1) := by
    rw [← bfsPath_filter_head nm' Q hQne]
    simp only [wrap_filter, List.filter_map, List.filter_filter]
    congr 2
    apply List.filter_congr
    intro x hx
    have hp := hpred x hx
    simp only [Function.comp] at hp ⊢
    generalize isPrefix nm' (joinPair sep x).1 = I at hp ⊢
    generalize reach env sep f (some (joinPair sep x).1) = A at hp ⊢
    generalize (x.1.head? == some nm') = H at hp ⊢
    generalize keepP u x = K
    cases I <;> cases A <;> cases H <;> cases K <;> simp_all
  rw [← hnodupA_reach, hsel, hnodupA_reach, ← hQ]
  -- the member held under the name, or nothing
  cases hl : lookup nm' ms with
  | none =>
    have hne := lookup_none_keys hl
    have hfil : ((kidsS env fields ms).map (fun k => (([], k) : QItem))).filter
        (fun it => (namePath it.1 it.2).head? == some nm') = [] := by
      apply List.filter_eq_nil_iff.mpr
      intro it hit
      obtain ⟨k, hk, rfl⟩ := List.mem_map.mp hit
      obtain ⟨y, hy, _, e, hye⟩ := kidsS_names htok hk
      have := hne (y, e) hye
      simp [namePath, hy, this]
    rw [hfil, bfsPath_nil]
    simp only [List.filter_nil, List.map_nil, wrap]
    exact hnodupA_nil env sep f
  | some e =>
    obtain ⟨a, b, hab, hna⟩ := lookup_some_split hl
    have hnb : ∀ p ∈ b, p.1 ≠ nm' := by
      intro p hp heq
      rw [hab, List.map_append, List.map_cons] at hkeys
      have h1 := (List.nodup_append.mp hkeys).2.1
      simp only [List.nodup_cons] at h1
      apply h1.1
      rw [← heq]
      exact List.mem_map_of_mem hp
    have hfind : findField nm' fields = some f := findField_unique hnd hf hname
    have hsplit : kidsS env fields ms
        = kidsS env fields a ++ resolve env f e :: kidsS env fields b := by
      rw [hab, kidsS_append]
      simp only [kidsS, hfind, Option.map_some, List.singleton_append]
    have hother : ∀ l : List (Str × Elem), (∀ p ∈ l, p.1 ≠ nm') → (∀ p ∈ l, p ∈ ms) →
        ∀ it ∈ (kidsS env fields l).map (fun k => (([], k) : QItem)),
          ((namePath it.1 it.2).head? == some nm') = false := by
      intro l hl _ it hit
      obtain ⟨k, hk, rfl⟩ := List.mem_map.mp hit
      obtain ⟨y, hy, _, e', hye⟩ := kidsS_names htok hk
      have := hl (y, e') hye
      simp [namePath, hy, this]
    have hfil : ((kidsS env fields ms).map (fun k => (([], k) : QItem))).filter
        (fun it => (namePath it.1 it.2).head? == some nm') = [([], resolve env f e)] := by
      rw [hsplit, List.map_append, List.map_cons]
      apply filter_unique
      · simp [namePath, resolve_name, hname]
      · exact hother a hna (fun p hp => by rw [hab]; simp [hp])
      · exact hother b hnb (fun p hp => by rw [hab]; simp [hp])
    rw [hfil]
    have hrel : bfsPath [(([], resolve env f e) : QItem)] = relFlat (resolve env f e) := rfl
    rw [hrel]
    have hrel_ne : ∀ p ∈ (relFlat (resolve env f e)).filter (keepP u), p.1 ≠ [] := by
      intro p hp
      have hp' := (List.mem_filter.mp hp).1
      obtain ⟨it, hit, ext, he⟩ := bfsPath_mem _ p hp'
      simp only [List.mem_singleton] at hit
      subst hit
      rw [he]
      simp [namePath, resolve_name, hname]
    rw [← toKeys_eq_wrap sep _ hrel_ne]
    have hok : OkS env f e := by
      have h1 := hmem (nm', e) (by rw [hab]; simp)
      obtain ⟨g, hg, hgn, hgo⟩ := (OkSAny_iff env fields nm' e).mp h1
      have := findField_unique hnd hg hgn
      rw [hfind] at this
      injection this with this
      subst this
      exact hgo
    exact hrt u e hok

/-- **mappings.**  A Dict, Compound or SparseDict whose fields are all fine is fine itself. -/
theorem hnsa_mapping (nm : Option Str) (hnm : ∀ x, nm = some x → T x) (fields : List Schema)
    (hnd : (namesOf fields).Nodup) (htok : ∀ g ∈ fields, ∃ x, g.name = some x ∧ T x)
    (hrt : ∀ f ∈ fields, HNSA env sep f)
    (ms : List (Str × Elem)) (hkeys : (ms.map (·.1)).Nodup)
    (hmem : ∀ p ∈ ms, OkSAny env fields p.1 p.2) (u : Bool)
    (own : List PPair) (hown : own = [] ∨ ∃ t, own = [(nm.toList, t)])
    (L : List PPair)
    (hLdef : L = bfsPath ((kidsS env fields ms).map (fun k => ((nm.toList, k) : QItem)))) :
    HNodupAFields env sep fields (possibles sep nm (toKeys sep ((own ++ L).filter (keepP u)))) := by
  have hL : L = (bfsPath ((kidsS env fields ms).map (fun k => (([], k) : QItem)))).map (pre nm.toList) := by
    rw [hLdef, map_pair_shift, bfsPath_shift']
  have hne : ∀ p ∈ bfsPath ((kidsS env fields ms).map (fun k => (([], k) : QItem))), p.1 ≠ [] := by
    intro p hp
    obtain ⟨it, hit, ext, he⟩ := bfsPath_mem _ p hp
    obtain ⟨k, hk, rfl⟩ := List.mem_map.mp hit
    obtain ⟨y, hy, _⟩ := kidsS_names htok hk
    rw [he]
    simp [namePath, hy]
  have hne' : ∀ p ∈ (bfsPath ((kidsS env fields ms).map (fun k => (([], k) : QItem)))).filter (keepP u),
      p.1 ≠ [] := fun p hp => hne p (List.mem_filter.mp hp).1
  have hposs : possibles sep nm (toKeys sep ((own ++ L).filter (keepP u)))
      = ((bfsPath ((kidsS env fields ms).map (fun k => (([], k) : QItem)))).filter
      (keepP u)).map (joinPair sep) := by
    rw [hL, List.filter_append, filter_keepP_pre]
    rcases hown with rfl | ⟨t, rfl⟩
    · simp only [List.filter_nil, List.nil_append]
      exact possibles_of_kidsP hs nm hnm _ hne'
    · simp only [List.filter_cons, List.filter_nil]
      split
      · simp only [toKeys, List.singleton_append, List.map_cons]
        rw [possibles_ownP hs]
        exact possibles_of_kidsP hs nm hnm _ hne'
      · simp only [List.nil_append]
        exact possibles_of_kidsP hs nm hnm _ hne'
  rw [hposs]
  apply hnodupAFields_of_forall
  intro f hf
  obtain ⟨x, hx, _⟩ := htok f hf
  simp only [hx, Option.getD_some]
  exact field_hnodupA hs fields hnd htok ms hkeys hmem f hf x hx (hrt f hf) u

end field
/-! ### Lists -/

theorem hnsa_list (hs : SepSafe env sep T) (henv : EnvOK env) (nm : Option Str)
    (hnm : ∀ x, nm = some x → T x) (o prune : Bool) (mx : Nat) (member : Schema)
    (hmn : ∀ t ∈ names member, t ≠ []) (hrt : HNSA env sep member) :
    HNSA env sep (.list nm o prune mx member) := by
  intro u e hok
  cases e with
  | list ms =>
    simp only [OkS] at hok
    obtain ⟨hlen, hdig, hmem⟩ := hok
    have hr : resolve env (.list nm o prune mx member) (.list ms)
        = .mk nm false true [] true (resolveList env member ms) := by
      unfold resolve; rfl
    rw [hr, relFlat_eq]
    simp only [ownPath, FNode.fl, Bool.false_eq_true, if_false, List.nil_append, pushed, FNode.cfl,
      if_true, childItems, FNode.slots, FNode.kids, namePath, FNode.name]
    rw [kidsFrom_slots, bfsPath_shift', resolveList_eq_map, filter_keepP_pre]
    generalize hkids : ms.map (resolve env member) = kids
    have hklen : kids.length = ms.length := by rw [← hkids]; simp
    have hkne : namesNEL kids := by
      rw [← hkids, ← resolveList_eq_map]; exact resolveList_namesNE env member ms hmn
    have hkid : ∀ i (hi : i < kids.length), kids[i] = resolve env member ms[i]! := by
      intro i hi
      have hi' : i < ms.length := by omega
      simp [← hkids, hi']
    have hheads := slots_heads kids hkne
    generalize hLs : bfsPath (slotItems 0 kids) = Ls at hheads
    -- every pair is read as (slot index, remaining path)
    have haddr : ∀ x ∈ Ls, ∃ i ext, i < kids.length ∧ x.1 = natStr i :: ext ∧
        listAddr env sep nm (tokKey sep ((pre nm.toList x).1)) = some (i, tokKey sep ext) := by
      intro x hx
      obtain ⟨i, ext, hi, hxe, hext⟩ := hheads x hx
      refine ⟨i, ext, hi, hxe, ?_⟩
      simp only [pre, hxe]
      exact listAddr_path hs henv nm hnm i (hdig i (by omega)) ext hext
    obtain ⟨u', hu'⟩ : ∃ u' : Bool, u' = (u || prune) := ⟨_, rfl⟩
    -- the group of slot i is the member's own surviving output
    have hgroup : ∀ i, (hi : i < kids.length) →
        groupOf env sep nm prune i (toKeys sep ((Ls.filter (keepP u)).map (pre nm.toList)))
          = toKeys sep ((relFlat kids[i]).filter (keepP u')) := by
      intro i hi
      simp only [groupOf, toKeys, List.filterMap_map]
      rw [filterMap_filter']
      refine (filterMap_congr' _ (fun x => if (keepP u' x && (x.1.head? == some (natStr i))) = true
              then some (tokKey sep x.1.tail, x.2) else none) Ls ?_).trans ?_
      · intro x hx
        obtain ⟨j, ext, hj, hxe, hla⟩ := haddr x hx
        simp only [Function.comp, pre] at hla ⊢
        show (if keepP u x = true then (if (prune && x.2.isEmpty) = true then none else _) else none) = _
        rw [sel_comb, hla, ← hu']
        simp only [hxe, List.head?_cons, List.tail_cons]
        by_cases hk : keepP u' x = true
        · by_cases hji : j = i
          · subst hji; simp [hk]
          · have : natStr j ≠ natStr i := fun h => hji (natStr_inj henv h)
            simp [hk, hji, this]
        · simp [hk]
      · have hfm : ∀ l : List PPair, l.filterMap (fun x =>
              if (keepP u' x && (x.1.head? == some (natStr i))) = true
              then some (tokKey sep x.1.tail, x.2) else none)
            = ((l.filter (fun x => x.1.head? == some (natStr i))).filter (keepP u')).map
                (fun x => (tokKey sep x.1.tail, x.2)) := by
          intro l
          induction l with
          | nil => rfl
          | cons a as ih =>
            simp only [List.filterMap_cons, List.filter_cons]
            by_cases hc1 : (a.1.head? == some (natStr i)) = true
            · by_cases hc2 : keepP u' a = true
              · simp only [hc1, hc2, Bool.and_self, if_true, List.filter_cons, List.map_cons, ih]
              · simp only [hc1, hc2, Bool.and_true, if_true, if_false, Bool.false_eq_true,
                  List.filter_cons, ih]
            · simp only [hc1, Bool.and_false, if_false, Bool.false_eq_true, ih]
        rw [hfm, ← hLs, slots_filter henv kids i hi, filter_keepP_pre]
        simp [pre, List.map_map, Function.comp_def]
    -- an index beyond the members addresses nothing
    have hbeyond : ∀ i, kids.length ≤ i →
        groupOf env sep nm prune i (toKeys sep ((Ls.filter (keepP u)).map (pre nm.toList))) = [] := by
      intro i hi
      simp only [groupOf, toKeys, List.filterMap_map]
      apply List.filterMap_eq_nil_iff.mpr
      intro x hx
      obtain ⟨j, ext, hj, hxe, hla⟩ := haddr x (List.mem_filter.mp hx).1
      simp only [Function.comp, pre] at hla ⊢
      rw [hla]
      have : j ≠ i := by omega
      simp [this]
    simp only [HNodupA]
    intro i
    by_cases hi : i < kids.length
    · rw [hgroup i hi, hkid i hi]
      have hi' : i < ms.length := by omega
      have hmi : ms[i]! ∈ ms := by simp [hi']
      exact hrt u' ms[i]! (hmem _ hmi)
    · rw [hbeyond i (by omega)]
      exact hnodupA_nil env sep member
  | _ => simp [OkS] at hok
/-! ### all schemas -/

section main
variable (root : Schema) (hs : SepSafe env sep (Tok root)) (henv : EnvOK env)
include hs henv

mutual
theorem hnsa_all : ∀ s : Schema, (∀ t ∈ names s, t ∈ names root) → wf s = true → HNSA env sep s
  | .leaf nm o k, _, _ => hnsa_leaf nm o k
  | .joined nm o k m, _, _ => hnsa_joined nm o k m
  | .array nm o p member, _, _ => hnsa_array nm o p member
  | .list nm o p mx member, hsub, hw => by
    simp only [wf] at hw
    have hsubm : ∀ t ∈ names member, t ∈ names root := fun t ht => hsub t (by simp [names, ht])
    apply hnsa_list hs henv nm _ o p mx member
    · intro t ht; exact hs.tok_ne t (Or.inl (hsubm t ht))
    · exact hnsa_all member hsubm hw
    · intro x hx; subst hx; exact Or.inl (hsub x (by simp [names]))
  | .dict nm o mode fields, hsub, hw => by
    simp only [wf, Bool.and_eq_true] at hw
    have hnd : (namesOf fields).Nodup := by simpa using hw.2
    have hsome := allSome_of fields hw.1.2
    have hsubf : ∀ t ∈ namesL fields, t ∈ names root := fun t ht => hsub t (by simp [names, ht])
    have htok : ∀ g ∈ fields, ∃ x, g.name = some x ∧ Tok root x := by
      intro g hg
      have := hsome g hg
      cases hn : g.name with
      | none => simp [hn] at this
      | some x =>
        exact ⟨x, rfl, Or.inl (hsubf x (names_sub_namesL hg x (name_mem_names g x hn)))⟩
    have hrt := hnsa_fields fields hsubf hw.1.1
    intro u e hok
    cases e with
    | dict ms =>
      simp only [OkS] at hok
      have hr : resolve env (.dict nm o mode fields) (.dict ms)
          = .mk nm false true [] false (kidsS env fields ms) := by
        unfold resolve
        simp only [membersOf, resolveMembers_kidsS]
      rw [hr, relFlat_eq]
      simp only [ownPath, FNode.fl, Bool.false_eq_true, if_false, List.nil_append, pushed, FNode.cfl,
        if_true, childItems, FNode.slots, FNode.kids, namePath, FNode.name]
      rw [kidsFrom_noslots]
      simp only [HNodupA]
      exact hnsa_mapping hs nm (fun x hx => by subst hx; exact Or.inl (hsub x (by simp [names])))
        fields hnd htok hrt ms hok.1 hok.2 u [] (Or.inl rfl) _ rfl
    | _ => simp [OkS] at hok
  | .compound nm o k fields, hsub, hw => by
    simp only [wf, Bool.and_eq_true] at hw
    have hnd : (namesOf fields).Nodup := by simpa using hw.2
    have hsome := allSome_of fields hw.1.2
    have hsubf : ∀ t ∈ namesL fields, t ∈ names root := fun t ht => hsub t (by simp [names, ht])
    have htok : ∀ g ∈ fields, ∃ x, g.name = some x ∧ Tok root x := by
      intro g hg
      have := hsome g hg
      cases hn : g.name with
      | none => simp [hn] at this
      | some x =>
        exact ⟨x, rfl, Or.inl (hsubf x (names_sub_namesL hg x (name_mem_names g x hn)))⟩
    have hrt := hnsa_fields fields hsubf hw.1.1
    intro u e hok
    cases e with
    | dict ms =>
      simp only [OkS] at hok
      have hr : resolve env (.compound nm o k fields) (.dict ms)
          = .mk nm true true (uOf env (.compound nm o k fields) (.dict ms)) false (kidsS env fields ms) := by
        unfold resolve
        simp only [membersOf, resolveMembers_kidsS]
      rw [hr, relFlat_eq]
      simp only [ownPath, FNode.fl, if_true, pushed, FNode.cfl, childItems, FNode.slots, FNode.kids,
        namePath, FNode.name, FNode.u, List.nil_append]
      rw [kidsFrom_noslots]
      simp only [HNodupA]
      exact hnsa_mapping hs nm (fun x hx => by subst hx; exact Or.inl (hsub x (by simp [names])))
        fields hnd htok hrt ms hok.1 hok.2 u [(nm.toList, _)] (Or.inr ⟨_, rfl⟩) _ rfl
    | _ => simp [OkS] at hok
theorem hnsa_fields : ∀ fs : List Schema, (∀ t ∈ namesL fs, t ∈ names root) → wfL fs = true →
    ∀ f ∈ fs, HNSA env sep f
  | [], _, _ => fun f hf => by simp at hf
  | g :: gs, hsub, hw => by
    simp only [wfL, Bool.and_eq_true] at hw
    have h1 := hnsa_all g (fun t ht => hsub t (by simp [namesL, ht])) hw.1
    have h2 := hnsa_fields gs (fun t ht => hsub t (by simp [namesL, ht])) hw.2
    intro f hf
    rcases List.mem_cons.mp hf with rfl | h
    · exact h1
    · exact h2 f h
end

end main
/-! ### the bridge -/

/-- **the bridge, Arrays of any size.**  The flat pairs of EVERY conforming element satisfy C02's
    hereditary "no key of a scalar twice" (`HNodupA`) — in the schema's own canonical keys. -/
theorem hnodupA_flatten (env : Env) (sep : Str) (s : Schema) (e : Elem)
    (hs : SepSafe env sep (Tok s)) (henv : EnvOK env) (hw : wf s = true)
    (hroot : rootOK s = true) (hok : OkS env s e) :
    HNodupA env sep s (wrap (flatten env sep s e)) := by
  rw [flatten_eq_relFlat, ← toKeys_eq_wrap sep _ (root_paths_neS env s e hw hroot hok)]
  have h := hnsa_all s hs henv s (fun t ht => ht) hw false e hok
  rw [filter_keepP_false] at h
  exact h

end Flatland.Flat.Proofs
