/- what `adapt` can return per kind, and totality of `set` (C04) -/
import Proofs.Lemmas.C04Num
import Flatland.Spec.C04
namespace Flatland.Scalar
open Flatland.Scalar Flatland.Scalar.Spec

def ValueOf (T : Tables) : Kind → Native → Prop
  | .string b, v => v = .none ∨ ∃ s, v = .str s ∧ (b = true → strip T s = s)
  | .integer sg _, v => v = .none ∨ ∃ i, v = .int i ∧ intFits T i = true ∧ (sg = true ∨ 0 ≤ i)
  | .float _, v => v = .none ∨ ∃ t, v = .float t
  | .decimal _, v => v = .none ∨ ∃ t, v = .decimal t
  | .boolean _ _ _ _, v => v = .none ∨ ∃ b, v = .bool b
  | .date _, v => v = .none ∨ (∃ y m d, v = .date y m d ∧ validDate y m d = true) ∨
      (∃ y m d h mi s us, v = .datetime y m d h mi s us ∧ validDate y m d = true)
  | .time _, v => v = .none ∨ ∃ h mi s us, v = .time h mi s us ∧ validTime h mi s = true
  | .datetime _, v => v = .none ∨ ∃ y m d h mi s us, v = .datetime y m d h mi s us ∧ validDate y m d = true ∧
      validTime h mi s = true
  | .constrained c vd, v => ValueOf T c v ∧ vd.holds v = true

theorem checkSigned_some (s : Bool) (n : Option Bool) (v w : Native) (h : checkSigned s n v = some w) : w = v := by
  unfold checkSigned at h
  split at h
  · simpa using h.symm
  · split at h <;> simp at h
    exact h.symm

theorem checkSigned_some' (s n : Bool) (v w : Native) (h : checkSigned s (some n) v = some w) :
    w = v ∧ (s = true ∨ n = false) := by
  unfold checkSigned at h
  split at h
  · rename_i hs; exact ⟨by simpa using h.symm, Or.inl hs⟩
  · cases n <;> simp at h
    exact ⟨h.symm, Or.inr rfl⟩

theorem intFits_bool (T : Tables) (hT : T.OK) (b : Bool) : intFits T (if b then 1 else 0) = true := by
  have hm : 1 ≤ T.maxDigits := by have := hT.2.2.2.2.1; omega
  have : 1 < 10 ^ T.maxDigits := Nat.one_lt_pow (by omega) (by omega)
  cases b <;> simp [intFits] <;> omega

theorem adaptTok_value (E : Env) (dec s : Bool) (x v : Native) (h : adaptTok E dec s x = .ok (some v)) :
    ∃ t, v = (if dec then .decimal t else .float t) := by
  unfold adaptTok at h
  split at h
  · simp at h
  · simp at h
  · rename_i t _
    simp only [Except.ok.injEq] at h
    exact ⟨t, checkSigned_some _ _ _ _ h⟩

theorem adaptTemporalText_value (T : Tables) (w : Nat) (s : Str) (v : Native) (h : adaptTemporalText T w s = some v) :
    (w = 0 → ∃ y m d, v = .date y m d ∧ validDate y m d = true) ∧
    (w = 1 → ∃ h mi s, v = .time h mi s 0 ∧ validTime h mi s = true) ∧
    (2 ≤ w → ∃ y m d h mi s, v = .datetime y m d h mi s 0 ∧ validDate y m d = true ∧ validTime h mi s = true) := by
  unfold adaptTemporalText at h
  split at h
  · refine ⟨fun _ => ?_, by omega, by omega⟩
    split at h
    · split at h
      · rename_i y m d _ hv
        simp at h; exact ⟨y, m, d, h.symm, hv⟩
      · simp at h
    · simp at h
  · refine ⟨by omega, fun _ => ?_, by omega⟩
    split at h
    · split at h
      · rename_i a b c _ hv
        simp at h; exact ⟨a, b, c, h.symm, hv⟩
      · simp at h
    · simp at h
  · rename_i h0 h1
    refine ⟨fun hw => absurd hw h0, fun hw => absurd hw h1, fun _ => ?_⟩
    split at h
    · split at h
      · rename_i y m d a b c _ hv
        simp at h
        simp only [Bool.and_eq_true] at hv
        exact ⟨y, m, d, a, b, c, h.symm, hv.1, hv.2⟩
      · simp at h
    · simp at h

theorem adapt_value (E : Env) (hT : E.T.OK) (k : Kind) (x v : Native) (hx : NoHuge E.T x = true)
    (hwf : Native.WF x = true) (h : adapt E k x = .ok (some v)) : ValueOf E.T k v := by
  induction k generalizing v with
  | string b =>
    unfold ValueOf
    cases x <;> simp only [adapt] at h
    all_goals first
      | (simp at h; subst h; cases b <;> simp [strip_idem])
      | (split at h <;> simp at h; subst h; cases b <;> simp [strip_idem])
  | integer sg w =>
    unfold ValueOf
    cases x <;> simp only [adapt] at h
    case none => simp at h; subst h; simp
    case str s =>
      split at h
      · simp at h
      · rename_i i hi
        simp only [Except.ok.injEq] at h
        obtain ⟨this, hs⟩ := checkSigned_some' _ _ _ _ h
        subst this
        exact Or.inr ⟨i, rfl, pyIntOfStr_fits E.T _ i hi, by simpa using hs⟩
    case int i =>
      simp only [Except.ok.injEq] at h
      obtain ⟨this, hs⟩ := checkSigned_some' _ _ _ _ h
      subst this
      exact Or.inr ⟨i, rfl, by simpa [NoHuge] using hx, by simpa using hs⟩
    case bool b =>
      simp at h; subst h
      exact Or.inr ⟨_, rfl, intFits_bool E.T hT b, Or.inr (by cases b <;> simp)⟩
    case float t =>
      split at h
      · simp at h
      · rename_i i hi
        simp only [Except.ok.injEq] at h
        obtain ⟨this, hs⟩ := checkSigned_some' _ _ _ _ h
        subst this
        exact Or.inr ⟨i, rfl, by simpa [NoHuge, hi] using hx, by simpa using hs⟩
    case decimal t =>
      split at h
      · simp at h
      · rename_i i hi
        simp only [Except.ok.injEq] at h
        obtain ⟨this, hs⟩ := checkSigned_some' _ _ _ _ h
        subst this
        exact Or.inr ⟨i, rfl, by simpa [NoHuge, hi] using hx, by simpa using hs⟩
    all_goals simp at h
  | float sg =>
    unfold ValueOf
    cases x <;> simp only [adapt] at h
    case none => simp at h; subst h; simp
    all_goals first
      | (simp at h; done)
      | (obtain ⟨t, ht⟩ := adaptTok_value _ _ _ _ _ h; simp at ht; exact Or.inr ⟨t, ht⟩)
  | decimal sg =>
    unfold ValueOf
    cases x <;> simp only [adapt] at h
    case none => simp at h; subst h; simp
    all_goals first
      | (simp at h; done)
      | (obtain ⟨t, ht⟩ := adaptTok_value _ _ _ _ _ h; simp at ht; exact Or.inr ⟨t, ht⟩)
  | boolean tr fl ts fs =>
    unfold ValueOf
    cases x <;> simp only [adapt] at h
    case none => simp at h; subst h; simp
    case str s =>
      split at h
      · simp at h; exact Or.inr ⟨true, h.symm⟩
      · split at h
        · simp at h; exact Or.inr ⟨false, h.symm⟩
        · simp at h
    all_goals (simp at h; exact Or.inr ⟨_, h.symm⟩)
  | date b =>
    unfold ValueOf
    cases x <;> simp only [adapt] at h
    case none => simp at h; subst h; simp
    case date y m d => simp at h; subst h; exact Or.inr (Or.inl ⟨y, m, d, rfl, by simpa [Native.WF] using hwf⟩)
    case datetime y m d a b c u =>
      simp at h; subst h
      simp only [Native.WF, Bool.and_eq_true] at hwf
      exact Or.inr (Or.inr ⟨y, m, d, a, b, c, u, rfl, hwf.1.1⟩)
    case str s =>
      simp only [Except.ok.injEq] at h
      obtain ⟨y, m, d, hv, hvd⟩ := (adaptTemporalText_value _ _ _ _ h).1 rfl
      exact Or.inr (Or.inl ⟨y, m, d, hv, hvd⟩)
    all_goals simp at h
  | time b =>
    unfold ValueOf
    cases x <;> simp only [adapt] at h
    case none => simp at h; subst h; simp
    case time a b c u =>
      simp at h; subst h
      simp only [Native.WF, Bool.and_eq_true] at hwf
      exact Or.inr ⟨a, b, c, u, rfl, hwf.1⟩
    case str s =>
      simp only [Except.ok.injEq] at h
      obtain ⟨a, b, c, hv, hvt⟩ := (adaptTemporalText_value _ _ _ _ h).2.1 rfl
      exact Or.inr ⟨a, b, c, 0, hv, hvt⟩
    all_goals simp at h
  | datetime b =>
    unfold ValueOf
    cases x <;> simp only [adapt] at h
    case none => simp at h; subst h; simp
    case datetime y m d a b c u =>
      simp at h; subst h
      simp only [Native.WF, Bool.and_eq_true] at hwf
      exact Or.inr ⟨y, m, d, a, b, c, u, rfl, hwf.1.1, hwf.1.2⟩
    case str s =>
      simp only [Except.ok.injEq] at h
      obtain ⟨y, m, d, a, b, c, hv, hvd, hvt⟩ := (adaptTemporalText_value _ _ _ _ h).2.2 (by omega)
      exact Or.inr ⟨y, m, d, a, b, c, 0, hv, hvd, hvt⟩
    all_goals simp at h
  | constrained c vd ih =>
    unfold ValueOf
    simp only [adapt] at h
    split at h
    · simp at h
    · simp at h
    · rename_i w hw
      split at h
      · rename_i hh
        simp only [Except.ok.injEq, Option.some.injEq] at h
        subst h
        exact ⟨ih w hw, hh⟩
      · simp at h

theorem pyStr_ok (T : Tables) (x : Native) (hx : NoHuge T x = true) : ∃ s, pyStr T x = .ok s := by
  cases x <;> simp only [pyStr] <;> try exact ⟨_, rfl⟩
  case int i => simp only [NoHuge] at hx; simp [pyFmtInt, hx]
  case bool b => cases b <;> exact ⟨_, rfl⟩

theorem adaptTok_ne_error (E : Env) (hE : EnvTotal E) (dec s : Bool) (x : Native) :
    ∃ ov, adaptTok E dec s x = .ok ov := by
  unfold adaptTok
  cases h : E.conv dec x with
  | none => exact absurd h (hE dec x)
  | some o => cases o <;> exact ⟨_, rfl⟩

/-- adapt never lets an exception escape (given a total table and no huge int) -/
theorem adapt_ok (E : Env) (hE : EnvTotal E) (k : Kind) (x : Native) (hx : NoHuge E.T x = true) :
    ∃ ov, adapt E k x = .ok ov := by
  induction k with
  | string b =>
    cases x <;> simp only [adapt] <;> try exact ⟨_, rfl⟩
    all_goals
      (rename_i a
       first
        | (obtain ⟨s, hs⟩ := pyStr_ok E.T _ hx; rw [hs]; exact ⟨_, rfl⟩))
  | integer sg w =>
    cases x <;> simp only [adapt] <;> try exact ⟨_, rfl⟩
    all_goals (split <;> exact ⟨_, rfl⟩)
  | float sg =>
    cases x <;> simp only [adapt] <;> first | exact ⟨_, rfl⟩ | exact adaptTok_ne_error E hE _ _ _
  | decimal sg =>
    cases x <;> simp only [adapt] <;> first | exact ⟨_, rfl⟩ | exact adaptTok_ne_error E hE _ _ _
  | boolean tr fl ts fs =>
    cases x <;> simp only [adapt] <;> try exact ⟨_, rfl⟩
    split
    · exact ⟨_, rfl⟩
    · split <;> exact ⟨_, rfl⟩
  | date b => cases x <;> simp only [adapt] <;> exact ⟨_, rfl⟩
  | time b => cases x <;> simp only [adapt] <;> exact ⟨_, rfl⟩
  | datetime b => cases x <;> simp only [adapt] <;> exact ⟨_, rfl⟩
  | constrained c vd ih =>
    obtain ⟨ov, hov⟩ := ih
    simp only [adapt]
    rw [hov]
    cases ov with
    | none => exact ⟨_, rfl⟩
    | some v =>
      by_cases hh : vd.holds v = true
      · exact ⟨some v, by simp [hh]⟩
      · exact ⟨none, by simp [hh]⟩

/-- the text form of an adapted value always exists -/
theorem uOfValue_ok (E : Env) (k : Kind) (v : Native) (hv : ValueOf E.T k v) : ∃ u, uOfValue E k v = .ok u := by
  induction k with
  | string b =>
    rcases hv with rfl | ⟨s, rfl, _⟩ <;> simp [uOfValue, serialize]
  | integer sg w =>
    rcases hv with rfl | ⟨i, rfl, hi, _⟩
    · simp [uOfValue]
    · simp [uOfValue, serialize, pyFmtInt, hi]
  | float sg =>
    rcases hv with rfl | ⟨t, rfl⟩ <;> simp [uOfValue, serialize]
  | decimal sg =>
    rcases hv with rfl | ⟨t, rfl⟩ <;> simp [uOfValue, serialize]
  | boolean tr fl ts fs =>
    rcases hv with rfl | ⟨b, rfl⟩ <;> simp [uOfValue, serialize]
  | date b =>
    rcases hv with rfl | ⟨y, m, d, rfl, _⟩ | ⟨y, m, d, a, b', c, u, rfl, _⟩ <;> simp [uOfValue, serialize]
  | time b =>
    rcases hv with rfl | ⟨a, b', c, u, rfl, _⟩ <;> simp [uOfValue, serialize]
  | datetime b =>
    rcases hv with rfl | ⟨y, m, d, a, b', c, u, rfl, _⟩ <;> simp [uOfValue, serialize]
  | constrained c vd ih =>
    obtain ⟨u, hu⟩ := ih hv.1
    refine ⟨u, ?_⟩
    cases v <;> simp_all [uOfValue, serialize]

theorem uOfFailed_ok (T : Tables) (x : Native) (hx : NoHuge T x = true) : ∃ u, uOfFailed T x = .ok u := by
  cases x <;> simp only [uOfFailed] <;> first | exact ⟨_, rfl⟩ | exact pyStr_ok T _ hx

/-- **set_total** -/
theorem set_total (E : Env) (hT : E.T.OK) (hE : EnvTotal E) (k : Kind) (x : Native)
    (hx : NoHuge E.T x = true) (hwf : Native.WF x = true) : ∃ r, setScalar E k x = .ok r := by
  obtain ⟨ov, hov⟩ := adapt_ok E hE k x hx
  unfold setScalar
  rw [hov]
  cases ov with
  | some v =>
    obtain ⟨u, hu⟩ := uOfValue_ok E k v (adapt_value E hT k x v hx hwf hov)
    simp only [hu]; exact ⟨_, rfl⟩
  | none =>
    obtain ⟨u, hu⟩ := uOfFailed_ok E.T x hx
    simp only [hu]; exact ⟨_, rfl⟩

end Flatland.Scalar
