/-
The adapted value of a plain argument, for ANY member schema: `wrapSig m r` is the `(value, u)`
structure of `member_schema(value=r)`; by `setNode_indep` it does not depend on when (with
which id counter) the element is built.  `setNode_resets`: `el.set(r)` on an existing element of
class `m` yields the same structure as a fresh `m(value=r)` whenever `set` forgets what the
element held (`Resets`) — which is every case except a Dict / SparseDict handed a value that is
not dict-like (KF-C09-b).  `.value` and the value `*=` re-feeds are functions of `sig`.
-/
import Proofs.Lemmas.TreeErase
import Proofs.Lemmas.TreeSig
namespace Flatland.Tree
open Flatland.PyList

/-- `member_schema(value=r)` built with id counter 0 -/
def wrapNode (m : Schema) (r : Raw) : SetR := setNode (blank m none [] 0).1 r none (blank m none [] 0).2

/-- the `(value, u)` structure of `member_schema(value=r)` -/
def wrapSig (m : Schema) (r : Raw) : Sig := sig (wrapNode m r).node

/-- `member_schema(value=r)` does not raise -/
def WrapOK (m : Schema) (r : Raw) : Prop := ∃ b, (wrapNode m r).res = .ok b

instance (m : Schema) (r : Raw) : Decidable (WrapOK m r) :=
  match h : (wrapNode m r).res with
  | .ok b => isTrue ⟨b, h⟩
  | .error e => isFalse (by intro ⟨b, hb⟩; rw [h] at hb; cases hb)

/-- wrapping a plain value at any time gives an element of the member schema with the adapted
    structure -/
theorem wrap_plain_ok (m : Schema) (r : Raw) (h : WrapOK m r) (next : Nat) :
    ∃ w next', wrap m (.plain r) next = (.ok w, next') ∧ sig w = wrapSig m r ∧ w.sch = m := by
  obtain ⟨b, hb⟩ := h
  have hi := setNode_indep r (blank m none [] next).1 (blank m none [] 0).1 none (blank m none [] next).2
    (blank m none [] 0).2 (blank_erase m none none [] next 0)
  have hres : (setNode (blank m none [] next).1 r none (blank m none [] next).2).res = .ok b := by
    rw [hi.2]; exact hb
  refine ⟨(setNode (blank m none [] next).1 r none (blank m none [] next).2).node,
    (setNode (blank m none [] next).1 r none (blank m none [] next).2).next, ?_, sig_of_erase hi.1, ?_⟩
  · simp only [wrap, construct, hres]
  · have := setNode_hdr (blank m none [] next).1 r none (blank m none [] next).2
    have h3 : (setNode (blank m none [] next).1 r none (blank m none [] next).2).node.sch = (blank m none [] next).1.sch :=
      congrArg (fun t => t.2.2.1) this
    rw [h3]; exact (blank_ni m none [] next).2

/-- the items built by `Sequence.set(list)` / `extend(default)` -/
theorem buildItems_ok (m : Schema) (xs : List Raw) (hx : ∀ r ∈ xs, WrapOK m r) (next : Nat) :
    ∃ vals n' conv, buildItems m xs next = (vals, n', .ok conv) ∧
      vals.map sig = xs.map (wrapSig m) ∧ ∀ v ∈ vals, v.sch = m := by
  induction xs generalizing next with
  | nil => exact ⟨[], next, true, rfl, rfl, by simp⟩
  | cons r rs ih =>
    obtain ⟨w, n1, hw, hs, ht⟩ := wrap_plain_ok m r (hx r (by simp)) next
    simp only [wrap, construct] at hw
    obtain ⟨vals, n', conv, hbi, hsig, hty⟩ := ih (fun x hx' => hx x (by simp [hx'])) n1
    cases hres : (setNode (blank m none [] next).1 r none (blank m none [] next).2).res with
    | error e => rw [hres] at hw; simp at hw
    | ok c =>
      rw [hres] at hw
      simp only [Prod.mk.injEq, Except.ok.injEq] at hw
      obtain ⟨hw1, hw2⟩ := hw
      refine ⟨w :: vals, n', c && conv, ?_, ?_, ?_⟩
      · rw [buildItems]
        simp only [hres, hw2, hbi, hw1]
      · simp [hs, hsig]
      · intro x hxm
        rcases List.mem_cons.mp hxm with hxm | hxm
        · rw [hxm]; exact ht
        · exact hty x hxm

/-! ### `set` on an existing element vs. a fresh one -/

/-- `el.set(r)` forgets what an element of class `m` held: scalars take the adapted value,
    sequences `del self[:]` first, mappings `_reset()` first — provided the value is dict-like;
    otherwise `Dict.set` returns False and leaves the fields as they were -/
def Resets (m : Schema) (r : Raw) : Prop :=
  match m.kind with
  | .integer | .string => (adaptScalar m.kind r).isSome = true
  | .list | .array | .multi => True
  | .dict | .sparse => ∃ kvs, toPairs r = some (some kvs)
  | .slot => False

theorem sig_of_kids (i i' : NInfo) (s : Schema) (ks ks' : List Node)
    (hk : s.kind ≠ .integer ∧ s.kind ≠ .string) (h : eraseL ks = eraseL ks') :
    sig (.mk i s ks) = sig (.mk i' s ks') := by
  rw [← sig_erase (.mk i s ks), ← sig_erase (.mk i' s ks'), erase_mk, erase_mk, h]
  unfold sig
  cases hkind : s.kind <;> simp_all

theorem setNode_resets (m : Schema) (r : Raw) (h : Resets m r) (el el' : Node) (he : el.sch = m) (he' : el'.sch = m)
    (pol : Option Policy) (n n' : Nat) :
    sig (setNode el r pol n).node = sig (setNode el' r pol n').node ∧
    (setNode el r pol n).res = (setNode el' r pol n').res := by
  cases el with
  | mk i s0 kids =>
  cases el' with
  | mk i' s kids' =>
  simp only [Node.sch] at he he'
  subst he
  subst he'
  unfold Resets at h
  cases hkind : s.kind with
  | integer =>
    simp only [hkind] at h
    obtain ⟨⟨v, u, ok⟩, hv⟩ := Option.isSome_iff_exists.mp h
    have h1 := setNode_scalar (.mk i s kids) (Or.inl hkind) r pol n v u ok (by simpa [Node.sch, hkind] using hv)
    have h2 := setNode_scalar (.mk i' s kids') (Or.inl hkind) r pol n' v u ok (by simpa [Node.sch, hkind] using hv)
    exact ⟨by rw [h1.2.2.1, h2.2.2.1], by rw [h1.1, h2.1]⟩
  | string =>
    simp only [hkind] at h
    obtain ⟨⟨v, u, ok⟩, hv⟩ := Option.isSome_iff_exists.mp h
    have h1 := setNode_scalar (.mk i s kids) (Or.inr hkind) r pol n v u ok (by simpa [Node.sch, hkind] using hv)
    have h2 := setNode_scalar (.mk i' s kids') (Or.inr hkind) r pol n' v u ok (by simpa [Node.sch, hkind] using hv)
    exact ⟨by rw [h1.2.2.1, h2.2.2.1], by rw [h1.1, h2.1]⟩
  | slot => simp [hkind] at h
  | list =>
    rw [setNode_seq _ _ _ _ _ _ (Or.inl hkind), setNode_seq _ _ _ _ _ _ (Or.inl hkind)]
    have hk := seqSet_kids i i' s r (fun _ _ x _ => setNode_indep x) n n'
    refine ⟨?_, hk.2⟩
    rw [node_eta (seqSet i s r n).node, node_eta (seqSet i' s r n').node, (seqSet_ni i s r n).2, (seqSet_ni i' s r n').2]
    exact sig_of_kids _ _ _ _ _ (by simp [hkind]) hk.1
  | array =>
    rw [setNode_seq _ _ _ _ _ _ (Or.inr (Or.inl hkind)), setNode_seq _ _ _ _ _ _ (Or.inr (Or.inl hkind))]
    have hk := seqSet_kids i i' s r (fun _ _ x _ => setNode_indep x) n n'
    refine ⟨?_, hk.2⟩
    rw [node_eta (seqSet i s r n).node, node_eta (seqSet i' s r n').node, (seqSet_ni i s r n).2, (seqSet_ni i' s r n').2]
    exact sig_of_kids _ _ _ _ _ (by simp [hkind]) hk.1
  | multi =>
    rw [setNode_seq _ _ _ _ _ _ (Or.inr (Or.inr hkind)), setNode_seq _ _ _ _ _ _ (Or.inr (Or.inr hkind))]
    have hk := seqSet_kids i i' s r (fun _ _ x _ => setNode_indep x) n n'
    refine ⟨?_, hk.2⟩
    rw [node_eta (seqSet i s r n).node, node_eta (seqSet i' s r n').node, (seqSet_ni i s r n).2, (seqSet_ni i' s r n').2]
    exact sig_of_kids _ _ _ _ _ (by simp [hkind]) hk.1
  | dict =>
    simp only [hkind] at h
    obtain ⟨kvs, hkvs⟩ := h
    rw [setNode_map _ _ _ _ _ _ (Or.inl hkind), setNode_map _ _ _ _ _ _ (Or.inl hkind)]
    simp only [hkvs]
    have hk := mapSetKvs_kids i i' s kvs (fun p _ => setNode_indep p.2) pol n n'
    refine ⟨?_, hk.2⟩
    rw [node_eta (mapSetKvs i s kvs pol n).node, node_eta (mapSetKvs i' s kvs pol n').node,
      (mapSetKvs_ni i s kvs pol n).2, (mapSetKvs_ni i' s kvs pol n').2]
    exact sig_of_kids _ _ _ _ _ (by simp [hkind]) hk.1
  | sparse =>
    simp only [hkind] at h
    obtain ⟨kvs, hkvs⟩ := h
    rw [setNode_map _ _ _ _ _ _ (Or.inr hkind), setNode_map _ _ _ _ _ _ (Or.inr hkind)]
    simp only [hkvs]
    have hk := mapSetKvs_kids i i' s kvs (fun p _ => setNode_indep p.2) pol n n'
    refine ⟨?_, hk.2⟩
    rw [node_eta (mapSetKvs i s kvs pol n).node, node_eta (mapSetKvs i' s kvs pol n').node,
      (mapSetKvs_ni i s kvs pol n).2, (mapSetKvs_ni i' s kvs pol n').2]
    exact sig_of_kids _ _ _ _ _ (by simp [hkind]) hk.1

/-- `lst[i] = r` on a List sets the existing member in place: same structure as a fresh
    `member_schema(value=r)` whenever `set` resets -/
theorem setNode_member (m : Schema) (r : Raw) (h : Resets m r) (hok : WrapOK m r) (el : Node) (he : el.sch = m)
    (n : Nat) :
    sig (setNode el r none n).node = wrapSig m r ∧ ∃ b, (setNode el r none n).res = .ok b := by
  have := setNode_resets m r h el (blank m none [] 0).1 he (blank_ni m none [] 0).2 none n (blank m none [] 0).2
  obtain ⟨b, hb⟩ := hok
  exact ⟨this.1, b, by rw [this.2]; exact hb⟩

/-! ### scalar member schemas: the adapted value is `adaptScalar` -/

theorem blank_scalar (m : Schema) (hm : ScalarSchema m) (p : Option Nat) (k : Str) (next : Nat) :
    blank m p k next = (.mk { id := next, parent := p, key := k } m [], next + 1) := by
  cases m with
  | mk info dflt subs =>
    have hk : info.kind = .integer ∨ info.kind = .string := hm
    unfold blank
    rcases hk with hk | hk <;> simp [hk]

theorem wrap_scalar (m : Schema) (hm : ScalarSchema m) (r : Raw) :
    (WrapOK m r ↔ (adaptScalar m.kind r).isSome = true) ∧
    (∀ v u ok, adaptScalar m.kind r = some (v, u, ok) → wrapSig m r = .sc v u) := by
  unfold WrapOK wrapSig wrapNode
  rw [blank_scalar m hm none [] 0]
  constructor
  · constructor
    · rintro ⟨b, hb⟩
      cases ha : adaptScalar m.kind r with
      | some _ => rfl
      | none =>
        exfalso
        cases m with
        | mk info dflt subs =>
          have hk : info.kind = .integer ∨ info.kind = .string := hm
          unfold setNode at hb
          rcases hk with hk | hk <;> simp [hk, Schema.kind, Schema.info] at ha hb <;> simp [ha] at hb
    · intro h
      obtain ⟨⟨v, u, ok⟩, hv⟩ := Option.isSome_iff_exists.mp h
      exact ⟨ok, (setNode_scalar (.mk { id := 0, parent := none, key := [] } m []) hm r none 1 v u ok hv).1⟩
  · intro v u ok hv
    exact (setNode_scalar (.mk { id := 0, parent := none, key := [] } m []) hm r none 1 v u ok hv).2.2.1

/-! ### `.value` is a function of `sig` -/

mutual
def sigValue : Sig → Raw
  | .sc v _ => (match v with | .none => .none | .int n => .int n | .str t => .str t)
  | .seq xs => .list (sigValueL xs)
  | .map kvs => .dict (sigValueKV kvs)
def sigValueL : List Sig → List Raw
  | [] => []
  | x :: xs => sigValue x :: sigValueL xs
def sigValueKV : List (Str × Sig) → List (Str × Raw)
  | [] => []
  | (k, x) :: xs => (k, sigValue x) :: sigValueKV xs
end

mutual
theorem valueOf_sig : (n : Node) → valueOf n = sigValue (sig n)
  | .mk i s kids => by
    rw [valueOf, sig]
    cases s.kind with
    | integer => simp only [sigValue]; cases i.val <;> rfl
    | string => simp only [sigValue]; cases i.val <;> rfl
    | list => simp only [sigValue, valueL_sig kids]
    | array => simp only [sigValue, valueL_sig kids]
    | multi => exact valueFirst_sig kids
    | dict => simp only [sigValue, valueKV_sig kids]
    | sparse => simp only [sigValue, valueKV_sig kids]
    | slot => exact valueFirst_sig kids
theorem valueFirst_sig : (ks : List Node) → valueFirst ks = sigValue (sigFirst ks)
  | [] => rfl
  | k :: _ => by rw [valueFirst, sigFirst]; exact valueOf_sig k
theorem valueL_sig : (ks : List Node) → valueL ks = sigValueL (sigL ks)
  | [] => rfl
  | k :: ks => by rw [valueL, sigL, sigValueL, valueOf_sig k, valueL_sig ks]
theorem valueKV_sig : (ks : List Node) → valueKV ks = sigValueKV (sigKV ks)
  | [] => rfl
  | k :: ks => by rw [valueKV, sigKV, sigValueKV, valueOf_sig k, valueKV_sig ks]
end

mutual
/-- the value `Sequence.__imul__` re-feeds for a member (`_replica_value`), read off its
    `(value, u)` structure: the value, with the text of every scalar that could not be adapted -/
def imulRaw : Sig → Raw
  | .sc v u => (match v with | .none => if u.isEmpty then .none else .str u | .int n => .int n | .str t => .str t)
  | .seq xs => .list (imulRawL xs)
  | .map kvs => .dict (imulRawKV kvs)
def imulRawL : List Sig → List Raw
  | [] => []
  | x :: xs => imulRaw x :: imulRawL xs
def imulRawKV : List (Str × Sig) → List (Str × Raw)
  | [] => []
  | (k, x) :: xs => (k, imulRaw x) :: imulRawKV xs
end

mutual
/-- no MultiValue anywhere inside the element: a MultiValue compares (and shows as `(value, u)`) by
    its first member only, while `*=` replicates all its members — the one place where the
    `(value, u)` abstraction is too coarse to say what `*=` re-feeds -/
def noMulti : Node → Bool
  | .mk _ s kids =>
    match s.kind with
    | .integer | .string => true
    | .multi => false
    | _ => noMultiL kids
def noMultiL : List Node → Bool
  | [] => true
  | k :: ks => noMulti k && noMultiL ks
end

mutual
theorem replicaValue_sig : (n : Node) → noMulti n = true → replicaValue n = imulRaw (sig n)
  | .mk i s kids, h => by
    rw [replicaValue, sig]
    rw [noMulti] at h
    cases hk : s.kind with
    | integer => simp only [imulRaw]; cases i.val <;> rfl
    | string => simp only [imulRaw]; cases i.val <;> rfl
    | list => simp only [hk] at h; simp only [imulRaw, replicaL_sig kids h]
    | array => simp only [hk] at h; simp only [imulRaw, replicaL_sig kids h]
    | multi => simp [hk] at h
    | dict => simp only [hk] at h; simp only [imulRaw, replicaKV_sig kids h]
    | sparse => simp only [hk] at h; simp only [imulRaw, replicaKV_sig kids h]
    | slot => simp only [hk] at h; exact replicaFirst_sig kids h
theorem replicaFirst_sig : (ks : List Node) → noMultiL ks = true → replicaFirst ks = imulRaw (sigFirst ks)
  | [], _ => rfl
  | k :: _, h => by
    rw [noMultiL, Bool.and_eq_true] at h
    rw [replicaFirst, sigFirst]; exact replicaValue_sig k h.1
theorem replicaL_sig : (ks : List Node) → noMultiL ks = true → replicaL ks = imulRawL (sigL ks)
  | [], _ => rfl
  | k :: ks, h => by
    rw [noMultiL, Bool.and_eq_true] at h
    rw [replicaL, sigL, imulRawL, replicaValue_sig k h.1, replicaL_sig ks h.2]
theorem replicaKV_sig : (ks : List Node) → noMultiL ks = true → replicaKV ks = imulRawKV (sigKV ks)
  | [], _ => rfl
  | k :: ks, h => by
    rw [noMultiL, Bool.and_eq_true] at h
    rw [replicaKV, sigKV, imulRawKV, replicaValue_sig k h.1, replicaKV_sig ks h.2]
end

theorem imulValue_sig (x : Node) (h : noMulti x = true) : imulValue x = imulRaw (sig x) :=
  replicaValue_sig x h

end Flatland.Tree
