/-
C01, second round trip with SparseDicts — what emits:
* `emitsB_dictS`: a mapping (no Compound) emits iff one of its members does;
* `bl_stable`: a stable state that emits nothing (that survives) looks like the fresh element;
* `emitsB_prS_true`: below a pruning List, `prS` of an emitting state still emits.
-/
import Proofs.Lemmas.C01SparseSecondLvl
import Proofs.Lemmas.C01SparseSecondOk
import Proofs.Lemmas.C01PLeaves
namespace Flatland.Flat.Proofs
open Flatland.Flat Flatland.Flat.Spec

variable {env : Env} {sep : Str}

theorem prefixFree_of_mem : ∀ {fs : List Schema}, prefixFreeL fs = true → ∀ f ∈ fs, prefixFree f = true
  | [], _, f, hf => by simp at hf
  | g :: gs, h, f, hf => by
    simp only [prefixFreeL, Bool.and_eq_true] at h
    rcases List.mem_cons.mp hf with rfl | hf
    · exact h.1
    · exact prefixFree_of_mem h.2 f hf

theorem emitsB_dictS (env : Env) (u : Bool) (nm : Option Str) (o : Bool) (mode : DictMode)
    (fields : List Schema) (ms : List (Str × Elem)) :
    emitsB env u (.dict nm o mode fields) (.dict ms) = true ↔
      ∃ p ∈ ms, ∃ f, findField p.1 fields = some f ∧ emitsB env u f p.2 = true := by
  rw [emitsB_iffN, resolve_dictS, emitsN_mk]
  constructor
  · rintro (⟨h, _⟩ | ⟨_, k, hk, hem⟩)
    · cases h
    · obtain ⟨p, hp, f, hf, rfl⟩ := kidsS_mem hk
      exact ⟨p, hp, f, hf, (emitsB_iffN env u f p.2).mpr hem⟩
  · rintro ⟨p, hp, f, hf, hem⟩
    exact Or.inr ⟨rfl, resolve env f p.2, kidsS_of_mem hf (by simpa using hp),
      (emitsB_iffN env u f p.2).mp hem⟩

theorem emitsB_compoundS (env : Env) (u : Bool) (nm : Option Str) (o : Bool) (k : Nat)
    (fields : List Schema) (ms : List (Str × Elem)) :
    emitsB env u (.compound nm o k fields) (.dict ms) = true ↔
      (!u || !(env.compose k (usOf env fields ms)).isEmpty) = true ∨
      ∃ p ∈ ms, ∃ f, findField p.1 fields = some f ∧ emitsB env u f p.2 = true := by
  rw [emitsB_iffN, resolve_compoundS, emitsN_mk]
  constructor
  · rintro (⟨_, h⟩ | ⟨_, k', hk, hem⟩)
    · exact Or.inl h
    · obtain ⟨p, hp, f, hf, rfl⟩ := kidsS_mem hk
      exact Or.inr ⟨p, hp, f, hf, (emitsB_iffN env u f p.2).mpr hem⟩
  · rintro (h | ⟨p, hp, f, hf, hem⟩)
    · exact Or.inl ⟨rfl, h⟩
    · exact Or.inr ⟨rfl, resolve env f p.2, kidsS_of_mem hf (by simpa using hp),
        (emitsB_iffN env u f p.2).mp hem⟩

theorem lvlEmpty_mk_nil (nm : Option Str) (cfl : Bool) (t : Str) (s : Bool) :
    LvlEmpty (.mk nm false cfl t s []) := by
  intro d
  cases d with
  | zero => rw [lvl_zero_mk]; rfl
  | succ d => rw [lvl_succ_mk]; cases cfl <;> simp [kidsFrom, lvl_nil]

theorem nil_of_all_any {α} (p : α → Bool) : ∀ (l : List α), (∀ x ∈ l, p x = true) → l.any p = false → l = []
  | [], _, _ => rfl
  | a :: l, h, ha => by simp [h a (by simp)] at ha

theorem dropWhile_all {α} (f : α → Bool) : ∀ l : List α, (∀ x ∈ l, f x = true) → l.dropWhile f = []
  | [], _ => rfl
  | a :: l, h => by
    rw [List.dropWhile_cons_of_pos (h a (by simp))]
    exact dropWhile_all f l (fun x hx => h x (List.mem_cons_of_mem _ hx))

theorem nil_of_dropTrailing_self {α} (p : α → Bool) (l : List α) (h : dropTrailing p l = l)
    (ha : l.any p = false) : l = [] := by
  have hall : ∀ x ∈ l.reverse, (fun x => !p x) x = true := by
    intro x hx
    have := List.any_eq_false.mp ha x (List.mem_reverse.mp hx)
    simpa using this
  have : l.reverse.dropWhile (fun x => !p x) = [] := dropWhile_all _ _ hall
  unfold dropTrailing at h
  rw [this] at h
  exact h.symm

/-- when nothing is touched, `prS` rebuilds the fresh mapping -/
theorem pick_untouched (req : Schema → Bool) (keys : List (Str × Str)) (V : Schema → Elem) :
    ∀ fs : List Schema, (∀ f ∈ fs, touched keys f = false) →
      pickV req keys V true fs ++ pickV req keys V false fs = blankSel req fs
  | [], _ => rfl
  | f :: fs, h => by
    have ih := pick_untouched req keys V fs (fun g hg => h g (List.mem_cons_of_mem _ hg))
    have ht := h f (by simp)
    simp only [pickV, blankSel, ht, if_true, Bool.false_eq_true, if_false, Bool.and_false]
    cases hr : req f with
    | true => simp only [if_true, List.cons_append, ih]
    | false => simp only [Bool.false_eq_true, if_false, ih]

/-- **a silent stable state looks fresh** -/
theorem bl_stable (s : Schema) (hw : wf s = true) (hpf : prefixFree s = true)
    (u : Bool) (x : Elem) (hok : OkS env s x)
    (hst : StableS env sep u s x) (hem : emitsB env u s x = false) :
    LvlEq (resolve env s x) (resolve env s (blank s)) := by
  cases s with
  | leaf nm o k =>
    cases x with
    | leaf t =>
      rw [emitsB_leaf] at hem
      simp only [Bool.or_eq_false_iff, Bool.not_eq_false', List.isEmpty_iff] at hem
      rw [hem.2]; simp only [blank]; exact LvlEq.refl _
    | _ => simp [OkS, OkP] at hok
  | joined nm o k mem =>
    cases x with
    | joined t ms =>
      rw [emitsB_joined] at hem
      simp only [Bool.or_eq_false_iff, Bool.not_eq_false', List.isEmpty_iff] at hem
      simp only [blank]
      rw [resolve_joined, resolve_joined, hem.2]
      exact lvlEq_nocfl _ _ _ _ _ _ _
    | _ => simp [OkS, OkP] at hok
  | compound nm o k fields =>
    cases x with
    | dict ms =>
      have hl := lvl_prS (env := env) (sep := sep) _ hw u _ hok hst
      simp only [wf, Bool.and_eq_true] at hw
      have hnd : (namesOf fields).Nodup := by simpa using hw.2
      have hsome := allSome_of fields hw.1.2
      simp only [prefixFree, Bool.and_eq_true] at hpf
      simp only [OkS] at hok
      have hnone : ∀ f ∈ fields, touched (innerPairs env sep u fields ms) f = false := by
        intro f hf
        apply (touched_false_iff fields hnd hsome (namesPF_of_all fields hpf.2) ms hok.1 f hf u).mpr
        intro e he
        cases h : emitsB env u f e with
        | false => rfl
        | true =>
          exfalso
          have hx := name_eq_nmOf hsome hf
          have hmem := mem_of_lookup he
          have : emitsB env u (.compound nm o k fields) (.dict ms) = true :=
            (emitsB_compoundS env u nm o k fields ms).mpr
              (Or.inr ⟨_, hmem, f, findField_unique hnd hf (by rw [hx]; rfl), h⟩)
          rw [hem] at this; cases this
      have hprs : prS env sep u (.compound nm o k fields) (.dict ms) = blank (.compound nm o k fields) := by
        simp only [prS]
        rw [prSPick_eq, prSPick_eq, pick_untouched _ _ _ fields hnone]
        simp only [blank, blankFields_sel]
      rw [hprs] at hl
      exact hl.symm
    | _ => simp [OkS] at hok
  | array nm o p member =>
    cases x with
    | array ms =>
      cases u with
      | false =>
        apply lvlEq_of_empty (lvlEmpty_of_emitsB_false hem)
        simp only [blank]; rw [resolve_array]; exact lvlEmpty_mk_nil _ _ _ _
      | true =>
        simp only [StableS, Bool.true_or] at hst
        rw [emitsB_array] at hem
        rw [nil_of_all_any _ ms hst hem]; simp only [blank]; exact LvlEq.refl _
    | _ => simp [OkS, OkP] at hok
  | list nm o p mx member =>
    cases x with
    | list ms =>
      cases u with
      | false =>
        apply lvlEq_of_empty (lvlEmpty_of_emitsB_false hem)
        simp only [blank]; rw [resolve_list]; exact lvlEmpty_mk_nil _ _ _ _
      | true =>
        simp only [StableS] at hst
        rw [emitsB_list] at hem
        have : ms = [] := by
          cases p with
          | true => exact nil_of_all_any _ ms (fun m hm => (hst.1 rfl m hm).1) hem
          | false => exact nil_of_dropTrailing_self _ ms ((hst.2 rfl).2 trivial) hem
        rw [this]; simp only [blank]; exact LvlEq.refl _
    | _ => simp [OkS] at hok
  | dict nm o mode fields =>
    cases x with
    | dict ms =>
      have hl := lvl_prS (env := env) (sep := sep) _ hw u _ hok hst
      simp only [wf, Bool.and_eq_true] at hw
      have hnd : (namesOf fields).Nodup := by simpa using hw.2
      have hsome := allSome_of fields hw.1.2
      simp only [prefixFree, Bool.and_eq_true] at hpf
      simp only [OkS] at hok
      have hnone : ∀ f ∈ fields, touched (innerPairs env sep u fields ms) f = false := by
        intro f hf
        apply (touched_false_iff fields hnd hsome (namesPF_of_all fields hpf.2) ms hok.1 f hf u).mpr
        intro e he
        cases h : emitsB env u f e with
        | false => rfl
        | true =>
          exfalso
          have hx := name_eq_nmOf hsome hf
          have hmem := mem_of_lookup he
          have : emitsB env u (.dict nm o mode fields) (.dict ms) = true :=
            (emitsB_dictS env u nm o mode fields ms).mpr
              ⟨_, hmem, f, findField_unique hnd hf (by rw [hx]; rfl), h⟩
          rw [hem] at this; cases this
      have hprs : prS env sep u (.dict nm o mode fields) (.dict ms) = blank (.dict nm o mode fields) := by
        simp only [prS]
        rw [prSPick_eq, prSPick_eq, pick_untouched _ _ _ fields hnone, blank_dict_members]
      rw [hprs] at hl
      exact hl.symm
    | _ => simp [OkS] at hok

/-! ### a Compound's own text: a silent full state shows the fresh text, `prS` keeps the text -/

theorem uOf_dict_nil (env : Env) (nm : Option Str) (o : Bool) (mode : DictMode) (fields : List Schema)
    (x : Elem) : uOf env (.dict nm o mode fields) x = [] := by cases x <;> simp [uOf]
theorem uOf_list_nil (env : Env) (nm : Option Str) (o p : Bool) (mx : Nat) (member : Schema)
    (x : Elem) : uOf env (.list nm o p mx member) x = [] := by cases x <;> simp [uOf]
theorem uOf_array_nil (env : Env) (nm : Option Str) (o p : Bool) (member : Schema)
    (x : Elem) : uOf env (.array nm o p member) x = [] := by cases x <;> simp [uOf]

theorem full_mem {fields : List Schema} {ms : List (Str × Elem)}
    (h : ms.map (·.1) = fields.map (fun f => f.name.getD [])) :
    ∀ f ∈ fields, f.name.getD [] ∈ ms.map (·.1) := by
  intro f hf
  rw [h]
  exact List.mem_map.mpr ⟨f, hf, rfl⟩

theorem uOf_blank_silent : ∀ s : Schema, wf s = true →
    ∀ (u : Bool) (m : Elem), OkS env s m → compoundsFull s m = true → emitsB env u s m = false →
      uOf env s (blank s) = uOf env s m := by
  intro s
  induction s using schema_ind with
  | hleaf nm o k =>
    intro _ u m hok _ hem
    cases m with
    | leaf t =>
      rw [emitsB_leaf] at hem
      simp only [Bool.or_eq_false_iff, Bool.not_eq_false', List.isEmpty_iff] at hem
      rw [hem.2]; rfl
    | _ => simp [OkS, OkP] at hok
  | hjoined nm o k mem =>
    intro _ u m hok _ hem
    cases m with
    | joined t ms =>
      rw [emitsB_joined] at hem
      simp only [Bool.or_eq_false_iff, Bool.not_eq_false', List.isEmpty_iff] at hem
      rw [hem.2]; simp [blank, uOf]
    | _ => simp [OkS, OkP] at hok
  | hdict nm o mode fields ih => intro _ u m _ _ _; rw [uOf_dict_nil, uOf_dict_nil]
  | hlist nm o p mx member ih => intro _ u m _ _ _; rw [uOf_list_nil, uOf_list_nil]
  | harray nm o p member ih => intro _ u m _ _ _; rw [uOf_array_nil, uOf_array_nil]
  | hcompound nm o k fields ih =>
    intro hw u m hok hcf hem
    cases m with
    | dict ms =>
      simp only [wf, Bool.and_eq_true] at hw
      have hnd : (namesOf fields).Nodup := by simpa using hw.2
      have hsome := allSome_of fields hw.1.2
      simp only [OkS] at hok
      simp only [compoundsFull, Bool.and_eq_true, decide_eq_true_eq] at hcf
      simp only [blank]
      rw [uOf_compound, uOf_compound]
      congr 1
      apply usOf_congr
      intro f hf
      obtain ⟨e, hl⟩ := lookup_of_keys_full hok.1 (full_mem hcf.1) f hf
      refine ⟨_, e, lookup_blankFields fields hnd hsome f hf, hl, ?_⟩
      apply ih f hf (wf_of_mem hw.1.1 f hf) u e (okS_member_lookup hnd hok.2 hf (hsome f hf) hl)
        (compoundsFullMs_get hcf.2 f hf e hl)
      cases h : emitsB env u f e with
      | false => rfl
      | true =>
        exfalso
        have hx := name_eq_nmOf hsome hf
        have : emitsB env u (.compound nm o k fields) (.dict ms) = true :=
          (emitsB_compoundS env u nm o k fields ms).mpr
            (Or.inr ⟨_, mem_of_lookup hl, f, findField_unique hnd hf (by rw [hx]; rfl), h⟩)
        rw [hem] at this; cases this
    | _ => simp [OkS] at hok

theorem uOf_prS : ∀ s : Schema, wf s = true → prefixFree s = true →
    ∀ (u : Bool) (e : Elem), OkS env s e → compoundsFull s e = true →
      uOf env s (prS env sep u s e) = uOf env s e := by
  intro s
  induction s using schema_ind with
  | hleaf nm o k => intro _ _ u e _ _; rw [prS, pr]
  | hjoined nm o k mem =>
    intro _ _ u e hok _
    cases e with
    | joined t ms =>
      simp only [prS, pr]
      split
      · rename_i h
        simp only [Bool.and_eq_true, List.isEmpty_iff] at h
        simp [uOf, h.2]
      · rfl
    | _ => simp [OkS, OkP] at hok
  | hdict nm o mode fields ih => intro _ _ u e _ _; rw [uOf_dict_nil, uOf_dict_nil]
  | hlist nm o p mx member ih => intro _ _ u e _ _; rw [uOf_list_nil, uOf_list_nil]
  | harray nm o p member ih => intro _ _ u e _ _; rw [uOf_array_nil, uOf_array_nil]
  | hcompound nm o k fields ih =>
    intro hw hpf u e hok hcf
    cases e with
    | dict ms =>
      simp only [wf, Bool.and_eq_true] at hw
      have hnd : (namesOf fields).Nodup := by simpa using hw.2
      have hsome := allSome_of fields hw.1.2
      simp only [prefixFree, Bool.and_eq_true] at hpf
      simp only [OkS] at hok
      simp only [compoundsFull, Bool.and_eq_true, decide_eq_true_eq] at hcf
      simp only [prS]
      rw [prSPick_eq, prSPick_eq, uOf_compound, uOf_compound]
      congr 1
      apply usOf_congr
      intro f hf
      obtain ⟨e, hl⟩ := lookup_of_keys_full hok.1 (full_mem hcf.1) f hf
      refine ⟨_, e, lookup_pick_req fields hnd hsome _ _ _ f hf rfl, hl, ?_⟩
      have hoke := okS_member_lookup hnd hok.2 hf (hsome f hf) hl
      have hcfe := compoundsFullMs_get hcf.2 f hf e hl
      cases ht : touched (innerPairs env sep u fields ms) f with
      | true =>
        simp only [if_true, valS, hl]
        exact ih f hf (wf_of_mem hw.1.1 f hf) (prefixFree_of_mem hpf.1 f hf) u e hoke hcfe
      | false =>
        simp only [Bool.false_eq_true, if_false]
        exact uOf_blank_silent f (wf_of_mem hw.1.1 f hf) u e hoke hcfe
          ((touched_false_iff fields hnd hsome (namesPF_of_all fields hpf.2) ms hok.1 f hf u).mp ht e hl)
    | _ => simp [OkS] at hok

/-! ### below a pruning List, `prS` of an emitting state still emits -/

theorem mem_pick_of_touched (req : Schema → Bool) (keys : List (Str × Str)) (V : Schema → Elem) :
    ∀ (fs : List Schema) (f : Schema), f ∈ fs → touched keys f = true →
      (f.name.getD [], V f) ∈ pickV req keys V true fs ++ pickV req keys V false fs
  | [], f, hf, _ => by simp at hf
  | g :: gs, f, hf, ht => by
    rcases List.mem_cons.mp hf with rfl | hf
    · cases hr : req f with
      | true =>
        apply List.mem_append_left
        simp [pickV, hr, ht]
      | false =>
        apply List.mem_append_right
        simp [pickV, hr, ht]
    · have ih := mem_pick_of_touched req keys V gs f hf ht
      rcases List.mem_append.mp ih with h | h
      · apply List.mem_append_left
        simp only [pickV, if_true]
        split
        · exact List.mem_cons_of_mem _ h
        · exact h
      · apply List.mem_append_right
        simp only [pickV, Bool.false_eq_true, if_false]
        split
        · exact List.mem_cons_of_mem _ h
        · exact h

theorem emitsB_prS_true : ∀ s : Schema, wf s = true → prefixFree s = true →
    ∀ e : Elem, OkS env s e → compoundsFull s e = true → emitsB env true s e = true →
      emitsB env true s (prS env sep true s e) = true := by
  intro s
  induction s using schema_ind with
  | hleaf nm o k =>
    intro _ _ e _ _ h
    rw [prS, pr]; exact h
  | hjoined nm o k mem =>
    intro _ _ e hok _ h
    cases e with
    | joined t ms =>
      rw [emitsB_joined] at h
      simp only [prS, pr]
      split
      · rename_i h'
        simp only [Bool.true_and] at h'
        simp [h'] at h
      · rw [emitsB_joined]; exact h
    | _ => simp [OkS, OkP] at hok
  | hdict nm o mode fields ih =>
    intro hw hpf e hok hcf h
    cases e with
    | dict ms =>
      simp only [wf, Bool.and_eq_true] at hw
      have hnd : (namesOf fields).Nodup := by simpa using hw.2
      have hsome := allSome_of fields hw.1.2
      simp only [prefixFree, Bool.and_eq_true] at hpf
      simp only [compoundsFull] at hcf
      simp only [OkS] at hok
      obtain ⟨p, hp, f, hff, hemf⟩ := (emitsB_dictS env true nm o mode fields ms).mp h
      obtain ⟨hf, hname⟩ := findField_someS hff
      have hl : lookup (f.name.getD []) ms = some p.2 := by
        rw [hname]; exact lookup_of_mem_nodup hok.1 hp
      have ht : touched (innerPairs env sep true fields ms) f = true :=
        (touched_iff fields hnd hsome (namesPF_of_all fields hpf.2) ms hok.1 f hf true).mpr
          ⟨p.2, hl, hemf⟩
      simp only [prS]
      rw [prSPick_eq, prSPick_eq]
      apply (emitsB_dictS env true nm o mode fields _).mpr
      refine ⟨_, mem_pick_of_touched _ _ _ fields f hf ht, f, ?_, ?_⟩
      · simp only [hname, Option.getD_some]; exact hff
      · simp only [valS, hl]
        exact ih f hf (wf_of_mem hw.1.1 f hf) (prefixFree_of_mem hpf.1 f hf)
          p.2 (okS_member_lookup hnd hok.2 hf (hsome f hf) hl) (compoundsFullMs_get hcf f hf p.2 hl) hemf
    | _ => simp [OkS] at hok
  | hcompound nm o k fields ih =>
    intro hw hpf e hok hcf h
    cases e with
    | dict ms =>
      have hu := uOf_prS (env := env) (sep := sep) (.compound nm o k fields) hw hpf true (.dict ms) hok hcf
      simp only [wf, Bool.and_eq_true] at hw
      have hnd : (namesOf fields).Nodup := by simpa using hw.2
      have hsome := allSome_of fields hw.1.2
      simp only [prefixFree, Bool.and_eq_true] at hpf
      simp only [compoundsFull, Bool.and_eq_true, decide_eq_true_eq] at hcf
      simp only [OkS] at hok
      simp only [prS] at hu ⊢
      rw [prSPick_eq, prSPick_eq] at hu ⊢
      rw [uOf_compound, uOf_compound] at hu
      apply (emitsB_compoundS env true nm o k fields _).mpr
      rcases (emitsB_compoundS env true nm o k fields ms).mp h with h | ⟨p, hp, f, hff, hemf⟩
      · left; rw [hu]; exact h
      · right
        obtain ⟨hf, hname⟩ := findField_someS hff
        have hl : lookup (f.name.getD []) ms = some p.2 := by
          rw [hname]; exact lookup_of_mem_nodup hok.1 hp
        have ht : touched (innerPairs env sep true fields ms) f = true :=
          (touched_iff fields hnd hsome (namesPF_of_all fields hpf.2) ms hok.1 f hf true).mpr
            ⟨p.2, hl, hemf⟩
        refine ⟨_, mem_pick_of_touched _ _ _ fields f hf ht, f, ?_, ?_⟩
        · simp only [hname, Option.getD_some]; exact hff
        · simp only [valS, hl]
          exact ih f hf (wf_of_mem hw.1.1 f hf) (prefixFree_of_mem hpf.1 f hf)
            p.2 (okS_member_lookup hnd hok.2 hf (hsome f hf) hl) (compoundsFullMs_get hcf.2 f hf p.2 hl) hemf
    | _ => simp [OkS] at hok
  | hlist nm o p mx member ih =>
    intro hw hpf e hok hcf h
    simp only [wf] at hw
    simp only [prefixFree] at hpf
    have ih := ih hw hpf
    cases e with
    | list ms =>
      simp only [compoundsFull, List.all_eq_true] at hcf
      simp only [OkS] at hok
      obtain ⟨_, _, hmem⟩ := hok
      rw [emitsB_list] at h
      obtain ⟨m, hm, hemm⟩ := List.any_eq_true.mp h
      simp only [prS]
      split
      · rw [emitsB_list, List.any_map]
        exact List.any_eq_true.mpr ⟨m, List.mem_filter.mpr ⟨hm, hemm⟩, ih m (hmem m hm) (hcf m hm) hemm⟩
      · rw [emitsB_list, List.any_map]
        have hD : (dropTrailing (emitsB env true member) ms).any (emitsB env true member) = true := by
          rw [any_dropTrailing]; exact h
        obtain ⟨m', hm', hemm'⟩ := List.any_eq_true.mp hD
        refine List.any_eq_true.mpr ⟨m', hm', ?_⟩
        simp only [Function.comp, hemm', if_true]
        exact ih m' (hmem m' (mem_of_mem_dropTrailing _ _ _ hm')) (hcf m' (mem_of_mem_dropTrailing _ _ _ hm')) hemm'
    | _ => simp [OkS] at hok
  | harray nm o p member ih =>
    intro _ _ e hok _ h
    cases e with
    | array ms =>
      simp only [prS, pr, Bool.true_or]
      rw [emitsB_array] at h ⊢
      rw [any_filter_self]; exact h
    | _ => simp [OkS, OkP] at hok

end Flatland.Flat.Proofs
