/-
C01: the round trip through a mapping (`Mapping._set_flat` on the flatten output of a Dict /
Compound), given the round trip of every field.
-/
import Proofs.Lemmas.C01Leaves
namespace Flatland.Flat.Proofs
open Flatland.Flat Flatland.Flat.Spec

variable {env : Env} {sep : Str} {T : Str → Prop}

/-! ### association-list and filter facts -/

theorem lookup_append_skip (key : Str) (a b : List (Str × Elem)) (h : ∀ p ∈ a, p.1 ≠ key) :
    lookup key (a ++ b) = lookup key b := by
  induction a with
  | nil => rfl
  | cons x xs ih =>
    obtain ⟨k, e⟩ := x
    have hk : k ≠ key := h (k, e) (by simp)
    simp only [List.cons_append, lookup, hk, if_false]
    exact ih (fun p hp => h p (List.mem_cons_of_mem _ hp))

theorem replace_append_skip (key : Str) (x : Elem) (a b : List (Str × Elem)) (h : ∀ p ∈ a, p.1 ≠ key) :
    replace key x (a ++ b) = a ++ replace key x b := by
  induction a with
  | nil => rfl
  | cons y ys ih =>
    obtain ⟨k, e⟩ := y
    have hk : k ≠ key := h (k, e) (by simp)
    simp only [List.cons_append, replace, hk, if_false]
    rw [ih (fun p hp => h p (List.mem_cons_of_mem _ hp))]

theorem filter_unique {α} (p : α → Bool) (a : List α) (x : α) (b : List α) (hx : p x = true)
    (ha : ∀ y ∈ a, p y = false) (hb : ∀ y ∈ b, p y = false) : (a ++ x :: b).filter p = [x] := by
  rw [List.filter_append, List.filter_cons, hx]
  have h1 : a.filter p = [] := List.filter_eq_nil_iff.mpr (fun y hy => by simp [ha y hy])
  have h2 : b.filter p = [] := List.filter_eq_nil_iff.mpr (fun y hy => by simp [hb y hy])
  simp [h1, h2]

theorem wrap_filter (l : List (Str × Str)) (P : Key → Bool) :
    (wrap l).filter (fun p => P p.1) = wrap (l.filter (fun p => P (some p.1))) := by
  induction l with
  | nil => simp [wrap]
  | cons x xs ih =>
    simp only [wrap, List.map_cons, List.filter_cons] at ih ⊢
    split <;> simp [ih]

/-! ### the members of an `Ok` mapping -/

theorem okFields_keys (env : Env) : ∀ (fs : List Schema) (ms : List (Str × Elem)), OkFields env fs ms →
    ms.map (fun p => some p.1) = namesOf fs
  | [], [], _ => rfl
  | [], _ :: _, h => by simp [OkFields] at h
  | _ :: _, [], h => by simp [OkFields] at h
  | f :: fs, (k, e) :: ms, h => by
    simp only [OkFields] at h
    simp only [List.map_cons, namesOf, h.1, okFields_keys env fs ms h.2.2]

theorem okFields_append (env : Env) : ∀ (a : List Schema) (ma : List (Str × Elem)) (b : List Schema)
    (mb : List (Str × Elem)), OkFields env a ma → OkFields env b mb → OkFields env (a ++ b) (ma ++ mb)
  | [], [], _, _, _, hb => hb
  | [], _ :: _, _, _, h, _ => by simp [OkFields] at h
  | _ :: _, [], _, _, h, _ => by simp [OkFields] at h
  | f :: fs, (k, e) :: ms, b, mb, h, hb => by
    simp only [OkFields] at h
    simp only [List.cons_append, OkFields]
    exact ⟨h.1, h.2.1, okFields_append env fs ms b mb h.2.2 hb⟩

theorem resKids_append (env : Env) : ∀ (a : List Schema) (ma : List (Str × Elem)) (b : List Schema)
    (mb : List (Str × Elem)), OkFields env a ma →
    resKids env (a ++ b) (ma ++ mb) = resKids env a ma ++ resKids env b mb
  | [], [], _, _, _ => rfl
  | [], _ :: _, _, _, h => by simp [OkFields] at h
  | _ :: _, [], _, _, h => by simp [OkFields] at h
  | f :: fs, (k, e) :: ms, b, mb, h => by
    simp only [OkFields] at h
    simp only [List.cons_append, resKids, resKids_append env fs ms b mb h.2.2]

theorem resKids_names (env : Env) : ∀ (fs : List Schema) (ms : List (Str × Elem)), OkFields env fs ms →
    ∀ k ∈ resKids env fs ms, k.name ∈ namesOf fs
  | [], [], _, k, hk => by simp [resKids] at hk
  | [], _ :: _, h, _, _ => by simp [OkFields] at h
  | _ :: _, [], h, _, _ => by simp [OkFields] at h
  | f :: fs, (key, e) :: ms, h, k, hk => by
    simp only [OkFields] at h
    simp only [resKids, List.mem_cons] at hk
    rcases hk with rfl | hk
    · simp [namesOf, resolve_name]
    · simp only [namesOf, List.mem_cons]
      exact Or.inr (resKids_names env fs ms h.2.2 k hk)

theorem namesOf_append (a b : List Schema) : namesOf (a ++ b) = namesOf a ++ namesOf b := by
  induction a with
  | nil => rfl
  | cons x xs ih => simp [namesOf, ih]

theorem exists_of_mem_namesOf {n : Option Str} {fs : List Schema} (h : n ∈ namesOf fs) :
    ∃ g ∈ fs, g.name = n := by
  induction fs with
  | nil => simp [namesOf] at h
  | cons f fs ih =>
    simp only [namesOf, List.mem_cons] at h
    rcases h with rfl | h
    · exact ⟨f, by simp, rfl⟩
    · obtain ⟨g, hg, hn⟩ := ih h
      exact ⟨g, List.mem_cons_of_mem _ hg, hn⟩

theorem wf_of_mem {fs : List Schema} (h : wfL fs = true) : ∀ f ∈ fs, wf f = true := by
  induction fs with
  | nil => intro f hf; simp at hf
  | cons g gs ih =>
    simp only [wfL, Bool.and_eq_true] at h
    intro f hf
    rcases List.mem_cons.mp hf with rfl | hf
    · exact h.1
    · exact ih h.2 f hf

theorem dense_of_mem {fs : List Schema} (h : denseL fs = true) : ∀ f ∈ fs, dense f = true := by
  induction fs with
  | nil => intro f hf; simp at hf
  | cons g gs ih =>
    simp only [denseL, Bool.and_eq_true] at h
    intro f hf
    rcases List.mem_cons.mp hf with rfl | hf
    · exact h.1
    · exact ih h.2 f hf

/-! ### one field -/

section field
variable (hs : SepSafe env sep T)
include hs

/-- **one field.**  What `Mapping._set_flat` hands to the field named `nm` — every stripped key that
    merely *starts with* `nm` — rebuilds that field's element: the pairs of prefix-sharing siblings
    address nothing in the field and are absorbed. -/
theorem field_roundtrip
    (done : List Schema) (f : Schema) (rest : List Schema)
    (msDone : List (Str × Elem)) (nm : Str) (e : Elem) (msRest : List (Str × Elem))
    (hokD : OkFields env done msDone) (hokR : OkFields env rest msRest)
    (hname : f.name = some nm) (hokF : Ok env f e)
    (hnd : (namesOf (done ++ f :: rest)).Nodup)
    (htok : ∀ g ∈ done ++ f :: rest, ∃ x, g.name = some x ∧ T x)
    (hwf : wf f = true) (hdn : dense f = true) (hrt : RT env sep f) :
    setFlat env sep f (blank f)
      (wrap (((bfsPath ((resKids env (done ++ f :: rest) (msDone ++ (nm, e) :: msRest)).map
        (fun k => (([], k) : QItem)))).map (joinPair sep)).filter (fun p => isPrefix nm p.1))) = e := by
  obtain ⟨nm', hnm', hTnm⟩ := htok f (by simp)
  rw [hname] at hnm'
  have : nm' = nm := by injection hnm' with h; exact h.symm
  subst this
  -- the kids, split around the field
  have hkids : resKids env (done ++ f :: rest) (msDone ++ (nm', e) :: msRest)
      = resKids env done msDone ++ resolve env f e :: resKids env rest msRest := by
    rw [resKids_append env done msDone _ _ hokD]
    rfl
  rw [hkids]
  generalize hQ : (resKids env done msDone ++ resolve env f e :: resKids env rest msRest).map
      (fun k => (([], k) : QItem)) = Q
  have hQ' : Q = (resKids env done msDone).map (fun k => (([], k) : QItem))
      ++ ([], resolve env f e) :: (resKids env rest msRest).map (fun k => (([], k) : QItem)) := by
    rw [← hQ]; simp
  have hkf : (resolve env f e).name = some nm' := by rw [resolve_name, hname]
  rw [namesOf_append] at hnd
  simp only [namesOf] at hnd
  have hnd' := List.nodup_append.mp hnd
  obtain ⟨_, hndR, hdisj⟩ := hnd'
  simp only [List.nodup_cons] at hndR
  -- every other kid has a different, token name
  have hother : ∀ k, (k ∈ resKids env done msDone ∨ k ∈ resKids env rest msRest) →
      ∃ y, k.name = some y ∧ T y ∧ y ≠ nm' := by
    intro k hk
    rcases hk with hk | hk
    · have h1 := resKids_names env done msDone hokD k hk
      obtain ⟨g, hg, hgn⟩ := exists_of_mem_namesOf h1
      obtain ⟨y, hy, hTy⟩ := htok g (by simp [hg])
      refine ⟨y, by rw [← hgn, hy], hTy, ?_⟩
      intro heq
      subst heq
      have : some y ≠ f.name := hdisj (some y) (by rw [← hy, hgn]; exact h1) f.name (by simp)
      exact this hname.symm
    · have h1 := resKids_names env rest msRest hokR k hk
      obtain ⟨g, hg, hgn⟩ := exists_of_mem_namesOf h1
      obtain ⟨y, hy, hTy⟩ := htok g (by simp [hg])
      refine ⟨y, by rw [← hgn, hy], hTy, ?_⟩
      intro heq
      subst heq
      apply hndR.1
      rw [hname, ← hy, hgn]; exact h1
  -- all queue items have a non-empty name path
  have hQne : ∀ it ∈ Q, namePath it.1 it.2 ≠ [] := by
    intro it hit
    rw [hQ'] at hit
    simp only [List.mem_append, List.mem_map, List.mem_cons] at hit
    rcases hit with ⟨k, hk, rfl⟩ | rfl | ⟨k, hk, rfl⟩
    · obtain ⟨y, hy, _⟩ := hother k (Or.inl hk); simp [namePath, hy]
    · simp [namePath, hkf]
    · obtain ⟨y, hy, _⟩ := hother k (Or.inr hk); simp [namePath, hy]
  -- selecting by the first token gives exactly the field's own output
  have hsel : (bfsPath Q).filter (fun x => x.1.head? == some nm') = relFlat (resolve env f e) := by
    rw [bfsPath_filter_head nm' Q hQne, hQ']
    rw [filter_unique]
    · rfl
    · simp [namePath, hkf]
    · intro it hit
      simp only [List.mem_map] at hit
      obtain ⟨k, hk, rfl⟩ := hit
      obtain ⟨y, hy, _, hne⟩ := hother k (Or.inl hk)
      simp [namePath, hy, hne]
    · intro it hit
      simp only [List.mem_map] at hit
      obtain ⟨k, hk, rfl⟩ := hit
      obtain ⟨y, hy, _, hne⟩ := hother k (Or.inr hk)
      simp [namePath, hy, hne]
  -- every emitted path starts with the token name of some kid
  have hhead : ∀ x ∈ bfsPath Q, ∃ y ext, T y ∧ x.1 = y :: ext ∧ (y = nm' ∨ y ≠ nm') := by
    intro x hx
    obtain ⟨it, hit, ext, he⟩ := bfsPath_mem Q x hx
    rw [hQ'] at hit
    simp only [List.mem_append, List.mem_map, List.mem_cons] at hit
    rcases hit with ⟨k, hk, rfl⟩ | rfl | ⟨k, hk, rfl⟩
    · obtain ⟨y, hy, hTy, hne⟩ := hother k (Or.inl hk)
      exact ⟨y, ext, hTy, by simp [he, namePath, hy], Or.inr hne⟩
    · exact ⟨nm', ext, hTnm, by simp [he, namePath, hkf], Or.inl rfl⟩
    · obtain ⟨y, hy, hTy, hne⟩ := hother k (Or.inr hk)
      exact ⟨y, ext, hTy, by simp [he, namePath, hy], Or.inr hne⟩
  -- the predicates agree on the emitted pairs
  have hpred : ∀ x ∈ bfsPath Q,
      (isPrefix nm' (joinPair sep x).1 && addr env sep f (some (joinPair sep x).1))
        = ((x.1.head? == some nm') && addr env sep f (some (joinPair sep x).1)) := by
    intro x hx
    obtain ⟨y, ext, hTy, hxe, hcase⟩ := hhead x hx
    simp only [joinPair, hxe, List.head?_cons]
    rcases hcase with rfl | hne
    · simp [isPrefix_tok_self]
    · rw [addr_other_head hs f nm' hname hTnm y hTy hne ext]
      simp
  -- paths of the field's own output are non-empty
  have hrel_ne : ∀ p ∈ relFlat (resolve env f e), p.1 ≠ [] := by
    intro p hp
    rw [← hsel] at hp
    have := (List.mem_filter.mp hp).2
    intro hnil
    simp [hnil] at this
  calc setFlat env sep f (blank f)
        (wrap (((bfsPath Q).map (joinPair sep)).filter (fun p => isPrefix nm' p.1)))
      = setFlat env sep f (blank f)
          ((wrap (((bfsPath Q).map (joinPair sep)).filter (fun p => isPrefix nm' p.1))).filter
            (fun p => addr env sep f p.1)) := confined_filter env sep f hwf hdn _
    _ = setFlat env sep f (blank f)
          ((wrap ((relFlat (resolve env f e)).map (joinPair sep))).filter
            (fun p => addr env sep f p.1)) := by
        congr 1
        rw [wrap_filter, wrap_filter, List.filter_filter]
        congr 1
        rw [List.filter_map, List.filter_map, ← hsel, List.filter_filter]
        congr 1
        apply List.filter_congr
        intro x hx
        have := hpred x hx
        simp only [Function.comp] at this ⊢
        rw [Bool.and_comm, this, Bool.and_comm]
    _ = setFlat env sep f (blank f) (wrap ((relFlat (resolve env f e)).map (joinPair sep))) :=
        (confined_filter env sep f hwf hdn _).symm
    _ = setFlat env sep f (blank f) (toKeys sep (relFlat (resolve env f e))) := by
        rw [toKeys_eq_wrap sep _ hrel_ne]
    _ = e := hrt e hokF

/-- **all fields.**  The `for schema in self.field_schema` loop, run on the stripped keys of the
    mapping's own flatten output, rebuilds every member. -/
theorem fields_fold (all : List Schema) (allMs : List (Str × Elem))
    (hnd : (namesOf all).Nodup) (htok : ∀ g ∈ all, ∃ x, g.name = some x ∧ T x)
    (hwf : wfL all = true) (hdn : denseL all = true) (hrt : ∀ f ∈ all, RT env sep f) :
    ∀ (fs done : List Schema) (msDone ms' : List (Str × Elem)),
      all = done ++ fs → allMs = msDone ++ ms' → OkFields env done msDone → OkFields env fs ms' →
      setFields env sep fs (msDone ++ blankFields fs)
        ((bfsPath ((resKids env all allMs).map (fun k => (([], k) : QItem)))).map (joinPair sep))
        = msDone ++ ms' := by
  intro fs
  induction fs with
  | nil =>
    intro done msDone ms' _ _ _ hok
    cases ms' with
    | nil => simp [setFields, blankFields]
    | cons m ms => simp [OkFields] at hok
  | cons f fs ih =>
    intro done msDone ms' hall hallMs hokD hok
    cases ms' with
    | nil => simp [OkFields] at hok
    | cons m ms'' =>
      obtain ⟨nm, e⟩ := m
      simp only [OkFields] at hok
      obtain ⟨hname, hokF, hokR⟩ := hok
      have hfmem : f ∈ all := by rw [hall]; simp
      have hX := field_roundtrip hs done f fs msDone nm e ms'' hokD hokR hname hokF
        (by rw [← hall]; exact hnd) (by rw [← hall]; exact htok)
        (wf_of_mem hwf f hfmem) (dense_of_mem hdn f hfmem) (hrt f hfmem)
      rw [← hall, ← hallMs] at hX
      -- keys of the members already done differ from nm
      have hkeys : ∀ p ∈ msDone, p.1 ≠ nm := by
        intro p hp heq
        have h1 : some p.1 ∈ msDone.map (fun q => some q.1) := List.mem_map.mpr ⟨p, hp, rfl⟩
        rw [okFields_keys env done msDone hokD] at h1
        rw [hall, namesOf_append] at hnd
        have := (List.nodup_append.mp hnd).2.2 (some p.1) h1 f.name (by simp [namesOf])
        exact this (by rw [hname, heq])
      rw [setFields_cons]
      simp only [hname, Option.getD_some]
      generalize hacc : ((bfsPath ((resKids env all allMs).map (fun k => (([], k) : QItem)))).map
        (joinPair sep)).filter (fun p => isPrefix nm p.1) = accum at hX
      have hlook : lookup nm (msDone ++ blankFields (f :: fs)) = some (blank f) := by
        rw [lookup_append_skip nm msDone _ hkeys]
        simp [blankFields, lookup, hname]
      have hstep : stepM env sep f (msDone ++ blankFields (f :: fs)) accum
          = (msDone ++ [(nm, e)]) ++ blankFields fs := by
        unfold stepM
        simp only [hname, Option.getD_some, hlook]
        by_cases hemp : accum.isEmpty = true
        · have : accum = [] := by simpa using hemp
          rw [this] at hX
          simp only [wrap, List.map_nil] at hX
          rw [setFlat_blank_nil] at hX
          simp only [hemp, if_true, blankFields, hname, Option.getD_some, hX]
          simp
        · simp only [hemp, if_false, Bool.false_eq_true]
          rw [hX, replace_append_skip nm e msDone _ hkeys]
          simp [blankFields, replace, hname]
      rw [hstep]
      have := ih (done ++ [f]) (msDone ++ [(nm, e)]) ms'' (by rw [hall]; simp) (by rw [hallMs]; simp)
        (okFields_append env done msDone [f] [(nm, e)] hokD (by simp [OkFields, hname, hokF])) hokR
      rw [this]; simp

/-- paths emitted below named kids are non-empty -/
theorem kids_paths_ne (fs : List Schema) (ms : List (Str × Elem)) (hok : OkFields env fs ms)
    (hsome : ∀ g ∈ fs, ∃ x, g.name = some x ∧ T x) :
    ∀ p ∈ bfsPath ((resKids env fs ms).map (fun k => (([], k) : QItem))), p.1 ≠ [] := by
  intro p hp
  obtain ⟨it, hit, ext, he⟩ := bfsPath_mem _ p hp
  simp only [List.mem_map] at hit
  obtain ⟨k, hk, rfl⟩ := hit
  have h1 := resKids_names env fs ms hok k hk
  obtain ⟨g, hg, hgn⟩ := exists_of_mem_namesOf h1
  obtain ⟨y, hy, _⟩ := hsome g hg
  rw [he]
  simp [namePath, ← hgn, hy]

/-- the keys `Mapping._set_flat` keeps after stripping its own name, for the flatten output of
    its members -/
theorem possibles_of_kids (nm : Option Str) (hnm : ∀ x, nm = some x → T x)
    (L : List PPair) (hL : ∀ p ∈ L, p.1 ≠ []) :
    possibles sep nm (toKeys sep (L.map (pre nm.toList))) = L.map (joinPair sep) := by
  cases nm with
  | none =>
    have hid : pre ((none : Option Str).toList) = id := by
      funext x; simp [pre]
    rw [hid, List.map_id]
    exact possibles_anon L hL
  | some x => exact possibles_named hs x L hL

/-- the own pair of a compound is not read back -/
theorem possibles_own (nm : Option Str) (u : Str) (rest : Pairs) :
    possibles sep nm ((tokKey sep nm.toList, u) :: rest) = possibles sep nm rest := by
  cases nm with
  | none => simp [possibles, tokKey]
  | some x =>
    have hlen : isPrefix (x ++ sep) x = false := by
      apply isPrefix_longer
      have := hs.sep_ne
      cases hsep : sep with
      | nil => exact absurd hsep this
      | cons c r => simp
    simp [possibles, tokKey, joinSep, hlen]

/-- **mappings.**  A Dict, Schema or Compound whose fields all round-trip round-trips. -/
theorem rt_mapping (nm : Option Str) (hnm : ∀ x, nm = some x → T x) (fields : List Schema)
    (hnd : (namesOf fields).Nodup) (htok : ∀ g ∈ fields, ∃ x, g.name = some x ∧ T x)
    (hwf : wfL fields = true) (hdn : denseL fields = true) (hrt : ∀ f ∈ fields, RT env sep f)
    (ms : List (Str × Elem)) (hok : OkFields env fields ms)
    (own : List PPair) (hown : own = [] ∨ ∃ u, own = [(nm.toList, u)])
    (L : List PPair)
    (hLdef : L = bfsPath ((resKids env fields ms).map (fun k => ((nm.toList, k) : QItem))))
    (poss : List (Str × Str)) (hpdef : poss = possibles sep nm (toKeys sep (own ++ L))) :
    (if poss.isEmpty then Elem.dict (blankFields fields)
     else Elem.dict (setFields env sep fields (blankFields fields) poss)) = Elem.dict ms := by
  have hL : L = (bfsPath ((resKids env fields ms).map (fun k => (([], k) : QItem)))).map (pre nm.toList) := by
    rw [hLdef, map_pair_shift, bfsPath_shift']
  have hne := kids_paths_ne hs fields ms hok htok
  have hposs : poss = (bfsPath ((resKids env fields ms).map (fun k => (([], k) : QItem)))).map (joinPair sep) := by
    rw [hpdef, hL]
    rcases hown with rfl | ⟨u, rfl⟩
    · simp only [List.nil_append]
      exact possibles_of_kids hs nm hnm _ hne
    · simp only [toKeys, List.singleton_append, List.map_cons]
      rw [possibles_own hs]
      exact possibles_of_kids hs nm hnm _ hne
  have hfold := fields_fold hs fields ms hnd htok hwf hdn hrt fields [] [] ms rfl rfl
    (by simp [OkFields]) hok
  simp only [List.nil_append] at hfold
  rw [hposs]
  split
  · rename_i hemp
    have : (bfsPath ((resKids env fields ms).map (fun k => (([], k) : QItem)))).map (joinPair sep) = [] := by
      simpa using hemp
    rw [this, setFields_nil] at hfold
    rw [hfold]
  · rw [hfold]

end field

end Flatland.Flat.Proofs
