/- Python `dict`, `sorted` and attribute-store lemmas used by Proofs/C20.lean -/
import Flatland.C20
namespace Flatland.C20.Proofs
open Flatland.C20

variable {β : Type}

/-! ### strLt is a strict total order -/

theorem strLt_irrefl : ∀ a : Str, strLt a a = false
  | [] => rfl
  | c :: cs => by simp [strLt, strLt_irrefl cs]

theorem strLt_trans : ∀ a b c : Str, strLt a b = true → strLt b c = true → strLt a c = true
  | [], [], _, h, _ => by simp [strLt] at h
  | [], _ :: _, [], _, h => by simp [strLt] at h
  | [], _ :: _, _ :: _, _, _ => by simp [strLt]
  | _ :: _, [], _, h, _ => by simp [strLt] at h
  | _ :: _, _ :: _, [], _, h => by simp [strLt] at h
  | x :: xs, y :: ys, z :: zs, h1, h2 => by
    simp only [strLt] at h1 h2 ⊢
    split at h1
    · split at h2
      · rw [if_pos (by omega)]
      · split at h2
        · simp at h2
        · rw [if_pos (by omega)]
    · split at h1
      · simp at h1
      · split at h2
        · rw [if_pos (by omega)]
        · split at h2
          · simp at h2
          · rw [if_neg (by omega), if_neg (by omega)]
            exact strLt_trans xs ys zs h1 h2

theorem strLt_total : ∀ a b : Str, strLt a b = false → strLt b a = false → a = b
  | [], [], _, _ => rfl
  | [], _ :: _, h, _ => by simp [strLt] at h
  | _ :: _, [], _, h => by simp [strLt] at h
  | x :: xs, y :: ys, h1, h2 => by
    simp only [strLt] at h1 h2
    split at h1
    · simp at h1
    · split at h1
      · rw [if_pos (by assumption)] at h2; simp at h2
      · rw [if_neg (by assumption), if_neg (by assumption)] at h2
        have : x.toNat = y.toNat := by omega
        rw [Char.toNat_inj.mp this, strLt_total xs ys h1 h2]

/-! ### dict -/

theorem lookup_dictSet (d : List (Str × β)) (k : Str) (v : β) (k' : Str) :
    lookup (dictSet d k v) k' = if k = k' then some v else lookup d k' := by
  induction d with
  | nil => simp [dictSet, lookup]
  | cons p rest ih =>
    obtain ⟨pk, pv⟩ := p
    simp only [dictSet]
    by_cases h : pk = k
    · subst h; by_cases h' : pk = k' <;> simp [lookup, h']
    · simp only [h, if_false, lookup]
      by_cases h' : pk = k'
      · subst h'; simp [Ne.symm h]
      · simp [h', ih]

theorem keys_dictSet_mem (d : List (Str × β)) (k : Str) (v : β) (x : Str) :
    x ∈ keys (dictSet d k v) ↔ x = k ∨ x ∈ keys d := by
  induction d with
  | nil => simp [dictSet, keys]
  | cons p rest ih =>
    obtain ⟨pk, pv⟩ := p
    simp only [dictSet]
    by_cases h : pk = k
    · subst h; simp [keys]
    · simp only [h, if_false]
      simp only [keys, List.map_cons, List.mem_cons] at ih ⊢
      rw [ih]; constructor <;> (intro h; rcases h with h | h | h <;> simp [h])

theorem keys_dictSet_nodup (d : List (Str × β)) (k : Str) (v : β) (h : (keys d).Nodup) :
    (keys (dictSet d k v)).Nodup := by
  induction d with
  | nil => simp [dictSet, keys]
  | cons p rest ih =>
    obtain ⟨pk, pv⟩ := p
    simp only [dictSet]
    by_cases hk : pk = k
    · subst hk; simpa [keys] using h
    · simp only [hk, if_false]
      simp only [keys, List.map_cons, List.nodup_cons] at h ⊢
      refine ⟨?_, ih h.2⟩
      intro hm
      have := (keys_dictSet_mem rest k v pk).mp hm
      rcases this with h' | h'
      · exact hk h'
      · exact h.1 h'

theorem lookup_foldl_dictSet (ps : List (Str × β)) (d : List (Str × β)) (k : Str) :
    lookup (ps.foldl (fun d p => dictSet d p.1 p.2) d) k =
      (match dictGet ps k with | some v => some v | none => lookup d k) := by
  induction ps generalizing d with
  | nil => simp [dictGet]
  | cons p rest ih =>
    obtain ⟨pk, pv⟩ := p
    simp only [List.foldl_cons, ih, dictGet]
    cases hr : dictGet rest k with
    | some w => simp
    | none =>
      simp only [lookup_dictSet]
      by_cases h : pk = k <;> simp [h]

theorem lookup_dictOf (ps : List (Str × β)) (k : Str) : lookup (dictOf ps) k = dictGet ps k := by
  unfold dictOf
  rw [lookup_foldl_dictSet]
  cases dictGet ps k <;> simp [lookup]

theorem keys_foldl_nodup (ps d : List (Str × β)) (h : (keys d).Nodup) :
    (keys (ps.foldl (fun d p => dictSet d p.1 p.2) d)).Nodup := by
  induction ps generalizing d with
  | nil => simpa
  | cons p rest ih => exact ih _ (keys_dictSet_nodup d p.1 p.2 h)

theorem keys_dictOf_nodup (ps : List (Str × β)) : (keys (dictOf ps)).Nodup :=
  keys_foldl_nodup ps [] (by simp [keys])

theorem mem_keys_iff_lookup (d : List (Str × β)) (k : Str) :
    k ∈ keys d ↔ (lookup d k).isSome = true := by
  induction d with
  | nil => simp [keys, lookup]
  | cons p rest ih =>
    obtain ⟨pk, pv⟩ := p
    simp only [keys, List.map_cons, List.mem_cons, lookup] at ih ⊢
    by_cases h : pk = k
    · simp [h]
    · simp only [h, if_false]
      rw [← ih]; constructor
      · rintro (h' | h'); exact absurd h'.symm h; exact h'
      · exact Or.inr

/-- `dictGet` finds a pair iff some pair has the key -/
theorem dictGet_isSome (ps : List (Str × β)) (k : Str) :
    (dictGet ps k).isSome = true ↔ ∃ v, (k, v) ∈ ps := by
  induction ps with
  | nil => simp [dictGet]
  | cons p rest ih =>
    obtain ⟨pk, pv⟩ := p
    simp only [dictGet]
    cases hr : dictGet rest k with
    | some w =>
      have := ih.mp (by simp [hr])
      obtain ⟨v, hv⟩ := this
      simp only [Option.isSome_some, true_iff]
      exact ⟨v, List.mem_cons_of_mem _ hv⟩
    | none =>
      have hn : ¬ ∃ v, (k, v) ∈ rest := fun h => by simpa [hr] using ih.mpr h
      by_cases h : pk = k
      · subst h; simp
      · simp only [h, if_false, Option.isSome_none, Bool.false_eq_true, false_iff]
        rintro ⟨v, hv⟩
        rcases List.mem_cons.mp hv with h' | h'
        · exact h (by cases h'; rfl)
        · exact hn ⟨v, h'⟩

theorem dictGet_mem (ps : List (Str × β)) (k : Str) (v : β) (h : dictGet ps k = some v) :
    (k, v) ∈ ps := by
  induction ps with
  | nil => simp [dictGet] at h
  | cons p rest ih =>
    obtain ⟨pk, pv⟩ := p
    simp only [dictGet] at h
    cases hr : dictGet rest k with
    | some w => rw [hr] at h; simp at h; subst h; exact List.mem_cons_of_mem _ (ih hr)
    | none =>
      rw [hr] at h
      by_cases hk : pk = k
      · simp [hk] at h; subst h; subst hk; exact List.mem_cons_self
      · simp [hk] at h

/-- with distinct keys, `dict(pairs)[k]` is the value of the only pair with that key -/
theorem dictGet_of_nodup (ps : List (Str × β)) (hn : (keys ps).Nodup) (k : Str) (v : β)
    (h : (k, v) ∈ ps) : dictGet ps k = some v := by
  induction ps with
  | nil => simp at h
  | cons p rest ih =>
    obtain ⟨pk, pv⟩ := p
    simp only [keys, List.map_cons, List.nodup_cons] at hn
    simp only [dictGet]
    rcases List.mem_cons.mp h with h' | h'
    · cases h'
      have : dictGet rest k = none := by
        cases hr : dictGet rest k with
        | none => rfl
        | some w => exact absurd (List.mem_map_of_mem (f := (·.1)) (dictGet_mem rest k w hr)) hn.1
      simp [this]
    · rw [ih hn.2 h']

/-! ### sorted() -/

theorem mem_insertSorted (p q : Str × β) (l : List (Str × β)) :
    q ∈ insertSorted p l ↔ q = p ∨ q ∈ l := by
  induction l with
  | nil => simp [insertSorted]
  | cons x rest ih =>
    simp only [insertSorted]
    split
    · simp
    · simp only [List.mem_cons, ih]
      constructor <;> (intro h; rcases h with h | h | h <;> simp [h])

theorem mem_sortByKey (q : Str × β) (l : List (Str × β)) : q ∈ sortByKey l ↔ q ∈ l := by
  induction l with
  | nil => simp [sortByKey]
  | cons x rest ih =>
    simp only [sortByKey, List.foldr_cons] at ih ⊢
    rw [mem_insertSorted, ih]; simp

def SortedKeys (l : List (Str × β)) : Prop := l.Pairwise (fun p q => strLt p.1 q.1 = true)

theorem sorted_insertSorted (p : Str × β) (l : List (Str × β)) (hs : SortedKeys l)
    (hp : ∀ q ∈ l, q.1 ≠ p.1) : SortedKeys (insertSorted p l) := by
  induction l with
  | nil => simp [insertSorted, SortedKeys]
  | cons x rest ih =>
    simp only [insertSorted]
    have hs' := List.pairwise_cons.mp hs
    split
    · rename_i hlt
      apply List.pairwise_cons.mpr
      refine ⟨?_, hs⟩
      intro q hq
      rcases List.mem_cons.mp hq with h | h
      · subst h; exact hlt
      · exact strLt_trans _ _ _ hlt (hs'.1 q h)
    · rename_i hlt
      apply List.pairwise_cons.mpr
      refine ⟨?_, ih hs'.2 (fun q hq => hp q (List.mem_cons_of_mem _ hq))⟩
      intro q hq
      rcases (mem_insertSorted p q rest).mp hq with h | h
      · subst h
        cases hxq : strLt x.1 q.1 with
        | true => rfl
        | false =>
          have := strLt_total q.1 x.1 (by simpa using hlt) hxq
          exact absurd this.symm (hp x List.mem_cons_self)
      · exact hs'.1 q h

theorem sorted_sortByKey (l : List (Str × β)) (hn : (keys l).Nodup) : SortedKeys (sortByKey l) := by
  induction l with
  | nil => simp [sortByKey, SortedKeys]
  | cons x rest ih =>
    simp only [keys, List.map_cons, List.nodup_cons] at hn
    simp only [sortByKey, List.foldr_cons]
    apply sorted_insertSorted _ _ (ih hn.2)
    intro q hq h
    have : q ∈ rest := (mem_sortByKey q rest).mp hq
    exact hn.1 (h ▸ List.mem_map_of_mem (f := (·.1)) this)

/-! ### attribute stores -/

theorem get_set {V} (o : Obj V) (a : Str) (v : V) (x : Str) :
    (o.set a v).get x = if a = x then some v else o.get x := by
  induction o with
  | nil => simp [Obj.set, Obj.get]
  | cons p rest ih =>
    obtain ⟨pa, pv⟩ := p
    simp only [Obj.set]
    by_cases h : pa = a
    · subst h; by_cases h' : pa = x <;> simp [Obj.get, h']
    · simp only [h, if_false, Obj.get]
      by_cases h' : pa = x
      · subst h'; simp [Ne.symm h]
      · simp [h', ih]

theorem get_foldl_set {V} (m : List (Str × V)) (o : Obj V) (x : Str) :
    (m.foldl (fun o p => o.set p.1 p.2) o).get x =
      (match dictGet m x with | some v => some v | none => o.get x) := by
  induction m generalizing o with
  | nil => simp [dictGet]
  | cons p rest ih =>
    obtain ⟨pk, pv⟩ := p
    simp only [List.foldl_cons, ih, dictGet]
    cases hr : dictGet rest x with
    | some w => simp
    | none => simp only [get_set]; by_cases h : pk = x <;> simp [h]

theorem lookup_eq_dictGet_of_nodup (d : List (Str × β)) (hn : (keys d).Nodup) (k : Str) :
    lookup d k = dictGet d k := by
  induction d with
  | nil => simp [lookup, dictGet]
  | cons p rest ih =>
    obtain ⟨pk, pv⟩ := p
    simp only [keys, List.map_cons, List.nodup_cons] at hn
    simp only [lookup, dictGet]
    by_cases h : pk = k
    · subst h
      have : dictGet rest pk = none := by
        cases hr : dictGet rest pk with
        | none => rfl
        | some w => exact absurd (List.mem_map_of_mem (f := (·.1)) (dictGet_mem rest pk w hr)) hn.1
      simp [this]
    · simp only [h, if_false]; rw [ih hn.2]; cases dictGet rest k <;> simp

end Flatland.C20.Proofs
