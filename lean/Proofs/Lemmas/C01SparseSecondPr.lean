/-
C01, second round trip with SparseDicts — (b) `prS` produces stable states, (c) fresh elements are
stable.
-/
import Proofs.Lemmas.C01SparseSecondEmit
namespace Flatland.Flat.Proofs
open Flatland.Flat Flatland.Flat.Spec

variable {env : Env} {sep : Str}

/-- the hypotheses on the schema, bundled -/
def Good (env : Env) (s : Schema) : Prop :=
  wf s = true ∧ prefixFree s = true ∧ blankSettled env s = true ∧ arraysScalar s = true

theorem good_dict {nm : Option Str} {o : Bool} {mode : DictMode} {fields : List Schema}
    (h : Good env (.dict nm o mode fields)) :
    (namesOf fields).Nodup ∧ (∀ g ∈ fields, g.name.isSome) ∧ NamesPF fields ∧ ∀ f ∈ fields, Good env f := by
  obtain ⟨hw, hpf, hbs, has⟩ := h
  simp only [wf, Bool.and_eq_true] at hw
  simp only [prefixFree, Bool.and_eq_true] at hpf
  simp only [blankSettled] at hbs
  simp only [arraysScalar] at has
  exact ⟨by simpa using hw.2, allSome_of fields hw.1.2, namesPF_of_all fields hpf.2,
    fun f hf => ⟨wf_of_mem hw.1.1 f hf, prefixFree_of_mem hpf.1 f hf,
      blankSettled_of_mem hbs f hf, arraysScalar_of_mem has f hf⟩⟩

theorem good_compound {nm : Option Str} {o : Bool} {k : Nat} {fields : List Schema}
    (h : Good env (.compound nm o k fields)) :
    (namesOf fields).Nodup ∧ (∀ g ∈ fields, g.name.isSome) ∧ NamesPF fields ∧ ∀ f ∈ fields, Good env f := by
  obtain ⟨hw, hpf, hbs, has⟩ := h
  simp only [wf, Bool.and_eq_true] at hw
  simp only [prefixFree, Bool.and_eq_true] at hpf
  simp only [blankSettled] at hbs
  simp only [arraysScalar] at has
  exact ⟨by simpa using hw.2, allSome_of fields hw.1.2, namesPF_of_all fields hpf.2,
    fun f hf => ⟨wf_of_mem hw.1.1 f hf, prefixFree_of_mem hpf.1 f hf,
      blankSettled_of_mem hbs f hf, arraysScalar_of_mem has f hf⟩⟩

theorem good_list {nm : Option Str} {o p : Bool} {mx : Nat} {member : Schema}
    (h : Good env (.list nm o p mx member)) : Good env member := by
  obtain ⟨hw, hpf, hbs, has⟩ := h
  simp only [wf] at hw
  simp only [prefixFree] at hpf
  simp only [blankSettled] at hbs
  simp only [arraysScalar] at has
  exact ⟨hw, hpf, hbs, has⟩

/-- the value `prS` gives a picked field -/
def vOf (K : List (Str × Str)) (V : Schema → Elem) (f : Schema) : Elem :=
  if touched K f then V f else blank f

theorem filt_keys (fields : List Schema) (kk : Str → Bool) (q : Schema → Bool)
    (hq : ∀ f ∈ fields, kk (nmOf f) = q f) : ∀ (L : List Schema), (∀ f ∈ L, f ∈ fields) →
    (L.map nmOf).filter kk = (L.filter q).map nmOf
  | [], _ => rfl
  | a :: L, hL => by
    have ih := filt_keys fields kk q hq L (fun f hf => hL f (List.mem_cons_of_mem _ hf))
    have := hq a (hL a (by simp))
    simp only [List.map_cons, List.filter_cons, this]
    split <;> simp [ih]

theorem filter_filter_congr {α} (p q r : α → Bool) : ∀ l : List α, (∀ x ∈ l, (p x && q x) = r x) →
    (l.filter p).filter q = l.filter r
  | [], _ => rfl
  | a :: l, h => by
    have ih := filter_filter_congr p q r l (fun x hx => h x (List.mem_cons_of_mem _ hx))
    have ha := h a (by simp)
    cases hp : p a <;> cases hq : q a <;> simp [hp, hq] at ha <;>
      simp [List.filter_cons, hp, hq, ← ha, ih]

theorem pickKeys_eq_filter (req : Schema → Bool) (keys : List (Str × Str)) (first : Bool)
    (fs : List Schema) : pickKeys req keys first fs = (fs.filter (pickSel req keys first)).map nmOf :=
  (pickV_keys req keys (fun f => blank f) first fs).symm.trans
    (pickV_keys_filter req keys (fun f => blank f) first fs)

/-- **what `prS` rebuilds a mapping to is a stable mapping** (also covers the fresh mapping:
    `K = []`) -/
theorem stable_pick (u : Bool) (req : Schema → Bool) (fields : List Schema)
    (hnd : (namesOf fields).Nodup) (hsome : ∀ g ∈ fields, g.name.isSome) (hpf : NamesPF fields)
    (hgood : ∀ f ∈ fields, Good env f)
    (K : List (Str × Str)) (V : Schema → Elem)
    (hval : ∀ f ∈ fields, (req f || touched K f) = true →
      OkS env f (vOf K V f) ∧ StableS env sep u f (vOf K V f) ∧
      (req f = false → emitsB env u f (vOf K V f) = false → LvlEmpty (resolve env f (vOf K V f))))
    (R : List (Str × Elem)) (hR : R = pickV req K V true fields ++ pickV req K V false fields)
    (keys' : List (Str × Str)) (hk : keys' = innerPairs env sep u fields R) :
    (R.filter (fun p => keepKey req keys' fields p.1)).map (·.1)
      = pickKeys req keys' true fields ++ pickKeys req keys' false fields
    ∧ StableSFields env sep u req keys' R fields := by
  have hRnd : (R.map (·.1)).Nodup := by rw [hR]; exact pick_keys_nodup fields hnd hsome req K V
  have hlook : ∀ f ∈ fields, ∀ e, lookup (f.name.getD []) R = some e →
      (req f || touched K f) = true ∧ e = vOf K V f := by
    intro f hf e hl
    have hm := mem_of_lookup hl
    rw [hR] at hm
    have hex : ∃ g ∈ fields, f.name.getD [] = g.name.getD [] ∧ (req g || touched K g) = true ∧
        e = if touched K g then V g else blank g := by
      rcases List.mem_append.mp hm with h | h
      · obtain ⟨g, hg, h1, h2, _, h4⟩ := mem_pickV h
        exact ⟨g, hg, h1, h2, h4⟩
      · obtain ⟨g, hg, h1, h2, _, h4⟩ := mem_pickV h
        exact ⟨g, hg, h1, h2, h4⟩
    obtain ⟨g, hg, h1, h2, h4⟩ := hex
    have : f = g := field_eq_of_nmOf hnd hsome hf hg h1
    subst this
    exact ⟨h2, h4⟩
  have ht' : ∀ f ∈ fields, req f = false → touched keys' f = true → touched K f = true := by
    intro f hf hr ht
    rw [hk] at ht
    obtain ⟨e, hl, _⟩ := (touched_iff fields hnd hsome hpf R hRnd f hf u).mp ht
    have := (hlook f hf e hl).1
    simpa [hr] using this
  have hkk : ∀ f ∈ fields, keepKey req keys' fields (nmOf f) = (req f || touched keys' f) := by
    intro f hf
    simp only [keepKey, findField_unique hnd hf (name_eq_nmOf hsome hf)]
  constructor
  · have h0 : (R.filter (fun p => keepKey req keys' fields p.1)).map (·.1)
        = (R.map (·.1)).filter (keepKey req keys' fields) := by
      rw [List.filter_map]; rfl
    rw [h0, hR, List.map_append, pickV_keys_filter, pickV_keys_filter, List.filter_append,
      filt_keys fields _ _ hkk _ (fun f hf => (List.mem_filter.mp hf).1),
      filt_keys fields _ _ hkk _ (fun f hf => (List.mem_filter.mp hf).1),
      pickKeys_eq_filter, pickKeys_eq_filter]
    congr 2
    · apply filter_filter_congr
      intro f _
      simp only [pickSel, if_true]
      cases req f <;> simp
    · apply filter_filter_congr
      intro f hf
      simp only [pickSel, Bool.false_eq_true, if_false]
      cases hr : req f with
      | true => simp
      | false =>
        cases htk : touched keys' f with
        | false => simp
        | true => simp [ht' f hf hr htk]
  · apply stableSFields_of
    intro f hf e hl
    obtain ⟨h2, he⟩ := hlook f hf e hl
    subst he
    obtain ⟨hok, hst, hE⟩ := hval f hf h2
    refine ⟨fun _ => hst, fun ht => ?_⟩
    rw [hk] at ht
    have hemf := (touched_false_iff fields hnd hsome hpf R hRnd f hf u).mp ht _ hl
    obtain ⟨hw, hp, _, _⟩ := hgood f hf
    cases hr : req f with
    | true =>
      simp only [if_true]
      exact bl_stable f hw hp u _ hok hst hemf
    | false =>
      simp only [Bool.false_eq_true, if_false]
      exact hE hr hemf

/-! ### (c) fresh elements are stable -/

theorem stableS_blank : ∀ s : Schema, Good env s → ∀ u : Bool, StableS env sep u s (blank s) := by
  intro s
  induction s using schema_ind with
  | hleaf nm o k => intro _ u; simp [blank, StableS]
  | hjoined nm o k mem => intro _ u; simp [blank, StableS]
  | hcompound nm o k fields ih =>
    intro hg u
    obtain ⟨hnd, hsome, hpf, hgood⟩ := good_compound hg
    simp only [blank, blankFields_sel, StableS]
    apply stable_pick u (fun _ => true) fields hnd hsome hpf hgood [] (fun f => blank f) _ _
      (blankSel_eq_pick _ _ _) _ rfl
    intro f hf _
    have hv : vOf [] (fun f => blank f) f = blank f := by simp [vOf]
    rw [hv]
    obtain ⟨hw, _, hbs, has⟩ := hgood f hf
    exact ⟨okS_blank f hw hbs has, ih f hf (hgood f hf) u, fun hr => by cases hr⟩
  | hlist nm o p mx member ih => intro _ u; simp [blank, StableS, dropTrailing]
  | harray nm o p member ih => intro _ u; simp [blank, StableS]
  | hdict nm o mode fields ih =>
    intro hg u
    obtain ⟨hnd, hsome, hpf, hgood⟩ := good_dict hg
    rw [blank_dict_members]
    simp only [StableS]
    apply stable_pick u (isReq mode) fields hnd hsome hpf hgood [] (fun f => blank f) _ _
      (blankSel_eq_pick _ _ _) _ rfl
    intro f hf h2
    have ht : touched [] f = false := rfl
    have hv : vOf [] (fun f => blank f) f = blank f := by simp [vOf]
    rw [hv]
    obtain ⟨hw, _, hbs, has⟩ := hgood f hf
    refine ⟨okS_blank f hw hbs has, ih f hf (hgood f hf) u, fun hr => ?_⟩
    rw [hr, ht] at h2; cases h2

/-! ### (b) `prS` produces stable states -/

theorem dropTrailing_map_idem' {α β} (p : α → Bool) (q : β → Bool) (g : α → β) (l : List α)
    (h : ∀ x ∈ l, p x = true → q (g x) = true) :
    dropTrailing q ((dropTrailing p l).map g) = (dropTrailing p l).map g := by
  unfold dropTrailing
  rw [← List.map_reverse, List.reverse_reverse]
  rcases dropWhile_head (fun x => !p x) l.reverse with h0 | ⟨a, t, ha, hpa, hm⟩
  · rw [h0]; rfl
  · simp only [Bool.not_eq_false'] at hpa
    have := h a (List.mem_reverse.mp hm) hpa
    rw [ha, List.map_cons, List.dropWhile_cons_of_neg (by simp [this])]
    simp

theorem stableS_prS : ∀ s : Schema, Good env s →
    ∀ (u : Bool) (e : Elem), OkS env s e → compoundsFull s e = true →
      StableS env sep u s (prS env sep u s e) := by
  intro s
  induction s using schema_ind with
  | hleaf nm o k =>
    intro _ u e _ _
    rw [prS, pr]
    cases e <;> simp [StableS]
  | hjoined nm o k mem =>
    intro _ u e hok _
    cases e with
    | joined t ms => simp only [prS, pr]; split <;> simp [StableS]
    | _ => simp [OkS, OkP] at hok
  | hdict nm o mode fields ih =>
    intro hg u e hok hcf
    cases e with
    | dict ms =>
      obtain ⟨hnd, hsome, hpf, hgood⟩ := good_dict hg
      simp only [OkS] at hok
      simp only [compoundsFull] at hcf
      simp only [prS]
      rw [prSPick_eq, prSPick_eq]
      simp only [StableS]
      apply stable_pick u (isReq mode) fields hnd hsome hpf hgood
        (innerPairs env sep u fields ms) (valS env sep u ms) _ _ rfl _ rfl
      intro f hf h2
      obtain ⟨hw, hp, hbs, has⟩ := hgood f hf
      cases ht : touched (innerPairs env sep u fields ms) f with
      | true =>
        obtain ⟨e, hl, hemf⟩ := (touched_iff fields hnd hsome hpf ms hok.1 f hf u).mp ht
        have hv : vOf (innerPairs env sep u fields ms) (valS env sep u ms) f = prS env sep u f e := by
          simp only [vOf, ht, if_true, valS, hl]
        rw [hv]
        have hoke := okS_member_lookup hnd hok.2 hf (hsome f hf) hl
        have hcfe := compoundsFullMs_get hcf f hf e hl
        refine ⟨prS_okS f hw hbs has u e hoke, ih f hf (hgood f hf) u e hoke hcfe, fun _ hem' => ?_⟩
        cases u with
        | false => exact lvlEmpty_of_emitsB_false hem'
        | true =>
          rw [emitsB_prS_true f hw hp e hoke hcfe hemf] at hem'
          cases hem'
      | false =>
        have hv : vOf (innerPairs env sep u fields ms) (valS env sep u ms) f = blank f := by
          simp only [vOf, ht, Bool.false_eq_true, if_false]
        rw [hv]
        refine ⟨okS_blank f hw hbs has, stableS_blank f (hgood f hf) u, fun hr => ?_⟩
        rw [hr, ht] at h2; cases h2
    | _ => simp [OkS] at hok
  | hcompound nm o k fields ih =>
    intro hg u e hok hcf
    cases e with
    | dict ms =>
      obtain ⟨hnd, hsome, hpf, hgood⟩ := good_compound hg
      simp only [OkS] at hok
      simp only [compoundsFull, Bool.and_eq_true, decide_eq_true_eq] at hcf
      simp only [prS]
      rw [prSPick_eq, prSPick_eq]
      simp only [StableS]
      apply stable_pick u (fun _ => true) fields hnd hsome hpf hgood
        (innerPairs env sep u fields ms) (valS env sep u ms) _ _ rfl _ rfl
      intro f hf h2
      obtain ⟨hw, hp, hbs, has⟩ := hgood f hf
      cases ht : touched (innerPairs env sep u fields ms) f with
      | true =>
        obtain ⟨e, hl, hemf⟩ := (touched_iff fields hnd hsome hpf ms hok.1 f hf u).mp ht
        have hv : vOf (innerPairs env sep u fields ms) (valS env sep u ms) f = prS env sep u f e := by
          simp only [vOf, ht, if_true, valS, hl]
        rw [hv]
        have hoke := okS_member_lookup hnd hok.2 hf (hsome f hf) hl
        have hcfe := compoundsFullMs_get hcf.2 f hf e hl
        refine ⟨prS_okS f hw hbs has u e hoke, ih f hf (hgood f hf) u e hoke hcfe, fun _ hem' => ?_⟩
        cases u with
        | false => exact lvlEmpty_of_emitsB_false hem'
        | true =>
          rw [emitsB_prS_true f hw hp e hoke hcfe hemf] at hem'
          cases hem'
      | false =>
        have hv : vOf (innerPairs env sep u fields ms) (valS env sep u ms) f = blank f := by
          simp only [vOf, ht, Bool.false_eq_true, if_false]
        rw [hv]
        refine ⟨okS_blank f hw hbs has, stableS_blank f (hgood f hf) u, fun hr => by cases hr⟩
    | _ => simp [OkS] at hok
  | hlist nm o p mx member ih =>
    intro hg u e hok hcf
    have hgm := good_list hg
    have hw := hgm.1
    have hp' := hgm.2.1
    have hbs := hgm.2.2.1
    have has := hgm.2.2.2
    have ih := ih hgm
    cases e with
    | list ms =>
      simp only [compoundsFull, List.all_eq_true] at hcf
      simp only [OkS] at hok
      obtain ⟨_, _, hmem⟩ := hok
      simp only [prS]
      split
      · rename_i hp
        simp only [StableS]
        refine ⟨fun _ x hx => ?_, fun h => by rw [hp] at h; cases h⟩
        obtain ⟨m, hm, rfl⟩ := List.mem_map.mp hx
        have hm' := List.mem_filter.mp hm
        exact ⟨emitsB_prS_true member hw hp' m (hmem m hm'.1) (hcf m hm'.1) hm'.2,
          ih true m (hmem m hm'.1) (hcf m hm'.1)⟩
      · rename_i hp
        simp only [StableS]
        refine ⟨fun h => absurd h hp, fun _ => ⟨?_, ?_⟩⟩
        · intro x hx
          obtain ⟨m, hm, rfl⟩ := List.mem_map.mp hx
          have hm' := mem_of_mem_dropTrailing _ _ _ hm
          have hokm := hmem m hm'
          cases hem : emitsB env u member m with
          | true =>
            simp only [if_true]
            exact ⟨fun _ => ih u m hokm (hcf m hm'), fun hne =>
              bl_stable member hw hp' u _ (prS_okS member hw hbs has u m hokm) (ih u m hokm (hcf m hm')) hne⟩
          | false =>
            simp only [Bool.false_eq_true, if_false]
            exact ⟨fun _ => stableS_blank member hgm u, fun _ => LvlEq.refl _⟩
        · intro hu
          subst hu
          apply dropTrailing_map_idem'
          intro x hx hpx
          simp only [hpx, if_true]
          exact emitsB_prS_true member hw hp' x (hmem x hx) (hcf x hx) hpx
    | _ => simp [OkS] at hok
  | harray nm o p member ih =>
    intro _ u e hok _
    cases e with
    | array ms =>
      simp only [prS, pr, StableS]
      intro m hm
      exact (List.mem_filter.mp hm).2
    | _ => simp [OkS, OkP] at hok

end Flatland.Flat.Proofs
