/-
C08 — the frame of a call applied inside a tree (`stepAt`): the call is `nodeStep` on the one
element with the target identity; everything else stays; and the tree-level form of
"removed ⇒ unreachable".
-/
import Proofs.C08Removed
namespace Flatland.C08.Proofs
open Flatland.Tree Flatland.PyList Flatland.C08 Flatland.C08.Spec

mutual
theorem cnt_le_of_mem_nodes (a : Nat) : ∀ (t n : Node), n ∈ nodes t → cnt a n ≤ cnt a t
  | .mk i s kids, n, h => by
    rw [nodes] at h
    rcases List.mem_cons.mp h with h1 | h1
    · rw [h1]; exact Nat.le_refl _
    · have := cntL_le_of_mem_nodesL a kids n h1
      rw [cnt_mk]; omega
theorem cntL_le_of_mem_nodesL (a : Nat) : ∀ (ks : List Node) (n : Node), n ∈ nodesL ks → cnt a n ≤ cntL a ks
  | [], _, h => by simp [nodesL] at h
  | k :: ks, n, h => by
    rw [nodesL] at h
    rw [cntL_cons]
    rcases List.mem_append.mp h with h1 | h1
    · have := cnt_le_of_mem_nodes a k n h1; omega
    · have := cntL_le_of_mem_nodesL a ks n h1; omega
end

mutual
theorem kok_of_mem_nodes : ∀ (t n : Node), kok t = true → n ∈ nodes t → kok n = true
  | .mk i s kids, n, hk, h => by
    rw [nodes] at h
    rcases List.mem_cons.mp h with h1 | h1
    · rw [h1]; exact hk
    · exact kokL_of_mem_nodesL kids n (kok_kids hk) h1
theorem kokL_of_mem_nodesL : ∀ (ks : List Node) (n : Node), kokL ks = true → n ∈ nodesL ks → kok n = true
  | [], _, _, h => by simp [nodesL] at h
  | k :: ks, n, hk, h => by
    rw [kokL, Bool.and_eq_true] at hk
    rw [nodesL] at h
    rcases List.mem_append.mp h with h1 | h1
    · exact kok_of_mem_nodes k n hk.1 h1
    · exact kokL_of_mem_nodesL ks n hk.2 h1
end

/-- what `stepAt` did: `nodeStep` on a node `n` of the tree with the target identity; the new
    tree holds the new `n` in place of the old one and is otherwise the same -/
structure Framed (t : Node) (tid : Nat) (op : Op) (next : Nat) (r : StepR) (n : Node) : Prop where
  mem : n ∈ nodes t
  id : n.id = tid
  next_eq : r.next = (nodeStep n op next).next
  out_eq : r.out = (nodeStep n op next).out
  det_eq : r.detached = (nodeStep n op next).detached
  mem' : (nodeStep n op next).node ∈ nodes r.node
  cnt_eq : ∀ a, cnt a r.node + cnt a n = cnt a t + cnt a (nodeStep n op next).node

structure FramedL (ks : List Node) (tid : Nat) (op : Op) (next : Nat) (ks' : List Node) (r : StepR) (n : Node) : Prop where
  mem : n ∈ nodesL ks
  id : n.id = tid
  next_eq : r.next = (nodeStep n op next).next
  out_eq : r.out = (nodeStep n op next).out
  det_eq : r.detached = (nodeStep n op next).detached
  mem' : (nodeStep n op next).node ∈ nodesL ks'
  cnt_eq : ∀ a, cntL a ks' + cnt a n = cntL a ks + cnt a (nodeStep n op next).node

mutual
theorem stepAt_framed (op : Op) (tid : Nat) : ∀ (t : Node) (next : Nat) (r : StepR),
    stepAt t tid op next = some r → ∃ n, Framed t tid op next r n
  | .mk i s kids, next, r, hr => by
    rw [stepAt] at hr
    split at hr
    · rename_i hid
      cases hr
      exact ⟨.mk i s kids, ⟨self_mem_nodes _, hid, rfl, rfl, rfl, self_mem_nodes _, fun a => by omega⟩⟩
    · split at hr
      · cases hr
      · rename_i kids' r' hl
        cases hr
        obtain ⟨n, hf⟩ := stepAtL_framed op tid kids next kids' r' hl
        refine ⟨n, ⟨?_, hf.id, hf.next_eq, hf.out_eq, hf.det_eq, ?_, fun a => ?_⟩⟩
        · rw [nodes]; exact List.mem_cons_of_mem _ hf.mem
        · show _ ∈ nodes (Node.mk i s kids')
          rw [nodes]; exact List.mem_cons_of_mem _ hf.mem'
        · have := hf.cnt_eq a
          show cnt a (Node.mk i s kids') + _ = _
          rw [cnt_mk, cnt_mk]; omega
theorem stepAtL_framed (op : Op) (tid : Nat) : ∀ (ks : List Node) (next : Nat) (ks' : List Node) (r : StepR),
    stepAtL ks tid op next = some (ks', r) → ∃ n, FramedL ks tid op next ks' r n
  | [], _, _, _, hr => by rw [stepAtL] at hr; cases hr
  | k :: ks, next, ks', r, hr => by
    rw [stepAtL] at hr
    split at hr
    · rename_i r1 h1
      cases hr
      obtain ⟨n, hf⟩ := stepAt_framed op tid k next _ h1
      refine ⟨n, ⟨?_, hf.id, hf.next_eq, hf.out_eq, hf.det_eq, ?_, fun a => ?_⟩⟩
      · rw [nodesL]; exact List.mem_append.mpr (.inl hf.mem)
      · rw [nodesL]; exact List.mem_append.mpr (.inl hf.mem')
      · have := hf.cnt_eq a
        rw [cntL_cons, cntL_cons]; omega
    · split at hr
      · cases hr
      · rename_i ks2 r2 h2
        cases hr
        obtain ⟨n, hf⟩ := stepAtL_framed op tid ks next _ _ h2
        refine ⟨n, ⟨?_, hf.id, hf.next_eq, hf.out_eq, hf.det_eq, ?_, fun a => ?_⟩⟩
        · rw [nodesL]; exact List.mem_append.mpr (.inr hf.mem)
        · rw [nodesL]; exact List.mem_append.mpr (.inr hf.mem')
        · have := hf.cnt_eq a
          rw [cntL_cons, cntL_cons]; omega
end

mutual
/-- a call aimed at an identity that is in the tree is carried out -/
theorem stepAt_some (op : Op) (tid : Nat) : ∀ (t : Node) (next : Nat) (n : Node), n ∈ nodes t → n.id = tid →
    ∃ r, stepAt t tid op next = some r
  | .mk i s kids, next, n, hn, hid => by
    rw [stepAt]
    split
    · exact ⟨_, rfl⟩
    · rename_i hne
      rw [nodes] at hn
      rcases List.mem_cons.mp hn with h1 | h1
      · exfalso; rw [h1] at hid; exact hne hid
      · obtain ⟨ks', r, h⟩ := stepAtL_some op tid kids next n h1 hid
        rw [h]; exact ⟨_, rfl⟩
theorem stepAtL_some (op : Op) (tid : Nat) : ∀ (ks : List Node) (next : Nat) (n : Node), n ∈ nodesL ks → n.id = tid →
    ∃ ks' r, stepAtL ks tid op next = some (ks', r)
  | [], _, _, hn, _ => by simp [nodesL] at hn
  | k :: ks, next, n, hn, hid => by
    rw [stepAtL]
    cases hk : stepAt k tid op next with
    | some r => exact ⟨_, _, rfl⟩
    | none =>
      rw [nodesL] at hn
      rcases List.mem_append.mp hn with h1 | h1
      · obtain ⟨r, h⟩ := stepAt_some op tid k next n h1 hid
        rw [h] at hk; cases hk
      · obtain ⟨ks', r, h⟩ := stepAtL_some op tid ks next n h1 hid
        simp only [h]; exact ⟨_, _, rfl⟩
end

theorem reach_mem_nodes {root x : Node} (h : Reach root x) : x ∈ nodes root := by
  induction h with
  | root => exact self_mem_nodes _
  | @child p c _ hc ih =>
    have : c ∈ nodes p := by rw [nodes_eq]; exact List.mem_cons_of_mem _ (mem_children_nodesL hc)
    exact mem_nodes_trans _ _ _ ih this

/-- the Element arguments of the call do not occur in the tree -/
theorem args_disjoint {s : HState} {op : Op} (ha : ArgsFresh s op) : ∀ a ∈ ids s.root, cntL a (placedArgs op) = 0 := by
  intro a hin
  have := List.nodup_iff_count.mp ha.1 a
  rw [List.count_append] at this
  have h2 : 0 < (ids s.root).count a := List.count_pos_iff.mpr hin
  rw [cntL_eq_count]; omega

/-- **removed ⇒ unreachable** (every call of the model, raising or not; the form the Python
    oracle checks).  A call on the element `n` of the tree: a child of `n` before the call that
    is not a child of the element afterwards occurs nowhere in the tree afterwards — in
    particular it is not reachable from the root. -/
theorem removed_unreachable (s : HState) (h : HOp) (hi : IdInv s) (ha : ArgsFresh s h.op)
    (n : Node) (hn : n ∈ nodes s.root) (hid : n.id = h.target) :
    (nodeStep n h.op s.next).node ∈ nodes (hstep s h).root ∧
    ∀ c ∈ children n, c.id ∉ (children (nodeStep n h.op s.next).node).map Node.id →
      c.id ∉ ids (hstep s h).root ∧ ∀ x, Reach (hstep s h).root x → x.id ≠ c.id := by
  obtain ⟨r, hr⟩ := stepAt_some h.op h.target s.root s.next n hn hid
  obtain ⟨n0, hf⟩ := stepAt_framed h.op h.target s.root s.next r hr
  have hn0 : n0 = n := eq_of_nodup_map_id hi.uniq hf.mem hn (hf.id.trans hid.symm)
  subst hn0
  have hroot : (hstep s h).root = r.node := by unfold hstep; rw [hr]
  rw [hroot]
  refine ⟨hf.mem', ?_⟩
  intro c hc hgone
  have hgoneR : c.id ∉ ids r.node := by
    intro hin
    -- the identity sits once in the old tree, inside `n0`
    have h1 := cnt_le_of_nodup hi.uniq c.id
    have h2 := cnt_le_of_mem_nodes c.id s.root n0 hf.mem
    have h3 : 0 < cnt c.id n0 := by rw [cnt_eq]; have := cntL_pos_of_child hc; omega
    have h4 := hf.cnt_eq c.id
    have h5 := (mem_ids_iff _ _).mp hin
    have h6 : c.id ∈ ids (nodeStep n0 h.op s.next).node := (mem_ids_iff _ _).mpr (by omega)
    have hsub : ∀ a ∈ ids n0, a ∈ ids s.root := fun a ha' =>
      (mem_ids_iff _ _).mpr (Nat.lt_of_lt_of_le ((mem_ids_iff _ _).mp ha') (cnt_le_of_mem_nodes a s.root n0 hf.mem))
    have hnd : (ids n0).Nodup := nodup_of_cnt (fun a =>
      Nat.le_trans (cnt_le_of_mem_nodes a s.root n0 hf.mem) (cnt_le_of_nodup hi.uniq a))
    exact hgone (nodeStep_removed n0 (kok_of_mem_nodes s.root n0 hi.keys hf.mem) hnd h.op s.next
      (fun a ha' => hi.below a (hsub a ha')) ((kokL_iff _).mpr ha.2.2)
      (fun a ha' => args_disjoint ha a (hsub a ha')) c hc h6)
  refine ⟨hgoneR, fun x hx hxid => hgoneR ?_⟩
  rw [← hxid]
  exact List.mem_map.mpr ⟨x, reach_mem_nodes hx, rfl⟩

end Flatland.C08.Proofs
