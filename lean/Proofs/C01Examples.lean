/-
C01: `SepSafe` for one-character separators, and non-vacuity / negation witnesses.
-/
import Proofs.C01
namespace Flatland.Flat.Proofs
open Flatland.Flat Flatland.Flat.Spec

theorem split_single {c : Char} : ∀ (x y a b : Str), c ∉ x → c ∉ y →
    x ++ [c] ++ a = y ++ [c] ++ b → x = y
  | [], [], _, _, _, _, _ => rfl
  | [], d :: y, a, b, _, hy, h => by
    simp only [List.nil_append, List.cons_append, List.singleton_append, List.cons.injEq] at h
    exact absurd (by rw [← h.1]; simp) hy
  | d :: x, [], a, b, hx, _, h => by
    simp only [List.nil_append, List.cons_append, List.singleton_append, List.cons.injEq] at h
    exact absurd (by rw [h.1]; simp) hx
  | d :: x, d' :: y, a, b, hx, hy, h => by
    simp only [List.cons_append, List.cons.injEq] at h
    have := split_single x y a b (fun hc => hx (List.mem_cons_of_mem _ hc))
      (fun hc => hy (List.mem_cons_of_mem _ hc)) h.2
    rw [h.1, this]

/-- **One-character separators.**  If the separator is a single character that is not a decimal
    digit and occurs in no declared name (and no name is empty), flat keys parse uniquely. -/
theorem sepSafe_single_char (env : Env) (henv : EnvOK env) (s : Schema) (c : Char)
    (hnd : isNd env c = false) (hnames : ∀ t ∈ names s, t ≠ [] ∧ c ∉ t) :
    SepSafe env [c] (Tok s) := by
  have hnotin : ∀ t, Tok s t → c ∉ t := by
    intro t ht
    rcases ht with ht | ⟨i, rfl⟩
    · exact (hnames t ht).2
    · intro hc
      have := natStr_all_nd henv i c hc
      rw [hnd] at this; cases this
  refine ⟨by simp, ?_, ?_, ?_, ?_⟩
  · intro t ht
    rcases ht with ht | ⟨i, rfl⟩
    · exact (hnames t ht).1
    · exact natStr_ne_nil i
  · intro t ht a b heq
    exact hnotin t ht (by rw [heq]; simp)
  · intro x y hx hy a b h
    exact split_single x y a b (hnotin x hx) (hnotin y hy) h
  · intro d r h
    simp only [List.cons.injEq] at h
    rw [← h.1]; exact hnd

/-! ### non-vacuity -/

def exEnv01 : Env :=
  { norm := fun _ s => s, compose := fun _ _ => [], joinedMembers := fun _ _ => [],
    ndZeros := [48], maxDigits := 4300 }

/-- Dict{ a : String, ab : List[ String 's' ] }: a field name that is a prefix of its sibling's -/
def exSchema : Schema :=
  .dict none false .dense
    [ .leaf (some "a".toList) false 0,
      .list (some "ab".toList) false false 1024 (.leaf (some "s".toList) false 0) ]

def exElem : Elem :=
  .dict [ ("a".toList, .leaf "x".toList),
          ("ab".toList, .list [.leaf "y".toList, .leaf "".toList]) ]

theorem exEnvOK : EnvOK exEnv01 := ⟨[], rfl⟩

theorem ex_sepSafe : SepSafe exEnv01 "_".toList (Tok exSchema) := by
  apply sepSafe_single_char exEnv01 exEnvOK exSchema '_'
  · decide
  · intro t ht
    simp only [exSchema, names, namesL, Option.toList, List.nil_append, List.append_nil,
      List.mem_append, List.mem_cons, List.mem_singleton, List.not_mem_nil, or_false] at ht
    rcases ht with rfl | rfl | rfl <;> decide

theorem emitsAny_leaf (env : Env) (nm : Option Str) (o : Bool) (k : Nat) (u : Str) :
    emitsAny env (.leaf nm o k) (.leaf u) := by
  unfold emitsAny
  rw [flatten_eq_relFlat]
  have : resolve env (.leaf nm o k) (.leaf u) = .mk nm true true u false [] := by unfold resolve; rfl
  rw [this, relFlat_leaf _ _ _ _ (Or.inr rfl)]
  simp

theorem ex_ok : Ok exEnv01 exSchema exElem := by
  simp only [exSchema, exElem, Ok, OkFields, exEnv01, true_and, and_true, Schema.name]
  refine ⟨by decide, ?_, ?_⟩
  · intro i hi
    simp only [List.length_cons, List.length_nil] at hi
    have : i = 0 ∨ i = 1 := by omega
    rcases this with rfl | rfl
    · rw [natStr_lt 0 (by omega)]; decide
    · rw [natStr_lt 1 (by omega)]; decide
  · intro e he
    simp only [List.mem_cons, List.mem_singleton, List.not_mem_nil, or_false] at he
    rcases he with rfl | rfl
    · exact ⟨by simp [Ok], emitsAny_leaf _ _ _ _ _⟩
    · exact ⟨by simp [Ok], emitsAny_leaf _ _ _ _ _⟩

/-- the hypotheses of `roundtrip` are satisfiable by a non-trivial tree (prefix-sharing sibling
    names, a list with an empty-valued member) -/
example : fromFlat exEnv01 "_".toList exSchema (flatten exEnv01 "_".toList exSchema exElem) = exElem :=
  roundtrip exEnv01 "_".toList exSchema exElem ex_sepSafe exEnvOK (by decide) (by decide) (by decide) ex_ok

end Flatland.Flat.Proofs

namespace Flatland.Flat.Proofs
open Flatland.Flat Flatland.Flat.Spec

/-! ### why SparseDicts are excluded (KF-C01-d): members come back in schema order -/

def sparseSchema : Schema :=
  .dict none false .sparse [.leaf (some "a".toList) false 0, .leaf (some "b".toList) false 0]

/-- set({'b': '1', 'a': '2'}): members in insertion order b, a -/
def sparseElem : Elem := .dict [("b".toList, .leaf "1".toList), ("a".toList, .leaf "2".toList)]

theorem sparse_flatten :
    flatten exEnv01 "_".toList sparseSchema sparseElem
      = [("b".toList, "1".toList), ("a".toList, "2".toList)] := by
  simp [flatten, flattenNode, sparseSchema, sparseElem, resolve, resolveMembers, resolveOne, membersOf,
    bfsFlat, childItems, kidsFrom, namePath, joinSep, FNode.fl, FNode.cfl, FNode.u, FNode.name,
    FNode.kids, FNode.slots, Schema.name]

/-- the full statement (SparseDicts included) is false of the code: the rebuilt tree lists its
    members — and therefore its flat pairs — in schema order, not in the original order -/
theorem roundtrip_sparse_fails :
    flatten exEnv01 "_".toList sparseSchema
        (fromFlat exEnv01 "_".toList sparseSchema (flatten exEnv01 "_".toList sparseSchema sparseElem))
      ≠ flatten exEnv01 "_".toList sparseSchema sparseElem := by
  rw [sparse_flatten]
  simp [fromFlat, setFlat, setFields, blank, wrap, possibles, membersOf, lookup, isPrefix, exEnv01,
    Schema.name, sparseSchema, flatten, flattenNode, resolve, resolveMembers, resolveOne,
    bfsFlat, childItems, kidsFrom, namePath, joinSep, FNode.fl, FNode.cfl, FNode.u, FNode.name,
    FNode.kids, FNode.slots]

end Flatland.Flat.Proofs
