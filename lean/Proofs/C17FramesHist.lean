/-
C17 — the frame MECHANISM refines model A, part 5: corollaries over histories.

* `lazy_is_unobservable`: inserting READS (through any view, anywhere) into a guarded history changes no
  result of the other commands and leads to mechanism states that refine the SAME model-A state;
  the guard of the history with the reads follows from the guard without them (`refGuard_insert_reads`:
  no method call touches the store `refGuard` looks at, `store_op` / `store_fstep`);
* composition with `c17_histories_partial` / `c17_results_partial` (`Proofs.C17`): under `histGuard`
  every read through every view of the MECHANISM model equals the layered reference.
-/
import Proofs.C17FramesStep
namespace Flatland.C17.Frames.Proofs
open Flatland.C17 Flatland.C17.Spec Flatland.C17.Proofs Flatland.C17.Frames

/-! ## composition with the layered reference -/

/-- the `sharedInit` annotation along the mechanism's own run -/
def sharedHist : FState → List Cmd → Bool
  | _, [] => true
  | σ, c :: cs => sharedInit σ c && sharedHist (fstep false σ c).1 cs

theorem refGuard_of_histGuard : ∀ (cs : List Cmd) (σ : FState) (a : State),
    histGuard a cs = true → sharedHist σ cs = true → refGuard σ a cs = true
  | [], _, _, _, _ => rfl
  | c :: cs, σ, a, hg, hs => by
    simp only [histGuard, Bool.and_eq_true] at hg
    simp only [sharedHist, Bool.and_eq_true] at hs
    obtain ⟨hok, _, _, hmi⟩ := (cmdGuard_iff a c).1 hg.1
    simp only [refGuard, Bool.and_eq_true, decide_eq_true_eq]
    exact ⟨⟨⟨hok, hmi⟩, hs.1⟩, refGuard_of_histGuard cs _ _ hg.2 hs.2⟩

/-- a method call through a view is never rejected by the guards -/
theorem op_step_refines {σ : FState} {a : State} (h : Ref σ a) (v : View) (o : Op) :
    (fstep false σ (.op v o)).2 = (step a (.op v o)).2 ∧
    Ref (fstep false σ (.op v o)).1 (step a (.op v o)).1 :=
  frames_step_refines h (.op v o) trivial rfl rfl

/-- what `view[k]` gives in the mechanism model (`none`: `KeyError`, or no such view) -/
def fvisible (σ : FState) (v : View) (k : Key) : Option Val :=
  match (fstep false σ (.op v (.getitem k))).2 with
  | .val x => some x
  | _ => none

/-- model A: `view[k]` is `visible` -/
theorem getitem_visible (a : State) (v : View) (k : Key) :
    (match (step a (.op v (.getitem k))).2 with
      | .val x => some x
      | _ => none) = visible a v k := by
  cases v with
  | cls c =>
    simp only [step, classOp, visible]
    by_cases hc : c < a.classes.length
    · simp only [hc, if_true]
      cases a.descOf c with
      | none => rfl
      | some d =>
        simp only [dictLikeRead, tReader]
        cases tGet a c d k <;> rfl
    · simp only [hc, if_false, descOf_ge a c (Nat.le_of_not_lt hc)]
  | inst i =>
    simp only [step, instOp, visible]
    cases a.insts[i]? with
    | none => rfl
    | some x =>
      simp only
      cases x.loc with
      | plain m =>
        simp only [plainOp]
        cases AList.get? m k <;> rfl
      | storage f =>
        simp only
        cases a.descOf x.cls with
        | none => rfl
        | some d =>
          simp only [dictLikeRead, iReader]
          cases iGet a f x.cls d k <;> rfl

/-- **`C17_Partial` for the MECHANISM model.**  After every history from a fresh root that passes
    `histGuard` (outside KF-C17-a and KF-C17-c) and annotates shared `Properties` objects correctly, every
    `view[k]` of the mechanism model — `Properties.map` filled lazily, the read itself possibly
    materialising a frame — is exactly what the layered reference of the property text shows. -/
theorem frames_histories_partial (init : List (Key × Val)) (cmds : List Cmd) (v : View) (k : Key)
    (hg : histGuard (initState init) cmds = true) (hs : sharedHist (finit init) cmds = true) :
    fvisible (frun false (finit init) cmds).1 v k
      = Spec.visible (Spec.run (abs (initState init)) cmds) v k := by
  obtain ⟨_, href⟩ := frames_run_refines_init init cmds (refGuard_of_histGuard cmds _ _ hg hs)
  rw [← c17_histories_partial init cmds v k hg, ← getitem_visible]
  simp only [fvisible, (op_step_refines href v (.getitem k)).1]

/-- **results of every method of the MECHANISM model along guarded histories** =
    `c17_results_partial` with the mechanism in place of model A -/
theorem frames_results_partial (init : List (Key × Val)) (pre : List Cmd)
    (hg : histGuard (initState init) pre = true) (hs : sharedHist (finit init) pre = true)
    (v : View) (o : Op) (hv : lookupView (run (initState init) pre).1 v = true) :
    let m := Spec.visible (Spec.run (abs (initState init)) pre) v
    (∀ r, dictResult o m = some r → (fstep false (frun false (finit init) pre).1 (.op v o)).2 = r) ∧
    ∃ l, ItemsOf m l ∧
      ∀ r, iterResult l o = some r → (fstep false (frun false (finit init) pre).1 (.op v o)).2 = r := by
  obtain ⟨_, href⟩ := frames_run_refines_init init pre (refGuard_of_histGuard pre _ _ hg hs)
  have he := (op_step_refines href v o).1
  have hA := c17_results_partial init pre hg v o hv
  simp only at hA ⊢
  rw [he]
  exact hA

/-! ## lazy materialisation is unobservable -/

/-- a read-only method call (one that pulls `_frames()` and writes nothing, in either model) -/
def isReadCmd : Cmd → Bool
  | .op _ o => (pullOf o).isSome
  | _ => false

theorem plainOp_pull (m : Dict Val) (o : Op) (h : (pullOf o).isSome = true) : (plainOp m o).1 = m := by
  cases o <;> simp only [pullOf, Option.isSome_none, Bool.false_eq_true] at h <;> rfl

theorem setInst_self (a : State) (i : InstId) (x : Inst) (hx : a.insts[i]? = some x) :
    C17.setInst a i x = a := by
  simp only [C17.setInst, set_self_of_getElem? a.insts i x hx]

/-- in model A a read changes nothing -/
theorem step_read_state (a : State) (c : Cmd) (h : isReadCmd c = true) : (step a c).1 = a := by
  cases c with
  | op v o =>
    simp only [isReadCmd] at h
    obtain ⟨p, hp⟩ := Option.isSome_iff_exists.mp h
    cases v with
    | cls c => exact classOp_read_state a c o p hp
    | inst i =>
      simp only [step, instOp]
      cases hx : a.insts[i]? with
      | none => rfl
      | some x =>
        obtain ⟨cl, loc⟩ := x
        cases loc with
        | plain m =>
          simp only [plainOp_pull m o h]
          exact setInst_self a i _ hx
        | storage f =>
          simp only
          cases a.descOf cl with
          | none => rfl
          | some d =>
            obtain ⟨res, hres⟩ := dictLikeRead_isRead (iReader a f cl d) o p hp
            simp only [hres]
  | _ => simp [isReadCmd] at h

/-- the results of the commands that are NOT marked -/
def keepRes : List (Bool × Cmd) → List Res → List Res
  | bc :: l, r :: rs => if bc.1 then keepRes l rs else r :: keepRes l rs
  | _, _ => []

/-- the history without the marked commands -/
def unmarked (l : List (Bool × Cmd)) : List Cmd := (l.filter (fun bc => !bc.1)).map (·.2)

theorem run_insert_reads : ∀ (l : List (Bool × Cmd)) (a : State),
    (∀ bc ∈ l, bc.1 = true → isReadCmd bc.2 = true) →
    (run a (l.map (·.2))).1 = (run a (unmarked l)).1 ∧
    keepRes l (run a (l.map (·.2))).2 = (run a (unmarked l)).2
  | [], _, _ => ⟨rfl, rfl⟩
  | (b, c) :: l, a, hr => by
    have hr' : ∀ bc ∈ l, bc.1 = true → isReadCmd bc.2 = true :=
      fun bc hbc => hr bc (List.mem_cons_of_mem _ hbc)
    cases b with
    | true =>
      have hs := step_read_state a c (hr (true, c) List.mem_cons_self rfl)
      have ih := run_insert_reads l a hr'
      simp only [List.map_cons, run, hs, keepRes, if_true]
      have hu : unmarked ((true, c) :: l) = unmarked l := by simp [unmarked]
      rw [hu]; exact ih
    | false =>
      have ih := run_insert_reads l (step a c).1 hr'
      have hu : unmarked ((false, c) :: l) = c :: unmarked l := by simp [unmarked]
      simp only [List.map_cons, run, keepRes, hu, Bool.false_eq_true, if_false]
      exact ⟨ih.1, by rw [ih.2]⟩

/-! ## what the guard looks at is out of the reach of method calls -/

/-- the part of the mechanism state `refGuard` (`sharedInit`) looks at — class table, slots,
    `Properties` objects and their `initial_set` cells: everything but `map` and the instances -/
structure SameStore (σ σ' : FState) : Prop where
  classes : σ.classes = σ'.classes
  ndesc : σ.ndesc = σ'.ndesc
  objs : σ.objs = σ'.objs
  initial : σ.initial = σ'.initial

theorem SameStore.refl (σ : FState) : SameStore σ σ := ⟨rfl, rfl, rfl, rfl⟩
theorem SameStore.symm {σ σ' : FState} (h : SameStore σ σ') : SameStore σ' σ :=
  ⟨h.1.symm, h.2.symm, h.3.symm, h.4.symm⟩
theorem SameStore.trans {σ σ' σ'' : FState} (h : SameStore σ σ') (h' : SameStore σ' σ'') : SameStore σ σ'' :=
  ⟨h.1.trans h'.1, h.2.trans h'.2, h.3.trans h'.3, h.4.trans h'.4⟩

theorem mroOf_store {σ σ' : FState} (h : SameStore σ σ') : σ.mroOf = σ'.mroOf := by
  funext c; simp only [FState.mroOf, h.classes]
theorem ownOf_store {σ σ' : FState} (h : SameStore σ σ') : σ.ownOf = σ'.ownOf := by
  funext c; simp only [FState.ownOf, h.classes]
theorem objOf_store {σ σ' : FState} (h : SameStore σ σ') : σ.objOf = σ'.objOf := by
  funext s; simp only [FState.objOf, h.objs]
theorem initialOf_store {σ σ' : FState} (h : SameStore σ σ') : σ.initialOf = σ'.initialOf := by
  funext P; simp only [FState.initialOf, h.initial]

/-- `sharedInit` looks at the store only -/
theorem sharedInit_store {σ σ' : FState} (h : SameStore σ σ') (c : Cmd) : sharedInit σ c = sharedInit σ' c := by
  cases c <;> simp only [sharedInit, ownOf_store h, objOf_store h, initialOf_store h]

theorem store_mapSet (σ : FState) (P : ObjId) (c : ClassId) (r : FrameRef) : SameStore (σ.mapSet P c r) σ :=
  ⟨rfl, rfl, rfl, rfl⟩
theorem store_setInst (σ : FState) (i : InstId) (x : Inst) : SameStore (Frames.setInst σ i x) σ :=
  ⟨rfl, rfl, rfl, rfl⟩

/-- READ path: `_frames()` pulled by any consumer leaves the store alone (no invariant needed) -/
theorem store_pull (σ : FState) (P : ObjId) (l : List ClassId) (p : Frame → Pull) :
    SameStore (framesPull σ P p l).1 σ := by
  rcases pull_state σ P l p with e | ⟨o, _, _, e⟩ <;> rw [e]
  · exact .refl σ
  · exact store_mapSet _ _ _ _

theorem store_tGetF (σ : FState) (c : ClassId) (P : ObjId) (k : Key) : SameStore (tGetF σ c P k).1 σ :=
  store_pull _ _ _ _
theorem store_tItemsF (σ : FState) (c : ClassId) (P : ObjId) : SameStore (tItemsF σ c P).1 σ :=
  store_pull _ _ _ _
theorem noAlias_tGetF {σ : FState} (h : NoAlias σ) (c : ClassId) (P : ObjId) (k : Key) :
    NoAlias (tGetF σ c P k).1 := (pull_inv h _ _ _).1
theorem noAlias_tItemsF {σ : FState} (h : NoAlias σ) (c : ClassId) (P : ObjId) :
    NoAlias (tItemsF σ c P).1 := (pull_inv h _ _ _).1

/-- WRITE path as written: under `NoAlias` a frame mutation never reaches an `initial_set` cell -/
theorem store_writeRef {σ : FState} (h : NoAlias σ) (P : ObjId) (c : ClassId) (g : Frame → Frame) :
    SameStore (σ.writeRef P c g) σ := by
  simp only [FState.writeRef]
  cases hm : σ.mapGet P c with
  | none => exact .refl σ
  | some r =>
    cases r with
    | obj f => exact store_mapSet _ _ _ _
    | initCell => exact absurd hm (h P c)

theorem store_baseFrame {σ : FState} (h : NoAlias σ) (c : ClassId) (P : ObjId) :
    SameStore (baseFrame false σ c P) σ := by
  rw [baseFrame_eq h]; exact store_mapSet _ _ _ _

theorem store_writeBase {σ : FState} (h : NoAlias σ) (c : ClassId) (P : ObjId) (g : Frame → Frame) :
    SameStore (writeBase false σ c P g) σ := by
  rw [writeBase_eq h]; exact store_mapSet _ _ _ _

theorem store_tWriteF {σ : FState} (h : NoAlias σ) (c : ClassId) (P : ObjId) (o : Op) :
    SameStore (tWriteF false σ c P o).1 σ := by
  cases o with
  | setitem k v => exact store_writeBase h _ _ _
  | update pairs => exact store_writeBase h _ _ _
  | delitem k =>
    simp only [tWriteF]
    split
    · exact store_tGetF _ _ _ _
    · exact (store_writeBase (noAlias_tGetF h c P k) _ _ _).trans (store_tGetF _ _ _ _)
  | pop k d =>
    simp only [tWriteF]
    split
    · exact store_tGetF _ _ _ _
    · exact (store_writeBase (noAlias_tGetF h c P k) _ _ _).trans (store_tGetF _ _ _ _)
  | setdefault k d =>
    simp only [tWriteF]
    split
    · exact store_tGetF _ _ _ _
    · exact (store_writeBase (noAlias_tGetF h c P k) _ _ _).trans (store_tGetF _ _ _ _)
  | clear =>
    exact (store_writeRef (noAlias_tItemsF (baseFrame_inv h c P).1 c P) _ _ _).trans
      ((store_tItemsF _ _ _).trans (store_baseFrame h c P))
  | _ => exact .refl σ

theorem store_classOpF {σ : FState} (h : NoAlias σ) (c : ClassId) (o : Op) :
    SameStore (classOpF false σ c o).1 σ := by
  unfold classOpF
  split
  · split
    · exact .refl σ
    · split
      · exact store_pull _ _ _ _
      · split
        · exact .refl σ
        · exact store_tWriteF h _ _ _
  · exact .refl σ

theorem store_iGetF (σ : FState) (f : Frame) (c : ClassId) (P : ObjId) (k : Key) :
    SameStore (iGetF σ f c P k).1 σ := by
  unfold iGetF
  split
  · exact .refl σ
  · exact .refl σ
  · exact store_tGetF _ _ _ _

theorem store_iWriteF (σ : FState) (f : Frame) (c : ClassId) (P : ObjId) (o : Op) :
    SameStore (iWriteF σ f c P o).1 σ := by
  cases o with
  | delitem k => simp only [iWriteF]; split <;> exact store_iGetF _ _ _ _ _
  | pop k d => simp only [iWriteF]; split <;> exact store_iGetF _ _ _ _ _
  | setdefault k d => simp only [iWriteF]; split <;> exact store_iGetF _ _ _ _ _
  | clear => exact store_tItemsF _ _ _
  | _ => exact .refl σ

/-- a method call through an INSTANCE view never touches the store (no invariant needed) -/
theorem store_instOpF (σ : FState) (i : InstId) (o : Op) : SameStore (instOpF σ i o).1 σ := by
  unfold instOpF
  split
  · exact .refl σ
  · split
    · exact store_setInst _ _ _
    · split
      · exact .refl σ
      · split
        · split
          · exact store_pull _ _ _ _
          · exact .refl σ
        · exact (store_setInst _ _ _).trans (store_iWriteF _ _ _ _ _)

/-- any method call, read or write, through any view: the store stays as it is (`NoAlias`: a write
    goes to a dict of its own, never to `initial_set`) -/
theorem store_op {σ : FState} (h : NoAlias σ) (v : View) (o : Op) : SameStore (fstep false σ (.op v o)).1 σ := by
  cases v with
  | cls c => exact store_classOpF h c o
  | inst i => exact store_instOpF σ i o

/-- **a READ step of the mechanism model changes nothing `refGuard` looks at** — `classes`, `ndesc`,
    `objs`, `initial` are those of the state before (only `map` may grow); no invariant needed -/
theorem read_step_store (σ : FState) (c : Cmd) (h : isReadCmd c = true) : SameStore (fstep false σ c).1 σ := by
  cases c with
  | op v o =>
    cases v with
    | inst i => exact store_instOpF σ i o
    | cls c =>
      obtain ⟨p, hp⟩ := Option.isSome_iff_exists.mp h
      simp only [fstep, classOpF, hp]
      split
      · split
        · exact .refl σ
        · exact store_pull _ _ _ _
      · exact .refl σ
  | _ => simp [isReadCmd] at h

theorem store_addClass {σ σ' : FState} (h : SameStore σ σ') (tail : List ClassId) (own : Option DescId) :
    SameStore (Frames.addClass σ tail own) (Frames.addClass σ' tail own) :=
  ⟨by simp only [Frames.addClass, h.classes], h.ndesc, h.objs, h.initial⟩

theorem store_usingPropsF {σ σ' : FState} (h : SameStore σ σ') (p : ClassId) (init : List (Key × Val)) :
    SameStore (usingPropsF σ p init) (usingPropsF σ' p init) := by
  constructor <;>
    simp only [usingPropsF, Frames.addClass, h.classes, mroOf_store h, h.ndesc, h.objs, h.initial]

theorem store_usingSharedF {σ σ' : FState} (h : SameStore σ σ') (p : ClassId) (s : DescId) :
    SameStore (usingSharedF σ p s) (usingSharedF σ' p s) := by
  constructor <;>
    simp only [usingSharedF, Frames.addClass, h.classes, mroOf_store h, objOf_store h, h.ndesc, h.objs, h.initial]

/-- the store after a command is a function of the store before: two mechanism states with the same
    store (whatever is materialised in either) have the same store after the same command -/
theorem store_fstep {σ σ' : FState} (hs : SameStore σ σ') (h : NoAlias σ) (h' : NoAlias σ') (c : Cmd) :
    SameStore (fstep false σ c).1 (fstep false σ' c).1 := by
  cases c with
  | op v o => exact (store_op h v o).trans (hs.trans (store_op h' v o).symm)
  | subclass p =>
    by_cases hp : p < σ'.classes.length
    · simp only [fstep, hs.classes, mroOf_store hs, hp, if_true]; exact store_addClass hs _ _
    · simp only [fstep, hs.classes, hp, if_false]; exact hs
  | subclassMI tail =>
    cases hp : tail.all (· < σ'.classes.length) with
    | true => simp only [fstep, hs.classes, hp, if_true]; exact store_addClass hs _ _
    | false => simp only [fstep, hs.classes, hp, Bool.false_eq_true, if_false]; exact hs
  | usingProps p init =>
    by_cases hp : p < σ'.classes.length
    · simp only [fstep, hs.classes, hp, if_true]; exact store_usingPropsF hs _ _
    · simp only [fstep, hs.classes, hp, if_false]; exact hs
  | usingShared p owner init =>
    by_cases hp : p < σ'.classes.length
    · simp only [fstep, hs.classes, ownOf_store hs, hp, if_true]
      cases σ'.ownOf owner with
      | none => exact hs
      | some s => exact store_usingSharedF hs _ _
    · simp only [fstep, hs.classes, hp, if_false]; exact hs
  | withProps p pairs =>
    by_cases hp : p < σ'.classes.length
    · simp only [fstep, hs.classes, mroOf_store hs, hp, if_true]
      exact (store_classOpF (σ := Frames.addClass σ (σ'.mroOf p) none) (fun P c => h P c) _ _).trans
        ((store_addClass hs _ _).trans
          (store_classOpF (σ := Frames.addClass σ' (σ'.mroOf p) none) (fun P c => h' P c) _ _).symm)
    · simp only [fstep, hs.classes, hp, if_false]; exact hs
  | newInst c =>
    have key : ∀ τ : FState, SameStore (fstep false τ (.newInst c)).1 τ := by
      intro τ; simp only [fstep]; split <;> exact ⟨rfl, rfl, rfl, rfl⟩
    exact (key σ).trans (hs.trans (key σ').symm)
  | newInstWith c m =>
    have key : ∀ τ : FState, SameStore (fstep false τ (.newInstWith c m)).1 τ := by
      intro τ; simp only [fstep]; split <;> exact ⟨rfl, rfl, rfl, rfl⟩
    exact (key σ).trans (hs.trans (key σ').symm)
  | assign i m =>
    have key : ∀ τ : FState, SameStore (fstep false τ (.assign i m)).1 τ := by
      intro τ; simp only [fstep]; split <;> exact ⟨rfl, rfl, rfl, rfl⟩
    exact (key σ).trans (hs.trans (key σ').symm)
  | newInstCompound c m =>
    by_cases hp : c < σ'.classes.length
    · simp only [fstep, hs.classes, hp, if_true]
      have := store_usingPropsF hs c m
      exact ⟨this.1, this.2, this.3, this.4⟩
    · simp only [fstep, hs.classes, hp, if_false]; exact hs

/-! ## inserted reads do not change the guard of the other commands -/

/-- **guard invariance under inserted reads.**  From two mechanism states that refine the same
    model-A state and have the same store (they may differ in what is materialised), the guard of a
    history with inserted reads (the marked commands) is the guard of the history without them:
    a read passes `CmdOK` / `miGuard` / `sharedInit` trivially, changes nothing in model A
    (`step_read_state`) and nothing in the store (`store_op`); every other command is judged by
    `CmdOK` (the command alone), `miGuard` (model A) and `sharedInit` (the store) and maps equal
    stores to equal stores (`store_fstep`). -/
theorem refGuard_insert_reads_from : ∀ (l : List (Bool × Cmd)) (σ σ' : FState) (a : State),
    Ref σ a → Ref σ' a → SameStore σ σ' →
    (∀ bc ∈ l, bc.1 = true → isReadCmd bc.2 = true) →
    refGuard σ a (l.map (·.2)) = refGuard σ' a (unmarked l)
  | [], _, _, _, _, _, _, _ => rfl
  | (b, c) :: l, σ, σ', a, h, h', hs, hr => by
    have hr' : ∀ bc ∈ l, bc.1 = true → isReadCmd bc.2 = true :=
      fun bc hbc => hr bc (List.mem_cons_of_mem _ hbc)
    cases b with
    | true =>
      have hrd := hr (true, c) List.mem_cons_self rfl
      have hu : unmarked ((true, c) :: l) = unmarked l := by simp [unmarked]
      cases c with
      | op v o =>
        obtain ⟨_, href⟩ := op_step_refines h v o
        rw [step_read_state a _ hrd] at href
        have hst := (store_op h.finv.noAlias v o).trans hs
        rw [hu, ← refGuard_insert_reads_from l _ σ' a href h' hst hr']
        have e : (decide (CmdOK (.op v o)) && miGuard a (.op v o) && sharedInit σ (.op v o)) = true := by
          simp only [Bool.and_eq_true, decide_eq_true_eq]
          exact ⟨⟨trivial, rfl⟩, rfl⟩
        simp only [List.map_cons, refGuard, step_read_state a _ hrd, e, Bool.true_and]
      | _ => simp [isReadCmd] at hrd
    | false =>
      have hu : unmarked ((false, c) :: l) = c :: unmarked l := by simp [unmarked]
      rw [hu]
      simp only [List.map_cons, refGuard, sharedInit_store hs c]
      cases hhead : (decide (CmdOK c) && miGuard a c && sharedInit σ' c) with
      | false => simp only [Bool.false_and]
      | true =>
        simp only [Bool.and_eq_true, decide_eq_true_eq] at hhead
        obtain ⟨⟨hok, hmi⟩, hsh⟩ := hhead
        have hsh1 : sharedInit σ c = true := by rw [sharedInit_store hs c]; exact hsh
        obtain ⟨_, r1⟩ := frames_step_refines h c hok hmi hsh1
        obtain ⟨_, r2⟩ := frames_step_refines h' c hok hmi hsh
        simp only [Bool.true_and]
        exact refGuard_insert_reads_from l _ _ _ r1 r2 (store_fstep hs h.finv.noAlias h'.finv.noAlias c) hr'

/-- from ONE state: the history with the inserted reads passes the guard iff the history without
    them does -/
theorem refGuard_insert_reads {σ : FState} {a : State} (h : Ref σ a) (l : List (Bool × Cmd))
    (hr : ∀ bc ∈ l, bc.1 = true → isReadCmd bc.2 = true) :
    refGuard σ a (l.map (·.2)) = refGuard σ a (unmarked l) :=
  refGuard_insert_reads_from l σ σ a h h (.refl σ) hr

/-- the earlier form: both histories assumed guarded -/
theorem lazy_is_unobservable_two_guards {σ : FState} {a : State} (h : Ref σ a) (l : List (Bool × Cmd))
    (hr : ∀ bc ∈ l, bc.1 = true → isReadCmd bc.2 = true)
    (hg1 : refGuard σ a (l.map (·.2)) = true) (hg2 : refGuard σ a (unmarked l) = true) :
    keepRes l (frun false σ (l.map (·.2))).2 = (frun false σ (unmarked l)).2 ∧
    Ref (frun false σ (l.map (·.2))).1 (run a (unmarked l)).1 ∧
    Ref (frun false σ (unmarked l)).1 (run a (unmarked l)).1 := by
  obtain ⟨r1, s1⟩ := frames_run_refines _ σ a h hg1
  obtain ⟨r2, s2⟩ := frames_run_refines _ σ a h hg2
  obtain ⟨hs, hres⟩ := run_insert_reads l a hr
  rw [hs] at s1
  exact ⟨by rw [r1, r2, hres], s1, s2⟩

/-- **`lazy_is_unobservable`.**  Take any guarded history and insert read-only method calls — through
    any class or instance view, at any points, each possibly materialising a frame in
    `Properties.map` (the marked commands of `l`).  Then every OTHER command returns exactly what it
    returns without the inserted reads, and the two final mechanism states — which differ in which
    frames are materialised — refine one and the same model-A state: no later command can tell them
    apart either (`frames_step_refines` from that state).  Only the history WITHOUT the inserted
    reads is assumed guarded; the guard of the other one follows (`refGuard_insert_reads`). -/
theorem lazy_is_unobservable {σ : FState} {a : State} (h : Ref σ a) (l : List (Bool × Cmd))
    (hr : ∀ bc ∈ l, bc.1 = true → isReadCmd bc.2 = true)
    (hg : refGuard σ a (unmarked l) = true) :
    keepRes l (frun false σ (l.map (·.2))).2 = (frun false σ (unmarked l)).2 ∧
    Ref (frun false σ (l.map (·.2))).1 (run a (unmarked l)).1 ∧
    Ref (frun false σ (unmarked l)).1 (run a (unmarked l)).1 :=
  lazy_is_unobservable_two_guards h l hr (by rw [refGuard_insert_reads h l hr]; exact hg) hg

/-! ## non-vacuity -/

def kT : Key := ['t']

/-- root 0 `{s: 1}` with an instance; the instance READS (materialising the root's frame through
    the read path); class 1 = subclass, written through (its frame `{}` comes from `_base_frame`);
    class 2 = `using(properties={t: 3})`, written through FIRST (its OWNER frame is materialised by
    the write path, as a copy); class 3 = a sibling handed the SAME `Properties` object; reads
    through it, instance reads after, instance `clear()`, a detached instance -/
def frameHist : List Cmd :=
  [.newInst 0, .op (.inst 0) (.getitem kS),
   .subclass 0, .op (.cls 1) (.setitem kB (.int 2)),
   .usingProps 0 [(kT, .int 3)], .op (.cls 2) (.setitem kB (.int 9)),
   .usingShared 0 2 [(kT, .int 3)], .op (.cls 3) (.getitem kB), .op (.cls 3) .items,
   .op (.cls 1) (.pop kS none), .op (.inst 0) (.getitem kS), .op (.inst 0) (.setitem kS (.int 4)),
   .op (.inst 0) .clear, .op (.inst 0) .items,
   .newInstWith 1 [(kS, .int 7)], .op (.inst 1) .popitem, .withProps 3 [(kS, .int 5)], .op (.cls 4) .items]

theorem frameHist_guard :
    histGuard (initState [(kS, .int 1)]) frameHist = true ∧
    sharedHist (finit [(kS, .int 1)]) frameHist = true := by decide

/-- the theorem applies … -/
example : (frun false (finit [(kS, .int 1)]) frameHist).2 = (run (initState [(kS, .int 1)]) frameHist).2 :=
  (frames_run_refines_init _ _ (refGuard_of_histGuard _ _ _ frameHist_guard.1 frameHist_guard.2)).1

example (v : View) (k : Key) :
    fvisible (frun false (finit [(kS, .int 1)]) frameHist).1 v k
      = Spec.visible (Spec.run (abs (initState [(kS, .int 1)])) frameHist) v k :=
  frames_histories_partial _ _ v k frameHist_guard.1 frameHist_guard.2

/-- … and the history does what it says: frames come into being one by one (root by the instance
    read, class 1 and the owner class 2 by writes, class 3 by a read, class 4 by `with_properties`),
    the sibling sharing the object sees none of class 2's write (`KeyError`), the instance of the
    root reads `s = 1` before and after (class 1's `pop` writes a tombstone into class 1's frame only),
    its `clear()` hides everything -/
example :
    materialised (frun false (finit [(kS, .int 1)]) (frameHist.take 1)).1 = [] ∧
    materialised (frun false (finit [(kS, .int 1)]) (frameHist.take 2)).1 = [0] ∧
    materialised (frun false (finit [(kS, .int 1)]) (frameHist.take 4)).1 = [0, 1] ∧
    materialised (frun false (finit [(kS, .int 1)]) (frameHist.take 5)).1 = [0, 1] ∧
    materialised (frun false (finit [(kS, .int 1)]) (frameHist.take 6)).1 = [0, 1, 2] ∧
    materialised (frun false (finit [(kS, .int 1)]) (frameHist.take 7)).1 = [0, 1, 2] ∧
    materialised (frun false (finit [(kS, .int 1)]) (frameHist.take 8)).1 = [0, 1, 2, 3] ∧
    materialised (frun false (finit [(kS, .int 1)]) frameHist).1 = [0, 1, 2, 3, 4] ∧
    (frun false (finit [(kS, .int 1)]) frameHist).2 =
      [.unit, .val (.int 1), .unit, .unit, .unit, .unit, .unit, .err .keyError, .items [(kT, .int 3)],
       .val (.int 1), .val (.int 1), .unit, .unit, .items [],
       .unit, .items [(kS, .int 7)], .unit, .items [(kS, .int 5), (kT, .int 3)]] := by decide

/-- the step refinement also covers what `histGuard` excludes for the LAYERED reference: the instance
    `clear()` quirk KF-C17-a is common to both models (`refGuard` passes, `histGuard` does not) -/
def quirkHist : List Cmd :=
  [.newInst 0, .op (.inst 0) (.setitem kB (.int 4)), .op (.inst 0) .clear, .op (.inst 0) .items,
   .op (.inst 0) (.setitem kB (.int 5)), .op (.inst 0) .items]

example :
    histGuard (initState [(kS, .int 1)]) quirkHist = false ∧
    (frun false (finit [(kS, .int 1)]) quirkHist).2 = (run (initState [(kS, .int 1)]) quirkHist).2 :=
  ⟨by decide, (frames_run_refines_init _ _ (by decide)).1⟩

/-- `lazy_is_unobservable` on a concrete pair: the same history with and without three inserted
    reads (one through an instance before anything is materialised, one through the sibling) -/
def markedHist : List (Bool × Cmd) :=
  [(false, .newInst 0), (true, .op (.inst 0) (.getitem kS)),
   (false, .usingProps 0 [(kT, .int 3)]), (true, .op (.cls 1) .items),
   (false, .op (.cls 1) (.setitem kB (.int 9))),
   (false, .usingShared 0 1 [(kT, .int 3)]), (true, .op (.cls 2) (.contains kB)),
   (false, .op (.cls 2) .items), (false, .op (.inst 0) .items)]

example :
    keepRes markedHist (frun false (finit [(kS, .int 1)]) (markedHist.map (·.2))).2
      = (frun false (finit [(kS, .int 1)]) (unmarked markedHist)).2 ∧
    materialised (frun false (finit [(kS, .int 1)]) (markedHist.map (·.2))).1 = [0, 1, 2] ∧
    materialised (frun false (finit [(kS, .int 1)]) (unmarked markedHist)).1 = [0, 1, 2] ∧
    materialised (frun false (finit [(kS, .int 1)]) ((markedHist.take 4).map (·.2))).1 = [0, 1] ∧
    materialised (frun false (finit [(kS, .int 1)]) (unmarked (markedHist.take 4))).1 = [] :=
  ⟨(lazy_is_unobservable (Ref_init _) markedHist (by decide) (by decide)).1,
    by decide, by decide, by decide, by decide⟩

/-- guard invariance is not vacuous: the guard of `markedHist` WITHOUT its three reads holds, the
    theorem gives the guard WITH them (and `decide` agrees); the reads do materialise frames (the
    `map` differs after four commands) while the store — what `refGuard` looks at — is the same -/
example :
    refGuard (finit [(kS, .int 1)]) (initState [(kS, .int 1)]) (unmarked markedHist) = true ∧
    refGuard (finit [(kS, .int 1)]) (initState [(kS, .int 1)]) (markedHist.map (·.2)) = true ∧
    SameStore (frun false (finit [(kS, .int 1)]) ((markedHist.take 4).map (·.2))).1
      (frun false (finit [(kS, .int 1)]) (unmarked (markedHist.take 4))).1 :=
  ⟨by decide,
    by rw [refGuard_insert_reads (Ref_init _) markedHist (by decide)]; decide,
    ⟨rfl, rfl, rfl, rfl⟩⟩

/-- … and a guard that FAILS stays failed under inserted reads (the equality goes both ways): a wrong
    `initial_set` annotation of the shared object is rejected with or without the reads -/
def markedBad : List (Bool × Cmd) :=
  [(false, .usingProps 0 [(kT, .int 3)]), (true, .op (.cls 1) .items),
   (false, .usingShared 0 1 [(kT, .int 4)]), (true, .op (.cls 2) .items)]

example :
    refGuard (finit [(kS, .int 1)]) (initState [(kS, .int 1)]) (unmarked markedBad) = false ∧
    refGuard (finit [(kS, .int 1)]) (initState [(kS, .int 1)]) (markedBad.map (·.2)) = false :=
  ⟨by decide, by rw [refGuard_insert_reads (Ref_init _) markedBad (by decide)]; decide⟩

end Flatland.C17.Frames.Proofs
