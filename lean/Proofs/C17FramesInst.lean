/-
C17 — the frame MECHANISM refines model A, part 3: INSTANCE views (`_InstanceLookup` over `local`,
attached instances; detached instances are plain dicts on both sides).
-/
import Proofs.C17FramesWrite
namespace Flatland.C17.Frames.Proofs
open Flatland.C17 Flatland.C17.Spec Flatland.C17.Proofs Flatland.C17.Frames

/-! ## the instance reader over a pulled prefix -/

theorem iReader_eq (a : State) (f : Frame) (c : ClassId) (s : DescId) :
    iReader a f c s = iReaderOf f (tFrames a c s) := rfl

theorem mem_localItems_of_get? (f : Frame) (k : Key) (v : Val) (h : AList.get? f k = some (.val v)) :
    k ∈ (localItems f).map (·.1) := by
  have hm := mem_of_get? f k (.val v) h
  refine List.mem_map.2 ⟨(k, v), ?_, rfl⟩
  exact List.mem_filterMap.2 ⟨(k, .val v), hm, rfl⟩

theorem mem_keys_filter (L : List (Key × Val)) (q : Key → Bool) (k : Key) :
    k ∈ (L.filter (fun kv => q kv.1)).map (·.1) ↔ k ∈ L.map (·.1) ∧ q k = true := by
  simp only [List.mem_map, List.mem_filter]
  constructor
  · rintro ⟨kv, ⟨hm, hq⟩, rfl⟩; exact ⟨⟨kv, hm, rfl⟩, hq⟩
  · rintro ⟨⟨kv, hm, rfl⟩, hq⟩; exact ⟨kv, ⟨hm, hq⟩, rfl⟩

theorem mem_keys_cutF (k : Key) (fs : List Frame) :
    k ∈ (itemsGo (cutF (containsP k) fs).flatten []).map (·.1) ↔ k ∈ (itemsGo fs.flatten []).map (·.1) := by
  rw [mem_keys_itemsGo, mem_keys_itemsGo, firstSlot_cutF]

theorem opt_cases {α : Type} (x : Option α) : x = none ∨ ∃ y, x = some y := by
  cases x with
  | none => exact .inl rfl
  | some y => exact .inr ⟨y, rfl⟩

/-- **instance reads over the pulled prefix.**  Whatever read-only method is called through an
    instance view: computed over `local` and the class frames its consumer actually pulled (none at
    all when `local` decides), it returns what it returns over `local` and ALL class frames. -/
theorem iread_cutF (f : Frame) (fs : List Frame) (o : Op) :
    (match iPullOf f o with
      | some p => dictLikeRead (iReaderOf f (cutF p fs)) o
      | none => dictLikeRead (iReaderOf f []) o) = dictLikeRead (iReaderOf f fs) o := by
  cases o with
  | getitem k =>
    simp only [iPullOf, AList.hasKey]
    rcases opt_cases (AList.get? f k) with hk | ⟨sl, hk⟩
    · simp only [hk, Option.isSome_none, Bool.false_eq_true, if_false, dictLikeRead, iReaderOf, lookup_cutF]
    · simp only [hk, Option.isSome_some, if_true, dictLikeRead, iReaderOf]
      cases sl <;> rfl
  | get k dflt =>
    simp only [iPullOf, AList.hasKey]
    rcases opt_cases (AList.get? f k) with hk | ⟨sl, hk⟩
    · simp only [hk, Option.isSome_none, Bool.false_eq_true, if_false, dictLikeRead, iReaderOf, lookup_cutF]
    · simp only [hk, Option.isSome_some, if_true, dictLikeRead, iReaderOf]
      cases sl <;> rfl
  | contains k =>
    simp only [iPullOf]
    cases hk : AList.get? f k with
    | none =>
      simp only [dictLikeRead, iReaderOf, List.map_append]
      refine congrArg (fun b => some (Res.bool b)) (decide_eq_decide.mpr ?_)
      simp only [List.mem_append, mem_keys_filter _ (fun k => !(AList.hasKey f k)), mem_keys_cutF]
    | some sl =>
      cases sl with
      | deleted => simp only [cutF_allP]
      | val v =>
        have hm := mem_localItems_of_get? f k v hk
        simp only [dictLikeRead, iReaderOf, List.map_append, List.mem_append, hm, true_or]
  | items => simp only [iPullOf, pullOf, cutF_allP]
  | keys => simp only [iPullOf, pullOf, cutF_allP]
  | values => simp only [iPullOf, pullOf, cutF_allP]
  | copy => simp only [iPullOf, pullOf, cutF_allP]
  | bool => simp only [iPullOf, pullOf, cutF_allP]
  | eq other => simp only [iPullOf, pullOf, cutF_allP]
  | ne other => simp only [iPullOf, pullOf, cutF_allP]
  | popitem => rfl
  | setitem k v => rfl
  | delitem k => rfl
  | clear => rfl
  | pop k d => rfl
  | setdefault k d => rfl
  | update ps => rfl

theorem dictLikeRead_of_isRead (r : Reader) (o : Op) (hr : isRead o = true) :
    ∃ res, dictLikeRead r o = some res := by
  cases o <;> simp only [isRead, reduceCtorEq] at hr <;> exact ⟨_, rfl⟩

/-! ## instance state -/

theorem Ref_setInst {σ : FState} {a : State} (h : Ref σ a) (i : InstId) (y : Inst)
    (hy : y.cls < a.classes.length) : Ref (Frames.setInst σ i y) (C17.setInst a i y) where
  sim :=
    { classes := h.sim.classes
      ndesc := h.sim.ndesc
      insts := congrArg (fun l => l.set i y) h.sim.insts
      owner := h.sim.owner
      other := h.sim.other }
  inv := ⟨WF_setInst a h.inv.wf i y hy, NoShared_congr rfl h.inv.ns, AllCoherent_congr rfl h.inv.co⟩
  finv := ⟨h.finv.noAlias, h.finv.map_lt, h.finv.objs_len, h.finv.objs_lt⟩

/-- `self[key]` inside an instance-view method -/
theorem iGetF_refines {σ : FState} {a : State} (h : Ref σ a) (f : Frame) (c : ClassId)
    (hc : c < a.classes.length) (s : DescId) (hd : a.descOf c = some s) (k : Key) :
    (iGetF σ f c (σ.objOf s) k).2 = iGet a f c s k ∧ Ref (iGetF σ f c (σ.objOf s) k).1 a := by
  unfold iGetF iGet
  cases AList.get? f k with
  | none => exact tGetF_refines h c hc s hd k
  | some sl => cases sl <;> exact ⟨rfl, h⟩

/-- **writes through an attached instance view**: the new `local`, the result, and the class store
    (which the method only reads — possibly materialising the owner's frame) -/
theorem iWrite_refines {σ : FState} {a : State} (h : Ref σ a) (f : Frame) (c : ClassId)
    (hc : c < a.classes.length) (s : DescId) (hd : a.descOf c = some s) (o : Op) :
    (iWriteF σ f c (σ.objOf s) o).2.1 = (iWrite a f c s o).1 ∧
    (iWriteF σ f c (σ.objOf s) o).2.2 = (iWrite a f c s o).2 ∧
    Ref (iWriteF σ f c (σ.objOf s) o).1 a := by
  cases o with
  | setitem k v => exact ⟨rfl, rfl, h⟩
  | update ps => exact ⟨rfl, rfl, h⟩
  | clear =>
    obtain ⟨hv, hr⟩ := tItemsF_refines h c hc s hd
    simp only [iWriteF, iWrite, hv]
    exact ⟨trivial, trivial, hr⟩
  | delitem k =>
    obtain ⟨hv, hr⟩ := iGetF_refines h f c hc s hd k
    simp only [iWriteF, iWrite, hv]
    cases iGet a f c s k <;> exact ⟨rfl, rfl, hr⟩
  | pop k dflt =>
    obtain ⟨hv, hr⟩ := iGetF_refines h f c hc s hd k
    simp only [iWriteF, iWrite, hv]
    cases iGet a f c s k <;> exact ⟨rfl, rfl, hr⟩
  | setdefault k dflt =>
    obtain ⟨hv, hr⟩ := iGetF_refines h f c hc s hd k
    simp only [iWriteF, iWrite, hv]
    cases iGet a f c s k <;> exact ⟨rfl, rfl, hr⟩
  | _ => exact ⟨rfl, rfl, h⟩

/-! ## every method through an instance view -/

/-- an attached instance (`local_storage` = `f`) whose class resolves slot `s` -/
theorem instOp_storage_refines {σ : FState} {a : State} (h : Ref σ a) (i : InstId) (x : Inst) (f : Frame)
    (hx : a.insts[i]? = some x) (hl : x.loc = .storage f) (s : DescId) (hd : a.descOf x.cls = some s)
    (o : Op) :
    (instOpF σ i o).2 = (instOp a i o).2 ∧ Ref (instOpF σ i o).1 (instOp a i o).1 := by
  have hc : x.cls < a.classes.length := h.inv.wf.inst_lt i x hx
  have hd' : σ.descOf x.cls = some s := by rw [← h.sim.descOf]; exact hd
  have hx' : σ.insts[i]? = some x := by rw [← h.sim.insts]; exact hx
  simp only [instOpF, instOp, hx, hx', hl, hd, hd']
  cases hr : isRead o with
  | true =>
    obtain ⟨res, hres⟩ := dictLikeRead_of_isRead (iReader a f x.cls s) o hr
    have hcut := iread_cutF f (tFrames a x.cls s) o
    rw [← iReader_eq, hres] at hcut
    simp only [if_true, hres]
    cases hp : iPullOf f o with
    | none =>
      rw [hp] at hcut
      simp only [hcut, Option.getD_some]
      exact ⟨trivial, h⟩
    | some p =>
      rw [hp] at hcut
      simp only [pull_frames, pwalk_tFrames h.sim x.cls s hd' (h.coherentF x.cls hc), hcut, Option.getD_some]
      exact ⟨trivial, Ref_pull h _ (h.obj_lt x.cls s hd) _ _⟩
  | false =>
    obtain ⟨_, hnone⟩ := isRead_false o hr
    obtain ⟨hf, hres, href⟩ := iWrite_refines h f x.cls hc s hd o
    simp only [Bool.false_eq_true, if_false, hnone, hf, hres]
    exact ⟨trivial, Ref_setInst href i _ hc⟩

/-- **`instRead_refines` / `instWrite_refines` in one: every method through an instance view** —
    attached (reads: `local` first, the class lookup pulled only as far as needed; writes: into
    `local`, incl. the `clear()` quirk KF-C17-a, which both models have) or detached (a plain dict). -/
theorem instOp_refines {σ : FState} {a : State} (h : Ref σ a) (i : InstId) (o : Op) :
    (instOpF σ i o).2 = (instOp a i o).2 ∧ Ref (instOpF σ i o).1 (instOp a i o).1 := by
  cases hx : a.insts[i]? with
  | none =>
    have hx' : σ.insts[i]? = none := by rw [← h.sim.insts]; exact hx
    simp only [instOpF, instOp, hx, hx']
    exact ⟨trivial, h⟩
  | some x =>
    have hx' : σ.insts[i]? = some x := by rw [← h.sim.insts]; exact hx
    have hc : x.cls < a.classes.length := h.inv.wf.inst_lt i x hx
    cases hl : x.loc with
    | plain m =>
      simp only [instOpF, instOp, hx, hx', hl]
      exact ⟨trivial, Ref_setInst h i _ hc⟩
    | storage f =>
      cases hd : a.descOf x.cls with
      | none =>
        have hd' : σ.descOf x.cls = none := by rw [← h.sim.descOf]; exact hd
        simp only [instOpF, instOp, hx, hx', hl, hd, hd']
        exact ⟨trivial, h⟩
      | some s => exact instOp_storage_refines h i x f hx hl s hd o

/-- reads through an instance view leave model A's state alone -/
theorem instRead_refines {σ : FState} {a : State} (h : Ref σ a) (i : InstId) (o : Op) :
    (instOpF σ i o).2 = (instOp a i o).2 := (instOp_refines h i o).1

theorem instWrite_refines {σ : FState} {a : State} (h : Ref σ a) (i : InstId) (o : Op) :
    Ref (instOpF σ i o).1 (instOp a i o).1 := (instOp_refines h i o).2

end Flatland.C17.Frames.Proofs
