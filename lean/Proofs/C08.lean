/-
C08 — The element tree stays a tree: parent, children, root and path agree.

Proved here:
* `treeinv_of_wp`: the local invariant (every child's stored pointer is its holder's id) and a
  root without parent give the global clause: from any node, following stored pointers walks
  exactly its holders up to the root.
* `stepAt_wp`: a call on any element of the tree preserves the local invariant of the whole
  tree as soon as it preserves the header and the local invariant of the element it is applied
  to (the frame rule: nothing outside the target changes).
* node-level preservation for the mutators whose new children are Element arguments or scalar
  wrappers is in `Proofs/C08Step.lean` when present.
-/
import Flatland.C08
import Flatland.Spec.C08
import Proofs.Lemmas.TreeHdr
namespace Flatland.C08.Proofs
open Flatland.Tree Flatland.PyList Flatland.C08 Flatland.C08.Spec

theorem wpL_iff (p : Nat) (ks : List Node) :
    wpL p ks = true ↔ ∀ k ∈ ks, k.parent = some p ∧ wp k = true := by
  induction ks with
  | nil => simp [wpL]
  | cons k ks ih =>
    simp only [wpL, Bool.and_eq_true, beq_iff_eq, ih, List.mem_cons, forall_eq_or_imp]

theorem wp_iff (n : Node) : wp n = true ↔ ∀ k ∈ n.kids, k.parent = some n.id ∧ wp k = true := by
  cases n with
  | mk i s kids => rw [wp, wpL_iff]; rfl

/-- every node of a well-parented tree is itself well-parented -/
theorem wp_of_anc {root x : Node} {as : List Node} (h : Anc root x as) (hw : wp root = true) : wp x = true := by
  induction h with
  | root => exact hw
  | kid _ hc ih => exact ((wp_iff _).mp ih _ hc).2

/-- **treeinv_of_wp.**  In a well-parented tree whose root has no parent, the stored pointers
    of every node walk exactly its holders, nearest first, and end at the root. -/
theorem treeinv_of_wp {root : Node} (hw : wp root = true) (hr : root.parent = none) : TreeInv root := by
  intro x as h
  induction h with
  | root => exact hr
  | kid hp hc ih => exact ⟨((wp_iff _).mp (wp_of_anc hp hw) _ hc).1, ih⟩

/-- the last holder is the root: the chain of stored pointers leads back to the tree root -/
theorem anc_last {root x : Node} {as : List Node} (h : Anc root x as) : as = [] ∧ x = root ∨ as.getLast? = some root := by
  induction h with
  | root => exact .inl ⟨rfl, rfl⟩
  | @kid p c as' hp _ ih =>
    rcases ih with ⟨h1, h2⟩ | h1
    · subst h1; subst h2; exact .inr rfl
    · right
      cases as' with
      | nil => simp at h1
      | cons a as'' => simpa [List.getLast?_cons_cons] using h1


/-! ### the frame rule: a call on one element leaves the rest of the tree alone -/

/-- what a call must do to the element it is applied to -/
def Good (op : Op) : Prop :=
  ∀ (n : Node) (next : Nat), wp n = true →
    (nodeStep n op next).node.hdr = n.hdr ∧ wp (nodeStep n op next).node = true

theorem parent_of_hdr {a b : Node} (h : a.hdr = b.hdr) : a.parent = b.parent ∧ a.id = b.id := by
  simp only [Node.hdr, Prod.mk.injEq] at h; exact ⟨h.2.1, h.1⟩

mutual
theorem stepAt_wp (op : Op) (hg : Good op) (tid : Nat) :
    ∀ (t : Node) (next : Nat) (r : StepR), wp t = true → stepAt t tid op next = some r →
      r.node.hdr = t.hdr ∧ wp r.node = true
  | .mk i s kids, next, r, hw, hr => by
    rw [stepAt] at hr
    split at hr
    · cases hr; exact hg _ _ hw
    · split at hr
      · cases hr
      · rename_i kids' r' hl
        cases hr
        have := stepAtL_wp op hg tid kids i.id next kids' r' (by rwa [wp] at hw) hl
        exact ⟨rfl, by rw [wp]; exact this⟩
theorem stepAtL_wp (op : Op) (hg : Good op) (tid : Nat) :
    ∀ (ks : List Node) (p : Nat) (next : Nat) (ks' : List Node) (r : StepR), wpL p ks = true →
      stepAtL ks tid op next = some (ks', r) → wpL p ks' = true
  | [], _, _, _, _, _, hr => by rw [stepAtL] at hr; cases hr
  | k :: ks, p, next, ks', r, hw, hr => by
    rw [stepAtL] at hr
    simp only [wpL, Bool.and_eq_true, beq_iff_eq] at hw
    split at hr
    · rename_i r1 h1
      cases hr
      have := stepAt_wp op hg tid k next _ hw.1.2 h1
      simp only [wpL, Bool.and_eq_true, beq_iff_eq]
      exact ⟨⟨by rw [(parent_of_hdr this.1).1]; exact hw.1.1, this.2⟩, hw.2⟩
    · split at hr
      · cases hr
      · rename_i ks2 r2 h2
        cases hr
        have := stepAtL_wp op hg tid ks p next _ _ hw.2 h2
        simp only [wpL, Bool.and_eq_true, beq_iff_eq]
        exact ⟨hw.1, this⟩
end

/-- **inv_step (frame).**  If the call is `Good` for the element it is applied to, one step of a
    history keeps the whole tree well-parented and the root parentless. -/
theorem hstep_wp (s : HState) (h : HOp) (hg : Good h.op) (hw : wp s.root = true) (hr : s.root.parent = none) :
    wp (hstep s h).root = true ∧ (hstep s h).root.parent = none := by
  unfold hstep
  cases hs : stepAt s.root h.target h.op s.next with
  | none => exact ⟨hw, hr⟩
  | some r =>
    have := stepAt_wp h.op hg h.target s.root s.next r hw hs
    exact ⟨this.2, by rw [(parent_of_hdr this.1).1]; exact hr⟩

/-- **inv_reachable (frame).**  Along a history of `Good` calls the tree invariant holds in every state. -/
theorem hrun_treeinv (hs : List HOp) : ∀ (s : HState), (∀ h ∈ hs, Good h.op) → wp s.root = true →
    s.root.parent = none → TreeInv (hrun s hs).root := by
  induction hs with
  | nil => intro s _ hw hr; exact treeinv_of_wp hw hr
  | cons h hs ih =>
    intro s hg hw hr
    have := hstep_wp s h (hg h (by simp)) hw hr
    simpa [hrun] using ih (hstep s h) (fun x hx => hg x (by simp [hx])) this.1 this.2

end Flatland.C08.Proofs
